(* C11 — Readers waiting at the end of a stream are woken by new data (partial: "promptly" is wall-clock).
   Property theorems only (proofs in proofs/WaitP.v and proofs/PipeSyncP.v).
   model/Wait.v: (A) the reader as a function of the confirmed counts it sees at its successive looks,
   (B) the wait protocol of one partition as a transition system (flush = count store, then the
   notification in two steps; waiter = counter increment, locked check-and-register, sleep, wake);
   `wrun (winit c) sched` executes an arbitrary schedule. *)
From LR Require Import lib.Base model.Wait proofs.WaitP model.PipeSync proofs.PipeSyncP.
From LR Require Import gen.Consts.

(* No lost wake-up: in every reachable state, a sleeping waiter is registered, and either nothing became
   readable beyond the position it compared with, or a flush is still in progress (its notification has not
   completed) -- for every interleaving of the flush's steps with the waiter's steps. *)
Theorem C11_no_lost_wakeup : forall c sched cap,
  let s := wrun (winit c) sched in
  wp s = WSleep cap -> reg s = true /\ (cf s <= cap \/ toks s <> []).
Proof. intros c sched cap s H. exact (w_sleep s (WInv_run (winit c) sched (WInv_init c)) cap H). Qed.
Print Assumptions C11_no_lost_wakeup.

(* ... and the pending notification does reach it: completing the oldest flush in progress wakes the waiter, and
   if something is readable beyond its position its next check returns (the reader is woken) *)
Theorem C11_wake_completes : forall c sched cap,
  let s := wrun (winit c) sched in
  wp s = WSleep cap -> cap < cf s -> wp (wstep (wstep (finish_tok s) LWaiter) LWaiter) = WRet.
Proof. intros c sched cap s H1 H2. exact (wake_returns s cap (WInv_run (winit c) sched (WInv_init c)) H1 H2). Qed.
Print Assumptions C11_wake_completes.

(* Empty only if nothing: a waiter that is still asleep when no flush is in progress (the state in which a
   time-out returns an empty result) has seen everything that is readable: the count did not grow since it registered *)
Theorem C11_empty_only_if_nothing : forall c sched cap,
  let s := wrun (winit c) sched in
  wp s = WSleep cap -> toks s = [] -> cf s <= cap.
Proof.
  intros c sched cap s H1 H2.
  destruct (w_sleep s (WInv_run (winit c) sched (WInv_init c)) cap H1) as [_ [H|H]]; [exact H|congruence].
Qed.
Print Assumptions C11_empty_only_if_nothing.

(* Fan-in over n partitions under one reader, and back-to-back waits (LStart may be taken again after a wait has
   ended): the invariant holds for every partition in every reachable state of the product *)
Theorem C11_fan_in : forall cs sched i cap,
  let ss := mrun (map winit cs) sched in
  i < length ss -> wp (nth i ss (winit 0)) = WSleep cap ->
  reg (nth i ss (winit 0)) = true /\ (cf (nth i ss (winit 0)) <= cap \/ toks (nth i ss (winit 0)) <> []).
Proof.
  intros cs sched i cap ss Hi Hw.
  assert (HF : Forall WInv ss).
  { apply minv_run. apply Forall_forall. intros s Hs. apply in_map_iff in Hs as (c & <- & _). apply WInv_init. }
  rewrite Forall_forall in HF. exact (w_sleep _ (HF _ (nth_In ss (winit 0) Hi)) cap Hw).
Qed.
Print Assumptions C11_fan_in.

(* "Returns the next event written": the reader must not step over a record. Statement: over any number of
   read-to-end rounds, for every sequence of (non-decreasing) confirmed counts the reader may see at its looks,
   what it delivered is the run of consecutive indices from its start position, and the position it is left with
   (the one WaitForNewData compares, and the next read starts from) is the first index it did not deliver. *)
Definition C11_no_skip_statement (reload : bool) : Prop :=
  forall n fuel r tr b, r_cached r = false -> mono_from b tr -> r_pos r <= b ->
    match read_rounds n fuel reload r tr with
    | (rounds, _, ok) =>
        ok = true ->
        let d := concat (map fst rounds) in
        d = seq (r_pos r) (length d) /\ last (map snd rounds) (r_pos r) = r_pos r + length d
    end.

(* the two readers of the code: the journal iterator of the dependency re-reads the count, /repo's own iterator
   (RANGE queries) keeps the position of its end-of-data decision *)
Example C11_code_reloads : code_reloads_count = true /\ code_reloads_count_range = false.
Proof. split; reflexivity. Qed.

(* Proved for /repo's own journal iterator (pkg/partition: queries with RANGE): the position left at EOF is the one
   the end-of-data decision was made at, whatever is flushed between any two of its looks *)
Theorem C11_no_skip_range : C11_no_skip_statement code_reloads_count_range.
Proof.
  intros n fuel r tr b Hc Hm Hp.
  pose proof (read_rounds_fixed n fuel r tr b Hc Hm Hp) as H. change code_reloads_count_range with false.
  destruct (read_rounds n fuel false r tr) as [[rounds trf] ok]. destruct H as [H1 H2].
  intros Hok. split; [exact H1|]. exact (H2 Hok _ eq_refl).
Qed.
Print Assumptions C11_no_skip_range.

(* Refuted for the journal iterator of the dependency (github.com/logrange/range, not part of /repo; it is what queries
   without RANGE and the pipe workers read with): the end-of-data decision is made on one look at the count (3), the
   position is taken from a later look (5) -- a flush of two records fell in between; records 3 and 4 are never
   delivered, and the waiter, comparing position 5 with count 5, sleeps. *)
Theorem C11_no_skip_dependency_refuted : ~ C11_no_skip_statement code_reloads_count.
Proof.
  intros H.
  specialize (H 2 5 {| r_pos := 3; r_open := false; r_cached := false |}
                [(OS, 3); (OG, 3); (OC, 5); (OS, 5); (OG, 5); (OC, 5)] 3 eq_refl).
  cbn in H. assert (Hm : 3 <= 3 /\ 3 <= 3 /\ 3 <= 5 /\ 5 <= 5 /\ 5 <= 5 /\ 5 <= 5 /\ True) by (repeat split; lia).
  specialize (H Hm (le_n 3) eq_refl). destruct H as [_ H]. discriminate H.
Qed.
Print Assumptions C11_no_skip_dependency_refuted.

(* Pipe workers: in every reachable state of the pipe protocol (model/PipeSync.v, every schedule, any notification
   order), a source without a charged worker is not behind its last notification: the worker that finishes
   re-checks Pos < LastKnwnPos under the pipe lock, so an event notified while it was finishing starts the next one *)
Theorem C11_pipe_rearm : forall af tags pre c0 sched d,
  let s := run af tags (init pre c0) sched in
  alive s = true ->   (* a deleted pipe's finishing worker starts no successor (startWorker: !pp.deleted) *)
  wrk s = None -> desc s = Some d -> p_chg d = false /\ p_lkp d <= p_pos d.
Proof.
  intros af tags pre c0 sched d s Ha Hw Hd.
  pose proof (r_wrk s (rearm_run af tags (init pre c0) sched Ha (rearm_init pre c0))) as H.
  unfold wrk_ok in H. rewrite Hw, Hd in H. exact H.
Qed.
Print Assumptions C11_pipe_rearm.

(* The client's stream reader (api/client.go Select in stream mode, started at `tail`): whatever is appended in the gaps
   between its requests and while they wait, the handler receives every record appended after the first request was
   resolved, each once, in order -- because the loop continues from the request the server returned also after an
   empty (timed-out) answer. *)
Definition C11_select_statement (advance : bool) : Prop :=
  forall n b d tl, sel_run advance STail n ((b, d) :: tl) = seq (n + b) (d + appended tl).

Theorem C11_select_no_skip : C11_select_statement code_select_advances.
Proof. intros n b d tl. exact (sel_run_tail n b d tl). Qed.
Print Assumptions C11_select_no_skip.

(* a client that re-sends its original request after an empty answer loses the record appended in the gap: 3 records,
   an empty wait, one record appended before the next request reaches the server: `tail` is resolved again, behind it *)
Theorem C11_select_resend_refuted : ~ C11_select_statement false.
Proof. intros H. specialize (H 3 0 0 [(1, 0); (0, 0)]). vm_compute in H. discriminate H. Qed.
Print Assumptions C11_select_resend_refuted.

(* A reader over a source expression that matches no partition (the cursor over no partitions): its waiting request is
   left after one round -- WaitNewData returns when the time-out context is done, the answer is empty -- and the answer's
   continuation request is the same query; with C11_select_no_skip for n = 0 the continuation delivers whatever a partition
   created later holds. *)
Theorem C11_empty_source_returns : forall fuel (Q : Type) (q : Q), 1 <= fuel ->
  empty_wait_loop code_empty_waits_for_ctx fuel = Some 1 /\ empty_continuation code_empty_keeps_query q = Some q.
Proof. intros fuel Q q H. split; [exact (empty_wait_loop_exits fuel H)|reflexivity]. Qed.
Print Assumptions C11_empty_source_returns.

(* the variant whose WaitNewData answers nil at once: the loop is never left, whatever the fuel (the request never returns,
   not even at its time-out) *)
Theorem C11_empty_source_at_once_refuted : forall fuel, empty_wait_loop false fuel = None.
Proof. exact empty_wait_loop_spins. Qed.
Print Assumptions C11_empty_source_at_once_refuted.

(* A waiting reader with a WHERE / RANGE filter over any number of partitions (model part E: the filter above the mixer
   above the journal iterators; Release issued by WaitNewData, selector status of a grown chunk): one round after a wake-up
   returns a matching record iff one is unread, and then exactly one leaves the unread ones (none is lost or returned twice);
   a wake-up by records the filter rejects consumes them and goes back to a real wait (WaitNewData no longer returns at once),
   with no matching record unread. *)
Theorem C11_filtered_round : forall l,
  match fround code_release_reaches code_status_refreshes l with
  | (true, l') => unread_matching l = S (unread_matching l')
  | (false, l') => unread_matching l = 0 /\ unread_matching l' = 0 /\ fwoken l' = false
  end.
Proof. exact fround_spec. Qed.
Print Assumptions C11_filtered_round.

(* a Release that stops at the filter (the mixer's eof flags stay): two partitions at their end, a matching record is appended
   to one: the reader is woken, the round returns nothing, the state is unchanged -- for every number of rounds (the query spins) *)
Theorem C11_filtered_release_stops_refuted : exists l, unread_matching l = 1 /\ fwoken l = true /\
  forall n, frounds false code_status_refreshes n l = (false, l).
Proof.
  exists [{| fs_rest := [true]; fs_eof := true; fs_out := false |}; {| fs_rest := []; fs_eof := true; fs_out := false |}].
  split; [reflexivity|]. split; [reflexivity|]. apply frounds_stuck. reflexivity.
Qed.
Print Assumptions C11_filtered_release_stops_refuted.

(* a selector that keeps the cached status "no record of this chunk is in the range" of a chunk that has grown: the first
   record inside the range appended during the wait is stepped over: the round returns nothing and the record is no longer unread *)
Theorem C11_filtered_stale_status_refuted : exists l l', unread_matching l = 1 /\
  fround code_release_reaches false l = (false, l') /\ unread_matching l' = 0.
Proof.
  exists [{| fs_rest := [true]; fs_eof := true; fs_out := true |}]. eexists. split; [reflexivity|]. split; reflexivity.
Qed.
Print Assumptions C11_filtered_stale_status_refuted.

(* ---- non-vacuity ---- *)
(* a sleeping waiter is reachable; the race "flush between capture and registration" ends with the reader woken;
   a flush after registration wakes it through the notification; without a flush it stays asleep *)
Example C11_nonvacuous :
  wp (wrun (winit 4) [LStart 4; LWaiter; LWaiter]) = WSleep 4 /\
  scen_woken 4 WsHeld = true /\ scen_woken 4 WsSleeping = true /\ scen_woken 4 WsBefore = true /\ scen_woken 4 WsNone = false /\
  wp (wrun (winit 4) [LStart 4; LWaiter; LFlushTo 6; LTokLoad 0; LWaiter]) = WRet /\
  (* the dangerous order for a flag protocol: the notifier's load happens before the waiter's increment *)
  wp (wrun (winit 4) [LStart 4; LFlushTo 6; LTokLoad 0; LWaiter; LWaiter]) = WRet.
Proof. vm_compute. repeat split. Qed.

(* on the refutation's counts the reader that keeps its position delivers 3 and 4 in the second round; the one that
   re-reads the count never does *)
Example C11_reader_demo :
  fst (fst (read_rounds 2 5 code_reloads_count_range {| r_pos := 3; r_open := false; r_cached := false |}
              [(OS, 3); (OG, 3); (OC, 5); (OS, 5); (OG, 5); (OG, 5); (ON, 5); (OG, 5); (OG, 5); (ON, 5); (OG, 5); (OC, 5)])) = [([], 3); ([3; 4], 5)] /\
  fst (fst (read_rounds 2 5 code_reloads_count {| r_pos := 3; r_open := false; r_cached := false |}
              [(OS, 3); (OG, 3); (OC, 5); (OS, 5); (OG, 5); (OC, 5)])) = [([], 5); ([], 5)].
Proof. vm_compute. split; reflexivity. Qed.

(* a pipe state with an idle descriptor is reachable (worker timed out and finished) *)
Example C11_rearm_nonvacuous :
  let e := {| e_ts := 1%Z; e_msg := [x61]; e_flds := []; e_keep := true |} in
  let s := run true [] (init [] 0) (sched_write [e] ++ [LTimeout; LWork]) in
  wrk s = None /\ desc s = Some {| p_pos := 1; p_lkp := 1; p_chg := false |}.
Proof. vm_compute. split; reflexivity. Qed.

(* the limit of WaitTimeout is backend.QueryMaxWaitTimeout as the source has it now (coq/gen/Consts.v is regenerated on every run) *)
Example C11_constants : max_wait_timeout = Z.of_N go_QueryMaxWaitTimeout /\
  wait_timeout_ok 60 = true /\ wait_timeout_ok 61 = false /\ wait_timeout_ok (-1) = false /\ wait_timeout_ok 0 = true.
Proof. repeat split; reflexivity. Qed.
