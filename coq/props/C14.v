(* C14 — A partition is never deleted, re-created or left locked while someone uses it.
   Property theorems only.  The transition system (model/TIndex.v): every Lock()..Unlock() region
   of pkg/tindex/inmem.go is one atomic step of one actor, an iteration of a retry loop is a step
   that changes nothing; actors run client procedures (Write / GetJournal brackets, GetJournalTags
   brackets, the four Visit flavours with early abort, GetJournals + cursor close, Truncate with
   deleteJournal and truncateGlobally).  A schedule is a list of (actor, order-oracle value);
   `trun sched (init ix0 progs)` is the state after the schedule.  Every theorem quantifies over
   all schedules (any length), any number of actors with any programs, any initial partition
   set ix0 (clean: all present, unused, distinct tag lines) and, through the oracle values, over
   every Go map iteration order. *)
From LR Require Import lib.Base model.TIndex proofs.TIndexP.

Definition reach (ix0 : tix) (progs : list (list proc)) (sched : schedule) : state := trun sched (init ix0 progs).

(* readers p = number of outstanding holds on p, summed over all actors *)
Theorem C14_count : forall ix0 progs sched, clean ix0 ->
  let s := reach ix0 progs sched in
  forall p td, get (s_ix s) p = Some td -> t_readers td = Z.of_nat (hsum (s_acts s) p).
Proof. intros ix0 progs sched C s. exact (i_cnt _ (reach_inv ix0 progs sched C)). Qed.
Print Assumptions C14_count.

(* a step that removes a partition from the index is the Delete of an actor inside deleteJournal
   that has it locked exclusively, is its only holder, and nobody else holds it *)
Theorem C14_no_delete_in_use : forall ix0 progs sched i c p td, clean ix0 ->
  let s := reach ix0 progs sched in
  get (s_ix s) p = Some td -> get (s_ix (mstep s (i, c))) p = None ->
  exists a g, nth_error (s_acts s) i = Some a /\ a_ctl a = CDj p DjDelete g /\
    t_excl td = true /\ t_readers td = 1%Z /\ holds a p = 1 /\
    forall j b, j <> i -> nth_error (s_acts s) j = Some b -> holds b p = 0.
Proof.
  intros ix0 progs sched i c p td C s G N. pose proof (reach_inv ix0 progs sched C) as I. fold s in I.
  unfold mstep, mstep_f in N. cbn [fst snd] in N. destruct (nth_error (s_acts s) i) as [a|] eqn:Ha; [|cbn in N; congruence].
  destruct (astep (s_ix s) a c) as [[[ix' a'] pn] r] eqn:E. cbn in N.
  destruct (astep_kills _ _ _ _ _ _ _ p td E G N) as (g & Hc).
  exists a, g. split; auto. split; auto. exact (inv_delete_step s i a p g td I Ha Hc G).
Qed.
Print Assumptions C14_no_delete_in_use.

(* an exclusively locked partition is invisible: its only hold is the locker's; every other actor
   holds nothing of it *)
Theorem C14_invisible : forall ix0 progs sched p td, clean ix0 ->
  let s := reach ix0 progs sched in
  get (s_ix s) p = Some td -> t_excl td = true ->
  t_readers td = 1%Z /\ exists i a, nth_error (s_acts s) i = Some a /\ locker a = Some p /\ holds a p = 1 /\
    forall j b, j <> i -> nth_error (s_acts s) j = Some b -> holds b p = 0.
Proof. intros ix0 progs sched p td C s. exact (inv_excl_unique s p td (reach_inv ix0 progs sched C)). Qed.
Print Assumptions C14_invisible.

(* ... and no acquire path hands out an exclusive or removed partition: whatever
   getOrCreateJournal / GetJournalTags / the waiting visit / the skipping visit's selection return
   is present and not exclusive, before and after the call; a tag line gets a new partition only
   when no partition with that tag line is present *)
Theorem C14_acquire_results : forall ix,
  (forall tag cr ix' p, acq_tags ix tag cr = (ix', AGot p) ->
     exists td', get ix' p = Some td' /\ t_excl td' = false /\
       ((exists td, get ix p = Some td /\ t_excl td = false) \/ (p = length ix /\ find_tag ix tag = None))) /\
  (forall p lk ix' q, acq_id ix p lk = (ix', AGot q) ->
     q = p /\ (exists td, get ix p = Some td /\ t_excl td = false) /\ exists td', get ix' p = Some td' /\ t_excl td' = false) /\
  (forall p ix', wacq ix p = WGot ix' ->
     (exists td, get ix p = Some td /\ t_excl td = false) /\ exists td', get ix' p = Some td' /\ t_excl td' = false) /\
  (forall m p, In p (sel ix m) ->
     (exists td, get ix p = Some td /\ t_excl td = false) /\ exists td', get (inc_all ix (sel ix m)) p = Some td' /\ t_excl td' = false).
Proof.
  intros ix. split; [exact (acq_tags_got ix)|]. split; [exact (acq_id_got ix)|]. split; [exact (wacq_got ix)|exact (sel_got ix)].
Qed.
Print Assumptions C14_acquire_results.

(* system level: whenever a step of an actor increases what that actor holds of p (any acquire
   path of any client procedure), p is present and not exclusive right after the step *)
Theorem C14_acquire_steps : forall ix0 progs sched i c a a' p, clean ix0 ->
  let s := reach ix0 progs sched in
  nth_error (s_acts s) i = Some a -> nth_error (s_acts (mstep s (i, c))) i = Some a' ->
  holds a p < holds a' p ->
  exists td', get (s_ix (mstep s (i, c))) p = Some td' /\ t_excl td' = false.
Proof.
  intros ix0 progs sched i c a a' p C s Ha Ha' H. pose proof (reach_inv ix0 progs sched C) as I. fold s in I.
  unfold mstep, mstep_f in *. cbn [fst snd] in *. rewrite Ha in *.
  destruct (astep (s_ix s) a c) as [[[ix' a2] pn] r] eqn:E. cbn [fst s_acts s_ix] in *.
  rewrite nth_set_nth_same in Ha' by (apply nth_error_Some; congruence). injection Ha' as ->.
  exact (astep_acq _ _ _ _ _ _ _ (proj1 (i_wf _ I i a Ha)) E p H).
Qed.
Print Assumptions C14_acquire_steps.

(* at most one present partition per tag line, always (re-creation only after removal) *)
Theorem C14_one_partition_per_tags : forall ix0 progs sched p q tp tq, clean ix0 ->
  let s := reach ix0 progs sched in
  get (s_ix s) p = Some tp -> get (s_ix s) q = Some tq -> t_tag tp = t_tag tq -> p = q.
Proof. intros ix0 progs sched p q tp tq C s. exact (i_tags _ (reach_inv ix0 progs sched C) p q tp tq). Qed.
Print Assumptions C14_one_partition_per_tags.

(* Release and UnlockExclusively never panic *)
Theorem C14_no_panic : forall ix0 progs sched, clean ix0 -> s_panic (reach ix0 progs sched) = false.
Proof. intros ix0 progs sched C. exact (i_panic _ (reach_inv ix0 progs sched C)). Qed.
Print Assumptions C14_no_panic.

(* the full balance statement: when every actor has finished, all counts are 0 and nothing is exclusive *)
Definition C14_balanced_statement : Prop := forall ix0 progs sched, clean ix0 ->
  let s := reach ix0 progs sched in
  all_finished s = true -> forall p td, get (s_ix s) p = Some td -> t_readers td = 0%Z /\ t_excl td = false.

(* it was false of the code before the fix f6a6360 (gj_releases_failed = false, model/TIndex.v): GetJournals whose
   first journal fails to open left readers = 1 for ever.  (The proof script is written so that
   it also compiles when the switch is flipped after the repair.) *)
Theorem C14_balanced_refuted : gj_releases_failed = false -> ~ C14_balanced_statement.
Proof.
  intros Hf H.
  pose (ix1 := [{| t_tag := 0; t_readers := 0; t_excl := false; t_live := true |}]).
  assert (C : clean ix1). { split; [reflexivity|]. repeat constructor. intros []. }
  specialize (H ix1 [[PQuery [0] 50 (Some 0)]] (repeat (0, 0) 8) C). cbv zeta in H.
  assert (F : all_finished (reach ix1 [[PQuery [0] 50 (Some 0)]] (repeat (0, 0) 8)) = true).
  { revert Hf. vm_compute. intros Hf. first [discriminate Hf | reflexivity]. }
  assert (G : exists td, get (s_ix (reach ix1 [[PQuery [0] 50 (Some 0)]] (repeat (0, 0) 8))) 0 = Some td /\ t_readers td = 1%Z).
  { revert Hf. vm_compute. intros Hf. first [discriminate Hf | eexists; split; reflexivity]. }
  destruct G as (td & G & R). destruct (H F 0 td G) as (R0 & _). rewrite R in R0. discriminate.
Qed.
Print Assumptions C14_balanced_refuted.

(* what is true in general: at quiescence nothing is exclusive and readers p is exactly the number
   of acquisitions lost by clients (a_lost: only the unrepaired GetJournals with a failing journal ever loses one) *)
Theorem C14_balanced_lost : forall ix0 progs sched, clean ix0 ->
  let s := reach ix0 progs sched in
  all_finished s = true -> forall p td, get (s_ix s) p = Some td ->
  t_readers td = Z.of_nat (lsum (s_acts s) p) /\ t_excl td = false.
Proof.
  intros ix0 progs sched C s F p td G. pose proof (reach_inv ix0 progs sched C) as I. fold s in I. split.
  - rewrite (i_cnt _ I p td G). rewrite finished_hsum; auto.
  - exact (finished_no_locker s p td I F G).
Qed.
Print Assumptions C14_balanced_lost.

(* hence the full statement under the hypothesis that no GetJournals call meets a failing journal
   (quiet_proc p = gj_releases_failed || p is not `PQuery _ _ (Some _)`) *)
Theorem C14_balanced_partial : forall ix0 progs sched, clean ix0 ->
  (forall pr, In pr progs -> forallb quiet_proc pr = true) ->
  let s := reach ix0 progs sched in
  all_finished s = true -> forall p td, get (s_ix s) p = Some td -> t_readers td = 0%Z /\ t_excl td = false.
Proof.
  intros ix0 progs sched C Q s F p td G. destruct (C14_balanced_lost ix0 progs sched C F p td G) as (R & X).
  split; auto. rewrite R. fold s. rewrite quiet_lsum; [reflexivity|]. apply trun_quiet. apply init_quiet. exact Q.
Qed.
Print Assumptions C14_balanced_partial.

(* ... and for the code as it is (GetJournals releases the journal it could not open: the switch
   gj_releases_failed of model/TIndex.v, which K runs the model with) the full statement holds *)
Theorem C14_balanced : C14_balanced_statement.
Proof.
  intros ix0 progs sched C s F p td G.
  assert (Q : forall pr, In pr progs -> forallb quiet_proc pr = true).
  { intros pr _. apply forallb_forall. intros q _. unfold quiet_proc. reflexivity. }
  exact (C14_balanced_partial ix0 progs sched C Q F p td G).
Qed.
Print Assumptions C14_balanced.

(* no deadlock: in every reachable state in which somebody has not finished, some actor can take
   a step that is not a retry (in particular: never is every unfinished actor spinning) *)
Theorem C14_progress : forall ix0 progs sched, clean ix0 ->
  let s := reach ix0 progs sched in
  all_finished s = false -> exists i c, snd (mstep_f s i c) = Moved.
Proof. intros ix0 progs sched C s. exact (inv_progress s (reach_inv ix0 progs sched C)). Qed.
Print Assumptions C14_progress.

(* ... and from every reachable state some continuation of the schedule lets every actor finish
   (each non-retry step decreases a measure): no deadlock, no livelock other than by starvation *)
Theorem C14_terminates : forall ix0 progs sched, clean ix0 ->
  exists more, all_finished (reach ix0 progs (sched ++ more)) = true.
Proof.
  intros ix0 progs sched C. destruct (inv_terminates _ (reach_inv ix0 progs sched C)) as (more & H).
  exists more. unfold reach, trun in *. rewrite fold_left_app. exact H.
Qed.
Print Assumptions C14_terminates.

(* what a retry loop waits for: whenever a step of any actor is a retry iteration, some PRESENT
   partition is exclusively locked, its locker is an actor of the system and the locker's next
   step is never a retry (so a spinner never waits for something that left the index) *)
Theorem C14_spin_waits_for_locker : forall ix0 progs sched i c, clean ix0 ->
  let s := reach ix0 progs sched in
  snd (mstep_f s i c) = Spun ->
  exists p td j b, get (s_ix s) p = Some td /\ t_excl td = true /\ nth_error (s_acts s) j = Some b /\
    locker b = Some p /\ forall c', snd (mstep_f s j c') = Moved.
Proof. intros ix0 progs sched i c C s. exact (inv_spin_cause s i c (reach_inv ix0 progs sched C)). Qed.
Print Assumptions C14_spin_waits_for_locker.

(* the waiting visit (Partitions listing, GetJournals) in its acquire loop for the snapshot entry x,
   in any reachable state - in particular after x was locked, deleted and its tag line re-created
   under a new source id while the visit was waiting: (1) if x is not in the index any more the
   iteration skips it and goes on, whatever the tag index says about x's tag line; (2) if the
   iteration is a retry then x itself is present and exclusive and its locker can move *)
Theorem C14_waiting_visit : forall ix0 progs sched i c a x, clean ix0 ->
  let s := reach ix0 progs sched in
  nth_error (s_acts s) i = Some a -> a_ctl a = CTry x ->
  (get (s_ix s) x = None ->
     mstep_f s i c = ({| s_ix := s_ix s; s_acts := set_nth (s_acts s) i (with_ctl a CNext); s_panic := s_panic s |}, Moved)) /\
  (snd (mstep_f s i c) = Spun ->
     exists td j b, get (s_ix s) x = Some td /\ t_excl td = true /\ nth_error (s_acts s) j = Some b /\
       locker b = Some x /\ forall c', snd (mstep_f s j c') = Moved).
Proof.
  intros ix0 progs sched i c a x C s Ha Hc. split.
  - intros G. unfold mstep_f. rewrite Ha. rewrite (astep_try_removed (s_ix s) a c x Hc G).
    rewrite Bool.orb_false_r. reflexivity.
  - exact (inv_try_spin_cause s i c a x (reach_inv ix0 progs sched C) Ha Hc).
Qed.
Print Assumptions C14_waiting_visit.

(* why the removed-partition test of visitWaitingIfLocked must look the SOURCE ID up (smap) and not
   the tag line (tmap): wacq_by_tag (model/TIndex.v; not the code, not run by K) is the iteration
   with the lookup by tag line.  In a state the code reaches - a Partitions listing waits for
   partition 1 while Truncate deletes it and a writer re-creates tag line 1 as partition 2; the
   deleter and the writer have finished, nothing in the index is exclusive - the code's iteration
   skips partition 1, the variant answers "retry" although no actor is left that could ever
   change the state: it would wait for ever *)
Theorem C14_removed_check_by_tags_refuted : exists ix0 progs sched a x,
  clean ix0 /\
  let s := reach ix0 progs sched in
  nth_error (s_acts s) 0 = Some a /\ a_ctl a = CTry x /\ get (s_ix s) x = None /\
  (forall j b, j <> 0 -> nth_error (s_acts s) j = Some b -> finished b = true) /\
  (forall p td, get (s_ix s) p = Some td -> t_excl td = false) /\
  (exists q td, q <> x /\ get (s_ix s) q = Some td /\ t_tag td = tag_of (s_ix s) x) /\
  wacq (s_ix s) x = WRemoved /\ wacq_by_tag (s_ix s) x = WSpin.
Proof.
  exists [{| t_tag := 0; t_readers := 0; t_excl := false; t_live := true |};
          {| t_tag := 1; t_readers := 0; t_excl := false; t_live := true |}].
  exists [[PVisit false false [0; 1] None]; [PTrunc [0; 1] [0; 1] [] false None [] []]; [PWrite 1 true]].
  exists ([(0,0);(0,0);(0,0); (1,1);(1,1);(1,1);(1,1);(1,1); (0,1);(0,1); (1,0);(1,0); (2,0);(2,0)] ++ repeat (1,0) 11 ++ repeat (2,0) 5).
  eexists. exists 1. split.
  { split; [reflexivity|]. repeat constructor; cbn; intuition discriminate. }
  cbv zeta. split; [vm_compute; reflexivity|]. split; [reflexivity|]. split; [vm_compute; reflexivity|].
  split. { intros [|[|[|j]]] b N; [congruence| | |]; vm_compute; intros E; try (injection E as <-; reflexivity); destruct j; discriminate E. }
  split. { intros [|[|[|p]]] td; vm_compute; intros E; try discriminate E; try (injection E as <-; reflexivity); destruct p; discriminate E. }
  split. { exists 2. eexists. split; [discriminate|]. split; vm_compute; reflexivity. }
  split; vm_compute; reflexivity.
Qed.
Print Assumptions C14_removed_check_by_tags_refuted.

(* the limit of GetJournals (50 for a cursor), tested on len(res) AFTER the journal was added: for the
   code as it is (gj_limit_inclusive = true, `len(res) > maxLimit`) the visit is refused exactly when more than
   `limit` partitions were acquired: a condition matching exactly `limit` partitions is served.  The
   refused visit has the (limit+1)-th partition in res: C14_balanced / C14_count cover its release with
   the others (f_keep puts it into res before CFin; after_visit releases the whole of res). *)
Theorem C14_limit : forall n limit, limit_hit n limit = true <-> limit < n.
Proof. intros n limit. exact (limit_hit_incl n limit eq_refl). Qed.
Print Assumptions C14_limit.

(* the comparison before the repair (`len(res) == maxLimit`): exactly `limit` partitions were refused *)
Theorem C14_limit_exact_refused_before_repair : forall limit, limit_hit_g false limit limit = true /\ limit_hit limit limit = false.
Proof. intros limit. split; [apply limit_hit_old; reflexivity|]. destruct (limit_hit limit limit) eqn:E; auto. apply (limit_hit_incl limit limit eq_refl) in E. lia. Qed.
Print Assumptions C14_limit_exact_refused_before_repair.

(* ---- the users of the index, call by call (model/TIndex.v, last section): on an index in which
   nothing is exclusively locked and no count is negative (e.g. any clean index, or any table the
   end-to-end stream reads between two operations of its single client) ---- *)

(* partition.Service.Write: whatever ends the write (all written, Journals.GetOrCreate failing, the
   first record refused, the source failing after accepted records) the partition is acquired once
   and released once: every existing descriptor is what it was, a created partition has count 0 *)
Theorem C14_user_write : forall ix tag o, unlocked ix -> nonneg ix ->
  exists ix', u_write ix tag o = Some ix' /\
    (forall q, q < length ix -> get ix' q = get ix q) /\
    match find_tag ix tag with
    | Some _ => length ix' = length ix
    | None => length ix' = S (length ix) /\ get ix' (length ix) = Some (fresh tag)
    end.
Proof. intros ix tag o U N. exact (u_write_ok ix tag o U N). Qed.
Print Assumptions C14_user_write.

(* cursor.newCursor whose filter cannot be built or whose position cannot be applied: no Release
   panics, no cursor exists, every descriptor is what it was (each acquired partition released once) *)
Theorem C14_user_cursor_error : forall ix m o, unlocked ix -> nonneg ix -> o <> CurOk ->
  exists ix', u_new_cursor ix m o = Some (ix', []) /\ length ix' = length ix /\ forall q, get ix' q = get ix q.
Proof. intros ix m o U N O. exact (u_new_cursor_err ix m o U N O). Qed.
Print Assumptions C14_user_cursor_error.

(* a cursor's life: newCursor adds one to the count of each selected partition, close() takes it
   back: no Release panics and every descriptor is what it was *)
Theorem C14_user_cursor_life : forall ix m, unlocked ix -> nonneg ix ->
  exists ix1 srcs ix', u_new_cursor ix m CurOk = Some (ix1, srcs) /\
    (forall q td, get ix q = Some td -> get ix1 q = Some (add_rd (Z.of_nat (cnt q srcs)) td)) /\
    u_close ix1 srcs = Some ix' /\ length ix' = length ix /\ forall q, get ix' q = get ix q.
Proof. intros ix m U N. exact (u_cursor_life ix m U N). Qed.
Print Assumptions C14_user_cursor_life.

(* the seeded variant C14-6 (position error path: cur.close() and then releaseJournals) breaks it:
   on an unused partition the second Release panics; with another cursor open on the partition that
   cursor's acquisition is consumed and a deleter's GetJournalTags + LockExclusively succeed while it
   is open (with the code's newCursor they fail) *)
Theorem C14_user_cursor_double_release_refuted :
  (u_new_cursor_v6 (ixu 0) [0] CurPosErr = None /\ exists ix', u_new_cursor (ixu 0) [0] CurPosErr = Some (ix', [])) /\
  exists ix' ix'', u_new_cursor_v6 (ixu 1) [0] CurPosErr = Some (ix', []) /\
    (exists td, get ix' 0 = Some td /\ t_readers td = 0%Z) /\
    acq_id ix' 0 true = (ix'', AGot 0) /\ snd (lockx ix'' 0) = true /\
    (exists ix1, u_new_cursor (ixu 1) [0] CurPosErr = Some (ix1, []) /\
       exists ix2, acq_id ix1 0 true = (ix2, AGot 0) /\ snd (lockx ix2 0) = false).
Proof. split; [exact v6_panics|exact v6_consumes]. Qed.
Print Assumptions C14_user_cursor_double_release_refuted.

(* the seeded variant C14-7 (the iterator-failure branch of Write returns without Release): the count
   stays 1 when the write is over, so LockExclusively of a deleter can never succeed *)
Theorem C14_user_write_leak_refuted : exists ix' ix'', u_write_v7 (ixu 0) 0 WrMiddleErr = Some ix' /\
  (exists td, get ix' 0 = Some td /\ t_readers td = 1%Z) /\
  acq_id ix' 0 true = (ix'', AGot 0) /\ snd (lockx ix'' 0) = false.
Proof. exact v7_leaks. Qed.
Print Assumptions C14_user_write_leak_refuted.

(* ---- non-vacuity ---- *)

Definition ix2 : tix := [{| t_tag := 0; t_readers := 0; t_excl := false; t_live := true |};
                         {| t_tag := 1; t_readers := 0; t_excl := false; t_live := true |}].
Example ix2_clean : clean ix2.
Proof. split; [reflexivity|]. repeat constructor; cbn; intuition discriminate. Qed.

(* a reachable state with an exclusive partition and a spinning writer (hypotheses of C14_invisible) *)
Example ex_exclusive_reached :
  let s := reach ix2 [[PTrunc [0; 1] [0; 1] [] false None [] []]; [PWrite 0 true]] [(0,0);(0,0);(0,0);(0,0);(0,0);(1,0);(1,0)] in
  (exists td, get (s_ix s) 0 = Some td /\ t_excl td = true /\ t_readers td = 1%Z) /\
  snd (mstep_f s 1 0) = Spun /\ snd (mstep_f s 0 0) = Moved.
Proof. vm_compute. split; [eexists; split; [reflexivity|split; reflexivity]|split; reflexivity]. Qed.

(* a Delete step that really removes a partition (hypotheses of C14_no_delete_in_use) *)
Example ex_delete_reached :
  let s := reach ix2 [[PTrunc [0; 1] [0; 1] [] false None [] []]; [PWrite 0 true]] [(0,0);(0,0);(0,0);(0,0);(0,0);(0,0)] in
  (exists td, get (s_ix s) 0 = Some td) /\ get (s_ix (mstep s (0, 0))) 0 = None.
Proof. vm_compute. split; [eexists; reflexivity|reflexivity]. Qed.

(* a quiescent state after deletion and re-creation: hypotheses of C14_balanced_partial *)
Example ex_quiescent :
  let s := reach ix2 [[PTrunc [0; 1] [0; 1] [] false None [] []]; [PWrite 0 true]] (repeat (0,0) 20 ++ repeat (1,0) 6) in
  all_finished s = true /\ length (s_ix s) = 3 /\ (exists td, get (s_ix s) 2 = Some td /\ t_tag td = 0 /\ t_readers td = 0%Z).
Proof. vm_compute. split; [reflexivity|split; [reflexivity|eexists; split; [reflexivity|split; reflexivity]]]. Qed.

(* the history of C14_waiting_visit: the waiting visit spins on the exclusively locked partition 1
   (h_wait); the lock holder deletes it, a writer re-creates tag line 1 as partition 2, the holder
   calls UnlockExclusively (h_recreated): the visit's next iteration moves on; and the rest of the
   schedule lets everybody finish with every count 0 *)
Definition progs_rc : list (list proc) := [[PVisit false false [0; 1] None]; [PTrunc [0; 1] [0; 1] [] false None [] []]; [PWrite 1 true]].
Definition h_wait : schedule := [(0,0);(0,0);(0,0); (1,1);(1,1);(1,1);(1,1);(1,1); (0,1);(0,1)].
Definition h_recreated : schedule := h_wait ++ [(1,0);(1,0); (2,0);(2,0); (1,0)].
Example ex_recreate_under_waiting_visit :
  let s1 := reach ix2 progs_rc h_wait in
  let s2 := reach ix2 progs_rc h_recreated in
  let s3 := reach ix2 progs_rc (h_recreated ++ repeat (0,0) 8 ++ repeat (1,0) 10 ++ repeat (2,0) 5) in
  (exists a, nth_error (s_acts s1) 0 = Some a /\ a_ctl a = CTry 1) /\ snd (mstep_f s1 0 0) = Spun /\
  (exists td, get (s_ix s1) 1 = Some td /\ t_excl td = true) /\
  (exists a, nth_error (s_acts s2) 0 = Some a /\ a_ctl a = CTry 1) /\ get (s_ix s2) 1 = None /\
  (exists td, get (s_ix s2) 2 = Some td /\ t_tag td = 1) /\ snd (mstep_f s2 0 0) = Moved /\
  all_finished s3 = true /\
  (forall p td, get (s_ix s3) p = Some td -> t_readers td = 0%Z /\ t_excl td = false).
Proof.
  cbv zeta. split; [eexists; split; vm_compute; reflexivity|]. split; [vm_compute; reflexivity|].
  split; [eexists; split; vm_compute; reflexivity|]. split; [eexists; split; vm_compute; reflexivity|].
  split; [vm_compute; reflexivity|]. split; [eexists; split; vm_compute; reflexivity|].
  split; [vm_compute; reflexivity|]. split; [vm_compute; reflexivity|].
  intros [|[|[|p]]] td; vm_compute; intros E; try discriminate E; try (injection E as <-; split; reflexivity); destruct p; discriminate E.
Qed.


(* the hypotheses of the C14_user_* theorems hold of every clean index *)
Example ex_users_hyp : unlocked ix2 /\ nonneg ix2.
Proof. exact (clean_unlocked ix2 ix2_clean). Qed.

(* GetJournals with limit 2: over exactly 2 partitions the query is served and its cursor holds both;
   over 3 it is refused with all three in res, and everything is released *)
Example ex_limit_exact_served :
  let s := reach ix2 [[PQuery [0; 1] 2 None]] (repeat (0,0) 8) in
  (exists a, nth_error (s_acts s) 0 = Some a /\ a_ctl a = CHold [0; 1]) /\
  (forall p td, get (s_ix s) p = Some td -> t_readers td = 1%Z).
Proof.
  cbv zeta. split; [eexists; split; vm_compute; reflexivity|].
  intros [|[|p]] td; vm_compute; intros E; try (injection E as <-; reflexivity); destruct p; discriminate E.
Qed.
Example ex_limit_refused :
  let ix3 := ix2 ++ [{| t_tag := 2; t_readers := 0; t_excl := false; t_live := true |}] in
  let s := reach ix3 [[PQuery [0; 1; 2] 2 None]] (repeat (0,0) 8) in
  let s' := reach ix3 [[PQuery [0; 1; 2] 2 None]] (repeat (0,0) 14) in
  (exists a, nth_error (s_acts s) 0 = Some a /\ a_ctl a = CFin /\ f_res (a_f a) = [0; 1; 2] /\ f_err (a_f a) = true) /\
  all_finished s' = true /\ (forall p td, get (s_ix s') p = Some td -> t_readers td = 0%Z).
Proof.
  cbv zeta. split; [eexists; split; [|split; [|split]]; vm_compute; reflexivity|]. split; [vm_compute; reflexivity|].
  intros [|[|[|p]]] td; vm_compute; intros E; try (injection E as <-; reflexivity); destruct p; discriminate E.
Qed.
