(* C08 — Tag lines and field lists the system emits parse back to the same values.
   Property theorems only; each is closed by a lemma of proofs/TagsP.v, FieldsP.v, C08RefP.v.
   quote/unquote stand for strconv.Quote/Unquote; QuoteSpec and OracleFacts (model/Tags.v) are the
   hypotheses about them, evaluated by the correspondence check on every recorded answer of the real functions. *)
From LR Require Import lib.Base model.KV model.Tags model.Fields proofs.KVP proofs.TagsP proofs.FieldsP proofs.C08RefP proofs.QuoteInstP proofs.ParsedP.
From Coq Require Import Permutation.

(* ---- the full statements (false of the faithful model, see the _refuted theorems) ---- *)
(* whatever text was accepted, the line printed for its tag set is accepted and denotes that tag set *)
Definition C08_tags_statement (quote : bytes -> bytes) (unquote : bytes -> option bytes) : Prop :=
  forall s m, to_map unquote s = Ok m -> to_map unquote (line quote m) = Ok m.
(* whatever text was accepted, the text printed for its field list is accepted and denotes that list *)
Definition C08_fields_statement (quote : bytes -> bytes) (unquote : bytes -> option bytes) : Prop :=
  forall s f, fields_of_kv unquote s = Ok f -> exists t, as_kv quote f = Ok t /\ fields_of_kv unquote t = Ok f.
(* the provenance fields the pipe worker derives from a source tag line are exactly the tags *)
Definition C08_pipe_provenance_statement (quote : bytes -> bytes) (unquote : bytes -> option bytes) : Prop :=
  forall s m, to_map unquote s = Ok m -> fields_of_kv unquote (line quote m) = Ok (enc_fields (flat m)).

(* ---- tags ---- *)
(* proved part: every canonical tag set whose names and raw-printed values are scanner-safe (tag_safe) *)
Theorem C08_tags_partial : forall quote unquote, QuoteSpec quote unquote ->
  forall m, keys_sorted m = true -> tag_safe m = true -> to_map unquote (line quote m) = Ok m.
Proof. intros quote unquote QS m. exact (tags_roundtrip quote unquote QS m). Qed.
Print Assumptions C08_tags_partial.

(* for ACCEPTED tag sets the names need no hypothesis (every name tag.Parse yields is scanner-safe): the law holds
   whenever every value is safe to print and the two ends of the line are harmless *)
Theorem C08_tags_accepted_partial : forall quote unquote, QuoteSpec quote unquote ->
  forall s m, to_map unquote s = Ok m ->
    forallb (fun kv => tag_value_safe (snd kv)) m = true -> tag_edges_ok m = true ->
    to_map unquote (line quote m) = Ok m.
Proof. exact tags_roundtrip_parsed. Qed.
Print Assumptions C08_tags_accepted_partial.

(* refutations, one per input class; each exhibits an ACCEPTED text *)
Theorem C08_tags_unbalanced_dquote_refuted : forall quote unquote, QuoteSpec quote unquote ->
  exists s m, to_map unquote s = Ok m /\ to_map unquote (line quote m) = Err.
Proof. exact tags_unbalanced_dquote. Qed.
Print Assumptions C08_tags_unbalanced_dquote_refuted.
Theorem C08_tags_trailing_brace_refuted : forall quote unquote, QuoteSpec quote unquote ->
  exists s m, to_map unquote s = Ok m /\ to_map unquote (line quote m) = Err.
Proof. exact tags_trailing_brace. Qed.
Print Assumptions C08_tags_trailing_brace_refuted.
Theorem C08_tags_edge_blank_refuted : forall quote unquote, QuoteSpec quote unquote ->
  exists s m m', to_map unquote s = Ok m /\ to_map unquote (line quote m) = Ok m' /\ m' <> m.
Proof. exact tags_edge_blank. Qed.
Print Assumptions C08_tags_edge_blank_refuted.
Theorem C08_tags_leading_brace_name_refuted : forall (quote : bytes -> bytes) unquote,
  exists s m, to_map unquote s = Ok m /\ to_map unquote (line quote m) = Err.
Proof. exact tags_leading_brace_name. Qed.
Print Assumptions C08_tags_leading_brace_name_refuted.
Theorem C08_tags_leading_dquote_refuted : forall quote unquote, QuoteSpec quote unquote -> OracleFacts quote unquote ->
  exists s m m', to_map unquote s = Ok m /\ to_map unquote (line quote m) = Ok m' /\ m' <> m.
Proof. exact tags_leading_dquote. Qed.
Print Assumptions C08_tags_leading_dquote_refuted.
Theorem C08_tags_leading_backquote_refuted : forall quote unquote, QuoteSpec quote unquote -> OracleFacts quote unquote ->
  exists s m m', to_map unquote s = Ok m /\ to_map unquote (line quote m) = Ok m' /\ m' <> m.
Proof. exact tags_leading_backquote. Qed.
Print Assumptions C08_tags_leading_backquote_refuted.
(* printing is not injective on accepted tag sets: two different sets, one line *)
Theorem C08_tags_injective_refuted : forall quote unquote, QuoteSpec quote unquote -> OracleFacts quote unquote ->
  exists s1 s2 m1 m2, to_map unquote s1 = Ok m1 /\ to_map unquote s2 = Ok m2 /\ m1 <> m2 /\ line quote m1 = line quote m2.
Proof. exact tags_collision. Qed.
Print Assumptions C08_tags_injective_refuted.
(* hence the full statement fails *)
Theorem C08_tags_refuted : forall quote unquote, QuoteSpec quote unquote -> ~ C08_tags_statement quote unquote.
Proof.
  intros quote unquote QS St. destruct (tags_unbalanced_dquote quote unquote QS) as (s & m & H1 & H2).
  rewrite (St s m H1) in H2. discriminate.
Qed.
Print Assumptions C08_tags_refuted.

(* emitting is deterministic: the line does not depend on the order in which the Go map is iterated *)
Theorem C08_canonical : forall quote m ord, keys_sorted m = true -> Permutation ord m ->
  line_ord quote ord = line quote m.
Proof. intros quote m ord. exact (line_ord_perm quote m ord). Qed.
Print Assumptions C08_canonical.

(* ---- fields ---- *)
Theorem C08_fields_partial : forall quote unquote, QuoteSpec quote unquote ->
  forall f, fields_safe quote f = true -> exists t, as_kv quote f = Ok t /\ fields_of_kv unquote t = Ok f.
Proof. intros quote unquote QS f. exact (fields_roundtrip quote unquote QS f). Qed.
Print Assumptions C08_fields_partial.

Theorem C08_fields_name_separator_refuted : forall quote unquote, QuoteSpec quote unquote ->
  exists s f t, fields_of_kv unquote s = Ok f /\ as_kv quote f = Ok t /\ fields_of_kv unquote t = Err.
Proof. exact fields_name_separator. Qed.
Print Assumptions C08_fields_name_separator_refuted.
Theorem C08_fields_unbalanced_dquote_refuted : forall quote unquote, QuoteSpec quote unquote ->
  exists s f t, fields_of_kv unquote s = Ok f /\ as_kv quote f = Ok t /\ fields_of_kv unquote t = Err.
Proof. exact fields_unbalanced_dquote. Qed.
Print Assumptions C08_fields_unbalanced_dquote_refuted.
Theorem C08_fields_edge_blank_refuted : forall quote unquote, QuoteSpec quote unquote ->
  exists s f t f', fields_of_kv unquote s = Ok f /\ as_kv quote f = Ok t /\ fields_of_kv unquote t = Ok f' /\ f' <> f.
Proof. exact fields_edge_blank. Qed.
Print Assumptions C08_fields_edge_blank_refuted.
Theorem C08_fields_quoted_name_refuted : forall quote unquote, QuoteSpec quote unquote -> OracleFacts quote unquote ->
  exists s f t f', fields_of_kv unquote s = Ok f /\ as_kv quote f = Ok t /\ fields_of_kv unquote t = Ok f' /\ f' <> f.
Proof. exact fields_quoted_name. Qed.
Print Assumptions C08_fields_quoted_name_refuted.
Theorem C08_fields_refuted : forall quote unquote, QuoteSpec quote unquote -> ~ C08_fields_statement quote unquote.
Proof.
  intros quote unquote QS St. destruct (fields_name_separator quote unquote QS) as (s & f & t & H1 & H2 & H3).
  destruct (St s f H1) as (t' & H4 & H5). rewrite H2 in H4. injection H4 as <-. rewrite H5 in H3. discriminate.
Qed.
Print Assumptions C08_fields_refuted.

(* ---- pipe provenance: field.Parse(source tag line) ---- *)
Theorem C08_pipe_provenance_partial : forall quote unquote, QuoteSpec quote unquote ->
  forall m, keys_sorted m = true -> tag_safe m = true -> forallb (prov_pair_ok quote) m = true ->
  fields_of_kv unquote (line quote m) = Ok (enc_fields (flat m)).
Proof. intros quote unquote QS m. exact (provenance quote unquote QS m). Qed.
Print Assumptions C08_pipe_provenance_partial.
(* a tag name that is a quoted literal is kept by the tag parser and unquoted by the field parser *)
Theorem C08_pipe_provenance_refuted : forall quote unquote, OracleFacts quote unquote -> ~ C08_pipe_provenance_statement quote unquote.
Proof.
  intros quote unquote (_ & U1 & _) St.
  specialize (St (DQ_X ++ [EQ; x31]) [(DQ_X, [x31])] eq_refl).
  unfold line, line_ord, fields_of_kv in St. cbn in St. fold DQ_X in St. rewrite U1 in St. discriminate.
Qed.
Print Assumptions C08_pipe_provenance_refuted.

(* ---- non-vacuity ---- *)
(* the hypotheses on the oracles are satisfiable *)
Example C08_oracle_hypotheses_consistent : QuoteSpec squote sunquote /\ OracleFacts squote sunquote.
Proof. split; [exact squote_spec|exact squote_facts]. Qed.
(* a safe tag set with values that need quoting, inner quotes, backslashes, braces and non-ASCII bytes *)
Example C08_safe_tags_nontrivial :
  let m := [([x61], [x62; COMMA; EQ; QUOTE; BSL]); ([x62; SP; x63], [x78; QUOTE; x79; QUOTE; RBR; LBR; BSL; xc3; xa9]); ([x7a], [])] in
  keys_sorted m = true /\ tag_safe m = true /\ to_map sunquote (line squote m) = Ok m.
Proof. vm_compute. repeat split. Qed.
(* a safe field list with an empty value, a quoted value and a duplicate name *)
Example C08_safe_fields_nontrivial :
  let f := enc_fields [[x61]; []; [x62]; [x63; COMMA; x64; QUOTE]; [x61]; [x78; SP; x79]] in
  fields_safe squote f = true /\ exists t, as_kv squote f = Ok t /\ fields_of_kv sunquote t = Ok f.
Proof. split; [vm_compute; reflexivity|]. eexists. split; vm_compute; reflexivity. Qed.
