(* C08 — Tag lines and field lists the system emits parse back to the same values.
   Property theorems only; each is closed by a lemma of proofs/TagsP.v, FieldsP.v, C08RefP.v.
   quote/unquote stand for strconv.Quote/Unquote; QuoteSpec and OracleFacts (model/Tags.v) are the
   hypotheses about them, evaluated by the correspondence check on every recorded answer of the real functions. *)
From LR Require Import lib.Base model.KV model.Tags model.Fields proofs.KVP proofs.TagsP proofs.FieldsP proofs.C08RefP proofs.QuoteInstP proofs.ParsedP proofs.TagsInjP.
From Coq Require Import Permutation.

(* ---- the full statements ---- *)
(* whatever text was accepted, the line printed for its tag set is accepted and denotes that tag set
   (false of the code for two input classes, see the _refuted theorems) *)
Definition C08_tags_statement (quote : bytes -> bytes) (unquote : bytes -> option bytes) : Prop :=
  forall s m, to_map unquote s = Ok m -> to_map unquote (line quote m) = Ok m.
(* whatever text was accepted, the text printed for its field list is accepted and denotes that list; stated for a
   variant (fxq: AsKVString, fxl: NewFieldsFromKVString) -- the code is the variant (true, true) = as_kv / fields_of_kv *)
Definition C08_fields_statement_v (fxq fxl : bool) (quote : bytes -> bytes) (unquote : bytes -> option bytes) : Prop :=
  forall s f, fields_of_kv_v fxl unquote s = Ok f ->
    exists t, as_kv_v fxq quote f = Ok t /\ fields_of_kv_v fxl unquote t = Ok f.
(* the provenance fields the pipe worker derives from a source tag line are exactly the tags *)
Definition C08_pipe_provenance_statement (quote : bytes -> bytes) (unquote : bytes -> option bytes) : Prop :=
  forall s m, to_map unquote s = Ok m -> fields_of_kv unquote (line quote m) = Ok (enc_fields (flat m)).

(* ---- tags ---- *)
(* proved part: every canonical tag set whose names are scanner-safe, whose first name does not start with '{' and
   whose raw-printed values have balanced double quotes (tag_safe).  Blanks at an end, leading quote characters, a
   closing brace at the end of the line are no longer conditions: line() quotes such values *)
Theorem C08_tags_partial : forall quote unquote, QuoteSpec quote unquote ->
  forall m, keys_sorted m = true -> tag_safe m = true -> to_map unquote (line quote m) = Ok m.
Proof. intros quote unquote QS m. exact (tags_roundtrip quote unquote QS m). Qed.
Print Assumptions C08_tags_partial.

(* for ACCEPTED tag sets the names need no hypothesis (every name tag.Parse yields is scanner-safe): the law holds
   whenever every value is quoted or has balanced double quotes, and the first name does not start with '{' *)
Theorem C08_tags_accepted_partial : forall quote unquote, QuoteSpec quote unquote ->
  forall s m, to_map unquote s = Ok m -> tag_values_safe m = true -> tag_edges_ok m = true ->
    to_map unquote (line quote m) = Ok m.
Proof. exact tags_roundtrip_parsed. Qed.
Print Assumptions C08_tags_accepted_partial.

(* the two remaining input classes; each exhibits an ACCEPTED text *)
(* (1) a raw-printed value with an unbalanced double quote -- TestTagLine pins that the value a, double quote, pp
   is printed raw *)
Theorem C08_tags_unbalanced_dquote_refuted : forall quote unquote, QuoteSpec quote unquote ->
  exists s m, to_map unquote s = Ok m /\ to_map unquote (line quote m) = Err.
Proof. exact tags_unbalanced_dquote. Qed.
Print Assumptions C08_tags_unbalanced_dquote_refuted.
(* ... two of them in one set: the line is accepted again and denotes ANOTHER set *)
Theorem C08_tags_unbalanced_dquote_other_set_refuted : forall quote unquote, QuoteSpec quote unquote ->
  exists s m m', to_map unquote s = Ok m /\ to_map unquote (line quote m) = Ok m' /\ m' <> m.
Proof.
  intros quote unquote QS. destruct (tags_unbalanced_other_set quote unquote QS) as (H1 & H2 & H3).
  exists (join_pairs (map (fq quote) M_XY)), M_XY, [(A, V_XY)]. split; [exact H1|]. rewrite H2. split; [exact H3|discriminate].
Qed.
Print Assumptions C08_tags_unbalanced_dquote_other_set_refuted.
(* (2) a smallest name starting with '{' (names are printed as they are) *)
Theorem C08_tags_leading_brace_name_refuted : forall (quote : bytes -> bytes) unquote,
  exists s m, to_map unquote s = Ok m /\ to_map unquote (line quote m) = Err.
Proof. exact tags_leading_brace_name. Qed.
Print Assumptions C08_tags_leading_brace_name_refuted.
(* hence the full statement fails *)
Theorem C08_tags_refuted : forall quote unquote, QuoteSpec quote unquote -> ~ C08_tags_statement quote unquote.
Proof.
  intros quote unquote QS St. destruct (tags_unbalanced_dquote quote unquote QS) as (s & m & H1 & H2).
  rewrite (St s m H1) in H2. discriminate.
Qed.
Print Assumptions C08_tags_refuted.

(* What the repair bought: the earlier line() (variant false: quotes only the empty value and values with '=' ',')
   printed these accepted sets so that the line was rejected or denoted another set ... *)
Theorem C08_tags_trailing_brace_unquoted_refuted : forall quote unquote, QuoteSpec quote unquote ->
  exists s m, to_map unquote s = Ok m /\ to_map unquote (line_v false false quote m) = Err.
Proof. exact tags_trailing_brace. Qed.
Print Assumptions C08_tags_trailing_brace_unquoted_refuted.
Theorem C08_tags_edge_blank_unquoted_refuted : forall quote unquote, QuoteSpec quote unquote ->
  exists s m m', to_map unquote s = Ok m /\ to_map unquote (line_v false false quote m) = Ok m' /\ m' <> m.
Proof. exact tags_edge_blank. Qed.
Print Assumptions C08_tags_edge_blank_unquoted_refuted.
Theorem C08_tags_leading_dquote_unquoted_refuted : forall quote unquote, QuoteSpec quote unquote -> OracleFacts quote unquote ->
  exists s m m', to_map unquote s = Ok m /\ to_map unquote (line_v false false quote m) = Ok m' /\ m' <> m.
Proof. exact tags_leading_dquote. Qed.
Print Assumptions C08_tags_leading_dquote_unquoted_refuted.
Theorem C08_tags_leading_backquote_unquoted_refuted : forall quote unquote, QuoteSpec quote unquote -> OracleFacts quote unquote ->
  exists s m m', to_map unquote s = Ok m /\ to_map unquote (line_v false false quote m) = Ok m' /\ m' <> m.
Proof. exact tags_leading_backquote. Qed.
Print Assumptions C08_tags_leading_backquote_unquoted_refuted.
(* ... and printed two different sets as one line *)
Theorem C08_tags_injective_unquoted_refuted : forall quote unquote, QuoteSpec quote unquote -> OracleFacts quote unquote ->
  exists s1 s2 m1 m2, to_map unquote s1 = Ok m1 /\ to_map unquote s2 = Ok m2 /\ m1 <> m2 /\
    line_v false false quote m1 = line_v false false quote m2.
Proof. exact tags_collision. Qed.
Print Assumptions C08_tags_injective_unquoted_refuted.
(* the code prints every one of those sets so that it comes back *)
Theorem C08_tags_repaired_witnesses : forall quote unquote, QuoteSpec quote unquote ->
  Forall (fun m => to_map unquote (line quote m) = Ok m)
    [[(A, [x78; RBR])]; [(A, [SP; x78])]; [(A, DQ_X)]; [(A, BQ_X)]; [(A, [])]; [(A, [QUOTE; QUOTE])]].
Proof. exact tags_repaired_witnesses. Qed.
Print Assumptions C08_tags_repaired_witnesses.

(* ... and no two accepted tag sets share a line any more: the line() of the code is injective on accepted sets, whatever
   their values (a raw-printed value has no ',' and does not start with a double quote, a quoted one is a scanner-
   neutral literal that starts with one).  Full statement, no side condition. *)
Theorem C08_tags_injective : forall quote unquote, QuoteSpec quote unquote ->
  forall s1 s2 m1 m2, to_map unquote s1 = Ok m1 -> to_map unquote s2 = Ok m2 ->
    line quote m1 = line quote m2 -> m1 = m2.
Proof.
  intros quote unquote QS s1 s2 m1 m2 H1 H2. apply (line_injective quote unquote QS).
  - apply SS_keys_sorted. exact (to_map_canonical unquote s1 m1 H1).
  - apply SS_keys_sorted. exact (to_map_canonical unquote s2 m2 H2).
  - apply forallb_forall. exact (to_map_names unquote s1 m1 H1).
  - apply forallb_forall. exact (to_map_names unquote s2 m2 H2).
Qed.
Print Assumptions C08_tags_injective.

(* the line is ONE line: for an accepted set none of whose names holds a line feed the line() of the code contains no
   line feed (a value holding one is written as a quoted literal, and strconv.Quote escapes it: QuoteNoLF).  The LQL
   lexer reads a {tags} literal within one line (C12) *)
Theorem C08_tags_single_line : forall quote unquote, QuoteNoLF quote ->
  forall s m, to_map unquote s = Ok m -> forallb (fun kv => negb (has LF (fst kv))) m = true ->
    has LF (line quote m) = false.
Proof.
  intros quote unquote QN s m Hm. apply (line_single_line quote QN).
  apply SS_keys_sorted. exact (to_map_canonical unquote s m Hm).
Qed.
Print Assumptions C08_tags_single_line.
(* what the line-break repair bought: the earlier valueNeedsQuote (variant nl = false) printed such a value raw; the
   line was accepted back (no C08 violation), but it holds a line feed *)
Theorem C08_tags_line_break_raw_refuted : forall quote unquote, QuoteSpec quote unquote ->
  exists s m, to_map unquote s = Ok m /\ forallb (fun kv => negb (has LF (fst kv))) m = true /\
    has LF (line_v true false quote m) = true /\ to_map unquote (line_v true false quote m) = Ok m.
Proof.
  intros quote unquote QS. destruct (tags_line_break_raw quote unquote QS) as (H1 & H2 & H3).
  exists (A ++ EQ :: quote V_NL), [(A, V_NL)]. split; [exact H1|]. split; [reflexivity|]. split; [exact H2|exact H3].
Qed.
Print Assumptions C08_tags_line_break_raw_refuted.

(* emitting is deterministic: the line does not depend on the order in which the Go map is iterated *)
Theorem C08_canonical : forall quote m ord, keys_sorted m = true -> Permutation ord m ->
  line_ord quote ord = line quote m.
Proof. intros quote m ord. exact (line_ord_perm quote m ord). Qed.
Print Assumptions C08_canonical.

(* ---- fields ---- *)
(* the full statement, for the code: whatever NewFieldsFromKVString accepted is printed by AsKVString as a text that
   NewFieldsFromKVString accepts and that denotes the same list.  No side condition. *)
Theorem C08_fields : forall quote unquote, QuoteSpec quote unquote ->
  C08_fields_statement_v code_fields_quote code_fields_limit_stored quote unquote.
Proof. intros quote unquote QS s f. exact (fields_law quote unquote QS s f). Qed.
Print Assumptions C08_fields.
(* the same for every well-formed binary list, wherever it comes from (stored events, merged lists) *)
Theorem C08_fields_wellformed : forall quote unquote, QuoteSpec quote unquote ->
  forall f, fields_wf f = true -> exists t, as_kv quote f = Ok t /\ fields_of_kv unquote t = Ok f.
Proof. intros quote unquote QS f. exact (fields_roundtrip quote unquote QS f). Qed.
Print Assumptions C08_fields_wellformed.
(* what is accepted is well-formed: pairs of strings of at most 255 bytes (the length byte cannot wrap) *)
Theorem C08_fields_accepted_wellformed : forall unquote s f, fields_of_kv unquote s = Ok f ->
  exists l, f = enc_fields (flat l) /\ Forall pair_le255 l.
Proof. exact fields_accepted_wf. Qed.
Print Assumptions C08_fields_accepted_wellformed.

(* What the repair bought: with the earlier AsKVString (values quoted on ',' '=' only, names never) and the earlier
   255-byte test on the raw piece the statement fails, one witness per class *)
Theorem C08_fields_name_separator_unquoted_refuted : forall quote unquote, QuoteSpec quote unquote ->
  exists s f t, fields_of_kv_v false unquote s = Ok f /\ as_kv_v false quote f = Ok t /\ fields_of_kv_v false unquote t = Err.
Proof. exact fields_name_separator. Qed.
Print Assumptions C08_fields_name_separator_unquoted_refuted.
Theorem C08_fields_unbalanced_dquote_unquoted_refuted : forall quote unquote, QuoteSpec quote unquote ->
  exists s f t, fields_of_kv_v false unquote s = Ok f /\ as_kv_v false quote f = Ok t /\ fields_of_kv_v false unquote t = Err.
Proof. exact fields_unbalanced_dquote. Qed.
Print Assumptions C08_fields_unbalanced_dquote_unquoted_refuted.
Theorem C08_fields_edge_blank_unquoted_refuted : forall quote unquote, QuoteSpec quote unquote ->
  exists s f t f', fields_of_kv_v false unquote s = Ok f /\ as_kv_v false quote f = Ok t /\ fields_of_kv_v false unquote t = Ok f' /\ f' <> f.
Proof. exact fields_edge_blank. Qed.
Print Assumptions C08_fields_edge_blank_unquoted_refuted.
Theorem C08_fields_quoted_name_unquoted_refuted : forall quote unquote, QuoteSpec quote unquote -> OracleFacts quote unquote ->
  exists s f t f', fields_of_kv_v false unquote s = Ok f /\ as_kv_v false quote f = Ok t /\ fields_of_kv_v false unquote t = Ok f' /\ f' <> f.
Proof. exact fields_quoted_name. Qed.
Print Assumptions C08_fields_quoted_name_unquoted_refuted.
Theorem C08_fields_unquoted_refuted : forall quote unquote, QuoteSpec quote unquote -> ~ C08_fields_statement_v false false quote unquote.
Proof.
  intros quote unquote QS St. destruct (fields_name_separator quote unquote QS) as (s & f & t & H1 & H2 & H3).
  destruct (St s f H1) as (t' & H4 & H5). rewrite H2 in H4. injection H4 as <-. rewrite H5 in H3. discriminate.
Qed.
Print Assumptions C08_fields_unquoted_refuted.

(* ---- pipe provenance: field.Parse(source tag line) ---- *)
(* names that are not quoted literals, names and values of at most 255 bytes (the printed form may be longer) *)
Theorem C08_pipe_provenance_partial : forall quote unquote, QuoteSpec quote unquote ->
  forall m, keys_sorted m = true -> tag_safe m = true -> forallb prov_pair_ok m = true ->
  fields_of_kv unquote (line quote m) = Ok (enc_fields (flat m)).
Proof. intros quote unquote QS m. exact (provenance quote unquote QS m). Qed.
Print Assumptions C08_pipe_provenance_partial.
(* the same end to end (pkg/pipe worker + siterator): what the destination partition holds for an event with the fields
   lo copied from the partition with the tag set m is lo followed by the pairs of m, and the Fields text a query emits
   for it parses back to exactly that list -- for the same class of source tag sets *)
Theorem C08_pipe_destination_partial : forall quote unquote, QuoteSpec quote unquote ->
  forall m lo, keys_sorted m = true -> tag_safe m = true -> forallb prov_pair_ok m = true -> Forall pair_le255 lo ->
    let own := enc_fields (flat lo) in
    pipe_fields quote unquote own m = enc_fields (flat (lo ++ m)) /\
    exists t, as_kv quote (pipe_fields quote unquote own m) = Ok t /\
              fields_of_kv unquote t = Ok (enc_fields (flat (lo ++ m))).
Proof. intros quote unquote QS m lo. exact (pipe_destination quote unquote QS m lo). Qed.
Print Assumptions C08_pipe_destination_partial.
(* a source tag value (or name) of more than 255 bytes: the tag set is accepted and its line denotes it, but
   field.Parse fails on the line and the error is dropped -- the copied events carry no provenance field at all *)
Theorem C08_pipe_long_item_refuted : forall quote unquote,
  exists s m, to_map unquote s = Ok m /\ m <> [] /\ to_map unquote (line quote m) = Ok m /\
    forall own, pipe_fields quote unquote own m = own.
Proof.
  intros quote unquote. destruct (pipe_long_value_no_provenance quote unquote) as (H1 & _ & H3 & H4).
  exists (A ++ EQ :: LONGV), [(A, LONGV)]. split; [exact H1|]. split; [discriminate|]. split; [exact H3|exact H4].
Qed.
Print Assumptions C08_pipe_long_item_refuted.
(* the {vars} element of the formatter (forwarder sinks, the shell): the tag line, ',' and the field text.  For the same
   class of tag sets the emitted text is accepted by the field parser and denotes the pairs of the tag set followed
   by the event's fields *)
Theorem C08_format_vars_partial : forall quote unquote, QuoteSpec quote unquote ->
  forall m lo, keys_sorted m = true -> tag_safe m = true -> forallb prov_pair_ok m = true -> m <> [] ->
    Forall pair_le255 lo ->
    exists t, vars_text quote (line quote m) (enc_fields (flat lo)) = Ok t /\
              fields_of_kv unquote t = Ok (enc_fields (flat (m ++ lo))).
Proof. intros quote unquote QS m lo. exact (vars_roundtrip quote unquote QS m lo). Qed.
Print Assumptions C08_format_vars_partial.
(* a tag name that is a quoted literal is kept by the tag parser and unquoted by the field parser *)
Theorem C08_pipe_provenance_refuted : forall quote unquote, OracleFacts quote unquote -> ~ C08_pipe_provenance_statement quote unquote.
Proof.
  intros quote unquote (_ & U1 & _) St.
  specialize (St (DQ_X ++ [EQ; x31]) [(DQ_X, [x31])] eq_refl).
  unfold line, line_v, line_ord_v, fields_of_kv, fields_of_kv_v in St. cbn in St. fold DQ_X in St. rewrite U1 in St. discriminate.
Qed.
Print Assumptions C08_pipe_provenance_refuted.

(* ---- non-vacuity ---- *)
(* the hypotheses on the oracles are satisfiable *)
Example C08_oracle_hypotheses_consistent : QuoteSpec squote sunquote /\ OracleFacts squote sunquote /\ QuoteNoLF squote.
Proof. split; [exact squote_spec|]. split; [exact squote_facts|exact squote_no_lf]. Qed.
(* a safe tag set with values that need quoting for the old and for the new reasons (separators; a blank at an end, a
   leading double quote, a closing brace at the end of the line), balanced inner quotes, backslashes and non-ASCII bytes *)
Example C08_safe_tags_nontrivial :
  let m := [([x61], [x62; COMMA; EQ; QUOTE; BSL]); ([x62; SP; x63], [x78; QUOTE; x79; QUOTE; RBR; LBR; BSL; xc3; xa9]);
            ([x64], [SP; x78]); ([x65], [QUOTE; x78]); ([x7a], [x78; RBR])] in
  keys_sorted m = true /\ tag_safe m = true /\ to_map sunquote (line squote m) = Ok m.
Proof. vm_compute. repeat split. Qed.
(* a field list with an empty name and value, values and names that need quoting for every reason, a duplicate name *)
Example C08_fields_nontrivial :
  let f := enc_fields [[x61]; []; [x62]; [x63; COMMA; x64; QUOTE]; [x61]; [x78; SP; x79]; []; [SP];
                       [LBR; x61; EQ]; [BQ; x78]; [QUOTE; x61; QUOTE]; [x78; RBR]] in
  fields_wf f = true /\ exists t, as_kv squote f = Ok t /\ fields_of_kv sunquote t = Ok f.
Proof. split; [vm_compute; reflexivity|]. eexists. split; vm_compute; reflexivity. Qed.
