(* C04 — Multi-partition reads are the complete, correctly attributed, time-ordered merge.
   Property theorems only; each is closed by lemmas of proofs/MixerP.v, proofs/IterP.v, proofs/OffsetP.v. *)
From LR Require Import lib.Base model.Iter model.Mixer model.Offset proofs.MixerP proofs.IterP proofs.OffsetP.
From LR Require Import gen.Consts.
From Coq Require Import Permutation Sorting.Sorted.
Open Scope Z_scope.

(* The mixer tree as a state machine, for ANY leaf implementation that honours the iterator contract
   (Get = head of what is left, Next = drop it): under every interleaving of Get, Next and Release (which clears
   the eof flags) a tree in a consistent state behaves as a list cursor over the stable merge of its leaves. *)
Theorem C04_mixer_refines_merge : forall (rest : leaf -> list ev) (ok : leaf -> Prop) (bk : bool),
  (forall l, ok l -> ok (fst (l_get l)) /\ rest (fst (l_get l)) = rest l /\ snd (l_get l) = hd_error (rest l)) ->
  (forall l, ok l -> ok (l_next l) /\ rest (l_next l) = tl (rest l)) ->
  forall t ops fuel n, wf rest ok bk t -> Forall plain_op ops ->
    run_ops fuel (mkCur t None None false n) ops = spec_run (content rest bk t) ops.
Proof. intros rest ok bk Hg Hn t ops fuel n W P. exact (run_ops_spec rest ok bk Hg Hn ops fuel t n None false W P). Qed.
Print Assumptions C04_mixer_refines_merge.

(* newCursor's pairwise reduction: for every number n >= 1 of sources and every order in which the map iteration
   meets them there is a tree, and its leaves are exactly the sources in that order (an odd source is carried over) *)
Theorem C04_build_tree : forall srcs : list (nat * leaf), srcs <> [] ->
  exists t, build_tree (map (fun s => MLeaf (fst s) (snd s)) srcs) = Some t /\ mx_leaves t = srcs /\ fresh false t.
Proof. intros srcs N. destruct (build_tree_spec srcs N) as (t & E & F & L). exists t. auto. Qed.
Print Assumptions C04_build_tree.

(* The merged read. srcs: the selected sources with their tags in the order newCursor met them (any n >= 1, any
   order, empty sources and ties allowed, contents unsorted or sorted), bk: the direction.
   out = what the cursor delivers. (1) under every interleaving of Get/Next/Release the cursor is a list cursor
   over out; (2) out is a permutation of the concatenation of what each source alone delivers, every event carrying
   its own source's tag; (3) the events delivered with the tag of source g are exactly source g's events in source
   g's order; (4) if every source delivers in time order so does the merge. *)
Theorem C04_merge : forall (srcs : list (nat * leaf)) (bk : bool),
  srcs <> [] -> NoDup (map fst srcs) -> Forall (fun s => leaf_ok false (snd s)) srcs ->
  exists t0, build_tree (map (fun s => MLeaf (fst s) (snd s)) srcs) = Some t0 /\
    let t := mx_set_backward bk t0 in
    let alone := fun s : nat * leaf => leaf_items leaf_rest (fst s) (l_set_backward bk (snd s)) in
    let out := content leaf_rest bk t in
    (forall ops fuel n, Forall plain_op ops -> run_ops fuel (mkCur t None None false n) ops = spec_run out ops) /\
    Permutation out (concat (map alone srcs)) /\
    (forall s, In s srcs -> filter (fun x => Nat.eqb (it_src x) (fst s)) out = alone s) /\
    (Forall (fun s => StronglySorted (ts_rel bk) (alone s)) srcs -> StronglySorted (ts_rel bk) out).
Proof.
  intros srcs bk N ND F. destruct (dir_tree bk srcs N F) as (t0 & E & Fr & L). exists t0. split; [exact E|]. cbv zeta.
  assert (OK : Forall (fun s => leaf_ok bk (snd s)) (mx_leaves (mx_set_backward bk t0))).
  { rewrite L. apply Forall_forall. intros s Hs. apply in_map_iff in Hs. destruct Hs as (s0 & <- & Hs0). cbn.
    apply leaf_set_backward_ok. eapply Forall_forall in F; eassumption. }
  pose proof (fresh_wf leaf_rest (leaf_ok bk) bk _ Fr OK) as W.
  split; [|split; [|split]].
  - intros ops fuel n P. exact (run_ops_spec leaf_rest (leaf_ok bk) bk (leaf_get_spec bk) (leaf_next_spec bk) ops fuel _ n None false W P).
  - rewrite content_perm, L, map_map. reflexivity.
  - intros s Hs. apply content_filter.
    + rewrite L, map_map. cbn. exact ND.
    + rewrite L. apply in_map_iff. exists s. split; [reflexivity|exact Hs].
  - intros S. apply content_sorted. rewrite L. apply Forall_forall. intros s Hs. apply in_map_iff in Hs.
    destruct Hs as (s0 & <- & Hs0). cbn. eapply Forall_forall in S; eassumption.
Qed.
Print Assumptions C04_merge.

(* a stored partition as newCursor sees it: the journal (any chunk layout; ids increasing, no empty chunk) read through
   the range iterator from a fresh iterator is a well-formed source, and alone it delivers its flat record list *)
Theorem C04_journal_source : forall j, wf_journal j ->
  leaf_ok false (LR j (jit_at 0 0)) /\ leaf_rest (LR j (jit_at 0 0)) = flat j.
Proof.
  intros j W. split.
  - split; [|reflexivity]. split; [exact W|]. cbn. unfold MaxU64, MaxU32. lia.
  - cbn [leaf_rest j_bk jit_at]. rewrite (lr_pos_head j W). apply rest_at_fwd_neg. lia.
Qed.
Print Assumptions C04_journal_source.

(* a source stored in time order delivers in time order in either direction (the hypothesis of (4) for stored data) *)
Theorem C04_sorted_source : forall flat bk p tag, ev_sorted flat ->
  StronglySorted (ts_rel bk) (map (fun e => (e, tag)) (rest_at flat bk p)).
Proof.
  intros flat bk p tag S. pose proof (rest_at_sorted flat bk p S) as R. induction R as [|e l R IH Fa]; cbn; constructor; auto.
  apply Forall_forall. intros x Hx. apply in_map_iff in Hx. destruct Hx as (e' & <- & He'). eapply Forall_forall in Fa; [|exact He'].
  unfold ts_rel, ev_rel, it_ts, ev_ts in *. cbn. exact Fa.
Qed.
Print Assumptions C04_sorted_source.

(* the partition limit: more than 50 matching partitions -> the cursor is refused (never a silent subset);
   up to 50 (exactly 50 included) -> every matching partition is a source of the cursor, in the order they were met *)
Theorem C04_limit : forall (A : Type) (matching : list A),
  ((length matching > merge_limit)%nat -> get_journals merge_limit matching = None) /\
  ((length matching <= merge_limit)%nat -> get_journals merge_limit matching = Some matching).
Proof.
  intros A m. rewrite get_journals_spec. split; intros H.
  - destruct (Nat.leb_spec (length m) merge_limit); [lia|reflexivity].
  - destruct (Nat.leb_spec (length m) merge_limit); [reflexivity|lia].
Qed.
Print Assumptions C04_limit.

(* the comparison before its repair (`len(res) == maxLimit` after adding the partition met): exactly 50 matching partitions
   were refused, although the limit and the text of the error ("no more than 50 journals") allow them *)
Theorem C04_limit_exact_refused_before_repair : forall (A : Type) (matching : list A),
  length matching = merge_limit -> get_journals_eq merge_limit matching = None /\ get_journals merge_limit matching = Some matching.
Proof.
  intros A m H. rewrite get_journals_eq_spec by (unfold merge_limit; lia). rewrite get_journals_spec. rewrite H. split; reflexivity.
Qed.
Print Assumptions C04_limit_exact_refused_before_repair.

(* new_cursor: refused above the limit, otherwise the tree over all sources *)
Theorem C04_new_cursor : forall srcs f p,
  ((length srcs > merge_limit)%nat -> new_cursor srcs f p = None) /\
  ((0 < length srcs <= merge_limit)%nat -> exists t, build_tree (map (fun s => MLeaf (fst s) (snd s)) srcs) = Some t /\
      new_cursor srcs f p = Some (mkCur (apply_pos p t) f None false (length srcs))).
Proof.
  intros srcs f p. unfold new_cursor. rewrite get_journals_spec. split; intros H.
  - destruct (Nat.leb_spec (length srcs) merge_limit); [lia|reflexivity].
  - destruct (Nat.leb_spec (length srcs) merge_limit); [|lia].
    destruct (build_tree_spec srcs) as (t & E & _ & _); [destruct srcs; [cbn in H; lia|discriminate]|].
    exists t. rewrite E. auto.
Qed.
Print Assumptions C04_new_cursor.

(* a partition whose journal cannot be opened (Journals.GetOrCreate fails for it: I/O fault, no file descriptors): whenever
   one of the matching partitions does not open, in whatever order the visit meets them, the cursor is refused; and a
   cursor that is built is the cursor over ALL matching partitions -- never a silent subset *)
Theorem C04_open_failure : forall (opens : nat * leaf -> bool) srcs f p,
  ((exists s, In s srcs /\ opens s = false) -> new_cursor_o opens srcs f p = None) /\
  (forall c, new_cursor_o opens srcs f p = Some c ->
     (forall s, In s srcs -> opens s = true) /\ new_cursor srcs f p = Some c /\ cu_n c = length srcs) /\
  ((forall s, In s srcs -> opens s = true) -> new_cursor_o opens srcs f p = new_cursor srcs f p).
Proof.
  intros opens srcs f p. split; [|split].
  - intros (s & Hi & Hs). exact (new_cursor_o_fail opens srcs f p s Hi Hs).
  - intros c H. exact (new_cursor_o_some opens srcs f p c H).
  - exact (new_cursor_o_all opens srcs f p).
Qed.
Print Assumptions C04_open_failure.

(* partitions removed while a request selects its sources (dropped by TRUNCATE / deleted from the tag index after the visit took
   its snapshot of the matching partitions, before the visit reaches them): they are skipped, and the walk goes on -- a result
   is exactly the snapshot without the removed ones, so every matching partition that still exists is a source; and when
   these all open and are not more than the limit there is a result *)
Theorem C04_removed_during_visit : forall (A : Type) (removed opens : A -> bool) (snap : list A),
  (forall l, get_journals_r removed opens merge_limit snap = Some l ->
     l = filter (fun x => negb (removed x)) snap /\ (forall x, In x l -> opens x = true) /\
     (forall x, In x snap -> removed x = false -> In x l)) /\
  ((forall x, In x snap -> removed x = false -> opens x = true) ->
   (length (filter (fun x => negb (removed x)) snap) <= merge_limit)%nat ->
   get_journals_r removed opens merge_limit snap = Some (filter (fun x => negb (removed x)) snap)).
Proof.
  intros A removed opens snap. split.
  - intros l H. exact (get_journals_r_some removed opens merge_limit snap l H).
  - intros Ho Hl. apply get_journals_r_all; [exact Ho|exact Hl].
Qed.
Print Assumptions C04_removed_during_visit.

(* Release after the end of the data (what crsr.WaitNewData relies on): when every mixer of the tree has reported EOF, Release
   forgets every selection and every eof flag, in nested mixers too. Whatever the sources offer afterwards (`grow`: new
   records became readable behind the mixers' back; any leaf states honouring the iterator contract), the next Get asks
   every source again: it returns the head of the stable merge of what the sources offer now, and the tree is again a
   list cursor over that merge. *)
Theorem C04_release_rereads : forall (rest : leaf -> list ev) (ok : leaf -> Prop) (bk : bool),
  (forall l, ok l -> ok (fst (l_get l)) /\ rest (fst (l_get l)) = rest l /\ snd (l_get l) = hd_error (rest l)) ->
  (forall l, ok l -> ok (l_next l) /\ rest (l_next l) = tl (rest l)) ->
  forall t (grow : nat -> leaf -> leaf), all_eof t -> dir bk t ->
    let t' := mx_map_leaves grow (mx_release t) in
    Forall (fun s => ok (snd s)) (mx_leaves t') ->
    mx_leaves t' = map (fun s => (fst s, grow (fst s) (snd s))) (mx_leaves t) /\
    snd (mx_get t') = hd_error (content rest bk t') /\
    forall ops fuel n, Forall plain_op ops -> run_ops fuel (mkCur t' None None false n) ops = spec_run (content rest bk t') ops.
Proof.
  intros rest ok bk Hg Hn t grow E D t' OK.
  destruct (release_all_eof bk t E D) as (Fr & Lr). destruct (map_leaves_fresh bk grow _ Fr) as (Fm & Lm). fold t' in Fm, Lm.
  pose proof (fresh_wf rest ok bk t' Fm OK) as W.
  split; [rewrite Lm, Lr; reflexivity|]. split.
  - destruct (get_spec rest ok bk Hg t' W) as (_ & _ & G & _). exact G.
  - intros ops fuel n P. exact (run_ops_spec rest ok bk Hg Hn ops fuel t' n None false W P).
Qed.
Print Assumptions C04_release_rereads.

(* non-vacuity: five in-memory sources (one empty, ties, one unsorted), odd carry-over twice; the merge of the
   model run by the operations equals the statement's `out`, forward and backward *)
Example C04_nonvacuous :
  let mk := fun (g : nat) recs => (g, LMem (Z.of_nat g + 1) recs (mkCit 0 false)) in
  let srcs := [mk 0%nat [(1, 1%nat); (5, 2%nat)]; mk 1%nat []; mk 2%nat [(5, 3%nat); (5, 4%nat)];
               mk 3%nat [(9, 5%nat); (2, 6%nat)]; mk 4%nat [(5, 7%nat)]] in
  Forall (fun s => leaf_ok false (snd s)) srcs /\
  match build_tree (map (fun s => MLeaf (fst s) (snd s)) srcs) with
  | Some t => map (fun x => snd (fst x)) (content leaf_rest false t) = [1; 2; 3; 4; 7; 5; 6]%nat /\ height t = 3%nat
  | None => False
  end.
Proof. cbv zeta. split; [repeat constructor; cbn; lia|vm_compute; split; reflexivity]. Qed.

(* the merge limit of the model is the limit newCursor passes to GetJournals now (coq/gen/Consts.v is regenerated
   from /repo on every run) *)
Example C04_constants : merge_limit = go_cursorMaxSources /\ MinTimestamp = go_MinTimestamp /\ MaxTimestamp = go_MaxTimestamp.
Proof. repeat split; reflexivity. Qed.

(* non-vacuity of C04_release_rereads: three sources (a nested mixer over the first two) read to the end: every mixer has
   reported EOF; a record appended to a source under the NESTED mixer is returned by the first Get after Release *)
Example C04_release_nonvacuous :
  let mk := fun (g : nat) recs => (g, LMem (Z.of_nat g + 1) recs (mkCit 0 false)) in
  match build_tree (map (fun s => MLeaf (fst s) (snd s)) [mk 0%nat [(1, 1%nat)]; mk 1%nat [(2, 2%nat)]; mk 2%nat [(3, 3%nat)]]) with
  | Some t0 =>
      let t := fst (mx_get (mx_next (mx_next (mx_next t0)))) in
      let grow := fun (g : nat) (l : leaf) =>
        match l with LMem m recs c => if Nat.eqb g 1 then LMem m (recs ++ [(9, 9%nat)]) c else l | _ => l end in
      all_eof t /\ dir false t /\ height t = 2%nat /\ snd (mx_get t) = None /\
      snd (mx_get (mx_map_leaves grow (mx_release t))) = Some ((9, 9%nat), 1%nat)
  | None => False
  end.
Proof. vm_compute. repeat split; reflexivity. Qed.
