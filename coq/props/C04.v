(* C04 — Multi-partition reads are the complete, correctly attributed, time-ordered merge.
   Property theorems only; each is closed by a lemma of proofs/MixerP.v / proofs/OffsetP.v. *)
From LR Require Import lib.Base model.Iter model.Mixer model.Offset proofs.OffsetP.

(* the partition limit: 50 or more matching partitions -> the cursor is refused (never a silent subset);
   fewer -> every matching partition is a source of the cursor, in the order they were met *)
Theorem C04_limit : forall (A : Type) (matching : list A),
  ((length matching >= merge_limit)%nat -> get_journals merge_limit matching = None) /\
  ((length matching < merge_limit)%nat -> get_journals merge_limit matching = Some matching).
Proof.
  intros A m. rewrite get_journals_spec by (unfold merge_limit; lia). split; intros H.
  - destruct (Nat.ltb_spec (length m) merge_limit); [lia|reflexivity].
  - destruct (Nat.ltb_spec (length m) merge_limit); [reflexivity|lia].
Qed.
Print Assumptions C04_limit.
