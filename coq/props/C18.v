(* C18 — Forwarder: in-order at-least-once delivery; saved position never ahead.
   Property theorems only.  They quantify over EVERY event script [evs] (every sequence of partition
   growth, query outcomes ok/empty/transport error/server error, sink accept/reject, persist ticks,
   stop requests, crashes/restarts, in any order and at any point), over every partition content and
   every event type E.  [trace evs] is what an observer of the sink, the server and the storage sees;
   cur_of / hw_of / pers_of / acc_of recompute from such a trace alone: the position after the last
   accepted batch (a restart resumes where it says), the largest position ever accepted, the last
   position written to forwarder.json, the batches accepted since the last restart. *)
From LR Require Import lib.Base model.Forwarder proofs.ForwarderP model.SyslogSink proofs.SyslogSinkP model.Supervisor proofs.SupervisorP.

(* Every hand-over to the sink (accepted or not, first try or retry) is a non-empty run of consecutive
   partition events in stored order that begins exactly after the last accepted batch: no gap, nothing
   out of order, and a rejected batch leaves the next hand-over at the same position. *)
Theorem C18_order : forall (E : Type) (evs : list (ev E)) t1 s b ok t2,
  trace evs = t1 ++ OSink s b ok :: t2 ->
  s = cur_of t1 /\ b <> [] /\ b = seg (part (final evs)) s (length b).
Proof. exact order_split. Qed.
Print Assumptions C18_order.

(* Without a restart the accepted batches, concatenated, are a prefix of the partition. *)
Theorem C18_prefix : forall (E : Type) (evs : list (ev E)), ~ In ERestart evs ->
  snd (acc_of (trace evs)) = firstn (cur_of (trace evs)) (part (final evs)).
Proof. exact prefix_no_restart. Qed.
Print Assumptions C18_prefix.

(* With restarts: the batches accepted since the last restart are the partition's events from the
   position that restart resumed at, without a gap, up to the current position. *)
Theorem C18_order_since_restart : forall (E : Type) (evs : list (ev E)),
  let '(base, l) := acc_of (trace evs) in
  base + length l = cur_of (trace evs) /\ l = seg (part (final evs)) base (length l).
Proof. exact accepted_segment. Qed.
Print Assumptions C18_order_since_restart.

(* A failed query or a rejected batch is retried with the same request: every request the server
   sees asks for the position after the last accepted batch ... *)
Theorem C18_request : forall (E : Type) (evs : list (ev E)) t1 p t2,
  trace evs = t1 ++ OReq p :: t2 -> p = cur_of t1.
Proof. exact req_split. Qed.
Print Assumptions C18_request.

(* ... and after a rejected batch the next hand-over (whatever failed in between) starts at the
   rejected batch's first event: nothing after it is delivered first. *)
Theorem C18_retry : forall (E : Type) (evs : list (ev E)) t1 s b t2 s' b' ok t3,
  trace evs = t1 ++ OSink s b false :: t2 ++ OSink s' b' ok :: t3 -> Forall (neutral E) t2 -> s' = s.
Proof. exact retry_same. Qed.
Print Assumptions C18_retry.

(* The position written to the storage is never beyond the last accepted batch: at every persist ... *)
Theorem C18_position : forall (E : Type) (evs : list (ev E)) t1 p t2,
  trace evs = t1 ++ OPersisted p :: t2 -> p <= cur_of t1.
Proof. exact persisted_split. Qed.
Print Assumptions C18_position.

(* ... and at every moment in between. *)
Theorem C18_position_always : forall (E : Type) (evs : list (ev E)),
  persisted (final evs) = pers_of (trace evs) /\ persisted (final evs) <= cur_of (trace evs).
Proof. exact persisted_state. Qed.
Print Assumptions C18_position_always.

(* A restart after a stop or crash at any step resumes at the persisted position, which is not beyond
   the first event no accepted batch has covered (cur <= high-water mark). *)
Theorem C18_restart : forall (E : Type) (evs : list (ev E)) t1 p t2,
  trace evs = t1 ++ ORestart p :: t2 -> p = pers_of t1 /\ p <= cur_of t1 /\ cur_of t1 <= hw_of t1.
Proof. exact restart_split. Qed.
Print Assumptions C18_restart.

(* Nothing is skipped, restarts included: every position below the largest position ever accepted
   lies in an accepted batch, which carries the partition's event of that position. *)
Theorem C18_no_skip : forall (E : Type) (evs : list (ev E)) i, i < hw_of (trace evs) ->
  exists t1 s b t2, trace evs = t1 ++ OSink s b true :: t2 /\ s <= i < s + length b /\
                    nth_error b (i - s) = nth_error (part (final evs)) i.
Proof. exact covered. Qed.
Print Assumptions C18_no_skip.

(* Every event is eventually handed over when the environment lets one round succeed: from the
   loop head of a running worker with undelivered events, a successful query of k >= 1 events and an
   accepting sink deliver exactly the next events and move the position past them. *)
Theorem C18_progress : forall (E : Type) (s : st E) k, ph s = AtHead -> stopping s = false -> d_pos s = w_q s ->
  w_q s < length (part s) -> 0 < k ->
  let '(s', o) := run s [EBegin; EQueryRet (QOk k); ESinkRet true; ECommit] in
  let b := seg (part s) (w_q s) k in
  b <> [] /\ o = [OReq (w_q s); OSink (w_q s) b true; OPos (w_q s + length b)] /\
  d_pos s' = w_q s + length b /\ ph s' = AtHead.
Proof. exact progress. Qed.
Print Assumptions C18_progress.

(* the model never leaves its own vocabulary (OOther is only ever written by the harness) *)
Theorem C18_vocabulary : forall (E : Type) (evs : list (ev E)) n, ~ In (OOther n) (trace evs).
Proof. exact other_never. Qed.
Print Assumptions C18_vocabulary.

(* ---- non-vacuity: a script with a failed query, a rejected batch, its retry, a persist between sink
   accept and commit, a crash that loses the last commit, and the re-delivery after the restart ---- *)
Definition ex_script : list (ev nat) :=
  [EAppend [10; 11; 12; 13; 14]; EBegin; EQueryRet QTransportErr; EBegin; EQueryRet (QOk 2); ESinkRet false;
   EBegin; EQueryRet (QOk 3); ESinkRet true; ECommit; EPersist;
   EBegin; EQueryRet QServerErr; EBegin; EQueryRet (QOk 9); ESinkRet true; EPersist; ECommit;
   ERestart; EBegin; EQueryRet (QOk 1); ESinkRet true; ECommit; EStop; EBegin].
Example ex_trace : trace ex_script =
  [OReq 0; OReq 0; OSink 0 [10; 11] false; OReq 0; OSink 0 [10; 11; 12] true; OPos 3; OPersisted 3;
   OReq 3; OReq 3; OSink 3 [13; 14] true; OPersisted 3; OPos 5;
   ORestart 3; OReq 3; OSink 3 [13] true; OPos 4; OExit].
Proof. vm_compute. reflexivity. Qed.
Example ex_marks : cur_of (trace ex_script) = 4 /\ hw_of (trace ex_script) = 5 /\ pers_of (trace ex_script) = 3.
Proof. vm_compute. repeat split. Qed.

(* ---- the syslog sink (model/SyslogSink.v): what "the sink accepted / rejected the batch" means on the wire ----
   For every state of the logger (connected or not, any remaining life of the connection), every script of future
   connection attempts (accepted with any life / refused) and every non-empty batch: one OnEvent call sends a prefix of
   the batch, in order, on the connection(s); it reports success only if it sent the whole batch, and when it reports
   an error nothing after the event whose write failed has been sent - so the forwarder's retry of the same batch
   delivers the failed event before anything that follows it. *)
Theorem C18_sink_batch : forall (E : Type) (l : lg E) (batch : list E), batch <> [] ->
  let '(l', ok) := on_event code_stops_at_first_error l batch true in
  exists j, received l' = received l ++ firstn j batch /\
            (ok = true -> j = length batch) /\ (ok = false -> j < length batch).
Proof.
  intros E l batch NE. pose proof (on_event_stop E batch l true) as H. unfold code_stops_at_first_error.
  destruct (on_event true l batch true) as [l' ok]. destruct H as (j & _ & R & A & B & _).
  exists j. split; [exact R|]. split; [exact A|]. intros F. exact (B F NE).
Qed.
Print Assumptions C18_sink_batch.

(* the statement is false of a loop that goes on after a failed write and returns the last error: the connection
   dies after the first line, the second write fails, the third reconnects and succeeds: the batch is reported
   delivered, the peer has lines 1 and 3 *)
Theorem C18_sink_batch_continue_refuted : ~ (forall (l : lg Z) (batch : list Z), batch <> [] ->
  let '(l', ok) := on_event false l batch true in
  exists j, received l' = received l ++ firstn j batch /\ (ok = true -> j = length batch) /\ (ok = false -> j < length batch)).
Proof.
  intros H. specialize (H (mkLg (Some (Some 1)) [Some None] [[]]) [1; 2; 3]%Z ltac:(discriminate)).
  vm_compute in H. destruct H as (j & R & A & _). specialize (A eq_refl). subst j. discriminate R.
Qed.
Print Assumptions C18_sink_batch_continue_refuted.


(* ---- the supervisor (model/Supervisor.v): several workers, configuration reloads, restarts ----
   [srun true evs (sup0 c)] : the forwarder started with configuration c and driven through ANY list of events: sync
   ticks with or without a new configuration, stopping workers reaching their loop heads, worker starts that fail,
   deliveries, persist ticks, process restarts with any configuration (configurations have distinct worker names:
   Config.Check). *)

(* at most one worker per name can deliver at any moment: the worker map has one entry per name, and every worker that
   was replaced in or dropped from the map had stopped - so two workers never forward the same pipe concurrently, and
   the position a descriptor holds is written by one worker at a time *)
Theorem C18_sup_one_worker_per_name : forall ns c evs, NoDup (keys c) -> Forall valid_ev evs ->
  let s := srun true evs (sup0_f ns c) in
  NoDup (keys (wmap s)) /\ (forall n w, In (n, w) (retired s) -> live w = false).
Proof.
  intros ns c evs ND Hv s. pose proof (srun_inv evs (sup0_f ns c) Hv (sup0_f_inv ns c ND)) as I. fold s in I.
  split; [exact (i_wkeys s I)|exact (retired_not_live s I)].
Qed.
Print Assumptions C18_sup_one_worker_per_name.

(* a sync never moves a position forward and resets it only with the configuration: after any sync, for every configured
   worker the forwarder holds a descriptor with exactly the configured configuration, and that descriptor is either the
   object it held before (same configuration: same position, the worker goes on where it was) or a new object at the
   empty position whose configuration differs from the one held before (redelivery from the beginning, never a skip) *)
Theorem C18_sup_sync_positions : forall s, NoDup (keys (cfg s)) -> forall n k, In (n, k) (cfg s) ->
  exists d, lookup n (descs (do_sync s)) = Some d /\ sd_cfg d = k /\
            ((lookup n (descs s) = Some d) \/
             ((forall od, lookup n (descs s) = Some od -> sd_cfg od <> k) /\ sd_pos d = 0)).
Proof.
  intros s ND n k Hin. destruct (do_sync_lookup s ND n k Hin) as (d & L & C & _ & Hd).
  exists d. split; [exact L|]. split; [exact C|]. destruct Hd as [H|(H1 & H2 & _)]; [left; exact H|right; split; assumption].
Qed.
Print Assumptions C18_sup_sync_positions.

(* progress of the supervisor: from every reachable state, once the configuration stays as it is and the stopping workers
   have reached their loop heads, two syncs later every configured worker runs, alive, on the forwarder's current
   descriptor of its name - whatever happened before (start failures included) *)
Theorem C18_sup_settles : forall ns c evs, NoDup (keys c) -> Forall valid_ev evs ->
  settled (do_sync (exit_all (do_sync (srun true evs (sup0_f ns c))))).
Proof. intros ns c evs ND Hv. apply two_syncs_settle. exact (srun_inv evs (sup0_f ns c) Hv (sup0_f_inv ns c ND)). Qed.
Print Assumptions C18_sup_settles.

(* a sink that cannot be created (sink.NewSink fails for the names [ns]: runWorker returns the error) starts no worker and
   leaves no entry for the name - and the invariants above hold for every such event list too ([SSync _ ns] is an
   event); the progress theorem is about syncs in which every sink can be created *)
Theorem C18_sup_no_sink_no_worker : forall ns s n, sinv s -> in_names n ns = true ->
  (forall w, lookup n (wmap s) = Some w -> sw_state w = 2) ->
  lookup n (wmap (do_sync_f ns s)) = None \/ ~ In n (keys (cfg s)).
Proof. exact no_sink_no_worker. Qed.
Print Assumptions C18_sup_no_sink_no_worker.

(* the code before the repair (a failed start left the worker's state at running): the worker is in the map, marked
   running, not alive, and no number of syncs replaces it *)
Theorem C18_sup_start_failure_unmarked_refuted : forall k,
  lookup 7 (wmap (srun false (SStartFail 7 :: repeat (SSync None []) k) (sup0 [(7, 1)]))) = Some (mkW 0 0 false).
Proof. exact unmarked_start_failure_sticks. Qed.
Print Assumptions C18_sup_start_failure_unmarked_refuted.

(* non-vacuity: a configuration change replaces a worker in two syncs; the kept worker keeps its position *)
Example C18_sup_nonvacuous :
  let s := srun true [SDeliver 1 4; SDeliver 2 3; SSync (Some [(1, 0); (2, 9)]) []; SExit 2; SSync None []] (sup0 [(1, 0); (2, 0)]) in
  view_descs s = [(1, (0, 4)); (2, (9, 0))] /\ view_workers s = [(1, (0, true)); (2, (0, true))] /\ length (retired s) = 1.
Proof. vm_compute. repeat split. Qed.
