(* C20 — Timestamp text is parsed to the instant it denotes, for every supported format (partial).
   Property theorems only (proofs in proofs/GoTimeP.v, RegexP.v, DateFmtP.v, LqlTimeP.v, C20TablesP.v).

   model/DateFmt.v   the terms substitution of pkg/scanner/parser/date (dateMap / regexpMap in table order),
                     NewParser (compile_with: layout scanner + regexp parser + the three flags), Format.Parse
                     (parse_one: unanchored leftmost-first regexp search, time.Parse of the layout, adjustYear /
                     adjustDate), parser.Parse (parse_all: first format that parses);
   model/Regex.v     parser and backtracking matcher for the regexp subset the table generates;
   model/GoTime.v    time.Parse for the layout elements the table generates, civil date <-> Unix days;
   model/LqlTime.v   lql.parseLqlDateTime (trim, lower-case, relative, constants, format list, integer);
   model/DateOk.v    the text a log producer writes for a civil time in a format (render_toks over the user tokens),
                     the instant that text denotes (denotes), and the decidable side condition format_ok;
   gen/DateTables.v  the three tables, REGENERATED from the Go literals on every run (tools/gen_tables_c20.py):
                     the reflective lemmas of proofs/C20TablesP.v are re-run by vm_compute on the tables the
                     code has now, and K (case KTables) compares the generated tables with the running code's.

   `now` is the current date (year, month, day): the only use the code makes of the clock for absolute texts. *)
From LR Require Import lib.Base model.GoTime model.Regex model.DateFmt model.DateOk model.LqlTime gen.DateTables.
From LR Require Import proofs.GoTimeP proofs.RegexP proofs.DateFmtP proofs.LqlTimeP proofs.C20TablesP.
Open Scope Z_scope.

(* ---- the calendar arithmetic under every theorem below: civil date <-> day number, all of Z, both directions ---- *)
Theorem C20_civil_days : forall y m d, valid_date y m d -> civil_from_days (days_from_civil y m d) = (y, m, d).
Proof. exact civil_days_roundtrip. Qed.
Print Assumptions C20_civil_days.

Theorem C20_days_civil : forall z, let '(y, m, d) := civil_from_days z in valid_date y m d /\ days_from_civil y m d = z.
Proof. exact days_civil_roundtrip. Qed.
Print Assumptions C20_days_civil.

(* ---- one format parses its own texts ----
   Full statement: for EVERY format of both tables (collector and LQL), every civil time the format can express
   (years 1000..2999; 1969..2068 for a two-digit year; every month, day, hour, minute, second, millisecond, numeric
   offset, zone name of the table) and every continuation of the line that starts with a separator (or nothing):
   Format.Parse of the format on  text ++ rest  is the instant the text denotes. *)
Definition C20_self_statement : Prop := self_statement.

(* refuted on the tables as they are: the DDDD regexp [A-Z][a-z]{5,7} rejects the nine-letter "Wednesday" *)
Theorem C20_self_refuted : ~ C20_self_statement.
Proof. exact self_refuted. Qed.
Print Assumptions C20_self_refuted.

(* ... and proved for every other format of both tables, for all civil times and continuations, with no enumeration
   of instants: format_ok (decidable, evaluated on the generated tables) implies the statement (format_ok_sound) *)
Theorem C20_self_partial : forall f, In f all_formats -> f <> dddd_format ->
  exists l cf, tokens terms_table f = Some l /\ compile_with terms_table f = Some cf /\
    forall now c rest, civil_ok l c -> sep_ok rest ->
      parse_one now cf (render_toks l c ++ rest) = Some (denotes now l c).
Proof. exact self_of_table. Qed.
Print Assumptions C20_self_partial.

(* the side condition is not specific to these tables: for ANY terms table and format that pass format_ok *)
Theorem C20_format_ok_sound : forall terms f l cf,
  format_ok terms f = true -> tokens terms f = Some l -> compile_with terms f = Some cf ->
  forall now c rest, civil_ok l c -> sep_ok rest ->
  parse_one now cf (render_toks l c ++ rest) = Some (denotes now l c).
Proof. exact format_ok_sound. Qed.
Print Assumptions C20_format_ok_sound.

(* ---- the whole list: first match ----
   Full statement: parser.Parse over the whole list returns, for the text of the k-th format, the instant it denotes. *)
Definition C20_first_match_statement : Prop := first_match_statement known_formats.

(* refuted for the collector's list: "2019/05/25 15:07:09" (format 28, YYYY/MM/DD HH:mm:ss) is claimed by the earlier,
   unanchored "D/M/YY HH:mm" (format 19) through the substring "19/05/25 15:07" and read as 2025-05-19 15:07:00 *)
Theorem C20_first_match_refuted : ~ C20_first_match_statement.
Proof. exact first_match_refuted. Qed.
Print Assumptions C20_first_match_refuted.

(* proved for any list drawn from the tables, any k, any civil time, any continuation, under the one hypothesis that
   no EARLIER format of the list parses the text: then the k-th format is the one that answers, with the right instant *)
Theorem C20_first_match_partial : forall formats, (forall f, In f formats -> In f all_formats) ->
  forall k f, nth_error formats k = Some f -> f <> dddd_format ->
  forall now c rest, civil_ok (the_tokens f) c -> sep_ok rest ->
  let text := render_toks (the_tokens f) c ++ rest in
  (forall j fj, (j < k)%nat -> nth_error formats j = Some fj ->
     exists cj, compile_with terms_table fj = Some cj /\ parse_one now cj text = None) ->
  parse_all now (map (compile_with terms_table) formats) text = Some (k, denotes now (the_tokens f) c).
Proof. exact first_match_partial. Qed.
Print Assumptions C20_first_match_partial.

(* ---- LQL literals ----
   Full statement: an absolute literal written in the k-th LQL format is the Unix nanoseconds of the instant it denotes. *)
Definition C20_lql_abs_statement : Prop := lql_abs_statement.

(* refuted: parseLqlDateTime lower-cases the literal first; "2019-05-25T15:07:09" becomes "...t..." and is read as
   midnight by the later date-only format *)
Theorem C20_lql_abs_refuted : ~ C20_lql_abs_statement.
Proof. exact lql_abs_refuted. Qed.
Print Assumptions C20_lql_abs_refuted.

(* proved for literals that survive trimming and lower-casing, are neither relative nor a constant, and are not
   claimed by an earlier format *)
Theorem C20_lql_abs_partial : forall k f, nth_error lql_formats k = Some f -> f <> dddd_format ->
  forall now c lit, civil_ok (the_tokens f) c ->
  let text := render_toks (the_tokens f) c in
  to_lower (trim_sp lit) = text ->
  parse_relative text = None -> index_of text const_names 0 = None ->
  (forall j fj, (j < k)%nat -> nth_error lql_formats j = Some fj ->
     exists cj, compile_with terms_table fj = Some cj /\ parse_one now cj text = None) ->
  lql_parse now lql_list lit = LAbs (nanos (denotes now (the_tokens f) c)).
Proof. exact lql_abs_partial. Qed.
Print Assumptions C20_lql_abs_partial.

(* an integer literal is exactly that many Unix nanoseconds: every int64, both signs; no date format of the LQL table
   can parse a text made of digits with an optional sign (decided on the generated table), so the integer branch answers *)
Theorem C20_int : forall now v, in_int64 v = true -> lql_parse now lql_list (format_int v) = LAbs v.
Proof.
  intros now v Hv. apply int_literal; [|exact Hv].
  unfold lql_list. rewrite <- lql_c_eq. exact lql_int_safe.
Qed.
Print Assumptions C20_int.

(* relative literals  -<decimal><m|h|d>  denote now minus a duration that is exact over the rationals (truncated to
   a nanosecond), never negative, and monotone in the decimal *)
Theorem C20_relative_literal : forall dec u m sc mult, parse_dec dec = Some (m, sc) -> unit_nanos u = Some mult ->
  parse_relative (x2d :: dec ++ [u]) = Some (rel_duration m sc mult).
Proof. exact relative_literal. Qed.
Print Assumptions C20_relative_literal.

Theorem C20_relative_monotone : forall m sc m' sc' mult, 0 < mult -> 0 <= m -> 0 <= m' ->
  m * 10 ^ Z.of_nat sc' <= m' * 10 ^ Z.of_nat sc ->
  0 <= rel_duration m sc mult <= rel_duration m' sc' mult.
Proof.
  intros m sc m' sc' mult H1 H2 H3 H4. split; [apply rel_nonneg; assumption|apply rel_monotone; assumption].
Qed.
Print Assumptions C20_relative_monotone.

(* ---- non-vacuity ---- *)
(* a Saturday afternoon satisfies civil_ok for every token list, a format of the table satisfies the hypotheses of
   C20_self_partial, and the earlier-format hypothesis of C20_first_match_partial holds for the first format *)
Example C20_civil_ok_nonvacuous : forall l, civil_ok l w_sat.
Proof. exact civil_ok_sat. Qed.

Example C20_self_nonvacuous : In f_iso all_formats /\ f_iso <> dddd_format.
Proof. split; [apply in_by_eqb; vm_compute; reflexivity|discriminate]. Qed.
