(* C20 — Timestamp text is parsed to the instant it denotes, for every supported format (partial).
   Property theorems only (proofs in proofs/GoTimeP.v, RegexP.v, DateFmtP.v, LqlTimeP.v, C20TablesP.v).

   model/DateFmt.v   the terms substitution of pkg/scanner/parser/date (dateMap / regexpMap in table order),
                     NewParser (compile_with: layout scanner + regexp parser + the three flags), Format.Parse
                     (parse_one: unanchored leftmost-first regexp search, time.Parse of the layout, adjustYear /
                     adjustDate), parser.Parse (parse_all: first format that parses);
   model/Regex.v     parser and backtracking matcher for the regexp subset the table generates;
   model/GoTime.v    time.Parse for the layout elements the table generates, civil date <-> Unix days;
   model/LqlTime.v   lql.parseLqlDateTime (trim, lower-case, relative, constants, format list, integer);
   model/DateOk.v    the text a log producer writes for a civil time in a format (render_toks over the user tokens),
                     the instant that text denotes (denotes), and the decidable side condition format_ok;
   gen/DateTables.v  the three tables, REGENERATED from the Go literals on every run (tools/gen_tables_c20.py):
                     the reflective lemmas of proofs/C20TablesP.v are re-run by vm_compute on the tables the
                     code has now, and K (case KTables) compares the generated tables with the running code's.

   `now` is the current date (year, month, day): the only use the code makes of the clock for absolute texts. *)
From LR Require Import lib.Base model.GoTime model.Regex model.DateFmt model.DateOk model.LqlTime gen.DateTables.
From LR Require Import gen.Consts.
From LR Require Import proofs.RegexAbsP proofs.C20FirstP.
From LR Require Import proofs.GoTimeP proofs.RegexP proofs.DateFmtP proofs.LqlTimeP proofs.C20TablesP model.LineParse proofs.LineParseP.
From Coq Require Import Strings.String.
Open Scope Z_scope.

(* ---- the calendar arithmetic under every theorem below: civil date <-> day number, all of Z, both directions ---- *)
Theorem C20_civil_days : forall y m d, valid_date y m d -> civil_from_days (days_from_civil y m d) = (y, m, d).
Proof. exact civil_days_roundtrip. Qed.
Print Assumptions C20_civil_days.

Theorem C20_days_civil : forall z, let '(y, m, d) := civil_from_days z in valid_date y m d /\ days_from_civil y m d = z.
Proof. exact days_civil_roundtrip. Qed.
Print Assumptions C20_days_civil.

(* ---- one format parses its own texts ----
   Full statement: for EVERY format of both tables (collector and LQL), every civil time the format can express
   (years 1000..2999; 1969..2068 for a two-digit year; every month, day, hour, minute, second, millisecond, numeric
   offset, zone name of the table) and every continuation of the line that starts with a separator (or nothing):
   Format.Parse of the format on  text ++ rest  is the instant the text denotes. *)
Definition C20_self_statement : Prop := self_statement.

(* proved for every format of both tables as they are now, for all civil times and continuations, with no enumeration of
   instants: format_ok (decidable, evaluated by vm_compute on the tables regenerated from the Go literals) implies the
   statement (format_ok_sound).  (Before the DDDD regexp was repaired - [A-Z][a-z]{5,7} rejected the nine letters of
   "Wednesday" - format_ok failed for "DDDD, YY-MMM-DD HH:mm:ss ZZZ" and the statement was refuted by that format.) *)
Theorem C20_self : C20_self_statement.
Proof. exact self_holds. Qed.
Print Assumptions C20_self.

(* the side condition is not specific to these tables: for ANY terms table and format that pass format_ok *)
Theorem C20_format_ok_sound : forall terms f l cf,
  format_ok terms f = true -> tokens terms f = Some l -> compile_with terms f = Some cf ->
  forall now c rest, civil_ok l c -> sep_ok rest ->
  parse_one now cf (render_toks l c ++ rest) = Some (denotes now l c).
Proof. exact format_ok_sound. Qed.
Print Assumptions C20_format_ok_sound.

(* ---- the whole list: first match ----
   Statement for a list of formats: parser.Parse over the whole list returns, for the text of its k-th format, the instant
   the text denotes. *)
Definition C20_first_match_statement (formats : list bytes) : Prop := first_match_statement formats.

(* it depends on the order: with "D/M/YY HH:mm" in front of "YYYY/MM/DD HH:mm:ss" (the order both lists had before they
   were repaired) "2019/05/25 15:07:09" is claimed through the substring "19/05/25 15:07" and read as 2025-05-19 15:07:00 *)
Theorem C20_first_match_bad_order_refuted : ~ C20_first_match_statement bad_order.
Proof. exact first_match_bad_order_refuted. Qed.
Print Assumptions C20_first_match_bad_order_refuted.

(* proved for any list drawn from the tables (in particular the collector's and the LQL list as they are), any k, any
   civil time, any continuation, under the one hypothesis that no EARLIER format of the list parses the text: then the k-th
   format is the one that answers, with the right instant.  (The hypothesis is not decided by proof for the lists as they
   are: K samples every format x 24 instants on every run and the oracle names any claiming format.) *)
Theorem C20_first_match_partial : forall formats, (forall f, In f formats -> In f all_formats) ->
  forall k f, nth_error formats k = Some f ->
  forall now c rest, civil_ok (the_tokens f) c -> sep_ok rest ->
  let text := render_toks (the_tokens f) c ++ rest in
  (forall j fj, (j < k)%nat -> nth_error formats j = Some fj ->
     exists cj, compile_with terms_table fj = Some cj /\ parse_one now cj text = None) ->
  parse_all now (map (compile_with terms_table) formats) text = Some (k, denotes now (the_tokens f) c).
Proof. exact first_match_partial. Qed.
Print Assumptions C20_first_match_partial.

(* ---- the text on its own (nothing behind it): which earlier formats can claim it at all? ----
   `known_claims` / `lql_claims` (proofs/C20FirstP.v) hold, for every format k of the regenerated lists, the earlier formats
   whose regexp MAY match somewhere in SOME text format k writes -- an abstract interpretation of the regexp matcher over
   the shapes of the texts (per token the values grouped by length, per position the bytes that occur), sound for every
   civil time (RegexAbsP.a_find_sound, shapes_sound), evaluated by vm_compute. The pairs as they are now: digit-width
   twins (D/DD, M/MM, h/hh, _D/DD: the text with two digits is also the twin's text) and `MM.DD.YY`, whose unescaped dots
   match the colons of a time of day (time.Parse then refuses the text: no instance of a wrong instant is known; K and
   the oracle sample every pair on every run). *)
Theorem C20_claim_pairs :
  pairs_of known_claims =
  [(7, [6]); (13, [12]); (16, [15]); (17, [15; 16]); (18, [15; 16; 17]); (20, [19]); (23, [22]); (26, [25]); (27, [25; 26]);
   (29, [28]); (31, [30]); (34, [33]); (55, [54]); (56, [54; 55]); (57, [54]); (58, [54; 57])]%nat /\
  pairs_of lql_claims =
  [(7, [6]); (13, [12]); (16, [15]); (17, [15; 16]); (18, [15; 16; 17]); (20, [19]); (23, [22]); (26, [25]); (27, [25; 26]);
   (29, [28]); (31, [30]); (34, [33]); (55, [54]); (56, [54; 55]); (57, [54]); (58, [54; 57]); (59, [54]); (60, [54]);
   (62, [54]); (63, [54]); (65, [54]); (66, [54])]%nat.
Proof. split; [exact known_pairs|exact lql_pairs]. Qed.
Print Assumptions C20_claim_pairs.

(* a format with no pair in the table (43 of the collector's 59, 46 of the 68 LQL formats): its text, on its own, is parsed
   by it, to the instant it denotes -- for every civil time, with NO hypothesis about the other formats of the list *)
Theorem C20_first_match_own : forall k f, nth_error known_formats k = Some f -> nth_error known_claims k = Some [] ->
  forall now c, civil_ok (the_tokens f) c ->
  parse_all now collector_list (render_toks (the_tokens f) c) = Some (k, denotes now (the_tokens f) c).
Proof. intros k f Hk Hc. exact (first_match_own_clean known_formats known_claims known_sub known_claims_ok k f Hk Hc). Qed.
Print Assumptions C20_first_match_own.

(* every format: the hypothesis about earlier formats shrinks to the pairs of the table -- each listed earlier format does
   not parse the text or reads the same instant -- and then the list answers with the denoted instant *)
Theorem C20_first_match_own_partial : forall k f cl, nth_error known_formats k = Some f -> nth_error known_claims k = Some cl ->
  forall now c, civil_ok (the_tokens f) c ->
  let text := render_toks (the_tokens f) c in
  (forall j cj, In j cl -> nth_error collector_list j = Some (Some cj) ->
     parse_one now cj text = None \/ parse_one now cj text = Some (denotes now (the_tokens f) c)) ->
  exists j, (j <= k)%nat /\ parse_all now collector_list text = Some (j, denotes now (the_tokens f) c).
Proof. intros k f cl Hk Hc. exact (first_match_own known_formats known_claims known_sub known_claims_ok k f cl Hk Hc). Qed.
Print Assumptions C20_first_match_own_partial.

(* the same for the LQL list, as an absolute literal (blanks around it allowed): neither the earlier-format hypothesis nor
   the "not relative, not a constant" hypotheses of C20_lql_abs_partial are left (every text of an LQL format starts
   with a byte other than '-' and holds a byte that is no letter: lql_literals_safe, decided on the shapes) *)
Theorem C20_lql_abs_own : forall k f, nth_error lql_formats k = Some f -> nth_error lql_claims k = Some [] ->
  forall now c lit, civil_ok (the_tokens f) c -> trim_sp lit = render_toks (the_tokens f) c ->
  lql_parse now lql_list lit = LAbs (nanos (denotes now (the_tokens f) c)).
Proof. exact lql_abs_own_clean. Qed.
Print Assumptions C20_lql_abs_own.

(* ---- am/pm in lower case ----
   The regular expression of the term P admits am|AM|pm|PM; time.Parse reads its layout element PM in upper case only (and
   month / weekday names in any case). Format.Parse therefore tries the upper-cased text when time.Parse refused the matched
   text and the layout has PM (parse_one = parse_one_v code_ampm_retry; the self theorems above are untouched: on the
   texts a format writes the first attempt succeeds). *)
Theorem C20_ampm_retry : forall now cf text m, rx_find (cf_rx cf) text = Some m -> go_parse (cf_elems cf) m = None ->
  has_pm (cf_elems cf) = true ->
  parse_one now cf text = match go_parse (cf_elems cf) (to_upper m) with
                          | Some t => Some (instant (adjust now cf t))
                          | None => None
                          end.
Proof. exact parse_one_retry. Qed.
Print Assumptions C20_ampm_retry.

(* the collector's list on four lines with the marker in lower case: the 12-hour format answers with the afternoon
   (31/12/2019 23:59:59; 2019-03-11 14:34:55 twice; 1/2/2019 03:04) *)
Theorem C20_ampm_lowercase :
  parse_all w_now collector_list (B "31/12/2019 11:59:59 pm job done") = Some (11%nat, (1577836799, 0)) /\
  parse_all w_now collector_list (B "2019-03-11 02:34:55 pm") = Some (48%nat, (1552314895, 0)) /\
  parse_all w_now collector_list (B "Mar 11, 2019 2:34:55 pm x") = Some (0%nat, (1552314895, 0)) /\
  parse_all w_now collector_list (B "1/2/2019 3:04 am") = Some (13%nat, (1548990240, 0)).
Proof.
  unfold collector_list. rewrite <- known_c_eq. destruct ampm_lower_witnesses as (H1 & H2 & H3 & H4 & _).
  repeat split; assumption.
Qed.
Print Assumptions C20_ampm_lowercase.

(* refuted for Format.Parse without the retry (parse_all_v false): no 12-hour format reads the marker, and a later format
   claims the text with ANOTHER instant -- 11:59:59 in the morning by "DD/MM/YYYY HH:mm:ss", 2020-02-01 by "D/M/YY" -- or
   nothing dates the line *)
Theorem C20_ampm_lowercase_no_retry_refuted :
  parse_all_v false w_now collector_list (B "31/12/2019 11:59:59 pm job done") = Some (15%nat, (1577793599, 0)) /\
  nth_error known_formats 15 = Some (B "DD/MM/YYYY HH:mm:ss") /\
  parse_all_v false w_now collector_list (B "1/2/2019 3:04 am") = Some (34%nat, (1580515200, 0)) /\
  parse_all_v false w_now collector_list (B "Mar 11, 2019 2:34:55 pm x") = None /\
  (forall now fs text, parse_all_v code_ampm_retry now fs text = parse_all now fs text).
Proof.
  unfold collector_list. rewrite <- known_c_eq. destruct ampm_lower_witnesses as (_ & _ & _ & _ & _ & H1 & H2 & H3 & H4).
  repeat split; try assumption. intros now fs text. apply parse_all_v_code.
Qed.
Print Assumptions C20_ampm_lowercase_no_retry_refuted.

(* ---- LQL literals ----
   Full statement: an absolute literal written in the k-th LQL format is the Unix nanoseconds of the instant it denotes.
   [lower] = the format list sees the lower-cased literal (the code before the fix of parseLqlDateTime); the code as it
   is (code_lowers_absolute = false, which K runs the model with) lower-cases only for the relative form and the constants *)
Definition C20_lql_abs_statement (lower : bool) : Prop := lql_abs_statement lower.

(* refuted for the old code: "2019-05-25T15:07:09" became "...t..." and was read as midnight by the later date-only format *)
Theorem C20_lql_abs_lowercased_refuted : ~ C20_lql_abs_statement true.
Proof. exact lql_abs_lowercased_refuted. Qed.
Print Assumptions C20_lql_abs_lowercased_refuted.

(* proved for the code: every literal (blanks around it allowed) written in a format of the LQL table that is neither relative nor a constant when lower-cased and is not claimed by an earlier format *)
Theorem C20_lql_abs_partial : forall k f, nth_error lql_formats k = Some f ->
  forall now c lit, civil_ok (the_tokens f) c ->
  let text := render_toks (the_tokens f) c in
  trim_sp lit = text ->
  parse_relative (to_lower text) = None -> index_of (to_lower text) const_names 0 = None ->
  (forall j fj, (j < k)%nat -> nth_error lql_formats j = Some fj ->
     exists cj, compile_with terms_table fj = Some cj /\ parse_one now cj text = None) ->
  lql_parse now lql_list lit = LAbs (nanos (denotes now (the_tokens f) c)).
Proof. exact lql_abs_partial. Qed.
Print Assumptions C20_lql_abs_partial.

(* an integer literal is exactly that many Unix nanoseconds: every int64, both signs; no date format of the LQL table
   can parse a text made of digits with an optional sign (decided on the generated table), so the integer branch answers *)
Theorem C20_int : forall now v, in_int64 v = true -> lql_parse now lql_list (format_int v) = LAbs v.
Proof.
  intros now v Hv. apply int_literal; [|exact Hv].
  unfold lql_list. rewrite <- lql_c_eq. exact lql_int_safe.
Qed.
Print Assumptions C20_int.

(* relative literals  -<decimal><m|h|d>  denote now minus a duration that is exact over the rationals (truncated to
   a nanosecond), never negative, and monotone in the decimal *)
Theorem C20_relative_literal : forall dec u m sc mult, parse_dec dec = Some (m, sc) -> unit_nanos u = Some mult ->
  parse_relative (x2d :: dec ++ [u]) = Some (rel_duration m sc mult).
Proof. exact relative_literal. Qed.
Print Assumptions C20_relative_literal.

Theorem C20_relative_monotone : forall m sc m' sc' mult, 0 < mult -> 0 <= m -> 0 <= m' ->
  m * 10 ^ Z.of_nat sc' <= m' * 10 ^ Z.of_nat sc ->
  0 <= rel_duration m sc mult <= rel_duration m' sc' mult.
Proof.
  intros m sc m' sc' mult H1 H2 H3 H4. split; [apply rel_nonneg; assumption|apply rel_monotone; assumption].
Qed.
Print Assumptions C20_relative_monotone.

(* ---- named constants: minute / hour / day / week (any case, blanks around) ----
   the literal is dispatched to the constant before the format list sees it; the instant is not later than now and less
   than one period back *)
Theorem C20_constant_literal : forall now fs k n, nth_error const_names k = Some n ->
  lql_parse now fs (B n) = LConst k.
Proof. intros now fs k n H. destruct k as [|[|[|[|k]]]]; cbn in H; try discriminate; try (destruct k; discriminate); injection H as <-; reflexivity. Qed.
Print Assumptions C20_constant_literal.

Theorem C20_constant_bounds : forall k t, const_instant k t <= t < const_instant k t + const_period k.
Proof. exact const_bounds. Qed.
Print Assumptions C20_constant_bounds.

(* hour, day and week are the start of the current hour / day / week (a Sunday), to the nanosecond, and monotone in now *)
Theorem C20_constant_boundary : forall k t t', (1 <= k)%nat ->
  const_instant k t mod (if Nat.eqb k 1 then 3600000000000 else 86400000000000) = 0 /\
  weekday_of_days (const_instant 3 t / 86400000000000) = 0 /\
  (t <= t' -> const_instant k t <= const_instant k t').
Proof. intros k t t' Hk. split; [apply const_aligned; exact Hk|split; [apply const_week_sunday|apply const_mono; exact Hk]]. Qed.
Print Assumptions C20_constant_boundary.

(* `minute` is not the start of the minute: only the seconds of now are taken off, its nanoseconds stay
   (now.Add(-s * time.Second)), so the instant even goes back while now advances: 10.9 s -> 0.9 s, 11.1 s -> 0.1 s *)
Theorem C20_constant_minute_keeps_nanoseconds :
  (forall t, const_instant 0 t mod 1000000000 = t mod 1000000000) /\
  exists t t', t <= t' /\ const_instant 0 t' < const_instant 0 t.
Proof.
  split; [|exact const_minute_not_monotone].
  intros t. unfold const_instant. cbv zeta.
  replace (t - t / 1000000000 mod 60 * 1000000000) with (t + (- (t / 1000000000 mod 60)) * 1000000000) by ring.
  apply Z_mod_plus_full.
Qed.
Print Assumptions C20_constant_minute_keeps_nanoseconds.

(* ---- at the start of a log line read by the collector (model/LineParse.v: lineParser.parse) ----
   The line parser remembers the format that dated the last line and tries it first; otherwise, in state 'parsing', it
   asks the whole list; after 10 consecutive lines that nothing parsed it goes 'skipping' and gives the next 10, 20, 40 ...
   lines the last detected date without looking at them. *)

(* the remembered format is the line's format: the record gets the instant the text denotes, in EVERY parser state
   (any counters, parsing or skipping), for every format of the collector's table, every civil time, every
   separator-led rest of the line *)
Theorem C20_line_current_format : forall f, In f known_formats ->
  forall k cf, nth_error collector_list k = Some (Some cf) -> compile_with terms_table f = Some cf ->
  forall now s c rest, lp_cur s = Some k -> civil_ok (the_tokens f) c -> sep_ok rest ->
  lp_step now collector_list s (render_toks (the_tokens f) c ++ rest) = (s, Some (denotes now (the_tokens f) c)).
Proof.
  intros f Hin k cf Hk Hcf now s c rest Hcur Hc Hs.
  destruct (self_of_table f (in_or_app _ _ _ (or_introl Hin))) as (l & cf' & Ht & Hcf' & Hp).
  rewrite Hcf in Hcf'. injection Hcf' as <-.
  assert (El : the_tokens f = l) by (unfold the_tokens; rewrite Ht; reflexivity). rewrite El in *.
  apply (step_by_cur code_resets_counter now collector_list s _ k cf _ Hcur Hk). apply Hp; assumption.
Qed.
Print Assumptions C20_line_current_format.

(* in state 'parsing', a line that the remembered format (if any) does not parse is given what the whole list says,
   and that format is remembered *)
Theorem C20_line_detect : forall now fs s text k tm,
  (forall j cf, lp_cur s = Some j -> nth_error fs j = Some (Some cf) -> parse_one now cf text = None) ->
  lp_state s = Parsing -> parse_all now fs text = Some (k, tm) ->
  snd (lp_step now fs s text) = Some tm /\ lp_cur (fst (lp_step now fs s text)) = Some k.
Proof. intros now fs s text k tm. exact (step_parsing code_resets_counter now fs s text k tm). Qed.
Print Assumptions C20_line_detect.

(* a record's date is never invented: it is the last detected date, or what a format of the list reads off the line *)
Theorem C20_line_answers : forall now fs s text r, snd (lp_step now fs s text) = r ->
  r = lp_last s \/ (exists k cf, nth_error fs k = Some (Some cf) /\ parse_one now cf text = r /\ r <> None) \/
  (exists k tm, parse_all now fs text = Some (k, tm) /\ r = Some tm).
Proof. intros now fs s text r. exact (step_answers code_resets_counter now fs s text r). Qed.
Print Assumptions C20_line_answers.

(* Full statement for lines: after ANY history of lines, a line the format list can date is given that date.
   Refuted: after ten lines without a date (a stack trace) the parser is 'skipping' and the next dated line is
   given no date at all (the last detected one: none yet) *)
Definition C20_line_statement : Prop := forall now history text k tm,
  parse_all now collector_list text = Some (k, tm) ->
  snd (lp_step now collector_list (fst (lp_run now collector_list lp_init history)) text) = Some tm.

Theorem C20_line_refuted : ~ C20_line_statement.
Proof.
  intros H.
  specialize (H w_now (repeat (B "  at some.stack.Frame(x)") 10) (B "2019-05-25 15:07:09 done") 49%nat (1558796829, 0)).
  unfold collector_list in H. rewrite <- known_c_eq in H.
  assert (E : parse_all w_now known_c (B "2019-05-25 15:07:09 done") = Some (49%nat, (1558796829, 0))) by (vm_compute; reflexivity).
  specialize (H E). vm_compute in H. discriminate H.
Qed.
Print Assumptions C20_line_refuted.

(* the parser state reachable by any history keeps its counters inside their bounds (so 'skipping' is entered only
   after 10 consecutive undated lines: every detection clears the counter) *)
Theorem C20_line_counters : forall now fs history,
  lp_ok (fst (lp_run now fs lp_init history)).
Proof.
  intros now fs history. exact (lp_ok_run now fs history lp_init lp_ok_init).
Qed.
Print Assumptions C20_line_counters.

(* ---- non-vacuity ---- *)
(* a Saturday afternoon satisfies civil_ok for every token list, a format of the table satisfies the hypotheses of
   C20_self, and the earlier-format hypothesis of C20_first_match_partial holds for the first format *)
Example C20_civil_ok_nonvacuous : forall l, civil_ok l w_sat.
Proof. exact civil_ok_sat. Qed.

Example C20_self_nonvacuous : In f_iso all_formats.
Proof. apply in_by_eqb; vm_compute; reflexivity. Qed.

(* how many formats C20_first_match_own / C20_lql_abs_own cover, and one of them *)
Example C20_own_nonvacuous :
  List.length (filter (fun cl => match cl with [] => true | _ => false end) known_claims) = 43%nat /\
  List.length (filter (fun cl => match cl with [] => true | _ => false end) lql_claims) = 46%nat /\
  nth_error known_formats 49 = Some (B "YYYY-MM-DD HH:mm:ss") /\ nth_error known_claims 49 = Some [].
Proof. repeat split; vm_compute; reflexivity. Qed.

(* the line parser's thresholds are the ones line_parser.go has now (coq/gen/Consts.v is regenerated on every run) *)
Example C20_constants : max_fail = go_lineParserMaxFailCnt /\ lp_max_skip lp_init = go_lineParserMaxSkipCnt.
Proof. split; reflexivity. Qed.
