From LR Require Import lib.Base model.GoTime.
Theorem C20_placeholder : True.
Proof. exact I. Qed.
Print Assumptions C20_placeholder.
