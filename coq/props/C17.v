(* C17 — Collector ships every byte of a tailed file once, in order; offsets resume.
   Property theorems only (formats pure and text: the payload of a record is the line).

   They quantify over: every buffer size B > 0 (B = max(RecordMaxSizeBytes, 16)), every EventMaxRecords,
   every file content, every start state s0 of the scanner (the first start on any content, or the state
   right after a replaced file was noticed), and EVERY schedule [evs] that does not replace the file ("a
   watched file that only grows"): appends of any bytes in any pieces, single ReadSlice turns of the
   worker, the consumer taking / confirming or not confirming an event, the worker's setOffset, persist
   ticks, stop, the worker's exit, crash/restart and sync at any point, in any order.
   [trc] is what the consumer, the storage and the sleep hooks observe; hpos_of / conf_of / ends_of /
   pers_of / marks_of recompute from such a trace alone: the file offset after the last event handed
   over, after the last event whose Confirm() returned true, the list {where this run began} + {ends of
   the confirmed events of this run}, the last Offset written to scanner.json. *)
From LR Require Import lib.Base lib.Seg model.LineReader model.Scanner proofs.LineReaderP proofs.ScannerP.

(* --- the ReadSlice environment model: what is returned is a prefix of the unread bytes; a line ends in its
       only '\n'; a full buffer has exactly B bytes and no '\n'; EOF returns the rest, shorter than B, no '\n' --- *)
Theorem C17_read_slice : forall B l x st, read_slice B l = (x, st) ->
  x = firstn (length x) l /\
  match st with
  | RsLine => exists pre, x = pre ++ [nl] /\ ~ In nl pre /\ length x <= B
  | RsFull => length x = B /\ ~ In nl x
  | RsEof => x = l /\ ~ In nl l /\ length l < B
  end.
Proof.
  intros B l x st H. split; [exact (read_slice_prefix B l x st H)|].
  destruct st; [exact (read_slice_line B l x H)|exact (read_slice_full B l x H)|exact (read_slice_eof B l x H)].
Qed.
Print Assumptions C17_read_slice.

(* --- bytes --- every event handed to the consumer carries the NEXT bytes of the file, cut into records that
   each end a line or are a split piece at least B long: nothing dropped, nothing repeated, nothing reordered *)
Theorem C17_bytes : forall B rpe, 0 < B -> forall s0, start_state s0 -> forall evs t1 recs t2,
  no_replace evs -> trc code B rpe s0 evs = t1 ++ OHand recs :: t2 ->
  recs <> [] /\ Forall (good_rec B) recs /\
  concat recs = seg (file (fin code B rpe s0 evs)) (hpos_of t1) (length (concat recs)).
Proof. exact (hand_split code). Qed.
Print Assumptions C17_bytes.

(* the payloads handed over since the current run began, concatenated, are the file's bytes from where
   the run began up to the end of the last record handed over *)
Theorem C17_bytes_run : forall B rpe, 0 < B -> forall s0, start_state s0 -> forall evs, no_replace evs ->
  let m := marks_of (trc code B rpe s0 evs) in
  t_base m + length (t_acc m) = t_hpos m /\ t_acc m = seg (file (fin code B rpe s0 evs)) (t_base m) (length (t_acc m)).
Proof. exact (run_segment code). Qed.
Print Assumptions C17_bytes_run.

(* without a restart: a prefix of the file *)
Theorem C17_bytes_prefix : forall B rpe, 0 < B -> forall s0 evs, start_state s0 -> no_replace evs ->
  ~ In ERestart evs -> ~ In ESync evs ->
  t_acc (marks_of (trc code B rpe s0 evs)) = firstn (hpos_of (trc code B rpe s0 evs)) (file (fin code B rpe s0 evs)).
Proof. exact (prefix_run code). Qed.
Print Assumptions C17_bytes_prefix.

(* at every moment every byte of the file is in exactly one place: confirmed | in the batch being
   collected or offered | in the partial line | not read yet; the partial line holds no '\n' *)
Theorem C17_accounting : forall B rpe, 0 < B -> forall s0, start_state s0 -> forall evs, no_replace evs ->
  let s := fin code B rpe s0 evs in
  file s = firstn (woff s) (file s) ++ concat (recs s) ++ buf s ++ skipn (rpos s) (file s) /\
  Forall (good_rec B) (recs s) /\ ~ In nl (buf s) /\ rpos s <= length (file s).
Proof. exact (accounting code). Qed.
Print Assumptions C17_accounting.

(* "up to the last complete line": whenever the worker goes to sleep at the end of the file, its batch is empty,
   everything has been read, and the file is exactly: the bytes handed over (all of them confirmed) followed by
   the reader's partial line, which holds no '\n' - nothing but an unterminated last line is outstanding.
   [lp] selects the reader (LineReader.read_line_turn): the statement holds for the code's reader ... *)
Definition C17_up_to_last_line_statement (lp : variant) : Prop :=
  forall B rpe, 0 < B -> forall s0, start_state s0 -> forall evs, no_replace evs ->
  let s := fin lp B rpe s0 evs in let s' := fst (step lp B rpe s ERead) in
  ph s = PRead -> forall p o, snd (step lp B rpe s ERead) = OSleep p :: o ->
  recs s' = [] /\ rpos s' = length (file s') /\ ~ In nl (buf s') /\
  file s' = firstn (hpos_of (trc lp B rpe s0 evs)) (file s') ++ buf s' /\
  hpos_of (trc lp B rpe s0 evs) + length (buf s') = length (file s') /\
  conf_of (trc lp B rpe s0 evs) = hpos_of (trc lp B rpe s0 evs).
Theorem C17_up_to_last_line : C17_up_to_last_line_statement code.
Proof.
  intros B rpe HB s0 S0 evs NR s s' P p o H.
  pose proof (sleep_kind code B rpe s p o eq_refl H) as ->.
  exact (eof_sleep code B rpe HB s0 S0 evs o NR P H).
Qed.
Print Assumptions C17_up_to_last_line.
(* ... and is FALSE of the reader the code had before the repair (readLine looped in 200 ms sleeps while a
   partial line was pending, so the worker could not flush): "a\nb" with EventMaxRecords 2 - the worker sleeps
   on "b" while the complete line "a\n" sits in its batch, handed over to nobody *)
Theorem C17_up_to_last_line_looping_reader_refuted : ~ C17_up_to_last_line_statement looping_reader.
Proof.
  intros H. specialize (H 16 2 (Nat.lt_0_succ 15) (init [x61; x0a; x62]) (start_init _) [ERead]).
  assert (NR : no_replace [ERead]) by (intros b c [F|[]]; discriminate).
  destruct (H NR eq_refl true [] eq_refl) as (_ & _ & _ & F & _). vm_compute in F. discriminate.
Qed.
Print Assumptions C17_up_to_last_line_looping_reader_refuted.

(* so, when the worker sleeps at the end of a file that is empty or ends in '\n', the whole file has been handed
   over and confirmed *)
Theorem C17_idle_complete : forall B rpe, 0 < B -> forall s0, start_state s0 -> forall evs p o, no_replace evs ->
  let s := fin code B rpe s0 evs in
  ph s = PRead -> snd (step code B rpe s ERead) = OSleep p :: o ->
  file s = [] \/ (exists pre, file s = pre ++ [nl]) ->
  hpos_of (trc code B rpe s0 evs) = length (file s) /\ conf_of (trc code B rpe s0 evs) = length (file s).
Proof.
  intros B rpe HB s0 S0 evs p o NR s P H.
  pose proof (sleep_kind code B rpe s p o eq_refl H) as ->.
  exact (idle_complete code B rpe HB s0 S0 evs o NR P H).
Qed.
Print Assumptions C17_idle_complete.

(* --- offset --- the offset the worker stores after a confirmation is the end of the confirmed event; the
   offset written to scanner.json is always where the run began or the end of an event whose Confirm()
   returned true, and never beyond the last confirmed event *)
Theorem C17_offset : forall B rpe, 0 < B -> forall s0, start_state s0 -> forall evs, no_replace evs ->
  (forall t1 off t2, trc code B rpe s0 evs = t1 ++ OOffset off :: t2 -> off = conf_of t1) /\
  (forall t1 off lss t2, trc code B rpe s0 evs = t1 ++ OPersisted off lss :: t2 ->
     off <= conf_of t1 /\
     (off = t_base (marks_of t1) \/ exists u1 u2, t1 = u1 ++ OConf true :: u2 /\ off = hpos_of u1)).
Proof.
  intros B rpe HB s0 S0 evs NR. split.
  - intros t1 off t2 H. exact (offset_split code B rpe HB s0 S0 evs t1 off t2 NR H).
  - intros t1 off lss t2 H. destruct (persisted_split code B rpe HB s0 S0 evs t1 off lss t2 NR H) as [A1 A2].
    split; [exact A2|exact (ends_spec t1 off A1)].
Qed.
Print Assumptions C17_offset.

(* --- restart --- a restart (after a stop or a crash at ANY step) resumes at the offset last written to
   scanner.json, which is never beyond the last confirmed byte: nothing is skipped, and what is re-sent is
   at most what was confirmed after that write *)
Theorem C17_restart : forall B rpe, 0 < B -> forall s0, start_state s0 -> forall evs t1 p t2, no_replace evs ->
  trc code B rpe s0 evs = t1 ++ ORestart p :: t2 -> p = pers_of t1 /\ p <= conf_of t1.
Proof. exact (restart_split code). Qed.
Print Assumptions C17_restart.

(* graceful stop: a state write at any moment that does not fall between a confirmation hand-shake and the
   worker's setOffset (in particular: any write after the worker has returned, or while it is blocked in a
   sleep, a send or waitConfirm), followed by a restart, resumes EXACTLY at the end of the last confirmed
   event: no confirmed byte is re-sent, none skipped *)
Theorem C17_restart_graceful_partial : forall B rpe, 0 < B -> forall s0, start_state s0 -> forall evs, no_replace evs ->
  let s := fin code B rpe s0 evs in (forall e, ph s <> PConf e) ->
  let c := conf_of (trc code B rpe s0 evs) in
  snd (run code B rpe s [EPersist; ERestart]) = [OPersisted c (d_lss (dsc s)); ORestart c] /\
  woff (fst (run code B rpe s [EPersist; ERestart])) = c.
Proof. exact (graceful code). Qed.
Print Assumptions C17_restart_graceful_partial.
(* the unrestricted statement is false of the code: the persister's last write is not ordered after the
   worker's setOffset; a write between Confirm() returning true and setOffset makes the restart re-send the
   event that was just confirmed *)
Definition C17_restart_graceful_statement : Prop :=
  forall B rpe, 0 < B -> forall s0, start_state s0 -> forall evs, no_replace evs ->
  let s := fin code B rpe s0 evs in
  exists lss, snd (run code B rpe s [EPersist; ERestart]) =
              [OPersisted (conf_of (trc code B rpe s0 evs)) lss; ORestart (conf_of (trc code B rpe s0 evs))].
Theorem C17_restart_graceful_refuted : ~ C17_restart_graceful_statement.
Proof.
  intros H. specialize (H 16 1 (Nat.lt_0_succ 15) (init [x61; x0a]) (start_init _) [ERead; ETake; EConfirm]).
  assert (NR : no_replace [ERead; ETake; EConfirm]) by (intros b c [F|[F|[F|[]]]]; discriminate).
  destruct (H NR) as [lss E]. vm_compute in E. discriminate.
Qed.
Print Assumptions C17_restart_graceful_refuted.

(* --- rotation --- a file replaced under the same name by a file with a NEW identity (one that neither the
   live nor the saved descriptor carries), noticed at a restart or by the sync of the running scanner, is read
   by a new worker from offset 0, and the scanner is again in a start state: every theorem above holds for the
   new file from its beginning *)
Theorem C17_rotate : forall B rpe, 0 < B -> forall s0 evs id c, start_state s0 -> no_replace evs ->
  let s := fin code B rpe s0 evs in
  id <> fid s -> (forall d, persisted s = Some d -> d_id d <> id) ->
  (let r := run code B rpe s [EReplace id c; ERestart] in snd r = [ORestart 0] /\ start_state (fst r) /\ file (fst r) = c) /\
  (let r := run code B rpe s [EReplace id c; ESync] in snd r = [OFresh 0] /\ start_state (fst r) /\ file (fst r) = c).
Proof. exact (rotate_new code). Qed.
Print Assumptions C17_rotate.

(* whatever its identity (truncated and rewritten in place, or the inode re-used): a file shorter than what
   had been read or seen is read from offset 0 at the restart *)
Theorem C17_rotate_shrunk : forall B rpe, 0 < B -> forall s0 evs id c d, start_state s0 -> no_replace evs ->
  let s := fin code B rpe s0 evs in
  persisted s = Some d -> length c < d_lss d \/ length c < d_off d ->
  let r := run code B rpe s [EReplace id c; ERestart] in
  snd r = [ORestart 0] /\ wfile (fst r) = c /\ rpos (fst r) = 0 /\ woff (fst r) = 0 /\ ph (fst r) = PRead.
Proof. exact (rotate_shrunk code). Qed.
Print Assumptions C17_rotate_shrunk.

(* the full statement - whatever replaces the file, it is read from its beginning - is false of the code:
   identity is path + inode + device, so a new file that got the old inode (or the old file rewritten in
   place) and is at least as long as the saved offset is continued at that offset *)
Definition C17_rotate_statement : Prop :=
  forall B rpe, 0 < B -> forall s0, start_state s0 -> forall evs id c, no_replace evs ->
  snd (run code B rpe (fin code B rpe s0 evs) [EReplace id c; ERestart]) = [ORestart 0].
Theorem C17_rotate_same_inode_refuted : ~ C17_rotate_statement.
Proof.
  intros H.
  specialize (H 16 1 (Nat.lt_0_succ 15) (init [x61; x62; x0a]) (start_init _) [ERead; ETake; EConfirm; ESetOff; EPersist] 0
                [x78; x79; x7a; x0a; x71; x0a]).
  assert (NR : no_replace [ERead; ETake; EConfirm; ESetOff; EPersist]) by (intros b c [F|[F|[F|[F|[F|[]]]]]]; discriminate).
  specialize (H NR). vm_compute in H. discriminate.
Qed.
Print Assumptions C17_rotate_same_inode_refuted.

(* --- rotation, the old file --- a running worker whose file is rotated away (or removed) is told to stop at EOF
   (EStopOnEof: worker.stopOnEOF, called by the sync that notices it). F0 is the file as it was at that moment.
   Whatever happens afterwards to this worker (appends to the old file through a descriptor the writer still holds,
   reads, a consumer that takes and confirms - or stalls -, persist ticks, a stop), if it returns on its own, i.e.
   not because the collector is being stopped, then every complete line of F0 has been handed over AND confirmed:
   what is left of F0 after the last confirmed byte holds no '\n'.  [vr] selects the variant of worker.run. *)
Definition C17_drain_statement (vr : variant) : Prop :=
  forall B rpe, 0 < B -> forall s0, start_state s0 -> forall evs1 evs2,
  no_replace evs1 -> no_replace evs2 -> same_worker evs2 ->
  let s1 := fin vr B rpe s0 evs1 in until_eof s1 = false -> ph s1 <> PDone ->
  let evs := evs1 ++ EStopOnEof :: evs2 in
  ph (fin vr B rpe s0 evs) = PDone -> stopping (fin vr B rpe s0 evs) = false ->
  ~ In nl (skipn (conf_of (trc vr B rpe s0 evs)) (file s1)) /\
  firstn (length (file s1)) (file (fin vr B rpe s0 evs)) = file s1.
Theorem C17_drain : C17_drain_statement code.
Proof. intros B rpe HB s0 S0 evs1 evs2. exact (drain code B rpe HB s0 S0 evs1 evs2 eq_refl). Qed.
Print Assumptions C17_drain.
(* ... and is FALSE of worker.run as it was (the stop-at-EOF state loaded after sendOrSleep): "a\n" shipped and
   confirmed, the worker sleeps at EOF; "b\n" is appended, the file is rotated away and the sync tells the worker
   to stop at EOF during that sleep; it wakes up and returns on the EOF it had found before: "b\n" is never read *)
Theorem C17_drain_stale_check_refuted : ~ C17_drain_statement stale_eof_check.
Proof.
  intros H.
  specialize (H 16 2 (Nat.lt_0_succ 15) (init [x61; x0a]) (start_init _)
                [ERead; ERead; ETake; EConfirm; ESetOff; ERead; EAppend [x62; x0a]] [EWake]).
  assert (NR1 : no_replace [ERead; ERead; ETake; EConfirm; ESetOff; ERead; EAppend [x62; x0a]]).
  { intros b c F. repeat (destruct F as [F|F]; [discriminate|]). exact F. }
  assert (NR2 : no_replace [EWake]) by (intros b c [F|[]]; discriminate).
  assert (SW : same_worker [EWake]) by (split; intros [F|[]]; discriminate).
  assert (ND : PSleep <> PDone) by discriminate.
  destruct (H NR1 NR2 SW eq_refl ND eq_refl eq_refl) as [F _]. apply F. vm_compute. right. left. reflexivity.
Qed.
Print Assumptions C17_drain_stale_check_refuted.

(* --- the consumer --- with collector.Run as the consumer (an event is confirmed only by its Write loop: ECollect
   with the outcome of each Write call; no Confirm() of its own), everything below the last confirmed offset - hence
   below every Offset ever written to scanner.json - has been stored by a Write that succeeded (stored_of: the
   largest n such that successful writes cover the bytes [0, n) of the file).  [vr] selects the variant of Run. *)
Definition C17_stored_statement (vr : variant) : Prop :=
  forall B rpe, 0 < B -> forall s0, start_state s0 -> forall evs, no_replace evs -> collector_only evs ->
  conf_of (trc vr B rpe s0 evs) <= stored_of (trc vr B rpe s0 evs) /\
  pers_of (trc vr B rpe s0 evs) <= stored_of (trc vr B rpe s0 evs).
Theorem C17_stored : C17_stored_statement code.
Proof. intros B rpe HB s0 S0 evs. exact (stored_prefix code B rpe HB s0 S0 evs eq_refl). Qed.
Print Assumptions C17_stored.
(* ... and is FALSE if Run confirms an event whose write the server failed (wr.Err != nil without `continue`):
   the offset is advanced and saved past bytes the server never stored *)
Theorem C17_stored_confirm_on_server_error_refuted : ~ C17_stored_statement confirm_on_server_error.
Proof.
  intros H.
  specialize (H 16 1 (Nat.lt_0_succ 15) (init [x61; x0a]) (start_init _) [ERead; ETake; ECollect WSrv; ESetOff; EPersist]).
  assert (NR : no_replace [ERead; ETake; ECollect WSrv; ESetOff; EPersist]).
  { intros b c F. repeat (destruct F as [F|F]; [discriminate|]). exact F. }
  assert (CO : collector_only [ERead; ETake; ECollect WSrv; ESetOff; EPersist]).
  { intros F. repeat (destruct F as [F|F]; [discriminate|]). exact F. }
  destruct (H NR CO) as [_ F]. vm_compute in F. lia.
Qed.
Print Assumptions C17_stored_confirm_on_server_error_refuted.

(* the scheduling unit of the correspondence check (the worker runs from one blocking point to the next)
   is a run of single ReadSlice turns, i.e. one of the schedules the theorems quantify over *)
Theorem C17_run_reads : forall B rpe fuel s, exists n, run_reads code B rpe fuel s = run code B rpe s (repeat ERead n).
Proof. exact (run_reads_is_run code). Qed.
Print Assumptions C17_run_reads.

(* the model never leaves its own vocabulary *)
Theorem C17_vocabulary : forall B rpe, 0 < B -> forall s0, start_state s0 -> forall evs n, no_replace evs ->
  ~ In (OOther n) (trc code B rpe s0 evs).
Proof. exact (other_never code). Qed.
Print Assumptions C17_vocabulary.

(* ---- non-vacuity: start states exist; the code's reader is the one that returns at EOF; a schedule with a
   split line, an EOF inside a line (the complete line before it is handed over, then the worker sleeps on the
   partial line alone), a persist, a crash and the re-send after the restart ---- *)
Example ex_code : code = mkVar false false false.
Proof. reflexivity. Qed.
Example ex_start : forall content, start_state (init content).
Proof. exact start_init. Qed.
Definition ex_file : bytes := [x61; x0a; x62; x62; x62; x62; x62; x62; x62; x62; x62; x62; x62; x62; x62; x62; x62; x62; x62].
Definition ex_evs : list ev :=
  [ERead; ERead; ETake; EAppend [x63; x0a; x64]; EConfirm; ESetOff; EPersist; ERead; ERead; ERead; ETake; EConfirm; ESetOff;
   ERead; EAppend [x0a]; EWake; ERead; ERead; ETake; ERestart; ERead; ERead; ETake].
Definition b16 : bytes := [x62; x62; x62; x62; x62; x62; x62; x62; x62; x62; x62; x62; x62; x62; x62; x62].
Example ex_trace : trc code 16 2 (init ex_file) ex_evs =
  [OHand [[x61; x0a]; b16]; OConf true; OOffset 18; OPersisted 18 19; OHand [[x62; x63; x0a]]; OConf true; OOffset 21;
   OSleep false; OHand [[x64; x0a]]; ORestart 18; OHand [[x62; x63; x0a]; [x64; x0a]]].
Proof. vm_compute. reflexivity. Qed.
(* the same schedule with the reader that loops: "bc\n" waits in the worker behind the partial line "d" *)
Example ex_trace_looping_reader : trc looping_reader 16 2 (init ex_file) ex_evs =
  [OHand [[x61; x0a]; b16]; OConf true; OOffset 18; OPersisted 18 19; OSleep true; OSleep true; OConf false; OSleep true;
   OHand [[x62; x63; x0a]; [x64; x0a]]; ORestart 18; OHand [[x62; x63; x0a]; [x64; x0a]]].
Proof. vm_compute. reflexivity. Qed.
(* collector.Run as the consumer: a write the server fails, then the same event written again and stored *)
Example ex_collect : let tr := trc code 16 1 (init [x61; x0a; x62; x0a]) [ERead; ETake; ECollect WSrv; ECollect WComm; ECollect WOk; ESetOff; EPersist; ERead; ETake] in
  tr = [OHand [[x61; x0a]]; OWrite false; OWrite false; OWrite true; OConf true; OOffset 2; OPersisted 2 4; OHand [[x62; x0a]]] /\
  stored_of tr = 2 /\ hpos_of tr = 4.
Proof. vm_compute. repeat split. Qed.
(* a worker told to stop at EOF while it waits for a confirmation drains the rest of its file, a partial batch included *)
Example ex_drain : trc code 16 2 (init [x61; x0a; x62; x0a; x63; x0a]) [ERead; ERead; ETake; EStopOnEof; EConfirm; ESetOff; ERead; ERead; ETake; EConfirm; ESetOff] =
  [OHand [[x61; x0a]; [x62; x0a]]; OConf true; OOffset 4; OHand [[x63; x0a]]; OConf true; OOffset 6; OExit].
Proof. vm_compute. reflexivity. Qed.
Example ex_marks : marks_of (trc code 16 2 (init ex_file) ex_evs) = mkT 23 18 [18] 18 18 [x62; x63; x0a; x64; x0a].
Proof. vm_compute. reflexivity. Qed.
