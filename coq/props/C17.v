(* C17 — placeholder while the proofs are being written (replaced below in the same round) *)
From LR Require Import lib.Base model.LineReader model.Scanner.
Theorem C17_placeholder : forall B l, snd (read_slice B l) = RsLine -> fst (read_slice B l) <> [].
Proof.
  intros B l. unfold read_slice. destruct (take_line B l) as [x|] eqn:E; cbn.
  - intros _ H. subst x. revert l E. induction B as [|B IH]; intros [|y l]; cbn; try discriminate.
    destruct (byte_eqb y nl); [discriminate|]. destruct (take_line B l); cbn; discriminate.
  - destruct (B <=? length l); discriminate.
Qed.
Print Assumptions C17_placeholder.
