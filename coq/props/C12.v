(* C12 — LQL statements keep their meaning through print and re-parse.
   Property theorems only; lemmas in proofs/LqlParseP.v. The positive theorems are stated on the token
   image of the printers (model/LqlPrint.v tk_*: the tokens the lexer makes of the printed text; the
   correspondence check compares that image with the real lexer run on the real printer's output);
   the refutations run the whole model -- lexer, parser, printer -- on concrete texts. *)
From LR Require Import lib.Base lib.GoStr model.LqlAst model.LqlLex model.LqlParse model.LqlPrint model.LqlEval.
From LR Require Import proofs.LqlParseP proofs.LqlStmtP proofs.LqlIntP proofs.LqlLexP proofs.LqlTextP proofs.LqlQuoteP proofs.LqlProdP.
From LR Require Import model.LqlTime model.LqlTimeFmt proofs.C20TablesP proofs.LqlTimeFmtP.
From Coq Require Import Strings.String.
From LR Require gen.Consts.
Local Open Scope string_scope.
Local Open Scope list_scope.

(* Expressions of any depth: the print of e parses back to e itself -- hence to the same WHERE filter and the
   same source condition, whatever the environment functions are. wf_expr: every operator is one of the
   grammar's, and an un-negated condition does not start with the word NOT (the parser produces no other trees;
   the correspondence check tests wf_expr on every tree the real parser returns). *)
Theorem C12_expr : forall e, wf_expr e = true -> parse_expr_tokens (tk_expr e) = Some e.
Proof. exact parse_print_expr. Qed.
Print Assumptions C12_expr.

Corollary C12_expr_meaning : forall e, wf_expr e = true -> exists e', parse_expr_tokens (tk_expr e) = Some e' /\
  (forall pm tu tl pt, build_where pm tu tl pt (Some e') = build_where pm tu tl pt (Some e)) /\
  (forall pm tu tl, build_tags pm tu tl (Some (SrcExpr e')) = build_tags pm tu tl (Some (SrcExpr e))).
Proof. intros e H. exists e. split; [exact (parse_print_expr e H)|split; reflexivity]. Qed.
Print Assumptions C12_expr_meaning.

(* Producibility: every expression lql.ParseExpr returns, from any text whatever, is well-formed (the lexer's Ident
   tokens are not keyword texts, its Keyword tokens are; the parser takes a leading NOT as the negation and only
   grammar operators as operators) -- so "whatever filter expression the parser accepts" is covered by C12_expr *)
Theorem C12_expr_producible : forall unq text e, parse_expr_text unq text = Some (Some e) -> wf_expr e = true.
Proof. exact parse_expr_text_wf. Qed.
Print Assumptions C12_expr_producible.

Corollary C12_expr_accepted : forall unq text e, parse_expr_text unq text = Some (Some e) ->
  parse_expr_tokens (tk_expr e) = Some e.
Proof. intros unq text e H. exact (parse_print_expr e (parse_expr_text_wf unq text e H)). Qed.
Print Assumptions C12_expr_accepted.

(* At byte level: lql.ParseExpr applied to the text that Expression.String() prints returns the expression.
   Hypotheses about the text: ASCII identifier-shaped operands / word operators (wt_cond); the quoting function
   yields one String token starting with a double quote (for every value, whatever follows) that participle's
   unquote maps back to the value (vq_cond). *)
Theorem C12_expr_text : forall quote unq,
  (forall v, exists tl, quote v = x22 :: tl) ->
  (forall v rest, lex_one (quote v ++ rest) = Some (Some TString, List.length (quote v))) ->
  forall e, all_conds_expr wt_cond e = true -> wf_expr e = true -> all_conds_expr (vq_cond quote unq) e = true ->
  parse_expr_text unq (pr_expr quote e) = Some (Some e).
Proof. intros quote unq Hh Hl e. exact (parse_print_text quote unq Hh Hl e). Qed.
Print Assumptions C12_expr_text.

(* Source conditions: an expression as above; a {tags} source provided its tag line parses back to the
   tag set (the C08 carve-out, as a hypothesis on this tag set) *)
Theorem C12_source : forall parse_tags tags_line s, wf_source parse_tags tags_line s ->
  parse_source_tokens parse_tags (tk_source tags_line s) = Some s.
Proof. exact parse_print_source. Qed.
Print Assumptions C12_source.

(* CREATE PIPE p FROM S WHERE F: the conditions the pipe stores (printed S, printed F) parse back -- as newPPipe
   parses them, empty text meaning no condition -- to S and F: the pipe is the pipe defined by S and F *)
Theorem C12_pipe : forall parse_tags tags_line p, wf_pipe parse_tags tags_line p ->
  parse_osource_tokens parse_tags (fst (pipe_conds_tokens tags_line p)) = Some (pi_from p) /\
  parse_oexpr_tokens (snd (pipe_conds_tokens tags_line p)) = Some (pi_where p).
Proof. exact pipe_conds_reparse. Qed.
Print Assumptions C12_pipe.

(* ---- statements ---- *)
(* stand-ins for the environment, good enough for the witnesses below (plain ASCII, no escapes needed) *)
Definition q0 (s : bytes) : bytes := B """" ++ s ++ B """".
Definition size0 (s : bytes) : option N := if bytes_eqb s (B "7") then Some 7%N else None.
(* the model of ParseLql / Lql.String() at a variant: [bare] = a keyword-only text is an (empty) statement,
   [oldtr] = TRUNCATE printed by the earlier printer, [oldrg] = the Range printer before `RANGE [` was printed back.
   The code is all false: parse0 / print0. The one tag literal `{a=b}` is known to the stand-ins. *)
Definition tags0 (s : bytes) : option tagset := if bytes_eqb s (B "{a=b}") then Some [(B "a", B "b")] else None.
Definition line0 (t : tagset) : bytes := B "a=b".
Definition parse0_v (bare : bool) : bytes -> option lql :=
  parse_lql_text_v go_unquote tags0 (fun _ => None) size0 bare.
Definition print0_v (oldtr oldrg : bool) : lql -> bytes := pr_lql_v q0 line0 (fun _ => []) oldtr oldrg.
Definition parse0 : bytes -> option lql := parse_lql_text go_unquote tags0 (fun _ => None) size0.
Definition print0 : lql -> bytes := pr_lql q0 line0 (fun _ => []).

(* same meaning, on the AST: equal once an empty format string (= the default format, for the one reader of
   Select.Format in client/shell) is read as no format *)
Definition lql_norm (l : lql) : lql := match l with LSelect s => LSelect (drop_empty_format s) | _ => l end.

(* Full statement: whatever ParseLql accepts, its print parses again, to a statement with the same meaning *)
Definition stmt_statement (parse : bytes -> option lql) (print : lql -> bytes) : Prop :=
  forall text l, parse text = Some l -> exists l', parse (print l) = Some l' /\ lql_norm l' = lql_norm l.
Definition C12_stmt_statement : Prop := stmt_statement parse0 print0.

(* Still refuted for the code, by the one recorded shape left (tags-then-brace): the lexer's Tags class \{.+\} runs to
   the LAST closing brace of the line, so `SELECT FROM {a=b}<LF>WHERE msg contains "}"`, which parses because of the line
   break, is printed on one line and no longer lexes. (`SELECT ""` prints as `SELECT` and comes back as the bare
   SELECT, the same meaning; `SELECT RANGE [ WHERE a=b` prints the bracket back and comes back as it was.) *)
Definition brace_text : bytes := B "SELECT FROM {a=b}" ++ x0a :: B "WHERE msg contains ""}""".
Theorem C12_stmt_refuted :
  ~ C12_stmt_statement /\
  (exists l, parse0 brace_text = Some l /\ print0 l = B "SELECT FROM {a=b} WHERE msg contains ""}""" /\
             parse0 (print0 l) = None) /\
  (exists s, parse0 (B "SELECT """"") = Some (LSelect s) /\ s_format s = Some [] /\ print0 (LSelect s) = B "SELECT" /\
             parse0 (B "SELECT") = Some (LSelect empty_select) /\ lql_norm (LSelect s) = LSelect empty_select) /\
  (exists l, parse0 (B "SELECT RANGE [ WHERE a=b") = Some l /\ print0 l = B "SELECT RANGE [ WHERE a = ""b""" /\
             parse0 (print0 l) = Some l).
Proof.
  split; [|split; [|split]].
  - intros H.
    assert (exists l, parse0 brace_text = Some l /\ parse0 (print0 l) = None) as (l & E1 & E2)
      by (eexists; split; [vm_compute; reflexivity|vm_compute; reflexivity]).
    destruct (H _ _ E1) as (l' & Hl & _). rewrite E2 in Hl. discriminate Hl.
  - eexists. split; [vm_compute; reflexivity|]. split; vm_compute; reflexivity.
  - eexists. split; [vm_compute; reflexivity|]. repeat split; vm_compute; reflexivity.
  - eexists. split; [vm_compute; reflexivity|]. split; vm_compute; reflexivity.
Qed.
Print Assumptions C12_stmt_refuted.

(* The Range printer before its repair wrote a blank for the Range read from `RANGE [` (both points absent):
   `SELECT RANGE  WHERE ..` does not parse *)
Theorem C12_stmt_old_range_printer_refuted :
  ~ stmt_statement parse0 (print0_v false true) /\
  (exists l, parse0 (B "SELECT RANGE [ WHERE a=b") = Some l /\ print0_v false true l = B "SELECT RANGE  WHERE a = ""b""" /\
             parse0 (print0_v false true l) = None).
Proof.
  split.
  - intros H.
    assert (exists l, parse0 (B "SELECT RANGE [ WHERE a=b") = Some l /\ parse0 (print0_v false true l) = None) as (l & E1 & E2)
      by (eexists; split; [vm_compute; reflexivity|vm_compute; reflexivity]).
    destruct (H _ _ E1) as (l' & Hl & _). rewrite E2 in Hl. discriminate Hl.
  - eexists. split; [vm_compute; reflexivity|]. split; vm_compute; reflexivity.
Qed.
Print Assumptions C12_stmt_old_range_printer_refuted.

(* What the two repairs bought. ParseLql as it was (a keyword-only text accepted) with the earlier TRUNCATE printer:
   `SELECT` parsed to the statement with no member, whose print is the empty text, which does not parse (a bare
   SELECT query returned nothing); `TRUNCATE MAXDBSIZE 7` printed as `TRUNCATE`: the size limit gone after
   re-parsing. With the code's variants both texts come back as they went in. *)
Theorem C12_stmt_before_repairs_refuted :
  ~ stmt_statement (parse0_v true) (print0_v true false) /\
  (parse0_v true (B "SELECT") = Some LNone /\ print0_v true false LNone = [] /\ parse0_v true [] = None) /\
  (exists t, parse0_v true (B "TRUNCATE MAXDBSIZE 7") = Some (LTruncate t) /\ tr_maxdb t = Some 7%N /\
             print0_v true false (LTruncate t) = B "TRUNCATE" /\
             exists t', parse0_v true (B "TRUNCATE") = Some (LTruncate t') /\ tr_maxdb t' = None) /\
  (* the code *)
  (parse0 (B "SELECT") = Some (LSelect empty_select) /\ print0 (LSelect empty_select) = B "SELECT" /\
   parse0 (B "SHOW") = None /\ parse0 (B "DESCRIBE") = None /\ parse0 (B "'SELECT'") = None) /\
  (exists t, parse0 (B "TRUNCATE MAXDBSIZE 7") = Some (LTruncate t) /\
             print0 (LTruncate t) = B "TRUNCATE MAXDBSIZE 7" /\ parse0 (print0 (LTruncate t)) = Some (LTruncate t)).
Proof.
  split; [|split; [|split; [|split]]].
  - intros H.
    assert (parse0_v true (B "SELECT") = Some LNone) as E1 by (vm_compute; reflexivity).
    assert (parse0_v true (print0_v true false LNone) = None) as E2 by (vm_compute; reflexivity).
    destruct (H _ _ E1) as (l' & Hl & _). rewrite E2 in Hl. discriminate Hl.
  - repeat split; vm_compute; reflexivity.
  - eexists. split; [vm_compute; reflexivity|]. split; [reflexivity|]. split; [vm_compute; reflexivity|].
    eexists. split; [vm_compute; reflexivity|reflexivity].
  - repeat split; vm_compute; reflexivity.
  - eexists. split; [vm_compute; reflexivity|]. split; vm_compute; reflexivity.
Qed.
Print Assumptions C12_stmt_before_repairs_refuted.

(* ParseLql never returns the statement with no member: a keyword-only text is the bare SELECT (= &Select{}) or an error *)
Theorem C12_stmt_never_empty : forall parse_tags parse_time parse_size ts,
  parse_lql_tokens parse_tags parse_time parse_size ts <> Some LNone.
Proof. exact parse_lql_not_none. Qed.
Print Assumptions C12_stmt_never_empty.

(* Partial: every statement kind round-trips on the token image of its print -- SELECT with any subset of
   its seven clauses (the bare SELECT and `RANGE [` included), SHOW PARTITIONS / PIPES, DESCRIBE, TRUNCATE with any subset of its
   six clauses, CREATE / DELETE PIPE -- under stmt_ok, which excludes the shapes left (an
   empty format string, for which see C12_select_empty_format; Pipes.Void; the statement with no member, which
   ParseLql does not return) and otherwise asks, clause by clause: expressions well-formed as in C12_expr; tag sets,
   times and sizes that the environment's own parse functions read back from the environment's own print
   (parse_tags of the tag line, parse_time of the formatted time, parse_size of the decimal size); integers that
   parse_int reads back from pr_Z. *)
Theorem C12_stmt_partial : forall parse_tags parse_time parse_size tags_line fmt_time l,
  stmt_ok parse_tags parse_time parse_size tags_line fmt_time l ->
  parse_lql_tokens parse_tags parse_time parse_size (tk_lql tags_line fmt_time l) = Some l.
Proof. exact stmt_roundtrip. Qed.
Print Assumptions C12_stmt_partial.

(* an empty format string is not printed: the SELECT comes back without a format -- the same meaning (lql_norm) *)
Theorem C12_select_empty_format : forall parse_tags parse_time parse_size tags_line fmt_time s,
  stmt_ok parse_tags parse_time parse_size tags_line fmt_time (LSelect (drop_empty_format s)) ->
  parse_lql_tokens parse_tags parse_time parse_size (tk_lql tags_line fmt_time (LSelect s)) = Some (lql_norm (LSelect s)).
Proof. intros pt ptm ps tl ft s H. exact (rt_select_empty_format pt ptm ps tl ft s H). Qed.
Print Assumptions C12_select_empty_format.

(* the integer hypothesis of stmt_ok (int_ok) holds for every int64: %d printing and ParseInt(.., 0, 64) are inverse;
   the parser only stores int64 values (parse_int checks the range), so OFFSET/LIMIT never block C12_stmt_partial *)
Theorem C12_int : forall z, (- 9223372036854775808 <= z <= 9223372036854775807)%Z -> parse_int (pr_Z z) = Some z.
Proof. exact parse_int_pr_Z. Qed.
Print Assumptions C12_int.

(* The earlier TRUNCATE printer quoted BEFORE twice (DateTime.String() already quotes, addStringIfNotEmpty quoted again);
   the code's printer writes the quoted time once *)
Theorem C12_truncate_old_printer_before_quoted_twice : forall quote tags_line fmt_time dry src mn mx b mdb,
  quote (fmt_time b) <> [] ->
  pr_truncate_v quote tags_line fmt_time true (Truncate dry src mn mx (Some b) mdb) =
  pr_truncate_v quote tags_line fmt_time true (Truncate dry src mn mx None mdb) ++ B " BEFORE " ++ quote (quote (fmt_time b)).
Proof.
  intros quote tl ft dry src mn mx b mdb Hq. unfold pr_truncate_v, pr_kw_str, pr_time. cbn [tr_before tr_dryrun tr_source tr_min tr_max].
  destruct (quote (ft b)) eqn:E; [contradiction|]. rewrite app_nil_r, <- !app_assoc. reflexivity.
Qed.
Print Assumptions C12_truncate_old_printer_before_quoted_twice.

Theorem C12_truncate_before_quoted_once : forall quote tags_line fmt_time dry src mn mx b,
  pr_truncate quote tags_line fmt_time (Truncate dry src mn mx (Some b) None) =
  pr_truncate quote tags_line fmt_time (Truncate dry src mn mx None None) ++ B " BEFORE " ++ quote (fmt_time b).
Proof.
  intros quote tl ft dry src mn mx b. unfold pr_truncate, pr_truncate_v, pr_time.
  change code_truncate_old_printer with false. cbv iota. cbn [tr_before tr_dryrun tr_source tr_min tr_max tr_maxdb pr_kw_size].
  rewrite !app_nil_r, <- !app_assoc. reflexivity.
Qed.
Print Assumptions C12_truncate_before_quoted_once.

(* ---- time points ----
   A time point (RANGE, TRUNCATE BEFORE) is an int64 of Unix nanoseconds; DateTime.String() prints it (fmt_time:
   model/LqlTimeFmt.v, what K runs for every time point of every case) and DateTime.Capture reads the printed text with
   parseLqlDateTime (lql_parse on lql_list: the model of C20 on the format list regenerated from pkg/lql/datetime.go).
   Statement: the printed text is read back to the same instant, whatever the clock says. *)
Definition C12_time_statement (fmt : Z -> bytes) : Prop :=
  forall now t, in_int64 t = true -> lql_parse now lql_list (fmt t) = LAbs t.

(* Proved for the code's printer, for every int64 instant, with no hypothesis about the format list: the text is
   `YYYY-MM-DD HH:mm:ss[.nnnnnnnnn] +0000 UTC`; no earlier format of the list matches anywhere in a text of that shape
   (abstract interpretation of the regexp matcher over the digit positions, decided by vm_compute on the regenerated
   list), the format `YYYY-MM-DD HH:mm:ss ZZZZ ZZZ` / `YYYY-MM-DD HH:mm:ss.SSS ZZZZ ZZZ` matches the whole text and
   time.Parse of its layout gives back the civil fields (civil_from_days / days_from_civil round trip) and all nine
   digits of the fraction. *)
Theorem C12_time : C12_time_statement fmt_time.
Proof. intros now t H. unfold lql_list. rewrite <- lql_c_eq. exact (time_roundtrip now t H). Qed.
Print Assumptions C12_time.

(* Refuted for the printer before the repair (time.Time.String() drops the trailing zeros of the fraction, and a
   fraction of one or two digits is not matched by .SSS = `.\d{3,}`, so an earlier-in-the-list format without a fraction
   claims the text): 2019-03-11 12:34:44.5 comes back as 12:34:44; the code's printer writes .500000000 *)
Theorem C12_time_trimmed_fraction_refuted :
  ~ C12_time_statement (fmt_time_v true) /\
  fmt_time_v true 1552307684500000000 = B "2019-03-11 12:34:44.5 +0000 UTC" /\
  lql_parse w_now lql_list (fmt_time_v true 1552307684500000000) = LAbs 1552307684000000000 /\
  fmt_time 1552307684500000000 = B "2019-03-11 12:34:44.500000000 +0000 UTC".
Proof.
  destruct trimmed_half as (H1 & H2 & H3). unfold lql_list. rewrite <- lql_c_eq.
  split; [|split; [exact H1|split; [exact H2|exact H3]]].
  intros H. specialize (H w_now 1552307684500000000 eq_refl). unfold lql_list in H. rewrite <- lql_c_eq in H.
  change 1552307684500000000%Z with t_half in H. rewrite H in H2. discriminate H2.
Qed.
Print Assumptions C12_time_trimmed_fraction_refuted.

(* Hence the time hypotheses of C12_stmt_partial (time_ok for the points of a RANGE, before_ok for TRUNCATE BEFORE) hold
   for every int64 time point when the environment is the code: parse_time = DateTime.Capture on an absolute literal
   (read_time), fmt_time = the code's printer *)
Theorem C12_time_hyps : forall now t, in_int64 t = true ->
  time_ok (read_time now) fmt_time t /\ before_ok (read_time now) fmt_time t.
Proof.
  intros now t H. pose proof (read_fmt_time now t H) as Hr.
  destruct (fmt_time_head t H) as (b & tl & E & Hb).
  unfold time_ok, before_ok, plain_tok, str_tok. rewrite Hr, E.
  destruct Hb as [-> | ->]; repeat split; reflexivity.
Qed.
Print Assumptions C12_time_hyps.

(* ---- non-vacuity ---- *)
(* a = <q, double quote, uote> AND NOT (c >= d OR UPPER(LOWER(t)) LIKE <x, star>) *)
Definition sample_e : expr :=
  Or1 (AndS (X false (BC (Cond (Ident (B "a") INil) (B "=") (B "q""uote"))))
      (And1 (X true (BP (OrS (And1 (X false (BC (Cond (Ident (B "c") INil) (B ">=") (B "d")))))
                        (Or1 (And1 (X false (BC (Cond (Ident (B "UPPER") (ICons (Ident (B "LOWER") (ICons (Ident (B "t") INil) INil)) INil))
                                                       (B "LIKE") (B "x*"))))))))))).
Example sample_wf : wf_expr sample_e = true. Proof. vm_compute. reflexivity. Qed.
Example sample_tokens : map t_val (tk_expr sample_e) =
  map B ["a"; "="; "q""uote"; "AND"; "NOT"; "("; "c"; ">="; "d"; "OR"; "UPPER"; "("; "LOWER"; "("; "t"; ")"; ")"; "LIKE"; "x*"; ")"].
Proof. vm_compute. reflexivity. Qed.
(* the text the printer makes of it lexes to exactly that token image (with strconv.Quote = q0 here, no escapes needed
   except for the embedded quote, so the sample uses a value without one for this check) *)
Example sample_text :
  let e := Or1 (And1 (X true (BC (Cond (Ident (B "fields:a") INil) (B "contains") (B "x y"))))) in
  tokenize go_unquote (pr_expr q0 e) = Some (tk_expr e) /\ pr_expr q0 e = B " NOT fields:a contains ""x y""".
Proof. cbn zeta. split; vm_compute; reflexivity. Qed.

(* a SELECT with every clause satisfies the hypotheses of C12_stmt_partial (environment: identity-like stand-ins) *)
Definition t0 (s : bytes) : option Z := if bytes_eqb s (B "T1") then Some 1%Z else if bytes_eqb s (B "T2") then Some 2%Z else None.
Definition f0 (z : Z) : bytes := if Z.eqb z 1 then B "T1" else B "T2".
Definition sample_select : select :=
  Select (Some (B "json")) (Some (SrcExpr sample_e)) (Some (Range (Some 1%Z) (Some 2%Z))) (Some sample_e)
         (Some (B "tail")) (Some (-5)%Z) (Some 100%Z).
Example sample_select_ok :
  stmt_ok (fun _ => None) t0 (fun _ => None) (fun _ => []) f0 (LSelect sample_select).
Proof.
  cbn [stmt_ok]. unfold select_ok, sample_select. cbn [s_format s_source s_range s_where s_pos s_offset s_limit].
  repeat split; try discriminate; try (vm_compute; reflexivity).
Qed.
Example sample_select_tokens :
  map t_val (tk_lql (fun _ => []) f0 (LSelect (Select None None (Some (Range None (Some 2%Z))) None None (Some (-5)%Z) None))) =
  map B ["SELECT"; "RANGE"; "["; ":"; "T2"; "]"; "OFFSET"; "-5"].
Proof. vm_compute. reflexivity. Qed.

(* the bare SELECT and a TRUNCATE with all six clauses satisfy the hypotheses of C12_stmt_partial *)
Example sample_bare_select_ok : stmt_ok (fun _ => None) t0 (fun _ => None) (fun _ => []) f0 (LSelect empty_select).
Proof. cbn [stmt_ok]. unfold select_ok, empty_select. cbn. repeat split; discriminate. Qed.
Definition s0 (s : bytes) : option N := option_map Z.to_N (LqlParse.digits_val 10 s 0).
Definition sample_truncate : truncate :=
  Truncate true (Some (SrcExpr sample_e)) (Some 0%N) (Some 18446744073709551615%N) (Some 1%Z) (Some 7%N).
Example sample_truncate_ok : stmt_ok (fun _ => None) t0 s0 (fun _ => []) f0 (LTruncate sample_truncate).
Proof.
  cbn [stmt_ok]. unfold truncate_ok, sample_truncate. cbn [tr_dryrun tr_source tr_min tr_max tr_before tr_maxdb].
  repeat split; try (vm_compute; reflexivity). left. reflexivity.
Qed.
Example sample_truncate_tokens :
  map t_val (tk_lql (fun _ => []) f0 (LTruncate (Truncate false None (Some 0%N) None (Some 1%Z) (Some 7%N)))) =
  map B ["TRUNCATE"; "MINSIZE"; "0"; "BEFORE"; "T1"; "MAXDBSIZE"; "7"].
Proof. vm_compute. reflexivity. Qed.

(* the byte-level hypotheses hold for the sample with the \xHH quoting function and participle's unquote *)
Example sample_text_hyps :
  all_conds_expr wt_cond sample_e = true /\ all_conds_expr (vq_cond qx go_unquote) sample_e = true /\
  parse_expr_text go_unquote (pr_expr qx sample_e) = Some (Some sample_e).
Proof. repeat split; vm_compute; reflexivity. Qed.


(* the lexer the model was written after is the lexer the Go source has now (coq/gen/Consts.v is regenerated from
   pkg/lql/parser.go on every run): the keyword list of model/LqlLex.v is the Keyword class of the source, in its order,
   and the regular expression - whose other token classes lex_ident / lex_string / lex_operator / lex_number / lex_tags
   transcribe - is literally this text.  An edit of a token class in the Go source breaks this Example; the
   correspondence check and the oracle then look for a statement on which model and code differ. *)
Example C12_lexer_table :
  keywords = map B Consts.go_lqlKeywords /\
  Consts.go_lqlLexerPattern = "(\s+)|(?P<Keyword>(?i)SELECT|DESCRIBE|TRUNCATE|DELETE|DRYRUN|BEFORE|MAXSIZE|MINSIZE|MAXDBSIZE|FROM|RANGE|WHERE|PARTITIONS|PARTITION|PIPES|SHOW|CREATE|PIPE|POSITION|LIMIT|OFFSET|AND|OR|LIKE|CONTAINS|PREFIX|SUFFIX|NOT|\[|\]|\:)|(?P<Ident>[a-zA-Z_][a-z\./\-A-Z0-9_:]*)|(?P<String>""([^\\""]|\\.)*""|'[^']*')|(?P<Operator><>|!=|<=|>=|[-+*/%,.=<>()])|(?P<Number>[-+]?\d*\.?\d+([eE][-+]?\d+|[mMkKgGtTbBpP][ib]{0,2})?)|(?P<Tags>\{.+\})"%string.
Proof. split; reflexivity. Qed.
