(* C19 — Pipe registry: unique names, alphabetical paginated listing, idempotent ensure.
   Property theorems only; each is closed by `exact` of a lemma of proofs/PipeRegP.v. *)
From LR Require Import lib.Base model.PipeReg proofs.PipeRegP proofs.PipeRegStartP proofs.PipeRegRaceP.
From Coq Require Import Permutation Sorting.Sorted.

(* names are unique in every registry reachable by any history of operations, for any map order *)
Theorem C19_unique_names : forall perm ops, NoDup (names (fst (run perm [] ops))).
Proof. intros perm ops. exact (run_nodup perm ops [] (NoDup_nil _)). Qed.
Print Assumptions C19_unique_names.

(* creating an existing name fails and changes nothing *)
Theorem C19_create_existing : forall r p v q, lookup r (p_name p) = Some q -> create r p v = (r, false).
Proof. intros r p v q H. unfold create. rewrite H. reflexivity. Qed.
Print Assumptions C19_create_existing.

(* ensure: same definition -> returned unchanged; different -> fails, nothing changes;
   absent -> created (valid) or fails with nothing changed (invalid) *)
Theorem C19_ensure_same : forall r p v q, lookup r (p_name p) = Some q -> p_from q = p_from p -> p_where q = p_where p ->
  ensure r p v = (r, Some q).
Proof. exact ensure_same. Qed.
Print Assumptions C19_ensure_same.
Theorem C19_ensure_different : forall r p v q, lookup r (p_name p) = Some q ->
  (p_from q <> p_from p \/ p_where q <> p_where p) -> ensure r p v = (r, None).
Proof. exact ensure_diff. Qed.
Print Assumptions C19_ensure_different.
Theorem C19_ensure_absent : forall r p, lookup r (p_name p) = None ->
  ensure r p true = (r ++ [p], Some p) /\ ensure r p false = (r, None).
Proof. intros r p H. split; [exact (ensure_absent_valid r p H)|exact (ensure_absent_invalid r p H)]. Qed.
Print Assumptions C19_ensure_absent.

(* a deleted pipe can be created again; other names are not affected by the delete *)
Theorem C19_recreate : forall r p, p_name p = p_name p ->
  create (fst (delete r (p_name p))) p true = (fst (delete r (p_name p)) ++ [p], true) \/ lookup r (p_name p) = None.
Proof.
  intros r p _. unfold delete. destruct (lookup r (p_name p)) eqn:E; [left|right; reflexivity].
  cbn [fst]. unfold create. rewrite lookup_remove. reflexivity.
Qed.
Print Assumptions C19_recreate.
Theorem C19_delete_others : forall r n m, m <> n -> lookup (fst (delete r n)) m = lookup r m.
Proof.
  intros r n m H. unfold delete. destruct (lookup r n); cbn [fst]; [exact (lookup_remove_other r n m H)|reflexivity].
Qed.
Print Assumptions C19_delete_others.

(* listing: for EVERY order in which the Go map is iterated, the listing is the same list, it is
   strictly increasing by name (alphabetical, no duplicates) and contains exactly the registry *)
Theorem C19_list : forall r ord, NoDup (names r) -> Permutation ord r ->
  StronglySorted name_lt (get_pipes ord) /\ Permutation (get_pipes ord) r /\
  (forall ord', Permutation ord' r -> get_pipes ord' = get_pipes ord).
Proof.
  intros r ord ND P.
  assert (NDo : NoDup (names ord)).
  { unfold names. apply (Permutation_NoDup (l := map p_name r)); [apply Permutation_map; symmetry; exact P|exact ND]. }
  split; [exact (get_pipes_strict ord NDo)|]. split.
  - rewrite (proj2 (get_pipes_sorted_perm ord)). exact P.
  - intros ord' P'. symmetry. apply get_pipes_order_independent; [exact NDo|]. rewrite P, P'. reflexivity.
Qed.
Print Assumptions C19_list.

(* OFFSET/LIMIT pages of any size L > 0 walk the listing: their concatenation is the whole listing (offsets below
   2^63: `lim+offs` of cmdShowPipes is an int addition that wraps, modelled as such) *)
Theorem C19_pages : forall stms L n, 0 < L -> (Z.of_nat (n * L) < 2 ^ 63)%Z -> length stms <= n * L ->
  pages stms L 0 n = names stms.
Proof. intros stms L n HL Hb Hn. exact (pages_cover stms L HL n 0 Hb Hn). Qed.
Print Assumptions C19_pages.

(* every limit that is at least the number of pipes - up to the largest int64, where lim+offs wraps to a negative
   number - lists the whole rest of the listing from the offset, and the total is the number of pipes *)
Theorem C19_rest_from_offset : forall stms lim off,
  (0 <= off < 2 ^ 63)%Z -> (0 < lim < 2 ^ 63)%Z -> (Z.of_nat (length stms) <= lim)%Z ->
  exists shown, show_pipes stms lim off = Some (Z.of_nat (length stms), shown, names (skipn (Z.to_nat off) stms)).
Proof. exact show_pipes_rest. Qed.
Print Assumptions C19_rest_from_offset.

Theorem C19_describe : forall r n p, lookup r n = Some p -> describe r n = Some (p_from p, p_where p, dest_prefix ++ n).
Proof. intros r n p H. unfold describe. rewrite H. reflexivity. Qed.
Print Assumptions C19_describe.

(* clean restart: whatever order Shutdown meets the map in, Init restores exactly those definitions *)
Theorem C19_restart : forall r ord, NoDup (names r) -> Permutation ord r -> Permutation (load (save ord)) r.
Proof.
  intros r ord ND P. unfold save. rewrite load_perm; [exact P|].
  unfold names. apply (Permutation_NoDup (l := map p_name r)); [apply Permutation_map; symmetry; exact P|exact ND].
Qed.
Print Assumptions C19_restart.

(* K concurrent CreatePipe calls for one new name, every interleaving of their two lock-protected steps:
   never two successes, and when all have finished exactly one succeeded *)
Theorem C19_create_race : forall K sched, 0 < K ->
  let s := crun sched {| c_present := false; c_pc := repeat 0 K |} in
  count_pc 2 s <= 1 /\ (all_done s -> count_pc 2 s = 1).
Proof. exact race_exactly_one. Qed.
Print Assumptions C19_create_race.

(* --- pipes of the configuration (PipesConfig.EnsureAtStart), ensured at every start with changeOk = true --- *)

(* the API's ensure is the changeOk = false instance of the one ensurePipe of the code *)
Theorem C19_ensure_is_changeok_false : forall r p v, ensure_c false r p v = ensure r p v.
Proof. exact ensure_c_false. Qed.
Print Assumptions C19_ensure_is_changeok_false.

(* a configured pipe with the definition it already has is returned unchanged; with another definition the stored
   pipe is replaced by the configured one (appended: a new pipe), and no other name is touched *)
Theorem C19_start_one : forall r p,
  (forall q, lookup r (p_name p) = Some q -> same_def q p -> ensure_c true r p true = (r, Some q)) /\
  (forall q, lookup r (p_name p) = Some q -> ~ same_def q p ->
             ensure_c true r p true = (remove r (p_name p) ++ [p], Some p)) /\
  (lookup r (p_name p) = None -> ensure_c true r p true = (r ++ [p], Some p)) /\
  exists r', ensure_c true r p true = (r', Some p) /\ lookup r' (p_name p) = Some p /\
             (forall m, m <> p_name p -> lookup r' m = lookup r m).
Proof.
  intros r p. split; [intros q H Hs; exact (ensure_c_same true r p true q H Hs)|].
  split; [intros q H Hd; exact (ensure_c_replace r p q H Hd)|].
  split; [exact (ensure_c_absent_valid true r p)|exact (ensure_c_true_valid r p)].
Qed.
Print Assumptions C19_start_one.

(* the whole configuration (every entry compiles, names distinct), from ANY registry: the start succeeds, every
   configured pipe is registered with exactly its configured definition, every pipe not named in the configuration is
   untouched, names stay unique, and a second start with the same configuration changes nothing (idempotent) *)
Theorem C19_start_config : forall cfg r, all_valid cfg -> NoDup (cfg_names cfg) -> NoDup (names r) ->
  exists r', ensure_at_start r cfg = (r', true) /\
     (forall p v, In (p, v) cfg -> lookup r' (p_name p) = Some p) /\
     (forall m, ~ In m (cfg_names cfg) -> lookup r' m = lookup r m) /\
     NoDup (names r') /\
     ensure_at_start r' cfg = (r', true).
Proof.
  intros cfg r Hv Hnd Hr. destruct (ensure_at_start_ok cfg Hv Hnd r) as (r' & E & L & O).
  exists r'. split; [exact E|]. split; [exact L|]. split; [exact O|]. split.
  - pose proof (ensure_at_start_nodup cfg r Hr) as H. rewrite E in H. exact H.
  - exact (ensure_at_start_idem cfg r r' Hv Hnd E).
Qed.
Print Assumptions C19_start_config.

(* the first configured pipe whose conditions do not compile ends the start (Init fails); what the code does to a
   stored pipe of that name is part of the statement: it is deleted first *)
Theorem C19_start_invalid_entry : forall cfg1 p cfg2 r, all_valid cfg1 -> NoDup (cfg_names cfg1) ->
  ~ In (p_name p) (cfg_names cfg1) -> (forall q, lookup r (p_name p) = Some q -> ~ same_def q p) ->
  exists r', ensure_at_start r (cfg1 ++ (p, false) :: cfg2) = (r', false) /\ lookup r' (p_name p) = None.
Proof. intros cfg1 p cfg2 r Hv Hnd Hn Hq. exact (ensure_at_start_invalid cfg1 p cfg2 Hv Hnd Hn r Hq). Qed.
Print Assumptions C19_start_invalid_entry.

(* non-vacuity of the start theorems: a stored pipe replaced, one kept, one added, one bystander *)
Example C19_start_nonvacuous :
  let mk n f := {| p_name := [n]; p_from := f; p_where := [] |} in
  let r := [mk x61 []; mk x62 [x31]; mk x7a []] in
  let cfg := [(mk x61 [x32], true); (mk x62 [x31], true); (mk x63 [], true)] in
  ensure_at_start r cfg = ([mk x62 [x31]; mk x7a []; mk x61 [x32]; mk x63 []], true) /\
  ensure_at_start r [(mk x61 [x32], true); (mk x62 [x39], false)] = ([mk x7a []; mk x61 [x32]], false).
Proof. vm_compute. split; reflexivity. Qed.

(* K concurrent ensure calls for one new name with ONE definition, every interleaving of their lock-protected steps
   (GetPipe; CreatePipe's check; CreatePipe's check-and-insert; up to 3 rounds): no call fails, and when all have finished
   all K have succeeded and the pipe exists - "ensuring a pipe with the definition it already has returns it" also
   for the losers of the creation race *)
Theorem C19_ensure_race : forall K sched,
  let s := erun true sched (einit K) in
  (forall pc, In pc (e_pc s) -> pc <> EFail) /\
  ((forall pc, In pc (e_pc s) -> epc_done pc = true) -> count_ok s = K /\ (0 < K -> e_present s = true)).
Proof. exact ensure_race_all_succeed. Qed.
Print Assumptions C19_ensure_race.

(* a loop that returns CreatePipe's error instead of going round again fails a loser although the definition is the same *)
Theorem C19_ensure_race_no_retry_refuted : exists sched, In EFail (e_pc (erun false sched (einit 2))).
Proof. exact ensure_race_no_retry_fails. Qed.
Print Assumptions C19_ensure_race_no_retry_refuted.

(* non-vacuity: a reachable three-pipe registry listed from a non-sorted map order *)
Example C19_nonvacuous :
  let pa := {| p_name := [x61]; p_from := []; p_where := [] |} in
  let pb := {| p_name := [x62]; p_from := []; p_where := [] |} in
  let pc := {| p_name := [x63]; p_from := []; p_where := [] |} in
  names (get_pipes [pc; pa; pb]) = [[x61]; [x62]; [x63]] /\
  fst (run (fun r => r) [] [OCreate pc true; OCreate pa true; OCreate pb true]) = [pc; pa; pb].
Proof. vm_compute. split; reflexivity. Qed.
