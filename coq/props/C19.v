(* C19 — Pipe registry: unique names, alphabetical paginated listing, idempotent ensure.
   Property theorems only; each is closed by `exact` of a lemma of proofs/PipeRegP.v. *)
From LR Require Import lib.Base model.PipeReg proofs.PipeRegP.
From Coq Require Import Permutation Sorting.Sorted.

(* names are unique in every registry reachable by any history of operations, for any map order *)
Theorem C19_unique_names : forall perm ops, NoDup (names (fst (run perm [] ops))).
Proof. intros perm ops. exact (run_nodup perm ops [] (NoDup_nil _)). Qed.
Print Assumptions C19_unique_names.

(* creating an existing name fails and changes nothing *)
Theorem C19_create_existing : forall r p v q, lookup r (p_name p) = Some q -> create r p v = (r, false).
Proof. intros r p v q H. unfold create. rewrite H. reflexivity. Qed.
Print Assumptions C19_create_existing.

(* ensure: same definition -> returned unchanged; different -> fails, nothing changes;
   absent -> created (valid) or fails with nothing changed (invalid) *)
Theorem C19_ensure_same : forall r p v q, lookup r (p_name p) = Some q -> p_from q = p_from p -> p_where q = p_where p ->
  ensure r p v = (r, Some q).
Proof. exact ensure_same. Qed.
Print Assumptions C19_ensure_same.
Theorem C19_ensure_different : forall r p v q, lookup r (p_name p) = Some q ->
  (p_from q <> p_from p \/ p_where q <> p_where p) -> ensure r p v = (r, None).
Proof. exact ensure_diff. Qed.
Print Assumptions C19_ensure_different.
Theorem C19_ensure_absent : forall r p, lookup r (p_name p) = None ->
  ensure r p true = (r ++ [p], Some p) /\ ensure r p false = (r, None).
Proof. intros r p H. split; [exact (ensure_absent_valid r p H)|exact (ensure_absent_invalid r p H)]. Qed.
Print Assumptions C19_ensure_absent.

(* a deleted pipe can be created again; other names are not affected by the delete *)
Theorem C19_recreate : forall r p, p_name p = p_name p ->
  create (fst (delete r (p_name p))) p true = (fst (delete r (p_name p)) ++ [p], true) \/ lookup r (p_name p) = None.
Proof.
  intros r p _. unfold delete. destruct (lookup r (p_name p)) eqn:E; [left|right; reflexivity].
  cbn [fst]. unfold create. rewrite lookup_remove. reflexivity.
Qed.
Print Assumptions C19_recreate.
Theorem C19_delete_others : forall r n m, m <> n -> lookup (fst (delete r n)) m = lookup r m.
Proof.
  intros r n m H. unfold delete. destruct (lookup r n); cbn [fst]; [exact (lookup_remove_other r n m H)|reflexivity].
Qed.
Print Assumptions C19_delete_others.

(* listing: for EVERY order in which the Go map is iterated, the listing is the same list, it is
   strictly increasing by name (alphabetical, no duplicates) and contains exactly the registry *)
Theorem C19_list : forall r ord, NoDup (names r) -> Permutation ord r ->
  StronglySorted name_lt (get_pipes ord) /\ Permutation (get_pipes ord) r /\
  (forall ord', Permutation ord' r -> get_pipes ord' = get_pipes ord).
Proof.
  intros r ord ND P.
  assert (NDo : NoDup (names ord)).
  { unfold names. apply (Permutation_NoDup (l := map p_name r)); [apply Permutation_map; symmetry; exact P|exact ND]. }
  split; [exact (get_pipes_strict ord NDo)|]. split.
  - rewrite (proj2 (get_pipes_sorted_perm ord)). exact P.
  - intros ord' P'. symmetry. apply get_pipes_order_independent; [exact NDo|]. rewrite P, P'. reflexivity.
Qed.
Print Assumptions C19_list.

(* OFFSET/LIMIT pages of any size L > 0 walk the listing: their concatenation is the whole listing *)
Theorem C19_pages : forall stms L n, 0 < L -> length stms <= n * L -> pages stms L 0 n = names stms.
Proof. intros stms L n HL Hn. exact (pages_cover stms L HL n 0 Hn). Qed.
Print Assumptions C19_pages.

Theorem C19_describe : forall r n p, lookup r n = Some p -> describe r n = Some (p_from p, p_where p, dest_prefix ++ n).
Proof. intros r n p H. unfold describe. rewrite H. reflexivity. Qed.
Print Assumptions C19_describe.

(* clean restart: whatever order Shutdown meets the map in, Init restores exactly those definitions *)
Theorem C19_restart : forall r ord, NoDup (names r) -> Permutation ord r -> Permutation (load (save ord)) r.
Proof.
  intros r ord ND P. unfold save. rewrite load_perm; [exact P|].
  unfold names. apply (Permutation_NoDup (l := map p_name r)); [apply Permutation_map; symmetry; exact P|exact ND].
Qed.
Print Assumptions C19_restart.

(* K concurrent CreatePipe calls for one new name, every interleaving of their two lock-protected steps:
   never two successes, and when all have finished exactly one succeeded *)
Theorem C19_create_race : forall K sched, 0 < K ->
  let s := crun sched {| c_present := false; c_pc := repeat 0 K |} in
  count_pc 2 s <= 1 /\ (all_done s -> count_pc 2 s = 1).
Proof. exact race_exactly_one. Qed.
Print Assumptions C19_create_race.

(* non-vacuity: a reachable three-pipe registry listed from a non-sorted map order *)
Example C19_nonvacuous :
  let pa := {| p_name := [x61]; p_from := []; p_where := [] |} in
  let pb := {| p_name := [x62]; p_from := []; p_where := [] |} in
  let pc := {| p_name := [x63]; p_from := []; p_where := [] |} in
  names (get_pipes [pc; pa; pb]) = [[x61]; [x62]; [x63]] /\
  fst (run (fun r => r) [] [OCreate pc true; OCreate pa true; OCreate pb true]) = [pc; pa; pb].
Proof. vm_compute. split; reflexivity. Qed.
