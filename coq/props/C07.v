(* C07 - Stored state survives restart, including crash-shaped on-disk states (PARTIAL: see docs/C07.md).
   Property theorems only; each is closed by a lemma of proofs/PersistP.v.   Model: model/Persist.v.
   The code is the variant [code_fix] of the model (sync at shutdown, tag index written aside and renamed, pipe
   definitions saved atomically when they change); the [_refuted] theorems are about the variants without one of these. *)
From LR Require Import lib.Base model.Persist proofs.PersistP.
From Coq Require Import Sorting.Sorted.
Open Scope Z_scope.

(* ================= graceful stop and restart ================= *)
(* the property: whatever the server acknowledged (partitions, events - flushed or not -, pipes) is there after
   Shutdown + exit + start, for every state a running server and its directory can be in *)
Theorem C07_clean : clean_statement code_fix.
Proof. exact (clean_with_sync code_fix eq_refl eq_refl). Qed.
Print Assumptions C07_clean.

(* ... and these states include every state reached by a history of writes / flushes / pipe operations after a start *)
Theorem C07_clean_history : forall m d, reachable code_fix m d ->
  exists m' d', start code_fix (graceful code_fix m d) = Some (m', d') /\
                m_parts m' = m_parts m /\ m_pipes m' = m_pipes m /\
                (forall p, events_of p (d_jrnl d') = acked m d p).
Proof. intros m d R. destruct (reachable_consistent _ _ _ R) as [C N]. exact (C07_clean m d C N). Qed.
Print Assumptions C07_clean_history.

(* false without the sync in partition.Service.Shutdown (whatever the other switches): an acknowledged event still
   in a chunk writer's buffer is dropped *)
Theorem C07_clean_nosync_refuted : forall fx, fx_sync fx = false -> ~ clean_statement fx.
Proof.
  intros [fs fa fp fn fd fg fr fh] F H. cbn in F. subst fs.
  specialize (H (mkMem [O] [(O, [5])] [] [] [(O, O)] [] []) (mkDisk (Some (Whole [O])) None None None [] 1%nat [])).
  destruct H as (m' & d' & S & _ & _ & E).
  - split; [reflexivity|]. split; [intros p []|]. split.
    + intros p Hp. cbn in Hp. destruct p; [left; reflexivity|congruence].
    + split; [repeat constructor; intros []|]. intros p [<-|[]]. cbn. discriminate.
  - constructor.
  - destruct fa, fn, fr; vm_compute in S; injection S as <- <-; specialize (E O); vm_compute in E; discriminate E.
Qed.
Print Assumptions C07_clean_nosync_refuted.

(* what holds in every variant: when every chunk writer has flushed (the stop comes at least WriteFlushMs after the
   last acknowledgement) everything is back *)
Theorem C07_clean_quiescent : forall fx m d, fx_prog fx = true -> consistent m d -> keys_nodup d -> m_buf m = [] ->
  exists m' d', start fx (graceful fx m d) = Some (m', d') /\
                m_parts m' = m_parts m /\ m_pipes m' = m_pipes m /\
                (forall p, events_of p (d_jrnl d') = acked m d p).
Proof. exact clean_quiescent. Qed.
Print Assumptions C07_clean_quiescent.

(* ================= crash inside the tag-index save ================= *)
(* the property: at every crash point of saveStateUnsafe (before / inside / after the write of tindex.dat.tmp, after the
   rename) Init succeeds and the index is the old or the new one *)
Theorem C07_crash_tindex : tindex_crash_statement code_fix.
Proof. exact (tindex_crash_atomic code_fix eq_refl). Qed.
Print Assumptions C07_crash_tindex.

(* false for a saver that renames tindex.dat to tindex.bak and writes tindex.dat in place: after the rename tindex.dat is
   missing, the index loads empty, a journal with data has no record, Init fails (tindex.bak is never read) *)
Theorem C07_crash_tindex_inplace_refuted : forall fx, fx_atomic fx = false -> ~ tindex_crash_statement fx.
Proof.
  intros [fs fa fp fn fd fg fr fh] F H. cbn in F. subst fa.
  specialize (H (mkDisk (Some (Whole [O])) None None None [(O, (O, [5]))] 1%nat []) [O] [O; 1%nat]
                (mkDisk None (Some (Whole [O])) None None [(O, (O, [5]))] 1%nat []) eq_refl).
  destruct H as [H|H].
  - intros p Hp. cbn in Hp. destruct Hp as [<-|[]]. split; left; reflexivity.
  - apply crash_later. apply crash_here.
  - vm_compute in H. discriminate H.
  - vm_compute in H. discriminate H.
Qed.
Print Assumptions C07_crash_tindex_inplace_refuted.

(* the loaders: a torn tindex.dat (any length, the empty file included) or a torn pipes.dat makes the server refuse to
   start - which is why the savers must never leave one *)
Theorem C07_torn_refuses_start : forall fx d k,
  d_tdat d = Some (Torn k) \/ d_pdat d = Some (Torn k) -> start fx d = None.
Proof. intros fx d k [H|H]; [exact (tindex_torn_refuses fx d k H)|exact (pipes_torn_refuses fx d k H)]. Qed.
Print Assumptions C07_torn_refuses_start.

(* the loader's protection against a wrong index file: a journal with data and no record: the server does not start
   (the reason the directory of a partition goes before its record, C07_crash_drop) *)
Theorem C07_data_without_record_refuses : forall fx d m p,
  d_tdat d = Some (Whole m) -> In p (with_data d) -> ~ In p m -> start fx d = None.
Proof. exact data_without_record_refuses. Qed.
Print Assumptions C07_data_without_record_refuses.

(* a save that completes loads back (every variant) *)
Theorem C07_tindex_save_loads_back : forall fx d m, (forall p, In p (with_data d) -> In p m) ->
  tindex_init (tsave fx d m) = Some m.
Proof.
  intros fx d m J. apply tindex_init_whole; [apply tsave_tdat|].
  intros p Hp. apply J. unfold with_data in *. rewrite tsave_jrnl in Hp. exact Hp.
Qed.
Print Assumptions C07_tindex_save_loads_back.

(* SIGKILL at any moment outside a saver: the server starts, every partition and every flushed event is there, the
   pipes are what pipes.dat holds (every variant; for the code pipes.dat holds the acknowledged definitions: C07_crash_pipes) *)
Theorem C07_kill_between_saves : forall fx m d pipes, fx_prog fx = true -> consistent m d -> keys_nodup d -> pipes_init d = Some pipes ->
  exists m' d', start fx (killed m d) = Some (m', d') /\ m_parts m' = m_parts m /\ m_pipes m' = pipes /\
                (forall p, events_of p (d_jrnl d') = events_of p (d_jrnl d)).
Proof. exact kill_then_start. Qed.
Print Assumptions C07_kill_between_saves.

(* the crash-shaped states of the savers as the correspondence check applies them to a stopped directory (a start that
   dies inside the tag-index save, a shutdown that dies inside the pipes save): the directory is as it was *)
Theorem C07_saver_crash_harmless : forall prev d g, saver_crash g -> apply_surgery code_fix prev d g = d.
Proof. intros prev d g. exact (saver_crash_harmless code_fix prev d g eq_refl eq_refl). Qed.
Print Assumptions C07_saver_crash_harmless.

(* ================= pipe definitions ================= *)
(* the property: after any history and a crash, pipes.dat holds the acknowledged pipe definitions *)
Theorem C07_crash_pipes : pipes_crash_statement code_fix.
Proof. exact (pipes_crash_fixed code_fix eq_refl eq_refl). Qed.
Print Assumptions C07_crash_pipes.

(* false when pipes.dat is written by Shutdown only: one CREATE PIPE, SIGKILL *)
Theorem C07_crash_pipes_shutdown_only_refuted : forall fx, fx_pipes fx = false -> ~ pipes_crash_statement fx.
Proof.
  intros [fs fa fp fn fd fg fr fh] F H. cbn in F. subst fp. specialize (H empty_mem (mkDisk None None None (Some (Whole [])) [] O []) [SPipe O] eq_refl).
  vm_compute in H. discriminate H.
Qed.
Print Assumptions C07_crash_pipes_shutdown_only_refuted.

(* a crash inside the pipes save itself (before / inside the write of pipes.dat.tmp, after the rename): the definitions
   load, and are the old or the new ones *)
Theorem C07_crash_pipes_save : pipes_save_crash_statement code_fix.
Proof. exact (pipes_save_crash_atomic code_fix eq_refl). Qed.
Print Assumptions C07_crash_pipes_save.

(* false for a saver that writes pipes.dat in place: the empty file *)
Theorem C07_crash_pipes_save_inplace_refuted : forall fx, fx_pipes fx = false -> ~ pipes_save_crash_statement fx.
Proof.
  intros [fs fa fp fn fd fg fr fh] F H. cbn in F. subst fp.
  destruct (H (mkDisk None None None (Some (Whole [O])) [] O []) [O] [O; 1%nat] _ eq_refl
              (pcrash_torn (mkFix fs fa false fn fd fg fr fh) _ _ O eq_refl)) as [C|C]; vm_compute in C; discriminate C.
Qed.
Print Assumptions C07_crash_pipes_save_inplace_refuted.

(* ================= partition removal, pipe progress ================= *)
(* a partition that was truncated away completely is not there after a graceful stop and a start; the others are *)
Theorem C07_drop_survives_restart : forall m d p, consistent m d -> keys_nodup d ->
  let md := do_step code_fix (m, d) (SDrop p) in
  exists m' d', start code_fix (graceful code_fix (fst md) (snd md)) = Some (m', d') /\
                ~ In p (m_parts m') /\ (forall q, q <> p -> (In q (m_parts m') <-> In q (m_parts m))).
Proof. exact drop_then_restart. Qed.
Print Assumptions C07_drop_survives_restart.

(* a pipe whose position is the end of its destination, which holds a prefix of the source's flushed events, forwards the
   rest, once, and saves the new position - in memory and in its progress file: afterwards the
   destination was told exactly the source's flushed events (and C07_clean keeps them across a restart, so that the next
   catch-up - which resumes after the destination's last event - forwards nothing twice) *)
Theorem C07_pipe_catches_up_once : forall fx m d n s t, mem_nat s (m_parts m) = true ->
  lookup n (m_prog m) = Some (length (acked m d t)) ->
  acked m d t = firstn (length (acked m d t)) (events_of s (d_jrnl d)) ->
  let md := do_step fx (m, d) (SDrain n s t) in
  acked (fst md) (snd md) t = events_of s (d_jrnl d) /\
  lookup n (m_prog (fst md)) = Some (length (events_of s (d_jrnl d))) /\
  lookup n (d_prog (snd md)) = Some (Whole (length (events_of s (d_jrnl d)))).
Proof. exact drain_catches_up. Qed.
Print Assumptions C07_pipe_catches_up_once.

(* ================= a pipe's position across a graceful restart; one file per persisted object ================= *)
(* the property: the position a pipe has saved is the position it has after a graceful stop and a start *)
Theorem C07_progress_survives_clean_restart : progress_survives_statement code_fix.
Proof. exact (progress_survives code_fix eq_refl). Qed.
Print Assumptions C07_progress_survives_clean_restart.

(* false while the definitions are kept in pipes.dat, for the pipe named "s" (number 5): pipes.dat IS its pipe<name>.dat;
   the definitions written at shutdown are what it finds as its positions at the start: it has none *)
Theorem C07_progress_survives_shared_file_refuted : forall fx, fx_reg fx = false -> fx_prog fx = true ->
  ~ progress_survives_statement fx.
Proof.
  intros [fs fa fp fn fd fg fr fh] F G H. cbn in F, G. subst fr fg.
  pose (d := mkDisk (Some (Whole [])) None None (Some (Whole [5%nat])) [] O [(5%nat, Whole 3%nat)]).
  pose (m := mkMem [] [] [] [5%nat] [] [(5%nat, 3%nat)] []).
  destruct (start (mkFix fs fa fp fn fd true false fh) (graceful (mkFix fs fa fp fn fd true false fh) m d)) as [[m' d']|] eqn:S.
  - specialize (H m d 5%nat 3%nat m' d' eq_refl S).
    destruct fs, fa; vm_compute in S; injection S as <- <-; vm_compute in H; discriminate H.
  - destruct fs, fa; vm_compute in S; discriminate S.
Qed.
Print Assumptions C07_progress_survives_shared_file_refuted.

(* ... and the other way round: the positions this pipe saves are what the next start finds as the definitions: they do
   not parse, the server does not start (C07_torn_refuses_start). "After any history and a crash pipes.dat holds the
   definitions" (C07_crash_pipes) is false: one catch-up of the pipe named "s" *)
Theorem C07_crash_pipes_shared_file_refuted : forall fx, fx_reg fx = false -> ~ pipes_crash_statement fx.
Proof.
  intros [fs fa fp fn fd fg fr fh] F H. cbn in F. subst fr.
  specialize (H (mkMem [O] [] [] [5%nat] [(O, O)] [] []) (mkDisk (Some (Whole [O])) None None (Some (Whole [5%nat])) [(O, (O, [7]))] 1%nat [])
                [SDrain 5 0 1] eq_refl).
  destruct fa; vm_compute in H; discriminate H.
Qed.
Print Assumptions C07_crash_pipes_shared_file_refuted.

(* ================= a torn pipe progress file ================= *)
(* pipe<name>.dat is rewritten in place after every batch: a crash inside that write leaves any proper prefix of it. The
   property: this never prevents the start, and partitions, pipe definitions, events and time ranges are as without it *)
Theorem C07_torn_progress_starts : progress_torn_statement code_fix.
Proof. exact (progress_torn_ignored code_fix eq_refl). Qed.
Print Assumptions C07_torn_progress_starts.

(* false for a newPPipe that returns the error of loadPipeInfo: pipe.Service.Init fails, the server does not start *)
Theorem C07_torn_progress_error_returned_refuted : forall fx, fx_prog fx = false -> ~ progress_torn_statement fx.
Proof.
  intros [fs fa fp fn fd fg fr fh] F H. cbn in F. subst fg.
  pose (d := mkDisk (Some (Whole [])) None None None [] O [(4%nat, Whole 3%nat)]).
  destruct (start (mkFix fs fa fp fn fd false fr fh) d) as [[m' d']|] eqn:S; [|destruct fa; vm_compute in S; discriminate S].
  destruct (H None d 4%nat O m' d' S) as (m1 & d1 & S1 & _). destruct fa; vm_compute in S1; discriminate S1.
Qed.
Print Assumptions C07_torn_progress_error_returned_refuted.

(* what the code does with the pipe after it (after a crash no claim is made about a pipe's progress): the pipe has no
   position; its next catch-up forwards nothing and takes the end of what is flushed then as its position: flushed events
   it had not forwarded are skipped, nothing is forwarded twice *)
Theorem C07_pipe_without_position : forall fx m d n s t, mem_nat s (m_parts m) = true -> lookup n (m_prog m) = None ->
  let md := do_step fx (m, d) (SDrain n s t) in
  acked (fst md) (snd md) t = acked m d t /\ lookup n (m_prog (fst md)) = Some (length (events_of s (d_jrnl d))).
Proof. exact drain_without_position. Qed.
Print Assumptions C07_pipe_without_position.

(* ================= partition removal, crash between its two effects ================= *)
(* the property: at every crash point of deleteJournal (before / between / after the removal of the directory and the
   save of the index without the record) the tag index initialises, with or without the partition *)
Theorem C07_crash_drop : drop_crash_statement code_fix.
Proof. exact (drop_crash_data_first code_fix eq_refl). Qed.
Print Assumptions C07_crash_drop.

(* false when the record goes first: between the two effects there is a journal with data and no record: Init fails *)
Theorem C07_crash_drop_record_first_refuted : forall fx, fx_drop fx = false -> ~ drop_crash_statement fx.
Proof.
  intros [fs fa fp fn fd fg fr fh] F H. cbn in F. subst fd.
  specialize (H (mkMem [O] [] [] [] [(O, O)] [] []) (mkDisk (Some (Whole [O])) None None None [(O, (O, [5]))] 1%nat []) O
                (tsave (mkFix fs fa fp fn false fg fr fh) (mkDisk (Some (Whole [O])) None None None [(O, (O, [5]))] 1%nat []) [])).
  destruct H as [H|H].
  - split; [reflexivity|]. split; [intros p Hp; cbn in Hp; destruct Hp as [<-|[]]; left; reflexivity|].
    split; [intros p Hp; exfalso; apply Hp; reflexivity|]. split; [constructor|intros p []].
  - repeat constructor. intros [].
  - left. reflexivity.
  - cbn. apply dcrash_later. apply dcrash_here.
  - destruct fa; vm_compute in H; discriminate H.
  - destruct fa; vm_compute in H; discriminate H.
Qed.
Print Assumptions C07_crash_drop_record_first_refuted.

(* ================= the time-index snapshot ================= *)
(* the property: after a crash of a running server (any history) and a start, no flushed event is hidden from a time-range
   query (timestamps not decreasing inside a chunk - the other cases are C02's; chunk ids unique). The start of the crashed
   session consumed the snapshot, the crash leaves none, every hull is rebuilt from its chunk *)
Theorem C07_crash_cindex : range_after_crash_statement code_fix.
Proof. exact (range_after_crash_consumed code_fix eq_refl). Qed.
Print Assumptions C07_crash_cindex.

(* false when cindex.dat is written at clean shutdown and never removed: it survives the crash; 10,20 | clean stop |
   30,40 flushed | crash: the stale hull [10,20] makes RANGE [25:45] skip the chunk *)
Theorem C07_crash_cindex_snapshot_kept_refuted : forall fx, fx_snap fx = false -> ~ range_after_crash_statement fx.
Proof.
  intros [fs fa fp fn fd fg fr fh] F H. cbn in F. subst fn.
  pose (d0 := mkDisk (Some (Whole [O])) None (Some (Whole [(O, (10, 20))])) None [(O, (O, [10; 20]))] 1%nat []).
  destruct (start (mkFix fs fa fp false fd fg fr fh) d0) as [[m0 d0']|] eqn:S0; [|destruct fa; vm_compute in S0; discriminate S0].
  assert (K0 : keys_nodup d0) by (repeat constructor; intros []).
  pose proof (reach (mkFix fs fa fp false fd fg fr fh) d0 m0 d0' [SWrite O [30; 40]; SSync] K0 S0) as R.
  set (md := run_steps (mkFix fs fa fp false fd fg fr fh) (m0, d0') [SWrite O [30; 40]; SSync]) in *.
  destruct (start (mkFix fs fa fp false fd fg fr fh) (killed (fst md) (snd md))) as [[m' d']|] eqn:S;
    [|destruct fa; vm_compute in S0; injection S0 as <- <-; vm_compute in S; discriminate S].
  specialize (H (fst md) (snd md) R).
  assert (U : chunk_ids_unique (snd md)).
  { destruct fa; vm_compute in S0; injection S0 as <- <-; vm_compute; repeat constructor; intros []. }
  assert (Srt : forall p, StronglySorted Z.le (events_of p (d_jrnl (snd md)))).
  { intros p. destruct fa; vm_compute in S0; injection S0 as <- <-; destruct p as [|p]; vm_compute;
      repeat constructor; discriminate. }
  specialize (H U Srt m' d' S O 30 25 45).
  destruct fa; vm_compute in S0; injection S0 as <- <-; vm_compute in S; injection S as <- <-;
    vm_compute in H; (assert (X : False); [apply H; [right; right; left; reflexivity|reflexivity]|destruct X]).
Qed.
Print Assumptions C07_crash_cindex_snapshot_kept_refuted.

(* a chunk the index learnt about from a write while it already held records (info marked HullPartial: no snapshot was loaded,
   the first request was a write, the rebuild has not run): it is reported with an unlimited range (no entry in the hull),
   and the snapshot a graceful stop writes has no range for it either ... *)
Theorem C07_partial_mark_saved : partial_mark_statement code_fix.
Proof. exact (partial_mark_saved code_fix eq_refl). Qed.
Print Assumptions C07_partial_mark_saved.

(* ... so that the next start collects the range from the chunk: no flushed event is hidden from a time-range query
   (timestamps not decreasing inside the chunk, chunk ids unique) *)
Theorem C07_unknown_chunk_range_complete : forall fx d m' d' p, chunk_ids_unique d -> keys_nodup d -> start fx d = Some (m', d') ->
  (forall cid evs, lookup p (d_jrnl d) = Some (cid, evs) -> lookup cid (cindex_init d) = None) ->
  StronglySorted Z.le (events_of p (d_jrnl d')) ->
  forall t lo hi, In t (events_of p (d_jrnl d')) -> in_range lo hi t = true ->
  In t (range_query (hull_of p m') (events_of p (d_jrnl d')) lo hi).
Proof.
  intros fx d m' d' p U ND S Hs Srt t lo hi It Ir.
  rewrite (start_unknown_chunk_hull fx d m' d' p U S Hs ND).
  - apply range_rebuilt; assumption.
  - intros C. rewrite C in It. destruct It.
Qed.
Print Assumptions C07_unknown_chunk_range_complete.

(* false when the mark is not written to cindex.dat: the range of the last write is saved, and loaded, as the chunk's range *)
Theorem C07_partial_mark_not_saved_refuted : forall fx, fx_partial fx = false -> ~ partial_mark_statement fx.
Proof.
  intros [fs fa fp fn fd fg fr fh] F H. cbn in F. subst fh.
  destruct (H (mkMem [O] [] [(O, (10, 30))] [] [(O, O)] [] []) (mkDisk (Some (Whole [O])) None None None [(O, (O, [10; 20; 30]))] 1%nat [])
              O [40] O eq_refl) as [C _].
  vm_compute in C. discriminate C.
Qed.
Print Assumptions C07_partial_mark_not_saved_refuted.

(* the loader trusts whatever snapshot it finds - which is why a crash must never leave one: "after a start on ANY
   directory no flushed event is hidden" is false (a directory with the hull [10,20] for a chunk holding 10,20,30,40) *)
Theorem C07_start_trusts_snapshot_refuted : ~ range_after_start_statement code_fix.
Proof.
  intros H.
  pose (d := mkDisk (Some (Whole [O])) None (Some (Whole [(O, (10, 20))])) None [(O, (O, [10; 20; 30; 40]))] 1%nat []).
  destruct (start code_fix d) as [[m' d']|] eqn:S; [|vm_compute in S; discriminate S].
  specialize (H d m' d' S O 30 25 45). vm_compute in S. injection S as <- <-.
  vm_compute in H. apply H; [right; right; left; reflexivity|reflexivity].
Qed.
Print Assumptions C07_start_trusts_snapshot_refuted.

(* a hull rebuilt from the chunk (first, last record) hides nothing as long as timestamps do not decrease inside the
   chunk (the other cases are C02's) *)
Theorem C07_rebuilt_hull_complete : forall evs lo hi t, StronglySorted Z.le evs -> In t evs -> in_range lo hi t = true ->
  In t (range_query (light_hull evs) evs lo hi).
Proof. exact range_rebuilt. Qed.
Print Assumptions C07_rebuilt_hull_complete.

(* ================= non-vacuity and reachability of the witnesses ================= *)
(* the states used above are what real histories produce (the harness replays these histories on the server) *)
Example C07_witnesses_reachable :
  (* write 10,20,30; flush; write 40; graceful stop; start: everything is back; without the sync 40 is gone *)
  run_sessions code_fix 1 15 25 empty_disk [mkSession [SWrite 0 [10; 20; 30]; SSync; SWrite 0 [40]] true []]
    = [OStarted [None] [] [[]]; OStarted [Some [10; 20; 30; 40]] [] [[20]]] /\
  run_sessions (mkFix false true true true true true true true) 1 15 25 empty_disk [mkSession [SWrite 0 [10; 20; 30]; SSync; SWrite 0 [40]] true []]
    = [OStarted [None] [] [[]]; OStarted [Some [10; 20; 30]] [] [[20]]] /\
  (* a crash inside the tag-index save: harmless; with the in-place saver (rename window, torn write) the server refuses to start *)
  run_sessions code_fix 1 15 25 empty_disk [mkSession [SWrite 0 [10; 20; 30]; SSync] true [GTRenamed; GTTorn 0]]
    = [OStarted [None] [] [[]]; OStarted [Some [10; 20; 30]] [] [[20]]] /\
  run_sessions (mkFix true false true true true true true true) 1 15 25 empty_disk [mkSession [SWrite 0 [10; 20; 30]; SSync] true [GTRenamed]]
    = [OStarted [None] [] [[]]; ORefused] /\
  run_sessions (mkFix true false true true true true true true) 1 15 25 empty_disk [mkSession [SWrite 0 [10; 20; 30]; SSync] true [GTTorn 0]]
    = [OStarted [None] [] [[]]; ORefused] /\
  (* pipe created, SIGKILL: it is there; saved at shutdown only: gone *)
  run_sessions code_fix 1 15 25 empty_disk [mkSession [SPipe 0] false []]
    = [OStarted [None] [] [[]]; OStarted [None] [0%nat] [[]]] /\
  run_sessions (mkFix true true false true true true true true) 1 15 25 empty_disk [mkSession [SPipe 0] false []]
    = [OStarted [None] [] [[]]; OStarted [None] [] [[]]] /\
  (* a shutdown that dies inside the pipes save (acknowledged 40 still buffered: a crash may lose it) *)
  run_sessions code_fix 1 15 25 empty_disk [mkSession [SWrite 0 [10; 20; 30]; SSync; SWrite 0 [40]; SPipe 0] false [GPTorn 1]]
    = [OStarted [None] [] [[]]; OStarted [Some [10; 20; 30]] [0%nat] [[20]]] /\
  (* partition 1 dropped, graceful stop: it stays away; written again later it is a new partition *)
  run_sessions code_fix 2 15 25 empty_disk [mkSession [SWrite 0 [10; 20]; SWrite 1 [11; 21]; SSync; SWrite 1 [31]; SDrop 1] true [];
                                            mkSession [SWrite 1 [41]; SSync] true []]
    = [OStarted [None; None] [] [[]; []]; OStarted [Some [10; 20]; None] [] [[20]; []]; OStarted [Some [10; 20]; Some [41]] [] [[20]; []]] /\
  (* a pipe from partition 0 to partition 1 across a graceful restart: nothing is forwarded twice *)
  run_sessions code_fix 2 15 25 empty_disk [mkSession [SPipe 4; SSync; SWrite 0 [10; 20]; SDrain 4 0 1; SSync; SWrite 0 [30]; SDrain 4 0 1] true [];
                                            mkSession [SSync; SWrite 0 [40]; SDrain 4 0 1] true []]
    = [OStarted [None; None] [] [[]; []]; OStarted [Some [10; 20; 30]; Some [10; 20]] [4%nat] [[20]; [20]];
       OStarted [Some [10; 20; 30; 40]; Some [10; 20; 30]] [4%nat] [[20]; [20]]] /\
  (* the progress file of the pipe torn after the first session: the server starts, the pipe is there, 30 (flushed by the
     graceful stop, not forwarded before it) is passed over, nothing is forwarded twice; a loader that returns the error: refused *)
  run_sessions code_fix 2 15 25 empty_disk
    [mkSession [SPipe 4; SSync; SWrite 0 [10; 20]; SDrain 4 0 1; SSync; SWrite 0 [30]; SDrain 4 0 1] true [GProgTorn 4 7];
     mkSession [SSync; SWrite 0 [40]; SDrain 4 0 1; SSync; SWrite 0 [50]; SDrain 4 0 1] true []]
    = [OStarted [None; None] [] [[]; []]; OStarted [Some [10; 20; 30]; Some [10; 20]] [4%nat] [[20]; [20]];
       OStarted [Some [10; 20; 30; 40; 50]; Some [10; 20; 40]] [4%nat] [[20]; [20]]] /\
  run_sessions (mkFix true true true true true false true true) 2 15 25 empty_disk
    [mkSession [SPipe 4; SSync; SWrite 0 [10; 20]; SDrain 4 0 1; SSync; SWrite 0 [30]; SDrain 4 0 1] true [GProgTorn 4 7]]
    = [OStarted [None; None] [] [[]; []]; ORefused] /\
  (* 10,20 | clean stop | 30,40 flushed | SIGKILL: RANGE [25:45] shows them; with a snapshot that survives the crash it does not *)
  run_sessions code_fix 1 25 45 empty_disk [mkSession [SWrite 0 [10; 20]; SSync] true []; mkSession [SWrite 0 [30; 40]; SSync] false []]
    = [OStarted [None] [] [[]]; OStarted [Some [10; 20]] [] [[]]; OStarted [Some [10; 20; 30; 40]] [] [[30; 40]]] /\
  run_sessions (mkFix true true true false true true true true) 1 25 45 empty_disk [mkSession [SWrite 0 [10; 20]; SSync] true []; mkSession [SWrite 0 [30; 40]; SSync] false []]
    = [OStarted [None] [] [[]]; OStarted [Some [10; 20]] [] [[]]; OStarted [Some [10; 20; 30; 40]] [] [[]]] /\
  (* 10,20,30 | SIGKILL | start, the first request is a write of 40 (the rebuilder held), graceful stop at once | start:
     RANGE [15:25] shows 20; when the HullPartial mark is not saved the chunk is loaded with the range [40,40] and 20 is hidden *)
  run_sessions code_fix 1 15 25 empty_disk [mkSession [SWrite 0 [10; 20; 30]; SSync] false []; mkSession [SBlindWrite 0 [40]] true []]
    = [OStarted [None] [] [[]]; OStarted [Some [10; 20; 30]] [] [[20]]; OStarted [Some [10; 20; 30; 40]] [] [[20]]] /\
  run_sessions (mkFix true true true true true true true false) 1 15 25 empty_disk [mkSession [SWrite 0 [10; 20; 30]; SSync] false []; mkSession [SBlindWrite 0 [40]] true []]
    = [OStarted [None] [] [[]]; OStarted [Some [10; 20; 30]] [] [[20]]; OStarted [Some [10; 20; 30; 40]] [] [[]]] /\
  (* a crash between the two effects of the removal of partition 1: the server starts (the partition is there, empty); with
     the record removed first it refuses *)
  run_sessions code_fix 2 15 25 empty_disk [mkSession [SWrite 0 [10; 20]; SWrite 1 [5]; SSync] true [GTOrphan 1]]
    = [OStarted [None; None] [] [[]; []]; OStarted [Some [10; 20]; Some []] [] [[20]; []]] /\
  run_sessions (mkFix true true true true false true true true) 2 15 25 empty_disk [mkSession [SWrite 0 [10; 20]; SWrite 1 [5]; SSync] true [GTOrphan 1]]
    = [OStarted [None; None] [] [[]; []]; ORefused].
Proof. vm_compute. repeat split. Qed.

(* a reachable (hence consistent) running state with a buffered event, as the hypotheses of the clean theorems require *)
Example C07_consistent_nonvacuous :
  exists m0 d0, start code_fix empty_disk = Some (m0, d0) /\
  let md := run_steps code_fix (m0, d0) [SWrite 0 [10; 20]; SSync; SWrite 1 [11]; SPipe 0] in
  reachable code_fix (fst md) (snd md) /\ consistent (fst md) (snd md) /\ keys_nodup (snd md) /\ m_buf (fst md) <> [] /\
  acked (fst md) (snd md) 0 = [10; 20] /\ acked (fst md) (snd md) 1 = [11].
Proof.
  destruct (start code_fix empty_disk) as [[m0 d0]|] eqn:S; [|vm_compute in S; discriminate S].
  exists m0, d0. split; [reflexivity|].
  pose proof (reach code_fix empty_disk m0 d0 [SWrite 0 [10; 20]; SSync; SWrite 1 [11]; SPipe 0] (NoDup_nil nat) S) as R.
  destruct (reachable_consistent _ _ _ R) as [C N].
  vm_compute in S. injection S as <- <-.
  cbn zeta. split; [exact R|]. split; [exact C|]. split; [exact N|].
  split; [vm_compute; discriminate|]. split; vm_compute; reflexivity.
Qed.
