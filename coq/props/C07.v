(* C07 - Stored state survives restart, including crash-shaped on-disk states (PARTIAL: see docs/C07.md).
   Property theorems only; each is closed by a lemma of proofs/PersistP.v.   Model: model/Persist.v.
   [fixes] switches the proposed repairs on; the code is [code_fix] = all off. *)
From LR Require Import lib.Base model.Persist proofs.PersistP.
From Coq Require Import Sorting.Sorted.
Open Scope Z_scope.

(* ================= graceful stop and restart ================= *)
(* the property: whatever the server acknowledged (partitions, events - flushed or not -, pipes) is there after
   Shutdown + exit + start.  False of the code: an acknowledged event still in a chunk writer's buffer is dropped *)
Theorem C07_clean_refuted : ~ clean_statement code_fix.
Proof.
  intros H.
  specialize (H (mkMem [O] [(O, [5])] [] [] [(O, O)]) (mkDisk (Some (Whole [O])) None None None [] 1%nat)).
  destruct H as (m' & d' & S & _ & _ & E).
  - split; [reflexivity|]. split; [intros p []|]. intros p Hp. cbn in Hp. destruct p; [left; reflexivity|congruence].
  - constructor.
  - vm_compute in S. injection S as <- <-. specialize (E O). vm_compute in E. discriminate E.
Qed.
Print Assumptions C07_clean_refuted.

(* true when every chunk writer has flushed (the stop comes at least WriteFlushMs after the last acknowledgement):
   partitions, pipes and every acknowledged event are back, for every state and whichever repairs are on *)
Theorem C07_clean_partial : forall fx m d, consistent m d -> keys_nodup d -> m_buf m = [] ->
  exists m' d', start fx (graceful fx m d) = Some (m', d') /\
                m_parts m' = m_parts m /\ m_pipes m' = m_pipes m /\
                (forall p, events_of p (d_jrnl d') = acked m d p).
Proof. exact clean_quiescent. Qed.
Print Assumptions C07_clean_partial.

(* and in full with the repair "partition.Service.Shutdown syncs every journal" *)
Theorem C07_clean_fixed : forall fa fp m d, consistent m d -> keys_nodup d -> bufs_ok m ->
  exists m' d', start (mkFix true fa fp) (graceful (mkFix true fa fp) m d) = Some (m', d') /\
                m_parts m' = m_parts m /\ m_pipes m' = m_pipes m /\
                (forall p, events_of p (d_jrnl d') = acked m d p).
Proof. exact clean_with_sync. Qed.
Print Assumptions C07_clean_fixed.

(* ================= crash inside the tag-index save ================= *)
(* the property: at every crash point of saveStateUnsafe (before/after the rename, every torn length of the write)
   Init succeeds and the index is the old or the new one.  False of the code: after the rename tindex.dat is
   missing, the index loads empty, a journal with data has no record, Init fails (tindex.bak is never read) *)
Theorem C07_crash_tindex_refuted : ~ tindex_crash_statement code_fix.
Proof.
  intros H.
  specialize (H (mkDisk (Some (Whole [O])) None None None [(O, (O, [5]))] 1%nat) [O] [O; 1%nat]
                (mkDisk None (Some (Whole [O])) None None [(O, (O, [5]))] 1%nat) eq_refl).
  destruct H as [H|H].
  - intros p Hp. cbn in Hp. destruct Hp as [<-|[]]. split; left; reflexivity.
  - apply crash_later. apply crash_here.
  - vm_compute in H. discriminate H.
  - vm_compute in H. discriminate H.
Qed.
Print Assumptions C07_crash_tindex_refuted.

(* a torn tindex.dat (any length, the empty file included) or a torn pipes.dat: the server does not start *)
Theorem C07_torn_refuses_start : forall fx d k,
  d_tdat d = Some (Torn k) \/ d_pdat d = Some (Torn k) -> start fx d = None.
Proof. intros fx d k [H|H]; [exact (tindex_torn_refuses fx d k H)|exact (pipes_torn_refuses fx d k H)]. Qed.
Print Assumptions C07_torn_refuses_start.

(* what the code does guarantee: a save that completes loads back, and a crash between two saves
   (SIGKILL at any other moment) leaves a directory that starts with every partition and every flushed event *)
Theorem C07_crash_tindex_partial : forall fx d m, (forall p, In p (with_data d) -> In p m) ->
  tindex_init (tsave fx d m) = Some m.
Proof.
  intros fx d m J. apply tindex_init_whole; [apply tsave_tdat|].
  intros p Hp. apply J. unfold with_data in *. rewrite tsave_jrnl in Hp. exact Hp.
Qed.
Print Assumptions C07_crash_tindex_partial.

Theorem C07_kill_between_saves : forall fx m d pipes, consistent m d -> keys_nodup d -> pipes_init d = Some pipes ->
  exists m' d', start fx (killed m d) = Some (m', d') /\ m_parts m' = m_parts m /\ m_pipes m' = pipes /\
                (forall p, events_of p (d_jrnl d') = events_of p (d_jrnl d)).
Proof. exact kill_then_start. Qed.
Print Assumptions C07_kill_between_saves.

(* with the repair "write tindex.tmp, rename it over tindex.dat" the statement holds at every crash point *)
Theorem C07_crash_tindex_fixed : forall fs fp, tindex_crash_statement (mkFix fs true fp).
Proof. exact tindex_crash_atomic. Qed.
Print Assumptions C07_crash_tindex_fixed.

(* ================= pipe definitions ================= *)
(* the property: after a crash the acknowledged pipe definitions are there.  False of the code: pipes.dat is written
   by Shutdown only *)
Theorem C07_crash_pipes_refuted : ~ pipes_crash_statement code_fix.
Proof.
  intros H. specialize (H empty_mem (mkDisk None None None (Some (Whole [])) [] O) [SPipe O] eq_refl).
  vm_compute in H. discriminate H.
Qed.
Print Assumptions C07_crash_pipes_refuted.

(* true with the repair "save pipes.dat (atomically) on every create / delete" *)
Theorem C07_crash_pipes_fixed : forall fs fa, pipes_crash_statement (mkFix fs fa true).
Proof. exact pipes_crash_fixed. Qed.
Print Assumptions C07_crash_pipes_fixed.

(* ================= the time-index snapshot ================= *)
(* the property: after a start on any crash-shaped directory no flushed event is hidden from a time-range query.
   False of the code: cindex.dat is written at clean shutdown only and survives a crash; the chunk's stale hull
   [10,20] makes RANGE [25:45] skip the chunk that meanwhile holds 30 and 40 *)
Theorem C07_crash_cindex_refuted : ~ range_after_start_statement code_fix.
Proof.
  intros H.
  pose (d := mkDisk (Some (Whole [O])) None (Some (Whole [(O, (10, 20))])) None [(O, (O, [10; 20; 30; 40]))] 1%nat).
  destruct (start code_fix d) as [[m' d']|] eqn:S; [|vm_compute in S; discriminate S].
  specialize (H d m' d' S O 30 25 45). vm_compute in S. injection S as <- <-.
  vm_compute in H. apply H; [right; right; left; reflexivity|reflexivity].
Qed.
Print Assumptions C07_crash_cindex_refuted.

(* a missing or torn snapshot is harmless: the hull rebuilt from the chunk (first, last record) hides nothing as
   long as timestamps do not decrease inside the chunk (the other cases are C02's) *)
Theorem C07_crash_cindex_partial : forall evs lo hi t, StronglySorted Z.le evs -> In t evs -> in_range lo hi t = true ->
  In t (range_query (light_hull evs) evs lo hi).
Proof. exact range_rebuilt. Qed.
Print Assumptions C07_crash_cindex_partial.

(* ================= non-vacuity and reachability of the witnesses ================= *)
(* the states used above are what real histories produce (the harness replays these histories on the server) *)
Example C07_witnesses_reachable :
  (* write 10,20,30; flush; write 40; graceful stop; start: 40 is gone *)
  run_sessions code_fix 1 15 25 empty_disk [mkSession [SWrite 0 [10; 20; 30]; SSync; SWrite 0 [40]] true []]
    = [OStarted [None] [] [[]]; OStarted [Some [10; 20; 30]] [] [[20]]] /\
  (* crash between rename and write *)
  run_sessions code_fix 1 15 25 empty_disk [mkSession [SWrite 0 [10; 20; 30]; SSync] true [GTRenamed]]
    = [OStarted [None] [] [[]]; ORefused] /\
  (* pipe created, SIGKILL *)
  run_sessions code_fix 1 15 25 empty_disk [mkSession [SPipe 0] false []]
    = [OStarted [None] [] [[]]; OStarted [None] [] [[]]] /\
  (* 10,20 | clean stop | 30,40 flushed | SIGKILL: hidden from RANGE [25:45] *)
  run_sessions code_fix 1 25 45 empty_disk [mkSession [SWrite 0 [10; 20]; SSync] true []; mkSession [SWrite 0 [30; 40]; SSync] false []]
    = [OStarted [None] [] [[]]; OStarted [Some [10; 20]] [] [[]]; OStarted [Some [10; 20; 30; 40]] [] [[]]] /\
  (* with all three repairs the first and the third history keep everything *)
  run_sessions (mkFix true true true) 1 15 25 empty_disk [mkSession [SWrite 0 [10; 20; 30]; SSync; SWrite 0 [40]; SPipe 0] false []]
    = [OStarted [None] [] [[]]; OStarted [Some [10; 20; 30]] [0%nat] [[20]]] /\
  run_sessions (mkFix true true true) 1 15 25 empty_disk [mkSession [SWrite 0 [10; 20; 30]; SSync; SWrite 0 [40]] true []]
    = [OStarted [None] [] [[]]; OStarted [Some [10; 20; 30; 40]] [] [[20]]].
Proof. vm_compute. repeat split. Qed.

(* a consistent running state with a buffered event, as the hypotheses of the clean theorems require *)
Example C07_consistent_nonvacuous :
  let md := run_steps code_fix (empty_mem, empty_disk) [SWrite 0 [10; 20]; SSync; SWrite 1 [11]; SPipe 0] in
  consistent (fst md) (snd md) /\ keys_nodup (snd md) /\ bufs_ok (fst md) /\ m_buf (fst md) <> [] /\
  acked (fst md) (snd md) 0 = [10; 20] /\ acked (fst md) (snd md) 1 = [11].
Proof.
  cbn zeta. split; [|split; [|split; [|split; [|split]]]].
  - split; [vm_compute; reflexivity|]. split.
    + intros p Hp. vm_compute in Hp. destruct Hp as [<-|[]]. vm_compute. left. reflexivity.
    + intros p Hp. destruct p as [|[|p]]; [vm_compute; left; reflexivity|vm_compute; right; left; reflexivity|].
      exfalso. apply Hp. reflexivity.
  - vm_compute. repeat constructor; intuition discriminate.
  - split; [vm_compute; repeat constructor; intuition discriminate|].
    intros p Hp. vm_compute in Hp. destruct Hp as [<-|[]]. vm_compute. discriminate.
  - vm_compute. discriminate.
  - vm_compute. reflexivity.
  - vm_compute. reflexivity.
Qed.
