(* C01 — Acknowledged writes are read back intact, exactly once, in write order.
   Property theorems only; each is closed by a lemma of proofs/{XBinaryP,LogEventP,WireP,JournalP,WriteP}.v. *)
From LR Require Import lib.Base model.XBinary model.LogEvent model.Wire model.Journal model.Write.
From LR Require Import proofs.XBinaryP proofs.LogEventP proofs.WireP proofs.JournalP proofs.WriteP proofs.InterleaveP proofs.PositionsP.

(* ---- byte codecs ---- *)

(* every uint64 survives MarshalUint / UnmarshalUint, whatever follows it in the buffer *)
Theorem C01_varint : forall n rest, (n < 18446744073709551616)%N ->
  unmarshal_uint (marshal_uint n ++ rest) = Ok (n, rest).
Proof. exact varint_roundtrip. Qed.
Print Assumptions C01_varint.

(* the hand-written width table agrees with the encoder for every uint64 *)
Theorem C01_varint_width : forall n, (n < 18446744073709551616)%N -> length (marshal_uint n) = writable_uint_size n.
Proof. exact width_table. Qed.
Print Assumptions C01_varint_width.

(* length-prefixed bytes: any content (empty, NUL, non-UTF8), any suffix *)
Theorem C01_bytes : forall v rest, len_ok v -> unmarshal_bytes (marshal_bytes v ++ rest) = Ok (v, rest).
Proof. exact bytes_roundtrip. Qed.
Print Assumptions C01_bytes.

(* the record iwrapper.Get hands to the chunk writer (Marshal into a WritableSize() buffer) is the encoding *)
Theorem C01_record : forall e, le_ok e -> marshal_into (writable_size e) e = marshal_le e /\ writable_size e = length (marshal_le e).
Proof. intros e H. split; [exact (marshal_into_ok e H)|exact (writable_size_ok e H)]. Qed.
Print Assumptions C01_record.

(* Marshal into a buffer that is too small (any size): the buffer receives a prefix of the encoding - the parts that fit -
   and the rest stays untouched; nothing else is ever written *)
Theorem C01_record_short : forall sz e, exists k, (k <= sz)%nat /\ (k <= length (marshal_le e))%nat /\
  marshal_into sz e = firstn k (marshal_le e) ++ repeat x00 (sz - k).
Proof. exact marshal_into_short. Qed.
Print Assumptions C01_record_short.

(* LogEvent codec: Unmarshal gives the event back whatever the reused struct [prev] held before (Fields is reset
   when the record carries none) *)
Theorem C01_codec : forall prev e, le_ok e -> unmarshal_le prev (marshal_le e) = Ok e.
Proof. exact le_codec. Qed.
Print Assumptions C01_codec.

(* the variant before the repair (Fields left alone when header bit 0 is clear) did not have this property: a
   struct that held fields delivered them with a record that has none *)
Theorem C01_codec_kept_fields_refuted : ~ (forall prev e, le_ok e -> unmarshal_le_v false prev (marshal_le e) = Ok e).
Proof.
  intros H.
  specialize (H {| le_ts := 0; le_msg := []; le_flds := [x01; x6b; x01; x76] |} {| le_ts := 5; le_msg := [x6d]; le_flds := [] |}).
  assert (Hok : le_ok {| le_ts := 5; le_msg := [x6d]; le_flds := [] |}) by (unfold le_ok, in_i64, len_ok; cbn; repeat split; lia).
  specialize (H Hok). vm_compute in H. discriminate.
Qed.
Print Assumptions C01_codec_kept_fields_refuted.

(* the read side releases the struct between events: a sequence of records decodes to the sequence of events *)
Theorem C01_codec_iter : forall es, Forall le_ok es -> lei_read le_zero (map marshal_le es) = Ok es.
Proof. intros es H. exact (lei_read_ok es le_zero H). Qed.
Print Assumptions C01_codec_iter.

(* rpc: one event, the event list of a query result, the write packet and its server-side iterator *)
Theorem C01_wire_event : forall e rest, ae_ok e -> unmarshal_api_event (write_api_event e ++ rest) = Ok (e, rest).
Proof. exact api_event_roundtrip. Qed.
Print Assumptions C01_wire_event.

Theorem C01_wire_result : forall evs rest, Forall ae_ok evs -> count_ok evs ->
  decode_events (encode_events evs ++ rest) = Ok (evs, rest).
Proof. exact events_roundtrip. Qed.
Print Assumptions C01_wire_result.

(* the write packet: init + (Get; Next)* on the server serves the client's events, write-level fields first *)
Theorem C01_wire_packet : forall fparse tags flds evs wf fuel, len_ok tags -> len_ok flds -> count_ok evs -> Forall ae_ok evs ->
  fparse flds = Ok wf -> (length evs < fuel)%nat ->
  exists it, wp_init fparse (encode_wp tags flds evs) = Ok (tags, it) /\
    wp_drain fparse fuel it = Ok (map (spec_levent fparse wf) evs).
Proof. exact packet_roundtrip. Qed.
Print Assumptions C01_wire_packet.

(* ---- the write path ---- *)

(* one Journal.Write call, any iterator obeying the Get/Next protocol ([Rep s l fl]: l is pending in state s, after
   l the iterator reports io.EOF (fl = false) or another error (fl = true)), any chunk size > 0, any alignment of the
   pending records with the chunk boundary: a non-empty prefix of the pending records is appended and the call
   succeeds; when nothing is pending nothing changes and the call reports nil after io.EOF and the iterator's error
   otherwise *)
Theorem C01_journal_write : forall (St : Type) get next (Rep : St -> list bytes -> bool -> Prop), iter_laws get next Rep ->
  forall fuel cfg j s l fl, (0 < max_chunk cfg)%Z -> Rep s l fl -> (length l < fuel)%nat ->
  exists k j' s' pos e, journal_write St get next fuel cfg j s = Ok (j', s', k, pos, e) /\
    flat j' = flat j ++ firstn k l /\ Rep s' (skipn k l) fl /\ (k <= length l)%nat /\
    (l <> [] -> (1 <= k)%nat /\ e = WNil) /\ (l = [] -> e = end_err fl).
Proof. exact journal_write_spec. Qed.
Print Assumptions C01_journal_write.

(* refinement: for every configuration (chunk size > 0; the write path's record limit positive and not above the
   readers' MaxRecordSize, as in a linked server where both are the same number) and every history of write requests
   (RPC or direct, any batch sizes, any tags spelling, events of any size), a request is acknowledged exactly when
   the specification accepts it (tags and fields accepted, no record above the limit), and reading any partition back
   succeeds and returns the concatenation of the stored batches - every acknowledged batch whole; of a batch rejected
   for an oversize event its events before that one - with the same timestamps, the same message bytes, write-level
   fields followed by the event's own fields, the partition's tag line, in write order, each event once.
   Hypotheses: the parameter functions return Ok or Err; sizes are Go-representable. *)
Theorem C01_readback : forall fparse norm as_kv, total fparse -> total norm ->
  forall cfg rs fuel key, (0 < max_chunk cfg)%Z -> (0 < w_limit cfg <= max_rec cfg)%Z ->
  Forall req_ok rs -> Forall (fun r => (req_len r < fuel)%nat) rs ->
  Forall le_ok (concat (map (spec_req fparse norm cfg key) rs)) ->
  exists srv res, run fparse norm fuel cfg [] rs = Ok (srv, res) /\
    map r_ack res = map (spec_ack fparse norm cfg) rs /\
    read_back as_kv cfg srv key = Ok (spec_content fparse norm as_kv cfg key rs).
Proof. exact readback. Qed.
Print Assumptions C01_readback.

(* a clean stop and start is the identity on what can be read (Shutdown syncs the last chunk of every journal) ... *)
Theorem C01_restart_identity : forall as_kv cfg srv key, read_back as_kv cfg (restart srv) key = read_back as_kv cfg srv key.
Proof. exact read_back_restart. Qed.
Print Assumptions C01_restart_identity.

(* ... so a history with clean restarts between its segments and before the read (run_segs) acknowledges and reads back
   exactly what the history without them does: the refinement statement of C01_readback over segments *)
Theorem C01_restart : forall fparse norm as_kv, total fparse -> total norm ->
  forall cfg segs fuel key, (0 < max_chunk cfg)%Z -> (0 < w_limit cfg <= max_rec cfg)%Z ->
  Forall (Forall req_ok) segs -> Forall (Forall (fun r => (req_len r < fuel)%nat)) segs ->
  Forall le_ok (concat (map (spec_req fparse norm cfg key) (concat segs))) ->
  exists srv res, run_segs fparse norm fuel cfg [] segs = Ok (srv, res) /\
    map r_ack res = map (spec_ack fparse norm cfg) (concat segs) /\
    read_back as_kv cfg (restart srv) key = Ok (spec_content fparse norm as_kv cfg key (concat segs)).
Proof. exact readback_restart. Qed.
Print Assumptions C01_restart.

(* an acknowledged batch is stored whole *)
Theorem C01_acknowledged_whole : forall fparse norm cfg key r k evs,
  spec_batch fparse norm r = Some (k, evs) -> spec_ack fparse norm cfg r = true ->
  spec_req fparse norm cfg key r = if bytes_eqb k key then evs else [].
Proof.
  intros fparse norm cfg key r k evs Hb Ha. unfold spec_ack, spec_req in *. rewrite Hb in *.
  destruct (bytes_eqb k key); [|reflexivity]. apply fit_prefix_all. apply negb_true_iff. exact Ha.
Qed.
Print Assumptions C01_acknowledged_whole.

(* the invariant behind it, whatever the limits are: flattened journal = concatenation of the stored batches *)
Theorem C01_journal_content : forall fparse norm, total fparse -> total norm ->
  forall cfg rs fuel, (0 < max_chunk cfg)%Z -> Forall req_ok rs -> Forall (fun r => (req_len r < fuel)%nat) rs ->
  exists srv res, run fparse norm fuel cfg [] rs = Ok (srv, res) /\ map r_ack res = map (spec_ack fparse norm cfg) rs /\
    forall key, content srv key = map iw_rec (concat (map (spec_req fparse norm cfg key) rs)).
Proof. exact run_total. Qed.
Print Assumptions C01_journal_content.

(* the WriteEvent of a Service.Write (around any model.Iterator obeying the protocol, any chunk size, journal with
   increasing chunk ids, fewer than 2^32 records): the records of the batch's events before the first oversize one are
   appended (all of them when there is none); the call fails exactly when there is an oversize event or the iterator
   fails; when anything was appended StartPos is the position of the first appended record (offset = number of
   records the partition had) and EndPos the position after the last one (offset = new number of records), also when
   the batch spans chunk roll-overs; when nothing was appended no event is emitted.
   [pos_offset j p] = number of records of j before position p = (chunk id, index). *)
Theorem C01_positions : forall (T : Type) get next (RepL : T -> list levent -> bool -> Prop), iter_laws get next RepL ->
  forall fuel cfg j s evs flL, (0 < max_chunk cfg)%Z -> RepL s evs flL -> (length evs < fuel)%nat -> ids_ok j ->
  (N.of_nat (length (flat j) + length evs) < 4294967296)%N ->
  exists j' s' we, sw_loop T (iw_get T get (w_limit cfg)) (iw_next T next) fuel fuel cfg j s None =
                   Ok (j', s', we, has_big (w_limit cfg) evs || flL) /\
    flat j' = flat j ++ map iw_rec (fit_prefix (w_limit cfg) evs) /\ ids_ok j' /\
    match we with
    | None => fit_prefix (w_limit cfg) evs = []
    | Some (st, en) => fit_prefix (w_limit cfg) evs <> [] /\ pos_offset j' st = length (flat j) /\ pos_offset j' en = length (flat j')
    end.
Proof. exact write_positions. Qed.
Print Assumptions C01_positions.

(* K writers on one partition, atomic step = one Journal.Write call, ANY schedule, events of any size: the journal
   grows by a log in which every record belongs to exactly one writer; what a writer has written is a prefix of the
   accepted part of its batch (its events before the first oversize one; the whole batch when there is none) and a
   subsequence of the journal (own order kept); a writer fails only on an oversize event of its own batch; a writer
   that took max(|accepted part|,1) steps has its whole accepted part in the journal, exactly once, and has failed
   exactly when its batch holds an oversize event *)
Theorem C01_interleave : forall fuel cfg j0 batches sched, (0 < max_chunk cfg)%Z -> (forall b, In b batches -> (length b < fuel)%nat) ->
  exists st, crun fuel cfg (cinit j0 batches) sched = Ok st /\
    flat (cs_j st) = flat j0 ++ map snd (cs_log st) /\
    (forall p, In p (cs_log st) -> (fst p < length batches)%nat) /\
    forall w b, nth_error batches w = Some b ->
      (exists rest, map iw_rec (fit_prefix (w_limit cfg) b) = written_by w (cs_log st) ++ rest) /\
      subseq (written_by w (cs_log st)) (flat (cs_j st)) /\
      (forall wr, nth_error (cs_ws st) w = Some wr -> wr_failed wr = true -> has_big (w_limit cfg) b = true) /\
      ((Nat.max (length (fit_prefix (w_limit cfg) b)) 1 <= count_occ Nat.eq_dec sched w)%nat ->
         written_by w (cs_log st) = map iw_rec (fit_prefix (w_limit cfg) b) /\
         forall wr, nth_error (cs_ws st) w = Some wr -> wr_failed wr = has_big (w_limit cfg) b).
Proof. exact interleave. Qed.
Print Assumptions C01_interleave.

(* a reader between two steps sees a prefix of what a later reader sees *)
Theorem C01_reader_prefix : forall fuel cfg j0 batches s1 s2, (0 < max_chunk cfg)%Z -> (forall b, In b batches -> (length b < fuel)%nat) ->
  exists st1 st2, crun fuel cfg (cinit j0 batches) s1 = Ok st1 /\ crun fuel cfg (cinit j0 batches) (s1 ++ s2) = Ok st2 /\
    exists more, flat (cs_j st2) = flat (cs_j st1) ++ more.
Proof. exact reader_prefix. Qed.
Print Assumptions C01_reader_prefix.

(* ---- "a write the server cannot serve back must be rejected, not acknowledged" ---- *)
(* after every history every partition can be read, for the configurations [P] *)
Definition C01_reject_statement (P : jcfg -> Prop) : Prop :=
  forall fparse norm as_kv, total fparse -> total norm ->
  forall cfg rs fuel key srv res, P cfg -> (0 < max_chunk cfg)%Z -> Forall req_ok rs -> Forall (fun r => (req_len r < fuel)%nat) rs ->
  Forall le_ok (concat (map (spec_req fparse norm cfg key) rs)) ->
  run fparse norm fuel cfg [] rs = Ok (srv, res) ->
  exists evs, read_back as_kv cfg srv key = Ok evs.

(* the code: the write path applies a positive limit that is not above the readers' MaxRecordSize (a linked server:
   Service.maxRecordSize() is the effective MaxRecordSize of the journal controller's configuration) *)
Theorem C01_reject : C01_reject_statement (fun cfg => (0 < w_limit cfg <= max_rec cfg)%Z).
Proof.
  intros fparse norm as_kv Hf Hn cfg rs fuel key srv res Hlim Hmax Hok Hfu Hle Hrun.
  destruct (readback fparse norm as_kv Hf Hn cfg rs fuel key Hmax Hlim Hok Hfu Hle) as (srv' & res' & Hrun' & _ & Hrb).
  rewrite Hrun in Hrun'. injection Hrun' as <- <-. eexists. exact Hrb.
Qed.
Print Assumptions C01_reject.

Definition big_msg : bytes := repeat x78 30.
Definition reject_witness : list req :=
  [RpcW {| w_tags := [x61]; w_flds := []; w_evs := [{| ae_ts := 1; ae_msg := big_msg; ae_tags := []; ae_flds := [] |}] |}].

(* without the limit on the write path (w_limit = 0: a Service built without the configuration; before the repair
   every Service) the statement is false: a 30-byte message with MaxRecordSize = 20 is acknowledged, then the read fails *)
Theorem C01_reject_unlimited_refuted : ~ C01_reject_statement (fun cfg => w_limit cfg = 0%Z).
Proof.
  intros H.
  assert (T : total (fun _ : bytes => Ok [])) by (intros b; right; exists []; reflexivity).
  assert (T' : total (fun t : bytes => Ok t)) by (intros b; right; exists b; reflexivity).
  specialize (H (fun _ => Ok []) (fun t => Ok t) (fun b => b) T T'
                {| max_chunk := 1000; max_rec := 20; w_limit := 0 |} reject_witness 5%nat [x61]).
  edestruct H as (evs & E).
  - reflexivity.
  - reflexivity.
  - repeat constructor; unfold len_ok, count_ok, in_i64; cbn; lia.
  - repeat constructor.
  - repeat constructor; unfold len_ok, in_i64; cbn; lia.
  - vm_compute. reflexivity.
  - vm_compute in E. discriminate.
Qed.
Print Assumptions C01_reject_unlimited_refuted.

(* the same witness on the code: rejected, nothing stored, the partition stays readable *)
Example C01_reject_witness_rejected :
  let cfg := {| max_chunk := 1000; max_rec := 20; w_limit := 20 |} in
  exists srv, run (fun _ => Ok []) (fun t => Ok t) 5 cfg [] reject_witness = Ok (srv, [{| r_ack := false; r_we := None |}]) /\
    read_back (fun b => b) cfg srv [x61] = Ok [].
Proof. eexists. split; [vm_compute; reflexivity|vm_compute; reflexivity]. Qed.

(* a raw request body: an acknowledged packet stores as many events as it declares.  [eof_on_error] selects the
   packet iterator (false = the code) *)
Definition C01_reject_truncated_statement (eof_on_error : bool) : Prop :=
  forall fparse norm, total fparse -> total norm ->
  forall cfg fuel body srv res tags it key, (0 < max_chunk cfg)%Z ->
  ingest_v fparse norm eof_on_error fuel cfg [] body = Ok (srv, res) -> r_ack res = true ->
  wp_init fparse body = Ok (tags, it) -> norm tags = Ok key ->
  N.of_nat (length (content srv key)) = wp_recs it.

Definition truncated_witness : bytes :=
  marshal_bytes [x61] ++ marshal_bytes [] ++ marshal_u32 2 ++
  write_api_event {| ae_ts := 7; ae_msg := [x6f; x6e; x6c; x79]; ae_tags := []; ae_flds := [] |}.

(* the code: for EVERY request body (truncated, counts raised or lowered, garbage), every limit and chunk size: if
   the ingestor acknowledges it, the partition holds exactly as many events as the packet declares *)
Theorem C01_reject_truncated : C01_reject_truncated_statement false.
Proof.
  intros fparse norm _ _ cfg fuel body srv res tags it key _ H Hack Hinit Hn.
  exact (truncated_rejected fparse norm cfg fuel body srv res tags it key H Hack Hinit Hn).
Qed.
Print Assumptions C01_reject_truncated.

(* the iterator before the repair refutes it: the count says 2, one event is carried; wpIterator.Get turned the decode
   error into EOF, the write was acknowledged with one event stored *)
Theorem C01_reject_truncated_eof_refuted : ~ C01_reject_truncated_statement true.
Proof.
  intros H.
  assert (T : total (fun _ : bytes => Ok [])) by (intros b; right; exists []; reflexivity).
  assert (T' : total (fun t : bytes => Ok t)) by (intros b; right; exists b; reflexivity).
  specialize (H (fun _ => Ok []) (fun t => Ok t) T T' {| max_chunk := 1000; max_rec := 1000; w_limit := 1000 |} 100%nat truncated_witness).
  evar (srv : server). evar (res : wres). evar (it : wpit).
  specialize (H srv res [x61] it [x61] eq_refl).
  assert (E : N.of_nat (length (content srv [x61])) = wp_recs it).
  { apply H; subst srv res it; vm_compute; reflexivity. }
  subst srv it. vm_compute in E. discriminate.
Qed.
Print Assumptions C01_reject_truncated_eof_refuted.

(* its hypotheses are satisfiable: a complete packet (count 1, one event) is acknowledged and stored *)
Example C01_reject_truncated_nonvacuous :
  let body := marshal_bytes [x61] ++ marshal_bytes [] ++ marshal_u32 1 ++
              write_api_event {| ae_ts := 7; ae_msg := [x6f; x6e; x6c; x79]; ae_tags := []; ae_flds := [] |} in
  exists srv we it, ingest (fun _ => Ok []) (fun t => Ok t) 100 {| max_chunk := 1000; max_rec := 1000; w_limit := 1000 |} [] body =
                 Ok (srv, {| r_ack := true; r_we := we |}) /\
    wp_init (fun _ => Ok []) body = Ok ([x61], it) /\ wp_recs it = 1%N /\ length (content srv [x61]) = 1%nat.
Proof. eexists _, _, _. split; [vm_compute; reflexivity|]. split; [vm_compute; reflexivity|]. split; vm_compute; reflexivity. Qed.

(* the same witness on the code: rejected (the event the packet does carry is stored, unacknowledged) *)
Example C01_truncated_witness_rejected :
  exists srv we, ingest (fun _ => Ok []) (fun t => Ok t) 100 {| max_chunk := 1000; max_rec := 1000; w_limit := 1000 |} [] truncated_witness =
                 Ok (srv, {| r_ack := false; r_we := we |}) /\ length (content srv [x61]) = 1%nat.
Proof. eexists _, _. split; [vm_compute; reflexivity|vm_compute; reflexivity]. Qed.

(* non-vacuity of the hypotheses *)
Example C01_ok_event : le_ok {| le_ts := (-9223372036854775808)%Z; le_msg := [x00; xff; x80]; le_flds := [x01; x61; x01; x62] |}.
Proof. unfold le_ok, in_i64, len_ok. cbn. repeat split; lia. Qed.

(* the hypotheses of C01_readback are satisfiable by a history in which a batch with fields on both levels spans a
   chunk roll-over (three chunks) *)
Definition ex_fparse (b : bytes) : outcome bytes := match b with [] => Ok [] | _ => Ok [x01; x6b; x01; x76] end.
Definition ex_reqs : list req :=
  [RpcW {| w_tags := [x61]; w_flds := [x6b; x3d; x76];
           w_evs := [{| ae_ts := 1; ae_msg := repeat x6d 20; ae_tags := []; ae_flds := [x6b; x3d; x76] |};
                     {| ae_ts := (-2); ae_msg := []; ae_tags := []; ae_flds := [] |};
                     {| ae_ts := 3; ae_msg := repeat x00 25; ae_tags := []; ae_flds := [] |}] |};
   DirW [x61] [{| le_ts := 4; le_msg := [xff]; le_flds := [] |}]].
Example C01_readback_nonvacuous :
  exists srv res, run ex_fparse (fun t => Ok t) 10 {| max_chunk := 40; max_rec := 100; w_limit := 100 |} [] ex_reqs = Ok (srv, res) /\
    length (srv_get srv [x61]) = 3%nat /\ map r_ack res = [true; true] /\
    exists l, read_back (fun b => b) {| max_chunk := 40; max_rec := 100; w_limit := 100 |} srv [x61] = Ok l /\ length l = 4%nat.
Proof. eexists _, _. split; [vm_compute; reflexivity|]. vm_compute. repeat split. eexists. split; reflexivity. Qed.

(* C01_positions is not vacuous: a batch of four events on a journal that already holds one record in a full chunk;
   the event starts in chunk 2 at index 0 and ends in chunk 3 *)
Example C01_positions_nonvacuous :
  let j0 := [{| c_id := 1; c_recs := [[x01]]; c_size := 60; c_cfrm := 1 |}] in
  let evs := [{| le_ts := 1; le_msg := repeat x6d 20; le_flds := [] |}; {| le_ts := 2; le_msg := repeat x6d 20; le_flds := [] |};
              {| le_ts := 3; le_msg := []; le_flds := [] |}; {| le_ts := 4; le_msg := [x00]; le_flds := [] |}] in
  ids_ok j0 /\
  exists j' s', sw_loop (list levent) (iw_get (list levent) ls_get 100) (iw_next (list levent) ls_next) 10 10 {| max_chunk := 50; max_rec := 100; w_limit := 100 |} j0 evs None =
                Ok (j', s', Some ((2%N, 0%N), (3%N, 2%N)), false) /\
                pos_offset j' (2%N, 0%N) = 1%nat /\ pos_offset j' (3%N, 2%N) = 5%nat /\ length j' = 3%nat.
Proof. cbv zeta. split; [cbn; lia|]. eexists _, _. split; [vm_compute; reflexivity|]. vm_compute. repeat split. Qed.
