(* C01 — Acknowledged writes are read back intact, exactly once, in write order.
   Property theorems only; each is closed by a lemma of proofs/{XBinaryP,LogEventP,WireP,JournalP,WriteP}.v. *)
From LR Require Import lib.Base model.XBinary model.LogEvent model.Wire model.Journal model.Write.
From LR Require Import proofs.XBinaryP proofs.LogEventP proofs.WireP.

(* ---- byte codecs ---- *)

(* every uint64 survives MarshalUint / UnmarshalUint, whatever follows it in the buffer *)
Theorem C01_varint : forall n rest, (n < 18446744073709551616)%N ->
  unmarshal_uint (marshal_uint n ++ rest) = Ok (n, rest).
Proof. exact varint_roundtrip. Qed.
Print Assumptions C01_varint.

(* the hand-written width table agrees with the encoder for every uint64 *)
Theorem C01_varint_width : forall n, (n < 18446744073709551616)%N -> length (marshal_uint n) = writable_uint_size n.
Proof. exact width_table. Qed.
Print Assumptions C01_varint_width.

(* length-prefixed bytes: any content (empty, NUL, non-UTF8), any suffix *)
Theorem C01_bytes : forall v rest, len_ok v -> unmarshal_bytes (marshal_bytes v ++ rest) = Ok (v, rest).
Proof. exact bytes_roundtrip. Qed.
Print Assumptions C01_bytes.

(* the record iwrapper.Get hands to the chunk writer (Marshal into a WritableSize() buffer) is the encoding *)
Theorem C01_record : forall e, le_ok e -> marshal_into (writable_size e) e = marshal_le e /\ writable_size e = length (marshal_le e).
Proof. intros e H. split; [exact (marshal_into_ok e H)|exact (writable_size_ok e H)]. Qed.
Print Assumptions C01_record.

(* LogEvent codec incl. the reused struct: Unmarshal gives the event back, except that Fields keeps the
   previous value of the struct when the record carries none (header bit 0 clear) *)
Theorem C01_codec : forall prev e, le_ok e ->
  unmarshal_le prev (marshal_le e) = Ok (after_unmarshal prev e) /\
  (le_flds prev = [] -> unmarshal_le prev (marshal_le e) = Ok e).
Proof. intros prev e H. split; [exact (le_codec prev e H)|exact (le_codec_fresh prev e H)]. Qed.
Print Assumptions C01_codec.

(* the read side releases the struct between events: a sequence of records decodes to the sequence of events *)
Theorem C01_codec_iter : forall es, Forall le_ok es -> lei_read le_zero (map marshal_le es) = Ok es.
Proof. intros es H. exact (lei_read_ok es le_zero eq_refl H). Qed.
Print Assumptions C01_codec_iter.

(* rpc: one event, the event list of a query result, the write packet and its server-side iterator *)
Theorem C01_wire_event : forall e rest, ae_ok e -> unmarshal_api_event (write_api_event e ++ rest) = Ok (e, rest).
Proof. exact api_event_roundtrip. Qed.
Print Assumptions C01_wire_event.

Theorem C01_wire_result : forall evs rest, Forall ae_ok evs -> count_ok evs ->
  decode_events (encode_events evs ++ rest) = Ok (evs, rest).
Proof. exact events_roundtrip. Qed.
Print Assumptions C01_wire_result.

(* non-vacuity of the hypotheses *)
Example C01_ok_event : le_ok {| le_ts := (-9223372036854775808)%Z; le_msg := [x00; xff; x80]; le_flds := [x01; x61; x01; x62] |}.
Proof. unfold le_ok, in_i64, len_ok. cbn. repeat split; lia. Qed.
