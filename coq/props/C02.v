(* C02 — Time-range queries return exactly the events whose timestamp is in range.
   Property theorems only. Model: model/TmTree.v (sparse index), model/CIndex.v (per-chunk hull and index),
   model/Selector.v (write path, range read, histories). The theorems are about `impl_variant`, the variant
   of the model the correspondence check compares the implementation with (= fixed_variant: the repairs
   C02-lower-bound, C02-zero-unset, C02-open-lower-bound and C02-write-after-index-loss are in /repo); the
   variants with a flag switched off describe the code before the corresponding repair. *)
From LR Require Import lib.Base model.TmTree model.TmTreeML model.CIndex model.Selector.
From LR Require Import gen.Consts.
From LR Require Import proofs.TmTreeP proofs.TmTreeMLP proofs.CIndexP proofs.SelectorP proofs.SelectorInvP proofs.SelectorRunP.
From LR Require Import proofs.SelectorSelP.
From LR Require Import proofs.SelectorPosP.
From LR Require Import proofs.SelectorSnapP.
Open Scope Z_scope.

(* The property as a statement about a variant v of the model: after ANY history of write batches
   (any timestamps, any split into chunks), rebuilds, syncs, index losses and earlier reads, a RANGE
   read delivers exactly the in-range events of the unbounded read. *)
Definition C02_complete_statement (v : variant) : Prop :=
  forall hist o1 o2, Forall op_ok hist -> op_ok (HRead o1 o2) -> complete_at v (run v hist) o1 o2.

(* ---- soundness: for every variant, every state (no invariant, index arbitrarily wrong) and every range,
   what is delivered is a subsequence of the in-range events of the unbounded read: only events of the
   partition, only in range, in stored order, none twice ---- *)
Theorem C02_sound : forall v st o1 o2,
  subseq (fst (range_read v st o1 o2)) (filter (in_range_opt o1 o2) (read_all st)).
Proof. exact range_read_sound. Qed.
Print Assumptions C02_sound.

(* ---- window completeness: under the meaning invariant of a chunk (hull contains every timestamp; index
   records are bounds for the positions before/after them) the selector's window [minPos,maxPos] contains
   every position whose timestamp is in [t1,t2] — for the repaired lower bound ---- *)
Theorem C02_window_complete : forall v ci t1 t2 k d,
  fix_lb v = true -> find_chunk ci (k_id k) = Some k -> chunk_inv k d -> len d <= max_uint32 ->
  forall i, 0 <= i < len d -> t1 <= dnth d i <= t2 ->
  let st := fst (update_poss v ci t1 t2 (k_id k) (k_rmin k) (k_rmax k) (len d)) in
  snd (check_pos_or_advance st 0) = true /\ fst (check_pos_or_advance st 0) <= i <= s_max st.
Proof. exact window_complete. Qed.
Print Assumptions C02_window_complete.

(* ---- invariant => completeness (any state, any data, no monotonicity): if every chunk the reader's
   SyncChunks knows satisfies the invariant, RANGE = filter of the full scan ---- *)
Theorem C02_complete_of_invariant : forall v st o1 o2,
  fix_lb v = true -> fix_open v = true -> data_int64 st ->
  (forall t, o1 = Some t -> int64_ok t) -> (forall t, o2 = Some t -> int64_ok t) ->
  synced_inv chunk_inv (ci_sync (p_ci st) (p_chunks st)) (p_chunks st) ->
  complete_at v st o1 o2.
Proof. exact complete_of_inv. Qed.
Print Assumptions C02_complete_of_invariant.

(* the lower-bound call as it was before the repair (the index asked for t1 itself) needed the strict
   invariant (strictly smaller timestamps before a record) and an explicit lower bound; kept because it
   says exactly which inputs the old call was right on: no equal-timestamp run across an index record *)
Theorem C02_old_lower_bound_complete_of_strict_invariant : forall v st t1 o2,
  fix_lb v = false -> data_int64 st -> int64_ok t1 -> (forall t, o2 = Some t -> int64_ok t) ->
  synced_inv chunk_inv_strict (ci_sync (p_ci st) (p_chunks st)) (p_chunks st) ->
  complete_at v st (Some t1) o2.
Proof. exact complete_of_inv_strict. Qed.
Print Assumptions C02_old_lower_bound_complete_of_strict_invariant.

(* ---- what IS proved of the whole system, for the code as it is: for every history whose timestamps are
   non-decreasing in write order and whose batches follow the journal's discipline (a batch continues the last
   chunk and/or opens new ones with larger ids; fewer than 2^32 records), and for every range (either bound may
   be omitted): RANGE = filter of the full scan.  Batch sizes, chunk sizes, equal-timestamp runs, zeros,
   negative values, int64 extremes, failed TryLocks, sparse skips, big gaps, rebuilds, syncs, index losses AT
   ANY POINT (also directly before a write: the info such a write creates is marked partial and reported with
   an unlimited time range until the rebuild has scanned the chunk), clean restarts (index saved and loaded,
   the mark included) and describes (forced rebuild requests) are all arbitrary.
   What is left of "partial": hist_sorted (the recorded finding c02-non-monotone, needed: see
   C02_nonmonotone_refuted) and the two assumptions about the journal, hist_disciplined and hist_small. ---- *)
Definition C02_complete_partial_statement (v : variant) : Prop :=
  forall hist o1 o2, Forall op_ok hist -> op_ok (HRead o1 o2) ->
    hist_sorted hist -> hist_disciplined hist -> hist_small hist ->
    complete_at v (run v hist) o1 o2.
Theorem C02_complete_partial : C02_complete_partial_statement impl_variant.
Proof. exact complete_impl. Qed.
Print Assumptions C02_complete_partial.

(* ---- what the four repairs bought: for EVERY variant that lacks one of them the same statement, with all
   its hypotheses, is false. The witnesses are the former known findings; the harness corpus
   (harness/c02/e2e.go corpus()) replays each of them on the implementation first on every run and now
   expects the complete answer ---- *)
(* (a) before C02-lower-bound: an equal-timestamp run across a sparse-index point, t1 equal to it
       (249 x 10, 251 x 20 in one chunk: RANGE ["20":"20"] delivered 1 of 251) *)
Theorem C02_complete_without_lower_bound_repair_refuted : forall v, fix_lb v = false -> ~ C02_complete_partial_statement v.
Proof. exact refuted_equal_run. Qed.
Print Assumptions C02_complete_without_lower_bound_repair_refuted.

(* (b) before C02-zero-unset: a batch whose first timestamp is 0 (0,5,7 got the hull [5,7]) *)
Theorem C02_complete_without_zero_repair_refuted : forall v, fix_zero v = false -> ~ C02_complete_partial_statement v.
Proof. exact refuted_zero_first. Qed.
Print Assumptions C02_complete_without_zero_repair_refuted.

(* (e) before C02-zero-unset, second place: a rebuilt index over negative timestamps ended in (0,pos);
       the witness has no timestamp 0 and no sign change, so it does not touch iwrapper's side *)
Theorem C02_rebuild_negative_without_zero_repair_refuted : forall v, fix_zero v = false -> ~ C02_complete_partial_statement v.
Proof. exact refuted_rebuild_negative. Qed.
Print Assumptions C02_rebuild_negative_without_zero_repair_refuted.

(* (d) before C02-open-lower-bound: an omitted lower bound was 0, not "unbounded" (-5,-3,4: [:"10"] delivered only 4) *)
Theorem C02_complete_without_open_lower_repair_refuted : forall v, fix_open v = false -> ~ C02_complete_partial_statement v.
Proof. exact refuted_open_lower. Qed.
Print Assumptions C02_complete_without_open_lower_repair_refuted.

(* (f) before C02-write-after-index-loss: index lost, then a write before any sync: the info that write created had the
       hull of the written records only (300 x 100, index lost, 10 x 200: RANGE ["100":"150"] was empty until the
       rebuilder had served the chunk) *)
Theorem C02_complete_without_partial_hull_repair_refuted : forall v, fix_partial v = false -> ~ C02_complete_partial_statement v.
Proof. exact refuted_drop_write. Qed.
Print Assumptions C02_complete_without_partial_hull_repair_refuted.

(* (f') the same with a clean restart inside that window: the rebuild request and the corrupted flag were not saved,
       the next write gave the chunk an index of its own records, the loss was permanent (witness: ... restart, a
       write, SyncChunks, a read, a rebuilder run - and RANGE ["100":"150"] is still empty) *)
Theorem C02_restart_in_window_without_partial_hull_repair_refuted : forall v, fix_partial v = false -> ~ C02_complete_partial_statement v.
Proof. exact refuted_drop_write_restart. Qed.
Print Assumptions C02_restart_in_window_without_partial_hull_repair_refuted.

(* ---- the hypothesis of C02_complete_partial that is about the data is needed by the code as it is: a witness
   that satisfies all the others (recorded finding) ---- *)
(* (c) timestamps that are not monotone in stored order (250 x 100, 500, 250 x 200: RANGE ["400":"600"] is empty) *)
Theorem C02_nonmonotone_refuted :
  exists hist o1 o2, Forall op_ok hist /\ op_ok (HRead o1 o2) /\ hist_disciplined hist /\ hist_small hist /\
    ~ complete_at impl_variant (run impl_variant hist) o1 o2.
Proof. exact refuted_nonmonotone. Qed.
Print Assumptions C02_nonmonotone_refuted.

(* hence the statement without hypotheses is (still) false of the code as it is *)
Theorem C02_complete_refuted : ~ C02_complete_statement impl_variant.
Proof. exact refuted_full. Qed.
Print Assumptions C02_complete_refuted.

(* ---- a selector that lives across reads (a cached RANGE cursor that is continued): chkSelector caches per chunk
   the window and the record count it was computed for (model/Selector.v get_chunk_status: recomputed for all
   chunks when the number of chunks changed, for one chunk when its record count changed). For every variant,
   every state whose chunk ids increase (index arbitrarily wrong or lost), every range and every session
   "ask the selector for all windows; write batches (any number, any sizes, any timestamps, following the
   journal's discipline); ask again; ..." - at EVERY read the continued selector's windows are exactly the
   windows a fresh selector computes in that state. So what is proved about a fresh read carries over to the
   windows of a continued one. ---- *)
Theorem C02_continued_selector : forall v t1 t2 st hs,
  inc_ids (ids_of (p_chunks st)) -> sess_disc (ids_of (p_chunks st)) hs -> session_ok false v t1 t2 st [] hs.
Proof. exact continued_selector_fresh. Qed.
Print Assumptions C02_continued_selector.

(* a refresh that leaves a window whose upper position is not limited alone ("appended records can move the
   upper position only") is wrong: the window "whole chunk out of range" is [MaxUint32..MaxUint32] and stays
   closed. Chunk with ts 1..10, RANGE [100:200], then 5 x ts 150 appended to the same chunk *)
Theorem C02_continued_selector_out_stays_out_refuted :
  exists st hs, inc_ids (ids_of (p_chunks st)) /\ sess_disc (ids_of (p_chunks st)) hs /\
    ~ session_ok true impl_variant 100 200 st [] hs.
Proof. exists lazy_wit_st, lazy_wit_hs. exact lazy_refuted. Qed.
Print Assumptions C02_continued_selector_out_stays_out_refuted.

(* non-vacuity of C02_continued_selector: in that session the code's selector does refresh: the window goes from
   "out of range" to [9..MaxUint32] *)
Example C02_continued_selector_nonvacuous :
  session_ok false impl_variant 100 200 lazy_wit_st [] lazy_wit_hs /\
  fresh_windows impl_variant 100 200 lazy_wit_st = [Some (mkst max_uint32 max_uint32 10)] /\
  fresh_windows impl_variant 100 200 (fold_left (step impl_variant) [HBatch [mkseg 1 false (repeat 150 5)]] lazy_wit_st)
    = [Some (mkst 9 max_uint32 15)].
Proof. exact lazy_wit_nonvac. Qed.

(* ---- anything but an index loss between the reads of one selector: write batches, rebuilder runs, SyncChunks, other
   reads, clean restarts, describes. A cached window may then differ from the window a fresh selector would compute
   (the index was rebuilt in between and the chunk's record count did not change), but it is still COMPLETE: for every
   history under the hypotheses of C02_complete_partial that does not end in an unsynchronised index loss, and every
   session of reads of one selector with such sub-histories in between, at every read every chunk has a window for
   all of its records that contains every position whose timestamp is in the range. ---- *)
Theorem C02_continued_selector_complete : forall t1 t2 hist0 hs,
  Forall op_ok (hist0 ++ concat hs) -> hist_sorted (hist0 ++ concat hs) -> hist_disciplined (hist0 ++ concat hs) ->
  hist_small (hist0 ++ concat hs) -> ends_synced hist0 -> Forall no_drop (concat hs) ->
  session_complete impl_variant t1 t2 (run impl_variant hist0) [] hs.
Proof. exact continued_selector_complete. Qed.
Print Assumptions C02_continued_selector_complete.

(* non-vacuity: two chunks, an index loss, a write and a sync before the selector is created; between its reads a describe
   (forced rebuild requests), a rebuilder run, a restart and a read by someone else; then a batch and a rebuilder run *)
Example C02_continued_selector_complete_nonvacuous :
  Forall op_ok (sess_hist0 ++ concat sess_hs) /\ hist_sorted (sess_hist0 ++ concat sess_hs) /\ hist_disciplined (sess_hist0 ++ concat sess_hs) /\
  hist_small (sess_hist0 ++ concat sess_hs) /\ ends_synced sess_hist0 /\ Forall no_drop (concat sess_hs).
Proof. exact sess_nonvac. Qed.

(* ---- a query continued from a SAVED POSITION (chunk id, record index) after TRUNCATE has removed chunks
   (model/Selector.v range_read_from = chkSelector.getPosForward under cursor.applyStatePos; truncate k = the k oldest
   chunks are gone, the index learns about it at its next SyncChunks). For every variant, every state (index arbitrarily
   stale) and every range: when the chunk of the position does not exist any more, the record index of the position is
   ignored - the position denotes the FIRST record of the first existing chunk after it; when every existing chunk lies
   after the position the continuation IS the range read of what exists. ---- *)
Theorem C02_position_of_removed_chunk : forall v st pc pi o1 o2,
  (forall c, In c (ids_of (p_chunks st)) -> c <> pc) ->
  range_read_from false v st pc pi o1 o2 = range_read_from false v st pc 0 o1 o2.
Proof. exact position_of_removed_chunk. Qed.
Print Assumptions C02_position_of_removed_chunk.

Theorem C02_position_before_all_chunks : forall v st pc pi o1 o2,
  (forall c, In c (ids_of (p_chunks st)) -> pc < c) ->
  range_read_from false v st pc pi o1 o2 = range_read v st o1 o2.
Proof. exact position_before_all_chunks. Qed.
Print Assumptions C02_position_before_all_chunks.

(* with the completeness of the range read of the truncated state: exactly the in-range events that still exist *)
Theorem C02_continued_after_truncation : forall hist k pc pi o1 o2,
  let st := truncate k (run impl_variant hist) in
  (forall c, In c (ids_of (p_chunks st)) -> pc < c) -> complete_at impl_variant st o1 o2 ->
  fst (range_read_from false impl_variant st pc pi o1 o2) = filter (in_range_opt o1 o2) (read_all st).
Proof. exact continued_after_truncation. Qed.
Print Assumptions C02_continued_after_truncation.

(* a selector that carries the record index of the vanished chunk over into the next chunk (seeded/C02-9) loses the
   first records of that chunk: two chunks of 300 events, a query read 120 records into chunk 1, chunk 1 truncated:
   the continuation has the 300 events of chunk 2 - the carried index delivers 180 *)
Theorem C02_carried_index_refuted :
  exists st pc pi o1 o2, (forall c, In c (ids_of (p_chunks st)) -> pc < c) /\
    length (fst (range_read_from false impl_variant st pc pi o1 o2)) = length (fst (range_read impl_variant st o1 o2)) /\
    (length (fst (range_read_from true impl_variant st pc pi o1 o2)) < length (fst (range_read impl_variant st o1 o2)))%nat.
Proof.
  exists pos_wit_st, 1, 120, (Some 0), (Some 1000). destruct carried_index_refuted as (H1 & H2 & H3 & H4).
  split; [exact H1|]. rewrite H2, H3, H4. split; [reflexivity|lia].
Qed.
Print Assumptions C02_carried_index_refuted.

(* ---- the snapshot cindex.dat and crashes (model/Selector.v lstep: the state is the partition and what cindex.dat holds):
   close() writes the snapshot at a clean shutdown only, init() loads it and REMOVES it - a snapshot is used at most
   once. Hence while the server runs there is no snapshot on disk, a crash (the process dies without close()) leaves
   none, and every history with crashes is a history of C02_complete_partial with an index loss in place of each
   crash. ---- *)
Theorem C02_snapshot_used_once : forall v ops st,
  lrun false v ops (st, None) = (fold_left (step v) (map crash_as_drop ops) st, None).
Proof. exact snapshot_used_once. Qed.
Print Assumptions C02_snapshot_used_once.

Theorem C02_complete_with_crashes : forall ops o1 o2,
  let hist := map crash_as_drop ops in
  Forall op_ok hist -> op_ok (HRead o1 o2) -> hist_sorted hist -> hist_disciplined hist -> hist_small hist ->
  complete_at impl_variant (fst (lrun false impl_variant ops (p_init, None))) o1 o2.
Proof. exact complete_with_crashes. Qed.
Print Assumptions C02_complete_with_crashes.

(* an init() that leaves the loaded snapshot in place (seeded/C02-11): 300 x 100, clean restart, 10 x 200 into the same
   chunk, crash: the stale snapshot is loaded again, its hull ends at 100, RANGE ["200":"200"] is empty *)
Theorem C02_kept_snapshot_refuted :
  exists ops o1 o2, let hist := map crash_as_drop ops in
    Forall op_ok hist /\ hist_sorted hist /\ hist_disciplined hist /\ hist_small hist /\
    complete_at impl_variant (fst (lrun false impl_variant ops (p_init, None))) o1 o2 /\
    ~ complete_at impl_variant (fst (lrun true impl_variant ops (p_init, None))) o1 o2.
Proof. exists snap_wit, (Some 200), (Some 200). exact kept_snapshot_refuted. Qed.
Print Assumptions C02_kept_snapshot_refuted.

(* ---- the multi-level block tree (model/TmTreeML.v, compared with real ckindex trees of up to 3 levels on every
   run) has the three properties of the flat record list that the proofs above use: on a well-formed tree of ANY
   level grEq answers with a record of the tree whose timestamp is <= t, less with one whose timestamp is > t,
   and an in-order addInterval (nothing in the tree after p0.ts) keeps the tree well-formed, makes p1 its last
   record and adds exactly p1 to its records - through full leaves, new children, a new root and prune ---- *)
Theorem C02_tree_gr_eq : forall t ts r, tree_wf t -> tree_gr_eq t ts = ARec r -> In r (tree_recs t) /\ r_ts r <= ts.
Proof. exact tree_gr_eq_rec. Qed.
Print Assumptions C02_tree_gr_eq.
Theorem C02_tree_less : forall t ts r, tree_wf t -> tree_less t ts = ARec r -> In r (tree_recs t) /\ ts < r_ts r.
Proof. exact tree_less_rec. Qed.
Print Assumptions C02_tree_less.
Theorem C02_tree_add_in_order : forall t p0 p1, tree_wf t -> r_ts p0 <= r_ts p1 ->
  (forall r, In r (tree_recs t) -> r_ts r <= r_ts p0) ->
  tree_wf (top_add t p0 p1) /\ tree_last (top_add t p0 p1) = p1 /\
  (forall r, In r (tree_recs (top_add t p0 p1)) <-> In r (tree_recs t) \/ r = p1).
Proof. exact top_add_append. Qed.
Print Assumptions C02_tree_add_in_order.

(* non-vacuity: a history satisfying all hypotheses of C02_complete_partial: two chunks, a batch that starts
   with timestamp 0, equal-timestamp runs across sparse-index points, a failed TryLock, a batch split over a
   chunk roll-over, a clean restart, an index loss followed by a sync, a read, a describe (forced rebuild requests) and a
   rebuild, a second restart, a further indexed write; then an index loss DIRECTLY followed by a write (so the
   hypothesis the theorem used to have does not hold), a read, a clean restart inside the window, another write and a
   rebuilder run *)
Example C02_nonvacuous : hist_sorted nonvac_hist /\ hist_disciplined nonvac_hist /\ ~ no_write_after_drop nonvac_hist /\
  length (fst (range_read impl_variant (run impl_variant nonvac_hist) (Some 0) (Some 20))) = 1016%nat.
Proof. exact nonvac_ok. Qed.

(* the constants the model repeats are the constants the Go sources have now (coq/gen/Consts.v is regenerated
   from /repo on every run; an edited constant breaks this Example, i.e. a proof obligation) *)
Example C02_constants : CIndex.sparse_space = go_sparseSpace /\ TmTree.max_recs_per_block = go_maxRecsPerBlock.
Proof. split; reflexivity. Qed.
