(* C06 — Partition identity is tag-set equality; FROM selects exactly the matches.
   Property theorems only; each is closed by a lemma of proofs/TIndexIdP.v, TagsEvalP.v, C06RefP.v.
   quote/unquote = strconv.Quote/Unquote, upper/lower = strings.ToUpper/ToLower, pmatch = path.Match (oracles). *)
From LR Require Import lib.Base model.KV model.Tags model.TagsEval model.TIndexId proofs.KVP proofs.TagsP proofs.TagsEvalP proofs.TIndexIdP proofs.C08RefP proofs.C06RefP proofs.QuoteInstP proofs.TagsInjP proofs.C06InjP.

(* ---- identity ---- *)
(* the full statement: in every history of GetOrCreateJournal calls, two answered calls get the same partition
   iff their texts denote the same set of pairs *)
Definition C06_identity_statement (quote : bytes -> bytes) (unquote : bytes -> option bytes) : Prop :=
  forall texts i j ti tj mi mj si sj gi gj,
    nth_error texts i = Some ti -> nth_error texts j = Some tj ->
    to_map unquote ti = Ok mi -> to_map unquote tj = Ok mj ->
    nth_error (snd (run quote unquote t_empty texts)) i = Some (GSrc si gi) ->
    nth_error (snd (run quote unquote t_empty texts)) j = Some (GSrc sj gj) ->
    (si = sj <-> mi = mj).

(* proved part, weakest hypothesis: ANY history; for two calls on which the raw-text fast path is sound (fast_ok: the
   text is not the stored line of ANOTHER set denoted in the history) both are answered, with exactly the denoted
   sets, and identity holds.  No hypothesis on the look-up by canonical line: the line() of the code is injective on
   accepted sets (C08_tags_injective), two sets never share a line -- the former identity-line-collision class. *)
Theorem C06_identity_fastpath_partial : forall quote unquote, QuoteSpec quote unquote -> forall texts i j ti tj mi mj,
  nth_error texts i = Some ti -> nth_error texts j = Some tj ->
  to_map unquote ti = Ok mi -> to_map unquote tj = Ok mj -> mi <> [] -> mj <> [] ->
  fast_ok quote unquote texts ti mi -> fast_ok quote unquote texts tj mj ->
  exists si sj, nth_error (snd (run quote unquote t_empty texts)) i = Some (GSrc si mi) /\
                nth_error (snd (run quote unquote t_empty texts)) j = Some (GSrc sj mj) /\
                (si = sj <-> mi = mj).
Proof. exact identity2. Qed.
Print Assumptions C06_identity_fastpath_partial.
(* the hypothesis cannot be dropped: in the history of C06_identity_refuted it fails for the text L_XY, and only there *)
Theorem C06_fast_ok_needed : forall quote unquote, QuoteSpec quote unquote ->
  ~ fast_ok quote unquote [T1 quote; L_XY; T3 quote] L_XY [(A, V_XY)] /\
  fast_ok quote unquote [T1 quote; L_XY; T3 quote] (T3 quote) [(A, V_XY)] /\
  fast_ok quote unquote [T1 quote; L_XY; T3 quote] (T1 quote) M_XY.
Proof.
  intros quote unquote QS. destruct (identity_fastpath quote unquote QS) as (H2 & H3 & _).
  destruct (tags_unbalanced_other_set quote unquote QS) as (H1 & L1 & _). fold (T1 quote) in H1.
  assert (L3 : line quote [(A, V_XY)] = T3 quote) by reflexivity.
  assert (NE13 : T1 quote <> T3 quote).
  { intros E. rewrite E, H3 in H1. discriminate. }
  assert (NE3 : T3 quote <> L_XY).
  { destruct (quote_facts quote unquote QS V_XY) as (F & _). unfold T3. destruct (quote V_XY) as [|c q]; [discriminate|].
    cbn in F. apply byte_eqb_eq in F. subst c. discriminate. }
  assert (NE1 : T1 quote <> L_XY) by (intros E; rewrite E, H2 in H1; discriminate).
  assert (All : forall t' m', In t' [T1 quote; L_XY; T3 quote] -> to_map unquote t' = Ok m' -> m' = M_XY \/ m' = [(A, V_XY)]).
  { intros t' m' [<-|[<-|[<-|[]]]] Hm'; [left|right|right]; congruence. }
  split; [|split].
  - intros FO. specialize (FO (T1 quote) M_XY (or_introl eq_refl) H1 L1). discriminate.
  - intros t' m' Hin Hm' El. destruct (All t' m' Hin Hm') as [-> | ->]; [|reflexivity]. rewrite L1 in El. congruence.
  - intros t' m' Hin Hm' El. destruct (All t' m' Hin Hm') as [-> | ->]; [reflexivity|]. rewrite L3 in El. congruence.
Qed.
Print Assumptions C06_fast_ok_needed.

(* histories in which the printed line of every denoted set denotes that set (the C08 law, rt_ok);
   then every call for a non-empty set is answered, with exactly the denoted set, and identity holds *)
Theorem C06_identity_partial : forall quote unquote texts,
  (forall t m, In t texts -> to_map unquote t = Ok m -> rt_ok quote unquote m) ->
  forall i j ti tj mi mj, nth_error texts i = Some ti -> nth_error texts j = Some tj ->
    to_map unquote ti = Ok mi -> to_map unquote tj = Ok mj -> mi <> [] -> mj <> [] ->
    exists si sj, nth_error (snd (run quote unquote t_empty texts)) i = Some (GSrc si mi) /\
                  nth_error (snd (run quote unquote t_empty texts)) j = Some (GSrc sj mj) /\
                  (si = sj <-> mi = mj).
Proof. intros quote unquote texts. exact (identity quote unquote texts). Qed.
Print Assumptions C06_identity_partial.

(* the C08 law holds on the safe class of C08 (the code's line(): names from the parser, every raw-printed value with
   balanced double quotes, first name not starting with an opening brace), so identity holds whenever every denoted
   set is tag_safe *)
Theorem C06_identity_safe_partial : forall quote unquote, QuoteSpec quote unquote -> forall texts,
  (forall t m, In t texts -> to_map unquote t = Ok m -> tag_safe m = true) ->
  forall i j ti tj mi mj, nth_error texts i = Some ti -> nth_error texts j = Some tj ->
    to_map unquote ti = Ok mi -> to_map unquote tj = Ok mj -> mi <> [] -> mj <> [] ->
    exists si sj, nth_error (snd (run quote unquote t_empty texts)) i = Some (GSrc si mi) /\
                  nth_error (snd (run quote unquote t_empty texts)) j = Some (GSrc sj mj) /\
                  (si = sj <-> mi = mj).
Proof.
  intros quote unquote QS texts Hs. apply (identity quote unquote texts).
  intros t m Hin Hm. unfold rt_ok. apply (tags_roundtrip quote unquote QS).
  - apply SS_keys_sorted. exact (to_map_canonical unquote t m Hm).
  - exact (Hs t m Hin Hm).
Qed.
Print Assumptions C06_identity_safe_partial.

(* refutation (raw-text fast path over a line that does not denote its set): the set {a: x"y, b: z"w} -- values with
   an inner double quote, which line() must print raw (TestTagLine) -- is stored under the line a=x"y,b=z"w; that
   text denotes ANOTHER set, {a: x"y,b=z"w}, and is answered with the first partition, while the spelling
   a="x\"y,b=z\"w" of the same set gets a second one.  This is the one C08 class the quoting repair leaves
   (tagline-value-unbalanced-dquote); the witnesses of the repaired classes (a="x" after a="\"x\"", and the two sets
   {a: } and {a: ""} sharing the line a="") are C08_tags_leading_dquote_unquoted_refuted and
   C08_tags_injective_unquoted_refuted: theorems about the earlier line() only *)
Theorem C06_identity_refuted : forall quote unquote, QuoteSpec quote unquote ->
  ~ C06_identity_statement quote unquote.
Proof.
  intros quote unquote QS St.
  destruct (identity_fastpath quote unquote QS) as (H2 & H3 & R).
  specialize (St [T1 quote; L_XY; T3 quote] 1 2 L_XY (T3 quote) [(A, V_XY)] [(A, V_XY)] 0 1 M_XY [(A, V_XY)] eq_refl eq_refl H2 H3).
  rewrite R in St. specialize (St eq_refl eq_refl). destruct St as (_ & St). specialize (St eq_refl). discriminate.
Qed.
Print Assumptions C06_identity_refuted.
(* the same history read the other way: two different sets, one partition *)
Theorem C06_identity_two_sets_one_partition_refuted : forall quote unquote, QuoteSpec quote unquote ->
  exists t1 t2 m1 m2 s g1 g2, to_map unquote t1 = Ok m1 /\ to_map unquote t2 = Ok m2 /\ m1 <> m2 /\
    snd (run quote unquote t_empty [t1; t2]) = [GSrc s g1; GSrc s g2].
Proof.
  intros quote unquote QS. destruct (identity_fastpath quote unquote QS) as (H2 & _ & R).
  destruct (tags_unbalanced_other_set quote unquote QS) as (H1 & _ & _).
  exists (T1 quote), L_XY, M_XY, [(A, V_XY)], 0, M_XY, M_XY. split; [exact H1|]. split; [exact H2|]. split; [discriminate|].
  cbn [run] in *. destruct (get_or_create quote unquote t_empty (T1 quote) true) as [st1 r1].
  destruct (get_or_create quote unquote st1 L_XY true) as [st2 r2].
  destruct (get_or_create quote unquote st2 (T3 quote) true) as [st3 r3]. cbn [snd] in *. injection R as -> -> _. reflexivity.
Qed.
Print Assumptions C06_identity_two_sets_one_partition_refuted.

(* any number of racing first writes of one set after any history, any schedule (a call runs under ims.lock: a
   schedule is an order of the calls): every racing call is answered with the set and with ONE partition id *)
Theorem C06_race_any_schedule : forall quote unquote, QuoteSpec quote unquote -> forall pre ts m,
  (forall t, In t ts -> to_map unquote t = Ok m /\ fast_ok quote unquote (pre ++ ts) t m) -> m <> [] ->
  exists s, forall k t, nth_error ts k = Some t ->
    nth_error (snd (run quote unquote t_empty (pre ++ ts))) (length pre + k) = Some (GSrc s m).
Proof. exact race_any_schedule. Qed.
Print Assumptions C06_race_any_schedule.
(* what a concurrent reader can see: in every state a history reaches there is one partition per set *)
Theorem C06_one_partition_per_set : forall quote unquote, QuoteSpec quote unquote -> forall texts e1 e2,
  In e1 (t_map (fst (run quote unquote t_empty texts))) -> In e2 (t_map (fst (run quote unquote t_empty texts))) ->
  d_tags (snd e1) = d_tags (snd e2) -> e1 = e2.
Proof. exact reachable_one_partition_per_set. Qed.
Print Assumptions C06_one_partition_per_set.
(* GetJournal (DESCRIBE PARTITION, the look-up without creation): never changes the index; under the invariant it
   answers with the partition of the denoted set if there is one -- whatever the spelling -- and with NotFound otherwise *)
Theorem C06_get_is_lookup : forall quote unquote, QuoteSpec quote unquote -> forall D st text,
  fst (get_or_create quote unquote st text false) = st /\
  (Inv2 quote D st -> forall m, to_map unquote text = Ok m -> m <> [] -> fast_ok_D quote D text m ->
     match tbl_find (t_map st) (line quote m) with
     | Some d => snd (get_or_create quote unquote st text false) = GSrc (d_src d) m /\ d_tags d = m
     | None => snd (get_or_create quote unquote st text false) = GNotFound
     end).
Proof. intros quote unquote QS D st text. exact (get_no_create quote unquote QS D st text). Qed.
Print Assumptions C06_get_is_lookup.
(* Delete, then the set again: the record is gone (a look-up finds nothing), the invariant holds, and the next write of
   the set -- any spelling -- creates ONE new partition with a fresh id *)
Theorem C06_delete_recreate : forall quote unquote, QuoteSpec quote unquote -> forall D st src text m,
  Inv2 quote D st -> (exists l d, In (l, d) (t_map st) /\ d_src d = src /\ d_tags d = m) ->
  to_map unquote text = Ok m -> m <> [] -> D m -> fast_ok_D quote D text m ->
  let '(st1, r1) := t_delete quote st src in
  let '(st2, r2) := get_or_create quote unquote st1 text true in
  r1 = GSrc src [] /\ Inv2 quote D st1 /\ tbl_find (t_map st1) (line quote m) = None /\
  snd (get_or_create quote unquote st1 text false) = GNotFound /\
  Inv2 quote D st2 /\ r2 = GSrc (t_next st) m /\ t_next st <> src /\
  (forall e, In e (t_map st2) -> d_tags (snd e) = m -> d_src (snd e) = t_next st).
Proof. intros quote unquote QS D st src text m. exact (delete_recreate quote unquote QS D st src text m). Qed.
Print Assumptions C06_delete_recreate.

(* two racing first writes of one new set (both orders of the two lock-protected steps): one partition, one id *)
Theorem C06_race : forall quote unquote st t1 t2 m first1,
  Inv quote unquote st -> to_map unquote t1 = Ok m -> to_map unquote t2 = Ok m -> m <> [] -> rt_ok quote unquote m ->
  tbl_find (t_map st) (line quote m) = None ->
  let '(st', r1, r2) := race2 quote unquote st t1 t2 first1 in
  exists s, r1 = GSrc s m /\ r2 = GSrc s m /\ length (t_map st') = S (length (t_map st)).
Proof. intros quote unquote st t1 t2 m first1. exact (race quote unquote st t1 t2 m first1). Qed.
Print Assumptions C06_race.
(* the invariant the race theorem starts from holds in every reachable state of a C08-lawful history *)
Theorem C06_reachable_inv : forall quote unquote texts,
  (forall t m, In t texts -> to_map unquote t = Ok m -> rt_ok quote unquote m) ->
  Inv quote unquote (fst (run quote unquote t_empty texts)).
Proof.
  intros quote unquote texts RT. pose proof (run_spec quote unquote texts t_empty (inv_empty quote unquote) RT) as S.
  destruct (run quote unquote t_empty texts) as [st rs]. destruct S as (I & _). exact I.
Qed.
Print Assumptions C06_reachable_inv.

(* ---- a failing persistence on the create path (saveStateUnsafe error) ---- *)
(* nothing is left behind: the index is exactly as before the call (the set is absent from lookups and visits as
   it was), and the call fails -- unless no entry had to be made, in which case the call is the plain lookup *)
Theorem C06_failed_create_rolled_back : forall quote unquote st text,
  let '(st', r) := goc_fault quote unquote st text true in
  st' = st /\ (r = GErr \/ get_or_create quote unquote st text true = (st, r)).
Proof. intros quote unquote st text. exact (fault_rollback quote unquote st text). Qed.
Print Assumptions C06_failed_create_rolled_back.
(* a later successful create of that set (any spelling) is answered with the set, stored under its line and visited *)
Theorem C06_create_after_failed_create : forall quote unquote st t1 t2 m,
  Inv quote unquote st -> to_map unquote t2 = Ok m -> m <> [] -> rt_ok quote unquote m ->
  let '(st1, _) := goc_fault quote unquote st t1 true in
  let '(st2, r) := get_or_create quote unquote st1 t2 true in
  exists d, r = GSrc (d_src d) m /\ d_tags d = m /\ tbl_find (t_map st2) (line quote m) = Some d /\
            visit (Some positive) (t_map st2) = Ok (map snd (t_map st2)) /\ In d (map snd (t_map st2)).
Proof.
  intros quote unquote st t1 t2 m I Hm Hne RT.
  pose proof (fault_rollback quote unquote st t1) as R. destruct (goc_fault quote unquote st t1 true) as [st1 r1].
  destruct R as (-> & _).
  pose proof (goc_step quote unquote st t2 I (fun m' H => eq_ind m (rt_ok quote unquote) RT m' (f_equal (fun o => match o with Ok x => x | _ => m end) (eq_trans (eq_sym Hm) H)))) as S.
  destruct (get_or_create quote unquote st t2 true) as [st2 r]. destruct S as (_ & _ & A).
  destruct (A m Hm Hne) as (d & Er & Ef & Et). exists d. repeat split; try assumption.
  - clear. induction (t_map st2) as [|[k d'] tl IH]; [reflexivity|]. cbn [visit call positive map snd]. rewrite IH. reflexivity.
  - apply tbl_find_in in Ef. apply (in_map snd) in Ef. exact Ef.
Qed.
Print Assumptions C06_create_after_failed_create.
(* the invariant (and with it identity and the race theorem) survives histories with failing saves *)
Theorem C06_reachable_inv_faults : forall quote unquote ops,
  (forall t f m, In (t, f) ops -> to_map unquote t = Ok m -> rt_ok quote unquote m) ->
  Inv quote unquote (fst (run_f quote unquote t_empty ops)).
Proof. intros quote unquote ops RT. exact (run_f_inv quote unquote ops t_empty (inv_empty quote unquote) RT). Qed.
Print Assumptions C06_reachable_inv_faults.

(* ---- selection ---- *)
(* FROM {tags}: exactly the partitions whose set contains every given pair *)
Theorem C06_from_tags : forall up lo pm q l, NoDup (map fst q) ->
  exists f, build_source up lo pm (STags q) = Some (Some f) /\
    visit (Some f) l = Ok (filter (fun d => map_subset q (d_tags d)) (map snd l)) /\
    (forall m, map_subset q m = true <-> forall k v, map_get k q = Some v -> map_get k m = Some v).
Proof.
  intros up lo pm q l ND. eexists. split; [reflexivity|]. split; [apply visit_total|].
  intros m. exact (map_subset_spec q m ND).
Qed.
Print Assumptions C06_from_tags.

(* FROM <expression>: an expression whose conditions are all acceptable (cond_ok: known operator, UPPER/LOWER nests of
   one parameter, and a LIKE pattern that path.Match accepts) compiles to a total closure with the reference meaning
   and the visit returns exactly the partitions on which it is true; any other expression is refused -- a nil func
   is never handed to the visit.  About the code: build_source is the builder at [code_from_like_shadow], i.e.
   `_, err = path.Match(..)` in buildTagCond, and K runs exactly this function. *)
Theorem C06_from_expr : forall up lo pm e l,
  if expr_all (cond_ok up pm) e
  then exists f, build_source up lo pm (SExpr (Some e)) = Some (Some f) /\
         visit (Some f) l = Ok (filter (fun d => ref_expr up lo pm e (d_tags d)) (map snd l))
  else build_source up lo pm (SExpr (Some e)) = None.
Proof.
  intros up lo pm e l. pose proof (source_expr_good up lo pm e) as G. unfold good in G.
  destruct (build_source up lo pm (SExpr (Some e))) as [[f|]|].
  - destruct G as (-> & E). exists f. split; [reflexivity|]. apply visit_ext. exact E.
  - contradiction.
  - rewrite G. reflexivity.
Qed.
Print Assumptions C06_from_expr.

(* What the repair bought.  With the shadowed err of the earlier code (variant true of the builder: `_, err :=
   path.Match(..)`) a malformed LIKE pattern is not reported; the closure is a nil func (calling it panics) ... *)
Theorem C06_from_expr_shadowed_err_refuted : forall up lo pm, up OP_LIKE = OP_LIKE -> pm BADPAT PROBE = None ->
  build_source_v up lo pm true (SExpr (Some [[XC false (BCond c_like)]])) = Some None /\
  forall k d l, visit None ((k, d) :: l) = Panic.
Proof. intros up lo pm U B. split; [exact (like_nil_func up lo pm U B)|reflexivity]. Qed.
Print Assumptions C06_from_expr_shadowed_err_refuted.
(* ... or silently the condition before it: `a = x AND ip LIKE "["` means `a = x` *)
Theorem C06_from_expr_shadowed_err_stale_refuted : forall up lo pm, up OP_LIKE = OP_LIKE -> up OP_EQ = OP_EQ -> pm BADPAT PROBE = None ->
  exists f, build_source_v up lo pm true (SExpr (Some [[XC false (BCond c_eq); XC false (BCond c_like)]])) = Some (Some f) /\
    forall m, f m = Ok (bytes_eqb (get_or_empty A m) X).
Proof. intros up lo pm U1 U2 B. exact (like_stale up lo pm U1 U2 B). Qed.
Print Assumptions C06_from_expr_shadowed_err_stale_refuted.
(* the code refuses both *)
Theorem C06_from_expr_bad_like_refused : forall up lo pm, up OP_LIKE = OP_LIKE -> up OP_EQ = OP_EQ -> pm BADPAT PROBE = None ->
  build_source up lo pm (SExpr (Some [[XC false (BCond c_like)]])) = None /\
  build_source up lo pm (SExpr (Some [[XC false (BCond c_eq); XC false (BCond c_like)]])) = None.
Proof. intros up lo pm U1 U2 B. exact (like_refused up lo pm U1 U2 B). Qed.
Print Assumptions C06_from_expr_bad_like_refused.

(* an empty FROM (nil source) selects every partition *)
Theorem C06_from_empty : forall up lo pm l, build_source up lo pm (SExpr None) = Some (Some positive) /\
  visit (Some positive) l = Ok (map snd l).
Proof.
  intros up lo pm l. split; [reflexivity|]. induction l as [|[k d] tl IH]; [reflexivity|].
  cbn [visit call positive map snd]. rewrite IH. reflexivity.
Qed.
Print Assumptions C06_from_empty.

(* ---- non-vacuity ---- *)
(* a history over three spellings of one safe set and one spelling of another: two partitions *)
Example C06_history_nontrivial :
  let t1 := [x61; EQ; x31; COMMA; x62; EQ; x32] in                                   (* a=1,b=2 *)
  let t2 := [LBR; SP; x62; SP; EQ; QUOTE; x32; QUOTE; COMMA; x61; EQ; x31; RBR] in   (* { b ="2",a=1} *)
  let t3 := [x61; EQ; x31] in                                                        (* a=1 *)
  map (fun r => match r with GSrc s _ => Some s | _ => None end) (snd (run squote sunquote t_empty [t1; t2; t3; t1])) =
    [Some 0; Some 0; Some 1; Some 0] /\
  forall t m, In t [t1; t2; t3; t1] -> to_map sunquote t = Ok m -> tag_safe m = true.
Proof.
  split; [vm_compute; reflexivity|]. intros t m Hin Hm.
  repeat (destruct Hin as [<-|Hin]; [vm_compute in Hm; injection Hm as <-; reflexivity|]). destruct Hin.
Qed.
(* an expression with NOT, AND, OR, a function and a well-formed LIKE pattern is on the accepting side of
   C06_from_expr (identity stands in for ToUpper here), the same with a malformed pattern on the refusing side *)
Example C06_expr_nontrivial :
  let up := fun s : bytes => s in
  let pm := fun (p s : bytes) => Some (bytes_eqb p s) in
  let e := [[XC true (BCond {| c_ident := Ident A []; c_op := OP_EQ; c_value := X |});
             XC false (BExpr [[XC false (BCond {| c_ident := Ident FN_UPPER [Ident IP []]; c_op := OP_LIKE; c_value := X |})]])];
            [XC false (BCond {| c_ident := Ident IP []; c_op := OP_PREFIX; c_value := X |})]] in
  let pm_bad := fun (p s : bytes) => if bytes_eqb p X then None else Some (bytes_eqb p s) in
  expr_all (cond_ok up pm) e = true /\ expr_all (cond_wf up) e = true /\ expr_all (cond_ok up pm_bad) e = false.
Proof. vm_compute. repeat split; reflexivity. Qed.

(* a history with a look-up that finds nothing, a creation, look-ups by two spellings, a deletion and a re-creation *)
Example C06_ops_nontrivial :
  let t1 := [x61; EQ; x31; COMMA; x62; EQ; x32] in                                   (* a=1,b=2 *)
  let t2 := [LBR; SP; x62; SP; EQ; QUOTE; x32; QUOTE; COMMA; x61; EQ; x31; RBR] in   (* { b ="2",a=1} *)
  snd (run_ops squote sunquote t_empty [HGet t1; HCall t1 false; HGet t2; HDel 0; HGet t1; HDel 0; HCall t2 false; HGet t1]) =
    [GNotFound; GSrc 0 [([x61], [x31]); ([x62], [x32])]; GSrc 0 [([x61], [x31]); ([x62], [x32])]; GSrc 0 []; GNotFound;
     GNotFound; GSrc 1 [([x61], [x31]); ([x62], [x32])]; GSrc 1 [([x61], [x31]); ([x62], [x32])]].
Proof. vm_compute. reflexivity. Qed.
