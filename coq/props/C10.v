(* C10 — Pipes copy exactly the matching events, once, in order, with provenance.
   Property theorems only (proofs in proofs/PipeSyncP.v). The model (model/PipeSync.v) is the
   transition system of one pipe and one source partition; `run af tags s sched` executes an
   arbitrary schedule of writer / notifier / flusher / worker / timer / delete / restart steps.
   af = "the worker applies the pipe's filter" (true = the code as it stands, since the fix of siterator.Get;
   false = the code before it). *)
From LR Require Import lib.Base model.PipeSync proofs.PipeSyncP.

(* The property at full strength: whenever the pipe is alive and nothing is in flight, the destination
   holds exactly the F-matching events written after creation, once each, in source order, with
   timestamp and message unchanged and the source's tags appended to the fields. *)
Definition C10_exact_statement (af : bool) : Prop :=
  forall tags pre c0 sched, c0 <= length pre ->
    let s := run af tags (init pre c0) sched in
    alive s = true -> quiescent s = true -> dst s = expected tags (length pre) (log s).

(* the model is faithful to the code: the filter is applied (K runs the model with this flag) *)
Example C10_code_is_af_true : code_applies_filter = true.
Proof. reflexivity. Qed.

(* Refutation 1 (the code before the fix, af = false): an event that F rejects is copied. *)
Theorem C10_exact_filter_refuted : ~ C10_exact_statement false.
Proof.
  intros H.
  pose (e := {| e_ts := 7%Z; e_msg := [x64; x72; x6f; x70]; e_flds := []; e_keep := false |}).
  specialize (H [] [] 0 (sched_write [e]) (le_n 0)).
  vm_compute in H. specialize (H eq_refl eq_refl). discriminate H.
Qed.
Print Assumptions C10_exact_filter_refuted.

(* Refutation 2 (independent of the filter): two writers append to a source the pipe has not seen yet,
   the second writer's WriteEvent reaches the channel first; Pos := its StartPos, so the first
   writer's events are never copied. *)
Theorem C10_exact_reorder_refuted : ~ C10_exact_statement true.
Proof.
  intros H.
  pose (e1 := {| e_ts := 1%Z; e_msg := [x61]; e_flds := []; e_keep := true |}).
  pose (e2 := {| e_ts := 2%Z; e_msg := [x62]; e_flds := []; e_keep := true |}).
  specialize (H [] [] 0 (sched_race [e1] [e2]) (le_n 0)).
  vm_compute in H. specialize (H eq_refl eq_refl). discriminate H.
Qed.
Print Assumptions C10_exact_reorder_refuted.

(* Refutation 3 (independent of the filter and of the notification order): an event acknowledged shortly
   before CREATE PIPE that is not yet readable (c0 < length pre) is copied although it was written before
   the pipe existed: the worker's cursor, positioned at the first notification's StartPos, is clamped down to
   the confirmed count by the chunk iterator, and that position is saved. *)
Definition C10_exact_ordered_statement : Prop :=
  forall tags pre c0 sched, c0 <= length pre -> Forall enq_in_order sched ->
    let s := run true tags (init pre c0) sched in
    alive s = true -> quiescent s = true -> dst s = expected tags (length pre) (log s).
Theorem C10_exact_unflushed_history_refuted : ~ C10_exact_ordered_statement.
Proof.
  intros H.
  pose (e0 := {| e_ts := 1%Z; e_msg := [x6f; x6c; x64]; e_flds := []; e_keep := true |}).
  pose (e1 := {| e_ts := 2%Z; e_msg := [x6e; x65; x77]; e_flds := []; e_keep := true |}).
  specialize (H [] [e0] 0 (sched_write_late [e1]) (Nat.le_0_l 1)).
  assert (Ho : Forall enq_in_order (sched_write_late [e1])) by (repeat constructor).
  specialize (H Ho). vm_compute in H. specialize (H eq_refl eq_refl). discriminate H.
Qed.
Print Assumptions C10_exact_unflushed_history_refuted.

(* Refutation 4: the WriteEvent of a write that completed before CREATE PIPE is still queued in the channel when the
   pipe is created (the notificatior lags); it is delivered to the new pipe as its first notification and the
   events written before the pipe existed are copied. *)
Definition C10_exact_stale_statement : Prop :=
  forall tags pre q sched, Forall (fun we : nat * nat => snd we <= length pre) q -> Forall enq_in_order sched ->
    let s := run true tags (init_stale pre q) sched in
    alive s = true -> quiescent s = true -> dst s = expected tags (length pre) (log s).
Theorem C10_exact_stale_notification_refuted : ~ C10_exact_stale_statement.
Proof.
  intros H.
  pose (e0 := {| e_ts := 1%Z; e_msg := [x6f; x6c; x64]; e_flds := []; e_keep := true |}).
  specialize (H [] [e0] [(0, 1)] (LDeliver :: works 8)).
  assert (Hq : Forall (fun we : nat * nat => snd we <= length [e0]) [(0, 1)]) by (repeat constructor).
  assert (Ho : Forall enq_in_order (LDeliver :: works 8)) by (repeat constructor).
  specialize (H Hq Ho). vm_compute in H. specialize (H eq_refl eq_refl). discriminate H.
Qed.
Print Assumptions C10_exact_stale_notification_refuted.

(* What holds: when everything acknowledged before CREATE PIPE is readable and notified at that moment (init: channel
   empty), for every schedule in
   which the writers of the source send their WriteEvents in the order of their journal positions, and either
   the filter is applied (the proposed fix) or F accepts everything that is written: the full statement --
   including clean restarts anywhere. *)
Theorem C10_exact_partial : forall af tags pre c0 sched,
  c0 = length pre ->
  (af = true \/ Forall write_all_keep sched) ->
  Forall enq_in_order sched ->
  Forall notifies sched ->
  let s := run af tags (init pre c0) sched in
  alive s = true -> quiescent s = true -> dst s = expected tags (length pre) (log s).
Proof. exact exact_partial. Qed.
Print Assumptions C10_exact_partial.

(* `Forall notifies sched`: every write that stored something sends its WriteEvent. The code's send
   (partition.Service.onWriteEvent: `select { case s.weCh <- we: ... }`, channel of 100) BLOCKS when the channel is full --
   in the model the writer stays in flight until its LEnq is scheduled, which every schedule may delay as long as it
   likes. A send that gives up instead (label LDropEnq) loses events: the first notification of a source is skipped, the
   next write's StartPos becomes the pipe's position for the source. *)
Definition C10_exact_inorder_statement : Prop :=
  forall tags pre sched, Forall enq_in_order sched ->
    let s := run true tags (init pre (length pre)) sched in
    alive s = true -> quiescent s = true -> dst s = expected tags (length pre) (log s).
Theorem C10_exact_dropped_notification_refuted : ~ C10_exact_inorder_statement.
Proof.
  intros H.
  pose (e1 := {| e_ts := 1%Z; e_msg := [x61]; e_flds := []; e_keep := true |}).
  pose (e2 := {| e_ts := 2%Z; e_msg := [x62]; e_flds := []; e_keep := true |}).
  specialize (H [] [] ([LWrite [e1]; LDropEnq 0; LFlush] ++ sched_write [e2])).
  assert (Ho : Forall enq_in_order ([LWrite [e1]; LDropEnq 0; LFlush] ++ sched_write [e2])) by (repeat constructor).
  specialize (H Ho). vm_compute in H. specialize (H eq_refl eq_refl). discriminate H.
Qed.
Print Assumptions C10_exact_dropped_notification_refuted.

(* ... in particular for the code as it is (the filter is applied): no hypothesis on what is written *)
Theorem C10_exact_code_partial : forall tags pre sched,
  Forall enq_in_order sched -> Forall notifies sched ->
  let s := run code_applies_filter tags (init pre (length pre)) sched in
  alive s = true -> quiescent s = true -> dst s = expected tags (length pre) (log s).
Proof. intros tags pre sched Ho Hn. exact (exact_partial code_applies_filter tags pre _ sched eq_refl (or_introl eq_refl) Ho Hn). Qed.
Print Assumptions C10_exact_code_partial.

(* Many sources: in every product schedule (the steps of all sources interleaved arbitrarily), every source that is
   alive and quiescent holds exactly its own expected copy, provided its own steps satisfy the hypotheses above *)
Theorem C10_exact_multi : forall af tagss pres sched j,
  length tagss = length pres -> j < length pres ->
  let ss := prun af tagss (map (fun pre => init pre (length pre)) pres) sched in
  let s := nth j ss (init [] 0) in
  (af = true \/ Forall write_all_keep (proj j sched)) -> Forall enq_in_order (proj j sched) -> Forall notifies (proj j sched) ->
  alive s = true -> quiescent s = true ->
  dst s = expected (nth j tagss []) (length (nth j pres [])) (log s).
Proof.
  intros af tagss pres sched j Hlen Hj ss s Hf Ho Hn.
  assert (Hs : s = run af (nth j tagss []) (init (nth j pres []) (length (nth j pres []))) (proj j sched)).
  { unfold s, ss. rewrite (prun_nth af tagss sched _ j (init [] 0) []) by (rewrite map_length; assumption).
    f_equal. change (init [] 0) with ((fun pre => init pre (length pre)) []). rewrite map_nth. reflexivity. }
  rewrite Hs. exact (exact_partial af (nth j tagss []) (nth j pres []) _ (proj j sched) eq_refl Hf Ho Hn).
Qed.
Print Assumptions C10_exact_multi.

(* provenance and content of one copied event *)
Theorem C10_transform : forall tags e,
  d_ts (transform tags e) = e_ts e /\ d_msg (transform tags e) = e_msg e /\ d_flds (transform tags e) = e_flds e ++ tags.
Proof. intros tags e. repeat split. Qed.
Print Assumptions C10_transform.

(* deletion: once the pipe is deleted and the worker is outside the journal write it was executing,
   nothing is ever copied again, whatever happens (writes, notifications, flushes, timers) *)
Theorem C10_delete : forall af tags s sched,
  alive s = false -> copying s = false -> dst (run af tags s sched) = dst s.
Proof. exact dead_run. Qed.
Print Assumptions C10_delete.

Theorem C10_delete_step : forall af tags s sched,
  copying s = false -> dst (run af tags (step af tags s LDelete) sched) = dst s.
Proof. intros af tags s sched H. exact (dead_run af tags (step af tags s LDelete) sched eq_refl H). Qed.
Print Assumptions C10_delete_step.

(* the destination is append-only: no step removes or rewrites what was copied *)
Theorem C10_append_only : forall af tags s l, exists x, dst (step af tags s l) = dst s ++ x.
Proof. exact dst_prefix_step. Qed.
Print Assumptions C10_append_only.

(* clean restart at a quiescent point: nothing is lost or duplicated by the restart, and copying goes on
   exactly-once afterwards (an instance of C10_exact_partial: LRestart is a schedule step) *)
Theorem C10_restart : forall af tags pre c0 sched1 sched2,
  c0 = length pre ->
  (af = true \/ Forall write_all_keep (sched1 ++ LRestart :: sched2)) ->
  Forall enq_in_order (sched1 ++ LRestart :: sched2) ->
  Forall notifies (sched1 ++ LRestart :: sched2) ->
  let s1 := run af tags (init pre c0) sched1 in
  let s := run af tags (init pre c0) (sched1 ++ LRestart :: sched2) in
  dst (step af tags s1 LRestart) = dst s1 /\
  (alive s = true -> quiescent s = true -> dst s = expected tags (length pre) (log s)).
Proof.
  intros af tags pre c0 sched1 sched2 Hc Hf Ho Hn s1 s. split.
  - cbn [step]. destruct (quiescent s1 && alive s1); reflexivity.
  - exact (exact_partial af tags pre c0 (sched1 ++ LRestart :: sched2) Hc Hf Ho Hn).
Qed.
Print Assumptions C10_restart.

(* DELETE PIPE + CREATE PIPE under the same name at a quiescent point is the start of a new epoch with fresh
   positions (model: recreate; the saved positions of the name are removed by persister.onDeleteStream): whatever
   the earlier pipe of that name did (s1 is ANY quiescent state, its descriptor, worker and destination are
   arbitrary), the re-created pipe copies exactly the matching events appended after its creation -- none of the
   events written while no pipe of that name existed, none twice *)
Theorem C10_recreate : forall af tags s1 sched,
  quiescent s1 = true ->
  (af = true \/ Forall write_all_keep sched) -> Forall enq_in_order sched -> Forall notifies sched ->
  let s := run af tags (recreate s1) sched in
  alive s = true -> quiescent s = true -> dst s = expected tags (length (log s1)) (log s).
Proof. exact recreate_exact. Qed.
Print Assumptions C10_recreate.

(* The same over the variant flag of recreate_v: do the positions of the deleted pipe reach the pipe created later under
   its name? (The model has no state file; the flag is what the file contributes, see model/PipeSync.v.) *)
Definition C10_recreate_statement (survives : bool) : Prop :=
  forall tags s1 sched, quiescent s1 = true -> Forall enq_in_order sched -> Forall notifies sched ->
    let s := run true tags (recreate_v survives s1) sched in
    alive s = true -> quiescent s = true -> dst s = expected tags (length (log s1)) (log s).

(* the code (ppipe.saveState refuses to save for a deleted pipe: what onDeleteStream removed stays removed) *)
Theorem C10_recreate_code : C10_recreate_statement code_state_survives_delete.
Proof. intros tags s1 sched Hq Ho Hn. exact (recreate_exact true tags s1 sched Hq (or_introl eq_refl) Ho Hn). Qed.
Print Assumptions C10_recreate_code.

(* the code before that repair, when a worker of the deleted pipe saved its position after the removal: a pipe copies
   a, b (Pos = 2), is deleted, c is written while no pipe of the name exists, the pipe is created again and loads
   Pos = 2, d is written: it copies c and d. Replayed on the implementation by the corpus scenario corpus-held-delete
   (worker held at the top of saveState while DELETE PIPE runs). *)
Theorem C10_recreate_stale_refuted : ~ C10_recreate_statement true.
Proof.
  intros H.
  pose (e := fun n : Z => {| e_ts := n; e_msg := [x6d]; e_flds := []; e_keep := true |}).
  pose (s1 := run true [] (init [] 0) (sched_write [e 1%Z; e 2%Z] ++ [LDelete] ++ sched_write [e 3%Z] ++ [LWork; LWork])).
  specialize (H [] s1 (sched_write [e 4%Z])).
  assert (Ho : Forall enq_in_order (sched_write [e 4%Z])) by (repeat constructor).
  assert (Hn : Forall notifies (sched_write [e 4%Z])) by (repeat constructor).
  vm_compute in H. specialize (H eq_refl Ho Hn eq_refl eq_refl). discriminate H.
Qed.
Print Assumptions C10_recreate_stale_refuted.

(* The source partition deleted (TRUNCATE of a partition nothing holds) and its descriptor dropped by the pipes cleaner;
   whatever is written to those tags afterwards goes to a new partition: the destination keeps what it has and gains
   exactly the matching events of the new partition, in order (model: drop_source). *)
Theorem C10_drop_source : forall af tags s1 sched,
  alive s1 = true ->
  (af = true \/ Forall write_all_keep sched) -> Forall enq_in_order sched -> Forall notifies sched ->
  let s := run af tags (drop_source s1) sched in
  alive s = true -> quiescent s = true -> dst s = dst s1 ++ expected tags 0 (log s).
Proof. exact drop_source_exact. Qed.
Print Assumptions C10_drop_source.

(* Destination writes that fail (label LRefuse: Journals.Write returns an error at the record the worker hands over; the
   worker sleeps and tries again from that record) are steps of the schedules C10_exact_partial quantifies over: they do
   not break exactly-once. What they break:
   (1) a record whose copy is refused EVERY time (its size with the provenance fields exceeds MaxRecordSize) keeps the
       worker at that record for ever -- nothing behind it is copied (finding pipe-blocked-by-oversized-copy); *)
Theorem C10_refused_forever : forall af tags s cp e n,
  alive s = true -> wrk s = Some (WCopy cp) -> (cp <? cfrm s) = true -> nth_error (log s) cp = Some e -> passes af e = true ->
  desc s <> None ->
  run af tags s (concat (repeat [LRefuse false; LWork] n)) = s.
Proof. exact refused_forever. Qed.
Print Assumptions C10_refused_forever.

(* (2) a clean restart while the worker sleeps between two attempts (stop_retrying): the records the failed write had
       stored are copied again unless the worker saved the position it had reached (save = true). *)
Definition refuse_is (save : bool) (l : label) : Prop := match l with LRefuse b => b = save | _ => True end.
Definition C10_retry_restart_statement (save : bool) : Prop :=
  forall tags pre sched1 sched2,
    Forall enq_in_order sched1 -> Forall enq_in_order sched2 -> Forall (refuse_is save) sched1 -> Forall (refuse_is save) sched2 ->
    let s1 := run true tags (init pre (length pre)) sched1 in
    let s := run true tags (stop_retrying s1) sched2 in
    alive s = true -> quiescent s = true -> dst s = expected tags (length pre) (log s).

Definition rr_ev (n : Z) : event := {| e_ts := n; e_msg := [x6d]; e_flds := []; e_keep := true |}.
Definition rr_sched1 (save : bool) : list label :=
  [LWrite [rr_ev 1; rr_ev 2; rr_ev 3]; LEnq 0; LDeliver; LFlush; LWork; LWork; LWork; LRefuse save].

(* the code as it stands (worker.run: `continue` without saveState): a, b stored, the write fails at c, restart, the
   next write starts the worker at the old position: a, b are copied twice *)
Theorem C10_restart_while_retrying_refuted : ~ C10_retry_restart_statement false.
Proof.
  intros H. specialize (H [] [] (rr_sched1 false) (sched_write [rr_ev 4] ++ works 8)).
  assert (H1 : Forall enq_in_order (rr_sched1 false)) by (repeat constructor).
  assert (H2 : Forall enq_in_order (sched_write [rr_ev 4] ++ works 8)) by (repeat constructor).
  assert (H3 : Forall (refuse_is false) (rr_sched1 false)) by (repeat constructor).
  assert (H4 : Forall (refuse_is false) (sched_write [rr_ev 4] ++ works 8)) by (repeat constructor).
  specialize (H H1 H2 H3 H4). vm_compute in H. specialize (H eq_refl eq_refl). discriminate H.
Qed.
Print Assumptions C10_restart_while_retrying_refuted.

(* "Deleting the pipe stops the copying" across a clean restart: the registry the next start reads must have been saved
   without the pipe -- also when that leaves it empty. *)
Definition C10_deleted_stays_deleted_statement (saved : bool) : Prop :=
  forall af tags s sched, alive s = false -> dst (run af tags (restart_after_delete saved s) sched) = dst s.

Theorem C10_deleted_stays_deleted : C10_deleted_stays_deleted_statement code_saves_empty_registry.
Proof. exact deleted_stays_deleted. Qed.
Print Assumptions C10_deleted_stays_deleted.

(* a savePipes that skips an empty list: a is copied, the only pipe is deleted, clean restart, b is written: the pipe is
   back and copies b *)
Theorem C10_deleted_pipe_back_refuted : ~ C10_deleted_stays_deleted_statement false.
Proof.
  intros H.
  pose (e := fun n : Z => {| e_ts := n; e_msg := [x6d]; e_flds := []; e_keep := true |}).
  pose (s := run true [] (init [] 0) (sched_write [e 1%Z] ++ [LDelete; LWork; LWork])).
  specialize (H true [] s (sched_write [e 2%Z]) eq_refl). vm_compute in H. discriminate H.
Qed.
Print Assumptions C10_deleted_pipe_back_refuted.

(* ---- non-vacuity ---- *)
Definition ev (n : Z) (k : bool) : event := {| e_ts := n; e_msg := [x6d]; e_flds := [([x66], [x31])]; e_keep := k |}.
Definition demo_tags : list (bytes * bytes) := [([x61], [x62])].

(* a history with a pre-existing event, two batches, a clean restart and a third batch: alive, quiescent,
   the restart really changed the state, and the destination holds the four new events in order *)
Example C10_nonvacuous :
  let sched := sched_write [ev 1 true; ev 2 true] ++ [LRestart] ++ sched_write [ev 3 true] ++ [LTimeout; LWork] ++ sched_write [ev 4 true] in
  let s := run true demo_tags (init [ev 0 true] 1) sched in
  alive s = true /\ quiescent s = true /\ map d_ts (dst s) = [1; 2; 3; 4]%Z /\
  Forall enq_in_order sched /\
  wrk (run true demo_tags (init [ev 0 true] 1) (sched_write [ev 1 true; ev 2 true])) = Some (WWait 3) /\
  wrk (run true demo_tags (init [ev 0 true] 1) (sched_write [ev 1 true; ev 2 true] ++ [LRestart])) = None.
Proof. vm_compute. repeat split; repeat constructor. Qed.

(* with the filter applied the rejected event is not copied; with the code as it stands it is *)
Example C10_filter_demo :
  map d_ts (dst (run true demo_tags (init [] 0) (sched_write [ev 1 true; ev 2 false; ev 3 true]))) = [1; 3]%Z /\
  map d_ts (dst (run false demo_tags (init [] 0) (sched_write [ev 1 true; ev 2 false; ev 3 true]))) = [1; 2; 3]%Z.
Proof. vm_compute. split; reflexivity. Qed.

(* a deleted pipe with a worker asleep: later writes are not copied *)
Example C10_delete_demo :
  let s := run true demo_tags (init [] 0) (sched_write [ev 1 true] ++ [LDelete]) in
  alive s = false /\ copying s = false /\
  map d_ts (dst (run true demo_tags s (sched_write [ev 2 true]))) = [1]%Z.
Proof. vm_compute. repeat split. Qed.

(* an epoch that copied two events, DELETE PIPE, an event written while no pipe exists, CREATE PIPE under the same
   name, one more event: the first epoch's state is quiescent with saved positions (Pos = 2), the new pipe starts
   without a descriptor and copies the last event only *)
Example C10_recreate_demo :
  let s1 := run true demo_tags (init [] 0) (sched_write [ev 1 true; ev 2 true] ++ [LDelete] ++ sched_write [ev 3 true] ++ [LWork; LWork]) in
  let s := run true demo_tags (recreate s1) (sched_write [ev 4 true]) in
  quiescent s1 = true /\ alive s1 = false /\ option_map p_pos (desc s1) = Some 2 /\ map d_ts (dst s1) = [1; 2]%Z /\
  desc (recreate s1) = None /\
  alive s = true /\ quiescent s = true /\ map d_ts (dst s) = [4]%Z.
Proof. vm_compute. repeat split. Qed.

(* a destination write that fails once and succeeds at the next attempt: every event is copied exactly once *)
Example C10_refuse_demo :
  let sched := [LWrite [ev 1 true; ev 2 true; ev 3 true]; LEnq 0; LDeliver; LFlush; LWork; LWork; LRefuse false; LWork] ++ works 8 in
  let s := run true demo_tags (init [] 0) sched in
  wrk (run true demo_tags (init [] 0) (firstn 7 sched)) = Some (WRetry 1) /\
  alive s = true /\ quiescent s = true /\ map d_ts (dst s) = [1; 2; 3]%Z.
Proof. vm_compute. repeat split. Qed.

(* the restart between two attempts: with the position saved at the failure nothing is copied twice; the witness of
   C10_restart_while_retrying_refuted copies a, b twice *)
Example C10_restart_while_retrying_demo :
  let fin := fun save => run true [] (stop_retrying (run true [] (init [] 0) (rr_sched1 save))) (sched_write [rr_ev 4] ++ works 8) in
  wrk (run true [] (init [] 0) (rr_sched1 false)) = Some (WRetry 2) /\
  map d_ts (dst (fin true)) = [1; 2; 3; 4]%Z /\ quiescent (fin true) = true /\
  map d_ts (dst (fin false)) = [1; 2; 1; 2; 3; 4]%Z /\ quiescent (fin false) = true.
Proof. vm_compute. repeat split. Qed.

(* a source partition that is dropped and written again: the destination keeps a, b and gains c *)
Example C10_drop_source_demo :
  let s1 := run true demo_tags (init [] 0) (sched_write [ev 1 true; ev 2 true]) in
  let s := run true demo_tags (drop_source s1) (sched_write [ev 3 true]) in
  quiescent s1 = true /\ desc (drop_source s1) = None /\ alive s = true /\ quiescent s = true /\ map d_ts (dst s) = [1; 2; 3]%Z.
Proof. vm_compute. repeat split. Qed.
