(* C03 — paged and resumed reading delivers every matching event exactly once.
   Property theorems only; each is closed by a lemma of proofs/PagingP.v.

   Vocabulary (model/Paging.v): `run_from clear filtered flt choose strict st PHead steps` is the list of pages a client
   gets that starts at the head of store `st` and chains pages by the resume kinds of `steps` (each step: kind,
   limit, WaitTimeout > 0, appends that happen before the page). `clear` = does LogEvent.Unmarshal clear Fields
   (true: the code; false: the code before its repair); `filtered`/`flt` = the WHERE/RANGE filter; `choose` = which source the merge
   delivers next (any function: every merge order, every Go map order). `events_of p` restricts to partition p,
   `part_events st p` are the stored events of partition p in stored order, `pos_of st p pos` is the flat index of
   partition p's position inside a Pos string, `eff_flt` the filter in effect. *)
From LR Require Import lib.Base model.Paging proofs.PagingP.
From LR Require Import gen.Consts.
From LR Require Import proofs.PagingContentP.
From LR Require Import proofs.PagingRetryP.
From LR Require Import proofs.PagingTailP.
From LR Require Import proofs.PagingEofP.
From Coq Require Import Permutation.

(* ---- pages, no appends: for every store, filter, merge order, limit script and resume script over
   {same cursor, evicted, ReqId zeroed, Pos only}: no model loop runs out of fuel, and the concatenation of the
   pages restricted to any partition is exactly the matching events among the first N stored events of that
   partition, in stored order, each once - N being the flat index of the partition's position in the last Pos. *)
Theorem C03_pages : forall clear filtered flt choose strict st steps, wf_store st -> no_retry steps -> no_appends steps ->
  let rs := run_from clear filtered flt choose strict st PHead steps in
  Forall (fun r => rs_ok r = true) rs /\
  forall p, events_of p (concat (map rs_events rs)) =
            filter (eff_flt filtered flt) (map (obs p) (firstn (pos_of st p (last (map rs_pos rs) PHead)) (part_events st p))).
Proof.
  intros clear filtered flt choose strict st steps Hwf Hnr Hna.
  pose proof (paged_read clear filtered flt choose strict st steps Hwf Hnr) as H. rewrite (final_no_appends st steps Hna) in H. exact H.
Qed.
Print Assumptions C03_pages.

(* ---- a read that reached the end (the last page came back short of its limit) has delivered, per partition,
   exactly the matching events, provided the merge picks some non-exhausted source whenever there is one *)
Theorem C03_pages_complete : forall clear filtered flt choose strict st steps, wf_store st -> no_retry steps -> no_appends steps ->
  choose_valid choose -> last_page_short steps (run_from clear filtered flt choose strict st PHead steps) ->
  forall p, events_of p (concat (map rs_events (run_from clear filtered flt choose strict st PHead steps))) =
            filter (eff_flt filtered flt) (map (obs p) (part_events st p)).
Proof.
  intros clear filtered flt choose strict st steps Hwf Hnr Hna Hv Hsh p.
  pose proof (paged_read_complete clear filtered flt choose strict st steps Hwf Hnr Hv Hsh p) as H.
  rewrite (final_no_appends st steps Hna) in H. exact H.
Qed.
Print Assumptions C03_pages_complete.

(* ---- hence two complete reads of the same store (any two limit/resume scripts, e.g. a paged one and a single
   unlimited one) deliver the same events: equal per partition, and equal as multisets *)
Theorem C03_pages_multiset : forall clear filtered flt choose1 choose2 strict st steps1 steps2, wf_store st ->
  no_retry steps1 -> no_appends steps1 -> no_retry steps2 -> no_appends steps2 -> choose_valid choose1 -> choose_valid choose2 ->
  last_page_short steps1 (run_from clear filtered flt choose1 strict st PHead steps1) ->
  last_page_short steps2 (run_from clear filtered flt choose2 strict st PHead steps2) ->
  Permutation (concat (map rs_events (run_from clear filtered flt choose1 strict st PHead steps1)))
              (concat (map rs_events (run_from clear filtered flt choose2 strict st PHead steps2))).
Proof.
  intros clear filtered flt c1 c2 strict st s1 s2 Hwf N1 A1 N2 A2 V1 V2 S1 S2.
  apply (same_parts_perm (length st)).
  - apply (run_srcs_lt clear filtered flt c1 strict st s1 Hwf N1). exact (final_no_appends st s1 A1).
  - apply (run_srcs_lt clear filtered flt c2 strict st s2 Hwf N2). exact (final_no_appends st s2 A2).
  - intros p.
    rewrite (C03_pages_complete clear filtered flt c1 strict st s1 Hwf N1 A1 V1 S1 p).
    rewrite (C03_pages_complete clear filtered flt c2 strict st s2 Hwf N2 A2 V2 S2 p). reflexivity.
Qed.
Print Assumptions C03_pages_multiset.

(* ---- appends between pages: the same statement against the store as it is after the last page. Since appends
   only add events behind the stored ones (C03_append_only), what was delivered is never delivered again and
   the new events come after it; a read that reached the end has delivered everything that matches. *)
Theorem C03_appends : forall clear filtered flt choose strict st steps, wf_store st -> no_retry steps ->
  let rs := run_from clear filtered flt choose strict st PHead steps in
  let stf := final_store st steps in
  Forall (fun r => rs_ok r = true) rs /\
  forall p, events_of p (concat (map rs_events rs)) =
            filter (eff_flt filtered flt) (map (obs p) (firstn (pos_of stf p (last (map rs_pos rs) PHead)) (part_events stf p))).
Proof. exact paged_read. Qed.
Print Assumptions C03_appends.

Theorem C03_appends_complete : forall clear filtered flt choose strict st steps, wf_store st -> no_retry steps ->
  choose_valid choose -> last_page_short steps (run_from clear filtered flt choose strict st PHead steps) ->
  forall p, events_of p (concat (map rs_events (run_from clear filtered flt choose strict st PHead steps))) =
            filter (eff_flt filtered flt) (map (obs p) (part_events (final_store st steps) p)).
Proof. exact paged_read_complete. Qed.
Print Assumptions C03_appends_complete.

Theorem C03_append_only : forall st apps p, exists more, part_events (apply_appends st apps) p = part_events st p ++ more.
Proof. exact appends_extend. Qed.
Print Assumptions C03_append_only.

(* ---- a read that starts at Pos "tail" (every partition has a chunk; no chunk id is the largest one, the CId of the
   tail position): the first page is empty and returns concrete positions, the ends of the partitions as they are at
   that request (store st1); what was stored then, followed by what the pages deliver, is exactly the matching events
   among the first N stored events of the final store - nothing stored before the read began is delivered, nothing
   appended after it is skipped or repeated, for every chain of the four kinds and all appends between the pages *)
Theorem C03_tail : forall clear filtered flt choose strict st s1 tl,
  wf_store st -> tail_ready (apply_appends st (s_apps s1)) -> no_retry (s1 :: tl) ->
  let st1 := apply_appends st (s_apps s1) in
  let rs := run_from clear filtered flt choose strict st PTail (s1 :: tl) in
  let stf := final_store st (s1 :: tl) in
  Forall (fun r => rs_ok r = true) rs /\
  forall p, filter (eff_flt filtered flt) (map (obs p) (part_events st1 p)) ++ events_of p (concat (map rs_events rs)) =
            filter (eff_flt filtered flt) (map (obs p) (firstn (pos_of stf p (last (map rs_pos rs) PTail)) (part_events stf p))).
Proof.
  intros clear filtered flt choose strict st s1 tl Hwf Hr Hnr.
  destruct (tail_read clear filtered flt choose strict st s1 tl Hwf Hr Hnr) as [A [B _]]. split; assumption.
Qed.
Print Assumptions C03_tail.

(* a read from "tail" that reached the end has delivered, per partition, exactly the matching events among those
   appended after its first request *)
Theorem C03_tail_complete : forall clear filtered flt choose strict st s1 tl,
  wf_store st -> tail_ready (apply_appends st (s_apps s1)) -> no_retry (s1 :: tl) -> choose_valid choose ->
  last_page_short (s1 :: tl) (run_from clear filtered flt choose strict st PTail (s1 :: tl)) ->
  forall p, exists more, part_events (final_store st (s1 :: tl)) p = part_events (apply_appends st (s_apps s1)) p ++ more /\
    events_of p (concat (map rs_events (run_from clear filtered flt choose strict st PTail (s1 :: tl)))) =
    filter (eff_flt filtered flt) (map (obs p) more).
Proof.
  intros clear filtered flt choose strict st s1 tl Hwf Hr Hnr Hv Hsh.
  destruct (tail_read clear filtered flt choose strict st s1 tl Hwf Hr Hnr) as [_ [_ C]]. exact (C Hv Hsh).
Qed.
Print Assumptions C03_tail_complete.

(* ---- the invariant behind it, at the level of one partition's iterator: Get returns the record at the flat index
   of the position and leaves the index unchanged; Next advances it by one (or stays at the end) *)
Theorem C03_iter_get : forall j it it' r, wf_journal j -> wfj j it -> jit_get j it = (it', r) ->
  wfj j it' /\ fl j it' = fl j it /\ r = nth_error (recs j) (fl j it).
Proof. intros j it it' r Hs Hw Hg. destruct (jit_get_spec j it it' r Hs Hw Hg) as [A [B [C _]]]. auto. Qed.
Print Assumptions C03_iter_get.
Theorem C03_iter_next : forall j it, wf_journal j -> wfj j it ->
  wfj j (jit_next j it) /\ fl j (jit_next j it) = (if (fl j it <? length (recs j))%nat then S (fl j it) else fl j it).
Proof. exact jit_next_spec. Qed.
Print Assumptions C03_iter_next.

(* ---- RANGE queries (partition.JIterator), the window between the chunk iterator's io.EOF and the chunk selector's look at
   the chunks (model: eof_step reresolve restore). The reader stands at the end of a chunk of its partition as it was; a
   writer's flush - any sequence of appends: into that chunk, into new chunks, both - lands in the window. Statement: the
   position after the window is the first record that was not read (nothing of the flush is skipped) *)
Definition C03_eof_window_statement (reresolve restore : bool) : Prop :=
  forall j it p c (apps : list (N * list event)),
  wf_journal j -> wfj j it -> j_ci it = Some p -> find_chunk j (j_cid it) = Some c -> last_chunk j = Some c -> ci_read j it = None ->
  let j' := fold_left (fun a x => jappend a (fst x) (snd x)) apps j in
  flat j' (jit_pos (fst (eof_step reresolve restore j' it))) = fl j it.

Definition ex6_journal : journal := [mkCh 5 [mkEv 1 [x61] []; mkEv 2 [x62] []]].
Definition ex6_it : jit := mkJit 5 2 (Some 2%N) false.
Lemma ex6_ok : wf_journal ex6_journal /\ wfj ex6_journal ex6_it /\ j_ci ex6_it = Some 2%N /\
  find_chunk ex6_journal (j_cid ex6_it) = Some (mkCh 5 [mkEv 1 [x61] []; mkEv 2 [x62] []]) /\
  last_chunk ex6_journal = Some (mkCh 5 [mkEv 1 [x61] []; mkEv 2 [x62] []]) /\ ci_read ex6_journal ex6_it = None.
Proof.
  split; [repeat constructor|]. split; [split; [reflexivity|split; [reflexivity|eexists; split; [reflexivity|cbn; lia]]]|].
  repeat split; reflexivity.
Qed.

(* the code (the selector is asked about the unread position): the full statement, whatever the restore test does; the
   iterator is well-formed again and goes on reading (Get then delivers the record at that index, C03_iter_get) *)
Theorem C03_eof_window : forall restore, C03_eof_window_statement true restore.
Proof.
  intros restore j it p c apps Hs Hw Hci Hf _ _.
  destruct (eof_reresolved j it p c apps restore Hs Hw Hci Hf) as [A _]. exact A.
Qed.
Print Assumptions C03_eof_window.

Theorem C03_eof_window_reads_on : forall restore j it p c (apps : list (N * list event)),
  wf_journal j -> wfj j it -> j_ci it = Some p -> find_chunk j (j_cid it) = Some c ->
  let j' := fold_left (fun a x => jappend a (fst x) (snd x)) apps j in
  wfj j' (fst (eof_step true restore j' it)) /\ snd (eof_step true restore j' it) = true.
Proof.
  intros restore j it p c apps Hs Hw Hci Hf.
  destruct (eof_reresolved j it p c apps restore Hs Hw Hci Hf) as [_ B]. exact B.
Qed.
Print Assumptions C03_eof_window_reads_on.

(* the code before the repair (stepping to the next chunk id, with the restore) when the flush stays in the chunk the reader
   stands at the end of: the position is kept, and the next Get delivers the first flushed record *)
Theorem C03_eof_window_stepping_partial : forall j it p c evs,
  wf_journal j -> wfj j it -> j_ci it = Some p -> find_chunk j (j_cid it) = Some c -> last_chunk j = Some c -> ci_read j it = None ->
  let j' := jappend j (j_cid it) evs in
  let it2 := fst (eof_step false true j' it) in
  jit_pos it2 = jit_pos it /\ flat j' (jit_pos it2) = fl j it /\ fl j it = length (recs j) /\
  forall it3 r, jit_get j' it2 = (it3, r) -> r = nth_error (recs j') (fl j it).
Proof.
  intros j it p c evs Hs Hw Hci Hf Hl He.
  destruct (eof_window_kept j it p c evs Hs Hw Hci Hf Hl He) as [A [_ [B [C D]]]]. cbn zeta in *.
  split; [exact A|]. split; [exact B|]. split; [exact C|exact D].
Qed.
Print Assumptions C03_eof_window_stepping_partial.

(* the full statement was false of the code before the repair: a flush that extends the reader's chunk AND starts a new chunk
   (a chunk roll-over inside the window) - the selector finds the new chunk, the iterator goes on there and the records the old
   chunk has got are never read *)
Theorem C03_eof_window_stepping_refuted : ~ C03_eof_window_statement false true.
Proof.
  intros H. destruct ex6_ok as [A [B [C [D [E F]]]]].
  specialize (H ex6_journal ex6_it 2%N _ [(5%N, [mkEv 3 [x63] []]); (9%N, [mkEv 4 [x64] []])] A B C D E F).
  vm_compute in H. discriminate H.
Qed.
Print Assumptions C03_eof_window_stepping_refuted.

(* the stepping variant with the comparison of the restore the other way round (jit.pos.Idx < eofPos.Idx: never restores):
   already a flush into the reader's own chunk is stepped over (the code before /repo ee8da2c behaved like this too) *)
Theorem C03_eof_window_no_restore_refuted : ~ (forall j it p c evs,
  wf_journal j -> wfj j it -> j_ci it = Some p -> find_chunk j (j_cid it) = Some c -> last_chunk j = Some c -> ci_read j it = None ->
  let j' := jappend j (j_cid it) evs in flat j' (jit_pos (fst (eof_step false false j' it))) = fl j it).
Proof.
  intros H. destruct ex6_ok as [A [B [C [D [E F]]]]].
  specialize (H ex6_journal ex6_it 2%N _ [mkEv 3 [x63] []] A B C D E F). vm_compute in H. discriminate H.
Qed.
Print Assumptions C03_eof_window_no_restore_refuted.

(* ---- the chunk selector's answer "nothing left to read" (getPosForward): ONE count per decision. The code answers with the
   count it checked the position against (end_answer false = ensure, whatever the journal looks like by then), so the position
   is still the first unread record in a journal a flush has extended meanwhile *)
Theorem C03_end_answer_one_count : forall j j2 it, end_answer false j j2 it = ensure j it.
Proof. exact end_answer_one_count. Qed.
Print Assumptions C03_end_answer_one_count.

Theorem C03_end_answer : forall j it p c evs,
  wf_journal j -> wfj j it -> j_ci it = Some p -> find_chunk j (j_cid it) = Some c -> last_chunk j = Some c -> ci_read j it = None ->
  let j2 := jappend j (j_cid it) evs in
  let it2 := fst (end_answer false j j2 (advance it)) in
  jit_pos it2 = jit_pos it /\ flat j2 (jit_pos it2) = fl j it.
Proof. exact end_answer_kept. Qed.
Print Assumptions C03_end_answer.

(* reading the count again when the answer is built steps over what was flushed in between *)
Theorem C03_end_answer_reread_refuted : ~ (forall j it p c evs,
  wf_journal j -> wfj j it -> j_ci it = Some p -> find_chunk j (j_cid it) = Some c -> last_chunk j = Some c -> ci_read j it = None ->
  let j2 := jappend j (j_cid it) evs in flat j2 (jit_pos (fst (end_answer true j j2 (advance it)))) = fl j it).
Proof.
  intros H. destruct ex6_ok as [A [B [C [D [E F]]]]].
  specialize (H ex6_journal ex6_it 2%N _ [mkEv 3 [x63] []] A B C D E F). vm_compute in H. discriminate H.
Qed.
Print Assumptions C03_end_answer_reread_refuted.

(* the same two flushes under the code: the position is the first unread record *)
Example C03_ex_eof_window :
  jit_pos (fst (eof_step true true (fold_left (fun a x => jappend a (fst x) (snd x)) [(5%N, [mkEv 3 [x63] []]); (9%N, [mkEv 4 [x64] []])] ex6_journal) ex6_it)) = (5%N, 2%N)
  /\ jit_pos (fst (eof_step false true (fold_left (fun a x => jappend a (fst x) (snd x)) [(5%N, [mkEv 3 [x63] []]); (9%N, [mkEv 4 [x64] []])] ex6_journal) ex6_it)) = (9%N, 0%N).
Proof. vm_compute. split; reflexivity. Qed.

(* ---- content, over all five kinds (the four of the property plus "the previous request sent again", what a
   client does when it retries a page): every delivered event is a stored event of its partition *)
Definition C03_content_statement (clear strict : bool) : Prop :=
  forall filtered flt choose st steps, wf_store st ->
  forall ev, In ev (concat (map rs_events (run_from clear filtered flt choose strict st PHead steps))) ->
  In ev (map (obs (o_src ev)) (part_events (final_store st steps) (o_src ev))).

Definition ex1_store : store :=
  [mkPart [x73] [x74] [mkCh 5 [mkEv 1 [x61] []; mkEv 2 [x62] []; mkEv 3 [x63] [x73; x3d; x78]]]].
Definition ex1_steps : list pstep := [mkStep RSame 1 true []; mkStep RSame 1 true []; mkStep RRetry 1 true []].

Lemma ex1_wf : wf_store ex1_store.
Proof. split; [repeat constructor; intros []|repeat constructor]. Qed.

(* the code (LogEvent.Unmarshal resets Fields when the record has none: clear = true), whatever the provider does with
   a cached cursor (strict or not), whatever positions the requests name: proved for all five kinds *)
Theorem C03_content : forall strict, C03_content_statement true strict.
Proof. intros strict filtered flt choose st steps _ ev. exact (delivered_are_stored_all filtered flt choose strict st steps ev). Qed.
Print Assumptions C03_content.

(* the variant before the repair (clear = false) refutes it: the retried page delivers event 2 with the fields of event 3 *)
Theorem C03_content_kept_fields_refuted : ~ C03_content_statement false false.
Proof.
  intros H. specialize (H false (fun _ => true) choose_min ex1_store ex1_steps ex1_wf (mkOev 0 2 [x62] [x73; x3d; x78])).
  assert (In (mkOev 0 2 [x62] [x73; x3d; x78]) (concat (map rs_events (run_from false false (fun _ => true) choose_min false ex1_store PHead ex1_steps)))) as Hin
    by (vm_compute; right; right; left; reflexivity).
  specialize (H Hin). vm_compute in H. repeat (destruct H as [H|H]; [discriminate H|]). exact H.
Qed.
Print Assumptions C03_content_kept_fields_refuted.

(* for the four kinds of the property it holds whatever Unmarshal does (also for the variant before the repair) *)
Theorem C03_content_partial : forall clear filtered flt choose strict st steps, wf_store st -> no_retry steps ->
  forall ev, In ev (concat (map rs_events (run_from clear filtered flt choose strict st PHead steps))) ->
  In ev (map (obs (o_src ev)) (part_events (final_store st steps) (o_src ev))).
Proof. exact delivered_are_stored. Qed.
Print Assumptions C03_content_partial.

(* ---- a request sent again (same ReqId, same Pos, same limit, nothing appended since it was sent) returns the same
   page. `steps` is any chain before it (all five kinds); the merge order is a function of the heads (a cursor built
   anew restarts the scheduler oracle: C03_retry_needs_merge_by_heads); a store of more than one partition has not
   been appended to during the chain (a merge selection cached before an append is not the one a new cursor makes
   after it: C03_retry_needs_unappended_store) *)
Definition C03_retry_statement (clear strict : bool) : Prop :=
  forall filtered flt choose st steps k l w, wf_store st -> merge_by_heads choose ->
  (no_appends steps \/ (length st <= 1)%nat) ->
  forall a b, skipn (length steps) (map rs_events (run_from clear filtered flt choose strict st PHead
                                       (steps ++ [mkStep k l w []; mkStep RRetry l w []]))) = [a; b] -> a = b.

Definition ex2_store : store :=
  [mkPart [x73] [x74] [mkCh 5 [mkEv 1 [x6b] []; mkEv 2 [x6b] []; mkEv 3 [x6b] []; mkEv 4 [x6b] []]]].

(* the code (GetOrCreate drops a cached cursor whose Pos differs and builds a new one: strict = true), with or without
   the Fields repair: the cursor that answered the request and the cursor that answers it again stand at the same
   consumed counts, and a page is a function of those *)
Theorem C03_retry : forall clear, C03_retry_statement clear true.
Proof. intros clear filtered flt choose st steps k l w. exact (retried_page_same clear filtered flt choose st steps k l w). Qed.
Print Assumptions C03_retry.

(* the variant before the repair (the cached cursor is re-positioned: strict = false) refutes it, with or without the
   Fields repair: with a WHERE filter the fiterator hands out the event it had peeked (event 3) instead of the one at
   Pos (event 2) *)
Theorem C03_retry_repositioned_refuted : forall clear, ~ C03_retry_statement clear false.
Proof.
  intros clear H.
  assert (wf_store ex2_store) as Hwf by (split; [repeat constructor; intros []|repeat constructor]).
  assert (merge_by_heads choose_min) as Hm by (intros t t' hs; reflexivity).
  assert (no_appends [mkStep RSame 1 true []]) as Hna by (repeat constructor).
  specialize (H true (flt_of (FContains [x6b])) choose_min ex2_store [mkStep RSame 1 true []] RSame 1%N true Hwf Hm (or_introl Hna)).
  destruct clear; vm_compute in H; specialize (H _ _ eq_refl); discriminate H.
Qed.
Print Assumptions C03_retry_repositioned_refuted.

(* both hypotheses of the statement are needed, also for the code (clear = true, strict = true). A merge that depends
   on the number of selections made: even -> leftmost source with an event, odd -> rightmost *)
Fixpoint first_some (i : nat) (hs : list (option oev)) : nat :=
  match hs with [] => O | Some _ :: _ => i | None :: tl => first_some (S i) tl end.
Fixpoint last_some (i : nat) (hs : list (option oev)) (best : nat) : nat :=
  match hs with [] => best | Some _ :: tl => last_some (S i) tl i | None :: tl => last_some (S i) tl best end.
Definition choose_flip (t : nat) (hs : list (option oev)) : nat := if Nat.even t then first_some 0 hs else last_some 0 hs 0%nat.
Definition ex4_store : store :=
  [mkPart [x61] [x41] [mkCh 3 [mkEv 10 [x61] []; mkEv 30 [x62] []]];
   mkPart [x62] [x42] [mkCh 4 [mkEv 20 [x64] []; mkEv 40 [x65] []]]].

Theorem C03_retry_needs_merge_by_heads : exists steps k l w a b,
  wf_store ex4_store /\ no_appends steps /\
  skipn (length steps) (map rs_events (run_from true false (fun _ => true) choose_flip true ex4_store PHead
                          (steps ++ [mkStep k l w []; mkStep RRetry l w []]))) = [a; b] /\ a <> b.
Proof.
  exists [mkStep RSame 1 true []], RSame, 1%N, true. eexists. eexists.
  split; [split; [repeat constructor; cbn; intuition discriminate|repeat constructor]|].
  split; [repeat constructor|]. split; [vm_compute; reflexivity|discriminate].
Qed.
Print Assumptions C03_retry_needs_merge_by_heads.

(* two partitions, earliest-timestamp merge: the cursor caches its selection (20, partition b being the only one with
   an event); an event with timestamp 15 is appended to partition a and a page of limit 0 is read; the next page
   starts with the cached 20, the same request sent again is answered by a new cursor, which starts with 15 *)
Definition ex5_store : store :=
  [mkPart [x61] [x41] [mkCh 3 [mkEv 10 [x61] []]]; mkPart [x62] [x42] [mkCh 4 [mkEv 20 [x64] []]]].
Theorem C03_retry_needs_unappended_store : exists steps k l w a b,
  wf_store ex5_store /\ merge_by_heads choose_min /\
  skipn (length steps) (map rs_events (run_from true false (fun _ => true) choose_min true ex5_store PHead
                          (steps ++ [mkStep k l w []; mkStep RRetry l w []]))) = [a; b] /\ a <> b.
Proof.
  exists [mkStep RSame 1 true []; mkStep RSame 0 true [mkApp 0 3 [mkEv 15 [x63] []]]], RSame, 1%N, true. eexists. eexists.
  split; [split; [repeat constructor; cbn; intuition discriminate|repeat constructor]|].
  split; [intros t t' hs; reflexivity|]. split; [vm_compute; reflexivity|discriminate].
Qed.
Print Assumptions C03_retry_needs_unappended_store.

(* ---- non-vacuity: a two-partition, three-chunk store with tied-free timestamps; a script using every kind
   and an append; the pages the model delivers *)
Definition ex3_store : store :=
  [mkPart [x61] [x41] [mkCh 3 [mkEv 10 [x61] []; mkEv 30 [x62] [x66]]; mkCh 7 [mkEv 50 [x63] []]];
   mkPart [x62] [x42] [mkCh 4 [mkEv 20 [x64] []; mkEv 40 [x65] []]]].
Definition ex3_steps : list pstep :=
  [mkStep RSame 2 true []; mkStep RSame 1 true []; mkStep REvict 1 true [mkApp 1 9 [mkEv 60 [x66] [x67]]];
   mkStep RZero 1 false []; mkStep RPosOnly 7 false []].
Example C03_ex_wf : wf_store ex3_store /\ no_retry ex3_steps /\ choose_valid choose_min.
Proof.
  split; [split; [repeat constructor; cbn; intuition discriminate|repeat constructor]|].
  split; [repeat constructor; discriminate|exact choose_min_valid].
Qed.
Example C03_ex_run :
  map (fun r => map (fun e => (o_src e, o_ts e)) (rs_events r)) (run_from false false (fun _ => true) choose_min false ex3_store PHead ex3_steps)
  = [[(0%nat, 10%Z); (1%nat, 20%Z)]; [(0%nat, 30%Z)]; [(1%nat, 40%Z)]; [(0%nat, 50%Z)]; [(1%nat, 60%Z)]]
  /\ last_page_short ex3_steps (run_from false false (fun _ => true) choose_min false ex3_store PHead ex3_steps).
Proof. vm_compute. split; [reflexivity|lia]. Qed.

(* a read from "tail" over the same store: the first page is empty, the pages after it deliver the appended events *)
Example C03_ex_tail :
  tail_ready ex3_store /\
  map (fun r => map (fun e => (o_src e, o_ts e)) (rs_events r))
      (run_from true false (fun _ => true) choose_min true ex3_store PTail
         [mkStep RSame 3 false []; mkStep RSame 5 true [mkApp 1 9 [mkEv 60 [x66] [x67]]];
          mkStep RPosOnly 5 false [mkApp 0 7 [mkEv 70 [x68] []]]; mkStep REvict 5 false []])
  = [[]; [(1%nat, 60%Z)]; [(0%nat, 70%Z)]; []].
Proof. split; [repeat constructor; cbn; try discriminate; lia|vm_compute; reflexivity]. Qed.

(* ---- the two witnesses under the repairs (what `repo_clears_fields` / `repo_strict_pos` = true mean):
   with Unmarshal clearing Fields (the code) the retried page of ex1 carries the stored fields; with a provider that never
   re-positions a cached cursor (the code) the retried page of ex2 is the page delivered before *)
Example C03_ex_fixed_fields :
  map (fun r => map (fun e => (o_ts e, o_flds e)) (rs_events r)) (run_from true false (fun _ => true) choose_min false ex1_store PHead ex1_steps)
  = [[(1%Z, [])]; [(2%Z, [])]; [(2%Z, [])]].
Proof. vm_compute. reflexivity. Qed.
Example C03_ex_fixed_provider :
  map (fun r => map o_ts (rs_events r))
      (run_from false true (flt_of (FContains [x6b])) choose_min true ex2_store PHead
                [mkStep RSame 1 true []; mkStep RSame 1 true []; mkStep RRetry 1 true []])
  = [[1%Z]; [2%Z]; [2%Z]]
  /\ map (fun r => map (fun e => (o_ts e, o_flds e)) (rs_events r)) (run_from false false (fun _ => true) choose_min true ex1_store PHead ex1_steps)
  = [[(1%Z, [])]; [(2%Z, [])]; [(2%Z, [])]].
Proof. vm_compute. split; reflexivity. Qed.

(* the page-limit clamp of the model is backend.QueryMaxLimit as the source has it now (coq/gen/Consts.v is regenerated
   from /repo on every run) *)
Example C03_constants : query_max_limit = go_QueryMaxLimit.
Proof. reflexivity. Qed.
