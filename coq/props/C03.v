(* C03 — paged and resumed reading delivers every matching event exactly once.
   Property theorems only; each is closed by a lemma of proofs/PagingP.v. *)
From LR Require Import lib.Base model.Paging proofs.PagingP.

(* the journal iterator: Get returns the record at the flat index of the position and does not move it *)
Theorem C03_iter_get : forall j it it' r, sorted j -> wfj j it -> jit_get j it = (it', r) ->
  wfj j it' /\ fl j it' = fl j it /\ r = nth_error (recs j) (fl j it).
Proof. intros j it it' r Hs Hw Hg. destruct (jit_get_spec j it it' r Hs Hw Hg) as [A [B [C _]]]. auto. Qed.
Print Assumptions C03_iter_get.
