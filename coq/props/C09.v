(* C09 - Truncation removes only whole oldest chunks, within the requested bounds.
   Property theorems only; each is closed by a lemma of proofs/TruncateP.v.
   Model: model/Truncate.v.  [incl] = the comparison of the BEFORE loop: true is `MaxTs <= OldestTs`
   ([code_incl]; false = `<` since the fix, true = the `<=` the code had before).  A run maps the partitions [st] to one slot each (same positions):
   Kept p' (still there) or Dropped (deleteJournal succeeded), plus the report lines. *)
From LR Require Import lib.Base model.Truncate proofs.TruncateP proofs.TruncateSelP.
Open Scope N_scope.

(* ---- suffix at a chunk boundary, for every layout, every parameter combination, any visiting order ---- *)
(* every partition is afterwards dropped or holds [skipn k] of its previous chunk list, nothing else about it changed *)
Theorem C09_suffix : forall incl tp st, Forall2 suffix_slot st (fst (Truncate incl tp st)).
Proof. exact truncate_all_suffix. Qed.
Print Assumptions C09_suffix.

(* partitions that do not match the source condition (or are locked exclusively by somebody) are untouched *)
Theorem C09_untouched : forall incl tp st, NoDup (map p_key st) ->
  forall i p, nth_error st i = Some p -> p_match p = false \/ p_excl p = true ->
  nth_error (fst (Truncate incl tp st)) i = Some (Kept p).
Proof. exact truncate_all_untouched. Qed.
Print Assumptions C09_untouched.

(* ... and not reported: every line of the report (DRYRUN or real, with or without MAXDBSIZE) is about a partition that
   matches the source condition and is not locked exclusively. A partition whose journal cannot be opened is skipped by
   the visitor at once; it enters the model with p_match = false (K: the injected-fault cases). *)
Theorem C09_report_selected : forall incl tp st ti, In ti (snd (Truncate incl tp st)) ->
  exists p, In p st /\ p_key p = i_key ti /\ p_match p = true /\ p_excl p = false.
Proof. exact report_selected. Qed.
Print Assumptions C09_report_selected.

(* a statement that selects nothing changes nothing and reports nothing, whatever MINSIZE/MAXSIZE/BEFORE/MAXDBSIZE ask for *)
Theorem C09_none_selected : forall incl tp st, (forall p, In p st -> p_match p = false \/ p_excl p = true) ->
  Truncate incl tp st = (map Kept st, []).
Proof. exact Truncate_none_selected. Qed.
Print Assumptions C09_none_selected.

(* a source condition the tag-condition builder refuses: the statement fails before any partition is looked at
   (TruncateStmt .. false = None: no report, no slot changes; K: KTruncRefused) *)
Theorem C09_refused_source : forall incl tp st,
  TruncateStmt incl false tp st = None /\ TruncateStmt incl true tp st = Some (Truncate incl tp st).
Proof. intros incl tp st. split; reflexivity. Qed.
Print Assumptions C09_refused_source.

(* chunks that a concurrent writer creates after TRUNCATE read the chunk list (larger ids) survive the deletion *)
Theorem C09_suffix_appended : forall last cks more, (forall d, In d more -> last < c_id d) ->
  delete_chunks last (cks ++ more) = (fst (delete_chunks last cks), snd (delete_chunks last cks) ++ more).
Proof. exact delete_chunks_app. Qed.
Print Assumptions C09_suffix_appended.

(* ---- why a chunk goes (runs in which MAXDBSIZE plays no role: no_maxdb = the selected data fits MAXDBSIZE) ---- *)
(* every removed chunk j went because the partition was above MAXSIZE and keeps MINSIZE without it (by_size),
   or because its hull is old enough and the partition keeps MINSIZE without it (by_time), or it is an empty
   chunk of a partition being dropped (by_empty) *)
Theorem C09_reason : forall incl tp st, Forall wf_part st -> no_maxdb tp st -> tp_dry tp = false ->
  forall i p s, nth_error st i = Some p -> nth_error (fst (Truncate incl tp st)) i = Some s ->
  forall j, (j < length (removed p s))%nat -> reason incl tp (p_chunks p) j.
Proof.
  intros incl tp st W NM D i p s Hp Hs j Hj.
  rewrite (Truncate_no_maxdb_nth incl tp st i p W NM Hp) in Hs. injection Hs as <-.
  apply removed_reason; [|exact D|exact Hj]. rewrite Forall_forall in W. apply W. eapply nth_error_In. exact Hp.
Qed.
Print Assumptions C09_reason.

(* size-driven removal: without BEFORE, a chunk holding data goes only while the partition is above MAXSIZE,
   and what is left without it is at least MINSIZE *)
Theorem C09_size : forall incl tp st, Forall wf_part st -> no_maxdb tp st -> tp_dry tp = false -> (tp_oldest tp <= 0)%Z ->
  forall i p s, nth_error st i = Some p -> nth_error (fst (Truncate incl tp st)) i = Some s ->
  forall j c, (j < length (removed p s))%nat -> nth_error (p_chunks p) j = Some c -> c_size c <> 0 ->
  0 < tp_max tp /\ tp_max tp < total_size (skipn j (p_chunks p)) /\ tp_min tp <= total_size (skipn (S j) (p_chunks p)).
Proof.
  intros incl tp st W NM D Old i p s Hp Hs j c Hj Hc Hsz.
  destruct (C09_reason incl tp st W NM D i p s Hp Hs j Hj) as [So [G1 G2]|To _|[c' [N' Z]]].
  - unfold size_on in So. apply andb_true_iff in So as [So _]. apply N.ltb_lt in So. repeat split; assumption.
  - unfold time_on in To. apply Z.ltb_lt in To. lia.
  - rewrite Hc in N'. injection N' as <-. contradiction.
Qed.
Print Assumptions C09_size.

(* and in every such run, with or without BEFORE: a partition that lost data is left with at least MINSIZE *)
Theorem C09_minsize : forall incl tp st, Forall wf_part st -> no_maxdb tp st -> tp_dry tp = false ->
  forall i p s, nth_error st i = Some p -> nth_error (fst (Truncate incl tp st)) i = Some s ->
  total_size (slot_chunks s) < total_size (p_chunks p) -> tp_min tp <= total_size (slot_chunks s).
Proof.
  intros incl tp st W NM D i p s Hp Hs.
  rewrite (Truncate_no_maxdb_nth incl tp st i p W NM Hp) in Hs. injection Hs as <-.
  apply left_ge_minsize; [|exact D]. rewrite Forall_forall in W. apply W. eapply nth_error_In. exact Hp.
Qed.
Print Assumptions C09_minsize.

(* MAXDBSIZE: the full statement "never below MINSIZE" is false of the code: MINSIZE 200 MAXDBSIZE 300 on two
   partitions of 400 bytes drops one of them entirely *)
Theorem C09_size_maxdb_refuted : ~ minsize_statement code_incl.
Proof.
  intros H.
  specialize (H (mkTP false 200 0 0%Z 300) [wit_part 0; wit_part 1]
                (Forall_cons _ (wit_wf 0) (Forall_cons _ (wit_wf 1) (Forall_nil _))) eq_refl
                O (wit_part 0) (Dropped (wit_part 0) []) eq_refl).
  assert (E : nth_error (fst (Truncate code_incl (mkTP false 200 0 0%Z 300) [wit_part 0; wit_part 1])) 0 = Some (Dropped (wit_part 0) []))
    by (vm_compute; reflexivity).
  specialize (H E). vm_compute in H. exact (H eq_refl eq_refl).
Qed.
Print Assumptions C09_size_maxdb_refuted.

(* ---- BEFORE ---- *)
(* the property: a chunk is removed for BEFORE t only if all its events are older than t (MAXSIZE absent, MAXDBSIZE
   not in effect, the time index's hull bounds the chunk's events).  True of the code as it is (`<`, since the fix of
   partition.go:606; K runs the model with [code_incl], so a return to `<=` breaks the correspondence and the oracle) *)
Theorem C09_before : before_statement code_incl.
Proof. intros tp st W Hh NM Mx D i p s Hp Hs c Hc t Ht. exact (before_bound false tp st W Hh NM Mx D i p s Hp Hs c Hc t Ht). Qed.
Print Assumptions C09_before.

(* ... and false of the comparison the code had before the fix (`<=`): BEFORE 60 removed a chunk holding an event at 60 *)
Theorem C09_before_inclusive_refuted : ~ before_statement true.
Proof.
  intros H.
  specialize (H (mkTP false 0 0 60%Z no_db) [wit_part 0] (Forall_cons _ (wit_wf 0) (Forall_nil _))).
  assert (Hh : forall p, In p [wit_part 0] -> Forall hull_ok (p_chunks p)) by (intros p [<-|[]]; apply wit_hull).
  specialize (H Hh ltac:(vm_compute; discriminate) eq_refl eq_refl O (wit_part 0)
                (Kept (set_chunks (wit_part 0) (skipn 3 (p_chunks (wit_part 0))))) eq_refl ltac:(vm_compute; reflexivity)
                (ch 3 100 2 [50; 60]%Z) ltac:(vm_compute; tauto) 60%Z ltac:(cbn; tauto)).
  cbn in H. lia.
Qed.
Print Assumptions C09_before_inclusive_refuted.

(* ... which guaranteed only "not newer than t" *)
Theorem C09_before_inclusive_partial : forall tp st, Forall wf_part st -> (forall p, In p st -> Forall hull_ok (p_chunks p)) ->
  no_maxdb tp st -> tp_max tp = 0 -> tp_dry tp = false ->
  forall i p s, nth_error st i = Some p -> nth_error (fst (Truncate true tp st)) i = Some s ->
  forall c, In c (removed p s) -> forall t, In t (c_ts c) -> (t <= tp_oldest tp)%Z.
Proof. intros tp st W Hh NM Mx D i p s Hp Hs c Hc t Ht. exact (before_bound true tp st W Hh NM Mx D i p s Hp Hs c Hc t Ht). Qed.
Print Assumptions C09_before_inclusive_partial.

(* ---- BEFORE after a start without the snapshot of the time index (the start after a crash) ----
   The time range of every chunk is then what cindex.lightFill reads from its first and last record ([light_part both]:
   exchanged when the first is the newer one; both = the code [code_lightfill_swaps_both]). Full statement: on a store whose
   ranges were computed that way, BEFORE t never removes a chunk holding an event that is not older than t. *)
Definition before_blind_statement (both : bool) : Prop :=
  forall tp st, Forall wf_part (map (light_part both) st) ->
  (forall p, In p st -> Forall (fun c => ends_hold_max (c_ts c)) (p_chunks p)) ->
  no_maxdb tp (map (light_part both) st) -> tp_max tp = 0 -> tp_dry tp = false ->
  forall i p s, nth_error (map (light_part both) st) i = Some p -> nth_error (fst (Truncate code_incl tp (map (light_part both) st))) i = Some s ->
  forall c, In c (removed p s) -> forall t, In t (c_ts c) -> (t < tp_oldest tp)%Z.

(* Proved for the code, for chunks whose newest record is the first or the last one (ends_hold_max: what lightFill can see; a newest
   record in the middle of a chunk is C02's recorded finding about non-monotone data) *)
Theorem C09_before_blind : before_blind_statement code_lightfill_swaps_both.
Proof.
  intros tp st W E NM Mx D i p s Hp Hs c Hc t Ht.
  refine (C09_before tp (map (light_part true) st) W _ NM Mx D i p s Hp Hs c Hc t Ht).
  intros q Hq. apply in_map_iff in Hq as [q0 [<- Hq0]]. exact (light_part_hull_ok q0 (E q0 Hq0)).
Qed.
Print Assumptions C09_before_blind.

(* ... and false when only the lower end is corrected (MaxTs left at the last record): chunk 50,10,20,30 followed by 60,70,80,90:
   the range of the first chunk is 30..30, BEFORE 45 removes it although it holds the event 50 *)
Definition blind_wit : part := mkPart 0 true false 0 [ch 1 104 4 [50; 10; 20; 30]; ch 2 104 4 [60; 70; 80; 90]]%Z.
Theorem C09_before_blind_one_sided_refuted : ~ before_blind_statement false.
Proof.
  intros H.
  specialize (H (mkTP false 0 0 45%Z no_db) [blind_wit]).
  assert (W : Forall wf_part (map (light_part false) [blind_wit])).
  { constructor; [|constructor]. split; [cbn; lia|]. split; [vm_compute; reflexivity|]. repeat constructor; intros _; vm_compute; reflexivity. }
  assert (E : forall p, In p [blind_wit] -> Forall (fun c => ends_hold_max (c_ts c)) (p_chunks p)).
  { intros p [<-|[]]. repeat constructor; cbn; intros t Ht; lia. }
  specialize (H W E ltac:(vm_compute; discriminate) eq_refl eq_refl O (light_part false blind_wit)
                (Kept (set_chunks (light_part false blind_wit) (skipn 1 (p_chunks (light_part false blind_wit))))) eq_refl ltac:(vm_compute; reflexivity)
                (light_chunk false (ch 1 104 4 [50; 10; 20; 30]%Z)) ltac:(vm_compute; tauto) 50%Z ltac:(cbn; tauto)).
  cbn in H. lia.
Qed.
Print Assumptions C09_before_blind_one_sided_refuted.

(* without the hypothesis on the chunks the statement is false for the code as well (20,50,30: lightFill sees 20 and 30): C02's
   finding about non-monotone data, seen from TRUNCATE *)
Theorem C09_before_blind_inner_maximum_refuted :
  exists tp st i p s c t, Forall wf_part (map (light_part code_lightfill_swaps_both) st) /\ tp_max tp = 0 /\ tp_dry tp = false /\
    nth_error (map (light_part code_lightfill_swaps_both) st) i = Some p /\
    nth_error (fst (Truncate code_incl tp (map (light_part code_lightfill_swaps_both) st))) i = Some s /\
    In c (removed p s) /\ In t (c_ts c) /\ (tp_oldest tp <= t)%Z.
Proof.
  exists (mkTP false 0 0 45%Z no_db), [mkPart 0 true false 0 [ch 1 78 3 [20; 50; 30]; ch 2 104 4 [60; 70; 80; 90]]%Z], O.
  eexists. eexists. exists (light_chunk true (ch 1 78 3 [20; 50; 30]%Z)), 50%Z.
  split. { constructor; [|constructor]. split; [cbn; lia|]. split; [vm_compute; reflexivity|]. repeat constructor; intros _; vm_compute; reflexivity. }
  split; [reflexivity|]. split; [reflexivity|]. split; [reflexivity|]. split; [vm_compute; reflexivity|].
  split; [vm_compute; tauto|]. split; [cbn; tauto|]. cbn. lia.
Qed.
Print Assumptions C09_before_blind_inner_maximum_refuted.

(* ---- dropping a partition ---- *)
(* a partition is dropped only in a real run, only when no chunk with data is left and nobody else holds it
   (with C09_untouched: only if it is selected and not locked) *)
Theorem C09_drop : forall incl tp st, Forall2 (drop_ok (tp_dry tp)) st (fst (Truncate incl tp st)).
Proof. exact truncate_all_drop. Qed.
Print Assumptions C09_drop.

(* ... also with a writer appending concurrently: whatever a writer manages to append (and flush) up to the moment
   deleteJournal asks for the exclusive lock - the latest moment at which a writer can still get in - is seen by the
   emptiness test, which is made under the lock.  [visit_one_w incl tp p w]: the visitor of one partition with such a
   writer appending the chunks w; it coincides with the visitor of [Truncate] when nothing is appended. *)
Theorem C09_drop_race : forall incl tp p w p' left, fst (visit_one_w incl tp p w) = Dropped p' left ->
  p' = p /\ total_size left = 0 /\ p_readers p = O /\ tp_dry tp = false /\ p_match p = true /\ p_excl p = false /\
  exists rest, left = rest ++ w.
Proof. exact drop_race. Qed.
Print Assumptions C09_drop_race.

Theorem C09_race_keeps_data : forall incl tp p w, 0 < total_size w ->
  match fst (visit_one_w incl tp p w) with
  | Dropped _ _ => False
  | Kept q => snd (visit_one_w incl tp p w) = true -> exists rest, p_chunks q = rest ++ w
  end.
Proof. exact race_keeps_data. Qed.
Print Assumptions C09_race_keeps_data.

Theorem C09_race_is_visit : forall incl tp p, fst (visit_one_w incl tp p []) = fst (fst (visit_one incl tp p)).
Proof. exact visit_one_w_nil. Qed.
Print Assumptions C09_race_is_visit.

(* ---- DRYRUN ---- *)
Theorem C09_dryrun_unchanged : forall incl tp st, tp_dry tp = true -> fst (Truncate incl tp st) = map Kept st.
Proof. exact truncate_all_dry. Qed.
Print Assumptions C09_dryrun_unchanged.

(* DRYRUN's report lines equal the real run's in partition, sizes, chunk count and deleted flag (same store,
   nobody else holding a partition), when MAXDBSIZE is not in effect ... *)
Theorem C09_dryrun_partial : forall incl tp st, Forall wf_part st -> (forall p, In p st -> p_readers p = O) ->
  no_maxdb tp st -> tp_dry tp = false ->
  Forall2 same_report (snd (Truncate incl (dry_of tp) st)) (snd (Truncate incl tp st)).
Proof. exact dryrun_report. Qed.
Print Assumptions C09_dryrun_partial.

(* (the dry run used to report n + all chunks for a partition that lost n chunks in the first phase and was then dropped
   by MAXDBSIZE: truncateGlobally added len(cks) of the untouched list; repaired, and the model's [glob] follows) *)
Example C09_dryrun_maxdb_witness :
  Forall2 same_report (snd (Truncate code_incl (dry_of (mkTP false 0 0 25%Z 0)) [wit_part 0]))
                      (snd (Truncate code_incl (mkTP false 0 0 25%Z 0) [wit_part 0])).
Proof. vm_compute. repeat constructor. Qed.

(* ---- readers ---- *)
(* a forward reader standing at (id of chunk j, idx): if chunk j was removed (j < k) it continues at the first
   remaining event; otherwise it is delivered exactly what it would have been delivered without the truncation *)
Theorem C09_reader : forall cks, ids_increasing cks -> forall j c k idx, nth_error cks j = Some c ->
  ((j < k)%nat -> reader_next (skipn k cks) (c_id c) idx = flat (skipn k cks)) /\
  ((k <= j)%nat -> reader_next (skipn k cks) (c_id c) idx = reader_next cks (c_id c) idx).
Proof. exact reader_after_truncate. Qed.
Print Assumptions C09_reader.

(* ---- non-vacuity: the witness layout satisfies the hypotheses, and a run on it removes chunks for each reason ---- *)
Example C09_nonvacuous :
  let st := [wit_part 0; mkPart 1 false false 0 (p_chunks (wit_part 1)); mkPart 2 true false 1 []] in
  Forall wf_part st /\ NoDup (map p_key st) /\ no_maxdb (mkTP false 150 250 45%Z no_db) st /\
  map (fun s => map c_id (slot_chunks s)) (fst (Truncate code_incl (mkTP false 150 250 45%Z no_db) st)) = [[3; 4]; [1; 2; 3; 4]; []] /\
  map (fun s => map c_id (slot_chunks s)) (fst (Truncate code_incl (mkTP false 0 0 0%Z 300) st)) = [[]; [1; 2; 3; 4]; []].
Proof.
  cbn zeta. split; [repeat constructor; try (cbn; lia); try (intros _; cbn; lia); vm_compute; reflexivity|].
  split; [repeat constructor; cbn; intuition discriminate|]. split; [vm_compute; discriminate|].
  split; vm_compute; reflexivity.
Qed.
