(* C05 — WHERE filtering equals the reference meaning of the expression.
   Property theorems only; the lemmas are in proofs/Lql*P.v. The library functions of the environment
   (path.Match, strings.ToUpper/ToLower, parseLqlDateTime) are universally quantified parameters. *)
From LR Require Import lib.Base lib.GoStr model.LqlAst model.LqlLex model.LqlParse model.LqlPrint model.LqlEval.
From LR Require Import proofs.LqlParseP proofs.LqlEvalP proofs.LqlMeaningP proofs.LqlLexP proofs.LqlTextP proofs.LqlQuoteP.
From Coq Require Import Strings.String.
Local Open Scope string_scope.
Local Open Scope list_scope.

(* Meaning. For every Boolean combination b (any nesting depth) of conditions that can be written (a grammar
   operator; operand not the word NOT) and evaluated (operand ts / msg / fields:<name>, UPPER()/LOWER() nests,
   an operator the operand supports, a parseable time literal, a well-formed LIKE pattern): the text of b with
   parentheses only where precedence requires them parses, the parsed expression builds, and the closure
   computes on every event exactly the documented meaning `ref` (NOT over AND over OR; first field of that
   name, absent field = empty string). *)
Theorem C05_meaning : forall pmatch to_upper to_lower parse_time b,
  all_bconds writable_cond b = true ->
  all_bconds (evaluable_cond pmatch to_upper to_lower parse_time) b = true ->
  exists e f, parse_expr_tokens (show b) = Some e /\
              build_where pmatch to_upper to_lower parse_time (Some e) = Some (Some f) /\
              forall ev, revent_ok ev -> f (impl_event ev) = Ok (ref pmatch to_upper to_lower parse_time b ev).
Proof. exact meaning. Qed.
Print Assumptions C05_meaning.

(* The same at byte level: the printed text itself (blanks, quoting and all) goes through the lexer, the Unquote
   mapping and the parser. Additional hypotheses, all about the text: operands and word operators are ASCII
   identifier-shaped (wt_cond: [a-zA-Z_][a-zA-Z0-9_./:-]*, symbol operators as they are), and the environment's
   quoting function yields, for every value, a text that starts with a double quote, is exactly one String token
   whatever follows (quote_lex), and that participle's unquote maps back to the value (vq_cond). *)
Theorem C05_meaning_text : forall quote unq pmatch to_upper to_lower parse_time,
  (forall v, exists tl, quote v = x22 :: tl) ->
  (forall v rest, lex_one (quote v ++ rest) = Some (Some TString, List.length (quote v))) ->
  forall b,
  all_bconds writable_cond b = true -> all_bconds wt_cond b = true -> all_bconds (vq_cond quote unq) b = true ->
  all_bconds (evaluable_cond pmatch to_upper to_lower parse_time) b = true ->
  exists e f, parse_expr_text unq (show_text quote b) = Some (Some e) /\
              build_where pmatch to_upper to_lower parse_time (Some e) = Some (Some f) /\
              forall ev, revent_ok ev -> f (impl_event ev) = Ok (ref pmatch to_upper to_lower parse_time b ev).
Proof. intros quote unq pm tu tl pt Hh Hl b. exact (meaning_text quote unq Hh Hl pm tu tl pt b). Qed.
Print Assumptions C05_meaning_text.

(* The same for every expression tree the parser can hand to the builder (not only the minimal-parentheses
   ones): the closure structure OR-of-AND-of-[NOT] evaluates the tree. *)
Theorem C05_build : forall pmatch to_upper to_lower parse_time e,
  all_conds_expr (evaluable_cond pmatch to_upper to_lower parse_time) e = true ->
  exists f, build_where pmatch to_upper to_lower parse_time (Some e) = Some (Some f) /\
            forall ev, revent_ok ev -> f (impl_event ev) = Ok (ev_expr pmatch to_upper to_lower parse_time e ev).
Proof. intros pm tu tl pt e H. exact (proj1 (b_expr_ok pm tu tl pt) e H None). Qed.
Print Assumptions C05_build.

(* a missing field reads as the empty string, a repeated field as its first occurrence *)
Theorem C05_field_value : forall kvs name, kvs_ok kvs -> fields_value (enc_fields kvs) name = Ok (lookup_first kvs name).
Proof. exact fields_value_spec. Qed.
Print Assumptions C05_field_value.

(* Rejection. Full statement: an expression with a condition the server cannot evaluate (unknown operand, function
   other than UPPER/LOWER or with other than one parameter, an operator the operand does not support, an
   unparseable time literal, a LIKE pattern path.Match rejects) is refused, wherever the condition stands.
   `build` is the builder the statement is about. *)
Definition C05_reject_statement (build : option expr -> option wef)
  (pmatch : bytes -> bytes -> option bool) (to_upper to_lower : bytes -> bytes) (parse_time : bytes -> option Z) : Prop :=
  forall e, all_conds_expr (evaluable_cond pmatch to_upper to_lower parse_time) e = false -> build (Some e) = None.

(* Proved for the code (build_where = the builders at [code_like_shadow], i.e. `_, err = path.Match(..)` in the LIKE
   cases of whereeval.go; K runs exactly this function, so a return to the shadowed err breaks the correspondence
   and the oracle). *)
Theorem C05_reject : forall pmatch to_upper to_lower parse_time,
  C05_reject_statement (build_where pmatch to_upper to_lower parse_time) pmatch to_upper to_lower parse_time.
Proof. intros pm tu tl pt e H. exact (proj1 (b_expr_reject pm tu tl pt) e None H). Qed.
Print Assumptions C05_reject.

(* Both directions in one statement: the code accepts exactly the evaluable expressions, and what it accepts
   computes the tree's meaning. *)
Theorem C05_accepts_exactly_evaluable : forall pmatch to_upper to_lower parse_time e,
  if all_conds_expr (evaluable_cond pmatch to_upper to_lower parse_time) e
  then exists f, build_where pmatch to_upper to_lower parse_time (Some e) = Some (Some f) /\
                 forall ev, revent_ok ev -> f (impl_event ev) = Ok (ev_expr pmatch to_upper to_lower parse_time e ev)
  else build_where pmatch to_upper to_lower parse_time (Some e) = None.
Proof. intros pm tu tl pt e. exact (build_where_decides pm tu tl pt e). Qed.
Print Assumptions C05_accepts_exactly_evaluable.

(* msg CONTAINS "zzz" AND msg LIKE "[a" *)
Definition like_witness : expr :=
  Or1 (AndS (X false (BC (Cond (Ident (B "msg") INil) (B "CONTAINS") (B "zzz"))))
      (And1 (X false (BC (Cond (Ident (B "msg") INil) (B "LIKE") (B "[a")))))).
(* msg LIKE "[a" *)
Definition like_witness_nil : expr := Or1 (And1 (X false (BC (Cond (Ident (B "msg") INil) (B "LIKE") (B "[a"))))).

(* What the repair bought. With the shadowed err of the earlier code (variant true: `_, err := path.Match(..)`) the
   statement is false for path.Match (the malformed pattern "[a"): the expression is accepted and filters as its
   first condition alone -- the event "a zzz b" passes although no pattern was matched; with the LIKE alone the
   builder returns the nil closure, whose first call panics. *)
Theorem C05_reject_shadowed_err_refuted :
  ~ C05_reject_statement (build_where_v path_match ascii_upper ascii_lower (fun _ => None) true)
                         path_match ascii_upper ascii_lower (fun _ => None) /\
  (exists f, build_where_v path_match ascii_upper ascii_lower (fun _ => None) true (Some like_witness) = Some (Some f) /\
             f (Event 1 (B "a zzz b") []) = Ok true /\ f (Event 2 (B "abc") []) = Ok false) /\
  (exists w, build_where_v path_match ascii_upper ascii_lower (fun _ => None) true (Some like_witness_nil) = Some w /\
             call w (Event 1 (B "abc") []) = Panic).
Proof.
  split; [|split].
  - intros H. specialize (H like_witness eq_refl). vm_compute in H. discriminate H.
  - eexists. split; [reflexivity|]. split; vm_compute; reflexivity.
  - eexists. split; [reflexivity|]. vm_compute. reflexivity.
Qed.
Print Assumptions C05_reject_shadowed_err_refuted.

(* Filtering. What a reader of fiterator gets by Get/Next until EOF is the sub-list of the input events that the
   closure and the time range accept: same events, same order, none altered, duplicated or dropped. *)
Theorem C05_filter : forall f lo hi l, total_on f l ->
  fit_drain (S (List.length l)) f lo hi l = Ok (filter (accepts f lo hi) l).
Proof. intros f lo hi l T. apply fit_drain_filter; [apply Nat.lt_succ_diag_r | exact T]. Qed.
Print Assumptions C05_filter.

(* End to end: a SELECT with WHERE e and without RANGE returns exactly those events of the unfiltered result (the list
   the wrapped iterator yields) for which e is true, whatever their (int64) timestamps are. The query is the drain of the
   filter iterator on the DEFAULT range of newFIterator, [model.MinTimestamp, model.MaxTimestamp]; `v` says which
   model.MinTimestamp (true = math.MinInt64, false = the earlier time.Time{}.UnixNano() = -6795364578871345152). *)
Definition C05_query_statement (v : bool) : Prop :=
  forall f l, total_on f l -> Forall int64_ts l -> fit_query_v v f l = Ok (filter (holds f) l).

(* Proved for the code (fit_query = fit_query_v code_min_ts_is_min_int64 is what K runs; tmrange.go: MinTimestamp =
   math.MinInt64): negative timestamps, the least and the greatest int64 included. *)
Theorem C05_query : C05_query_statement code_min_ts_is_min_int64.
Proof. intros f l T R. exact (fit_query_int64 f l T R). Qed.
Print Assumptions C05_query.

(* What the repair bought: with the earlier constant an event dated one nanosecond before it (an int64) is in the
   unfiltered result and satisfies the (always true) expression, and the query drops it. *)
Theorem C05_query_zero_time_min_refuted : ~ C05_query_statement false.
Proof.
  intros H. specialize (H (fun _ => Ok true) [Event (zero_time_unix_nano - 1) (B "a") []]).
  assert (T : total_on (fun _ : event => Ok true) [Event (zero_time_unix_nano - 1) (B "a") []]) by (intros ev _; exists true; reflexivity).
  assert (R : Forall int64_ts [Event (zero_time_unix_nano - 1) (B "a") []]) by (repeat constructor; vm_compute; discriminate).
  specialize (H T R). vm_compute in H. discriminate H.
Qed.
Print Assumptions C05_query_zero_time_min_refuted.

(* whichever constant: on events inside the default range the query is the filter *)
Theorem C05_query_in_range : forall v f l, total_on f l -> Forall (in_range_v v) l ->
  fit_query_v v f l = Ok (filter (holds f) l).
Proof. exact fit_query_v_filter. Qed.
Print Assumptions C05_query_in_range.

(* ---- non-vacuity ---- *)
Definition cnd (operand op v : string) : bexp := BCond (Cond (Ident (B operand) INil) (B op) (B v)).
Definition ucnd (f operand op v : string) : bexp :=
  BCond (Cond (Ident (B f) (ICons (Ident (B operand) INil) INil)) (B op) (B v)).
(* NOT (ts < 10 OR msg CONTAINS "b") AND UPPER(fields:a) = "X" OR fields:zz LIKE "a*" *)
Definition sample : bexp :=
  BOr (BAnd (BNot (BOr (cnd "ts" "<" "10") (cnd "msg" "CONTAINS" "b"))) (ucnd "UPPER" "fields:a" "=" "X"))
      (cnd "fields:zz" "LIKE" "a*").
Definition sample_time (s : bytes) : option Z := if bytes_eqb s (B "10") then Some 10%Z else None.

Example sample_hyps :
  all_bconds writable_cond sample = true /\
  all_bconds (evaluable_cond path_match ascii_upper ascii_lower sample_time) sample = true.
Proof. split; vm_compute; reflexivity. Qed.

(* precedence really is minimal-parentheses: only the negated OR is parenthesised *)
Example sample_show : map t_val (show sample) =
  map B ["NOT"; "("; "ts"; "<"; "10"; "OR"; "msg"; "CONTAINS"; "b"; ")"; "AND"; "UPPER"; "("; "fields:a"; ")"; "="; "X";
         "OR"; "fields:zz"; "LIKE"; "a*"].
Proof. vm_compute. reflexivity. Qed.

Example sample_ref :
  let ev := REvent 11 (B "ccc") [(B "a", B "x"); (B "a", B "y")] in
  revent_ok ev /\ ref path_match ascii_upper ascii_lower sample_time sample ev = true /\
  ref path_match ascii_upper ascii_lower sample_time sample (REvent 5 (B "ccc") [(B "a", B "x")]) = false.
Proof. cbn zeta. split; [repeat constructor; cbn; lia|]. split; vm_compute; reflexivity. Qed.

(* the hypotheses about the quoting function are satisfiable: writing every byte as \xHH is such a function, and with
   participle's unquote (lib/GoStr.v) the sample's values come back; the byte-level theorem then applies to `sample` *)
Example quote_hyps_satisfiable :
  (forall v, exists tl, qx v = x22 :: tl) /\
  (forall v rest, lex_one (qx v ++ rest) = Some (Some TString, List.length (qx v))) /\
  all_bconds wt_cond sample = true /\ all_bconds (vq_cond qx go_unquote) sample = true.
Proof. split; [exact qx_head|]. split; [exact qx_lex|]. split; vm_compute; reflexivity. Qed.

(* the two witnesses on the code: refused *)
Example like_witnesses_refused :
  build_where path_match ascii_upper ascii_lower (fun _ => None) (Some like_witness) = None /\
  build_where path_match ascii_upper ascii_lower (fun _ => None) (Some like_witness_nil) = None.
Proof. split; vm_compute; reflexivity. Qed.

(* events at the least int64, before 1970, at 0 and at the greatest int64 satisfy the hypothesis of C05_query, and the query
   keeps those on which the closure is true *)
Example query_range_sample :
  let l := [Event min_int64 (B "a") []; Event (zero_time_unix_nano - 1) (B "a") []; Event (-1) (B "b") []; Event 0 (B "a") []; Event default_max_ts (B "a") []] in
  let f := fun ev : event => Ok (bytes_eqb (ev_msg ev) (B "a")) in
  Forall int64_ts l /\
  fit_query f l = Ok [Event min_int64 (B "a") []; Event (zero_time_unix_nano - 1) (B "a") []; Event 0 (B "a") []; Event default_max_ts (B "a") []].
Proof. cbn zeta. split; [repeat constructor; vm_compute; discriminate|vm_compute; reflexivity]. Qed.

Example sample_text_parses :
  parse_expr_text go_unquote (show_text qx sample) = Some (Some (to_expr sample)).
Proof. vm_compute. reflexivity. Qed.
