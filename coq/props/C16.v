(* C16 — Backward navigation and offsets are consistent with forward order.
   Property theorems only; closed by lemmas of proofs/IterP.v (journal iterator across chunk edges, both directions,
   direction switches), proofs/MixerP.v and proofs/OffsetP.v (cursor with filter as a list cursor, Offset, page). *)
From LR Require Import lib.Base model.Iter model.Mixer model.Offset proofs.MixerP proofs.IterP proofs.OffsetP lib.CursorK proofs.OffsetStoreP.
From LR Require Import gen.Consts.
Open Scope Z_scope.

(* ---- one partition, any chunk layout, any WHERE filter (no RANGE): POSITION tail OFFSET -k then a forward read
   returns exactly the last k events of the forward read (all of it if shorter), for every k and every page limit.
   `all` is what POSITION head reads with the same filter. The journal is read through the range iterator with the
   exact chunk-iterator position rules; wf_journal: chunk ids increasing, no empty chunk. *)
Theorem C16_tail : forall (g : nat) (j : journal) (f : option flt) (k limit fuel : nat),
  wf_journal j -> (length (flat j) < fuel)%nat ->
  exists chead ctail c1 ps1 c2 ps2 all,
    new_cursor [(g, LR j (jit_at 0 0))] f PHead = Some chead /\
    new_cursor [(g, LR j (jit_at 0 0))] f PTail = Some ctail /\
    query fuel chead 0 (length (flat j)) = Some (c1, all, ps1) /\
    query fuel ctail (- Z.of_nat k) limit = Some (c2, firstn limit (lastn k all), ps2).
Proof.
  intros g j f k limit fuel W Hf.
  destruct (tail_single g j f W fuel k limit Hf) as (c2 & ps2 & E2).
  assert (Inv0 : lr_inv j (jit_at 0 0)) by (split; [exact W|cbn; unfold MaxU64, MaxU32; lia]).
  pose proof (single_cinv g j f false (jit_at 0 0) None 1 Inv0 eq_refl) as I0.
  rewrite (lr_pos_head j W), rest_at_fwd_neg in I0 by lia.
  destruct (query_positive leaf_rest (leaf_ok false) false f sett_l (leaf_get_spec false) (leaf_next_spec false) (sett_l_get false)
              _ _ fuel 0 (length (flat j)) I0) as (c1 & ps1 & E1); [unfold itm; rewrite map_length; exact Hf|].
  cbn [skipn Z.of_nat] in E1.
  exists (mkCur (MLeaf g (LR j (jit_at 0 0))) f None false 1), (mkCur (MLeaf g (LR j (mkJit MaxU64 MaxU32 None false))) f None false 1).
  exists c1, ps1, c2, ps2, (filter (acc f) (itm g (flat j))).
  split; [reflexivity|]. split; [reflexivity|]. split; [|exact E2].
  rewrite E1. do 2 f_equal. f_equal. apply firstn_all2.
  etransitivity; [apply filter_length_le|]. unfold itm. rewrite map_length. lia.
Qed.
Print Assumptions C16_tail.

(* ---- positive offsets, merged reads included: for 1..50 sources (journals through the range iterator or in-memory
   sources, any order, ties, unsorted) with any WHERE filter, POSITION head OFFSET k returns the forward read of the
   same cursor without its first k events ("skip the first k matching events"), for every k and every page limit.
   (crsr.Offset settles on the current event with a Get before it steps.) *)
Theorem C16_head : forall (srcs : list (nat * leaf)) (f : option flt) (k limit fuel : nat),
  srcs <> [] -> (length srcs <= merge_limit)%nat -> Forall (fun s => fresh_leaf (snd s)) srcs ->
  exists c, new_cursor srcs f PHead = Some c /\
    let L := content leaf_rest false (cu_tree c) in
    ((length L < fuel)%nat ->
     exists c1 ps1 c2 ps2 all,
       query fuel c 0 (length L) = Some (c1, all, ps1) /\
       query fuel c (Z.of_nat k) limit = Some (c2, firstn limit (skipn k all), ps2)).
Proof.
  intros srcs f k limit fuel N Hl F.
  destruct (new_cursor_cinv srcs f PHead N Hl F I) as (c & E & _ & Inv & _). exists c. split; [exact E|]. cbv zeta. intros Hf.
  destruct (query_positive leaf_rest (leaf_ok false) false f sett_l (leaf_get_spec false) (leaf_next_spec false) (sett_l_get false)
              c _ fuel 0 (length (content leaf_rest false (cu_tree c))) Inv Hf) as (c1 & ps1 & E1).
  destruct (query_positive leaf_rest (leaf_ok false) false f sett_l (leaf_get_spec false) (leaf_next_spec false) (sett_l_get false)
              c _ fuel k limit Inv Hf) as (c2 & ps2 & E2).
  exists c1, ps1, c2, ps2, (filter (acc f) (content leaf_rest false (cu_tree c))). split; [|exact E2].
  cbn [Z.of_nat skipn] in E1. rewrite E1. do 2 f_equal. f_equal. apply firstn_all2. apply filter_length_le.
Qed.
Print Assumptions C16_head.

(* ---- one partition, any chunk layout, any WHERE filter: from any position reached by Offset(+i) where a Get returned e0,
   moving by +k and, when that stayed inside the data (a Get there returned some e1), by -k leads back to the same
   next event: the next Get returns e0. These are the cursor operations the request handler performs (crsr.Offset, Get). *)
Theorem C16_inverse : forall (g : nat) (j : journal) (f : option flt) (fuel i k : nat) ca cb cc cd e0 e1,
  wf_journal j -> (length (flat j) < fuel)%nat -> (1 <= k)%nat ->
  exists c0, new_cursor [(g, LR j (jit_at 0 0))] f PHead = Some c0 /\
    (cu_offset fuel (Z.of_nat i) c0 = Some ca -> cu_get fuel ca = Some (cb, Some e0) ->
     cu_offset fuel (Z.of_nat k) cb = Some cc -> cu_get fuel cc = Some (cd, Some e1) ->
     exists ce cf, cu_offset fuel (- Z.of_nat k) cd = Some ce /\ cu_get fuel ce = Some (cf, Some e0)).
Proof.
  intros g j f fuel i k ca cb cc cd e0 e1 W Hf Hk. eexists. split; [reflexivity|].
  exact (inverse_script g j f W fuel i k ca cb cc cd e0 e1 Hf Hk).
Qed.
Print Assumptions C16_inverse.

(* ---- the statements over whole stores (any number of partitions, with or without RANGE), what is left of their
   refutations, and what the repairs of the cursor bought *)
(* read = what the checker's model_query (lib/CursorK.v) returns for the request, with a page limit that never cuts the
   answer (fuel_of exceeds the number of stored events); None: refused (more than 50 partitions) or no answer *)
Definition read (srcs : list srcspec) (f : option flt) (p : posspec) (offs : Z) : option (list item) := store_read srcs f p offs.
(* the same read with the cursor's variant flags explicit (model/Offset.v: settle = Offset starts with a settling Get,
   drop = fiterator.SetBackward drops its buffer); the code is (true, true) *)
Definition read_v (settle drop : bool) (srcs : list srcspec) (f : option flt) (p : posspec) (offs : Z) : option (list item) :=
  match new_cursor (map src_leaf srcs) f p with
  | None => None
  | Some c => match query_v settle drop (fuel_of srcs) c offs (fuel_of srcs) with Some (_, xs, _) => Some xs | None => None end
  end.
Definition srcs_ok (srcs : list srcspec) : Prop :=
  srcs <> [] /\ Forall (fun s => match s with SJrn _ _ chunks => wf_journal (mk_journal chunks) | SMem _ _ => True end) srcs.

Definition tail_statement (rd : list srcspec -> option flt -> posspec -> Z -> option (list item)) : Prop := forall srcs f (k : nat),
  srcs_ok srcs -> rd srcs f PTail (- Z.of_nat k) = option_map (lastn k) (rd srcs f PHead 0).
Definition head_statement (rd : list srcspec -> option flt -> posspec -> Z -> option (list item)) : Prop := forall srcs f (k : nat),
  srcs_ok srcs -> rd srcs f PHead (Z.of_nat k) = option_map (skipn k) (rd srcs f PHead 0).
Definition C16_tail_statement : Prop := tail_statement read.
Definition C16_head_statement : Prop := head_statement read.

(* `read` is the code's variant *)
Theorem C16_read_is_code : forall srcs f p offs, read srcs f p offs = read_v code_settles_offset code_drops_buffer srcs f p offs.
Proof.
  intros srcs f p offs. unfold read, store_read, read_v, model_query. destruct (new_cursor (map src_leaf srcs) f p) as [c|]; [|reflexivity].
  change (query (fuel_of srcs) c offs (fuel_of srcs)) with (query_v code_settles_offset code_drops_buffer (fuel_of srcs) c offs (fuel_of srcs)).
  destruct (query_v code_settles_offset code_drops_buffer (fuel_of srcs) c offs (fuel_of srcs)) as [[[c1 xs] ps]|]; reflexivity.
Qed.
Print Assumptions C16_read_is_code.

(* proved at this level: the head statement for every store read without RANGE (any number of partitions, in-memory or
   stored, any WHERE filter, any k; plain_src: no RANGE, journals with increasing chunk ids and no empty chunk) ... *)
Theorem C16_head_partial : forall srcs f (k : nat), srcs <> [] -> Forall plain_src srcs ->
  read srcs f PHead (Z.of_nat k) = option_map (skipn k) (read srcs f PHead 0).
Proof. exact head_store. Qed.
Print Assumptions C16_head_partial.

(* ... and the tail statement for one stored partition read without RANGE (any chunk layout, any WHERE filter, any k) *)
Theorem C16_tail_partial : forall (g : nat) chunks f (k : nat), wf_journal (mk_journal chunks) ->
  read [SJrn g false chunks] f PTail (- Z.of_nat k) = option_map (lastn k) (read [SJrn g false chunks] f PHead 0).
Proof. exact tail_store. Qed.
Print Assumptions C16_tail_partial.

Definition wit_a : list (Z * list ev * (Z * Z)) := [(100, [(1, 1%nat); (2, 2%nat)], (0, MaxU32)); (110, [(3, 3%nat)], (0, MaxU32))].
Definition wit_b : list (Z * list ev * (Z * Z)) := [(200, [(10, 10%nat)], (0, MaxU32)); (210, [(11, 11%nat); (12, 12%nat)], (0, MaxU32))].
Lemma wit_ok r : srcs_ok [SJrn 0 r wit_a; SJrn 1 r wit_b].
Proof. split; [discriminate|]. repeat constructor; cbn; unfold chunk_ok, c_cnt, MaxU64, MaxU32; cbn; lia. Qed.
Definition wit_all : list item := [((1, 1%nat), 0%nat); ((2, 2%nat), 0%nat); ((3, 3%nat), 0%nat); ((10, 10%nat), 1%nat); ((11, 11%nat), 1%nat); ((12, 12%nat), 1%nat)].

(* still refuted in general -- merged read of a partition that is not stored in time order: a = [5,1], b = [3]: forward
   [3,5,1], tail -1 gives [3] (the backward mix of an unsorted source is not the reverse of the forward mix) *)
Theorem C16_tail_merged_unsorted_refuted : ~ C16_tail_statement.
Proof.
  intros H.
  specialize (H [SJrn 0 false [(100, [(5, 1%nat); (1, 2%nat)], (0, MaxU32))]; SJrn 1 false [(200, [(3, 101%nat)], (0, MaxU32))]] None 1%nat).
  assert (Ok : srcs_ok [SJrn 0 false [(100, [(5, 1%nat); (1, 2%nat)], (0, MaxU32))]; SJrn 1 false [(200, [(3, 101%nat)], (0, MaxU32))]]).
  { split; [discriminate|]. repeat constructor; cbn; unfold chunk_ok, c_cnt, MaxU64, MaxU32; cbn; lia. }
  specialize (H Ok). vm_compute in H. discriminate H.
Qed.
Print Assumptions C16_tail_merged_unsorted_refuted.

(* the variant before the repair of fiterator.SetBackward (the buffer survives the switch): merged read with a WHERE filter
   (accepting everything) over a = [1,2 | 3], b = [10 | 11,12]: tail -4 returns nothing instead of [3,10,11,12]
   (iterateToPos steps over the target) *)
Theorem C16_tail_merged_filter_kept_buffer_refuted : ~ tail_statement (read_v code_settles_offset false).
Proof.
  intros H. specialize (H [SJrn 0 false wit_a; SJrn 1 false wit_b] (Some (mkFlt None MinTimestamp MaxTimestamp)) 4%nat (wit_ok false)).
  vm_compute in H. discriminate H.
Qed.
Print Assumptions C16_tail_merged_filter_kept_buffer_refuted.

(* the variant before the repair of crsr.Offset (no settling Get): one partition [1,2,3] with a WHERE filter rejecting the
   first event: head +1 returns [2,3] instead of [3] *)
Theorem C16_head_unsettled_refuted : ~ head_statement (read_v false code_drops_buffer).
Proof.
  intros H.
  assert (Ok : srcs_ok [SJrn 0 false [(100, [(1, 1%nat); (2, 2%nat); (3, 3%nat)], (0, MaxU32))]]).
  { split; [discriminate|]. repeat constructor; cbn; unfold chunk_ok, c_cnt, MaxU64, MaxU32; cbn; lia. }
  specialize (H _ (Some (mkFlt (Some [2%nat; 3%nat]) MinTimestamp MaxTimestamp)) 1%nat Ok). vm_compute in H. discriminate H.
Qed.
Print Assumptions C16_head_unsettled_refuted.

(* the former witnesses on the code as it is: the merged reads with WHERE and with RANGE (partition iterator; windows cover
   everything) return the last k events for every k up to past the first event (k = 7 > 6 events: the backward walk runs
   every partition out of records and ends), and the filtered head +1 skips one matching event *)
Theorem C16_former_witnesses : forall k : nat, (k <= 7)%nat ->
  read [SJrn 0 false wit_a; SJrn 1 false wit_b] (Some (mkFlt None MinTimestamp MaxTimestamp)) PTail (- Z.of_nat k) = Some (lastn k wit_all) /\
  read [SJrn 0 true wit_a; SJrn 1 true wit_b] (Some (mkFlt None 0 100)) PTail (- Z.of_nat k) = Some (lastn k wit_all) /\
  read [SJrn 0 true wit_a; SJrn 1 true wit_b] (Some (mkFlt (Some [2; 3; 11]%nat) 0 100)) PTail (- Z.of_nat k) = Some (lastn k (filter (fun x => existsb (Nat.eqb (snd (fst x))) [2; 3; 11]%nat) wit_all)) /\
  read [SJrn 0 false [(100, [(1, 1%nat); (2, 2%nat); (3, 3%nat)], (0, MaxU32))]] (Some (mkFlt (Some [2%nat; 3%nat]) MinTimestamp MaxTimestamp)) PHead 1 = Some [((3, 3%nat), 0%nat)].
Proof.
  intros k Hk. do 8 (destruct k as [|k]; [vm_compute; repeat split|]). lia.
Qed.
Print Assumptions C16_former_witnesses.

(* ---- the position an answer carries. Statement: the positions returned by a request that delivered nothing (page limit 0:
   the client only moves the cursor) denote the event the cursor stands on: a request from them reads what the first
   request would have read with a page. Refuted without RANGE: the journal iterator of the dependency does not update its
   position when a backward Get pulled the chunk iterator from "end of the chunk" onto the chunk's last record (only Next
   does): one partition [1,2,3], `tail OFFSET -1 LIMIT 0` returns the position (chunk, 3) = the end, and the request from there
   reads nothing instead of [3]. With RANGE (/repo's own iterator) the position is (chunk, 2). *)
Definition C16_position_statement : Prop := forall srcs f p offs,
  srcs_ok srcs ->
  match model_query srcs f p offs 0 with
  | QOk _ ps => read srcs f (PAt ps) 0 = read srcs f p offs
  | _ => True
  end.

Theorem C16_position_after_backward_refuted : ~ C16_position_statement.
Proof.
  intros H.
  assert (Ok : srcs_ok [SJrn 0 false [(100, [(1, 1%nat); (2, 2%nat); (3, 3%nat)], (0, MaxU32))]]).
  { split; [discriminate|]. repeat constructor; cbn; unfold chunk_ok, c_cnt, MaxU64, MaxU32; cbn; lia. }
  specialize (H _ None PTail (-1) Ok). vm_compute in H. discriminate H.
Qed.
Print Assumptions C16_position_after_backward_refuted.

Example C16_position_ranged :
  let srcs := [SJrn 0 true [(100, [(1, 1%nat); (2, 2%nat); (3, 3%nat)], (0, MaxU32))]] in
  let f := Some (mkFlt None 0 100) in
  model_query srcs f PTail (-1) 0 = QOk [] [(0%nat, (100, 2))] /\ read srcs f (PAt [(0%nat, (100, 2))]) 0 = read srcs f PTail (-1).
Proof. vm_compute. split; reflexivity. Qed.

(* non-vacuity: a three-chunk journal with a filter; tail -2 in the model gives the last two accepted events *)
Example C16_nonvacuous :
  let chunks := [(100, [(1, 1%nat); (2, 2%nat)], (0, MaxU32)); (110, [(3, 3%nat)], (0, MaxU32)); (125, [(4, 4%nat); (5, 5%nat); (6, 6%nat)], (0, MaxU32))] in
  wf_journal (mk_journal chunks) /\
  read [SJrn 0 false chunks] (Some (mkFlt (Some [2; 3; 5]%nat) MinTimestamp MaxTimestamp)) PTail (-2) = Some [((3, 3%nat), 0%nat); ((5, 5%nat), 0%nat)].
Proof. cbv zeta. split; [repeat constructor; cbn; unfold chunk_ok, c_cnt, MaxU64, MaxU32; cbn; lia|vm_compute; reflexivity]. Qed.

(* the merge limit of the model is the limit newCursor passes to GetJournals now (coq/gen/Consts.v) *)
Example C16_constants : merge_limit = go_cursorMaxSources /\ MinTimestamp = go_MinTimestamp /\ MaxTimestamp = go_MaxTimestamp.
Proof. repeat split; reflexivity. Qed.
