(* C16 — Backward navigation and offsets are consistent with forward order. *)
From LR Require Import lib.Base model.Iter model.Mixer model.Offset lib.CursorK.
Open Scope Z_scope.

Definition lastn {A} (k : nat) (l : list A) : list A := skipn (length l - k) l.

(* a read: cursor over the sources at position p, Offset offs, then everything *)
Definition read (srcs : list srcspec) (f : option flt) (p : posspec) (offs : Z) : option (list item) :=
  match model_query srcs f p offs 100000 with QOk xs _ => Some xs | _ => None end.

Definition C16_tail_statement : Prop := forall srcs f (k : nat),
  srcs <> [] -> read srcs f PTail (- Z.of_nat k) = option_map (lastn k) (read srcs f PHead 0).

(* two partitions a = [1,2 | 3], b = [10 | 11,12], WHERE accepting everything: tail -4 returns nothing *)
Theorem C16_tail_merged_filter_refuted : exists srcs f k,
  srcs <> [] /\ read srcs f PTail (- Z.of_nat k) <> option_map (lastn k) (read srcs f PHead 0).
Proof.
  exists [SJrn 0 false [(100, [(1, 1%nat); (2, 2%nat)], (0, MaxU32)); (110, [(3, 3%nat)], (0, MaxU32))];
          SJrn 1 false [(200, [(10, 10%nat)], (0, MaxU32)); (210, [(11, 11%nat); (12, 12%nat)], (0, MaxU32))]],
         (Some (mkFlt None MinTimestamp MaxTimestamp)), 4%nat.
  split; [discriminate|]. vm_compute. discriminate.
Qed.
Print Assumptions C16_tail_merged_filter_refuted.
