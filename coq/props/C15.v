(* C15 -- placeholder while the proofs are being written *)
From LR Require Import lib.Base model.CList model.Provider.

Theorem C15_placeholder : True.
Proof. exact I. Qed.
Print Assumptions C15_placeholder.
