(* C15 -- Server-side query cursors: one user at a time, resources released exactly once.
   Property theorems only. The model is model/Provider.v (cursor.Provider over the pointer ring of
   model/CList.v); histories are lists of atomic steps of concurrent requests (actors), the
   sweeper and the clock, so "for all histories and schedules" is "for all `ops : list op`".
   The step function takes the `variant` of provider.go: `code_variant` is the code as it is,
   `old_variant` the code before the repairs C15-sameid-race (GetOrCreate's insert region and
   Release identify a cache entry by id AND cursor), C15-shutdown-close (Shutdown evicts the
   cache) and C03-stale-peek-on-retried-page (GetOrCreate drops a cached idle cursor that stands at another
   position than the requested one instead of re-positioning it). Every full statement is a Definition over the variant, proved for `code_variant` with no
   hypothesis on the clients (any number of concurrent requests may name the same id), and
   refuted for `old_variant` by the witness that the harness corpus still replays on the
   implementation. K runs `step code_variant`. *)
From LR Require Import lib.Base model.CList model.Provider model.Querier proofs.CListP proofs.ProviderP proofs.QuerierP.

Definition final (v : variant) (max : nat) (idle busyto : Z) (ops : list op) : prov := fst (fst (run v (init max idle busyto) ops)).
Definition outcome_of (v : variant) (max : nat) (idle busyto : Z) (ops : list op) : outcome unit := snd (run v (init max idle busyto) ops).
Definition results_of (v : variant) (max : nat) (idle busyto : Z) (ops : list op) : list res := snd (fst (run v (init max idle busyto) ops)).


(* ------------------------------------------------------------------ the ring refines a list *)
(* TearOff of a member: the ring now stands for the list without it, the element is detached, nothing else is written *)
Theorem C15_ring_tearoff : forall h hd l e, ring h (Some hd) l -> In e l ->
  exists h' p', cl_tearoff h (Some hd) (Some e) = (h', p') /\
    ring h' p' (remove Nat.eq_dec e l) /\ self_linked h' e /\ (forall x, ~ In x l -> h' x = h x).
Proof. exact tearoff_spec. Qed.
Print Assumptions C15_ring_tearoff.

(* Append of a detached element in front of a ring (e.Append(head)): cons *)
Theorem C15_ring_append : forall h p l e, self_linked h e -> ring h p l -> ~ In e l ->
  exists h', cl_append h (Some e) p = (h', Some e) /\ ring h' (Some e) (e :: l) /\
    (forall x, x <> e -> ~ In x l -> h' x = h x).
Proof. exact append_spec. Qed.
Print Assumptions C15_ring_append.

(* following next from the head reads the list back; Len is its length; Prev and Next (sic) of a member stay inside *)
Theorem C15_ring_reads : forall h p l n, ring h p l -> length l <= n ->
  cl_to_list n h p = l /\ cl_len n h p = Some (length l) /\
  (forall hd e, p = Some hd -> In e l -> In (cl_prev_of h e) l /\ In (cl_next_of h e) l).
Proof.
  intros h p l n R Hn. split; [exact (ring_to_list h p l n R Hn)|]. split; [exact (ring_len h p l n R Hn)|].
  intros hd e -> I. split; exact (proj1 (ring_prev_in h hd l e R I)).
Qed.
Print Assumptions C15_ring_reads.

(* ------------------------------------------------------------------ no panic *)
(* no step of any history panics (Release's explicit panic, the nil dereferences in both sweeps) or runs out of
   fuel: every step yields a result *)
Definition no_panic_statement (v : variant) : Prop :=
  forall max idle busyto ops,
    outcome_of v max idle busyto ops = Ok tt /\ length (results_of v max idle busyto ops) = length ops.

Theorem C15_no_panic : no_panic_statement code_variant.
Proof.
  intros max idle busyto ops.
  destruct (inv_run false ops _ (inv_init false max idle busyto)) as (H1 & _ & H3); [intros H; discriminate H|].
  split; assumption.
Qed.
Print Assumptions C15_no_panic.

Definition race_ops : list op :=
  [OLookup 0 5 true 0 (QParts [0%N]) PHead 100; OLookup 1 5 true 0 (QParts [0%N]) PHead 101;
   OCreate 0; OInsert 0; OCreate 1; OInsert 1].

(* before the repair: two requests name the same uncached id, both miss before either inserts: the second's Release panics *)
Theorem C15_no_panic_idonly_refuted : ~ no_panic_statement old_variant.
Proof.
  intros H. destruct (H 10 3%Z 7%Z (race_ops ++ [ORelease 0; ORelease 1])) as [H1 _]. vm_compute in H1. discriminate H1.
Qed.
Print Assumptions C15_no_panic_idonly_refuted.

(* before the repair, without a race window: a request outlives busyTo, the client retries with the same id, the late
   Release of the first marks the second's holder idle, the second's Release panics *)
Theorem C15_no_panic_idonly_busy_expiry_refuted : ~ no_panic_statement old_variant.
Proof.
  intros H. destruct (H 10 3%Z 7%Z
    [OLookup 0 5 true 0 (QParts [0%N]) PHead 100; OCreate 0; OInsert 0; OTick 8; OSweepTime;
     OLookup 1 5 true 0 (QParts [0%N]) PHead 101; OCreate 1; OInsert 1; ORelease 0; ORelease 1]) as [H1 _].
  vm_compute in H1. discriminate H1.
Qed.
Print Assumptions C15_no_panic_idonly_busy_expiry_refuted.

(* the repaired code on the same history: the second insert is refused (its cursor closed on the spot), the first
   request goes on alone; afterwards nothing is left *)
Example C15_race_refused :
  let ops := race_ops ++ [ORelease 0; OTick 20; OSweepTime] in
  nth 5 (results_of code_variant 10 3 7 ops) RNone = RInsRefused /\
  nth 6 (results_of code_variant 10 3 7 ops) RNone = RReleased 5 (PAt 0) /\
  outcome_of code_variant 10 3 7 ops = Ok tt /\
  let s := final code_variant 10 3 7 ops in
  p_curs s = [] /\ p_act s = [] /\ map (fun c => c_rels (p_cur s c)) (seq 0 (p_ncur s)) = [1; 1] /\ p_acq s 0%N = 0%Z.
Proof. vm_compute. repeat split; reflexivity. Qed.

(* ------------------------------------------------------------------ one user at a time *)
Definition exclusive_statement (v : variant) : Prop :=
  forall max idle busyto ops r r' c,
    act_get (p_act (final v max idle busyto ops)) r = AHold c ->
    act_get (p_act (final v max idle busyto ops)) r' = AHold c -> r = r'.

Theorem C15_exclusive : exclusive_statement code_variant.
Proof.
  intros max idle busyto ops r r' c H H'. apply (inv_exclusive false _ (inv_reach max idle busyto ops) r r' c); left; assumption.
Qed.
Print Assumptions C15_exclusive.

(* before the repair: after the race the first Release marks the second request's holder idle: a third request is handed
   the cursor the second request is still reading from *)
Theorem C15_exclusive_idonly_refuted : ~ exclusive_statement old_variant.
Proof.
  intros H.
  specialize (H 10 3%Z 7%Z (race_ops ++ [ORelease 0; OLookup 2 5 true 0 (QParts [0%N]) (PAt 0) 102]) 1 2 1).
  vm_compute in H. specialize (H eq_refl eq_refl). discriminate H.
Qed.
Print Assumptions C15_exclusive_idonly_refuted.

(* in every state: a request for an id whose cached cursor is marked busy is refused and changes nothing;
   a cursor is handed out of the cache only if it was marked idle *)
Theorem C15_refuse_busy : forall drop s r id cache q qr p fresh e,
  act_get (p_act s) r = AIdle -> id <> 0%N -> map_get (p_curs s) id = Some e -> h_busy (p_vals s e) = true ->
  get_lookup drop s r id cache q qr p fresh = Ok (s, RRefused).
Proof. exact refuse_busy. Qed.
Print Assumptions C15_refuse_busy.

Theorem C15_hit_only_idle : forall drop s r id cache q qr p fresh s' c,
  get_lookup drop s r id cache q qr p fresh = Ok (s', RHit c) ->
  exists e, map_get (p_curs s) id = Some e /\ h_busy (p_vals s e) = false /\ h_cur (p_vals s e) = Some c.
Proof. exact hit_only_idle. Qed.
Print Assumptions C15_hit_only_idle.

(* for every history and schedule: no cursor is ever in the hands of two requests (created or handed out), a cursor in
   use is open, and a cache entry that carries it is the entry of its id and is marked busy (so every further request
   for the id is refused, by C15_refuse_busy, until it is released) *)
Theorem C15_exclusive_in_cache : forall max idle busyto ops,
  let s := final code_variant max idle busyto ops in
  (forall r r' c, (act_get (p_act s) r = AHold c \/ act_get (p_act s) r = ACreated c) ->
                  (act_get (p_act s) r' = AHold c \/ act_get (p_act s) r' = ACreated c) -> r = r') /\
  (forall r c, act_get (p_act s) r = AHold c -> c < p_ncur s /\ c_live (p_cur s c) = true) /\
  (forall r c k e, act_get (p_act s) r = AHold c -> map_get (p_curs s) k = Some e -> h_cur (p_vals s e) = Some c ->
                   h_busy (p_vals s e) = true /\ k = c_id (p_cur s c)).
Proof.
  intros max idle busyto ops s. pose proof (inv_reach max idle busyto ops) as HI. fold s in HI.
  split; [exact (inv_exclusive false s HI)|]. split.
  - intros r c H. destruct HI as (lb & lf & HL). pose proof HL as (_ & _ & (A1 & _) & _). apply (A1 r c). right. exact H.
  - intros r c k e H Hm Hc. apply (inv_held_busy false s HI r c k e (or_intror H) Hm Hc).
Qed.
Print Assumptions C15_exclusive_in_cache.

(* ------------------------------------------------------------------ released exactly once *)
(* a cursor's partitions are released at most once, and exactly once when nothing refers to it any more *)
Definition once_statement (v : variant) : Prop :=
  forall max idle busyto ops, let s := final v max idle busyto ops in
  forall c, c < p_ncur s -> c_rels (p_cur s c) <= 1 /\ (~ reachable s c -> c_rels (p_cur s c) = 1).

Theorem C15_once : once_statement code_variant.
Proof.
  intros max idle busyto ops s c Hc. pose proof (inv_reach max idle busyto ops) as HI. fold s in HI.
  destruct (inv_once false s HI c Hc) as [H1 H2]. split; [|intros H; apply (H2 H)].
  destruct (Jc_run code_variant ops _ (Jc_init max idle busyto) c) as [_ J]. exact J.
Qed.
Print Assumptions C15_once.

(* "at most once" does not depend on the repairs: it holds for every history and schedule of either variant *)
Theorem C15_release_at_most_once : forall v max idle busyto ops c,
  c_rels (p_cur (final v max idle busyto ops) c) <= 1 /\
  (c_live (p_cur (final v max idle busyto ops) c) = true -> c_rels (p_cur (final v max idle busyto ops) c) = 0).
Proof.
  intros v max idle busyto ops c. destruct (Jc_run v ops _ (Jc_init max idle busyto) c) as [H1 H2]. split; assumption.
Qed.
Print Assumptions C15_release_at_most_once.

Definition leak_ops : list op :=
  [OLookup 0 5 true 0 (QParts [0%N; 1%N]) PHead 100; OLookup 1 5 true 0 (QParts [0%N; 1%N]) PHead 101;
   OCreate 0; OInsert 0; ORelease 0; OCreate 1; OInsert 1; ORelease 1; OTick 20; OSweepTime; OSweepTime].

(* before the repair: the race again, both requests complete normally: no request is left, the cache map is empty, every
   sweep has run -- and the second cursor is never closed, its partitions stay acquired for ever *)
Theorem C15_once_idonly_refuted : ~ once_statement old_variant.
Proof.
  intros H. specialize (H 10 3%Z 7%Z leak_ops 1). cbn zeta in H.
  assert (E : p_act (final old_variant 10 3 7 leak_ops) = [] /\ p_curs (final old_variant 10 3 7 leak_ops) = []) by (vm_compute; split; reflexivity).
  destruct E as [Ea Ec].
  destruct H as [_ H]; [vm_compute; lia|].
  assert (R : c_rels (p_cur (final old_variant 10 3 7 leak_ops) 1) = 0) by (vm_compute; reflexivity).
  rewrite R in H. enough (0 = 1) by discriminate. apply H.
  intros [(r & [Hr|Hr])|(k & e & Hk & _)]; [rewrite Ea in Hr; discriminate|rewrite Ea in Hr; discriminate|rewrite Ec in Hk; discriminate].
Qed.
Print Assumptions C15_once_idonly_refuted.

Example C15_once_idonly_leak :
  let s := final old_variant 10 3 7 leak_ops in p_act s = [] /\ p_curs s = [] /\ c_rels (p_cur s 1) = 0 /\ p_acq s 0%N = 1%Z.
Proof. vm_compute. repeat split; reflexivity. Qed.

(* for every history and schedule, in every reachable state and for every cursor ever created: it is open, never closed,
   as long as a request or the cache refers to it, and closed -- close() called once, partitions released once --
   as soon as nothing does (uncached release, idle expiry, busy expiry followed by the release, eviction by
   size, the fallback after a failed ApplyState, refusal at the insert, release under an id cached by another cursor,
   shutdown); the factory's books are exactly the open cursors *)
Theorem C15_once_accounting : forall max idle busyto ops,
  let s := final code_variant max idle busyto ops in
  (forall c, c < p_ncur s ->
     (reachable s c -> c_live (p_cur s c) = true /\ c_closes (p_cur s c) = 0 /\ c_rels (p_cur s c) = 0) /\
     (~ reachable s c -> c_live (p_cur s c) = false /\ c_closes (p_cur s c) = 1 /\ c_rels (p_cur s c) = 1)) /\
  (forall p, p_acq s p = live_sum (p_cur s) (p_ncur s) p).
Proof.
  intros max idle busyto ops s. pose proof (inv_reach max idle busyto ops) as HI. fold s in HI.
  split; [exact (inv_once false _ HI)|exact (inv_acq false _ HI)].
Qed.
Print Assumptions C15_once_accounting.

(* ... so cursors never pin partitions for ever: once no request is in flight and the clock has passed the
   time-outs, ONE pass of sweepByTime (Next() returning prev notwithstanding) empties the cache, every cursor
   ever created has been closed exactly once and no partition is acquired. The one hypothesis is on the
   environment, not on the clients: the clock does not go backwards (time.Now carries a monotonic reading and
   expTime.Before(now) compares those), otherwise "past the time-outs" means nothing *)
Theorem C15_no_leak : forall max idle busyto ops d, clock_monotone ops = true ->
  let s := final code_variant max idle busyto ops in
  p_act s = [] -> (0 <= d)%Z -> (Z.max (p_idle s) (p_busyto s) < d)%Z ->
  exists s1 s2, step code_variant s (OTick d) = Ok (s1, RDone) /\ step code_variant s1 OSweepTime = Ok (s2, RDone) /\
    p_curs s2 = [] /\ p_ncur s2 = p_ncur s /\
    (forall c, c < p_ncur s2 -> c_live (p_cur s2 c) = false /\ c_closes (p_cur s2 c) = 1 /\ c_rels (p_cur s2 c) = 1) /\
    (forall p, p_acq s2 p = 0%Z).
Proof.
  intros max idle busyto ops d D s Hq Hd0 Hd.
  destruct (inv_run true ops _ (inv_init true max idle busyto) (fun _ => D)) as (_ & HI & _).
  fold (final code_variant max idle busyto ops) in HI. fold s in HI.
  assert (G : tick_ok true (OTick d)) by (intros _; exact Hd0).
  destruct (inv_step true s (OTick d) HI G) as (s1 & r1 & E1 & HI1). cbn [step] in E1. injection E1 as <- <-.
  exists (set_now s (p_now s + d)).
  destruct (drain true (set_now s (p_now s + d)) HI1 Hq) as (s2 & E2 & G1 & G2 & G3 & G4).
  { intros k e Hk. exact (inv_all_expired true s d eq_refl HI Hd k e Hk). }
  exists s2. cbn [step]. rewrite E2. cbn [lift].
  split; [reflexivity|]. split; [reflexivity|]. split; [exact G1|]. split; [exact G2|]. split; [exact G3|exact G4].
Qed.
Print Assumptions C15_no_leak.

(* ------------------------------------------------------------------ shutdown *)
(* after Shutdown nothing stays cached; if no request is in flight every cursor ever created has been closed, its
   partitions released exactly once, and the factory holds no acquisition (a request still in flight closes its
   cursor at its Release: C15_once_accounting) *)
Definition shutdown_statement (v : variant) : Prop :=
  forall max idle busyto ops,
  let s := final v max idle busyto (ops ++ [OShutdown]) in
  p_curs s = [] /\
  (p_act s = [] -> (forall c, c < p_ncur s -> c_rels (p_cur s c) = 1) /\ (forall p, p_acq s p = 0%Z)).

Theorem C15_shutdown : shutdown_statement code_variant.
Proof.
  intros max idle busyto ops s.
  assert (HI : Inv false s) by apply inv_reach.
  assert (Hc : p_curs s = []).
  { unfold s, final. rewrite run_snoc by apply C15_no_panic.
    destruct (inv_shutdown false _ (inv_reach max idle busyto ops)) as (s' & E & _ & Hc).
    cbn [step code_variant v_evict]. rewrite E. exact Hc. }
  split; [exact Hc|]. intros Ha.
  pose proof (inv_empty_closed false s HI Hc Ha) as Cl. split.
  - intros c Hn. apply (Cl c Hn).
  - intros p. rewrite (inv_acq false s HI p). apply live_sum_dead. intros c Hn. apply (Cl c Hn).
Qed.
Print Assumptions C15_shutdown.

(* before the repair Shutdown() only stopped the sweeper: a cursor idle in the cache was never closed *)
Theorem C15_shutdown_sweeper_only_refuted : ~ shutdown_statement old_variant.
Proof.
  intros H.
  destruct (H 10 3%Z 7%Z [OLookup 0 5 true 0 (QParts [0%N; 1%N]) PHead 100; OCreate 0; OInsert 0; ORelease 0]) as [H1 _].
  vm_compute in H1. discriminate H1.
Qed.
Print Assumptions C15_shutdown_sweeper_only_refuted.

(* Shutdown while a request is in flight: its cursor is dropped from the cache, stays open, and is closed by its Release *)
Example C15_shutdown_busy :
  let ops := [OLookup 0 5 true 0 (QParts [0%N; 1%N]) PHead 100; OCreate 0; OInsert 0; OShutdown] in
  let s := final code_variant 10 3 7 ops in let s' := final code_variant 10 3 7 (ops ++ [ORelease 0]) in
  p_curs s = [] /\ c_live (p_cur s 0) = true /\ p_acq s 0%N = 1%Z /\ p_max s = 10 /\
  c_rels (p_cur s' 0) = 1 /\ p_acq s' 0%N = 0%Z /\ p_act s' = [].
Proof. vm_compute. repeat split; reflexivity. Qed.

(* ------------------------------------------------------------------ the callers: every GetOrCreate gets its Release *)
(* The provider is used by ServerQuerier.query (api/rpc/querier.go) and backend.Querier.Query (pkg/backend/querier.go).
   model/Querier.v: a request is the block lookup, create, insert, use, release of one actor (`query_ops`; a step the
   Go code skips on some path is a step that is not enabled in the model). `paired ops`: in the history every actor's
   steps come in whole blocks -- every GetOrCreate is followed by exactly one Release, nothing else is asked of the
   callers; blocks of different requests, the sweeps, the clock and Shutdown interleave freely. *)
Definition pairing_statement (needs_pairing : bool) : Prop :=
  forall v max idle busyto ops, (needs_pairing = true -> paired ops = true) ->
    outcome_of v max idle busyto ops = Ok tt ->
    forall r, act_get (p_act (final v max idle busyto ops)) r = AIdle.

(* whatever the variant of the provider: after such a history no request is in flight, none holds a cursor *)
Theorem C15_querier_pairs : pairing_statement true.
Proof.
  intros v max idle busyto ops P H r.
  apply (paired_run v ops (init max idle busyto) [] (PhOK_init max idle busyto) (P eq_refl) H r).
Qed.
Print Assumptions C15_querier_pairs.

(* the queriers produce such histories: each request is one block (or nothing, if it is answered before the provider
   is called), and blocks one after the other stay paired *)
Theorem C15_querier_blocks : forall early0 r rq k,
  paired (query_ops early0 r rq k) = true /\
  forall ops, paired ops = true -> paired (ops ++ query_ops early0 r rq k) = true.
Proof.
  intros early0 r rq k. split; [apply query_ops_paired|].
  intros ops H. apply paired_from_app; [exact H|apply query_ops_paired].
Qed.
Print Assumptions C15_querier_blocks.

(* a read fault in the middle of a page (cur.Get fails with an error other than io.EOF after k records: chunk read fault,
   request context cancelled between two reads) ends the block like every other end of the loop: with its Release *)
Theorem C15_querier_fault_released : forall early0 r rq k e,
  paired (query_ops_v false early0 r rq k e) = true /\
  query_ops_v false early0 r rq k e = query_ops early0 r rq k.
Proof.
  intros early0 r rq k e. assert (E : query_ops_v false early0 r rq k e = query_ops early0 r rq k).
  { unfold query_ops_v, query_ops, finish_ops_v. destruct (gate early0 rq); try reflexivity. destruct e; reflexivity. }
  split; [rewrite E; apply query_ops_paired|exact E].
Qed.
Print Assumptions C15_querier_fault_released.

(* a querier that answers the read fault at once, before Release (`early_return`): its block is not paired, and
   (1) an uncached cursor is never closed -- after the time-outs and every sweep its partition is still acquired;
   (2) a cached one stays marked busy: the next request with its id is refused although nobody uses the cursor, and when
       busyTo has passed the sweeper drops the entry without closing the cursor: the partition stays acquired for ever *)
Theorem C15_querier_fault_early_return_refuted :
  let rq c := {| q_wait := c; q_limit := 5; q_id := 5; q_query := 0; q_qr := QParts [0%N]; q_pos := PHead; q_fresh := 100 |} in
  paired (query_ops_v true false 0 (rq 0%Z) 2 RFault) = false /\
  (let s := final code_variant 10 3 7 (query_ops_v true false 0 (rq 0%Z) 2 RFault ++ [OTick 22; OSweepTime; OSweepTime; OSweepSize]) in
   p_curs s = [] /\ c_live (p_cur s 0) = true /\ c_rels (p_cur s 0) = 0 /\ p_acq s 0%N = 1%Z) /\
  (let ops := query_ops_v true false 0 (rq 1%Z) 2 RFault in
   nth 4 (results_of code_variant 10 3 7 (ops ++ query_ops false 1 (rq 1%Z) 0)) RNone = RRefused /\
   let s := final code_variant 10 3 7 (ops ++ [OTick 22; OSweepTime; OSweepTime]) in
   p_curs s = [] /\ c_live (p_cur s 0) = true /\ c_rels (p_cur s 0) = 0 /\ p_acq s 0%N = 1%Z).
Proof. vm_compute. repeat split; reflexivity. Qed.
Print Assumptions C15_querier_fault_early_return_refuted.

(* ... and for the code as it is nothing in the cache is busy then (with C15_no_panic the hypothesis on the outcome is
   void): a busy cache entry is always in the hands of a request *)
Theorem C15_busy_is_held : forall max idle busyto ops,
  let s := final code_variant max idle busyto ops in
  (forall k e, map_get (p_curs s) k = Some e -> h_busy (p_vals s e) = true ->
     exists r c, act_get (p_act s) r = AHold c /\ h_cur (p_vals s e) = Some c) /\
  (paired ops = true -> (forall r, act_get (p_act s) r = AIdle) /\
     forall k e, map_get (p_curs s) k = Some e -> h_busy (p_vals s e) = false).
Proof.
  intros max idle busyto ops s. pose proof (inv_reach max idle busyto ops) as HI. fold (final code_variant max idle busyto ops) in HI. fold s in HI.
  split; [exact (inv_busy_held false s HI)|]. intros P.
  assert (Idle : forall r, act_get (p_act s) r = AIdle).
  { intros r. apply (C15_querier_pairs code_variant max idle busyto ops (fun _ => P)). apply C15_no_panic. }
  split; [exact Idle|]. intros k e Hm. destruct (h_busy (p_vals s e)) eqn:Hb; [|reflexivity].
  destruct (inv_busy_held false s HI k e Hm Hb) as (r & c & Hr & _). rewrite Idle in Hr. discriminate Hr.
Qed.
Print Assumptions C15_busy_is_held.

(* a caller that returns on some path without Release (here: the block of request 0 lacks its release): the request
   stays in flight for ever, its cursor busy in the cache, and every later request for the id is refused *)
Theorem C15_querier_unreleased_refuted : ~ pairing_statement false.
Proof.
  intros H.
  specialize (H code_variant 10 3%Z 7%Z [OLookup 0 5 true 0 (QParts [0%N]) PHead 100; OCreate 0; OInsert 0; OUse 0 2]
                (fun E => ltac:(discriminate E)) eq_refl 0).
  vm_compute in H. discriminate H.
Qed.
Print Assumptions C15_querier_unreleased_refuted.

Example C15_unreleased_blocks_the_id :
  let ops := [OLookup 0 5 true 0 (QParts [0%N]) PHead 100; OCreate 0; OInsert 0; OUse 0 2] in
  let s := final code_variant 10 3 7 ops in
  paired ops = false /\ act_get (p_act s) 0 = AHold 0 /\
  results_of code_variant 10 3 7 (ops ++ query_ops true 1 {| q_wait := 1; q_limit := 10; q_id := 5; q_query := 0; q_qr := QParts [0%N]; q_pos := PAt 2; q_fresh := 101 |} 0)
    = [RMiss; RNew 0; RInserted; RDone; RRefused; RNone; RNone; RNone; RNone].
Proof. vm_compute. repeat split; reflexivity. Qed.

(* a caller that calls Release twice for one GetOrCreate (model/Querier.v release_again: the locked region of Release for a
   cursor the caller has given back already): if the cursor sits idle in the cache the provider panics; if another
   request has been handed it meanwhile, it is marked idle under that request and a third one gets it as well *)
Theorem C15_querier_double_release_refuted :
  (exists max idle busyto ops c, outcome_of code_variant max idle busyto ops = Ok tt /\ paired ops = true /\
     release_again (final code_variant max idle busyto ops) c = Panic) /\
  (exists max idle busyto ops c s1 rq, outcome_of code_variant max idle busyto ops = Ok tt /\
     release_again (final code_variant max idle busyto ops) c = Ok s1 /\
     act_get (p_act s1) 1 = AHold c /\
     exists s2 rs, steps code_variant s1 (start_ops 2 rq true) = Ok (s2, rs) /\
       act_get (p_act s2) 1 = AHold c /\ act_get (p_act s2) 2 = AHold c).
Proof.
  split.
  - exists 10, 3%Z, 7%Z, [OLookup 0 5 true 0 (QParts [0%N]) PHead 100; OCreate 0; OInsert 0; OUse 0 2; ORelease 0], 0.
    vm_compute. repeat split; reflexivity.
  - exists 10, 3%Z, 7%Z,
      [OLookup 0 5 true 0 (QParts [0%N]) PHead 100; OCreate 0; OInsert 0; OUse 0 2; ORelease 0;
       OLookup 1 5 true 0 (QParts [0%N]) (PAt 2) 101; OCreate 1; OInsert 1], 0.
    eexists. exists {| q_wait := 1; q_limit := 10; q_id := 5; q_query := 0; q_qr := QParts [0%N]; q_pos := PAt 2; q_fresh := 102 |}.
    split; [vm_compute; reflexivity|]. split; [vm_compute; reflexivity|]. split; [vm_compute; reflexivity|].
    eexists. eexists. split; [vm_compute; reflexivity|]. split; vm_compute; reflexivity.
Qed.
Print Assumptions C15_querier_double_release_refuted.

(* ------------------------------------------------------------------ resume *)
(* unconditionally: a request naming an id the cache does not know (never seen, expired, evicted) is not refused:
   the lookup misses and keeps the supplied state ... *)
Theorem C15_resume_lookup : forall drop s r id cache q qr p fresh,
  act_get (p_act s) r = AIdle -> id <> 0%N -> map_get (p_curs s) id = None ->
  get_lookup drop s r id cache q qr p fresh = Ok (set_actor s r (AMiss id q qr p cache), RMiss).
Proof. exact resume_lookup. Qed.
Print Assumptions C15_resume_lookup.

(* ... and newCursor then yields a fresh cursor (an index no earlier cursor has) with that id, at the supplied
   position, open, its partitions acquired once *)
Theorem C15_resume_create : forall s r id q parts p cache,
  act_get (p_act s) r = AMiss id q (QParts parts) p cache -> p <> PBad ->
  exists s', get_create s r = Ok (s', RNew (p_ncur s)) /\
    p_ncur s' = S (p_ncur s) /\
    act_get (p_act s') r = (if cache then ACreated (p_ncur s) else AHold (p_ncur s)) /\
    let cu := p_cur s' (p_ncur s) in
    c_id cu = id /\ c_query cu = q /\ c_spos cu = p /\ c_ipos cu = pos_init p /\ c_parts cu = parts /\
    c_live cu = true /\ c_closes cu = 0 /\ c_rels cu = 0.
Proof. exact resume_create. Qed.
Print Assumptions C15_resume_create.

(* ------------------------------------------------------------------ non-vacuity and the Next()-returns-prev effect *)
(* a disciplined history that meets every life cycle: uncached release, resume with the returned position, hit,
   refusal of a concurrent request, idle expiry, busy expiry followed by the release, eviction by size of a busy
   and an idle cursor, fallback after a failed ApplyState (the position of the cached cursor, another query); the
   discipline holds and the state is not trivial *)
Definition tour : list op :=
  [OLookup 0 1 false 0 (QParts [0%N]) PHead 100; OCreate 0; OUse 0 3; ORelease 0;
   OLookup 0 1 true 0 (QParts [0%N]) (PAt 3) 101; OCreate 0; OInsert 0; ORelease 0;
   OLookup 1 1 true 0 (QParts [0%N]) (PAt 3) 102; OLookup 2 1 true 0 (QParts [0%N]) (PAt 3) 103; ORelease 1;
   OTick 4; OSweepTime;
   OLookup 0 2 true 2 (QParts [0%N; 1%N]) PHead 104; OCreate 0; OInsert 0; OTick 8; OSweepTime; ORelease 0;
   OLookup 0 3 true 3 (QParts [0%N; 1%N; 2%N]) PHead 105; OCreate 0; OInsert 0; ORelease 0;
   OLookup 0 4 true 1 (QParts [1%N]) PHead 106; OCreate 0; OInsert 0;
   OLookup 1 6 true 4 (QParts [3%N]) PHead 107; OCreate 1; OInsert 1;
   OSweepSize;
   OLookup 2 7 true 0 (QParts [0%N]) PHead 108; OCreate 2; OInsert 2;
   OSweepSize; ORelease 0; ORelease 1; ORelease 2;
   OLookup 1 6 true 0 (QParts [0%N]) (PAt 0) 109; OCreate 1; OInsert 1].

Example C15_nonvacuous :
  disciplined code_variant (init 2 3 7) tour = true /\
  outcome_of code_variant 2 3 7 tour = Ok tt /\
  p_ncur (final code_variant 2 3 7 tour) = 8 /\
  map fst (p_curs (final code_variant 2 3 7 tour)) = [109%N; 7%N; 6%N] /\
  act_get (p_act (final code_variant 2 3 7 tour)) 1 = AHold 7 /\
  map (fun c => c_rels (p_cur (final code_variant 2 3 7 tour) c)) (seq 0 8) = [1; 1; 1; 1; 1; 0; 0; 0] /\
  nth 9 (snd (fst (run code_variant (init 2 3 7) tour))) RNone = RRefused.
Proof. vm_compute. repeat split; reflexivity. Qed.

(* a request that names another position than the one its cached idle cursor stands at: the cursor is closed (its
   partition handed back once), the id leaves the cache and the request goes on as a miss under the same id - the new
   cursor is cached under it, at the requested position; with the same position the cached cursor is handed out *)
Example C15_other_position_drops :
  let ops := [OLookup 0 5 true 0 (QParts [0%N]) PHead 100; OCreate 0; OInsert 0; OUse 0 4; ORelease 0] in
  let s1 := final code_variant 10 3 7 (ops ++ [OLookup 1 5 true 0 (QParts [0%N]) (PAt 2) 101]) in
  let s2 := final code_variant 10 3 7 (ops ++ [OLookup 1 5 true 0 (QParts [0%N]) (PAt 2) 101; OCreate 1; OInsert 1; ORelease 1]) in
  nth 4 (results_of code_variant 10 3 7 ops) RNone = RReleased 5 (PAt 4) /\
  nth 5 (results_of code_variant 10 3 7 (ops ++ [OLookup 1 5 true 0 (QParts [0%N]) (PAt 4) 101])) RNone = RHit 0 /\
  nth 5 (results_of code_variant 10 3 7 (ops ++ [OLookup 1 5 true 0 (QParts [0%N]) (PAt 2) 101])) RNone = RMiss /\
  p_curs s1 = [] /\ c_live (p_cur s1 0) = false /\ c_rels (p_cur s1 0) = 1 /\ p_acq s1 0%N = 0%Z /\
  act_get (p_act s1) 1 = AMiss 5 0 (QParts [0%N]) (PAt 2) true /\
  cached_ids s2 = [5%N] /\ c_id (p_cur s2 1) = 5%N /\ c_spos (p_cur s2 1) = PAt 2 /\ c_live (p_cur s2 1) = true /\ p_acq s2 0%N = 1%Z /\
  nth 5 (results_of old_variant 10 3 7 (ops ++ [OLookup 1 5 true 0 (QParts [0%N]) (PAt 2) 101])) RNone = RHit 0.
Proof. vm_compute. repeat split; reflexivity. Qed.

(* Next() returns prev: after an element is removed the sweep skips its neighbour. Three idle cursors, the two
   older ones expired: the first pass removes the oldest, skips the second (still cached although expired) and
   stops at the fresh one; the next pass removes it. Nothing worse than a delay of one sweeper period. *)
Example C15_sweep_skips_neighbour :
  let ops := [OLookup 0 1 true 0 (QParts [0%N]) PHead 100; OCreate 0; OInsert 0; ORelease 0;
              OLookup 0 2 true 0 (QParts [0%N]) PHead 101; OCreate 0; OInsert 0; ORelease 0; OTick 4;
              OLookup 0 3 true 0 (QParts [0%N]) PHead 102; OCreate 0; OInsert 0; ORelease 0] in
  disciplined code_variant (init 10 3 7) (ops ++ [OSweepTime; OSweepTime]) = true /\
  cached_ids (final code_variant 10 3 7 ops) = [1%N; 2%N; 3%N] /\
  cached_ids (final code_variant 10 3 7 (ops ++ [OSweepTime])) = [2%N; 3%N] /\
  cached_ids (final code_variant 10 3 7 (ops ++ [OSweepTime; OSweepTime])) = [3%N].
Proof. vm_compute. repeat split; reflexivity. Qed.
