(* C15 -- Server-side query cursors: one user at a time, resources released exactly once.
   Property theorems only. The model is model/Provider.v (cursor.Provider over the pointer ring of
   model/CList.v); histories are lists of atomic steps of concurrent requests (actors), the
   sweeper and the clock, so "for all histories and schedules" is "for all `ops : list op`".
   Where the faithful model violates the full statement the file has the statement as a
   Definition, a `_refuted` witness (replayed on the implementation by the harness corpus) and a
   `_partial` theorem under the client discipline `disciplined` (model/Provider.v: an id that is
   in flight is requested again only while its cursor sits in the cache marked busy). *)
From LR Require Import lib.Base model.CList model.Provider proofs.CListP proofs.ProviderP.

Definition final (max : nat) (idle busyto : Z) (ops : list op) : prov := fst (fst (run (init max idle busyto) ops)).
Definition outcome_of (max : nat) (idle busyto : Z) (ops : list op) : outcome unit := snd (run (init max idle busyto) ops).

(* ------------------------------------------------------------------ the ring refines a list *)
(* TearOff of a member: the ring now stands for the list without it, the element is detached, nothing else is written *)
Theorem C15_ring_tearoff : forall h hd l e, ring h (Some hd) l -> In e l ->
  exists h' p', cl_tearoff h (Some hd) (Some e) = (h', p') /\
    ring h' p' (remove Nat.eq_dec e l) /\ self_linked h' e /\ (forall x, ~ In x l -> h' x = h x).
Proof. exact tearoff_spec. Qed.
Print Assumptions C15_ring_tearoff.

(* Append of a detached element in front of a ring (e.Append(head)): cons *)
Theorem C15_ring_append : forall h p l e, self_linked h e -> ring h p l -> ~ In e l ->
  exists h', cl_append h (Some e) p = (h', Some e) /\ ring h' (Some e) (e :: l) /\
    (forall x, x <> e -> ~ In x l -> h' x = h x).
Proof. exact append_spec. Qed.
Print Assumptions C15_ring_append.

(* following next from the head reads the list back; Len is its length; Prev and Next (sic) of a member stay inside *)
Theorem C15_ring_reads : forall h p l n, ring h p l -> length l <= n ->
  cl_to_list n h p = l /\ cl_len n h p = Some (length l) /\
  (forall hd e, p = Some hd -> In e l -> In (cl_prev_of h e) l /\ In (cl_next_of h e) l).
Proof.
  intros h p l n R Hn. split; [exact (ring_to_list h p l n R Hn)|]. split; [exact (ring_len h p l n R Hn)|].
  intros hd e -> I. split; exact (proj1 (ring_prev_in h hd l e R I)).
Qed.
Print Assumptions C15_ring_reads.

(* ------------------------------------------------------------------ no panic *)
Definition C15_no_panic_statement : Prop :=
  forall max idle busyto ops, outcome_of max idle busyto ops = Ok tt.

Definition race_ops : list op :=
  [OLookup 0 5 true 0 (QParts [0%N]) PHead 100; OLookup 1 5 true 0 (QParts [0%N]) PHead 101;
   OCreate 0; OInsert 0; OCreate 1; OInsert 1].

(* two requests name the same uncached id, both miss before either inserts: the second's Release panics *)
Theorem C15_no_panic_refuted : exists max idle busyto ops, outcome_of max idle busyto ops = Panic.
Proof. exists 10, 3%Z, 7%Z, (race_ops ++ [ORelease 0; ORelease 1]). vm_compute. reflexivity. Qed.
Print Assumptions C15_no_panic_refuted.

(* a request outlives busyTo, the client retries with the same id, the late Release of the first ... *)
Theorem C15_no_panic_busy_expiry_refuted : exists max idle busyto ops, outcome_of max idle busyto ops = Panic.
Proof.
  exists 10, 3%Z, 7%Z,
    [OLookup 0 5 true 0 (QParts [0%N]) PHead 100; OCreate 0; OInsert 0; OTick 8; OSweepTime;
     OLookup 1 5 true 0 (QParts [0%N]) PHead 101; OCreate 1; OInsert 1; ORelease 0; ORelease 1].
  vm_compute. reflexivity.
Qed.
Print Assumptions C15_no_panic_busy_expiry_refuted.

(* under the discipline no step of any history panics or loops: not Release, not a nil dereference in the sweeps *)
Theorem C15_no_panic_partial : forall max idle busyto ops,
  disciplined (init max idle busyto) ops = true ->
  outcome_of max idle busyto ops = Ok tt /\ length (snd (fst (run (init max idle busyto) ops))) = length ops.
Proof.
  intros max idle busyto ops D. destruct (inv_run ops _ (inv_init max idle busyto) D) as (H1 & _ & H3). split; assumption.
Qed.
Print Assumptions C15_no_panic_partial.

(* ------------------------------------------------------------------ one user at a time *)
Definition C15_exclusive_statement : Prop :=
  forall max idle busyto ops r r' c,
    act_get (p_act (final max idle busyto ops)) r = AHold c ->
    act_get (p_act (final max idle busyto ops)) r' = AHold c -> r = r'.

(* after the race the first Release marks the second request's holder idle: a third request is handed the
   cursor the second request is still reading from *)
Theorem C15_exclusive_refuted : exists max idle busyto ops c,
  act_get (p_act (final max idle busyto ops)) 1 = AHold c /\ act_get (p_act (final max idle busyto ops)) 2 = AHold c.
Proof.
  exists 10, 3%Z, 7%Z, (race_ops ++ [ORelease 0; OLookup 2 5 true 0 (QParts [0%N]) (PAt 0) 102]), 1.
  vm_compute. split; reflexivity.
Qed.
Print Assumptions C15_exclusive_refuted.

(* unconditionally: a request for an id whose cached cursor is marked busy is refused and changes nothing;
   a cursor is handed out of the cache only if it was marked idle *)
Theorem C15_refuse_busy : forall s r id cache q qr p fresh e,
  act_get (p_act s) r = AIdle -> id <> 0%N -> map_get (p_curs s) id = Some e -> h_busy (p_vals s e) = true ->
  get_lookup s r id cache q qr p fresh = Ok (s, RRefused).
Proof. exact refuse_busy. Qed.
Print Assumptions C15_refuse_busy.

Theorem C15_hit_only_idle : forall s r id cache q qr p fresh s' c,
  get_lookup s r id cache q qr p fresh = Ok (s', RHit c) ->
  exists e, map_get (p_curs s) id = Some e /\ h_busy (p_vals s e) = false /\ h_cur (p_vals s e) = Some c.
Proof. exact hit_only_idle. Qed.
Print Assumptions C15_hit_only_idle.

(* under the discipline: no cursor is ever in the hands of two requests, a cursor in use is open, and if it is
   in the cache it is marked busy there (so every further request for its id is refused, by C15_refuse_busy) *)
Theorem C15_exclusive_partial : forall max idle busyto ops, disciplined (init max idle busyto) ops = true ->
  let s := final max idle busyto ops in
  (forall r r' c, (act_get (p_act s) r = AHold c \/ act_get (p_act s) r = ACreated c) ->
                  (act_get (p_act s) r' = AHold c \/ act_get (p_act s) r' = ACreated c) -> r = r') /\
  (forall r c, act_get (p_act s) r = AHold c -> c < p_ncur s /\ c_live (p_cur s c) = true) /\
  (forall r c e, act_get (p_act s) r = AHold c -> map_get (p_curs s) (c_id (p_cur s c)) = Some e ->
                 h_busy (p_vals s e) = true /\ h_cur (p_vals s e) = Some c).
Proof.
  intros max idle busyto ops D s. destruct (inv_run ops _ (inv_init max idle busyto) D) as (_ & HI & _).
  fold (final max idle busyto ops) in HI. fold s in HI.
  split; [exact (inv_exclusive s HI)|]. split; [|exact (inv_held_busy s HI)].
  intros r c H. assert (R : reachable s c) by (left; exists r; right; exact H).
  destruct HI as (lb & lf & HL). pose proof HL as (_ & _ & (A1 & _) & _). apply (A1 r c). right. exact H.
Qed.
Print Assumptions C15_exclusive_partial.

(* ------------------------------------------------------------------ released exactly once *)
(* a cursor's partitions are released at most once, and exactly once when nothing refers to it any more *)
Definition C15_once_statement : Prop :=
  forall max idle busyto ops, let s := final max idle busyto ops in
  forall c, c < p_ncur s -> c_rels (p_cur s c) <= 1 /\ (~ reachable s c -> c_rels (p_cur s c) = 1).

(* "at most once" holds for every history and schedule *)
Theorem C15_release_at_most_once : forall max idle busyto ops c,
  c_rels (p_cur (final max idle busyto ops) c) <= 1 /\
  (c_live (p_cur (final max idle busyto ops) c) = true -> c_rels (p_cur (final max idle busyto ops) c) = 0).
Proof.
  intros max idle busyto ops c. destruct (Jc_run ops _ (Jc_init max idle busyto) c) as [H1 H2]. split; assumption.
Qed.
Print Assumptions C15_release_at_most_once.

Definition leak_ops : list op :=
  [OLookup 0 5 true 0 (QParts [0%N; 1%N]) PHead 100; OLookup 1 5 true 0 (QParts [0%N; 1%N]) PHead 101;
   OCreate 0; OInsert 0; ORelease 0; OCreate 1; OInsert 1; ORelease 1; OTick 20; OSweepTime; OSweepTime].

(* the race again, both requests complete normally: no request is left, the cache map is empty, every sweep
   has run -- and the second cursor is never closed, its partitions stay acquired for ever *)
Theorem C15_once_refuted : exists max idle busyto ops c,
  let s := final max idle busyto ops in
  c < p_ncur s /\ ~ reachable s c /\ c_rels (p_cur s c) = 0 /\ p_act s = [] /\ p_curs s = [] /\ p_acq s 0%N = 1%Z.
Proof.
  exists 10, 3%Z, 7%Z, leak_ops, 1. cbn zeta.
  assert (E : p_act (final 10 3 7 leak_ops) = [] /\ p_curs (final 10 3 7 leak_ops) = []) by (vm_compute; split; reflexivity).
  destruct E as [Ea Ec].
  split; [vm_compute; lia|]. split.
  - intros [(r & [H|H])|(k & e & H & _)]; [rewrite Ea in H; discriminate|rewrite Ea in H; discriminate|rewrite Ec in H; discriminate].
  - split; [vm_compute; reflexivity|]. split; [exact Ea|]. split; [exact Ec|vm_compute; reflexivity].
Qed.
Print Assumptions C15_once_refuted.

(* under the discipline, in every reachable state and for every cursor ever created: it is open, never closed,
   as long as a request or the cache refers to it, and closed -- close() called once, partitions released once --
   as soon as nothing does (uncached release, idle expiry, busy expiry followed by the release, eviction by
   size, the fallback after a failed ApplyState); the factory's books are exactly the open cursors *)
Theorem C15_once_partial : forall max idle busyto ops, disciplined (init max idle busyto) ops = true ->
  let s := final max idle busyto ops in
  (forall c, c < p_ncur s ->
     (reachable s c -> c_live (p_cur s c) = true /\ c_closes (p_cur s c) = 0 /\ c_rels (p_cur s c) = 0) /\
     (~ reachable s c -> c_live (p_cur s c) = false /\ c_closes (p_cur s c) = 1 /\ c_rels (p_cur s c) = 1)) /\
  (forall p, p_acq s p = live_sum (p_cur s) (p_ncur s) p).
Proof.
  intros max idle busyto ops D s. destruct (inv_run ops _ (inv_init max idle busyto) D) as (_ & HI & _).
  split; [exact (inv_once _ HI)|exact (inv_acq _ HI)].
Qed.
Print Assumptions C15_once_partial.

(* ... so cursors never pin partitions for ever: once no request is in flight and the clock has passed the
   time-outs, ONE pass of sweepByTime (Next() returning prev notwithstanding) empties the cache, every cursor
   ever created has been closed exactly once and no partition is acquired *)
Theorem C15_no_leak_partial : forall max idle busyto ops d, disciplined (init max idle busyto) ops = true ->
  let s := final max idle busyto ops in
  p_act s = [] -> (0 <= d)%Z -> (Z.max (p_idle s) (p_busyto s) < d)%Z ->
  exists s1 s2, step s (OTick d) = Ok (s1, RDone) /\ step s1 OSweepTime = Ok (s2, RDone) /\
    p_curs s2 = [] /\ p_ncur s2 = p_ncur s /\
    (forall c, c < p_ncur s2 -> c_live (p_cur s2 c) = false /\ c_closes (p_cur s2 c) = 1 /\ c_rels (p_cur s2 c) = 1) /\
    (forall p, p_acq s2 p = 0%Z).
Proof.
  intros max idle busyto ops d D s Hq Hd0 Hd. destruct (inv_run ops _ (inv_init max idle busyto) D) as (_ & HI & _).
  fold (final max idle busyto ops) in HI. fold s in HI.
  assert (G : guard s (OTick d) = true) by (apply Z.leb_le; exact Hd0).
  destruct (inv_step s (OTick d) HI G) as (s1 & r1 & E1 & HI1). cbn [step] in E1. injection E1 as <- <-.
  exists (set_now s (p_now s + d)).
  destruct (drain (set_now s (p_now s + d)) HI1 Hq) as (s2 & E2 & G1 & G2 & G3 & G4).
  { intros k e Hk. exact (inv_all_expired s d HI Hd k e Hk). }
  exists s2. cbn [step]. rewrite E2. cbn [lift].
  split; [reflexivity|]. split; [reflexivity|]. split; [exact G1|]. split; [exact G2|]. split; [exact G3|exact G4].
Qed.
Print Assumptions C15_no_leak_partial.

(* ------------------------------------------------------------------ shutdown *)
Definition C15_shutdown_statement : Prop :=
  forall max idle busyto ops, disciplined (init max idle busyto) ops = true ->
  let s := final max idle busyto (ops ++ [OShutdown]) in
  p_act s = [] -> forall c, c < p_ncur s -> c_rels (p_cur s c) = 1.

(* Shutdown() only stops the sweeper: the cache is left as it is ... *)
Theorem C15_shutdown_closes_nothing : forall s, step s OShutdown = Ok (s, RDone).
Proof. reflexivity. Qed.
Print Assumptions C15_shutdown_closes_nothing.

(* ... so a cursor idle in the cache at shutdown is never closed *)
Theorem C15_shutdown_refuted : exists max idle busyto ops,
  disciplined (init max idle busyto) (ops ++ [OShutdown]) = true /\
  let s := final max idle busyto (ops ++ [OShutdown]) in
  p_act s = [] /\ 0 < p_ncur s /\ c_rels (p_cur s 0) = 0 /\ p_acq s 0%N = 1%Z.
Proof.
  exists 10, 3%Z, 7%Z, [OLookup 0 5 true 0 (QParts [0%N; 1%N]) PHead 100; OCreate 0; OInsert 0; ORelease 0].
  vm_compute. repeat split; reflexivity || lia.
Qed.
Print Assumptions C15_shutdown_refuted.

(* ------------------------------------------------------------------ resume *)
(* unconditionally: a request naming an id the cache does not know (never seen, expired, evicted) is not refused:
   the lookup misses and keeps the supplied state ... *)
Theorem C15_resume_lookup : forall s r id cache q qr p fresh,
  act_get (p_act s) r = AIdle -> id <> 0%N -> map_get (p_curs s) id = None ->
  get_lookup s r id cache q qr p fresh = Ok (set_actor s r (AMiss id q qr p cache), RMiss).
Proof. exact resume_lookup. Qed.
Print Assumptions C15_resume_lookup.

(* ... and newCursor then yields a fresh cursor (an index no earlier cursor has) with that id, at the supplied
   position, open, its partitions acquired once *)
Theorem C15_resume_create : forall s r id q parts p cache,
  act_get (p_act s) r = AMiss id q (QParts parts) p cache -> p <> PBad ->
  exists s', get_create s r = Ok (s', RNew (p_ncur s)) /\
    p_ncur s' = S (p_ncur s) /\
    act_get (p_act s') r = (if cache then ACreated (p_ncur s) else AHold (p_ncur s)) /\
    let cu := p_cur s' (p_ncur s) in
    c_id cu = id /\ c_query cu = q /\ c_spos cu = p /\ c_ipos cu = pos_init p /\ c_parts cu = parts /\
    c_live cu = true /\ c_closes cu = 0 /\ c_rels cu = 0.
Proof. exact resume_create. Qed.
Print Assumptions C15_resume_create.

(* ------------------------------------------------------------------ non-vacuity and the Next()-returns-prev effect *)
(* a disciplined history that meets every life cycle: uncached release, resume with the returned position, hit,
   refusal of a concurrent request, idle expiry, busy expiry followed by the release, eviction by size of a busy
   and an idle cursor, fallback after a failed ApplyState; the discipline holds and the state is not trivial *)
Definition tour : list op :=
  [OLookup 0 1 false 0 (QParts [0%N]) PHead 100; OCreate 0; OUse 0 3; ORelease 0;
   OLookup 0 1 true 0 (QParts [0%N]) (PAt 3) 101; OCreate 0; OInsert 0; ORelease 0;
   OLookup 1 1 true 0 (QParts [0%N]) (PAt 3) 102; OLookup 2 1 true 0 (QParts [0%N]) (PAt 3) 103; ORelease 1;
   OTick 4; OSweepTime;
   OLookup 0 2 true 2 (QParts [0%N; 1%N]) PHead 104; OCreate 0; OInsert 0; OTick 8; OSweepTime; ORelease 0;
   OLookup 0 3 true 3 (QParts [0%N; 1%N; 2%N]) PHead 105; OCreate 0; OInsert 0; ORelease 0;
   OLookup 0 4 true 1 (QParts [1%N]) PHead 106; OCreate 0; OInsert 0;
   OLookup 1 6 true 4 (QParts [3%N]) PHead 107; OCreate 1; OInsert 1;
   OSweepSize;
   OLookup 2 7 true 0 (QParts [0%N]) PHead 108; OCreate 2; OInsert 2;
   OSweepSize; ORelease 0; ORelease 1; ORelease 2;
   OLookup 1 6 true 0 (QParts [0%N]) PHead 109; OCreate 1; OInsert 1].

Example C15_nonvacuous :
  disciplined (init 2 3 7) tour = true /\
  outcome_of 2 3 7 tour = Ok tt /\
  p_ncur (final 2 3 7 tour) = 8 /\
  map fst (p_curs (final 2 3 7 tour)) = [109%N; 7%N; 6%N] /\
  act_get (p_act (final 2 3 7 tour)) 1 = AHold 7 /\
  map (fun c => c_rels (p_cur (final 2 3 7 tour) c)) (seq 0 8) = [1; 1; 1; 1; 1; 0; 0; 0] /\
  nth 9 (snd (fst (run (init 2 3 7) tour))) RNone = RRefused.
Proof. vm_compute. repeat split; reflexivity. Qed.

(* Next() returns prev: after an element is removed the sweep skips its neighbour. Three idle cursors, the two
   older ones expired: the first pass removes the oldest, skips the second (still cached although expired) and
   stops at the fresh one; the next pass removes it. Nothing worse than a delay of one sweeper period. *)
Example C15_sweep_skips_neighbour :
  let ops := [OLookup 0 1 true 0 (QParts [0%N]) PHead 100; OCreate 0; OInsert 0; ORelease 0;
              OLookup 0 2 true 0 (QParts [0%N]) PHead 101; OCreate 0; OInsert 0; ORelease 0; OTick 4;
              OLookup 0 3 true 0 (QParts [0%N]) PHead 102; OCreate 0; OInsert 0; ORelease 0] in
  disciplined (init 10 3 7) (ops ++ [OSweepTime; OSweepTime]) = true /\
  cached_ids (final 10 3 7 ops) = [1%N; 2%N; 3%N] /\
  cached_ids (final 10 3 7 (ops ++ [OSweepTime])) = [2%N; 3%N] /\
  cached_ids (final 10 3 7 (ops ++ [OSweepTime; OSweepTime])) = [3%N].
Proof. vm_compute. repeat split; reflexivity. Qed.
