(* C13 - No request content can crash the server-side decoders and evaluators.
   Property theorems only.  `safe o` = o is neither Panic nor OutOfFuel (lib/DecLib.v); the decoder
   models are in checked style: every Go index/slice expression that no preceding length check
   guards returns Panic when out of range, every non-structural loop takes fuel.
   The flag g = true is the code (model/DecTree.v: tree_guard): the decoders read their length-prefixed fields through
   utils.UnmarshalBytes / UnmarshalString, i.e. the guard (ln < 0 || ln+idx < idx -> error) and then the dependency's
   xbinary.UnmarshalBytes; g = false is the earlier code, which called the dependency's function directly.  The flag fx of the field parser and of EscapeJsonStr:
   true = the code (model/DecTree.v: tree_fields_fx, tree_escape_fx), false = the earlier code.  Unquote / Quote / time.Format are universally
   quantified parameters; go_unquote is the concrete model of strconv.Unquote. *)
From LR Require Import lib.Base lib.DecLib model.DecTree model.DecXBinary model.DecKV model.DecFields model.DecUtf8 model.DecUnquote model.DecWire model.DecPos model.Json model.Formatter model.DecLqlTime.
From LR Require Import model.DecAdmin proofs.DecAdminP.
From LR Require Import proofs.DecXBinaryP proofs.DecKVP proofs.DecFieldsP proofs.DecWireP proofs.DecPosP proofs.JsonP proofs.FormatterP proofs.DecStoredP proofs.DecLqlTimeP.

(* ------------------------------------------------------------------ the varint / bytes decoder *)

Theorem C13_total_uint : forall buf, safe (unmarshal_uint buf).
Proof. intros buf. pose proof (uu_spec buf) as H. split; intros E; rewrite E in H; exact H. Qed.
Print Assumptions C13_total_uint.

Definition C13_total_bytes_statement (g : bool) : Prop := forall buf, safe (unmarshal_bytes_g g buf).

(* the code: utils.UnmarshalBytes / UnmarshalString of /repo (tree_guard = true: the guard, then the dependency's
   function), through which every decoder below reads its length-prefixed fields, is total on every buffer *)
Theorem C13_total_bytes : C13_total_bytes_statement tree_guard.
Proof. exact ub_guarded_safe. Qed.
Print Assumptions C13_total_bytes.

(* what the repair bought: the dependency's xbinary.UnmarshalBytes, which the decoders called directly before
   (g = false; the dependency is unchanged, K still compares it as it is), panics on a length of 2^63 ... *)
Theorem C13_total_bytes_unguarded_refuted : ~ C13_total_bytes_statement false.
Proof. intros H. destruct (H huge_len) as [P _]. exact (P huge_len_panics). Qed.
Print Assumptions C13_total_bytes_unguarded_refuted.

(* ... does not panic as long as decoded length + header stays below 2^63 ... *)
Theorem C13_total_bytes_unguarded_partial : forall buf,
  (forall idx uln, unmarshal_uint buf = Ok (idx, uln) -> (Z.of_N uln + idx < two63)%Z) -> safe (unmarshal_bytes buf).
Proof. intros buf H. split; [exact (ub_small_nopanic buf H)|exact (ub_no_fuel false buf)]. Qed.
Print Assumptions C13_total_bytes_unguarded_partial.

(* ... and always panics when the decoded length has bit 63 set (buffers shorter than 2^63 bytes) *)
Theorem C13_bytes_unguarded_huge_panics : forall buf idx uln,
  (blen buf < two63)%Z -> unmarshal_uint buf = Ok (idx, uln) -> (two63 <= Z.of_N uln < two64)%Z -> unmarshal_bytes buf = Panic.
Proof. exact ub_huge_panic. Qed.
Print Assumptions C13_bytes_unguarded_huge_panics.

(* the guard takes nothing else away: wherever the dependency's function answers with a value or an error, the
   guarded one gives the same answer *)
Theorem C13_bytes_guard_conservative : forall buf, unmarshal_bytes buf <> Panic -> unmarshal_bytes_g true buf = unmarshal_bytes buf.
Proof. exact ub_guard_conservative. Qed.
Print Assumptions C13_bytes_guard_conservative.

(* ------------------------------------------------------------------ write packet: wpIterator.init + the consumer's Get/Next loop *)

Definition C13_total_wp_statement (g : bool) : Prop := forall fx unquote buf, safe (wp_run g fx unquote buf).

(* the code: total on every request body, for every Unquote and either variant of the field parser *)
Theorem C13_total_wp : C13_total_wp_statement tree_guard.
Proof. intros fx unquote buf. exact (wp_run_safe true fx unquote buf (nps_guarded buf)). Qed.
Print Assumptions C13_total_wp.

(* the earlier code (the dependency's UnmarshalBytes called directly): the 10-byte varint as the tags field *)
Theorem C13_total_wp_unguarded_refuted : ~ C13_total_wp_statement false.
Proof.
  intros H. destruct (H tree_fields_fx go_unquote huge_len) as [P _]. apply P. vm_compute. reflexivity.
Qed.
Print Assumptions C13_total_wp_unguarded_refuted.

(* for it, the only source of a panic was UnmarshalBytes on some suffix of the request buffer: all the slicing
   of the /repo decoders themselves is in range *)
Theorem C13_total_wp_unguarded_partial : forall fx unquote buf, nopanic_suffixes false buf -> safe (wp_run false fx unquote buf).
Proof. intros fx unquote buf H. exact (wp_run_safe false fx unquote buf H). Qed.
Print Assumptions C13_total_wp_unguarded_partial.

(* the same, with the hypothesis on the varints alone *)
Theorem C13_total_wp_unguarded_partial_varints : forall fx unquote buf,
  (forall k idx uln, unmarshal_uint (skipn k buf) = Ok (idx, uln) -> (Z.of_N uln + idx < two63)%Z) ->
  safe (wp_run false fx unquote buf).
Proof. intros fx unquote buf H. exact (wp_run_safe false fx unquote buf (nps_of_small_varints buf H)). Qed.
Print Assumptions C13_total_wp_unguarded_partial_varints.

(* ------------------------------------------------------------------ query request *)

Definition C13_total_qr_statement (g : bool) : Prop := forall buf, safe (unmarshal_qr g buf).

Theorem C13_total_qr : C13_total_qr_statement tree_guard.
Proof. intros buf. exact (post_safe _ _ (qr_post true buf (nps_guarded buf))). Qed.
Print Assumptions C13_total_qr.

Theorem C13_total_qr_unguarded_refuted : ~ C13_total_qr_statement false.
Proof.
  intros H. destruct (H ([x00;x00;x00;x00;x00;x00;x00;x01] ++ huge_len)) as [P _]. apply P. vm_compute. reflexivity.
Qed.
Print Assumptions C13_total_qr_unguarded_refuted.

Theorem C13_total_qr_unguarded_partial : forall buf, nopanic_suffixes false buf -> safe (unmarshal_qr false buf).
Proof. intros buf H. exact (post_safe _ _ (qr_post false buf H)). Qed.
Print Assumptions C13_total_qr_unguarded_partial.

(* ------------------------------------------------------------------ api.LogEvent (inside write packets and query results) *)

Definition C13_total_apile_statement (g : bool) : Prop := forall buf, safe (unmarshal_api_le g buf).

Theorem C13_total_apile : C13_total_apile_statement tree_guard.
Proof. intros buf. exact (post_safe _ _ (api_le_post true buf (nps_guarded buf))). Qed.
Print Assumptions C13_total_apile.

Theorem C13_total_apile_unguarded_refuted : ~ C13_total_apile_statement false.
Proof.
  intros H. destruct (H ([x00;x00;x00;x00;x00;x00;x00;x01] ++ huge_len)) as [P _]. apply P. vm_compute. reflexivity.
Qed.
Print Assumptions C13_total_apile_unguarded_refuted.

Theorem C13_total_apile_unguarded_partial : forall buf, nopanic_suffixes false buf -> safe (unmarshal_api_le false buf).
Proof. intros buf H. exact (post_safe _ _ (api_le_post false buf H)). Qed.
Print Assumptions C13_total_apile_unguarded_partial.

(* ------------------------------------------------------------------ LogEvent.Unmarshal (stored records) *)

Definition C13_total_le_statement (g : bool) : Prop := forall prev buf, safe (le_unmarshal g prev buf).

Theorem C13_total_le : C13_total_le_statement tree_guard.
Proof. intros prev buf. exact (post_safe _ _ (le_unmarshal_post true prev buf (nps_guarded buf))). Qed.
Print Assumptions C13_total_le.

Theorem C13_total_le_unguarded_refuted : ~ C13_total_le_statement false.
Proof.
  intros H. destruct (H le_zero ([x20;x00;x00;x00;x00;x00;x00;x00;x01] ++ huge_len)) as [P _]. apply P. vm_compute. reflexivity.
Qed.
Print Assumptions C13_total_le_unguarded_refuted.

Theorem C13_total_le_unguarded_partial : forall prev buf, nopanic_suffixes false buf -> safe (le_unmarshal false prev buf).
Proof. intros prev buf H. exact (post_safe _ _ (le_unmarshal_post false prev buf H)). Qed.
Print Assumptions C13_total_le_unguarded_partial.

(* ------------------------------------------------------------------ the repair changed nothing but the panics *)

(* on every input on which the earlier decoders answered (a value or an error), the decoders of the code give the
   same answer: same events handed to the partition, same request, same record *)
Theorem C13_guard_conservative : forall fx unquote buf,
  (wp_run false fx unquote buf <> Panic -> wp_run tree_guard fx unquote buf = wp_run false fx unquote buf) /\
  (unmarshal_qr false buf <> Panic -> unmarshal_qr tree_guard buf = unmarshal_qr false buf) /\
  (unmarshal_api_le false buf <> Panic -> unmarshal_api_le tree_guard buf = unmarshal_api_le false buf) /\
  (forall prev, le_unmarshal false prev buf <> Panic -> le_unmarshal tree_guard prev buf = le_unmarshal false prev buf).
Proof.
  intros fx unquote buf. split; [exact (wp_run_conservative fx unquote buf)|].
  split; [exact (qr_conservative buf)|]. split; [exact (api_le_conservative buf)|].
  intros prev. exact (le_unmarshal_conservative prev buf).
Qed.
Print Assumptions C13_guard_conservative.

(* ------------------------------------------------------------------ field / tag text, Check, positions, format strings: total *)

Theorem C13_total_kvstring : forall s kv fld,
  safe (remove_curly_braces s) /\ safe (split_string s kv fld) /\ safe (trim_spaces s).
Proof.
  intros s kv fld. split; [exact (rcb_safe s)|]. split; [exact (split_safe s kv fld)|].
  destruct (trim_spec s) as [r [E _]]. rewrite E. apply safe_ok.
Qed.
Print Assumptions C13_total_kvstring.

Theorem C13_total_fields_text : forall fx unquote kvs, safe (fields_of_kv fx unquote kvs) /\ safe (fields_parse fx unquote kvs).
Proof. intros fx unquote kvs. split; [exact (fields_of_kv_safe fx unquote kvs)|exact (fields_parse_safe fx unquote kvs)]. Qed.
Print Assumptions C13_total_fields_text.

Theorem C13_total_check : forall s, safe (check s).
Proof. exact check_safe. Qed.
Print Assumptions C13_total_check.

Theorem C13_total_pos : forall s, safe (parse_pos s) /\ safe (apply_pos s).
Proof. intros s. split; [exact (parse_pos_safe s)|exact (apply_pos_safe s)]. Qed.
Print Assumptions C13_total_pos.

Theorem C13_total_format_parser : forall s, safe (format_parse s).
Proof. exact format_parse_safe. Qed.
Print Assumptions C13_total_format_parser.

(* LQL time literals (RANGE, WHERE ts, TRUNCATE BEFORE): the relative-literal front end of parseLqlDateTime,
   for every ParseFloat; empty and all-blank literals are errors, never an index out of range *)
Theorem C13_total_lql_time : forall parse_float dt0, safe (lql_rel_time parse_float dt0).
Proof. exact lql_rel_time_safe. Qed.
Print Assumptions C13_total_lql_time.

(* ------------------------------------------------------------------ Check-then-Value / AsKVString *)

Definition C13_check_then_value_statement : Prop := forall f name, check f = Ok tt -> safe (value f name).

Theorem C13_check_then_value_refuted : exists f name, check f = Ok tt /\ value f name = Panic.
Proof. exists [x01; x61], [x61]. exact check_then_value_panics. Qed.
Print Assumptions C13_check_then_value_refuted.

(* on well-formed lists (an even number of length-prefixed entries) every reader is total and Check accepts *)
Theorem C13_wf_reads_total : forall quote f name, wf_fields f ->
  safe (value f name) /\ safe (as_kv quote f) /\ check f = Ok tt.
Proof. intros quote f name W. split; [exact (value_wf f name W)|]. split; [exact (as_kv_wf quote f W)|exact (check_wf f W)]. Qed.
Print Assumptions C13_wf_reads_total.

(* ------------------------------------------------------------------ EscapeJsonStr *)

(* the code: total on every input (escape_json is the loop of the tree, variant tree_escape_fx = true, the one
   the correspondence check runs) *)
Theorem C13_total_escape : forall s, safe (escape_json s).
Proof. exact escape_json_total. Qed.
Print Assumptions C13_total_escape.

(* what the repair bought: the earlier loop (escape_fuel = variant false, which did not advance over a valid
   encoding of U+FFFD) never returns on EF BF BD, whatever the fuel ... *)
Theorem C13_total_escape_unadvanced_refuted : forall fuel, escape_fuel fuel [xef; xbf; xbd] = OutOfFuel.
Proof. intros fuel. exact (escape_fffd_loops fuel [x22]). Qed.
Print Assumptions C13_total_escape_unadvanced_refuted.

(* ... and was total exactly away from it: for either variant, a text none of whose positions decodes to
   (RuneError, 3) is handled *)
Theorem C13_total_escape_unadvanced_partial : forall fx s, no_fffd s -> safe (escape_json_g fx s).
Proof. exact escape_json_g_safe. Qed.
Print Assumptions C13_total_escape_unadvanced_partial.

(* ------------------------------------------------------------------ what the write path stores *)

(* the code (fx = tree_fields_fx = true: the 255-byte limit is applied to the string that is stored): everything
   handed to the partition has well-formed fields, for every Unquote and either variant of the wire decoders *)
Theorem C13_stored_wf : forall g unquote buf tags evs,
  wp_run g tree_fields_fx unquote buf = Ok (tags, evs) -> Forall (fun le => wf_fields (le_flds le)) evs.
Proof. intros g unquote buf tags evs. exact (wp_run_wf g true unquote (or_introl eq_refl) buf tags evs). Qed.
Print Assumptions C13_stored_wf.

(* what the repair bought: with the limit on the raw piece (fx = false) Go's Unquote turns 86 invalid bytes (88 with
   the quotes, below the limit) into 258 bytes: the length byte wraps, the stored list is malformed and AsKVString
   panics on it *)
Theorem C13_stored_wf_raw_limit_refuted : exists buf tags le,
  wp_run false false go_unquote buf = Ok (tags, [le]) /\ as_kv (fun v => v) (le_flds le) = Panic /\ ~ wf_fields (le_flds le).
Proof. exists expanding_packet. exact expanding_packet_stored. Qed.
Print Assumptions C13_stored_wf_raw_limit_refuted.

Theorem C13_unquote_not_short_refuted : ~ unquote_short go_unquote.
Proof. exact go_unquote_not_short. Qed.
Print Assumptions C13_unquote_not_short_refuted.

(* the earlier parser was right for every Unquote that keeps a text of at most 255 bytes at most 255 bytes long *)
Theorem C13_stored_wf_raw_limit_partial : forall g unquote, unquote_short unquote -> forall buf tags evs,
  wp_run g false unquote buf = Ok (tags, evs) -> Forall (fun le => wf_fields (le_flds le)) evs.
Proof. intros g unquote H buf tags evs. exact (wp_run_wf g false unquote (or_intror H) buf tags evs). Qed.
Print Assumptions C13_stored_wf_raw_limit_partial.

(* ... hence reading and evaluating on stored events is total: Value, AsKVString, Check and the evaluation
   of any accepted format, the JSON element included (no condition on the message any more) *)
Theorem C13_read_total : forall g unquote quote tsfmt tagval buf tags evs le,
  wp_run g tree_fields_fx unquote buf = Ok (tags, evs) -> In le evs ->
    (forall name, safe (value (le_flds le) name)) /\
    safe (as_kv quote (le_flds le)) /\
    check (le_flds le) = Ok tt /\
    (forall fmt flds tl, format_parse fmt = Ok flds ->
       safe (format_eval quote tsfmt tagval flds (le_ts le) (le_msg le) (le_flds le) tl [])).
Proof.
  intros g unquote quote tsfmt tagval buf tags evs le.
  exact (stored_reads_total_all g true unquote quote tsfmt tagval (or_introl eq_refl) buf tags evs le).
Qed.
Print Assumptions C13_read_total.

(* ------------------------------------------------------------------ non-vacuity *)

(* a valid two-event packet satisfies the hypothesis of the _unguarded_partial theorems and decodes to its events
   (with either variant of the decoders), the hostile varint is an error for the code *)
Example C13_ex_valid_packet :
  nopanic_suffixes false valid_packet /\
  (forall g, wp_run g tree_fields_fx go_unquote valid_packet =
    Ok ([x61; x3d; x62], [ {| le_ts := 5; le_msg := [x6d; x31]; le_flds := [x01; x66; x01; x76; x01; x67; x01; x68] |};
                           {| le_ts := 7; le_msg := []; le_flds := [x01; x66; x01; x76] |} ])) /\
  unmarshal_bytes_g tree_guard huge_len = Err /\ wp_run tree_guard tree_fields_fx go_unquote huge_len = Err.
Proof. split; [exact (proj1 valid_packet_ok)|]. split; [exact (proj2 valid_packet_ok)|]. split; vm_compute; reflexivity. Qed.

(* an Unquote satisfying unquote_short that does unquote: strip the two quote characters *)
Example C13_ex_unquote_short : unquote_short (fun s => Some (removelast (tl s))) /\
  fields_of_kv false (fun s => Some (removelast (tl s))) [x61; x3d; x22; x62; x2c; x63; x22] = Ok [x01; x61; x03; x62; x2c; x63] /\
  fields_of_kv true go_unquote expanding_kv = Err.
Proof.
  split; [|split; vm_compute; reflexivity].
  intros s u L E. injection E as <-. destruct s as [|x s]; [cbn; lia|]. cbn [tl].
  assert (length (removelast s) <= length s)%nat.
  { clear. induction s as [|y s IH]; [cbn; lia|]. destruct s; cbn in *; lia. }
  unfold blen in *. cbn [length] in L. lia.
Qed.

(* a well-formed list with two pairs, read by every accessor *)
Example C13_ex_wf : wf_fields [x01; x61; x02; x62; x63; x00; x01; x64] /\
  value [x01; x61; x02; x62; x63; x00; x01; x64] [x61] = Ok [x62; x63] /\
  as_kv (fun v => v) [x01; x61; x02; x62; x63; x00; x01; x64] = Ok [x61; x3d; x62; x63; x2c; x3d; x64].
Proof.
  split; [|split; vm_compute; reflexivity].
  exists [[x61]; [x62; x63]; []; [x64]]. split; [vm_compute; reflexivity|]. split; [reflexivity|].
  repeat constructor; vm_compute; discriminate.
Qed.

(* the front end accepts a relative literal with blanks and upper case, and rejects the empty / blank / lone '-' ones *)
Example C13_ex_lql_time : lql_rel_time (fun _ => true) [x20; x2d; x31; x2e; x35; x48; x20] = Ok tt /\
  lql_rel_time (fun _ => true) [] = Err /\ lql_rel_time (fun _ => true) [x20; x20] = Err /\
  lql_rel_time (fun _ => true) [x2d] = Err /\ lql_rel_time (fun _ => true) [x2d; x6d] = Ok tt.
Proof. repeat split; vm_compute; reflexivity. Qed.

(* EscapeJsonStr: control characters, quotes, a valid and an invalid non-ASCII byte, and a valid U+FFFD (copied) *)
Example C13_ex_escape : escape_json [x61; x22; x0a; x01; xc3; xa9; x80; xef; xbf; xbd] =
  Ok [x22; x61; x5c; x22; x5c; x6e; x5c; x75; x30; x30; x30; x31; xc3; xa9; x5c; x75; x66; x66; x66; x64; xef; xbf; xbd; x22].
Proof. vm_compute. reflexivity. Qed.

(* ---- statements executed by the admin path: SHOW PARTITIONS [OFFSET o] [LIMIT l] ----
   The LQL parser accepts any int64 (also negative) for OFFSET and LIMIT; Service.Partitions pages the matching
   partitions with them (model/DecAdmin.v).  For every number of partitions and every pair of numbers the code answers
   with a page or an error ... *)
Theorem C13_total_show_partitions : forall n offset limit,
  parts_page code_guards_paging n offset limit <> Panic /\ parts_page code_guards_paging n offset limit <> OutOfFuel.
Proof. exact parts_page_total. Qed.
Print Assumptions C13_total_show_partitions.

(* ... and for admissible numbers the page is what OFFSET / LIMIT mean (at most 1000 entries) *)
Theorem C13_show_partitions_page : forall (A : Type) (parts : list A) offset limit, (0 <= offset)%Z -> (0 <= limit)%Z ->
  parts_page code_guards_paging (length parts) offset limit =
  Ok (length (firstn (Z.to_nat (Z.min limit 1000)) (skipn (Z.to_nat offset) parts))).
Proof. exact parts_page_meaning. Qed.
Print Assumptions C13_show_partitions_page.

(* before the repair (no test for negative numbers): SHOW PARTITIONS OFFSET -1 and LIMIT -5 killed the server *)
Theorem C13_total_show_partitions_unguarded_refuted :
  ~ (forall n offset limit, parts_page false n offset limit <> Panic).
Proof. intros H. apply (H 1%nat (-1)%Z 4294967295%Z). exact (proj1 parts_page_unguarded_panics). Qed.
Print Assumptions C13_total_show_partitions_unguarded_refuted.
