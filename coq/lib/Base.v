(* Base vocabulary shared by every model file: byte strings with Go's string order, outcomes,
   and the generic driver of the correspondence check. Definitions and their basic lemmas only. *)
From Coq Require Export List NArith ZArith Lia Bool Arith.
From Coq Require Export Strings.Byte.
Export ListNotations.

Definition bytes := list byte.

(* outcome of a modelled Go call: value, error, panic, non-termination (fuel exhausted) *)
Inductive outcome (A : Type) := Ok (a : A) | Err | Panic | OutOfFuel.
Arguments Ok {A}. Arguments Err {A}. Arguments Panic {A}. Arguments OutOfFuel {A}.

Definition byte_eqb (a b : byte) : bool := Byte.eqb a b.
Definition byte_ltb (a b : byte) : bool := N.ltb (Byte.to_N a) (Byte.to_N b).

Lemma byte_eqb_eq a b : byte_eqb a b = true <-> a = b.
Proof. unfold byte_eqb. split; [apply Byte.byte_dec_bl | apply Byte.byte_dec_lb]. Qed.

Lemma byte_eqb_refl a : byte_eqb a a = true.
Proof. apply byte_eqb_eq. reflexivity. Qed.

Lemma byte_to_N_inj a b : Byte.to_N a = Byte.to_N b -> a = b.
Proof.
  intros H.
  assert (Some a = Some b) as E.
  { rewrite <- (Byte.of_to_N a), <- (Byte.of_to_N b). rewrite H. reflexivity. }
  injection E as E. exact E.
Qed.

(* Go string comparison: bytewise lexicographic, a proper prefix is smaller *)
Fixpoint bytes_eqb (a b : bytes) : bool :=
  match a, b with
  | [], [] => true
  | x :: a', y :: b' => byte_eqb x y && bytes_eqb a' b'
  | _, _ => false
  end.

Fixpoint bytes_ltb (a b : bytes) : bool :=
  match a, b with
  | [], [] => false
  | [], _ :: _ => true
  | _ :: _, [] => false
  | x :: a', y :: b' => if byte_ltb x y then true else if byte_ltb y x then false else bytes_ltb a' b'
  end.

Definition bytes_leb (a b : bytes) : bool := negb (bytes_ltb b a).

Lemma bytes_eqb_eq a b : bytes_eqb a b = true <-> a = b.
Proof.
  revert b. induction a as [|x a IH]; intros [|y b]; cbn; split; intros H; try reflexivity; try discriminate.
  - apply andb_true_iff in H as [H1 H2]. apply byte_eqb_eq in H1. apply IH in H2. subst. reflexivity.
  - injection H as -> ->. rewrite byte_eqb_refl. cbn. apply IH. reflexivity.
Qed.

Lemma bytes_eqb_refl a : bytes_eqb a a = true.
Proof. apply bytes_eqb_eq. reflexivity. Qed.

Lemma byte_ltb_irrefl x : byte_ltb x x = false.
Proof. unfold byte_ltb. apply N.ltb_irrefl. Qed.

Lemma byte_ltb_trichotomy x y : byte_ltb x y = false -> byte_ltb y x = false -> x = y.
Proof.
  unfold byte_ltb. intros H1 H2. apply N.ltb_ge in H1. apply N.ltb_ge in H2.
  apply byte_to_N_inj. lia.
Qed.

Lemma bytes_ltb_irrefl a : bytes_ltb a a = false.
Proof. induction a as [|x a IH]; cbn; [reflexivity|]. rewrite byte_ltb_irrefl. exact IH. Qed.

Lemma bytes_ltb_trans a b c : bytes_ltb a b = true -> bytes_ltb b c = true -> bytes_ltb a c = true.
Proof.
  revert b c. induction a as [|x a IH]; intros [|y b] [|z c]; cbn; intros H1 H2; try discriminate; try reflexivity.
  unfold byte_ltb in *.
  destruct (N.ltb_spec (Byte.to_N x) (Byte.to_N y)); destruct (N.ltb_spec (Byte.to_N y) (Byte.to_N z));
  destruct (N.ltb_spec (Byte.to_N x) (Byte.to_N z)); try reflexivity; try lia;
  destruct (N.ltb_spec (Byte.to_N y) (Byte.to_N x)); destruct (N.ltb_spec (Byte.to_N z) (Byte.to_N y));
  destruct (N.ltb_spec (Byte.to_N z) (Byte.to_N x)); try discriminate; try lia.
  eapply IH; eassumption.
Qed.

Lemma bytes_ltb_antisym a b : bytes_ltb a b = true -> bytes_ltb b a = false.
Proof.
  intros H. destruct (bytes_ltb b a) eqn:E; [|reflexivity].
  pose proof (bytes_ltb_trans _ _ _ H E) as T. rewrite bytes_ltb_irrefl in T. discriminate.
Qed.

Lemma bytes_trichotomy a b : bytes_ltb a b = false -> bytes_ltb b a = false -> a = b.
Proof.
  revert b. induction a as [|x a IH]; intros [|y b]; cbn; intros H1 H2; try discriminate; try reflexivity.
  destruct (byte_ltb x y) eqn:E1; [discriminate|]. destruct (byte_ltb y x) eqn:E2; [discriminate|].
  rewrite (byte_ltb_trichotomy x y E1 E2). f_equal. apply IH; assumption.
Qed.

Lemma bytes_leb_refl a : bytes_leb a a = true.
Proof. unfold bytes_leb. rewrite bytes_ltb_irrefl. reflexivity. Qed.

Lemma bytes_leb_total a b : bytes_leb a b = true \/ bytes_leb b a = true.
Proof.
  unfold bytes_leb. destruct (bytes_ltb b a) eqn:E; [right|left; reflexivity].
  rewrite (bytes_ltb_antisym _ _ E). reflexivity.
Qed.

Lemma bytes_leb_trans a b c : bytes_leb a b = true -> bytes_leb b c = true -> bytes_leb a c = true.
Proof.
  unfold bytes_leb. intros H1 H2. apply negb_true_iff in H1. apply negb_true_iff in H2. apply negb_true_iff.
  destruct (bytes_ltb c a) eqn:E; [|reflexivity].
  destruct (bytes_ltb b c) eqn:E2.
  - pose proof (bytes_ltb_trans _ _ _ E2 E). congruence.
  - rewrite (bytes_trichotomy _ _ E2 H2) in H1. congruence.
Qed.

Lemma bytes_leb_antisym a b : bytes_leb a b = true -> bytes_leb b a = true -> a = b.
Proof.
  unfold bytes_leb. intros H1 H2. apply negb_true_iff in H1. apply negb_true_iff in H2.
  apply bytes_trichotomy; assumption.
Qed.

(* ---- Go's sort.Search: smallest i in [0,n) with f i = true, n if none (for monotone f) ---- *)
Fixpoint bsearch_go (fuel : nat) (f : nat -> bool) (i j : nat) : nat :=
  match fuel with
  | O => i
  | S fuel' =>
      if Nat.ltb i j then
        let h := Nat.div2 (i + j) in
        if f h then bsearch_go fuel' f i h else bsearch_go fuel' f (S h) j
      else i
  end.
Definition sort_search (n : nat) (f : nat -> bool) : nat := bsearch_go (S n) f 0 n.

(* ---- the generic correspondence driver: indices of the cases on which model and implementation differ ---- *)
Fixpoint mismatches_from {C : Type} (check : C -> bool) (i : nat) (l : list C) : list nat :=
  match l with
  | [] => []
  | c :: tl => if check c then mismatches_from check (S i) tl else i :: mismatches_from check (S i) tl
  end.
Definition mismatches_of {C : Type} (check : C -> bool) (l : list C) : list nat := mismatches_from check 0 l.

(* decidable equality helpers for projections *)
Fixpoint list_eqb {A : Type} (eqb : A -> A -> bool) (a b : list A) : bool :=
  match a, b with
  | [], [] => true
  | x :: a', y :: b' => eqb x y && list_eqb eqb a' b'
  | _, _ => false
  end.
Definition option_eqb {A : Type} (eqb : A -> A -> bool) (a b : option A) : bool :=
  match a, b with
  | None, None => true
  | Some x, Some y => eqb x y
  | _, _ => false
  end.
Definition pair_eqb {A B : Type} (ea : A -> A -> bool) (eb : B -> B -> bool) (a b : A * B) : bool :=
  ea (fst a) (fst b) && eb (snd a) (snd b).
