(* Executable stand-ins for the Go library functions that the LQL models take as parameters, used by
   the correspondence checkers (C05K, C12K) to instantiate them:
     - utf8.DecodeRuneInString / string(rune)
     - path.Match (Go 1.23 path/match.go, function by function)
     - participle's unquote (a loop of strconv.UnquoteChar) for String tokens
     - strings.ToUpper / ToLower restricted to ASCII letters (the harness only emits correspondence
       cases whose strings satisfy ToUpper(s) = ascii_upper s, and checks that on the real function)
     - association tables for the functions that are sampled by the harness instead
   The property theorems do not depend on this file: they quantify over the parameters. *)
From LR Require Import lib.Base model.LqlAst model.LqlLex.

Definition rune_error : N := 65533.

Definition utf8_decode (s : bytes) : N * nat :=
  match s with
  | [] => (rune_error, 0)
  | b0 :: r =>
      let c0 := bn b0 in
      let bad := (rune_error, 1) in
      let cont (b : byte) := N.leb 128 (bn b) && N.leb (bn b) 191 in
      if N.ltb c0 128 then (c0, 1)
      else if N.ltb c0 194 then bad
      else if N.ltb c0 224 then
        match r with
        | b1 :: _ => if cont b1 then (((c0 mod 32) * 64 + bn b1 mod 64)%N, 2) else bad
        | _ => bad
        end
      else if N.ltb c0 240 then
        let lo := if N.eqb c0 224 then 160%N else 128%N in
        let hi := if N.eqb c0 237 then 159%N else 191%N in
        match r with
        | b1 :: b2 :: _ =>
            if N.leb lo (bn b1) && N.leb (bn b1) hi && cont b2
            then (((c0 mod 16) * 4096 + (bn b1 mod 64) * 64 + bn b2 mod 64)%N, 3) else bad
        | _ => bad
        end
      else if N.ltb c0 245 then
        let lo := if N.eqb c0 240 then 144%N else 128%N in
        let hi := if N.eqb c0 244 then 143%N else 191%N in
        match r with
        | b1 :: b2 :: b3 :: _ =>
            if N.leb lo (bn b1) && N.leb (bn b1) hi && cont b2 && cont b3
            then (((c0 mod 8) * 262144 + (bn b1 mod 64) * 4096 + (bn b2 mod 64) * 64 + bn b3 mod 64)%N, 4) else bad
        | _ => bad
        end
      else bad
  end.

Definition byte_of (n : N) : byte := match Byte.of_N n with Some b => b | None => x00 end.

(* string(rune(v)) *)
Definition utf8_encode (v : N) : bytes :=
  if N.ltb v 128 then [byte_of v]
  else if N.ltb v 2048 then [byte_of (192 + v / 64); byte_of (128 + v mod 64)]
  else if (N.leb 55296 v && N.leb v 57343) || N.ltb 1114111 v then [xef; xbf; xbd]
  else if N.ltb v 65536 then [byte_of (224 + v / 4096); byte_of (128 + (v / 64) mod 64); byte_of (128 + v mod 64)]
  else [byte_of (240 + v / 262144); byte_of (128 + (v / 4096) mod 64); byte_of (128 + (v / 64) mod 64); byte_of (128 + v mod 64)].

(* ---------------- path.Match ---------------- *)
(* scanChunk: (star, chunk, rest) *)
Fixpoint scan_loop (fuel : nat) (p : bytes) (inrange : bool) (acc : bytes) : bytes * bytes :=
  match fuel with O => (rev acc, p) | S f =>
    match p with
    | [] => (rev acc, [])
    | c :: r =>
        if is_byte 92 c then
          match r with
          | d :: r' => scan_loop f r' inrange (d :: c :: acc)
          | [] => scan_loop f r inrange (c :: acc)
          end
        else if is_byte 91 c then scan_loop f r true (c :: acc)
        else if is_byte 93 c then scan_loop f r false (c :: acc)
        else if is_byte 42 c then (if inrange then scan_loop f r inrange (c :: acc) else (rev acc, p))
        else scan_loop f r inrange (c :: acc)
    end
  end.

Fixpoint drop_stars (p : bytes) : bool * bytes :=
  match p with
  | c :: r => if is_byte 42 c then (true, snd (drop_stars r)) else (false, p)
  | [] => (false, [])
  end.

Definition scan_chunk (p : bytes) : bool * bytes * bytes :=
  let '(star, p1) := drop_stars p in
  let '(chunk, rest) := scan_loop (S (List.length p1)) p1 false [] in
  (star, chunk, rest).

(* getEsc: None = ErrBadPattern *)
Definition get_esc (chunk : bytes) : option (N * bytes) :=
  match chunk with
  | [] => None
  | c :: r =>
      if is_byte 45 c || is_byte 93 c then None
      else
        let chunk1 := if is_byte 92 c then r else chunk in
        match chunk1 with
        | [] => None
        | _ =>
            let '(rn, n) := utf8_decode chunk1 in
            let nchunk := skipn n chunk1 in
            if (N.eqb rn rune_error && Nat.eqb n 1) then None
            else match nchunk with [] => None | _ => Some (rn, nchunk) end
        end
  end.

(* the ranges of a character class, after '[' and an optional '^': (matched, rest of chunk) *)
Fixpoint class_loop (fuel : nat) (chunk : bytes) (r : N) (nrange : nat) (mt : bool) : option (bool * bytes) :=
  match fuel with O => None | S f =>
    match chunk with
    | c :: rest =>
        if is_byte 93 c && Nat.ltb 0 nrange then Some (mt, rest)
        else
          match get_esc chunk with
          | None => None
          | Some (lo, ch1) =>
              match ch1 with
              | d :: ch2 =>
                  if is_byte 45 d then
                    match get_esc ch2 with
                    | None => None
                    | Some (hi, ch3) => class_loop f ch3 r (S nrange) (mt || (N.leb lo r && N.leb r hi))
                    end
                  else class_loop f ch1 r (S nrange) (mt || N.eqb lo r)
              | [] => None
              end
          end
    | [] => None (* getEsc of an empty chunk *)
    end
  end.

(* matchChunk: None = ErrBadPattern; Some None = no match; Some (Some rest) = matched *)
Fixpoint match_chunk (fuel : nat) (chunk s : bytes) (failed : bool) : option (option bytes) :=
  match fuel with O => None | S f =>
    match chunk with
    | [] => Some (if failed then None else Some s)
    | c :: ch1 =>
        let failed := failed || match s with [] => true | _ => false end in
        if is_byte 91 c then
          let '(r, s1) := if failed then (0%N, s) else (let '(rn, n) := utf8_decode s in (rn, skipn n s)) in
          let '(negated, ch2) := match ch1 with
                                 | d :: ch2 => if is_byte 94 d then (true, ch2) else (false, ch1)
                                 | [] => (false, ch1)
                                 end in
          match class_loop (S (List.length ch2)) ch2 r 0 false with
          | None => None
          | Some (mt, ch3) => match_chunk f ch3 s1 (failed || Bool.eqb mt negated)
          end
        else if is_byte 63 c then
          if failed then match_chunk f ch1 s failed
          else
            let slash := match s with b :: _ => is_byte 47 b | [] => false end in
            let '(_, n) := utf8_decode s in
            match_chunk f ch1 (skipn n s) slash
        else
          let lit (c0 : byte) (ch : bytes) :=
            if failed then match_chunk f ch s failed
            else match s with
                 | b :: s' => match_chunk f ch s' (negb (byte_eqb c0 b))
                 | [] => match_chunk f ch s true
                 end in
          if is_byte 92 c then
            match ch1 with
            | [] => None
            | d :: ch2 => lit d ch2
            end
          else lit c ch1
    end
  end.
Definition match_chunk0 (chunk s : bytes) : option (option bytes) := match_chunk (S (List.length chunk)) chunk s false.

(* the tail of Match after a failed chunk: the rest of the pattern must still be well-formed *)
Fixpoint check_rest (fuel : nat) (pattern : bytes) : bool :=
  match fuel with O => true | S f =>
    match pattern with
    | [] => true
    | _ =>
        let '(_, chunk, rest) := scan_chunk pattern in
        match match_chunk0 chunk [] with
        | None => false
        | Some _ => check_rest f rest
        end
    end
  end.

(* the star loop: try the chunk at name[i+1:] for i = 0.. while name[i] != '/' *)
Fixpoint star_loop (fuel : nat) (chunk name : bytes) (last : bool) : option (option bytes) :=
  match fuel with O => Some None | S f =>
    match name with
    | [] => Some None
    | b :: name' =>
        if is_byte 47 b then Some None
        else
          match match_chunk0 chunk name' with
          | Some (Some t) =>
              if last && negb (match t with [] => true | _ => false end) then star_loop f chunk name' last
              else Some (Some t)
          | None => None
          | Some None => star_loop f chunk name' last
          end
    end
  end.

Fixpoint path_match_fuel (fuel : nat) (pattern name : bytes) : option bool :=
  match fuel with O => None | S f =>
    match pattern with
    | [] => Some (match name with [] => true | _ => false end)
    | _ =>
        let '(star, chunk, rest) := scan_chunk pattern in
        let rest_empty := match rest with [] => true | _ => false end in
        if star && match chunk with [] => true | _ => false end
        then Some (negb (existsb (is_byte 47) name))
        else
          let r := match_chunk0 chunk name in
          let cont :=
            match r with
            | Some (Some t) => if (match t with [] => true | _ => false end) || negb rest_empty then Some t else None
            | _ => None
            end in
          match cont with
          | Some t => path_match_fuel f rest t
          | None =>
              match r with
              | None => None
              | _ =>
                  let after (u : unit) := if check_rest (S (List.length rest)) rest then Some false else None in
                  if star then
                    match star_loop (S (List.length name)) chunk name rest_empty with
                    | None => None
                    | Some (Some t) => path_match_fuel f rest t
                    | Some None => after tt
                    end
                  else after tt
              end
          end
    end
  end.
Definition path_match (pattern name : bytes) : option bool := path_match_fuel (S (List.length pattern)) pattern name.

(* ---------------- participle's unquote of a String token ---------------- *)
Definition unhex (b : byte) : option N :=
  if is_digit b then Some (bn b - 48)%N
  else if in_rng 97 102 b then Some (bn b - 87)%N
  else if in_rng 65 70 b then Some (bn b - 55)%N
  else None.

Fixpoint hex_val (n : nat) (s : bytes) (acc : N) : option (N * bytes) :=
  match n with
  | O => Some (acc, s)
  | S n' => match s with
            | b :: r => match unhex b with Some x => hex_val n' r (acc * 16 + x)%N | None => None end
            | [] => None
            end
  end.

(* strconv.UnquoteChar(s, quote): (rune value, tail) *)
Definition unquote_char (s : bytes) (q : byte) : option (N * bytes) :=
  match s with
  | [] => None
  | c :: r =>
      if byte_eqb c q then None
      else if N.leb 128 (bn c) then (let '(rn, n) := utf8_decode s in Some (rn, skipn n s))
      else if negb (is_byte 92 c) then Some (bn c, r)
      else
        match r with
        | [] => None
        | e :: r2 =>
            let simple (v : N) := Some (v, r2) in
            if is_byte 97 e then simple 7%N
            else if is_byte 98 e then simple 8%N
            else if is_byte 102 e then simple 12%N
            else if is_byte 110 e then simple 10%N
            else if is_byte 114 e then simple 13%N
            else if is_byte 116 e then simple 9%N
            else if is_byte 118 e then simple 11%N
            else if is_byte 120 e then hex_val 2 r2 0
            else if is_byte 117 e || is_byte 85 e then
              match hex_val (if is_byte 117 e then 4 else 8) r2 0 with
              | None => None
              | Some (v, r3) =>
                  if N.ltb v 55296 || (N.leb 57344 v && N.leb v 1114111) then Some (v, r3) else None
              end
            else if in_rng 48 55 e then
              match r2 with
              | d1 :: d2 :: r3 =>
                  if in_rng 48 55 d1 && in_rng 48 55 d2 then
                    let v := ((bn e - 48) * 64 + (bn d1 - 48) * 8 + (bn d2 - 48))%N in
                    if N.ltb 255 v then None else Some (v, r3)
                  else None
              | _ => None
              end
            else if is_byte 92 e then simple 92%N
            else if is_byte 39 e || is_byte 34 e then (if byte_eqb e q then simple (bn e) else None)
            else None
        end
  end.

Fixpoint unquote_loop (fuel : nat) (s : bytes) (q : byte) (acc : bytes) : option bytes :=
  match s with
  | [] => Some acc
  | _ =>
      match fuel with O => None | S f =>
        match unquote_char s q with
        | None => None
        | Some (v, tail) => unquote_loop f tail q (acc ++ utf8_encode v)
        end
      end
  end.

(* unquote(s): s[0] is the quote, s[1:len-1] the body *)
Definition go_unquote (s : bytes) : option bytes :=
  match s with
  | q :: r => let body := removelast r in unquote_loop (S (List.length body)) body q []
  | [] => None
  end.

(* ---------------- ASCII case mapping ---------------- *)
Definition ascii_upper (s : bytes) : bytes := map upper_byte s.
Definition ascii_lower (s : bytes) : bytes := map lower_byte s.

(* ---------------- sampled functions: association tables ---------------- *)
Fixpoint assoc {V : Type} (tab : list (bytes * V)) (k : bytes) : option V :=
  match tab with
  | [] => None
  | (k', v) :: r => if bytes_eqb k k' then Some v else assoc r k
  end.
Definition assoc_opt {V : Type} (tab : list (bytes * option V)) (k : bytes) : option V :=
  match assoc tab k with Some v => v | None => None end.
