(* Segments of a byte string / list and "every split of a trace" — shared by the scanner proofs (C17). *)
From LR Require Import lib.Base.

Section Seg.
Variable A : Type.

Definition seg (l : list A) (from len : nat) : list A := firstn len (skipn from l).

Lemma skipn_skipn' (x y : nat) (l : list A) : skipn x (skipn y l) = skipn (y + x) l.
Proof.
  revert l. induction y as [|y IH]; intros l; cbn; [reflexivity|].
  destruct l as [|a l]; [apply skipn_nil|apply IH].
Qed.

Lemma firstn_add (n m : nat) (l : list A) : firstn (n + m) l = firstn n l ++ firstn m (skipn n l).
Proof.
  revert l. induction n as [|n IH]; intros l; cbn; [reflexivity|].
  destruct l as [|x l]; cbn; [rewrite firstn_nil; reflexivity|]. f_equal. apply IH.
Qed.

Lemma seg_app (l : list A) a n m : seg l a n ++ seg l (a + n) m = seg l a (n + m).
Proof. unfold seg. rewrite <- skipn_skipn'. symmetry. apply firstn_add. Qed.

Lemma seg_skip (l : list A) a n : seg l a n ++ skipn (a + n) l = skipn a l.
Proof. unfold seg. rewrite <- skipn_skipn'. apply firstn_skipn. Qed.

Lemma split4 (l : list A) a n m :
  l = firstn a l ++ seg l a n ++ seg l (a + n) m ++ skipn (a + n + m) l.
Proof. rewrite seg_skip, seg_skip. symmetry. apply firstn_skipn. Qed.

Lemma seg_length_le (l : list A) a n : length (seg l a n) <= n.
Proof. unfold seg. rewrite firstn_length. lia. Qed.

Lemma seg_len_le (l b : list A) a : b = seg l a (length b) -> length b <= length (skipn a l).
Proof.
  unfold seg. intros H. assert (L : length b = length (firstn (length b) (skipn a l))) by (rewrite <- H; reflexivity).
  rewrite firstn_length in L. lia.
Qed.

Lemma seg_mono (l es b : list A) a : b = seg l a (length b) -> b = seg (l ++ es) a (length b).
Proof.
  intros H. pose proof (seg_len_le _ _ _ H) as L. unfold seg in *.
  rewrite skipn_app, firstn_app.
  replace (length b - length (skipn a l)) with 0 by lia. cbn. rewrite app_nil_r. exact H.
Qed.

Lemma seg_nil (l : list A) a : [] = seg l a 0.
Proof. reflexivity. Qed.

Lemma seg_all (l : list A) a : skipn a l = seg l a (length (skipn a l)).
Proof. unfold seg. rewrite firstn_all. reflexivity. Qed.

Lemma seg_firstn (l : list A) a n : n <= length (skipn a l) -> length (seg l a n) = n.
Proof. unfold seg. intros H. rewrite firstn_length. lia. Qed.

(* ---- every split of a trace ---- *)
Definition all_splits (P : list A -> A -> Prop) (tr : list A) : Prop :=
  forall t1 o t2, tr = t1 ++ o :: t2 -> P t1 o.

Lemma all_splits_nil P : all_splits P [].
Proof. intros t1 o t2 H. destruct t1; discriminate. Qed.

Lemma all_splits_snoc P tr o : all_splits P tr -> P tr o -> all_splits P (tr ++ [o]).
Proof.
  intros S H t1 o' t2 Eq.
  destruct t2 as [|x t2] using rev_ind.
  - apply app_inj_tail in Eq. destruct Eq as [-> ->]. exact H.
  - clear IHt2. rewrite app_comm_cons, app_assoc in Eq. apply app_inj_tail in Eq. destruct Eq as [Eq _].
    exact (S t1 o' t2 Eq).
Qed.

Lemma all_splits_app P tr os : all_splits P tr -> (forall t1 o t2, os = t1 ++ o :: t2 -> P (tr ++ t1) o) ->
  all_splits P (tr ++ os).
Proof.
  revert tr. induction os as [|o os IH]; intros tr S H; [rewrite app_nil_r; exact S|].
  replace (tr ++ o :: os) with ((tr ++ [o]) ++ os) by (rewrite <- app_assoc; reflexivity).
  apply IH.
  - apply all_splits_snoc; [exact S|]. specialize (H [] o os eq_refl). rewrite app_nil_r in H. exact H.
  - intros t1 o' t2 Eq. specialize (H (o :: t1) o' t2). rewrite <- app_assoc. apply H. rewrite Eq. reflexivity.
Qed.

Lemma all_splits_impl (P Q : list A -> A -> Prop) tr :
  (forall t o, P t o -> Q t o) -> all_splits P tr -> all_splits Q tr.
Proof. intros I S t1 o t2 Eq. apply I. exact (S t1 o t2 Eq). Qed.

End Seg.
Arguments seg {A}. Arguments all_splits {A}.
