(* Case vocabulary and checker shared by the correspondence checks of C04 and C16: the model of the cursor
   (model/Offset.v over model/Mixer.v and model/Iter.v) is run on the sources, filter, position, offset and
   operations the implementation was driven with, and compared with what the implementation returned. *)
From LR Require Export lib.Base model.Iter model.Mixer model.Offset.
Open Scope Z_scope.

(* a source as the harness describes it: scripted in-memory source, or a stored journal (chunk id, records,
   index window) read without RANGE (range iterator) or with RANGE (partition iterator) *)
Inductive srcspec :=
| SMem (tag : nat) (recs : list ev)
| SJrn (tag : nat) (ranged : bool) (chunks : list (Z * list ev * (Z * Z))).

Definition mk_journal (chunks : list (Z * list ev * (Z * Z))) : journal :=
  map (fun c => mkChunk (fst (fst c)) (snd (fst c)) (fst (snd c)) (snd (snd c))) chunks.

Definition src_leaf (s : srcspec) : nat * leaf :=
  match s with
  | SMem tag recs => (tag, LMem (Z.of_nat tag + 1) recs (mkCit 0 false))
  | SJrn tag ranged chunks => (tag, if ranged then LP (mk_journal chunks) (jit_at 0 0) else LR (mk_journal chunks) (jit_at 0 0))
  end.

Definition src_size (s : srcspec) : nat :=
  match s with
  | SMem _ recs => length recs
  | SJrn _ _ chunks => fold_right (fun c n => (length (snd (fst c)) + n)%nat) O chunks
  end.

(* enough for every terminating loop of the implementation on these sources: each round of fiterator.Get or
   iterateToPos consumes an event of some source or ends *)
Definition fuel_of (srcs : list srcspec) : nat := (4 * fold_right (fun s n => (src_size s + n)%nat) O srcs + 40)%nat.

Inductive qres := QOk (xs : list item) (ps : list (nat * (Z * Z))) | QErr | QHang.

Inductive case :=
| KScript (srcs : list srcspec) (f : option flt) (p : posspec) (ops : list cop) (obs : list cobs)
| KQuery (srcs : list srcspec) (f : option flt) (p : posspec) (offs : Z) (limit : nat) (res : qres)
(* a request over n matching partitions of which the journal of the one with index `failed` (if < n) cannot be opened;
   refused: the request ended with an error *)
| KOpen (n failed : nat) (refused : bool)
(* a request over n matching partitions of which the one with index `victim` is removed from the tag index while the
   visit is in progress (before the visit reaches it); opened: the indices of the partitions the cursor was built over,
   ascending (the visit order is the index's map order); refused: the request ended with an error *)
| KRemoved (n victim : nat) (opened : list nat) (refused : bool).

Definition ev_eqb (a b : ev) : bool := (fst a =? fst b) && Nat.eqb (snd a) (snd b).
Definition item_eqb (a b : item) : bool := ev_eqb (fst a) (fst b) && Nat.eqb (snd a) (snd b).
Definition zz_eqb (a b : Z * Z) : bool := (fst a =? fst b) && (snd a =? snd b).
Definition npos_eqb (a b : nat * (Z * Z)) : bool := Nat.eqb (fst a) (fst b) && zz_eqb (snd a) (snd b).

Definition cobs_eqb (a b : cobs) : bool :=
  match a, b with
  | RItem x, RItem y => option_eqb item_eqb x y
  | RPos x, RPos y => option_eqb zz_eqb x y
  | RUnit, RUnit => true
  | RHang, RHang => true
  | _, _ => false
  end.

Definition qres_eqb (a b : qres) : bool :=
  match a, b with
  | QOk xs ps, QOk ys qs => list_eqb item_eqb xs ys && list_eqb npos_eqb ps qs
  | QErr, QErr => true
  | QHang, QHang => true
  | _, _ => false
  end.

Definition model_query (srcs : list srcspec) (f : option flt) (p : posspec) (offs : Z) (limit : nat) : qres :=
  match new_cursor (map src_leaf srcs) f p with
  | None => QErr
  | Some c => match query (fuel_of srcs) c offs limit with
              | None => QHang
              | Some (_, xs, ps) => QOk xs ps
              end
  end.

Definition model_script (srcs : list srcspec) (f : option flt) (p : posspec) (ops : list cop) : list cobs :=
  match new_cursor (map src_leaf srcs) f p with
  | None => []
  | Some c => run_ops (fuel_of srcs) c ops
  end.

Definition check (c : case) : bool :=
  match c with
  | KScript srcs f p ops obs => list_eqb cobs_eqb (model_script srcs f p ops) obs
  | KQuery srcs f p offs limit res => qres_eqb (model_query srcs f p offs limit) res
  | KOpen n failed refused =>
      Bool.eqb (match get_journals_o (fun i => negb (Nat.eqb i failed)) merge_limit (seq 0 n) with None => true | Some _ => false end) refused
  | KRemoved n victim opened refused =>
      match get_journals_r (fun i => Nat.eqb i victim) (fun _ => true) merge_limit (seq 0 n) with
      | None => refused
      | Some l => negb refused && list_eqb Nat.eqb l opened
      end
  end.
