(* Checked-access vocabulary for the C13 decoder models: Go's `s[i]`, `s[lo:hi]`, `s[lo:]` as
   functions that return Panic when the Go runtime would (index / slice bounds out of range),
   the outcome monad, and Go's int64 wrap-around.  Definitions and their basic lemmas only. *)
From LR Require Export lib.Base.
From Coq Require Import ZifyN ZifyNat ZifyBool.

Definition bind {A B : Type} (o : outcome A) (f : A -> outcome B) : outcome B :=
  match o with
  | Ok a => f a
  | Err => Err
  | Panic => Panic
  | OutOfFuel => OutOfFuel
  end.

Notation "x <- e ;; f" := (bind e (fun x => f)) (at level 61, e at next level, right associativity).
Notation "' p <- e ;; f" := (bind e (fun p => f)) (at level 61, p pattern, e at next level, right associativity).

(* neither a panic nor a non-terminating loop *)
Definition safe {A : Type} (o : outcome A) : Prop := o <> Panic /\ o <> OutOfFuel.

Definition blen (s : bytes) : Z := Z.of_nat (length s).

(* s[lo:hi] on a string or on a slice whose capacity equals its length *)
Definition slice (s : bytes) (lo hi : Z) : outcome bytes :=
  if (0 <=? lo)%Z && (lo <=? hi)%Z && (hi <=? blen s)%Z
  then Ok (firstn (Z.to_nat (hi - lo)) (skipn (Z.to_nat lo) s))
  else Panic.

(* s[lo:] *)
Definition slice_from (s : bytes) (lo : Z) : outcome bytes := slice s lo (blen s).

(* s[i] *)
Definition at_ (s : bytes) (i : Z) : outcome byte :=
  if (0 <=? i)%Z && (i <? blen s)%Z
  then match nth_error s (Z.to_nat i) with Some b => Ok b | None => Panic end
  else Panic.

(* int(s[i]) *)
Definition at_z (s : bytes) (i : Z) : outcome Z := b <- at_ s i ;; Ok (Z.of_N (Byte.to_N b)).

(* Go int (64 bit) wrap-around of a mathematical integer *)
Definition two63 : Z := 9223372036854775808.
Definition two64 : Z := 18446744073709551616.
Definition to_int64 (z : Z) : Z := let m := (z mod two64)%Z in if (m <? two63)%Z then m else (m - two64)%Z.

Definition b_of_N (n : N) : byte := match Byte.of_N n with Some b => b | None => x00 end.
Definition b_of_Z (z : Z) : byte := b_of_N (Z.to_N (z mod 256)).
Definition zb (b : byte) : Z := Z.of_N (Byte.to_N b).

Definition outcome_eqb {A : Type} (eqb : A -> A -> bool) (a b : outcome A) : bool :=
  match a, b with
  | Ok x, Ok y => eqb x y
  | Err, Err => true
  | Panic, Panic => true
  | OutOfFuel, OutOfFuel => true
  | _, _ => false
  end.

(* ---- basic lemmas ---- *)

Lemma blen_nonneg s : (0 <= blen s)%Z.
Proof. unfold blen. lia. Qed.

Lemma blen_app a b : blen (a ++ b) = (blen a + blen b)%Z.
Proof. unfold blen. rewrite app_length. lia. Qed.

Lemma blen_cons x a : blen (x :: a) = (1 + blen a)%Z.
Proof. unfold blen. cbn [length]. lia. Qed.

Lemma blen_nil : blen [] = 0%Z.
Proof. reflexivity. Qed.

Lemma slice_ok s lo hi : (0 <= lo <= hi)%Z -> (hi <= blen s)%Z ->
  slice s lo hi = Ok (firstn (Z.to_nat (hi - lo)) (skipn (Z.to_nat lo) s)).
Proof.
  intros H1 H2. unfold slice.
  destruct (Z.leb_spec 0 lo); [|lia]. destruct (Z.leb_spec lo hi); [|lia]. destruct (Z.leb_spec hi (blen s)); [|lia].
  reflexivity.
Qed.

Lemma slice_panic_iff s lo hi : slice s lo hi = Panic <-> ~ ((0 <= lo <= hi)%Z /\ (hi <= blen s)%Z).
Proof.
  unfold slice.
  destruct (Z.leb_spec 0 lo); destruct (Z.leb_spec lo hi); destruct (Z.leb_spec hi (blen s)); cbn [andb];
    split; intros HH; try discriminate; try reflexivity; try lia; exfalso; apply HH; lia.
Qed.

Lemma slice_cases s lo hi : (exists r, slice s lo hi = Ok r /\ blen r = (hi - lo)%Z /\ (0 <= lo <= hi)%Z /\ (hi <= blen s)%Z) \/ slice s lo hi = Panic.
Proof.
  unfold slice.
  destruct (Z.leb_spec 0 lo); destruct (Z.leb_spec lo hi); destruct (Z.leb_spec hi (blen s)); cbn [andb]; try (right; reflexivity).
  left. eexists. split; [reflexivity|]. split; [|lia].
  unfold blen in *. rewrite firstn_length, skipn_length. lia.
Qed.

Lemma slice_from_ok s lo : (0 <= lo <= blen s)%Z -> slice_from s lo = Ok (skipn (Z.to_nat lo) s).
Proof.
  intros H. unfold slice_from. rewrite slice_ok by lia. f_equal.
  apply firstn_all2. rewrite skipn_length. unfold blen in *. lia.
Qed.

Lemma at_ok s i : (0 <= i < blen s)%Z -> exists b, at_ s i = Ok b.
Proof.
  intros H. unfold at_.
  destruct (Z.leb_spec 0 i); [|lia]. destruct (Z.ltb_spec i (blen s)); [|lia]. cbn [andb].
  destruct (nth_error s (Z.to_nat i)) eqn:E; [eexists; reflexivity|].
  apply nth_error_None in E. unfold blen in *. lia.
Qed.

Lemma at_z_ok s i : (0 <= i < blen s)%Z -> exists n, at_z s i = Ok n /\ (0 <= n <= 255)%Z.
Proof.
  intros H. destruct (at_ok s i H) as [b Hb]. unfold at_z. rewrite Hb. cbn [bind].
  eexists. split; [reflexivity|].
  pose proof (Byte.to_N_bounded b). lia.
Qed.

Lemma at_cases s i : (exists b, at_ s i = Ok b /\ (0 <= i < blen s)%Z) \/ (at_ s i = Panic /\ ~ (0 <= i < blen s)%Z).
Proof.
  destruct (Z.leb_spec 0 i); [destruct (Z.ltb_spec i (blen s))|].
  - left. destruct (at_ok s i) as [b Hb]; [lia|]. exists b. split; [exact Hb|lia].
  - right. unfold at_. destruct (Z.leb_spec 0 i); [|lia]. destruct (Z.ltb_spec i (blen s)); [lia|]. split; [reflexivity|lia].
  - right. unfold at_. destruct (Z.leb_spec 0 i); [lia|]. split; [reflexivity|lia].
Qed.

Lemma to_int64_small z : (- two63 <= z < two63)%Z -> to_int64 z = z.
Proof.
  intros H. unfold to_int64, two63, two64 in *.
  destruct (Z.ltb_spec (z mod 18446744073709551616) 9223372036854775808);
  pose proof (Z.mod_pos_bound z 18446744073709551616 ltac:(lia));
  pose proof (Z.div_mod z 18446744073709551616 ltac:(lia)); lia.
Qed.

Lemma to_int64_range z : (- two63 <= to_int64 z < two63)%Z.
Proof.
  unfold to_int64, two63, two64.
  pose proof (Z.mod_pos_bound z 18446744073709551616 ltac:(lia)).
  destruct (Z.ltb_spec (z mod 18446744073709551616) 9223372036854775808); lia.
Qed.

Lemma zb_range b : (0 <= zb b <= 255)%Z.
Proof. unfold zb. pose proof (Byte.to_N_bounded b). lia. Qed.

Lemma bind_ok_inv {A B} (o : outcome A) (f : A -> outcome B) r : bind o f = Ok r -> exists a, o = Ok a /\ f a = Ok r.
Proof. destruct o; cbn; intros H; try discriminate. eexists; split; [reflexivity|exact H]. Qed.

Lemma safe_bind {A B} (o : outcome A) (f : A -> outcome B) :
  safe o -> (forall a, o = Ok a -> safe (f a)) -> safe (bind o f).
Proof.
  intros [H1 H2] H. destruct o; cbn; try (split; discriminate); try congruence.
  apply H. reflexivity.
Qed.

Lemma safe_ok {A} (a : A) : safe (Ok a).
Proof. split; discriminate. Qed.
Lemma safe_err {A} : safe (@Err A).
Proof. split; discriminate. Qed.
