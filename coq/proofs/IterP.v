(* The concrete leaves satisfy the list contract of proofs/MixerP.v: what a leaf delivers from a state is a
   slice of its flat record list, determined by an integer position and the direction. *)
From LR Require Import lib.Base model.Iter.
From Coq Require Import Sorting.Sorted.
Open Scope Z_scope.

(* what an iterator standing at flat position p delivers: forward the records from p on, backward the records
   up to and including p, last first *)
Definition rest_at (flat : list ev) (bk : bool) (p : Z) : list ev :=
  if bk then rev (firstn (Z.to_nat (p + 1)) flat) else skipn (Z.to_nat p) flat.

Lemma hd_skipn {A} : forall n (l : list A), hd_error (skipn n l) = nth_error l n.
Proof. induction n; destruct l; cbn; auto. Qed.
Lemma tl_skipn {A} : forall n (l : list A), tl (skipn n l) = skipn (S n) l.
Proof.
  induction n; intros l.
  - destruct l; reflexivity.
  - destruct l as [|a l]; [reflexivity|]. cbn [skipn]. rewrite IHn. destruct l; reflexivity.
Qed.
Lemma firstn_S_nth {A} : forall n (l : list A) x, nth_error l n = Some x -> firstn (S n) l = firstn n l ++ [x].
Proof.
  induction n; destruct l; cbn; intros x H; try discriminate.
  - injection H as ->. reflexivity.
  - f_equal. apply IHn. exact H.
Qed.
Lemma nth_error_lt_some {A} (l : list A) n : (n < length l)%nat -> exists x, nth_error l n = Some x.
Proof. intros H. destruct (nth_error l n) eqn:E; [eauto|]. apply nth_error_None in E. lia. Qed.

Lemma rest_at_hd flat bk p : 0 <= p < Z.of_nat (length flat) ->
  hd_error (rest_at flat bk p) = nth_error flat (Z.to_nat p).
Proof.
  intros H. unfold rest_at. destruct bk; [|apply hd_skipn].
  replace (Z.to_nat (p + 1)) with (S (Z.to_nat p)) by lia.
  destruct (nth_error_lt_some flat (Z.to_nat p)) as [x E]; [lia|].
  rewrite (firstn_S_nth _ _ _ E), rev_app_distr, E. reflexivity.
Qed.
Lemma rest_at_tl_fwd flat p : 0 <= p -> tl (rest_at flat false p) = rest_at flat false (p + 1).
Proof. intros H. unfold rest_at. rewrite tl_skipn. f_equal. lia. Qed.
Lemma rest_at_tl_bwd flat p : 0 <= p < Z.of_nat (length flat) -> tl (rest_at flat true p) = rest_at flat true (p - 1).
Proof.
  intros H. unfold rest_at.
  replace (Z.to_nat (p + 1)) with (S (Z.to_nat p)) by lia. replace (Z.to_nat (p - 1 + 1)) with (Z.to_nat p) by lia.
  destruct (nth_error_lt_some flat (Z.to_nat p)) as [x E]; [lia|].
  rewrite (firstn_S_nth _ _ _ E), rev_app_distr. reflexivity.
Qed.
Lemma rest_at_fwd_end flat p : Z.of_nat (length flat) <= p -> rest_at flat false p = [].
Proof. intros H. unfold rest_at. apply skipn_all2. lia. Qed.
Lemma rest_at_fwd_neg flat p : p <= 0 -> rest_at flat false p = flat.
Proof. intros H. unfold rest_at. replace (Z.to_nat p) with O by lia. reflexivity. Qed.
Lemma rest_at_bwd_end flat p : p < 0 -> rest_at flat true p = [].
Proof. intros H. unfold rest_at. replace (Z.to_nat (p + 1)) with O by lia. reflexivity. Qed.
Lemma rest_at_bwd_all flat p : Z.of_nat (length flat) - 1 <= p -> rest_at flat true p = rev flat.
Proof. intros H. unfold rest_at. rewrite firstn_all2 by lia. reflexivity. Qed.

(* ------------------------------------------------------------------ the chunk iterator over cnt records *)
Definition ci_inv (cnt : Z) (c : cit) : Prop := -1 <= ci_pos c <= cnt.

(* the position Get settles on *)
Definition ci_norm (cnt : Z) (c : cit) : Z :=
  if ci_bk c then (if ci_pos c >=? cnt then cnt - 1 else ci_pos c) else (if ci_pos c <? 0 then 0 else ci_pos c).

Lemma ci_set_pos_spec cnt p c : 0 <= cnt -> -1 <= p <= cnt -> ci_set_pos cnt p c = mkCit p (ci_bk c).
Proof.
  intros Hc H. unfold ci_set_pos. destruct (Z.eqb_spec p (ci_pos c)); [subst; destruct c; reflexivity|].
  destruct (Z.gtb_spec p cnt); [lia|]. destruct (Z.ltb_spec p 0); [|reflexivity]. f_equal. lia.
Qed.

Lemma ci_get_spec cnt c : 0 <= cnt -> ci_inv cnt c ->
  let p := ci_norm cnt c in
  ci_get cnt c = (mkCit p (ci_bk c), if (0 <=? p) && (p <? cnt) then Some p else None).
Proof.
  intros Hc I. unfold ci_inv in I. unfold ci_get, ci_norm. destruct c as [pos b]. cbn [ci_pos ci_bk] in *.
  destruct b.
  - destruct (Z.geb_spec pos cnt).
    + rewrite ci_set_pos_spec by lia. cbn [ci_pos ci_bk].
      destruct (Z.ltb_spec (cnt - 1) 0), (Z.geb_spec (cnt - 1) cnt), (Z.leb_spec 0 (cnt - 1)), (Z.ltb_spec (cnt - 1) cnt); cbn; try reflexivity; lia.
    + cbn [ci_pos ci_bk].
      destruct (Z.ltb_spec pos 0), (Z.geb_spec pos cnt), (Z.leb_spec 0 pos), (Z.ltb_spec pos cnt); cbn; try reflexivity; lia.
  - destruct (Z.ltb_spec pos 0).
    + rewrite ci_set_pos_spec by lia. cbn [ci_pos ci_bk].
      destruct (Z.ltb_spec 0 0), (Z.geb_spec 0 cnt), (Z.leb_spec 0 0), (Z.ltb_spec 0 cnt); cbn; try reflexivity; lia.
    + cbn [ci_pos ci_bk].
      destruct (Z.ltb_spec pos 0), (Z.geb_spec pos cnt), (Z.leb_spec 0 pos), (Z.ltb_spec pos cnt); cbn; try reflexivity; lia.
Qed.

Lemma ci_next_spec cnt c : 0 <= cnt -> ci_inv cnt c ->
  let p := ci_norm cnt c in
  ci_next cnt c = if (0 <=? p) && (p <? cnt) then mkCit (if ci_bk c then p - 1 else p + 1) (ci_bk c) else mkCit p (ci_bk c).
Proof.
  intros Hc I. unfold ci_next. rewrite ci_get_spec by assumption. cbv zeta.
  set (p := ci_norm cnt c). destruct ((0 <=? p) && (p <? cnt)) eqn:E; [|reflexivity].
  apply andb_true_iff in E. destruct E as [E1 E2]. apply Z.leb_le in E1. apply Z.ltb_lt in E2.
  cbn [ci_bk ci_pos]. destruct (ci_bk c); [|reflexivity]. rewrite ci_set_pos_spec by lia. reflexivity.
Qed.

Lemma ci_norm_range cnt c : 0 <= cnt -> ci_inv cnt c -> -1 <= ci_norm cnt c <= cnt.
Proof. unfold ci_inv, ci_norm. intros. destruct (ci_bk c); [destruct (Z.geb_spec (ci_pos c) cnt)|destruct (Z.ltb_spec (ci_pos c) 0)]; lia. Qed.

(* ------------------------------------------------------------------ the in-memory leaf *)
Definition mem_rest (recs : list ev) (c : cit) : list ev := rest_at recs (ci_bk c) (ci_pos c).

Lemma mem_rest_norm recs c : ci_inv (Z.of_nat (length recs)) c ->
  rest_at recs (ci_bk c) (ci_norm (Z.of_nat (length recs)) c) = mem_rest recs c.
Proof.
  intros I. unfold mem_rest, ci_norm, ci_inv in *. destruct (ci_bk c).
  - destruct (Z.geb_spec (ci_pos c) (Z.of_nat (length recs))); [|reflexivity].
    rewrite !rest_at_bwd_all by lia. reflexivity.
  - destruct (Z.ltb_spec (ci_pos c) 0); [|reflexivity]. rewrite !rest_at_fwd_neg by lia. reflexivity.
Qed.

Lemma mem_get_spec m recs c : ci_inv (Z.of_nat (length recs)) c ->
  exists c', l_get (LMem m recs c) = (LMem m recs c', hd_error (mem_rest recs c)) /\
             ci_inv (Z.of_nat (length recs)) c' /\ mem_rest recs c' = mem_rest recs c /\ ci_bk c' = ci_bk c.
Proof.
  intros I. set (cnt := Z.of_nat (length recs)) in *. assert (Hc : 0 <= cnt) by lia.
  cbn [l_get]. rewrite ci_get_spec by assumption. cbv zeta.
  pose proof (ci_norm_range cnt c Hc I) as R. set (p := ci_norm cnt c) in *.
  exists (mkCit p (ci_bk c)). split; [|split; [exact R|split; [|reflexivity]]].
  - f_equal. rewrite <- (mem_rest_norm recs c I). fold cnt p.
    destruct ((0 <=? p) && (p <? cnt)) eqn:E.
    + apply andb_true_iff in E. destruct E as [E1 E2]. apply Z.leb_le in E1. apply Z.ltb_lt in E2.
      rewrite rest_at_hd by (fold cnt; lia). reflexivity.
    + apply andb_false_iff in E. destruct (ci_bk c) eqn:B.
      * destruct E as [E|E]; [apply Z.leb_gt in E; rewrite rest_at_bwd_end by lia; reflexivity|].
        apply Z.ltb_ge in E. exfalso. unfold p, ci_norm in E. rewrite B in E. unfold ci_inv in I.
        destruct (Z.geb_spec (ci_pos c) cnt); lia.
      * destruct E as [E|E]; [apply Z.leb_gt in E; exfalso; unfold p, ci_norm in E; rewrite B in E; destruct (Z.ltb_spec (ci_pos c) 0); lia|].
        apply Z.ltb_ge in E. rewrite rest_at_fwd_end by (fold cnt; lia). reflexivity.
  - rewrite <- (mem_rest_norm recs c I). unfold mem_rest. cbn [ci_bk ci_pos]. reflexivity.
Qed.

Lemma mem_next_spec m recs c : ci_inv (Z.of_nat (length recs)) c ->
  exists c', l_next (LMem m recs c) = LMem m recs c' /\
             ci_inv (Z.of_nat (length recs)) c' /\ mem_rest recs c' = tl (mem_rest recs c) /\ ci_bk c' = ci_bk c.
Proof.
  intros I. set (cnt := Z.of_nat (length recs)) in *. assert (Hc : 0 <= cnt) by lia.
  cbn [l_next]. rewrite ci_next_spec by assumption. cbv zeta.
  pose proof (ci_norm_range cnt c Hc I) as R. rewrite <- (mem_rest_norm recs c I). fold cnt.
  set (p := ci_norm cnt c) in *.
  destruct ((0 <=? p) && (p <? cnt)) eqn:E.
  - apply andb_true_iff in E. destruct E as [E1 E2]. apply Z.leb_le in E1. apply Z.ltb_lt in E2.
    eexists. split; [reflexivity|]. unfold mem_rest, ci_inv. cbn [ci_pos ci_bk]. destruct (ci_bk c).
    + split; [lia|]. split; [|reflexivity]. rewrite rest_at_tl_bwd by (fold cnt; lia). reflexivity.
    + split; [lia|]. split; [|reflexivity]. rewrite rest_at_tl_fwd by lia. reflexivity.
  - eexists. split; [reflexivity|]. unfold mem_rest, ci_inv. cbn [ci_pos ci_bk]. split; [lia|]. split; [|reflexivity].
    apply andb_false_iff in E. destruct (ci_bk c) eqn:B.
    + destruct E as [E|E]; [apply Z.leb_gt in E; rewrite rest_at_bwd_end by lia; reflexivity|].
      apply Z.ltb_ge in E. exfalso. unfold p, ci_norm in E. rewrite B in E. unfold ci_inv in I.
      destruct (Z.geb_spec (ci_pos c) cnt); lia.
    + destruct E as [E|E]; [apply Z.leb_gt in E; exfalso; unfold p, ci_norm in E; rewrite B in E; destruct (Z.ltb_spec (ci_pos c) 0); lia|].
      apply Z.ltb_ge in E. rewrite rest_at_fwd_end by (fold cnt; lia). reflexivity.
Qed.

(* ------------------------------------------------------------------ journals: flat record list and offsets *)
Definition flat (j : journal) : list ev := concat (map c_recs j).
Definition total (j : journal) : Z := Z.of_nat (length (flat j)).
(* number of records in the chunks with id < cid *)
Fixpoint off_of (j : journal) (cid : Z) : Z :=
  match j with
  | [] => 0
  | c :: tl => if c_id c <? cid then c_cnt c + off_of tl cid else 0
  end.

Definition chunk_ok (c : chunk) : Prop := 1 <= c_id c <= MaxU64 - 1 /\ 1 <= c_cnt c <= MaxU32.
(* ids strictly increasing, in range; no empty chunk *)
Fixpoint wf_journal (j : journal) : Prop :=
  match j with
  | [] => True
  | c :: tl => chunk_ok c /\ Forall (fun d => c_id c < c_id d) tl /\ wf_journal tl
  end.

Lemma flat_cons c tl : flat (c :: tl) = c_recs c ++ flat tl.
Proof. reflexivity. Qed.
Lemma total_cons c tl : total (c :: tl) = c_cnt c + total tl.
Proof. unfold total, c_cnt. rewrite flat_cons, app_length. lia. Qed.
Lemma total_nonneg j : 0 <= total j.
Proof. unfold total. lia. Qed.
Lemma c_cnt_nonneg c : 0 <= c_cnt c.
Proof. unfold c_cnt. lia. Qed.

Lemma off_of_range j cid : 0 <= off_of j cid <= total j.
Proof.
  induction j as [|c tl IH]; cbn [off_of]; [unfold total; cbn; lia|].
  rewrite total_cons. pose proof (c_cnt_nonneg c). pose proof (total_nonneg tl). destruct (c_id c <? cid); lia.
Qed.

Lemma off_of_all j cid : (forall c, In c j -> c_id c < cid) -> off_of j cid = total j.
Proof.
  induction j as [|c tl IH]; intros H; [reflexivity|]. cbn [off_of]. rewrite total_cons.
  destruct (Z.ltb_spec (c_id c) cid); [|specialize (H c (or_introl eq_refl)); lia].
  rewrite IH; [reflexivity|]. intros d Hd. apply H. right. exact Hd.
Qed.

Lemma off_of_none j cid : wf_journal j -> (forall c, In c j -> cid <= c_id c) -> off_of j cid = 0.
Proof.
  destruct j as [|c tl]; intros W H; [reflexivity|]. cbn [off_of].
  destruct (Z.ltb_spec (c_id c) cid); [specialize (H c (or_introl eq_refl)); lia|reflexivity].
Qed.

Lemma wf_tail c tl : wf_journal (c :: tl) -> wf_journal tl.
Proof. cbn. tauto. Qed.

Lemma wf_in j c : wf_journal j -> In c j -> chunk_ok c.
Proof.
  induction j as [|d tl IH]; intros W H; [contradiction|]. cbn in W. destruct W as (O & F & W).
  destruct H as [->|H]; [exact O|apply IH; assumption].
Qed.

Lemma find_chunk_some j cid c : find_chunk j cid = Some c -> c_id c = cid /\ In c j.
Proof.
  induction j as [|d tl IH]; cbn; [discriminate|]. destruct (Z.eqb_spec (c_id d) cid).
  - intros H. injection H as ->. auto.
  - intros H. destruct (IH H). auto.
Qed.

Lemma find_chunk_in j c : wf_journal j -> In c j -> find_chunk j (c_id c) = Some c.
Proof.
  induction j as [|d tl IH]; intros W H; [contradiction|]. cbn in W. destruct W as (O & F & W). cbn [find_chunk].
  destruct H as [->|H]; [rewrite Z.eqb_refl; reflexivity|].
  destruct (Z.eqb_spec (c_id d) (c_id c)) as [E|E]; [|apply IH; assumption].
  eapply Forall_forall in F; [|exact H]. lia.
Qed.

(* the records of chunk c sit at flat positions off_of j (c_id c) + q *)
Lemma nth_flat j c q : wf_journal j -> In c j -> 0 <= q < c_cnt c ->
  nth_error (flat j) (Z.to_nat (off_of j (c_id c) + q)) = nth_error (c_recs c) (Z.to_nat q).
Proof.
  induction j as [|d tl IH]; intros W H Hq; [contradiction|]. cbn in W. destruct W as (O & F & W).
  rewrite flat_cons. cbn [off_of]. destruct H as [->|H].
  - rewrite Z.ltb_irrefl. cbn. rewrite nth_error_app1; [reflexivity|]. unfold c_cnt in Hq. lia.
  - eapply Forall_forall in F as F'; [|exact H]. destruct (Z.ltb_spec (c_id d) (c_id c)); [|lia].
    pose proof (off_of_range tl (c_id c)). rewrite nth_error_app2 by (unfold c_cnt; lia).
    rewrite <- (IH W H Hq). f_equal. unfold c_cnt. lia.
Qed.

Lemma off_of_succ j c : wf_journal j -> In c j -> off_of j (c_id c + 1) = off_of j (c_id c) + c_cnt c.
Proof.
  induction j as [|d tl IH]; intros W H; [contradiction|]. cbn in W. destruct W as (O & F & W). cbn [off_of].
  destruct H as [->|H].
  - rewrite Z.ltb_irrefl. destruct (Z.ltb_spec (c_id c) (c_id c + 1)); [|lia].
    rewrite off_of_none; [lia|exact W|]. intros e He. eapply Forall_forall in F; [|exact He]. lia.
  - eapply Forall_forall in F as F'; [|exact H].
    destruct (Z.ltb_spec (c_id d) (c_id c)); [|lia]. destruct (Z.ltb_spec (c_id d) (c_id c + 1)); [|lia].
    rewrite IH by assumption. lia.
Qed.

(* first chunk with id >= x *)
Lemma first_ge_some j x c : wf_journal j -> first_ge j x = Some c ->
  x <= c_id c /\ In c j /\ off_of j x = off_of j (c_id c).
Proof.
  induction j as [|d tl IH]; intros W H; [discriminate|]. cbn in W. destruct W as (O & F & W). cbn [first_ge off_of] in *.
  destruct (Z.geb_spec (c_id d) x).
  - injection H as ->. rewrite Z.ltb_irrefl. destruct (Z.ltb_spec (c_id c) x); [lia|]. split; [lia|]. split; [left; reflexivity|reflexivity].
  - destruct (IH W H) as (H1 & H2 & H3). eapply Forall_forall in F; [|exact H2].
    destruct (Z.ltb_spec (c_id d) x); [|lia]. destruct (Z.ltb_spec (c_id d) (c_id c)); [|lia]. rewrite H3. split; [lia|]. split; [right; exact H2|reflexivity].
Qed.
Lemma first_ge_none j x : first_ge j x = None -> (forall c, In c j -> c_id c < x).
Proof.
  induction j as [|d tl IH]; intros H c Hc; [contradiction|]. cbn [first_ge] in H.
  destruct (Z.geb_spec (c_id d) x); [discriminate|]. destruct Hc as [->|Hc]; [lia|apply IH; assumption].
Qed.

Lemma last_chunk_in j c : last_chunk j = Some c -> In c j.
Proof.
  induction j as [|d tl IH]; [discriminate|]. destruct tl as [|e tl'].
  - cbn. intros H. injection H as ->. auto.
  - intros H. right. apply IH. exact H.
Qed.
Lemma last_chunk_some j : j <> [] -> exists c, last_chunk j = Some c.
Proof.
  induction j as [|d tl IH]; [congruence|]. intros _. destruct tl as [|e tl']; [eexists; reflexivity|].
  destruct IH as [c E]; [discriminate|]. exists c. exact E.
Qed.
(* the last chunk closes the journal *)
Lemma last_chunk_total j c : wf_journal j -> last_chunk j = Some c -> off_of j (c_id c) + c_cnt c = total j.
Proof.
  intros W H. pose proof (last_chunk_in _ _ H) as I. rewrite <- (off_of_succ j c W I).
  apply off_of_all. revert W H. clear I. induction j as [|d tl IH]; intros W H e He; [contradiction|].
  cbn in W. destruct W as (O & F & W). destruct tl as [|e' tl'].
  - cbn in H. injection H as ->. destruct He as [->|[]]. lia.
  - change (last_chunk (e' :: tl') = Some c) in H. destruct He as [->|He].
    + pose proof (last_chunk_in _ _ H) as I. eapply Forall_forall in F; [|exact I]. lia.
    + apply IH; assumption.
Qed.

(* last chunk with id <= x *)
Lemma last_le_some j x c : wf_journal j -> last_le j x = Some c ->
  c_id c <= x /\ In c j /\ off_of j (x + 1) = off_of j (c_id c) + c_cnt c.
Proof.
  induction j as [|d tl IH]; intros W H; [discriminate|]. pose proof W as W0. cbn in W. destruct W as (O & F & W).
  cbn [last_le] in H. destruct (Z.leb_spec (c_id d) x); [|discriminate].
  destruct (last_le tl x) as [e|] eqn:E.
  - injection H as ->. destruct (IH W eq_refl) as (H1 & H2 & H3). split; [exact H1|]. split; [right; exact H2|].
    eapply Forall_forall in F; [|exact H2]. cbn [off_of].
    destruct (Z.ltb_spec (c_id d) (x + 1)); [|lia]. destruct (Z.ltb_spec (c_id d) (c_id c)); [|lia]. rewrite H3. lia.
  - injection H as ->. split; [lia|]. split; [left; reflexivity|].
    rewrite <- (off_of_succ (c :: tl) c W0 (or_introl eq_refl)).
    cbn [off_of]. destruct (Z.ltb_spec (c_id c) (x + 1)); [|lia]. destruct (Z.ltb_spec (c_id c) (c_id c + 1)); [|lia].
    f_equal. rewrite (off_of_none tl (c_id c + 1)); [|exact W|intros e He; eapply Forall_forall in F; [|exact He]; lia].
    (* no chunk of tl has id <= x *)
    destruct tl as [|e tl']; [reflexivity|]. cbn [last_le] in E. cbn [off_of].
    destruct (Z.leb_spec (c_id e) x); [destruct (last_le tl' x); discriminate|].
    destruct (Z.ltb_spec (c_id e) (x + 1)); [lia|reflexivity].
Qed.
Lemma last_le_none j x : wf_journal j -> last_le j x = None -> off_of j (x + 1) = 0.
Proof.
  destruct j as [|d tl]; intros W H; [reflexivity|]. cbn [last_le] in H. cbn [off_of].
  destruct (Z.leb_spec (c_id d) x); [destruct (last_le tl x); discriminate|].
  destruct (Z.ltb_spec (c_id d) (x + 1)); [lia|reflexivity].
Qed.

Lemma first_ge_in j c : wf_journal j -> In c j -> first_ge j (c_id c) = Some c.
Proof.
  induction j as [|d tl IH]; intros W H; [contradiction|]. cbn in W. destruct W as (O & F & W). cbn [first_ge].
  destruct H as [->|H]; [destruct (Z.geb_spec (c_id c) (c_id c)); [reflexivity|lia]|].
  eapply Forall_forall in F as F'; [|exact H]. destruct (Z.geb_spec (c_id d) (c_id c)); [lia|]. apply IH; assumption.
Qed.
Lemma last_le_in j c : wf_journal j -> In c j -> last_le j (c_id c) = Some c.
Proof.
  induction j as [|d tl IH]; intros W H; [contradiction|]. cbn in W. destruct W as (O & F & W). cbn [last_le].
  destruct H as [->|H].
  - destruct (Z.leb_spec (c_id c) (c_id c)); [|lia].
    destruct tl as [|e tl']; [reflexivity|]. cbn [last_le]. inversion F; subst.
    destruct (Z.leb_spec (c_id e) (c_id c)); [lia|reflexivity].
  - eapply Forall_forall in F as F'; [|exact H]. destruct (Z.leb_spec (c_id d) (c_id c)); [|lia].
    rewrite IH by assumption. reflexivity.
Qed.

(* ------------------------------------------------------------------ the range journal iterator *)
Definition lr_inv (j : journal) (s : jit) : Prop :=
  wf_journal j /\
  match j_ci s with
  | Some ci => (exists c, find_chunk j (j_cid s) = Some c) /\ ci_inv (cnt_of j (j_cid s)) ci /\ ci_bk ci = j_bk s
  | None => 0 <= j_cid s <= MaxU64 /\ 0 <= j_idx s <= MaxU32
  end.

(* the flat position the state stands for, in its direction *)
Definition lr_pos (j : journal) (s : jit) : Z :=
  match j_ci s with
  | Some ci => off_of j (j_cid s) + ci_norm (cnt_of j (j_cid s)) ci
  | None =>
      if j_bk s then
        match last_le j (j_cid s) with
        | Some c => off_of j (c_id c) + (if c_id c =? j_cid s then Z.min (j_idx s) (c_cnt c - 1) else c_cnt c - 1)
        | None => -1
        end
      else
        match first_ge j (j_cid s) with
        | Some c => off_of j (c_id c) + (if c_id c =? j_cid s then Z.min (j_idx s) (c_cnt c) else 0)
        | None => total j
        end
  end.

(* the end of a direction, as Get leaves it: forward on (last chunk, its count), backward below the first chunk *)
Definition lr_eof (j : journal) (s : jit) : Prop :=
  if j_bk s then last_le j (j_cid s) = None
  else j = [] \/ exists lc, last_chunk j = Some lc /\ j_cid s = c_id lc /\ j_idx s = c_cnt lc.

(* a state Get leaves behind: on a record, or at the end of its direction with the chunk closed *)
Definition lr_settled (j : journal) (s : jit) : Prop :=
  match j_ci s with
  | Some ci => 0 <= ci_pos ci < cnt_of j (j_cid s)
  | None => lr_eof j s
  end.

Lemma u32_id z : 0 <= z <= MaxU32 -> u32 z = z.
Proof. intros H. unfold u32, MaxU32 in *. apply Z.mod_small. lia. Qed.
Lemma u64_id z : 0 <= z <= MaxU64 -> u64 z = z.
Proof. intros H. unfold u64, MaxU64 in *. apply Z.mod_small. lia. Qed.

Lemma cnt_of_find j cid c : find_chunk j cid = Some c -> cnt_of j cid = c_cnt c.
Proof. intros H. unfold cnt_of. rewrite H. reflexivity. Qed.

Lemma fresh_set_pos cnt idx b : 0 <= cnt -> 0 <= idx -> ci_set_pos cnt idx (mkCit 0 b) = mkCit (Z.min idx cnt) b.
Proof.
  intros Hc Hi. unfold ci_set_pos. cbn [ci_pos ci_bk]. destruct (Z.eqb_spec idx 0); [subst; f_equal; lia|].
  destruct (Z.gtb_spec idx cnt).
  - destruct (Z.ltb_spec cnt 0); [lia|]. f_equal. lia.
  - destruct (Z.ltb_spec idx 0); [lia|]. f_equal. lia.
Qed.

(* opening the chunk c at Idx = idx *)
Lemma open_ci_spec j c cidx b : wf_journal j -> In c j -> 0 <= cidx <= MaxU32 ->
  let s1 := open_ci (c_cnt c) (mkJit (c_id c) cidx None b) in
  s1 = mkJit (c_id c) (Z.min cidx (c_cnt c)) (Some (mkCit (Z.min cidx (c_cnt c)) b)) b /\ lr_inv j s1.
Proof.
  intros W I H. pose proof (wf_in j c W I) as (Hid & Hcnt). cbv zeta. unfold open_ci. cbn [j_idx j_bk j_cid].
  unfold ci_set_backward. cbn [ci_pos]. rewrite fresh_set_pos by lia. cbn [ci_pos]. rewrite u32_id by lia.
  split; [reflexivity|]. unfold lr_inv. cbn [j_ci j_cid j_bk]. split; [exact W|].
  rewrite (cnt_of_find j (c_id c) c (find_chunk_in j c W I)). split; [exists c; apply find_chunk_in; assumption|].
  unfold ci_inv. cbn. split; [lia|reflexivity].
Qed.

Lemma last_chunk_none j : last_chunk j = None -> j = [].
Proof. destruct j as [|c tl]; [reflexivity|]. intros H. destruct (last_chunk_some (c :: tl)) as [d E]; [discriminate|congruence]. Qed.

Lemma lr_eof_pos j s : wf_journal j -> j_ci s = None -> lr_eof j s -> lr_pos j s = if j_bk s then -1 else total j.
Proof.
  intros W E H. unfold lr_pos, lr_eof in *. rewrite E. destruct (j_bk s).
  - rewrite H. reflexivity.
  - destruct H as [->|(lc & L & Hc & Hi)]; [reflexivity|].
    pose proof (last_chunk_in j lc L) as Hin. rewrite Hc, Hi, (first_ge_in j lc W Hin), Z.eqb_refl, Z.min_id.
    apply last_chunk_total; assumption.
Qed.

Lemma lr_ensure_spec j s : lr_inv j s -> j_ci s = None ->
  exists s1 ok, rj_ensure j s = (s1, ok) /\ lr_inv j s1 /\ j_bk s1 = j_bk s /\ lr_pos j s1 = lr_pos j s /\
    (ok = true -> exists c ci1, In c j /\ j_cid s1 = c_id c /\ j_ci s1 = Some ci1 /\
        ci_pos ci1 = if c_id c =? j_cid s then Z.min (j_idx s) (c_cnt c) else (if j_bk s then c_cnt c else 0)) /\
    (ok = false -> j_ci s1 = None /\ lr_eof j s1).
Proof.
  intros (W & I) E. rewrite E in I. destruct I as (Ic & Ii). unfold rj_ensure. rewrite E.
  destruct s as [cid idx ci b]. cbn [j_ci j_cid j_idx j_bk] in *. subst ci.
  destruct b.
  - (* backward *)
    unfold chunk_le. destruct (last_le j cid) as [c|] eqn:L.
    + destruct (last_le_some j cid c W L) as (Hle & Hin & Hoff). pose proof (wf_in j c W Hin) as (Hid & Hcnt).
      cbn [negb andb]. rewrite andb_false_r.
      destruct (Z.ltb_spec (c_id c) cid).
      * (* an earlier chunk: the position becomes (id, count) and the chunk is opened at its end *)
        unfold j_with_pos. cbn [j_ci j_bk j_cid j_idx]. rewrite u32_id by lia.
        destruct (Z.gtb_spec (c_id c) (c_id c)); [lia|].
        destruct (open_ci_spec j c (c_cnt c) true W Hin) as (Es & Is); [lia|]. cbv zeta in Es, Is.
        eexists _, true. split; [reflexivity|]. split; [exact Is|]. rewrite Es. cbn [j_bk]. split; [reflexivity|].
        split; [|split; [intros _; exists c; eexists; split; [exact Hin|]; split; [reflexivity|]; split; [reflexivity|]; cbn [ci_pos j_cid j_idx j_bk]; destruct (Z.eqb_spec (c_id c) cid); lia|discriminate]].
        unfold lr_pos. cbn [j_ci j_cid j_bk j_idx]. rewrite L.
        rewrite (cnt_of_find j (c_id c) c (find_chunk_in j c W Hin)). unfold ci_norm. cbn [ci_bk ci_pos].
        rewrite Z.min_id. destruct (Z.geb_spec (c_cnt c) (c_cnt c)); [|lia]. destruct (Z.eqb_spec (c_id c) cid); [lia|]. reflexivity.
      * assert (c_id c = cid) by lia. subst cid.
        unfold j_with_pos. cbn [j_ci j_bk j_cid j_idx]. destruct (Z.gtb_spec (c_id c) (c_id c)); [lia|].
        destruct (open_ci_spec j c idx true W Hin) as (Es & Is); [lia|]. cbv zeta in Es, Is.
        eexists _, true. split; [reflexivity|]. split; [exact Is|]. rewrite Es. cbn [j_bk]. split; [reflexivity|].
        split; [|split; [intros _; exists c; eexists; split; [exact Hin|]; split; [reflexivity|]; split; [reflexivity|]; cbn [ci_pos j_cid j_idx j_bk]; rewrite Z.eqb_refl; reflexivity|discriminate]].
        unfold lr_pos. cbn [j_ci j_cid j_bk j_idx]. rewrite L, Z.eqb_refl.
        rewrite (cnt_of_find j (c_id c) c (find_chunk_in j c W Hin)). unfold ci_norm. cbn [ci_bk ci_pos].
        destruct (Z.geb_spec (Z.min idx (c_cnt c)) (c_cnt c)); lia.
    + eexists _, false. split; [reflexivity|]. split; [split; [exact W|cbn; auto]|]. split; [reflexivity|]. split; [reflexivity|].
      split; [discriminate|]. intros _. split; [reflexivity|]. unfold lr_eof. cbn. exact L.
  - (* forward *)
    unfold chunk_ge. destruct (first_ge j cid) as [c|] eqn:G.
    + destruct (first_ge_some j cid c W G) as (Hge & Hin & Hoff). pose proof (wf_in j c W Hin) as (Hid & Hcnt).
      destruct (Z.ltb_spec (c_id c) cid); [lia|]. cbn [andb].
      unfold j_with_pos. cbn [j_ci j_bk j_cid j_idx].
      destruct (Z.gtb_spec (c_id c) cid).
      * destruct (open_ci_spec j c 0 false W Hin) as (Es & Is); [unfold MaxU32; lia|]. cbv zeta in Es, Is.
        eexists _, true. split; [reflexivity|]. split; [exact Is|]. rewrite Es. cbn [j_bk]. split; [reflexivity|].
        split; [|split; [intros _; exists c; eexists; split; [exact Hin|]; split; [reflexivity|]; split; [reflexivity|]; cbn [ci_pos j_cid j_idx j_bk]; destruct (Z.eqb_spec (c_id c) cid); lia|discriminate]].
        unfold lr_pos. cbn [j_ci j_cid j_bk j_idx]. rewrite G.
        rewrite (cnt_of_find j (c_id c) c (find_chunk_in j c W Hin)). unfold ci_norm. cbn [ci_bk ci_pos].
        destruct (Z.eqb_spec (c_id c) cid); [lia|]. replace (Z.min 0 (c_cnt c)) with 0 by lia. reflexivity.
      * assert (c_id c = cid) by lia. subst cid.
        destruct (open_ci_spec j c idx false W Hin) as (Es & Is); [lia|]. cbv zeta in Es, Is.
        eexists _, true. split; [reflexivity|]. split; [exact Is|]. rewrite Es. cbn [j_bk]. split; [reflexivity|].
        split; [|split; [intros _; exists c; eexists; split; [exact Hin|]; split; [reflexivity|]; split; [reflexivity|]; cbn [ci_pos j_cid j_idx j_bk]; rewrite Z.eqb_refl; reflexivity|discriminate]].
        unfold lr_pos. cbn [j_ci j_cid j_bk j_idx]. rewrite G, Z.eqb_refl.
        rewrite (cnt_of_find j (c_id c) c (find_chunk_in j c W Hin)). unfold ci_norm. cbn [ci_bk ci_pos].
        destruct (Z.ltb_spec (Z.min idx (c_cnt c)) 0); lia.
    + pose proof (first_ge_none j cid G) as Hall.
      destruct (last_chunk j) as [lc|] eqn:LC.
      * pose proof (last_chunk_in j lc LC) as Hin. pose proof (wf_in j lc W Hin) as (Hid & Hcnt). specialize (Hall lc Hin).
        destruct (Z.ltb_spec (c_id lc) cid); [|lia]. cbn [negb andb].
        eexists _, false. split; [reflexivity|]. unfold j_with_pos. cbn [j_ci j_bk]. rewrite u32_id by lia.
        split; [split; [exact W|cbn; unfold MaxU64 in *; lia]|]. split; [reflexivity|].
        assert (P : lr_pos j (mkJit (c_id lc) (c_cnt lc) None false) = total j).
        { unfold lr_pos. cbn [j_ci j_cid j_bk j_idx]. rewrite (first_ge_in j lc W Hin), Z.eqb_refl, Z.min_id.
          apply last_chunk_total; assumption. }
        split; [rewrite P; unfold lr_pos; cbn; rewrite G; reflexivity|]. split; [discriminate|]. intros _. split; [reflexivity|].
        unfold lr_eof. cbn. right. exists lc. auto.
      * eexists _, false. split; [reflexivity|]. split; [split; [exact W|cbn; auto]|]. split; [reflexivity|]. split; [reflexivity|].
        split; [discriminate|]. intros _. split; [reflexivity|]. unfold lr_eof. cbn. left. apply last_chunk_none. exact LC.
Qed.

Lemma in_off_le j c : wf_journal j -> In c j -> off_of j (c_id c) + c_cnt c <= total j.
Proof. intros W I. rewrite <- (off_of_succ j c W I). apply off_of_range. Qed.

(* advanceChunk from the edge of the open chunk: the position is kept; a chunk opened by it stands on a record *)
Lemma lr_advance_spec j s ci c : lr_inv j s -> j_ci s = Some ci -> find_chunk j (j_cid s) = Some c ->
  ci_norm (c_cnt c) ci = (if j_bk s then -1 else c_cnt c) ->
  exists s2 ok, rj_advance j s = (s2, ok) /\ lr_inv j s2 /\ j_bk s2 = j_bk s /\ lr_pos j s2 = lr_pos j s /\
    (ok = true -> exists c' ci', find_chunk j (j_cid s2) = Some c' /\ j_ci s2 = Some ci' /\ ci_bk ci' = j_bk s /\
                                 ci_pos ci' = if j_bk s then c_cnt c' else 0) /\
    (ok = false -> j_ci s2 = None /\ lr_eof j s2).
Proof.
  intros (W & I) E F Hn. rewrite E in I. destruct I as (_ & Ici & Ibk).
  destruct (find_chunk_some j _ c F) as (Hid & Hin). pose proof (wf_in j c W Hin) as (Hidr & Hcnt).
  unfold rj_advance.
  set (s0 := if j_bk s then j_with_pos (j_with_ci s None) (u64 (j_cid s - 1)) MaxU32
             else j_with_pos (j_with_ci s None) (u64 (j_cid s + 1)) 0).
  assert (P0 : lr_pos j s0 = lr_pos j s /\ lr_inv j s0 /\ j_ci s0 = None /\ j_bk s0 = j_bk s /\
               j_cid s0 = (if j_bk s then j_cid s - 1 else j_cid s + 1) /\ j_idx s0 = (if j_bk s then MaxU32 else 0)).
  { unfold s0, lr_pos at 2. rewrite E, (cnt_of_find j _ c F), Hn. destruct (j_bk s) eqn:B.
    - rewrite u64_id by (unfold MaxU64 in *; lia). unfold j_with_pos, j_with_ci, lr_pos, lr_inv. cbn [j_ci j_cid j_idx j_bk]. rewrite ?B.
      split; [|split; [split; [exact W|unfold MaxU64, MaxU32 in *; lia]|auto]].
      destruct (last_le j (j_cid s - 1)) as [c'|] eqn:L.
      + destruct (last_le_some j _ c' W L) as (H1 & H2 & H3). pose proof (wf_in j c' W H2) as (_ & Hc').
        replace (j_cid s - 1 + 1) with (j_cid s) in H3 by lia.
        destruct (Z.eqb_spec (c_id c') (j_cid s - 1)); unfold MaxU32 in *; lia.
      + pose proof (last_le_none j _ W L) as H3. replace (j_cid s - 1 + 1) with (j_cid s) in H3 by lia. lia.
    - rewrite u64_id by (unfold MaxU64 in *; lia). unfold j_with_pos, j_with_ci, lr_pos, lr_inv. cbn [j_ci j_cid j_idx j_bk]. rewrite ?B.
      split; [|split; [split; [exact W|unfold MaxU64, MaxU32 in *; lia]|auto]].
      pose proof (off_of_succ j c W Hin) as S. rewrite Hid in S.
      destruct (first_ge j (j_cid s + 1)) as [c'|] eqn:G.
      + destruct (first_ge_some j _ c' W G) as (H1 & H2 & H3). pose proof (wf_in j c' W H2) as (_ & Hc').
        destruct (Z.eqb_spec (c_id c') (j_cid s + 1)); lia.
      + pose proof (first_ge_none j _ G) as H3. rewrite <- (off_of_all j (j_cid s + 1) H3). lia. }
  destruct P0 as (P0 & I0 & E0 & B0 & C0 & X0).
  destruct (lr_ensure_spec j s0 I0 E0) as (s2 & ok & Ee & I2 & B2 & P2 & Ht & Hf).
  exists s2, ok. split; [exact Ee|]. split; [exact I2|]. split; [congruence|]. split; [congruence|]. split.
  - intros Hok. destruct (Ht Hok) as (c' & ci' & Hin' & Hc' & Hci' & Hp'). exists c', ci'.
    split; [rewrite Hc'; apply find_chunk_in; assumption|]. split; [exact Hci'|].
    destruct I2 as (_ & I2). rewrite Hci' in I2. destruct I2 as (_ & _ & Hb'). split; [congruence|].
    rewrite Hp', C0, X0, B0. pose proof (wf_in j c' W Hin') as (_ & Hcc).
    destruct (j_bk s); match goal with |- context [?a =? ?b] => destruct (Z.eqb_spec a b) end; unfold MaxU32 in *; lia.
  - exact Hf.
Qed.

Definition lr_out (j : journal) (p : Z) : option ev :=
  if (0 <=? p) && (p <? total j) then nth_error (flat j) (Z.to_nat p) else None.

(* an open chunk standing on a record: Get returns it *)
Lemma lr_hit j s ci c fuel : lr_inv j s -> j_ci s = Some ci -> find_chunk j (j_cid s) = Some c ->
  0 <= ci_norm (c_cnt c) ci < c_cnt c ->
  exists s', rj_get_loop fuel j s = (s', lr_out j (lr_pos j s)) /\ lr_inv j s' /\ j_bk s' = j_bk s /\
             lr_pos j s' = lr_pos j s /\ lr_settled j s'.
Proof.
  intros (W & I) E F Hq. rewrite E in I. destruct I as (Hex & Ici & Ibk).
  destruct (find_chunk_some j _ c F) as (Hid & Hin). pose proof (wf_in j c W Hin) as (Hidr & Hcnt).
  pose proof (cnt_of_find j _ c F) as Hc. rewrite Hc in Ici.
  set (q := ci_norm (c_cnt c) ci) in *.
  assert (G : rj_get_loop fuel j s = (j_with_ci s (Some (mkCit q (ci_bk ci))), rec_of j (j_cid s) q)).
  { destruct fuel; cbn [rj_get_loop]; rewrite E, Hc, (ci_get_spec (c_cnt c) ci) by (assumption || lia); fold q; cbv zeta;
    destruct (Z.leb_spec 0 q); destruct (Z.ltb_spec q (c_cnt c)); try lia; reflexivity. }
  eexists. split.
  - rewrite G. f_equal. unfold rec_of. rewrite F. unfold lr_pos. rewrite E, Hc. fold q.
    unfold lr_out. pose proof (in_off_le j c W Hin) as Hle. pose proof (off_of_range j (c_id c)) as Hr. rewrite Hid in *.
    destruct (Z.leb_spec 0 (off_of j (j_cid s) + q)); [|lia]. destruct (Z.ltb_spec (off_of j (j_cid s) + q) (total j)); [|lia].
    cbn [andb]. rewrite <- Hid. rewrite nth_flat by (assumption || lia). reflexivity.
  - unfold j_with_ci, lr_inv, lr_pos, lr_settled. cbn [j_ci j_cid j_bk j_idx]. rewrite E, Hc. fold q.
    assert (Nq : ci_norm (c_cnt c) (mkCit q (ci_bk ci)) = q).
    { unfold ci_norm. cbn [ci_bk ci_pos]. destruct (ci_bk ci); [destruct (Z.geb_spec q (c_cnt c))|destruct (Z.ltb_spec q 0)]; lia. }
    rewrite Nq. unfold ci_inv. cbn [ci_pos ci_bk]. repeat split; auto; try lia.
Qed.

Lemma ci_norm_edge cnt ci : 0 <= cnt -> ci_inv cnt ci -> ~ (0 <= ci_norm cnt ci < cnt) ->
  ci_norm cnt ci = if ci_bk ci then -1 else cnt.
Proof.
  intros Hc I H. pose proof (ci_norm_range cnt ci Hc I). unfold ci_norm, ci_inv in *.
  destruct (ci_bk ci); [destruct (Z.geb_spec (ci_pos ci) cnt)|destruct (Z.ltb_spec (ci_pos ci) 0)]; lia.
Qed.

Lemma lr_out_end j bk : lr_out j (if bk : bool then -1 else total j) = None.
Proof. unfold lr_out. destruct bk; [reflexivity|]. destruct (Z.ltb_spec (total j) (total j)); [lia|]. rewrite andb_false_r. reflexivity. Qed.

(* the loop of Get from an open chunk *)
Lemma lr_loop_spec j s ci fuel : lr_inv j s -> j_ci s = Some ci -> (1 <= fuel)%nat ->
  exists s', rj_get_loop fuel j s = (s', lr_out j (lr_pos j s)) /\ lr_inv j s' /\ j_bk s' = j_bk s /\
             lr_pos j s' = lr_pos j s /\ lr_settled j s'.
Proof.
  intros Inv E Hf. pose proof Inv as (W & I). rewrite E in I. destruct I as ((c & F) & Ici & Ibk).
  destruct (find_chunk_some j _ c F) as (Hid & Hin). pose proof (wf_in j c W Hin) as (Hidr & Hcnt).
  pose proof (cnt_of_find j _ c F) as Hc. rewrite Hc in Ici.
  destruct (Z_le_dec 0 (ci_norm (c_cnt c) ci)) as [H0|H0]; [destruct (Z_lt_dec (ci_norm (c_cnt c) ci) (c_cnt c)) as [H1|H1]|].
  - apply (lr_hit j s ci c fuel Inv E F). lia.
  - (* forward edge *) 
    assert (Hn : ci_norm (c_cnt c) ci = if j_bk s then -1 else c_cnt c).
    { rewrite <- Ibk. apply ci_norm_edge; [lia|exact Ici|lia]. }
    destruct fuel as [|f]; [lia|]. cbn [rj_get_loop]. rewrite E, Hc, (ci_get_spec (c_cnt c) ci) by (assumption || lia). cbv zeta.
    destruct (Z.ltb_spec (ci_norm (c_cnt c) ci) (c_cnt c)); [lia|]. rewrite andb_false_r.
    set (s1 := j_with_ci s (Some (mkCit (ci_norm (c_cnt c) ci) (ci_bk ci)))).
    assert (I1 : lr_inv j s1).
    { unfold s1, j_with_ci, lr_inv. cbn [j_ci j_cid j_bk]. split; [exact W|]. split; [eauto|]. rewrite Hc. split; [|exact Ibk].
      pose proof (ci_norm_range (c_cnt c) ci ltac:(lia) Ici). unfold ci_inv. cbn. lia. }
    assert (N1 : ci_norm (c_cnt c) (mkCit (ci_norm (c_cnt c) ci) (ci_bk ci)) = ci_norm (c_cnt c) ci).
    { rewrite Hn. unfold ci_norm. cbn [ci_bk ci_pos]. rewrite Ibk. destruct (j_bk s); [destruct (Z.geb_spec (-1) (c_cnt c))|destruct (Z.ltb_spec (c_cnt c) 0)]; lia. }
    assert (P1 : lr_pos j s1 = lr_pos j s).
    { unfold s1, j_with_ci, lr_pos. cbn [j_ci j_cid]. rewrite E, Hc, N1. reflexivity. }
    destruct (lr_advance_spec j s1 _ c I1 eq_refl F) as (s2 & ok & Ea & I2 & B2 & P2 & Ht & Hfl).
    { cbn [j_bk s1 j_with_ci]. rewrite N1. exact Hn. }
    rewrite Ea. destruct ok.
    + destruct (Ht eq_refl) as (c' & ci' & F' & E' & Hb' & Hp').
      destruct (find_chunk_some j _ c' F') as (_ & Hin'). pose proof (wf_in j c' W Hin') as (_ & Hcnt').
      destruct (lr_hit j s2 ci' c' f I2 E' F') as (s' & G & I' & B' & P' & S').
      { unfold ci_norm. rewrite Hb', Hp'. cbn [s1 j_with_ci j_bk]. destruct (j_bk s); [destruct (Z.geb_spec (c_cnt c') (c_cnt c'))|destruct (Z.ltb_spec 0 0)]; lia. }
      exists s'. rewrite G. rewrite P2, P1. split; [reflexivity|]. split; [exact I'|]. split; [cbn in B2; congruence|]. split; [congruence|exact S'].
    + destruct (Hfl eq_refl) as (E2 & Eof). exists s2. split; [|split; [exact I2|split; [exact B2|split; [congruence|]]]].
      * f_equal. rewrite <- P1, <- P2, (lr_eof_pos j s2 W E2 Eof). symmetry. apply lr_out_end.
      * unfold lr_settled. rewrite E2. exact Eof.
  - (* backward edge: same argument *)
    assert (Hn : ci_norm (c_cnt c) ci = if j_bk s then -1 else c_cnt c).
    { rewrite <- Ibk. apply ci_norm_edge; [lia|exact Ici|lia]. }
    destruct fuel as [|f]; [lia|]. cbn [rj_get_loop]. rewrite E, Hc, (ci_get_spec (c_cnt c) ci) by (assumption || lia). cbv zeta.
    destruct (Z.leb_spec 0 (ci_norm (c_cnt c) ci)); [lia|]. cbn [andb].
    set (s1 := j_with_ci s (Some (mkCit (ci_norm (c_cnt c) ci) (ci_bk ci)))).
    assert (I1 : lr_inv j s1).
    { unfold s1, j_with_ci, lr_inv. cbn [j_ci j_cid j_bk]. split; [exact W|]. split; [eauto|]. rewrite Hc. split; [|exact Ibk].
      pose proof (ci_norm_range (c_cnt c) ci ltac:(lia) Ici). unfold ci_inv. cbn. lia. }
    assert (N1 : ci_norm (c_cnt c) (mkCit (ci_norm (c_cnt c) ci) (ci_bk ci)) = ci_norm (c_cnt c) ci).
    { rewrite Hn. unfold ci_norm. cbn [ci_bk ci_pos]. rewrite Ibk. destruct (j_bk s); [destruct (Z.geb_spec (-1) (c_cnt c))|destruct (Z.ltb_spec (c_cnt c) 0)]; lia. }
    assert (P1 : lr_pos j s1 = lr_pos j s).
    { unfold s1, j_with_ci, lr_pos. cbn [j_ci j_cid]. rewrite E, Hc, N1. reflexivity. }
    destruct (lr_advance_spec j s1 _ c I1 eq_refl F) as (s2 & ok & Ea & I2 & B2 & P2 & Ht & Hfl).
    { cbn [j_bk s1 j_with_ci]. rewrite N1. exact Hn. }
    rewrite Ea. destruct ok.
    + destruct (Ht eq_refl) as (c' & ci' & F' & E' & Hb' & Hp').
      destruct (find_chunk_some j _ c' F') as (_ & Hin'). pose proof (wf_in j c' W Hin') as (_ & Hcnt').
      destruct (lr_hit j s2 ci' c' f I2 E' F') as (s' & G & I' & B' & P' & S').
      { unfold ci_norm. rewrite Hb', Hp'. cbn [s1 j_with_ci j_bk]. destruct (j_bk s); [destruct (Z.geb_spec (c_cnt c') (c_cnt c'))|destruct (Z.ltb_spec 0 0)]; lia. }
      exists s'. rewrite G. rewrite P2, P1. split; [reflexivity|]. split; [exact I'|]. split; [cbn in B2; congruence|]. split; [congruence|exact S'].
    + destruct (Hfl eq_refl) as (E2 & Eof). exists s2. split; [|split; [exact I2|split; [exact B2|split; [congruence|]]]].
      * f_equal. rewrite <- P1, <- P2, (lr_eof_pos j s2 W E2 Eof). symmetry. apply lr_out_end.
      * unfold lr_settled. rewrite E2. exact Eof.
Qed.

(* Get of the journal iterator: the record at the position of the state (None at the end of the direction);
   the state it leaves is settled and stands for the same position *)
Lemma lr_get_spec j s : lr_inv j s ->
  exists s', rj_get j s = (s', lr_out j (lr_pos j s)) /\ lr_inv j s' /\ j_bk s' = j_bk s /\
             lr_pos j s' = lr_pos j s /\ lr_settled j s'.
Proof.
  intros Inv. unfold rj_get. destruct (j_ci s) as [ci|] eqn:E.
  - unfold rj_ensure. rewrite E. apply (lr_loop_spec j s ci); [exact Inv|exact E|lia].
  - destruct (lr_ensure_spec j s Inv E) as (s1 & ok & Ee & I1 & B1 & P1 & Ht & Hf). rewrite Ee. destruct ok.
    + destruct (Ht eq_refl) as (c & ci1 & _ & _ & E1 & _).
      destruct (lr_loop_spec j s1 ci1 (S (length j)) I1 E1) as (s' & G & I' & B' & P' & S'); [lia|].
      exists s'. rewrite G, P1. split; [reflexivity|]. split; [exact I'|]. split; [congruence|]. split; [congruence|exact S'].
    + destruct (Hf eq_refl) as (E1 & Eof). destruct Inv as (W & _). exists s1.
      split; [|split; [exact I1|split; [exact B1|split; [exact P1|unfold lr_settled; rewrite E1; exact Eof]]]].
      f_equal. rewrite <- P1, (lr_eof_pos j s1 W E1 Eof), B1. symmetry. apply lr_out_end.
Qed.

Definition in_range (j : journal) (p : Z) : bool := (0 <=? p) && (p <? total j).

Lemma lr_pos_range j s : lr_inv j s -> if j_bk s then -1 <= lr_pos j s <= total j - 1 else 0 <= lr_pos j s <= total j.
Proof.
  intros (W & I). unfold lr_pos. destruct (j_ci s) as [ci|] eqn:E.
  - destruct I as ((c & F) & Ici & Ibk). destruct (find_chunk_some j _ c F) as (Hid & Hin).
    pose proof (wf_in j c W Hin) as (_ & Hcnt). pose proof (in_off_le j c W Hin) as Hle. pose proof (off_of_range j (c_id c)) as Hr.
    rewrite (cnt_of_find j _ c F) in *. rewrite Hid in *. unfold ci_norm, ci_inv in *. rewrite Ibk.
    destruct (j_bk s); [destruct (Z.geb_spec (ci_pos ci) (c_cnt c))|destruct (Z.ltb_spec (ci_pos ci) 0)]; lia.
  - destruct I as (Ic & Ii). destruct (j_bk s).
    + destruct (last_le j (j_cid s)) as [c|] eqn:L; [|pose proof (total_nonneg j); lia].
      destruct (last_le_some j _ c W L) as (_ & Hin & _). pose proof (wf_in j c W Hin) as (_ & Hcnt).
      pose proof (in_off_le j c W Hin). pose proof (off_of_range j (c_id c)). destruct (c_id c =? j_cid s); lia.
    + destruct (first_ge j (j_cid s)) as [c|] eqn:G; [|pose proof (total_nonneg j); lia].
      destruct (first_ge_some j _ c W G) as (_ & Hin & _). pose proof (wf_in j c W Hin) as (_ & Hcnt).
      pose proof (in_off_le j c W Hin). pose proof (off_of_range j (c_id c)). destruct (c_id c =? j_cid s); lia.
Qed.

(* Next of the journal iterator: one position in the direction, nothing at the end *)
Lemma lr_next_spec j s : lr_inv j s ->
  lr_inv j (rj_next j s) /\ j_bk (rj_next j s) = j_bk s /\
  lr_pos j (rj_next j s) = (let p := lr_pos j s in if in_range j p then (if j_bk s then p - 1 else p + 1) else p).
Proof.
  intros Inv. destruct (lr_get_spec j s Inv) as (s1 & G & I1 & B1 & P1 & S1). unfold rj_next. rewrite G. cbn [fst]. cbv zeta.
  pose proof I1 as (W & I1'). unfold lr_settled in S1. destruct (j_ci s1) as [c1|] eqn:E1.
  - destruct I1' as ((c & F) & Ici & Ibk). destruct (find_chunk_some j _ c F) as (Hid & Hin).
    pose proof (wf_in j c W Hin) as (Hidr & Hcnt). pose proof (cnt_of_find j _ c F) as Hc. rewrite Hc in *.
    assert (Nq : ci_norm (c_cnt c) c1 = ci_pos c1).
    { unfold ci_norm. destruct (ci_bk c1); [destruct (Z.geb_spec (ci_pos c1) (c_cnt c))|destruct (Z.ltb_spec (ci_pos c1) 0)]; lia. }
    assert (Pp : lr_pos j s = off_of j (j_cid s1) + ci_pos c1).
    { rewrite <- P1. unfold lr_pos. rewrite E1, Hc, Nq. reflexivity. }
    pose proof (in_off_le j c W Hin) as Hle. pose proof (off_of_range j (c_id c)) as Hr. rewrite Hid in *.
    assert (Rg : in_range j (lr_pos j s) = true).
    { unfold in_range. rewrite Pp. destruct (Z.leb_spec 0 (off_of j (j_cid s1) + ci_pos c1)); [|lia].
      destruct (Z.ltb_spec (off_of j (j_cid s1) + ci_pos c1) (total j)); [reflexivity|lia]. }
    rewrite Rg, Pp. rewrite (ci_next_spec (c_cnt c) c1) by (assumption || lia). cbv zeta. rewrite Nq.
    destruct (Z.leb_spec 0 (ci_pos c1)); [|lia]. destruct (Z.ltb_spec (ci_pos c1) (c_cnt c)); [|lia]. cbn [andb ci_pos].
    rewrite Ibk, B1. destruct (j_bk s) eqn:B.
    + (* backward *)
      destruct (Z.ltb_spec (ci_pos c1 - 1) 0).
      * set (s1' := j_with_ci s1 (Some (mkCit (ci_pos c1 - 1) true))).
        assert (I1'' : lr_inv j s1').
        { unfold s1', j_with_ci, lr_inv. cbn [j_ci j_cid j_bk]. split; [exact W|]. split; [eauto|]. rewrite Hc. unfold ci_inv. cbn. split; [lia|congruence]. }
        destruct (lr_advance_spec j s1' _ c I1'' eq_refl F) as (s2 & ok & Ea & I2 & B2 & P2 & _ & _).
        { cbn [s1' j_with_ci j_bk]. rewrite B1. unfold ci_norm. cbn [ci_bk ci_pos]. destruct (Z.geb_spec (ci_pos c1 - 1) (c_cnt c)); lia. }
        rewrite Ea. cbn [fst]. split; [exact I2|]. split; [cbn in B2; congruence|]. rewrite P2.
        unfold s1', j_with_ci, lr_pos. cbn [j_ci j_cid]. rewrite Hc. unfold ci_norm. cbn [ci_bk ci_pos].
        destruct (Z.geb_spec (ci_pos c1 - 1) (c_cnt c)); lia.
      * rewrite u32_id by lia. split; [|split; [reflexivity|]].
        -- unfold lr_inv. cbn [j_ci j_cid j_bk]. split; [exact W|]. split; [eauto|]. rewrite Hc. unfold ci_inv. cbn. split; [lia|reflexivity].
        -- unfold lr_pos. cbn [j_ci j_cid]. rewrite Hc. unfold ci_norm. cbn [ci_bk ci_pos].
           destruct (Z.geb_spec (ci_pos c1 - 1) (c_cnt c)); lia.
    + destruct (Z.ltb_spec (ci_pos c1 + 1) 0); [lia|]. rewrite u32_id by lia. split; [|split; [reflexivity|]].
      * unfold lr_inv. cbn [j_ci j_cid j_bk]. split; [exact W|]. split; [eauto|]. rewrite Hc. unfold ci_inv. cbn. split; [lia|reflexivity].
      * unfold lr_pos. cbn [j_ci j_cid]. rewrite Hc. unfold ci_norm. cbn [ci_bk ci_pos].
        destruct (Z.ltb_spec (ci_pos c1 + 1) 0); lia.
  - assert (Pe : lr_pos j s = if j_bk s then -1 else total j) by (rewrite <- P1, (lr_eof_pos j s1 W E1 S1), B1; reflexivity).
    split; [exact I1|]. split; [exact B1|]. rewrite P1. unfold in_range. rewrite Pe. destruct (j_bk s); [reflexivity|].
    destruct (Z.ltb_spec (total j) (total j)); [lia|]. rewrite andb_false_r. reflexivity.
Qed.

Lemma last_le_none_first j x : wf_journal j -> last_le j x = None ->
  match first_ge j x with Some c => off_of j (c_id c) = 0 /\ c_id c <> x | None => j = [] end.
Proof.
  destruct j as [|c tl]; intros W H; [reflexivity|]. cbn [last_le] in H.
  destruct (Z.leb_spec (c_id c) x); [destruct (last_le tl x); discriminate|].
  cbn [first_ge]. destruct (Z.geb_spec (c_id c) x); [|lia]. cbn [off_of]. rewrite Z.ltb_irrefl. split; [reflexivity|lia].
Qed.

(* SetBackward on a settled state: the position is kept (pulled into the records when it stood at an end) *)
Lemma lr_flip_spec j s : lr_inv j s -> lr_settled j s ->
  let s' := jit_set_backward (negb (j_bk s)) s in
  lr_inv j s' /\ j_bk s' = negb (j_bk s) /\
  lr_pos j s' = if negb (j_bk s) then Z.min (lr_pos j s) (total j - 1) else Z.max (lr_pos j s) 0.
Proof.
  intros (W & I) S. cbv zeta. unfold jit_set_backward. destruct (Bool.eqb (j_bk s) (negb (j_bk s))) eqn:Eb; [destruct (j_bk s); discriminate|].
  unfold lr_settled in S. unfold lr_inv, lr_pos. cbn [j_ci j_cid j_idx j_bk]. destruct (j_ci s) as [ci|] eqn:E; cbn [option_map].
  - destruct I as ((c & F) & Ici & Ibk). destruct (find_chunk_some j _ c F) as (Hid & Hin).
    pose proof (wf_in j c W Hin) as (_ & Hcnt). pose proof (in_off_le j c W Hin) as Hle. pose proof (off_of_range j (c_id c)) as Hr.
    rewrite (cnt_of_find j _ c F) in *. rewrite Hid in *. unfold ci_set_backward, ci_inv, ci_norm in *. cbn [ci_pos ci_bk].
    split; [split; [exact W|split; [eauto|split; [lia|reflexivity]]]|]. split; [reflexivity|].
    rewrite Ibk. destruct (j_bk s); cbn [negb];
      destruct (Z.geb_spec (ci_pos ci) (c_cnt c)); destruct (Z.ltb_spec (ci_pos ci) 0); lia.
  - split; [split; [exact W|exact I]|]. split; [reflexivity|]. unfold lr_eof in S. destruct (j_bk s); cbn [negb].
    + rewrite S. pose proof (last_le_none_first j _ W S) as H. destruct (first_ge j (j_cid s)) as [c|].
      * destruct H as (H0 & Hne). rewrite H0. destruct (Z.eqb_spec (c_id c) (j_cid s)); lia.
      * subst j. reflexivity.
    + destruct S as [->|(lc & L & Hc & Hi)]; [reflexivity|].
      pose proof (last_chunk_in j lc L) as Hin. pose proof (last_chunk_total j lc W L) as Ht.
      rewrite Hc, Hi, (last_le_in j lc W Hin), (first_ge_in j lc W Hin), Z.eqb_refl. lia.
Qed.

(* a fresh iterator positioned by SetPos (head, tail or a stored position) *)
Lemma lr_init j cid idx : wf_journal j -> 0 <= cid <= MaxU64 -> 0 <= idx <= MaxU32 ->
  lr_inv j (jit_set_pos j cid idx (jit_at 0 0)) /\ j_bk (jit_set_pos j cid idx (jit_at 0 0)) = false.
Proof.
  intros W Hc Hi. unfold jit_set_pos, jit_at. cbn [j_cid j_idx j_ci j_bk].
  destruct ((cid =? 0) && (idx =? 0)) eqn:E.
  - split; [|reflexivity]. split; [exact W|]. cbn. unfold MaxU64, MaxU32. lia.
  - destruct (cid =? 0); cbn [option_map]; (split; [|reflexivity]); (split; [exact W|]); cbn; auto.
Qed.
Lemma lr_pos_head j : wf_journal j -> lr_pos j (jit_at 0 0) = 0.
Proof.
  intros W. unfold lr_pos, jit_at. cbn. destruct j as [|c tl]; [reflexivity|]. cbn [first_ge]. cbn in W. destruct W as ((Hid & _) & _).
  destruct (Z.geb_spec (c_id c) 0); [|lia]. cbn [off_of]. rewrite Z.ltb_irrefl. destruct (Z.eqb_spec (c_id c) 0); lia.
Qed.
Lemma lr_pos_tail j : wf_journal j -> lr_pos j (mkJit MaxU64 MaxU32 None false) = total j.
Proof.
  intros W. unfold lr_pos. cbn [j_ci j_bk j_cid]. destruct (first_ge j MaxU64) as [c|] eqn:G; [|reflexivity].
  destruct (first_ge_some j _ c W G) as (H1 & H2 & _). pose proof (wf_in j c W H2) as (Hid & _). lia.
Qed.

(* ------------------------------------------------------------------ the leaf contract, concretely *)
Lemma lr_flip_inv j s b : lr_inv j s -> lr_inv j (jit_set_backward b s) /\ j_bk (jit_set_backward b s) = b.
Proof.
  intros (W & I). unfold jit_set_backward. destruct (Bool.eqb (j_bk s) b) eqn:E.
  - apply Bool.eqb_prop in E. split; [split; assumption|exact E].
  - unfold lr_inv. cbn [j_ci j_cid j_bk]. split; [|reflexivity]. split; [exact W|].
    destruct (j_ci s) as [ci|]; cbn [option_map]; [|exact I]. destruct I as (Hex & Ici & Ibk).
    split; [exact Hex|]. split; [exact Ici|reflexivity].
Qed.

(* what a leaf delivers from its current state in its current direction *)
Definition leaf_rest (l : leaf) : list ev :=
  match l with
  | LMem _ recs c => mem_rest recs c
  | LR j s => rest_at (flat j) (j_bk s) (lr_pos j s)
  | LP j s => []
  end.
(* well-formed leaf states moving in direction bk: in-memory sources, and journals (ids increasing, chunks
   non-empty) read through the journal iterator of the range library *)
Definition leaf_ok (bk : bool) (l : leaf) : Prop :=
  match l with
  | LMem _ recs c => ci_inv (Z.of_nat (length recs)) c /\ ci_bk c = bk
  | LR j s => lr_inv j s /\ j_bk s = bk
  | LP j s => False
  end.

Lemma lr_out_hd j s : lr_inv j s -> lr_out j (lr_pos j s) = hd_error (rest_at (flat j) (j_bk s) (lr_pos j s)).
Proof.
  intros I. pose proof (lr_pos_range j s I) as R. unfold lr_out.
  destruct (Z.leb_spec 0 (lr_pos j s)); destruct (Z.ltb_spec (lr_pos j s) (total j)); cbn [andb].
  - rewrite rest_at_hd by (unfold total in *; lia). reflexivity.
  - destruct (j_bk s); [unfold total in *; lia|]. rewrite rest_at_fwd_end by (unfold total in *; lia). reflexivity.
  - destruct (j_bk s); [|lia]. rewrite rest_at_bwd_end by lia. reflexivity.
  - pose proof (total_nonneg j). lia.
Qed.

Lemma leaf_get_spec bk l : leaf_ok bk l ->
  leaf_ok bk (fst (l_get l)) /\ leaf_rest (fst (l_get l)) = leaf_rest l /\ snd (l_get l) = hd_error (leaf_rest l).
Proof.
  destruct l as [m recs c|j s|j s]; cbn [leaf_ok]; try contradiction.
  - intros [I B]. destruct (mem_get_spec m recs c I) as (c' & E & I' & R & B'). rewrite E. cbn [fst snd leaf_ok leaf_rest].
    split; [split; [exact I'|congruence]|split; [exact R|reflexivity]].
  - intros [I B]. destruct (lr_get_spec j s I) as (s' & G & I' & B' & P' & _). cbn [l_get]. rewrite G. cbn [fst snd leaf_ok leaf_rest].
    split; [split; [exact I'|congruence]|]. rewrite B', P'. split; [reflexivity|apply lr_out_hd; exact I].
Qed.

Lemma leaf_next_spec bk l : leaf_ok bk l -> leaf_ok bk (l_next l) /\ leaf_rest (l_next l) = tl (leaf_rest l).
Proof.
  destruct l as [m recs c|j s|j s]; cbn [leaf_ok]; try contradiction.
  - intros [I B]. destruct (mem_next_spec m recs c I) as (c' & E & I' & R & B'). rewrite E. cbn [leaf_ok leaf_rest].
    split; [split; [exact I'|congruence]|exact R].
  - intros [I B]. destruct (lr_next_spec j s I) as (I' & B' & P'). cbn [l_next leaf_ok leaf_rest].
    split; [split; [exact I'|congruence]|]. rewrite B', P'. cbv zeta. pose proof (lr_pos_range j s I) as R. unfold in_range.
    destruct (Z.leb_spec 0 (lr_pos j s)); destruct (Z.ltb_spec (lr_pos j s) (total j)); cbn [andb].
    + destruct (j_bk s); [rewrite rest_at_tl_bwd by (unfold total in *; lia)|rewrite rest_at_tl_fwd by lia]; reflexivity.
    + destruct (j_bk s); [unfold total in *; lia|]. rewrite rest_at_fwd_end by (unfold total in *; lia). reflexivity.
    + destruct (j_bk s); [|lia]. rewrite rest_at_bwd_end by lia. reflexivity.
    + pose proof (total_nonneg j). lia.
Qed.

(* switching the direction of a well-formed forward leaf *)
Lemma leaf_set_backward_ok bk l : leaf_ok false l -> leaf_ok bk (l_set_backward bk l).
Proof.
  destruct l as [m recs c|j s|j s]; cbn [leaf_ok]; try contradiction.
  - intros [I B]. cbn [l_set_backward leaf_ok ci_set_backward ci_bk]. split; [exact I|reflexivity].
  - intros [I B]. cbn [l_set_backward leaf_ok]. apply lr_flip_inv. exact I.
Qed.
Lemma leaf_set_backward_same l : leaf_ok false l -> l_set_backward false l = l.
Proof.
  destruct l as [m recs c|j s|j s]; cbn [leaf_ok]; try contradiction.
  - intros [I B]. cbn. destruct c as [p b]. cbn in B. subst b. reflexivity.
  - intros [I B]. cbn. unfold jit_set_backward. rewrite B. reflexivity.
Qed.

(* a source stored in time order delivers in time order, in either direction *)
Lemma skipn_sorted {A} (R : A -> A -> Prop) : forall n l, StronglySorted R l -> StronglySorted R (skipn n l).
Proof.
  induction n; intros l S; [exact S|]. destruct l; [constructor|]. cbn. apply IHn. inversion S; assumption.
Qed.
Lemma in_firstn {A} : forall n (l : list A) x, In x (firstn n l) -> In x l.
Proof. induction n; destruct l; cbn; intros x H; try contradiction. destruct H; [left|right]; auto. Qed.
Lemma firstn_sorted {A} (R : A -> A -> Prop) : forall n l, StronglySorted R l -> StronglySorted R (firstn n l).
Proof.
  induction n; intros l S; [constructor|]. destruct l; [constructor|]. cbn. inversion S; subst.
  constructor; [apply IHn; assumption|]. apply Forall_forall. intros x Hx.
  eapply Forall_forall; [eassumption|]. eapply in_firstn; eassumption.
Qed.
Lemma sorted_snoc {A} (R : A -> A -> Prop) : forall r a, StronglySorted R r -> Forall (fun x => R x a) r -> StronglySorted R (r ++ [a]).
Proof.
  induction r as [|b r IH]; intros a S F.
  - cbn. constructor; constructor.
  - cbn. inversion S; subst. inversion F; subst. constructor; [apply IH; assumption|].
    apply Forall_app. split; [assumption|]. constructor; [assumption|constructor].
Qed.
Lemma rev_sorted {A} (R : A -> A -> Prop) : forall l, StronglySorted R l -> StronglySorted (fun x y => R y x) (rev l).
Proof.
  induction l as [|a l IH]; intros S; [constructor|]. inversion S; subst. cbn.
  apply sorted_snoc; [apply IH; assumption|].
  apply Forall_forall. intros x Hx. apply in_rev in Hx. eapply Forall_forall; eassumption.
Qed.

Definition ev_sorted (l : list ev) : Prop := StronglySorted (fun x y : ev => ev_ts x <= ev_ts y) l.

Definition ev_rel (bk : bool) (x y : ev) : Prop := if bk then ev_ts y <= ev_ts x else ev_ts x <= ev_ts y.
Lemma rest_at_sorted flat bk p : ev_sorted flat -> StronglySorted (ev_rel bk) (rest_at flat bk p).
Proof.
  intros S. unfold rest_at. destruct bk.
  - apply (rev_sorted (fun x y : ev => ev_ts x <= ev_ts y)). apply firstn_sorted. exact S.
  - apply skipn_sorted. exact S.
Qed.
