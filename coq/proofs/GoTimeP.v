(* Lemmas about model/GoTime.v: the civil-date round trips (for every date and every day number,
   by arithmetic) and what time.Parse's elements do on the texts the user tokens write. *)
From LR Require Import lib.Base model.GoTime.
From Coq Require Import ZifyBool Strings.String.
Open Scope bool_scope.
Open Scope Z_scope.
Ltac Zify.zify_post_hook ::= Z.div_mod_to_equations.

(* ------------------------------------------------------------------ civil dates *)

Lemma dby_decomp n400 n100 n4 n1 :
  0 <= n100 <= 3 -> 0 <= n4 <= 24 -> 0 <= n1 <= 3 ->
  days_before_year (400 * n400 + 100 * n100 + 4 * n4 + n1) = 146097 * n400 + 36524 * n100 + 1461 * n4 + 365 * n1.
Proof. intros. unfold days_before_year. lia. Qed.

Lemma dfc_cfd z : let '(y, m, d) := civil_from_days z in days_from_civil y m d = z.
Proof.
  unfold civil_from_days. cbv zeta.
  set (z0 := z + 719468).
  set (n400 := z0 / 146097).
  set (r := z0 - n400 * 146097).
  assert (Hr : 0 <= r < 146097) by (subst r n400; lia).
  set (n100 := Z.min (r / 36524) 3).
  assert (Hn100 : 0 <= n100 <= 3) by (subst n100; lia).
  set (r1 := r - n100 * 36524).
  assert (Hr1 : 0 <= r1 <= 36524) by (subst r1 n100; lia).
  set (n4 := r1 / 1461).
  assert (Hn4 : 0 <= n4 <= 24) by (subst n4; lia).
  set (r2 := r1 - n4 * 1461).
  assert (Hr2 : 0 <= r2 <= 1460) by (subst r2 n4; lia).
  set (n1 := Z.min (r2 / 365) 3).
  assert (Hn1 : 0 <= n1 <= 3) by (subst n1; lia).
  set (doy := r2 - n1 * 365).
  assert (Hdoy : 0 <= doy <= 365) by (subst doy n1; lia).
  set (ys := 400 * n400 + 100 * n100 + 4 * n4 + n1).
  set (mp := (5 * doy + 2) / 153).
  assert (Hmp : 0 <= mp <= 11) by (subst mp; lia).
  assert (Hys : days_before_year ys = 146097 * n400 + 36524 * n100 + 1461 * n4 + 365 * n1) by (apply dby_decomp; assumption).
  unfold days_from_civil.
  destruct (mp <? 10) eqn:E.
  - assert (mp + 3 <=? 2 = false) as -> by lia.
    replace (mp + 3 - 3) with mp by lia. rewrite Hys. subst doy r2 r1 r z0. lia.
  - assert (mp - 9 <=? 2 = true) as -> by lia.
    replace (ys + 1 - 1) with ys by lia. replace (mp - 9 + 9) with mp by lia. rewrite Hys. subst doy r2 r1 r z0. lia.
Qed.

Lemma cfd_valid z : let '(y, m, d) := civil_from_days z in valid_date y m d.
Proof.
  unfold civil_from_days. cbv zeta.
  set (z0 := z + 719468).
  set (n400 := z0 / 146097).
  set (r := z0 - n400 * 146097).
  assert (Hr : 0 <= r < 146097) by (subst r n400; lia).
  set (n100 := Z.min (r / 36524) 3).
  assert (Hn100 : 0 <= n100 <= 3) by (subst n100; lia).
  set (r1 := r - n100 * 36524).
  assert (Hr1 : 0 <= r1 <= 36524 /\ (n100 < 3 -> r1 <= 36523)) by (subst r1 n100; lia).
  set (n4 := r1 / 1461).
  assert (Hn4 : 0 <= n4 <= 24) by (subst n4; lia).
  set (r2 := r1 - n4 * 1461).
  assert (Hr2 : 0 <= r2 <= 1460 /\ (n4 = 24 -> n100 < 3 -> r2 <= 1459)) by (subst r2 n4; lia).
  set (n1 := Z.min (r2 / 365) 3).
  assert (Hn1 : 0 <= n1 <= 3) by (subst n1; lia).
  set (doy := r2 - n1 * 365).
  assert (Hdoy : 0 <= doy <= 365 /\ (doy = 365 -> n1 = 3 /\ r2 = 1460)) by (subst doy n1; lia).
  set (ys := 400 * n400 + 100 * n100 + 4 * n4 + n1).
  set (mp := (5 * doy + 2) / 153).
  assert (Hmp : 0 <= mp <= 11) by (subst mp; lia).
  clearbody doy. clearbody n1. clearbody r2. clearbody n4. clearbody r1. clearbody n100. clearbody r. clearbody n400.
  unfold valid_date, days_in_month, is_leap, days_before_month.
  assert (mp = 0 \/ mp = 1 \/ mp = 2 \/ mp = 3 \/ mp = 4 \/ mp = 5 \/ mp = 6 \/ mp = 7 \/ mp = 8 \/ mp = 9 \/ mp = 10 \/ mp = 11) as Hc by lia.
  destruct (mp <? 10) eqn:E.
  - assert (mp + 3 <=? 2 = false) as -> by lia.
    destruct Hc as [H|[H|[H|[H|[H|[H|[H|[H|[H|[H|[H|H]]]]]]]]]]]; rewrite H in *; subst mp ys; try discriminate;
    repeat (match goal with |- context[if ?c then _ else _] => let E := fresh "E" in destruct c eqn:E end); lia.
  - assert (mp - 9 <=? 2 = true) as -> by lia.
    destruct Hc as [H|[H|[H|[H|[H|[H|[H|[H|[H|[H|[H|H]]]]]]]]]]]; rewrite H in *; subst mp ys; try discriminate;
    repeat (match goal with |- context[if ?c then _ else _] => let E := fresh "E" in destruct c eqn:E end); lia.
Qed.

Lemma dby_step a : days_before_year (a + 1) - days_before_year a = 365 + (if is_leap (a + 1) then 1 else 0).
Proof. unfold days_before_year, is_leap. destruct ((a + 1) mod 4 =? 0) eqn:E1; destruct ((a + 1) mod 100 =? 0) eqn:E2; destruct ((a + 1) mod 400 =? 0) eqn:E3; cbn [andb orb negb]; lia. Qed.

Lemma dby_mono a b : a <= b -> days_before_year a <= days_before_year b.
Proof. unfold days_before_year. lia. Qed.

(* the March-based coordinates of a valid date *)
Lemma valid_doy y m d : valid_date y m d ->
  let ys := if m <=? 2 then y - 1 else y in
  let mp := if m <=? 2 then m + 9 else m - 3 in
  0 <= mp <= 11 /\ 0 <= days_before_month mp + (d - 1) < days_before_year (ys + 1) - days_before_year ys.
Proof.
  unfold valid_date. intros [Hm Hd]. cbv zeta. rewrite dby_step. unfold days_in_month in Hd. unfold days_before_month.
  destruct (m <=? 2) eqn:E; [replace (y - 1 + 1) with y by lia|];
  repeat (match goal with
          | H : context[if ?c then _ else _] |- _ => destruct c eqn:?
          | |- context[if ?c then _ else _] => destruct c eqn:?
          end); lia.
Qed.

Lemma dbm_inj mp d mp2 d2 : 0 <= mp <= 11 -> 0 <= mp2 <= 11 ->
  1 <= d -> 1 <= d2 -> days_before_month mp + d <= days_before_month (mp + 1) -> days_before_month mp2 + d2 <= days_before_month (mp2 + 1) ->
  days_before_month mp + d = days_before_month mp2 + d2 -> mp = mp2 /\ d = d2.
Proof. unfold days_before_month. intros. lia. Qed.

Lemma valid_month_fit y m d : valid_date y m d ->
  let mp := if m <=? 2 then m + 9 else m - 3 in
  days_before_month mp + d <= days_before_month (mp + 1) + (if m =? 2 then 1 else 0).
Proof.
  unfold valid_date. intros [Hm Hd]. cbv zeta. unfold days_in_month in Hd. unfold days_before_month.
  destruct (m <=? 2) eqn:E;
  repeat (match goal with
          | H : context[if ?c then _ else _] |- _ => destruct c eqn:?
          | |- context[if ?c then _ else _] => destruct c eqn:?
          end); lia.
Qed.

Lemma dfc_inj y m d y2 m2 d2 : valid_date y m d -> valid_date y2 m2 d2 ->
  days_from_civil y m d = days_from_civil y2 m2 d2 -> y = y2 /\ m = m2 /\ d = d2.
Proof.
  intros V V2 E.
  pose proof (valid_doy _ _ _ V) as A. pose proof (valid_doy _ _ _ V2) as A2.
  pose proof (valid_month_fit _ _ _ V) as F. pose proof (valid_month_fit _ _ _ V2) as F2.
  unfold days_from_civil in E. cbv zeta in *.
  set (ys := if m <=? 2 then y - 1 else y) in *. set (mp := if m <=? 2 then m + 9 else m - 3) in *.
  set (ys2 := if m2 <=? 2 then y2 - 1 else y2) in *. set (mp2 := if m2 <=? 2 then m2 + 9 else m2 - 3) in *.
  destruct A as [Hmp A]. destruct A2 as [Hmp2 A2].
  assert (ys = ys2) as Ey.
  { destruct (Z.lt_trichotomy ys ys2) as [L|[L|L]]; [|exact L|].
    - pose proof (dby_mono (ys + 1) ys2 ltac:(lia)). lia.
    - pose proof (dby_mono (ys2 + 1) ys ltac:(lia)). lia. }
  rewrite Ey in *.
  assert (days_before_month mp + d = days_before_month mp2 + d2) as Ed by lia.
  destruct V as [Vm Vd]. destruct V2 as [Vm2 Vd2].
  assert (mp = mp2 /\ d = d2) as [Emp Edd].
  { unfold days_before_month in *. subst mp mp2. 
    destruct (m <=? 2) eqn:E1; destruct (m2 <=? 2) eqn:E2; destruct (m =? 2) eqn:E3; destruct (m2 =? 2) eqn:E4; lia. }
  subst ys ys2 mp mp2. destruct (m <=? 2) eqn:E1; destruct (m2 <=? 2) eqn:E2; lia.
Qed.

Theorem civil_days_roundtrip y m d : valid_date y m d -> civil_from_days (days_from_civil y m d) = (y, m, d).
Proof.
  intros V. pose proof (dfc_cfd (days_from_civil y m d)) as E. pose proof (cfd_valid (days_from_civil y m d)) as V2.
  destruct (civil_from_days (days_from_civil y m d)) as [[y2 m2] d2].
  destruct (dfc_inj _ _ _ _ _ _ V2 V E) as (-> & -> & ->). reflexivity.
Qed.

Theorem days_civil_roundtrip z : let '(y, m, d) := civil_from_days z in valid_date y m d /\ days_from_civil y m d = z.
Proof.
  pose proof (cfd_valid z) as V. pose proof (dfc_cfd z) as E.
  destruct (civil_from_days z) as [[y m] d]. split; assumption.
Qed.

Lemma days_in_month_le_31 y m : days_in_month y m <= 31.
Proof. unfold days_in_month. repeat (match goal with |- context[if ?c then _ else _] => destruct c end); lia. Qed.
Lemma days_in_month_year0 y m : days_in_month y m <= days_in_month 0 m.
Proof.
  unfold days_in_month. destruct (m =? 2); [|lia].
  change (is_leap 0) with true. destruct (is_leap y); lia.
Qed.
Lemma days_in_month_jan y : days_in_month y 1 = 31.
Proof. reflexivity. Qed.

(* ------------------------------------------------------------------ digits *)

Ltac digit_cases n :=
  let H := fresh in
  assert (H : n = 0 \/ n = 1 \/ n = 2 \/ n = 3 \/ n = 4 \/ n = 5 \/ n = 6 \/ n = 7 \/ n = 8 \/ n = 9) by lia;
  destruct H as [H|[H|[H|[H|[H|[H|[H|[H|[H|H]]]]]]]]]; rewrite H in *.

Lemma digit_is n : 0 <= n <= 9 -> is_digit (digit_byte n) = true.
Proof. intros R. digit_cases n; reflexivity. Qed.
Lemma digit_val n : 0 <= n <= 9 -> dval (digit_byte n) = n.
Proof. intros R. digit_cases n; reflexivity. Qed.
Lemma digit_not_sign n : 0 <= n <= 9 -> byte_eqb (digit_byte n) x2d = false /\ byte_eqb (digit_byte n) x2b = false.
Proof. intros R. digit_cases n; split; reflexivity. Qed.
Lemma digit_not_sp n : 0 <= n <= 9 -> byte_eqb (digit_byte n) x20 = false.
Proof. intros R. digit_cases n; reflexivity. Qed.

(* the head of what follows is not a digit (or nothing follows) *)
Definition nodigit_head (r : bytes) : Prop := match r with [] => True | b :: _ => is_digit b = false end.

Lemma getnum_two a b r fx : 0 <= a <= 9 -> 0 <= b <= 9 ->
  getnum (digit_byte a :: digit_byte b :: r) fx = Some (a * 10 + b, r).
Proof. intros Ha Hb. unfold getnum. rewrite (digit_is a Ha), (digit_is b Hb), (digit_val a Ha), (digit_val b Hb). reflexivity. Qed.
Lemma getnum_one a r : 0 <= a <= 9 -> nodigit_head r -> getnum (digit_byte a :: r) false = Some (a, r).
Proof.
  intros Ha Hr. unfold getnum. rewrite (digit_is a Ha), (digit_val a Ha).
  destruct r as [|b r]; [reflexivity|]. cbn in Hr. rewrite Hr. reflexivity.
Qed.

Lemma span_digits_stop r : nodigit_head r -> span_digits r = ([], r).
Proof. destruct r as [|b r]; cbn; intros H; [reflexivity|]. rewrite H. reflexivity. Qed.
Lemma span_digits_cons a r : 0 <= a <= 9 -> span_digits (digit_byte a :: r) = (digit_byte a :: fst (span_digits r), snd (span_digits r)).
Proof. intros Ha. cbn. rewrite (digit_is a Ha). destruct (span_digits r). reflexivity. Qed.

Lemma cut_sp_nosp b r : byte_eqb b x20 = false -> cut_sp (b :: r) = b :: r.
Proof.
  intros H. destruct b; try reflexivity. discriminate.
Qed.
Lemma cut_sp_repeat n r : cut_sp (repeat x20 n ++ r) = cut_sp r.
Proof. induction n as [|n IH]; cbn; [reflexivity|exact IH]. Qed.
