(* Producibility: every expression the parser returns from a token stream of the lexer is well-formed in
   the sense of the round-trip theorem (wf_expr). *)
From LR Require Import lib.Base model.LqlAst model.LqlLex model.LqlParse model.LqlPrint.
From LR Require Import proofs.LqlParseP proofs.LqlLexP.
From Coq Require Import Strings.String.
Local Open Scope string_scope.
Local Open Scope list_scope.

Arguments is_keyword_text : simpl never.
Arguments fold_eq : simpl never.
Arguments lit : simpl never.
Arguments is_op : simpl never.

(* what the lexer guarantees about a token: an Ident is not a keyword text, a Keyword is *)
Definition tok_wf (t : token) : Prop :=
  match t_ty t with
  | TIdent => is_keyword_text (t_val t) = false
  | TKeyword => is_keyword_text (t_val t) = true
  | _ => True
  end.
Definition toks_wf (ts : list token) : Prop := Forall tok_wf ts.

Definition suffix (r ts : list token) : Prop := exists pre, ts = pre ++ r.
Lemma suffix_refl ts : suffix ts ts. Proof. exists []. reflexivity. Qed.
Lemma suffix_cons t r ts : suffix r ts -> suffix r (t :: ts).
Proof. intros [pre ->]. exists (t :: pre). reflexivity. Qed.
Lemma suffix_trans a b c : suffix a b -> suffix b c -> suffix a c.
Proof. intros [p ->] [q ->]. exists (q ++ p). rewrite app_assoc. reflexivity. Qed.
Lemma suffix_wf r ts : suffix r ts -> toks_wf ts -> toks_wf r.
Proof. intros [pre ->] H. apply Forall_app in H. exact (proj2 H). Qed.

(* the operand token of an Ident/Keyword token of the lexer is the token itself *)
Lemma operand_tok_self t : tok_wf t -> is_ty TIdent t || is_ty TKeyword t = true -> operand_tok (t_val t) = t.
Proof.
  destruct t as [ty v]. unfold tok_wf, operand_tok, kw_or, is_ty. cbn [t_ty t_val].
  destruct ty; cbn; intros H1 H2; try discriminate; rewrite H1; reflexivity.
Qed.

(* identifiers: the rest is a suffix, the head operand is the first token's text *)
Lemma p_ident_inv : forall fuel,
  (forall ts i r, p_ident fuel ts = ROk i r -> suffix r ts /\
      exists t tl, ts = t :: tl /\ (is_ty TIdent t || is_ty TKeyword t = true) /\ head_operand i = t_val t) /\
  (forall ts l r, p_params fuel ts = ROk l r -> suffix r ts) /\
  (forall ts l r, p_ptail fuel ts = ROk l r -> suffix r ts).
Proof.
  induction fuel as [|f IH]; [repeat split; intros; discriminate|].
  destruct IH as (IHi & IHp & IHt). split; [|split].
  - intros ts i r H. cbn [p_ident] in H. destruct ts as [|t tl]; [discriminate|].
    destruct (is_ty TIdent t || is_ty TKeyword t) eqn:Et; [|discriminate].
    destruct (p_params f tl) as [|ps r'|n] eqn:Ep.
    + injection H as <- <-. split; [apply suffix_cons, suffix_refl|]. exists t, tl. split; [reflexivity|split; [exact Et|reflexivity]].
    + injection H as <- <-. split; [apply suffix_cons; exact (IHp _ _ _ Ep)|]. exists t, tl. split; [reflexivity|split; [exact Et|reflexivity]].
    + destruct (Nat.ltb 1 n); [discriminate|]. injection H as <- <-.
      split; [apply suffix_cons, suffix_refl|]. exists t, tl. split; [reflexivity|split; [exact Et|reflexivity]].
  - intros ts l r H. cbn [p_params] in H. destruct ts as [|t tl]; [discriminate|].
    destruct (lit "(" t); [|discriminate].
    destruct (p_ident f tl) as [|i r1|n] eqn:Ei; try discriminate.
    destruct (p_ptail f r1) as [|tl2 r2|n] eqn:Et; try discriminate.
    destruct r2 as [|t2 r3]; [discriminate|]. destruct (lit ")" t2); [|discriminate].
    injection H as <- <-. apply suffix_cons.
    eapply suffix_trans; [|exact (proj1 (IHi _ _ _ Ei))].
    eapply suffix_trans; [|exact (IHt _ _ _ Et)]. apply suffix_cons, suffix_refl.
  - intros ts l r H. cbn [p_ptail] in H. destruct ts as [|t tl].
    + injection H as <- <-. apply suffix_refl.
    + destruct (lit "," t).
      * destruct (p_ident f tl) as [|i r1|n] eqn:Ei.
        -- injection H as <- <-. apply suffix_refl.
        -- destruct (p_ptail f r1) as [|tl2 r2|n] eqn:Et; try discriminate.
           injection H as <- <-. apply suffix_cons.
           eapply suffix_trans; [exact (IHt _ _ _ Et)|exact (proj1 (IHi _ _ _ Ei))].
        -- destruct (Nat.ltb 1 (1 + n)); [discriminate|]. injection H as <- <-. apply suffix_refl.
      * injection H as <- <-. apply suffix_refl.
Qed.

(* ---------------- the operator token ---------------- *)
Lemma fold_eq_paren v : fold_eq v (B "(") = true -> v = B "(".
Proof.
  unfold fold_eq. destruct v as [|b [|c v]]; cbn.
  - discriminate.
  - destruct b; cbn; intros H; try discriminate H; reflexivity.
  - destruct (byte_eqb (upper_byte b) x28); cbn; intros H; discriminate H.
Qed.

Lemma is_op_self t : tok_wf t -> is_op t = true ->
  is_op (op_tok (t_val t)) = true /\ lit "(" (op_tok (t_val t)) = false.
Proof.
  destruct t as [ty v]. unfold tok_wf. cbn [t_ty t_val]. intros Hw Ho.
  destruct (tokty_eqb ty TKeyword) eqn:Ety.
  - destruct ty; try discriminate. unfold op_tok, kw_or. rewrite Hw. split; [exact Ho|].
    destruct (lit "(" (Tok TKeyword v)) eqn:El; [|reflexivity].
    unfold lit in El. cbn [t_ty t_val] in El. apply fold_eq_paren in El. subst v. vm_compute in Hw. discriminate Hw.
  - assert (Hin : In v (map B op_lits)).
    { unfold is_op in Ho. apply existsb_exists in Ho as (s & Hs & Hl). apply in_map_iff. exists s. split; [|exact Hs].
      unfold lit in Hl. cbn [t_ty t_val] in Hl. destruct ty; try discriminate Ety; apply bytes_eqb_eq in Hl; symmetry; exact Hl. }
    unfold op_lits in Hin. cbn [map In] in Hin.
    repeat (destruct Hin as [<-|Hin]; [split; vm_compute; reflexivity|]). destruct Hin.
Qed.

Lemma p_cond_inv fuel ts c r : p_cond fuel ts = ROk c r -> toks_wf ts ->
  wf_cond c = true /\ suffix r ts /\
  exists t tl, ts = t :: tl /\ (is_ty TIdent t || is_ty TKeyword t = true) /\ head_operand (c_ident c) = t_val t.
Proof.
  unfold p_cond. intros H Hw. destruct (p_ident fuel ts) as [|id r1|n] eqn:Ei; try discriminate.
  destruct (proj1 (p_ident_inv fuel) _ _ _ Ei) as (Hs1 & t & tl & -> & Ht & Hh).
  destruct r1 as [|top r2]; [discriminate|]. destruct (is_op top) eqn:Eo; [|discriminate].
  destruct r2 as [|v r3]; [discriminate|].
  destruct (is_ty TString v || is_ty TIdent v || is_ty TNumber v); [|discriminate].
  injection H as <- <-. cbn [c_ident c_op c_val].
  assert (Hwr : toks_wf (top :: v :: r3)) by exact (suffix_wf _ _ Hs1 Hw).
  inversion Hwr as [|? ? Htop _]; subst.
  destruct (is_op_self top Htop Eo) as [A B0].
  split; [unfold wf_cond; cbn [c_op]; rewrite A, B0; reflexivity|].
  split.
  - eapply suffix_trans; [|exact Hs1]. apply suffix_cons, suffix_cons, suffix_refl.
  - exists t, tl. split; [reflexivity|split; [exact Ht|exact Hh]].
Qed.

(* ---------------- expressions ---------------- *)
Definition body_stmt (fuel : nat) : Prop :=
  forall ts b r, p_body fuel ts = ROk b r -> toks_wf ts ->
    wf_body b = true /\ suffix r ts /\ (starts_not b = true -> exists t tl, ts = t :: tl /\ lit "NOT" t = true).

Lemma p_expr_inv : forall fuel,
  (forall ts e r, p_expr fuel ts = ROk e r -> toks_wf ts -> wf_expr e = true /\ suffix r ts) /\
  (forall ts o r, p_orc fuel ts = ROk o r -> toks_wf ts -> wf_orc o = true /\ suffix r ts) /\
  (forall ts x r, p_xc fuel ts = ROk x r -> toks_wf ts -> wf_xc x = true /\ suffix r ts) /\
  body_stmt fuel.
Proof.
  induction fuel as [|f IH]; [repeat split; intros; discriminate|].
  destruct IH as (IHe & IHo & IHx & IHb). split; [|split; [|split]].
  - (* p_expr *)
    intros ts e r H Hw. cbn [p_expr] in H.
    destruct (p_orc f ts) as [|o r0|n] eqn:Eo; try discriminate.
    destruct (IHo _ _ _ Eo Hw) as [Wo So].
    destruct r0 as [|t r1].
    + injection H as <- <-. split; [exact Wo|exact So].
    + destruct (lit "OR" t).
      * destruct (p_expr f r1) as [|e2 r2|n] eqn:Ee.
        -- injection H as <- <-. split; [exact Wo|exact So].
        -- injection H as <- <-.
           assert (Hw1 : toks_wf r1).
           { pose proof (suffix_wf _ _ So Hw) as Hx. inversion Hx; assumption. }
           destruct (IHe _ _ _ Ee Hw1) as [We Se]. split; [cbn [wf_expr]; rewrite Wo, We; reflexivity|].
           eapply suffix_trans; [exact Se|]. eapply suffix_trans; [|exact So]. apply suffix_cons, suffix_refl.
        -- destruct (Nat.ltb 1 (1 + n)); [discriminate|]. injection H as <- <-. split; [exact Wo|exact So].
      * injection H as <- <-. split; [exact Wo|exact So].
  - (* p_orc *)
    intros ts o r H Hw. cbn [p_orc] in H.
    destruct (p_xc f ts) as [|x r0|n] eqn:Ex; try discriminate.
    destruct (IHx _ _ _ Ex Hw) as [Wx Sx].
    destruct r0 as [|t r1].
    + injection H as <- <-. split; [exact Wx|exact Sx].
    + destruct (lit "AND" t).
      * destruct (p_orc f r1) as [|o2 r2|n] eqn:Eo.
        -- injection H as <- <-. split; [exact Wx|exact Sx].
        -- injection H as <- <-.
           assert (Hw1 : toks_wf r1).
           { pose proof (suffix_wf _ _ Sx Hw) as Hy. inversion Hy; assumption. }
           destruct (IHo _ _ _ Eo Hw1) as [Wo So]. split; [cbn [wf_orc]; rewrite Wx, Wo; reflexivity|].
           eapply suffix_trans; [exact So|]. eapply suffix_trans; [|exact Sx]. apply suffix_cons, suffix_refl.
        -- destruct (Nat.ltb 1 (1 + n)); [discriminate|]. injection H as <- <-. split; [exact Wx|exact Sx].
      * injection H as <- <-. split; [exact Wx|exact Sx].
  - (* p_xc *)
    intros ts x r H Hw. cbn [p_xc] in H.
    destruct ts as [|t tl].
    + destruct (p_body f []) as [|b r1|n] eqn:Eb; try discriminate. injection H as <- <-.
      destruct (IHb _ _ _ Eb Hw) as (Wb & Sb & Hn). split; [|exact Sb].
      cbn [wf_xc]. rewrite Wb. destruct (starts_not b) eqn:Es; [|reflexivity].
      destruct (Hn eq_refl) as (t & tl & E & _). discriminate E.
    + destruct (lit "NOT" t) eqn:En.
      * destruct (p_body f tl) as [|b r1|n] eqn:Eb; try discriminate. injection H as <- <-.
        assert (Hw1 : toks_wf tl) by (inversion Hw; assumption).
        destruct (IHb _ _ _ Eb Hw1) as (Wb & Sb & _). split; [cbn [wf_xc]; rewrite Wb; reflexivity|].
        apply suffix_cons. exact Sb.
      * destruct (p_body f (t :: tl)) as [|b r1|n] eqn:Eb; try discriminate. injection H as <- <-.
        destruct (IHb _ _ _ Eb Hw) as (Wb & Sb & Hn). split; [|exact Sb].
        cbn [wf_xc]. rewrite Wb. destruct (starts_not b) eqn:Es; [|reflexivity].
        destruct (Hn eq_refl) as (t' & tl' & E & Hl). injection E as <- <-. congruence.
  - (* p_body *)
    intros ts b r H Hw. cbn [p_body] in H.
    destruct (p_cond f ts) as [|c rc|n] eqn:Ec.
    + (* the parenthesised alternative *)
      destruct ts as [|t tl]; [discriminate|]. destruct (lit "(" t); [|discriminate].
      destruct (p_expr f tl) as [|e r1|n] eqn:Ee; [discriminate| |destruct (Nat.ltb 1 (1 + n)); discriminate].
      destruct r1 as [|t2 r2]; [destruct (Nat.ltb 1 (used (t :: tl) [])); discriminate|].
      destruct (lit ")" t2); [|destruct (Nat.ltb 1 (used (t :: tl) (t2 :: r2))); discriminate].
      injection H as <- <-.
      assert (Hw1 : toks_wf tl) by (inversion Hw; assumption).
      destruct (IHe _ _ _ Ee Hw1) as [We Se]. split; [exact We|]. split; [|intros Hs; discriminate Hs].
      apply suffix_cons. eapply suffix_trans; [|exact Se]. apply suffix_cons, suffix_refl.
    + injection H as <- <-.
      destruct (p_cond_inv _ _ _ _ Ec Hw) as (Wc & Sc & t & tl & -> & Ht & Hh).
      split; [exact Wc|]. split; [exact Sc|]. intros Hs. cbn [starts_not] in Hs. rewrite Hh in Hs.
      exists t, tl. split; [reflexivity|]. rewrite operand_tok_self in Hs; [exact Hs| inversion Hw; assumption | exact Ht].
    + destruct (Nat.ltb 1 n); [discriminate|].
      destruct ts as [|t tl]; [discriminate|]. destruct (lit "(" t); [|discriminate].
      destruct (p_expr f tl) as [|e r1|m] eqn:Ee; [discriminate| |destruct (Nat.ltb 1 (1 + m)); discriminate].
      destruct r1 as [|t2 r2]; [destruct (Nat.ltb 1 (used (t :: tl) [])); discriminate|].
      destruct (lit ")" t2); [|destruct (Nat.ltb 1 (used (t :: tl) (t2 :: r2))); discriminate].
      injection H as <- <-.
      assert (Hw1 : toks_wf tl) by (inversion Hw; assumption).
      destruct (IHe _ _ _ Ee Hw1) as [We Se]. split; [exact We|]. split; [|intros Hs; discriminate Hs].
      apply suffix_cons. eapply suffix_trans; [|exact Se]. apply suffix_cons, suffix_refl.
Qed.

Theorem parsed_expr_wf ts e : toks_wf ts -> parse_expr_tokens ts = Some e -> wf_expr e = true.
Proof.
  intros Hw H. unfold parse_expr_tokens, top in H.
  destruct (p_expr (fuel_for ts) ts) as [|e' r|n] eqn:E; try discriminate.
  destruct r; [|discriminate]. injection H as <-.
  exact (proj1 (proj1 (p_expr_inv _) _ _ _ E Hw)).
Qed.

(* ---------------- the lexer's tokens are well-formed ---------------- *)
Definition pick_inv (k i : nat) (cur : option (option tokty) * nat) : Prop :=
  (fst cur = Some (Some TIdent) -> snd cur = i /\ k < i) /\
  (fst cur = Some (Some TKeyword) -> snd cur = k /\ 1 <= k).

Lemma pick_keep k i cur ty n : ty <> TIdent -> ty <> TKeyword -> pick_inv k i cur -> pick_inv k i (pick cur (Some ty) n).
Proof.
  intros H1 H2 [A B0]. unfold pick. destruct (Nat.ltb (snd cur) n); [|split; assumption].
  split; cbn [fst snd]; intros E; injection E as E; congruence.
Qed.

Lemma pick_result w k i st o nm tg ty n :
  pick (pick (pick (pick (pick (pick (pick (None, 0) None w) (Some TKeyword) k) (Some TIdent) i) (Some TString) st)
       (Some TOperator) o) (Some TNumber) nm) (Some TTags) tg = (Some (Some ty), n) ->
  (ty = TIdent -> n = i /\ k < i) /\ (ty = TKeyword -> n = k /\ 1 <= k).
Proof.
  set (c1 := pick (None, 0) None w).
  set (c2 := pick c1 (Some TKeyword) k).
  set (c3 := pick c2 (Some TIdent) i).
  assert (H1 : fst c1 <> Some (Some TIdent) /\ fst c1 <> Some (Some TKeyword)).
  { unfold c1, pick. cbn [fst snd]. destruct (Nat.ltb 0 w); cbn [fst]; split; discriminate. }
  assert (H2 : k <= snd c2 /\ fst c2 <> Some (Some TIdent) /\ (fst c2 = Some (Some TKeyword) -> snd c2 = k /\ 1 <= k)).
  { unfold c2, pick. destruct (Nat.ltb (snd c1) k) eqn:E; cbn [fst snd].
    - apply Nat.ltb_lt in E. split; [lia|]. split; [discriminate|]. intros _. lia.
    - apply Nat.ltb_ge in E. split; [lia|]. split; [exact (proj1 H1)|]. intros Hk. destruct (proj2 H1 Hk). }
  assert (H3 : pick_inv k i c3).
  { unfold c3, pick, pick_inv. destruct H2 as (A & B0 & C). destruct (Nat.ltb (snd c2) i) eqn:E; cbn [fst snd].
    - apply Nat.ltb_lt in E. split; [intros _; lia|discriminate].
    - split; [intros Hi; destruct (B0 Hi)|exact C]. }
  intros H.
  assert (H7 : pick_inv k i (Some (Some ty), n)).
  { rewrite <- H. repeat (apply pick_keep; [discriminate|discriminate|]). exact H3. }
  destruct H7 as [A B0]. cbn [fst snd] in *. split; intros ->; [apply A|apply B0]; reflexivity.
Qed.

Lemma fold_prefix_firstn lit : forall s n, fold_prefix lit s = Some n -> fold_prefix lit (firstn n s) = Some n.
Proof.
  induction lit as [|c lit IH]; intros s n H; [injection H as <-; reflexivity|].
  destruct s as [|b s]; [discriminate|]. cbn [fold_prefix] in H.
  destruct (byte_eqb (upper_byte b) c) eqn:Eb.
  - destruct (fold_prefix lit s) as [m|] eqn:E; [|discriminate]. injection H as <-.
    cbn [firstn fold_prefix]. rewrite Eb, (IH _ _ E). reflexivity.
  - destruct (is_byte 75 c) eqn:E75.
    + destruct b; try discriminate. destruct s as [|b1 s]; [discriminate|]. destruct b1; try discriminate.
      destruct s as [|b2 s]; [discriminate|]. destruct b2; try discriminate.
      destruct (fold_prefix lit s) as [m|] eqn:E; [|discriminate]. injection H as <-.
      cbn [firstn Nat.add fold_prefix]. rewrite Eb, E75, (IH _ _ E). reflexivity.
    + destruct (is_byte 83 c) eqn:E83; [|discriminate].
      destruct b; try discriminate. destruct s as [|b1 s]; [discriminate|]. destruct b1; try discriminate.
      destruct (fold_prefix lit s) as [m|] eqn:E; [|discriminate]. injection H as <-.
      cbn [firstn Nat.add fold_prefix]. rewrite Eb, E75, E83, (IH _ _ E). reflexivity.
Qed.

Lemma span_le p s : span p s <= List.length s.
Proof. induction s as [|b s IH]; cbn [span List.length]; [lia|]. destruct (p b); lia. Qed.
Lemma lex_ident_le s : lex_ident s <= List.length s.
Proof. destruct s as [|b s]; cbn [lex_ident List.length]; [lia|]. destruct (ident_start b); [pose proof (span_le ident_part s)|]; lia. Qed.

Lemma lex_one_tok_wf s ty n : lex_one s = Some (Some ty, n) -> tok_wf (Tok ty (firstn n s)).
Proof.
  unfold lex_one. intros H.
  destruct (pick _ (Some TTags) _) as [[[ty'|]|] n'] eqn:E; try discriminate. injection H as <- <-.
  apply pick_result in E. destruct E as [Hi Hk]. unfold tok_wf. cbn [t_ty t_val].
  destruct ty'; try exact I.
  - (* Keyword *)
    destruct (Hk eq_refl) as [-> Hpos].
    destruct (kw_fold_bounds s keywords 0) as (_ & _ & H3). cbn zeta in H3. rewrite <- lex_keyword_fold in H3.
    destruct H3 as [H3|(kw & Hin & H3)]; [lia|].
    unfold kw_len in H3. destruct (fold_prefix kw s) as [m|] eqn:Ef; [|lia]. subst m.
    unfold is_keyword_text. apply existsb_exists. exists kw. split; [exact Hin|].
    unfold fold_eq. rewrite (fold_prefix_firstn _ _ _ Ef). apply Nat.eqb_eq.
    rewrite firstn_length. apply fold_prefix_le in Ef. lia.
  - (* Ident *)
    destruct (Hi eq_refl) as [-> Hlt].
    destruct (is_keyword_text (firstn (lex_ident s) s)) eqn:Ek; [|reflexivity]. exfalso.
    unfold is_keyword_text in Ek. apply existsb_exists in Ek as (kw & Hin & Hf).
    unfold fold_eq in Hf. destruct (fold_prefix kw (firstn (lex_ident s) s)) as [m|] eqn:Ef; [|discriminate].
    apply Nat.eqb_eq in Hf. rewrite firstn_length in Hf. pose proof (lex_ident_le s).
    apply (fold_prefix_app kw _ _ (skipn (lex_ident s) s)) in Ef. rewrite firstn_skipn in Ef.
    destruct (kw_fold_bounds s keywords 0) as (_ & H2 & _). cbn zeta in H2. rewrite <- lex_keyword_fold in H2.
    specialize (H2 kw Hin). unfold kw_len in H2. rewrite Ef in H2. lia.
Qed.

Lemma lex_fuel_wf : forall f s ts, lex_fuel f s = Some ts -> toks_wf ts.
Proof.
  induction f as [|f IH]; intros s ts H.
  - destruct s; [injection H as <-; constructor|discriminate].
  - destruct s as [|b s]; [injection H as <-; constructor|].
    cbn [lex_fuel] in H. destruct (lex_one (b :: s)) as [[ty n]|] eqn:E; [|discriminate].
    destruct (lex_fuel f (skipn n (b :: s))) as [ts'|] eqn:E2; [|discriminate]. injection H as <-.
    pose proof (IH _ _ E2) as Hw. destruct ty as [ty|]; [|exact Hw].
    constructor; [exact (lex_one_tok_wf _ _ _ E)|exact Hw].
Qed.

Lemma map_tokens_wf unq : forall ts ts', map_tokens unq ts = Some ts' -> toks_wf ts -> toks_wf ts'.
Proof.
  induction ts as [|t ts IH]; intros ts' H Hw; [injection H as <-; constructor|].
  cbn [map_tokens] in H. destruct (map_tokens unq ts) as [r|] eqn:E; [|discriminate].
  inversion Hw as [|? ? Ht Hts]; subst. specialize (IH r eq_refl Hts).
  destruct (t_ty t) eqn:Ety; try (injection H as <-; constructor; assumption).
  destruct (unq (t_val t)); [|discriminate]. injection H as <-. constructor; [exact I|exact IH].
Qed.

Theorem tokenize_wf unq s ts : tokenize unq s = Some ts -> toks_wf ts.
Proof.
  unfold tokenize, lex. intros H. destruct (lex_fuel (List.length s) s) as [raw|] eqn:E; [|discriminate].
  exact (map_tokens_wf unq _ _ H (lex_fuel_wf _ _ _ E)).
Qed.

(* every expression lql.ParseExpr returns is well-formed, hence (C12_expr) recovered from the tokens of its print *)
Theorem parse_expr_text_wf unq text e : parse_expr_text unq text = Some (Some e) -> wf_expr e = true.
Proof.
  unfold parse_expr_text. destruct text as [|b text]; [discriminate|].
  destruct (tokenize unq (b :: text)) as [ts|] eqn:E; [|discriminate].
  destruct (parse_expr_tokens ts) as [e'|] eqn:E2; [|discriminate]. cbn. intros H. injection H as <-.
  exact (parsed_expr_wf ts e' (tokenize_wf _ _ _ E) E2).
Qed.
