(* Lemmas about model/TmTreeML.v: what the flat-index proofs use about grEq / less
   (the answer is a record of the index with ts <= t, resp. ts > t) holds for the multi-level tree too. *)
From LR Require Import lib.Base model.TmTree model.TmTreeML proofs.TmTreeP.
Open Scope Z_scope.

(* every block is non-empty and sorted by timestamp (upper blocks: the copies of their children's first
   timestamps followed by the closing record) *)
Fixpoint wf (n : nat) : treeN n -> Prop :=
  match n with
  | O => fun rs => rs <> [] /\ sorted_ts rs
  | S m => fun kids => kids <> [] /\ sorted_ts (node_recs m kids) /\ forall k, In k kids -> wf m k
  end.

Lemma last_In {A} (l : list A) d : l <> [] -> In (last l d) l.
Proof. intros H. destruct (exists_last H) as (l' & a & ->). rewrite last_last. apply in_or_app. right. left. reflexivity. Qed.

Lemma t_first_In n : forall t, wf n t -> In (t_first n t) (t_recs n t).
Proof.
  induction n as [|m IH]; intros t H.
  - destruct H as [Hne _]. cbn in *. destruct t; [contradiction|left; reflexivity].
  - destruct H as (Hne & _ & Hk). cbn [t_first t_recs]. destruct t as [|k tl]; [contradiction|].
    cbn [flat_map]. apply in_or_app. left. apply IH. apply Hk. left. reflexivity.
Qed.
Lemma t_last_In n : forall t, wf n t -> In (t_last n t) (t_recs n t).
Proof.
  induction n as [|m IH]; intros t H.
  - destruct H as [Hne _]. cbn in *. unfold last_rec. apply last_In. exact Hne.
  - destruct H as (Hne & _ & Hk). cbn [t_last t_recs]. destruct t as [|k tl] eqn:E; [contradiction|]. rewrite <- E in *.
    apply in_flat_map. exists (last t (tnil m)). split; [apply last_In; exact Hne|]. apply IH. apply Hk. apply last_In. exact Hne.
Qed.

Lemma node_recs_length m kids : kids <> [] -> length (node_recs m kids) = S (length kids).
Proof. intros H. unfold node_recs. destruct kids; [contradiction|]. rewrite app_length, map_length. cbn. lia. Qed.
Lemma node_recs_nth_kid m kids i : (i < length kids)%nat ->
  nth i (node_recs m kids) rec0 = mkrec (r_ts (t_first m (nth i kids (tnil m)))) 0.
Proof.
  intros H. unfold node_recs. destruct kids as [|k tl] eqn:E; [cbn in H; lia|]. rewrite <- E in *.
  rewrite app_nth1 by (rewrite map_length; exact H).
  rewrite (nth_indep _ rec0 ((fun k0 => mkrec (r_ts (t_first m k0)) 0) (tnil m))) by (rewrite map_length; exact H).
  exact (map_nth (fun k0 : treeN m => mkrec (r_ts (t_first m k0)) 0) kids (tnil m) i).
Qed.
Lemma node_recs_nth_last m kids : kids <> [] ->
  nth (length kids) (node_recs m kids) rec0 = t_last m (last kids (tnil m)).
Proof.
  intros H. unfold node_recs. destruct kids as [|k tl] eqn:E; [contradiction|]. rewrite <- E in *.
  rewrite app_nth2 by (rewrite map_length; lia). rewrite map_length, Nat.sub_diag. reflexivity.
Qed.

Lemma t_last_S m (kids : list (treeN m)) : kids <> [] -> t_last (S m) kids = t_last m (last kids (tnil m)).
Proof. intros H. destruct kids; [contradiction|reflexivity]. Qed.
Lemma t_first_S m (k : treeN m) (tl : list (treeN m)) : t_first (S m) (k :: tl) = t_first m k.
Proof. reflexivity. Qed.

Lemma idx_lt (k0 L LL : nat) : (k0 <= LL)%nat -> LL = S L -> 0 <= Z.of_nat k0 - 1 -> Z.of_nat k0 - 1 <> Z.of_nat L ->
  (Z.to_nat (Z.of_nat k0 - 1) < L)%nat.
Proof. lia. Qed.
Lemma idx_last (k0 L : nat) : Z.of_nat k0 - 1 = Z.of_nat L -> (L < k0)%nat.
Proof. lia. Qed.

Lemma intervals_len (rs : list rec) n : length rs = S n -> (0 < n)%nat -> intervals rs = Z.of_nat n.
Proof. intros H Hn. rewrite intervals_val, H. destruct (Nat.leb_spec (S n) 1); lia. Qed.

Lemma find_idx_nonempty rs ts : rs <> [] -> find_interval_idx rs ts = Z.of_nat (search_le rs ts) - 1.
Proof. intros H. unfold find_interval_idx. destruct rs; [contradiction|reflexivity]. Qed.

(* grEq on a tree of any level: a record of the tree whose timestamp is <= t *)
Theorem t_gr_eq_rec n : forall t ts r, wf n t -> t_gr_eq n t ts = ARec r -> In r (t_recs n t) /\ r_ts r <= ts.
Proof.
  induction n as [|m IH]; intros t ts r Hwf H.
  - destruct Hwf as [Hne Hs]. cbn in *. destruct (flat_gr_eq_rec t ts r Hs H) as [Hok|[E _]]; [exact Hok|contradiction].
  - destruct Hwf as (Hne & Hs & Hk). cbn [t_gr_eq] in H.
    pose proof (node_recs_length m t Hne) as Hlen.
    assert (Hrne : node_recs m t <> []) by (intros E; rewrite E in Hlen; discriminate).
    rewrite (find_idx_nonempty _ ts Hrne) in H.
    destruct (search_le_spec (node_recs m t) ts Hs) as (Hk0 & Hlo & Hhi).
    set (k0 := search_le (node_recs m t) ts) in *.
    assert (Hint : intervals (node_recs m t) = Z.of_nat (length t)).
    { assert (Hl0' : (0 < length t)%nat) by (destruct t; [contradiction|cbn; lia]).
      exact (intervals_len _ (length t) Hlen Hl0'). }
    rewrite Hint in H.
    destruct (Z.of_nat k0 - 1 <? 0) eqn:E0; [discriminate|]. apply Z.ltb_ge in E0.
    destruct (Z.of_nat k0 - 1 =? Z.of_nat (length t)) eqn:E1.
    + apply Z.eqb_eq in E1.
      assert (Hr : t_last (S m) t = nth (length t) (node_recs m t) rec0).
      { rewrite (t_last_S m t Hne). symmetry. apply node_recs_nth_last. exact Hne. }
      assert (Er : r = t_last (S m) t) by congruence. rewrite Er. split; [apply (t_last_In (S m) t); cbn; auto|].
      rewrite Hr. apply Hlo. exact (idx_last k0 (length t) E1).
    + apply Z.eqb_neq in E1.
      assert (Hi : (Z.to_nat (Z.of_nat k0 - 1) < length t)%nat) by exact (idx_lt k0 (length t) _ Hk0 Hlen E0 E1).
      destruct (IH (nth (Z.to_nat (Z.of_nat k0 - 1)) t (tnil m)) ts r (Hk _ (nth_In t (tnil m) Hi)) H) as [Hin Hle].
      split; [|exact Hle]. cbn [t_recs]. apply in_flat_map. eexists. split; [apply (nth_In t (tnil m) Hi)|exact Hin].
Qed.

(* less on a tree of any level: a record of the tree whose timestamp is > t *)
Theorem t_less_rec n : forall t ts r, wf n t -> t_less n t ts = ARec r -> In r (t_recs n t) /\ ts < r_ts r.
Proof.
  induction n as [|m IH]; intros t ts r Hwf H.
  - destruct Hwf as [Hne Hs]. cbn in *. apply (flat_less_rec t ts r Hs H).
  - destruct Hwf as (Hne & Hs & Hk). cbn [t_less] in H.
    pose proof (node_recs_length m t Hne) as Hlen.
    assert (Hrne : node_recs m t <> []) by (intros E; rewrite E in Hlen; discriminate).
    rewrite (find_idx_nonempty _ ts Hrne) in H.
    destruct (search_le_spec (node_recs m t) ts Hs) as (Hk0 & Hlo & Hhi).
    set (k0 := search_le (node_recs m t) ts) in *.
    assert (Hint : intervals (node_recs m t) = Z.of_nat (length t)).
    { assert (Hl0' : (0 < length t)%nat) by (destruct t; [contradiction|cbn; lia]).
      exact (intervals_len _ (length t) Hlen Hl0'). }
    rewrite Hint in H.
    destruct (Z.of_nat k0 - 1 <? 0) eqn:E0.
    + apply Z.ltb_lt in E0. assert (Er : r = t_first (S m) t) by congruence. rewrite Er. split; [apply (t_first_In (S m) t); cbn; auto|].
      assert (Hl0 : (0 < length t)%nat) by (destruct t; [contradiction|cbn; lia]).
      specialize (Hhi 0%nat ltac:(lia) ltac:(lia)). rewrite (node_recs_nth_kid m t 0 Hl0) in Hhi. cbn [r_ts] in Hhi.
      cbn [t_first]. destruct t as [|k tl]; [contradiction|]. exact Hhi.
    + apply Z.ltb_ge in E0. destruct (Z.of_nat k0 - 1 =? Z.of_nat (length t)) eqn:E1; [discriminate|].
      apply Z.eqb_neq in E1.
      assert (Hi : (Z.to_nat (Z.of_nat k0 - 1) < length t)%nat) by exact (idx_lt k0 (length t) _ Hk0 Hlen E0 E1).
      destruct (IH (nth (Z.to_nat (Z.of_nat k0 - 1)) t (tnil m)) ts r (Hk _ (nth_In t (tnil m) Hi)) H) as [Hin Hle].
      split; [|exact Hle]. cbn [t_recs]. apply in_flat_map. eexists. split; [apply (nth_In t (tnil m) Hi)|exact Hin].
Qed.

(* ---------- the in-order case of addInterval on a tree of any level ---------- *)
Lemma sorted_ts_prefix l a : sorted_ts (l ++ [a]) -> sorted_ts l.
Proof.
  intros H i j Hij Hj. specialize (H i j Hij). rewrite app_length in H. specialize (H ltac:(lia)).
  rewrite !app_nth1 in H by lia. exact H.
Qed.
Lemma sorted_ts_In_le_last l a r : sorted_ts (l ++ [a]) -> In r l -> r_ts r <= r_ts a.
Proof.
  intros H Hr. destruct (In_nth l r rec0 Hr) as (i & Hi & <-).
  specialize (H i (length l) ltac:(lia)). rewrite app_length in H. cbn [length] in H. specialize (H ltac:(lia)).
  rewrite app_nth1 in H by lia. rewrite (app_nth2 l [a] rec0 (Nat.le_refl (length l))) in H. rewrite Nat.sub_diag in H. exact H.
Qed.

Lemma insert_idx_all_le rs ts : sorted_ts rs -> rs <> [] -> (forall r, In r rs -> r_ts r <= ts) ->
  find_insert_idx0 rs ts = intervals rs /\ search_le rs ts = length rs.
Proof.
  intros Hs Hne Hall. unfold find_insert_idx0.
  destruct (search_le_spec rs ts Hs) as (Hk & Hlo & Hhi). set (k := search_le rs ts) in *.
  assert (Hkl : k = length rs).
  { destruct (Nat.lt_ge_cases k (length rs)) as [Hlt|Hge]; [|lia].
    specialize (Hhi k (Nat.le_refl _) Hlt). specialize (Hall _ (nth_In rs rec0 Hlt)). lia. }
  split; [|exact Hkl]. rewrite (find_idx_nonempty rs ts Hne). fold k. rewrite intervals_val.
  assert (Hl : (0 < length rs)%nat) by (destruct rs; [contradiction|cbn; lia]).
  destruct (Nat.leb_spec (length rs) 1); lia.
Qed.

Lemma sub2 (L : nat) : Z.of_nat (S L) - 2 = Z.of_nat L - 1.
Proof. lia. Qed.
Lemma tonat_len (L : nat) : (0 < L)%nat -> (Z.to_nat (Z.of_nat L - 1) + 1)%nat = L.
Proof. lia. Qed.

Lemma sorted_ts_ts_eq l1 l2 : map r_ts l1 = map r_ts l2 -> sorted_ts l1 -> sorted_ts l2.
Proof.
  intros E H i j Hij Hj.
  assert (Hl : length l1 = length l2) by (rewrite <- (map_length r_ts l1), E, map_length; reflexivity).
  change (r_ts (nth i l2 rec0)) with (r_ts (nth i l2 rec0)).
  rewrite <- (map_nth r_ts l2 rec0 i), <- (map_nth r_ts l2 rec0 j), <- E, !map_nth. apply H; lia.
Qed.
Lemma map_ts_app_one (a : list rec) (x : rec) : map r_ts (a ++ [mkrec (r_ts x) 0]) = map r_ts (a ++ [x]).
Proof. rewrite !map_app. reflexivity. Qed.

Definition node_firsts (m : nat) (kids : list (treeN m)) : list rec := map (fun k => mkrec (r_ts (t_first m k)) 0) kids.
Lemma node_recs_eq m kids : kids <> [] -> node_recs m kids = node_firsts m kids ++ [t_last m (last kids (tnil m))].
Proof. intros H. unfold node_recs, node_firsts. destruct kids; [contradiction|reflexivity]. Qed.

Lemma new_chain_props m p0 p1 : r_ts p0 <= r_ts p1 ->
  wf m (new_chain m p0 p1) /\ t_first m (new_chain m p0 p1) = p0 /\ t_last m (new_chain m p0 p1) = p1 /\
  t_recs m (new_chain m p0 p1) = [p0; p1].
Proof.
  intros Hle. induction m as [|m IH].
  - cbn. repeat split; try discriminate. apply sorted_ts_two. exact Hle.
  - destruct IH as (Hw & Hf & Hl & Hr). cbn [new_chain]. split; [|split; [|split]].
    + cbn [wf]. split; [discriminate|]. split.
      * unfold node_recs. cbn [map last app]. rewrite Hf, Hl. apply sorted_ts_two. cbn. exact Hle.
      * intros k [<-|[]]. exact Hw.
    + cbn [t_first]. exact Hf.
    + cbn [t_last last]. exact Hl.
    + cbn [t_recs flat_map]. rewrite Hr, app_nil_r. reflexivity.
Qed.

(* the result of an in-order add: same records plus p1 (as a set), first record unchanged, last record p1;
   or errFullBlock with the tree's last record *)
Definition add_spec (n : nat) (t : treeN n) (p1 : rec) (res : add_res n) : Prop :=
  match res with
  | AddOk t' => wf n t' /\ t_first n t' = t_first n t /\ t_last n t' = p1 /\
                (forall r, In r (t_recs n t') <-> In r (t_recs n t) \/ r = p1)
  | AddFull lr => lr = t_last n t
  end.

Lemma removelast_last_eq {A} (l : list A) d : l <> [] -> l = removelast l ++ [last l d].
Proof. intros H. apply app_removelast_last. exact H. Qed.

Lemma flat_map_removelast_last {A B} (f : A -> list B) (l : list A) d : l <> [] ->
  flat_map f l = flat_map f (removelast l) ++ f (last l d).
Proof.
  intros H. rewrite (removelast_last_eq l d H) at 1. rewrite flat_map_app. cbn. rewrite app_nil_r. reflexivity.
Qed.

Lemma t_first_app m (kids : list (treeN m)) x : kids <> [] -> t_first (S m) (kids ++ [x]) = t_first (S m) kids.
Proof. intros H. destruct kids; [contradiction|reflexivity]. Qed.

Theorem t_add_append n : forall t p0 p1, wf n t -> r_ts p0 <= r_ts p1 ->
  (forall r, In r (t_recs n t) -> r_ts r <= r_ts p0) -> add_spec n t p1 (t_add n t p0 p1).
Proof.
  induction n as [|m IH]; intros t p0 p1 Hwf Hle Hall.
  - destruct Hwf as [Hne Hs]. cbn [t_add]. cbn [t_recs] in Hall.
    destruct (insert_idx_all_le t (r_ts p0) Hs Hne Hall) as [Hins _]. rewrite Hins, Z.eqb_refl. cbn [andb].
    destruct (Nat.eqb (length t) max_recs_per_block); [reflexivity|].
    cbn [add_spec]. rewrite (flat_add_append t p0 p1 Hs Hne Hall). cbn [wf t_first t_last t_recs].
    split; [split; [destruct t; discriminate|]|split; [|split]].
    + apply sorted_ts_app_one; [exact Hs|]. intros r Hr. specialize (Hall r Hr). lia.
    + unfold first_rec. destruct t; [contradiction|reflexivity].
    + unfold last_rec. apply last_last.
    + intros r. rewrite in_app_iff. cbn [In]. split; [intros [H|[<-|[]]]; auto|intros [H| ->]; [left; exact H|right; left; reflexivity]].
  - destruct Hwf as (Hne & Hs & Hk). cbn [t_add]. destruct t as [|k0 tl] eqn:Et; [contradiction|]. rewrite <- Et in *.
    pose proof (node_recs_length m t Hne) as Hlen.
    assert (Hrne : node_recs m t <> []) by (intros E; rewrite E in Hlen; discriminate).
    assert (Hlast_in : In (last t (tnil m)) t) by (apply last_In; exact Hne).
    (* every record the upper block reads is <= p0.ts *)
    assert (Hnr : forall r, In r (node_recs m t) -> r_ts r <= r_ts p0).
    { intros r Hr. rewrite (node_recs_eq m t Hne) in Hr. apply in_app_or in Hr as [Hr|[<-|[]]].
      - unfold node_firsts in Hr. apply in_map_iff in Hr as (k & <- & Hkin). cbn [r_ts].
        apply Hall. cbn [t_recs]. apply in_flat_map. exists k. split; [exact Hkin|apply t_first_In; apply Hk; exact Hkin].
      - apply Hall. cbn [t_recs]. apply in_flat_map. exists (last t (tnil m)). split; [exact Hlast_in|apply t_last_In; apply Hk; exact Hlast_in]. }
    destruct (insert_idx_all_le (node_recs m t) (r_ts p0) Hs Hrne Hnr) as [_ Hsearch].
    assert (Hins : find_insert_idx_up m t (r_ts p0) = Z.of_nat (length t) - 1).
    { unfold find_insert_idx_up. destruct (node_recs m t) eqn:E; [contradiction|]. rewrite <- E in *.
      rewrite Hsearch, Hlen, Z.eqb_refl. exact (sub2 (length t)). }
    rewrite Hins.
    assert (Hl0 : (0 < length t)%nat) by (destruct t; [contradiction|cbn; lia]).
    rewrite (tonat_len (length t) Hl0). rewrite firstn_all.
    set (lb := last t (tnil m)) in *.
    assert (Hlbrecs : forall r, In r (t_recs m lb) -> In r (t_recs (S m) t)).
    { intros r Hr. cbn [t_recs]. apply in_flat_map. exists lb. split; assumption. }
    specialize (IH lb p0 p1 (Hk lb Hlast_in) Hle (fun r Hr => Hall r (Hlbrecs r Hr))).
    assert (Hfirsts_le : forall r, In r (node_firsts m t) -> r_ts r <= r_ts p1).
    { intros r Hr. specialize (Hnr r ltac:(rewrite (node_recs_eq m t Hne); apply in_or_app; left; exact Hr)). lia. }
    assert (Hsf : sorted_ts (node_firsts m t)) by (rewrite (node_recs_eq m t Hne) in Hs; apply (sorted_ts_prefix _ _ Hs)).
    destruct (t_add m lb p0 p1) as [lb'|lr]; cbn [add_spec] in IH |- *.
    + (* the last child took the interval *)
      destruct IH as (Hwf' & Hf' & Hl' & Hr').
      assert (Hne' : removelast t ++ [lb'] <> []) by (destruct (removelast t); discriminate).
      assert (Hfirsts' : node_firsts m (removelast t ++ [lb']) = node_firsts m t).
      { unfold node_firsts. rewrite (removelast_last_eq t (tnil m) Hne) at 2. rewrite !map_app. cbn [map]. fold lb. rewrite Hf'. reflexivity. }
      split; [|split; [|split]].
      * cbn [wf]. split; [exact Hne'|]. split.
        -- rewrite (node_recs_eq m _ Hne'), Hfirsts', last_last, Hl'. apply sorted_ts_app_one; assumption.
        -- intros k Hkin. apply in_app_or in Hkin as [Hkin|[<-|[]]]; [|exact Hwf'].
           apply Hk. rewrite (removelast_last_eq t (tnil m) Hne). apply in_or_app. left. exact Hkin.
      * destruct (removelast t) as [|a l] eqn:Er.
        -- cbn [app t_first]. rewrite Hf'. rewrite (removelast_last_eq t (tnil m) Hne), Er. cbn [app t_first]. reflexivity.
        -- cbn [app t_first]. rewrite (removelast_last_eq t (tnil m) Hne), Er. cbn [app t_first]. reflexivity.
      * rewrite (t_last_S m _ Hne'), last_last. exact Hl'.
      * intros r. cbn [t_recs]. rewrite flat_map_app. cbn [flat_map]. rewrite app_nil_r.
        rewrite (flat_map_removelast_last (t_recs m) t (tnil m) Hne). fold lb. rewrite !in_app_iff, Hr'. tauto.
    + (* the last child is full *)
      subst lr. destruct (Nat.eqb (length t) (max_recs_per_block - 1)).
      * cbn [add_spec]. symmetry. apply (t_last_S m t Hne).
      * cbn [add_spec].
        assert (Hlrle : r_ts (t_last m lb) <= r_ts p1).
        { specialize (Hall (t_last m lb) (Hlbrecs _ (t_last_In m lb (Hk lb Hlast_in)))). lia. }
        destruct (new_chain_props m (t_last m lb) p1 Hlrle) as (Hcw & Hcf & Hcl & Hcr).
        assert (Hne' : t ++ [new_chain m (t_last m lb) p1] <> []) by (destruct t; discriminate).
        split; [|split; [|split]].
        -- cbn [wf]. split; [exact Hne'|]. split.
           ++ rewrite (node_recs_eq m _ Hne'), last_last, Hcl. unfold node_firsts. rewrite map_app. cbn [map]. rewrite Hcf.
              apply sorted_ts_app_one.
              ** (* firsts ++ [last child's last ts]: the old upper block, up to the position field *)
                 rewrite (node_recs_eq m t Hne) in Hs. fold lb in Hs.
                 apply (sorted_ts_ts_eq _ _ (eq_sym (map_ts_app_one _ _)) Hs).
              ** intros r Hr. apply in_app_or in Hr as [Hr|[<-|[]]]; [apply Hfirsts_le; exact Hr|cbn; exact Hlrle].
           ++ intros k Hkin. apply in_app_or in Hkin as [Hkin|[<-|[]]]; [apply Hk; exact Hkin|exact Hcw].
        -- apply (t_first_app m t _ Hne).
        -- rewrite (t_last_S m _ Hne'), last_last. exact Hcl.
        -- intros r. cbn [t_recs]. rewrite flat_map_app. cbn [flat_map]. rewrite app_nil_r, Hcr, in_app_iff. cbn [In].
           split.
           ++ intros [H|[E|[E|[]]]]; [left; exact H|left; rewrite <- E; apply (Hlbrecs _ (t_last_In m lb (Hk lb Hlast_in)))|right; symmetry; exact E].
           ++ intros [H|E]; [left; exact H|right; right; left; symmetry; exact E].
Qed.

(* ---------- ckindex.addInterval (new root, prune) in the in-order case ---------- *)
Definition tree_recs (t : tree) : list rec := t_recs (projT1 t) (projT2 t).
Definition tree_last (t : tree) : rec := t_last (projT1 t) (projT2 t).
(* well-formed, and the last record carries the largest timestamp *)
Definition tree_wf (t : tree) : Prop :=
  wf (projT1 t) (projT2 t) /\ forall r, In r (tree_recs t) -> r_ts r <= r_ts (tree_last t).

Lemma prune_props n : forall t, wf n t ->
  wf (projT1 (prune n t)) (projT2 (prune n t)) /\ tree_recs (prune n t) = t_recs n t /\ tree_last (prune n t) = t_last n t.
Proof.
  induction n as [|m IH]; intros t Hwf; [cbn; auto|].
  cbn [prune]. destruct t as [|k [|k2 tl]]; [cbn; auto| |cbn; auto].
  destruct Hwf as (_ & _ & Hk). destruct (IH k (Hk k (or_introl eq_refl))) as (H1 & H2 & H3).
  split; [exact H1|]. split; [rewrite H2; cbn [t_recs flat_map]; rewrite app_nil_r; reflexivity|rewrite H3; reflexivity].
Qed.

Lemma firstn_S_single {A} k (x : A) : firstn (S k) [x] = [x].
Proof. cbn. destruct k; reflexivity. Qed.

Lemma t_add_single_not_full n (tn : treeN n) p0 p1 lr : t_add (S n) ([tn] : treeN (S n)) p0 p1 <> AddFull lr.
Proof.
  cbn [t_add].
  assert (E : forall z, firstn (Z.to_nat z + 1) ([tn] : list (treeN n)) = [tn]).
  { intros z. replace (Z.to_nat z + 1)%nat with (S (Z.to_nat z)) by lia. apply firstn_S_single. }
  rewrite !E. cbn [last length removelast app].
  destruct (t_add n tn p0 p1); [discriminate|]. cbn. discriminate.
Qed.

Theorem top_add_append t p0 p1 : tree_wf t -> r_ts p0 <= r_ts p1 ->
  (forall r, In r (tree_recs t) -> r_ts r <= r_ts p0) ->
  tree_wf (top_add t p0 p1) /\ tree_last (top_add t p0 p1) = p1 /\
  (forall r, In r (tree_recs (top_add t p0 p1)) <-> In r (tree_recs t) \/ r = p1).
Proof.
  destruct t as [n tn]. unfold tree_wf, tree_recs, tree_last. cbn [projT1 projT2]. intros [Hwf Hmax] Hle Hall.
  assert (Hfinish : forall k (t' : treeN k), wf k t' -> t_last k t' = p1 ->
            (forall r, In r (t_recs k t') <-> In r (t_recs n tn) \/ r = p1) ->
            (wf (projT1 (prune k t')) (projT2 (prune k t')) /\
             forall r, In r (t_recs (projT1 (prune k t')) (projT2 (prune k t'))) ->
                       r_ts r <= r_ts (t_last (projT1 (prune k t')) (projT2 (prune k t')))) /\
            t_last (projT1 (prune k t')) (projT2 (prune k t')) = p1 /\
            (forall r, In r (t_recs (projT1 (prune k t')) (projT2 (prune k t'))) <-> In r (t_recs n tn) \/ r = p1)).
  { intros k t' Hw Hl Hr. destruct (prune_props k t' Hw) as (H1 & H2 & H3). unfold tree_recs, tree_last in H2, H3.
    rewrite H2, H3, Hl. split; [split; [exact H1|]|split; [reflexivity|exact Hr]].
    intros r Hin. apply Hr in Hin as [Hin| ->]; [specialize (Hall r Hin); lia|lia]. }
  unfold top_add. pose proof (t_add_append n tn p0 p1 Hwf Hle Hall) as Hspec.
  destruct (t_add n tn p0 p1) as [t'|lr]; cbn [add_spec] in Hspec.
  - destruct Hspec as (Hw & _ & Hl & Hr). apply (Hfinish n t' Hw Hl Hr).
  - subst lr.
    assert (Hwf1 : wf (S n) ([tn] : treeN (S n))).
    { cbn [wf]. split; [discriminate|]. split; [|intros k [<-|[]]; exact Hwf].
      unfold node_recs. cbn [map last app]. apply sorted_ts_two. cbn [r_ts]. apply Hmax. apply t_first_In. exact Hwf. }
    assert (Hlr : r_ts (t_last n tn) <= r_ts p1) by (specialize (Hall _ (t_last_In n tn Hwf)); lia).
    assert (Hall1 : forall r, In r (t_recs (S n) ([tn] : treeN (S n))) -> r_ts r <= r_ts (t_last n tn)).
    { intros r Hr. cbn [t_recs flat_map] in Hr. rewrite app_nil_r in Hr. apply Hmax. exact Hr. }
    pose proof (t_add_append (S n) ([tn] : treeN (S n)) (t_last n tn) p1 Hwf1 Hlr Hall1) as Hspec1.
    pose proof (t_add_single_not_full n tn (t_last n tn) p1) as Hnf.
    destruct (t_add (S n) ([tn] : treeN (S n)) (t_last n tn) p1) as [t'|lr]; [|exfalso; apply (Hnf lr); reflexivity].
    cbn [add_spec] in Hspec1. destruct Hspec1 as (Hw & _ & Hl & Hr).
    apply (Hfinish (S n) t' Hw Hl). intros r. rewrite Hr. cbn [t_recs flat_map]. rewrite app_nil_r. reflexivity.
Qed.

(* the first interval *)
Lemma top_new_wf p0 p1 : r_ts p0 <= r_ts p1 -> tree_wf (top_new p0 p1) /\ tree_recs (top_new p0 p1) = [p0; p1].
Proof.
  intros H. unfold tree_wf, tree_recs, tree_last, top_new, mk_tree. cbn [projT1 projT2 wf t_recs t_last].
  split; [|reflexivity]. split; [split; [discriminate|apply sorted_ts_two; exact H]|].
  intros r [<-|[<-|[]]]; cbn; lia.
Qed.

(* the two answers on a whole tree *)
Theorem tree_gr_eq_rec t ts r : tree_wf t -> tree_gr_eq t ts = ARec r -> In r (tree_recs t) /\ r_ts r <= ts.
Proof. destruct t as [n tn]. intros [Hwf _] H. apply (t_gr_eq_rec n tn ts r Hwf H). Qed.
Theorem tree_less_rec t ts r : tree_wf t -> tree_less t ts = ARec r -> In r (tree_recs t) /\ ts < r_ts r.
Proof. destruct t as [n tn]. intros [Hwf _] H. apply (t_less_rec n tn ts r Hwf H). Qed.
