(* Proofs about model/Provider.v: the invariant of the cursor cache, preserved by every atomic step of
   every request, of the sweeper, of the clock and of Shutdown, for every history and schedule of
   the code as it is (`code_variant`: no hypothesis on the clients); and what follows from it (C15). *)
From LR Require Import lib.Base model.CList model.Provider proofs.CListP.
From Coq Require Import Permutation.

(* ================= finite maps ================= *)
Lemma map_get_del m k k' : map_get (map_del m k) k' = if N.eqb k' k then None else map_get m k'.
Proof.
  induction m as [|[k0 v] m IH]; cbn [map_del map_get].
  - destruct (N.eqb k' k); reflexivity.
  - destruct (N.eqb k0 k) eqn:E1.
    + rewrite IH. destruct (N.eqb k' k) eqn:E2; [reflexivity|].
      destruct (N.eqb k0 k') eqn:E3; [|reflexivity].
      apply N.eqb_eq in E1. apply N.eqb_eq in E3. subst. rewrite N.eqb_refl in E2. discriminate.
    + cbn [map_get]. rewrite IH. destruct (N.eqb k0 k') eqn:E3; [|reflexivity].
      apply N.eqb_eq in E3. subst. rewrite E1. reflexivity.
Qed.

Lemma map_get_set m k v k' : map_get (map_set m k v) k' = if N.eqb k' k then Some v else map_get m k'.
Proof.
  unfold map_set. cbn [map_get]. rewrite map_get_del. rewrite (N.eqb_sym k k'). destruct (N.eqb k' k); reflexivity.
Qed.

Lemma map_del_none m k : map_get m k = None -> map_del m k = m.
Proof.
  induction m as [|[k0 v] m IH]; cbn [map_del map_get]; [reflexivity|].
  destruct (N.eqb k0 k); [discriminate|]. intros H. rewrite IH by exact H. reflexivity.
Qed.

Lemma map_del_len m k : length (map_del m k) <= length m.
Proof. induction m as [|[k0 v] m IH]; cbn [map_del length]; [lia|]. destruct (N.eqb k0 k); cbn [length]; lia. Qed.

Lemma map_del_len_some m k v : map_get m k = Some v -> length (map_del m k) < length m.
Proof.
  induction m as [|[k0 v0] m IH]; cbn [map_del map_get length]; [discriminate|].
  destruct (N.eqb k0 k).
  - intros _. pose proof (map_del_len m k). lia.
  - intros H. cbn [length]. apply IH in H. lia.
Qed.

Lemma map_get_in m k v : map_get m k = Some v -> In k (map fst m).
Proof.
  induction m as [|[k0 v0] m IH]; cbn [map_get map fst]; [discriminate|].
  destruct (N.eqb k0 k) eqn:E; [apply N.eqb_eq in E; left; exact E|right; auto].
Qed.

Lemma map_nonempty_get m : m <> [] -> exists k v, map_get m k = Some v.
Proof. destruct m as [|[k v] m]; [congruence|]. intros _. exists k, v. cbn. rewrite N.eqb_refl. reflexivity. Qed.

(* ================= actor table ================= *)
Lemma act_get_del l r r' : act_get (act_del l r) r' = if Nat.eqb r' r then AIdle else act_get l r'.
Proof.
  induction l as [|[r0 a] l IH]; cbn [act_del act_get].
  - destruct (Nat.eqb r' r); reflexivity.
  - destruct (Nat.eqb r0 r) eqn:E1.
    + rewrite IH. destruct (Nat.eqb r' r) eqn:E2; [reflexivity|].
      destruct (Nat.eqb r0 r') eqn:E3; [|reflexivity].
      apply Nat.eqb_eq in E1. apply Nat.eqb_eq in E3. subst. rewrite Nat.eqb_refl in E2. discriminate.
    + cbn [act_get]. rewrite IH. destruct (Nat.eqb r0 r') eqn:E3; [|reflexivity].
      apply Nat.eqb_eq in E3. subst. rewrite E1. reflexivity.
Qed.

Lemma act_get_set l r a r' : act_get (act_set l r a) r' = if Nat.eqb r' r then a else act_get l r'.
Proof.
  unfold act_set. destruct a; cbn [act_get]; rewrite ?act_get_del; rewrite ?(Nat.eqb_sym r r');
  destruct (Nat.eqb r' r); reflexivity.
Qed.

Lemma act_get_in l r : act_get l r <> AIdle -> In r (map fst l).
Proof.
  induction l as [|[r0 a] l IH]; cbn [act_get map fst]; [congruence|].
  destruct (Nat.eqb r0 r) eqn:E; [apply Nat.eqb_eq in E; left; exact E|right; auto].
Qed.

(* ================= the ring store ================= *)
Definition rsinv (rs : rstore) (lb lf : list nat) : Prop :=
  ring (r_links rs) (r_busy rs) lb /\ ring (r_links rs) (r_free rs) lf /\
  (forall x, In x lb -> ~ In x lf) /\ (forall x, In x lb \/ In x lf -> x < r_nelem rs).

Lemma in_remove_iff (e x : nat) l : In x (remove Nat.eq_dec e l) <-> In x l /\ x <> e.
Proof. split; [apply in_remove|intros [H1 H2]; apply in_in_remove; assumption]. Qed.

Lemma remove_length_nodup (e : nat) l : NoDup l -> In e l -> length l = S (length (remove Nat.eq_dec e l)).
Proof.
  intros ND I. apply in_split in I. destruct I as (l1 & l2 & ->).
  assert (~ In e l1 /\ ~ In e l2) as [N1 N2].
  { apply NoDup_remove_2 in ND. split; intros H; apply ND; apply in_or_app; tauto. }
  rewrite remove_mid by assumption. rewrite !app_length. cbn [length]. lia.
Qed.

Lemma rs_touch_spec rs lb lf e : rsinv rs lb lf -> In e lb ->
  rsinv (rs_touch rs e) (e :: remove Nat.eq_dec e lb) lf /\ r_nelem (rs_touch rs e) = r_nelem rs.
Proof.
  intros (R1 & R2 & D & B) I. unfold rs_touch.
  destruct (r_busy rs) as [hd|] eqn:Eb; [|apply ring_none in R1; subst lb; destruct I].
  destruct (tearoff_spec _ _ _ _ R1 I) as (h1 & p1 & E1 & T1 & T2 & T3). rewrite E1.
  assert (NIr : ~ In e (remove Nat.eq_dec e lb)) by apply remove_In.
  destruct (append_spec _ _ _ _ T2 T1 NIr) as (h2 & E2 & A1 & A2). rewrite E2.
  cbn [r_links r_busy r_free r_nelem]. split; [|reflexivity].
  split; [exact A1|]. split.
  - apply (ring_frame (r_links rs)); [|exact R2]. intros x Hx.
    assert (NB : ~ In x lb) by (intros Hb; exact (D x Hb Hx)).
    rewrite A2; [apply T3; exact NB| |].
    + intros ->. apply NB. exact I.
    + intros Hr. apply in_remove_iff in Hr. apply NB. tauto.
  - split.
    + intros x [<-|Hx]; [apply D; exact I|apply in_remove_iff in Hx; apply D; tauto].
    + intros x [[<-|Hx]|Hx]; apply B; [left; exact I|apply in_remove_iff in Hx; tauto|right; exact Hx].
Qed.

Lemma rs_remove_spec rs lb lf e : rsinv rs lb lf -> In e lb ->
  rsinv (rs_remove rs e) (remove Nat.eq_dec e lb) lf /\ self_linked (r_links (rs_remove rs e)) e /\
  r_nelem (rs_remove rs e) = r_nelem rs /\ r_freesz (rs_remove rs e) = r_freesz rs.
Proof.
  intros (R1 & R2 & D & B) I. unfold rs_remove.
  destruct (r_busy rs) as [hd|] eqn:Eb; [|apply ring_none in R1; subst lb; destruct I].
  destruct (tearoff_spec _ _ _ _ R1 I) as (h1 & p1 & E1 & T1 & T2 & T3). rewrite E1.
  cbn [r_links r_busy r_free r_nelem r_freesz]. split; [|split; [exact T2|split; reflexivity]].
  split; [exact T1|]. split.
  - apply (ring_frame (r_links rs)); [|exact R2]. intros x Hx. apply T3. intros Hb. exact (D x Hb Hx).
  - split.
    + intros x Hx. apply in_remove_iff in Hx. apply D. tauto.
    + intros x [Hx|Hx]; apply B; [apply in_remove_iff in Hx; tauto|right; exact Hx].
Qed.

Lemma rs_push_free_spec rs lb lf e : rsinv rs lb lf -> self_linked (r_links rs) e -> ~ In e lb -> ~ In e lf -> e < r_nelem rs ->
  exists lf', rsinv (rs_push_free rs e) lb lf' /\ r_nelem (rs_push_free rs e) = r_nelem rs.
Proof.
  intros (R1 & R2 & D & B) S N1 N2 Lt. unfold rs_push_free. destruct (Z.ltb (r_freesz rs) 1000).
  2:{ exists lf. split; [|reflexivity]. repeat split; assumption. }
  destruct (append_spec _ _ _ _ S R2 N2) as (h2 & E2 & A1 & A2). rewrite E2.
  exists (e :: lf). cbn [r_links r_busy r_free r_nelem]. split; [|reflexivity].
  split.
  - apply (ring_frame (r_links rs)); [|exact R1]. intros x Hx. apply A2; [intros ->; exact (N1 Hx)|exact (D x Hx)].
  - split; [exact A1|]. split.
    + intros x Hx [<-|Hf]; [exact (N1 Hx)|exact (D x Hx Hf)].
    + intros x [Hx|[<-|Hx]]; [apply B; left; exact Hx|exact Lt|apply B; right; exact Hx].
Qed.

Lemma rs_take_spec rs lb lf : rsinv rs lb lf ->
  exists lf', let '(e, rs1) := rs_take rs in
    rsinv rs1 lb lf' /\ self_linked (r_links rs1) e /\ ~ In e lb /\ ~ In e lf' /\ e < r_nelem rs1 /\
    r_nelem rs <= r_nelem rs1.
Proof.
  intros (R1 & R2 & D & B). unfold rs_take. destruct (r_free rs) as [f|] eqn:Ef.
  - pose proof (ring_head_in _ _ _ R2) as If.
    destruct (tearoff_spec _ _ _ _ R2 If) as (h1 & p1 & E1 & T1 & T2 & T3). rewrite E1.
    exists (remove Nat.eq_dec f lf). cbn [r_links r_busy r_free r_nelem].
    assert (Nb : ~ In f lb) by (intros Hb; exact (D f Hb If)).
    split; [|split; [exact T2|split; [exact Nb|split; [apply remove_In|split; [apply B; right; exact If|lia]]]]].
    split.
    + apply (ring_frame (r_links rs)); [|exact R1]. intros x Hx. apply T3. intros Hf. exact (D x Hx Hf).
    + split; [exact T1|]. split.
      * intros x Hx Hr. apply in_remove_iff in Hr. apply (D x Hx). tauto.
      * intros x [Hx|Hx]; apply B; [left; exact Hx|apply in_remove_iff in Hx; tauto].
  - apply ring_none in R2. subst lf. exists []. cbn [r_links r_busy r_free r_nelem].
    assert (Nb : ~ In (r_nelem rs) lb) by (intros Hb; specialize (B _ (or_introl Hb)); lia).
    split; [|split; [apply cl_new_self|split; [exact Nb|split; [intros []|split; lia]]]].
    split.
    + apply (ring_frame (r_links rs)); [|exact R1]. intros x Hx. apply cl_new_other. intros ->. exact (Nb Hx).
    + split; [exact I|]. split; [intros x _ []|]. intros x [Hx|[]]. specialize (B _ (or_introl Hx)). cbn [r_nelem]. lia.
Qed.

Lemma rs_push_busy_spec rs lb lf e : rsinv rs lb lf -> self_linked (r_links rs) e -> ~ In e lb -> ~ In e lf -> e < r_nelem rs ->
  rsinv (rs_push_busy rs e) (e :: lb) lf /\ r_nelem (rs_push_busy rs e) = r_nelem rs.
Proof.
  intros (R1 & R2 & D & B) S N1 N2 Lt. unfold rs_push_busy.
  destruct (append_spec _ _ _ _ S R1 N1) as (h2 & E2 & A1 & A2). rewrite E2.
  cbn [r_links r_busy r_free r_nelem]. split; [|reflexivity].
  split; [exact A1|]. split.
  - apply (ring_frame (r_links rs)); [|exact R2]. intros x Hx. apply A2; [intros ->; exact (N2 Hx)|intros Hb; exact (D x Hb Hx)].
  - split.
    + intros x [<-|Hx]; [exact N2|exact (D x Hx)].
    + intros x [[<-|Hx]|Hx]; [exact Lt|apply B; left; exact Hx|apply B; right; exact Hx].
Qed.

Lemma rs_prev_in rs lb lf e : rsinv rs lb lf -> In e lb ->
  In (cl_prev_of (r_links rs) e) lb /\ (cl_prev_of (r_links rs) e = e -> lb = [e]).
Proof.
  intros (R1 & _) I. destruct (r_busy rs) as [hd|]; [|apply ring_none in R1; subst lb; destruct I].
  exact (ring_prev_in _ _ _ _ R1 I).
Qed.

Lemma rs_head_in rs lb lf hd : rsinv rs lb lf -> r_busy rs = Some hd -> In hd lb.
Proof. intros (R1 & _) E. rewrite E in R1. exact (ring_head_in _ _ _ R1). Qed.

Lemma rs_busy_none rs lb lf : rsinv rs lb lf -> r_busy rs = None -> lb = [].
Proof. intros (R1 & _) E. rewrite E in R1. apply ring_none in R1. exact R1. Qed.

(* ================= the invariant ================= *)
Definition holds (act : list (nat * astate)) (r c : nat) : Prop :=
  act_get act r = ACreated c \/ act_get act r = AHold c.

(* the cache map and the busy ring describe the same set of holders *)
Definition IM (curs : list (N * nat)) (vals : nat -> hldr) (cur : nat -> cursor) (ncur : nat) (lb : list nat) : Prop :=
  (forall k e, map_get curs k = Some e -> In e lb /\ exists c, h_cur (vals e) = Some c /\ c_id (cur c) = k) /\
  (forall e, In e lb -> exists c, h_cur (vals e) = Some c /\ c < ncur /\ c_live (cur c) = true /\
                                   map_get curs (c_id (cur c)) = Some e) /\
  length curs <= length lb.

(* requests: who uses which cursor, and how that shows in the cache. Nothing is said about ids: any number
   of requests in flight may carry the same id (the cache entry of an id belongs to one cursor, IM) *)
Definition IA (act : list (nat * astate)) (vals : nat -> hldr) (cur : nat -> cursor)
              (ncur : nat) (lb : list nat) : Prop :=
  (forall r c, holds act r c -> c < ncur /\ c_live (cur c) = true) /\
  (forall r r' c, holds act r c -> holds act r' c -> r = r') /\
  (forall r c, act_get act r = AHold c ->
     (exists e, In e lb /\ h_cur (vals e) = Some c /\ h_busy (vals e) = true) \/
     (forall e, In e lb -> h_cur (vals e) <> Some c)) /\
  (forall r c, act_get act r = ACreated c -> forall e, In e lb -> h_cur (vals e) <> Some c) /\
  (forall e c, In e lb -> h_busy (vals e) = true -> h_cur (vals e) = Some c -> exists r, act_get act r = AHold c).

(* cursors: open exactly as long as a request or the cache refers to them; closed exactly once afterwards *)
Definition IC (cur : nat -> cursor) (ncur : nat) (act : list (nat * astate)) (vals : nat -> hldr) (lb : list nat) : Prop :=
  (forall c, c < ncur -> c_live (cur c) = true ->
     (exists r, holds act r c) \/ (exists e, In e lb /\ h_cur (vals e) = Some c)) /\
  (forall c, c < ncur -> c_closes (cur c) = (if c_live (cur c) then 0 else 1) /\
                         c_rels (cur c) = (if c_live (cur c) then 0 else 1)).

Fixpoint live_sum (cur : nat -> cursor) (n : nat) (p : N) : Z :=
  match n with
  | O => 0
  | S n' => live_sum cur n' p + (if c_live (cur n') then cnt_in p (c_parts (cur n')) else 0)
  end.
(* the factory's books: what is acquired is what the open cursors hold *)
Definition IQ (acq : N -> Z) (cur : nat -> cursor) (ncur : nat) : Prop := forall p, acq p = live_sum cur ncur p.
Ltac sproj :=
  cbn [set_actor set_act touch clear_cur set_val set_rs set_vals set_cursor set_cur set_curs set_acq set_now set_max
       p_rs p_vals p_curs p_max p_idle p_busyto p_now p_cur p_ncur p_acq p_act].


(* Everything below is proved twice at once: `mono = false` for arbitrary clock steps, `mono = true` for a
   clock that does not go backwards; only the bound on the expiry times (IT) needs the latter *)
Section Clock.
Variable mono : bool.

Definition IT (vals : nat -> hldr) (now idle busyto : Z) (lb : list nat) : Prop :=
  mono = true -> forall e, In e lb -> (h_exp (vals e) <= now + Z.max idle busyto)%Z.

Definition InvL (s : prov) (lb lf : list nat) : Prop :=
  rsinv (p_rs s) lb lf /\
  IM (p_curs s) (p_vals s) (p_cur s) (p_ncur s) lb /\
  IA (p_act s) (p_vals s) (p_cur s) (p_ncur s) lb /\
  IC (p_cur s) (p_ncur s) (p_act s) (p_vals s) lb /\
  IQ (p_acq s) (p_cur s) (p_ncur s) /\
  IT (p_vals s) (p_now s) (p_idle s) (p_busyto s) lb.
Definition Inv (s : prov) : Prop := exists lb lf, InvL s lb lf.

Lemma inv_init max idle busyto : Inv (init max idle busyto).
Proof.
  exists [], []. unfold InvL, init; cbn. repeat split; try (intros; cbn in *; try contradiction; try discriminate; try lia; fail).
  - destruct H as [H|H]; discriminate.
  - destruct H as [H|H]; discriminate.
  - intros r r' c [H|H]; discriminate.
  - intros _ e [].
Qed.

(* ================= changes the invariant does not look at ================= *)
Definition cur_sim (cur cur' : nat -> cursor) : Prop :=
  forall c, c_id (cur' c) = c_id (cur c) /\ c_live (cur' c) = c_live (cur c) /\ c_parts (cur' c) = c_parts (cur c) /\
            c_closes (cur' c) = c_closes (cur c) /\ c_rels (cur' c) = c_rels (cur c).
Definition vals_cur_eq (v v' : nat -> hldr) : Prop := forall x, h_cur (v' x) = h_cur (v x).
Definition vals_cb_eq (v v' : nat -> hldr) : Prop := forall x, h_cur (v' x) = h_cur (v x) /\ h_busy (v' x) = h_busy (v x).
Definition mem_eq (l l' : list nat) : Prop := forall x, In x l' <-> In x l.

Lemma cur_sim_refl cur : cur_sim cur cur.
Proof. intros c. repeat split. Qed.
Lemma mem_eq_refl l : mem_eq l l.
Proof. intros x. tauto. Qed.
Lemma cur_sim_pos cur c sp ip : cur_sim cur (fupd cur c (with_pos (cur c) sp ip)).
Proof. intros x. unfold fupd. destruct (Nat.eqb x c) eqn:E; [apply Nat.eqb_eq in E; subst; cbn|]; repeat split. Qed.

Lemma IM_ext curs vals vals' cur cur' ncur lb lb' :
  vals_cur_eq vals vals' -> cur_sim cur cur' -> mem_eq lb lb' -> length lb' = length lb ->
  IM curs vals cur ncur lb -> IM curs vals' cur' ncur lb'.
Proof.
  intros V S M L (M1 & M2 & M3). split; [|split].
  - intros k e H. destruct (M1 k e H) as (I & c & Hc & Hi). split; [apply M; exact I|].
    exists c. rewrite V, (proj1 (S c)). auto.
  - intros e I. apply M in I. destruct (M2 e I) as (c & Hc & Hn & Hl & Hm). exists c.
    rewrite V. destruct (S c) as (S1 & S2 & _). rewrite S1, S2. auto.
  - lia.
Qed.

Lemma IC_ext cur cur' ncur act vals vals' lb lb' :
  vals_cur_eq vals vals' -> cur_sim cur cur' -> mem_eq lb lb' ->
  IC cur ncur act vals lb -> IC cur' ncur act vals' lb'.
Proof.
  intros V S M (C1 & C2). split.
  - intros c Hc Hl. destruct (S c) as (_ & S2 & _). rewrite S2 in Hl. destruct (C1 c Hc Hl) as [H|(e & I & He)]; [left; exact H|].
    right. exists e. split; [apply M; exact I|rewrite V; exact He].
  - intros c Hc. destruct (S c) as (_ & S2 & _ & S4 & S5). rewrite S2, S4, S5. apply C2. exact Hc.
Qed.

Lemma live_sum_ext cur cur' n p : cur_sim cur cur' -> live_sum cur' n p = live_sum cur n p.
Proof.
  intros S. induction n as [|n IH]; cbn [live_sum]; [reflexivity|].
  destruct (S n) as (_ & S2 & S3 & _). rewrite IH, S2, S3. reflexivity.
Qed.
Lemma IQ_ext acq cur cur' ncur : cur_sim cur cur' -> IQ acq cur ncur -> IQ acq cur' ncur.
Proof. intros S Q p. rewrite (live_sum_ext cur cur' ncur p S). apply Q. Qed.

Lemma IA_ext act vals vals' cur cur' ncur lb lb' :
  vals_cb_eq vals vals' -> cur_sim cur cur' -> mem_eq lb lb' ->
  IA act vals cur ncur lb -> IA act vals' cur' ncur lb'.
Proof.
  intros V S M (A1 & A2 & A3 & A4 & A7).
  refine (conj _ (conj _ (conj _ (conj _ _)))).
  - intros r c H. destruct (S c) as (_ & S2 & _). rewrite S2. apply (A1 r c H).
  - exact A2.
  - intros r c H. destruct (A3 r c H) as [(e & I & Hc & Hb)|Hn].
    + left. exists e. destruct (V e) as [V1 V2]. rewrite V1, V2. split; [apply M; exact I|auto].
    + right. intros e I; rewrite (proj1 (V e)); apply Hn; apply M; exact I.
  - intros r c H. pose proof (A4 r c H) as Hn.
    intros e I; rewrite (proj1 (V e)); apply Hn; apply M; exact I.
  - intros e c I Hb Hc. destruct (V e) as [V1 V2]. rewrite V1 in Hc. rewrite V2 in Hb. apply M in I. apply (A7 e c I Hb Hc).
Qed.

Lemma IT_ext vals now idle busyto lb lb' : mem_eq lb lb' -> IT vals now idle busyto lb -> IT vals now idle busyto lb'.
Proof. intros M T Hm e I. apply (T Hm). apply M. exact I. Qed.

Lemma mem_eq_touch (e : nat) lb : In e lb -> mem_eq lb (e :: remove Nat.eq_dec e lb).
Proof.
  intros I x. split.
  - intros [<-|H]; [exact I|apply in_remove_iff in H; tauto].
  - intros H. destruct (Nat.eq_dec x e) as [->|N]; [left; reflexivity|right; apply in_remove_iff; tauto].
Qed.

Lemma holds_set act r a r0 c : holds (act_set act r a) r0 c <->
  if Nat.eqb r0 r then (a = ACreated c \/ a = AHold c) else holds act r0 c.
Proof. unfold holds. rewrite act_get_set. destruct (Nat.eqb r0 r); tauto. Qed.

(* ================= requests that hold no cursor ================= *)
Definition nonhold (a : astate) : Prop := match a with ACreated _ | AHold _ => False | _ => True end.

Lemma holds_nonhold act r r0 c : nonhold (act_get act r) -> holds act r0 c -> r0 <> r.
Proof. intros N [H|H] ->; rewrite H in N; exact N. Qed.

Lemma IC_holds_mono cur ncur act act' vals lb :
  (forall r c, holds act r c -> holds act' r c) -> IC cur ncur act vals lb -> IC cur ncur act' vals lb.
Proof.
  intros M (C1 & C2). split; [|exact C2].
  intros c Hc Hl. destruct (C1 c Hc Hl) as [[r H]|H]; [left; exists r; apply M; exact H|right; exact H].
Qed.

(* an actor moves between states in which it holds no cursor *)
Lemma IC_nonhold cur ncur act vals lb r a :
  nonhold (act_get act r) -> IC cur ncur act vals lb -> IC cur ncur (act_set act r a) vals lb.
Proof.
  intros N. apply IC_holds_mono. intros r0 c H. apply holds_set.
  pose proof (holds_nonhold _ _ _ _ N H) as Ne. apply Nat.eqb_neq in Ne. rewrite Ne. exact H.
Qed.

Lemma IA_nonhold act vals cur ncur lb r a :
  nonhold (act_get act r) -> nonhold a ->
  IA act vals cur ncur lb -> IA (act_set act r a) vals cur ncur lb.
Proof.
  intros N Na (A1 & A2 & A3 & A4 & A7).
  assert (Hh : forall r0 c, holds (act_set act r a) r0 c -> holds act r0 c /\ r0 <> r).
  { intros r0 c H. apply holds_set in H. destruct (Nat.eqb r0 r) eqn:E.
    - destruct H as [-> | ->]; destruct Na.
    - apply Nat.eqb_neq in E. auto. }
  assert (Ha : forall r0, r0 <> r -> act_get (act_set act r a) r0 = act_get act r0).
  { intros r0 Ne. rewrite act_get_set. apply Nat.eqb_neq in Ne. rewrite Ne. reflexivity. }
  assert (Hr : act_get (act_set act r a) r = a) by (rewrite act_get_set, Nat.eqb_refl; reflexivity).
  refine (conj _ (conj _ (conj _ (conj _ _)))).
  - intros r0 c H. apply Hh in H. apply (A1 r0 c (proj1 H)).
  - intros r0 r1 c H0 H1. apply Hh in H0. apply Hh in H1. apply (A2 r0 r1 c (proj1 H0) (proj1 H1)).
  - intros r0 c H. destruct (Nat.eq_dec r0 r) as [->|Ne]; [rewrite Hr in H; subst a; destruct Na|].
    rewrite Ha in H by exact Ne. apply (A3 r0 c H).
  - intros r0 c H. destruct (Nat.eq_dec r0 r) as [->|Ne]; [rewrite Hr in H; subst a; destruct Na|].
    rewrite Ha in H by exact Ne. apply (A4 r0 c H).
  - intros e c I Hb Hc. destruct (A7 e c I Hb Hc) as [r0 H]. exists r0. rewrite Ha; [exact H|].
    intros ->. rewrite H in N. exact N.
Qed.

Lemma InvL_nonhold s lb lf r a :
  nonhold (act_get (p_act s) r) -> nonhold a ->
  InvL s lb lf -> InvL (set_actor s r a) lb lf.
Proof.
  intros N Na (R & M & A & C & Q & T). unfold InvL, set_actor, set_act; cbn.
  split; [exact R|]. split; [exact M|]. split; [apply IA_nonhold; assumption|].
  split; [apply IC_nonhold; assumption|]. split; assumption.
Qed.

(* ================= a request takes a cached idle cursor (hit) / gives it back (cached release) ================= *)
Lemma fupd_same {A} (f : nat -> A) k v : fupd f k v k = v.
Proof. unfold fupd. rewrite Nat.eqb_refl. reflexivity. Qed.
Lemma fupd_other {A} (f : nat -> A) k v x : x <> k -> fupd f k v x = f x.
Proof. intros H. unfold fupd. apply Nat.eqb_neq in H. rewrite H. reflexivity. Qed.

Lemma vals_cur_eq_fupd vals e v : h_cur v = h_cur (vals e) -> vals_cur_eq vals (fupd vals e v).
Proof. intros H x. destruct (Nat.eq_dec x e) as [->|N]; [rewrite fupd_same; exact H|rewrite fupd_other by exact N; reflexivity]. Qed.

(* two ring elements never carry the same cursor *)
Lemma IM_inj curs vals cur ncur lb e e' c :
  IM curs vals cur ncur lb -> In e lb -> In e' lb -> h_cur (vals e) = Some c -> h_cur (vals e') = Some c -> e = e'.
Proof.
  intros (_ & M2 & _) I I' H H'.
  destruct (M2 e I) as (c1 & H1 & _ & _ & G1). destruct (M2 e' I') as (c2 & H2 & _ & _ & G2).
  rewrite H in H1. rewrite H' in H2. injection H1 as <-. injection H2 as <-. rewrite G1 in G2. injection G2 as ->. reflexivity.
Qed.

Lemma IA_grab act curs vals cur ncur lb r e c v :
  IA act vals cur ncur lb -> IM curs vals cur ncur lb ->
  nonhold (act_get act r) -> In e lb -> h_cur (vals e) = Some c -> h_busy (vals e) = false ->
  h_cur v = Some c -> h_busy v = true ->
  IA (act_set act r (AHold c)) (fupd vals e v) cur ncur lb.
Proof.
  intros (A1 & A2 & A3 & A4 & A7) M N I Hc Hb Vc Vb.
  assert (V : vals_cur_eq vals (fupd vals e v)) by (apply vals_cur_eq_fupd; congruence).
  assert (NoH : forall r0, ~ holds act r0 c).
  { intros r0 [H|H].
    - apply (A4 r0 c H e I Hc).
    - destruct (A3 r0 c H) as [(e0 & I0 & Hc0 & Hb0)|Hn]; [|apply (Hn e I Hc)].
      rewrite (IM_inj _ _ _ _ _ _ _ _ M I0 I Hc0 Hc) in Hb0. congruence. }
  assert (Ha : forall r0, r0 <> r -> act_get (act_set act r (AHold c)) r0 = act_get act r0).
  { intros r0 Ne. rewrite act_get_set. apply Nat.eqb_neq in Ne. rewrite Ne. reflexivity. }
  assert (Hr : act_get (act_set act r (AHold c)) r = AHold c) by (rewrite act_get_set, Nat.eqb_refl; reflexivity).
  assert (Hh : forall r0 c0, holds (act_set act r (AHold c)) r0 c0 -> (r0 = r /\ c0 = c) \/ (r0 <> r /\ holds act r0 c0)).
  { intros r0 c0 H. apply holds_set in H. destruct (Nat.eqb r0 r) eqn:E.
    - apply Nat.eqb_eq in E. left. destruct H as [H|H]; [discriminate|injection H as ->; auto].
    - apply Nat.eqb_neq in E. auto. }
  destruct M as (M1 & M2 & M3).
  refine (conj _ (conj _ (conj _ (conj _ _)))).
  - intros r0 c0 H. destruct (Hh _ _ H) as [[-> ->]|[_ H']]; [|apply (A1 r0 c0 H')].
    destruct (M2 e I) as (c1 & H1 & Hn & Hl & _). rewrite Hc in H1. injection H1 as <-. auto.
  - intros r0 r1 c0 H0 H1. destruct (Hh _ _ H0) as [[-> ->]|[N0 H0']]; destruct (Hh _ _ H1) as [[-> E1]|[N1 H1']].
    + reflexivity.
    + exfalso. apply (NoH r1 H1').
    + subst c0. exfalso. apply (NoH r0 H0').
    + apply (A2 r0 r1 c0 H0' H1').
  - intros r0 c0 H. destruct (Nat.eq_dec r0 r) as [->|Ne].
    + rewrite Hr in H. injection H as <-. left. exists e. rewrite V, fupd_same. auto.
    + rewrite Ha in H by exact Ne. destruct (A3 r0 c0 H) as [(e0 & I0 & Hc0 & Hb0)|Hn].
      * left. exists e0. assert (e0 <> e) by (intros ->; congruence). rewrite fupd_other by assumption. auto.
      * right. intros e0 I0; rewrite V; apply Hn; exact I0.
  - intros r0 c0 H. destruct (Nat.eq_dec r0 r) as [->|Ne]; [rewrite Hr in H; discriminate|].
    rewrite Ha in H by exact Ne. pose proof (A4 r0 c0 H) as Hn. intros e0 I0; rewrite V; apply Hn; exact I0.
  - intros e0 c0 I0 Hb0 Hc0. rewrite V in Hc0. destruct (Nat.eq_dec e0 e) as [->|Ne].
    + exists r. rewrite Hr. congruence.
    + rewrite fupd_other in Hb0 by exact Ne. destruct (A7 e0 c0 I0 Hb0 Hc0) as [r0 H]. exists r0. rewrite Ha; [exact H|].
      intros ->. rewrite H in N. exact N.
Qed.

Lemma IA_ungrab act curs vals cur ncur lb r e c v :
  IA act vals cur ncur lb -> IM curs vals cur ncur lb ->
  act_get act r = AHold c -> In e lb -> h_cur (vals e) = Some c ->
  h_cur v = Some c -> h_busy v = false ->
  IA (act_set act r AIdle) (fupd vals e v) cur ncur lb.
Proof.
  intros (A1 & A2 & A3 & A4 & A7) M Hr0 I Hc Vc Vb.
  assert (V : vals_cur_eq vals (fupd vals e v)) by (apply vals_cur_eq_fupd; congruence).
  assert (Ha : forall r0, r0 <> r -> act_get (act_set act r AIdle) r0 = act_get act r0).
  { intros r0 Ne. rewrite act_get_set. apply Nat.eqb_neq in Ne. rewrite Ne. reflexivity. }
  assert (Hr : act_get (act_set act r AIdle) r = AIdle) by (rewrite act_get_set, Nat.eqb_refl; reflexivity).
  assert (Hh : forall r0 c0, holds (act_set act r AIdle) r0 c0 -> r0 <> r /\ holds act r0 c0).
  { intros r0 c0 H. apply holds_set in H. destruct (Nat.eqb r0 r) eqn:E.
    - destruct H as [H|H]; discriminate.
    - apply Nat.eqb_neq in E. auto. }
  assert (Only : forall r0, r0 <> r -> ~ holds act r0 c).
  { intros r0 Ne H. apply Ne. apply (A2 r0 r c H). right. exact Hr0. }
  refine (conj _ (conj _ (conj _ (conj _ _)))).
  - intros r0 c0 H. apply Hh in H. apply (A1 r0 c0 (proj2 H)).
  - intros r0 r1 c0 H0 H1. apply Hh in H0. apply Hh in H1. apply (A2 r0 r1 c0 (proj2 H0) (proj2 H1)).
  - intros r0 c0 H. destruct (Nat.eq_dec r0 r) as [->|Ne]; [rewrite Hr in H; discriminate|].
    rewrite Ha in H by exact Ne. destruct (A3 r0 c0 H) as [(e0 & I0 & Hc0 & Hb0)|Hn].
    + left. exists e0. assert (e0 <> e).
      { intros ->. rewrite Hc in Hc0. injection Hc0 as <-. apply (Only r0 Ne). right. exact H. }
      rewrite fupd_other by assumption. auto.
    + right. intros e0 I0; rewrite V; apply Hn; exact I0.
  - intros r0 c0 H. destruct (Nat.eq_dec r0 r) as [->|Ne]; [rewrite Hr in H; discriminate|].
    rewrite Ha in H by exact Ne. pose proof (A4 r0 c0 H) as Hn. intros e0 I0; rewrite V; apply Hn; exact I0.
  - intros e0 c0 I0 Hb0 Hc0. rewrite V in Hc0. destruct (Nat.eq_dec e0 e) as [->|Ne]; [rewrite fupd_same in Hb0; congruence|].
    rewrite fupd_other in Hb0 by exact Ne. destruct (A7 e0 c0 I0 Hb0 Hc0) as [r0 H]. exists r0. rewrite Ha; [exact H|].
    intros ->. rewrite H in Hr0. injection Hr0 as ->. apply Ne. apply (IM_inj _ _ _ _ _ _ _ _ M I0 I Hc0 Hc).
Qed.

Lemma IC_ungrab cur ncur act vals lb r e c :
  IC cur ncur act vals lb -> In e lb -> h_cur (vals e) = Some c ->
  (forall c0, holds act r c0 -> c0 = c) ->
  IC cur ncur (act_set act r AIdle) vals lb.
Proof.
  intros (C1 & C2) I Hc U. split; [|exact C2].
  intros c0 Hn Hl. destruct (C1 c0 Hn Hl) as [[r0 H]|H]; [|right; exact H].
  destruct (Nat.eq_dec r0 r) as [->|Ne].
  - right. rewrite (U c0 H). exists e. auto.
  - left. exists r0. apply holds_set. apply Nat.eqb_neq in Ne. rewrite Ne. exact H.
Qed.

Lemma IT_fupd vals now idle busyto lb e v :
  IT vals now idle busyto lb -> (h_exp v <= now + Z.max idle busyto)%Z -> IT (fupd vals e v) now idle busyto lb.
Proof.
  intros T H Hm e0 I. destruct (Nat.eq_dec e0 e) as [->|Ne]; [rewrite fupd_same; exact H|rewrite fupd_other by exact Ne; apply (T Hm); exact I].
Qed.

(* ================= GetOrCreate: the lookup step ================= *)
Lemma cur_sim_fupd cur c cu :
  c_id cu = c_id (cur c) -> c_live cu = c_live (cur c) -> c_parts cu = c_parts (cur c) ->
  c_closes cu = c_closes (cur c) -> c_rels cu = c_rels (cur c) -> cur_sim cur (fupd cur c cu).
Proof.
  intros H1 H2 H3 H4 H5 x. destruct (Nat.eq_dec x c) as [->|N]; [rewrite fupd_same; auto|rewrite fupd_other by exact N; repeat split].
Qed.

Lemma apply_state_sim cu0 id q p cu : apply_state cu0 id q p = Some cu ->
  c_id cu = c_id cu0 /\ c_live cu = c_live cu0 /\ c_parts cu = c_parts cu0 /\ c_closes cu = c_closes cu0 /\ c_rels cu = c_rels cu0.
Proof.
  unfold apply_state. destruct (negb (N.eqb (c_query cu0) q) || negb (N.eqb (c_id cu0) id)); [discriminate|].
  destruct (pos_eqb (c_spos cu0) p); [intros H; injection H as <-; repeat split|].
  destruct p; try discriminate. intros H; injection H as <-. cbn. repeat split.
Qed.

Definition ok_inv (o : outcome (prov * res)) : Prop := exists s' r, o = Ok (s', r) /\ Inv s'.

Lemma ok_same s r : Inv s -> ok_inv (Ok (s, r)).
Proof. intros I. exists s, r. auto. Qed.

(* ================= GetOrCreate: newCursor ================= *)
Lemma live_sum_agree cur cur' n p : (forall x, x < n -> cur' x = cur x) -> live_sum cur' n p = live_sum cur n p.
Proof.
  induction n as [|n IH]; intros H; cbn [live_sum]; [reflexivity|].
  rewrite IH by (intros x Hx; apply H; lia). rewrite (H n) by lia. reflexivity.
Qed.

Lemma IM_newcur curs vals cur ncur lb cu :
  IM curs vals cur ncur lb -> IM curs vals (fupd cur ncur cu) (S ncur) lb.
Proof.
  intros (M1 & M2 & M3). split; [|split; [|exact M3]].
  - intros k e H. destruct (M1 k e H) as (I & c & Hc & Hi). split; [exact I|]. exists c. split; [exact Hc|].
    destruct (M2 e I) as (c' & Hc' & Hn & _). rewrite Hc in Hc'. injection Hc' as <-.
    rewrite fupd_other by lia. exact Hi.
  - intros e I. destruct (M2 e I) as (c & Hc & Hn & Hl & Hm). exists c. rewrite fupd_other by lia. auto.
Qed.

Lemma IA_newcur act curs vals cur ncur lb r id q qr p ca cu a :
  IA act vals cur ncur lb -> IM curs vals cur ncur lb ->
  act_get act r = AMiss id q qr p ca -> c_live cu = true ->
  (a = ACreated ncur \/ a = AHold ncur) ->
  IA (act_set act r a) vals (fupd cur ncur cu) (S ncur) lb.
Proof.
  intros (A1 & A2 & A3 & A4 & A7) (M1 & M2 & M3) Hr0 Hlive Hda.
  set (cur' := fupd cur ncur cu).
  assert (Ha : forall r0, r0 <> r -> act_get (act_set act r a) r0 = act_get act r0).
  { intros r0 Ne. rewrite act_get_set. apply Nat.eqb_neq in Ne. rewrite Ne. reflexivity. }
  assert (Hr : act_get (act_set act r a) r = a) by (rewrite act_get_set, Nat.eqb_refl; reflexivity).
  assert (Hh : forall r0 c0, holds (act_set act r a) r0 c0 -> (r0 = r /\ c0 = ncur) \/ (r0 <> r /\ holds act r0 c0)).
  { intros r0 c0 H. apply holds_set in H. destruct (Nat.eqb r0 r) eqn:E.
    - apply Nat.eqb_eq in E. left. split; [exact E|]. destruct Hda as [-> | ->]; destruct H as [H|H]; try discriminate; injection H as <-; reflexivity.
    - apply Nat.eqb_neq in E. auto. }
  assert (Old : forall r0 c0, holds act r0 c0 -> c0 < ncur) by (intros r0 c0 H; apply (A1 r0 c0 H)).
  assert (RingOld : forall e, In e lb -> h_cur (vals e) <> Some ncur).
  { intros e I H. destruct (M2 e I) as (c & Hc & Hn & _). rewrite H in Hc. injection Hc as <-. lia. }
  refine (conj _ (conj _ (conj _ (conj _ _)))).
  - intros r0 c0 H. destruct (Hh _ _ H) as [[-> ->]|[_ H']].
    + split; [lia|]. unfold cur'. rewrite fupd_same. exact Hlive.
    + pose proof (A1 r0 c0 H') as [Hn Hl]. split; [lia|]. unfold cur'. rewrite fupd_other by lia. exact Hl.
  - intros r0 r1 c0 H0 H1. destruct (Hh _ _ H0) as [[-> ->]|[N0 H0']]; destruct (Hh _ _ H1) as [[-> E1]|[N1 H1']].
    + reflexivity.
    + apply Old in H1'. lia.
    + subst c0. apply Old in H0'. lia.
    + apply (A2 r0 r1 c0 H0' H1').
  - intros r0 c0 H. destruct (Nat.eq_dec r0 r) as [->|Ne].
    + rewrite Hr in H. destruct Hda as [-> | ->]; [discriminate|]. injection H as <-. right. exact RingOld.
    + rewrite Ha in H by exact Ne. apply (A3 r0 c0 H).
  - intros r0 c0 H. destruct (Nat.eq_dec r0 r) as [->|Ne].
    + rewrite Hr in H. destruct Hda as [-> | ->]; [|discriminate]. injection H as <-. exact RingOld.
    + rewrite Ha in H by exact Ne. apply (A4 r0 c0 H).
  - intros e c I Hb Hc. destruct (A7 e c I Hb Hc) as [r0 H]. exists r0. rewrite Ha; [exact H|]. intros ->. rewrite H in Hr0. discriminate.
Qed.

Lemma IC_newcur cur ncur act vals lb r cu a :
  IC cur ncur act vals lb -> nonhold (act_get act r) -> c_live cu = true -> c_closes cu = 0 -> c_rels cu = 0 ->
  (a = ACreated ncur \/ a = AHold ncur) ->
  IC (fupd cur ncur cu) (S ncur) (act_set act r a) vals lb.
Proof.
  intros (C1 & C2) N Hl Hc Hr Hda. split.
  - intros c Hn. destruct (Nat.eq_dec c ncur) as [->|Ne].
    + intros _. left. exists r. apply holds_set. rewrite Nat.eqb_refl. exact Hda.
    + rewrite fupd_other by exact Ne. intros Hlv. destruct (C1 c ltac:(lia) Hlv) as [[r0 H]|H]; [|right; exact H].
      left. exists r0. apply holds_set. pose proof (holds_nonhold _ _ _ _ N H) as Nr. apply Nat.eqb_neq in Nr. rewrite Nr. exact H.
  - intros c Hn. destruct (Nat.eq_dec c ncur) as [->|Ne].
    + rewrite fupd_same, Hl, Hc, Hr. auto.
    + rewrite fupd_other by exact Ne. apply C2. lia.
Qed.

Lemma cnt_in_acq acq parts d p : acq_add acq parts d p = (acq p + d * cnt_in p parts)%Z.
Proof. reflexivity. Qed.

Lemma inv_create s r : Inv s -> ok_inv (get_create s r).
Proof.
  intros (lb & lf & HI). unfold get_create.
  destruct (act_get (p_act s) r) eqn:Ea; try (apply ok_same; exists lb, lf; exact HI).
  destruct qr as [| |parts].
  - eexists _, _. split; [reflexivity|]. exists lb, lf. apply InvL_nonhold; [rewrite Ea; exact I|exact I|exact HI].
  - eexists _, _. split; [reflexivity|]. exists lb, lf. apply InvL_nonhold; [rewrite Ea; exact I|exact I|exact HI].
  - assert (Bad : ok_inv (Ok (set_actor (set_acq (set_acq s (acq_add (p_acq s) parts 1))
                     (acq_add (p_acq (set_acq s (acq_add (p_acq s) parts 1))) parts (-1))) r AIdle, RNewErr))).
    { eexists _, _. split; [reflexivity|]. exists lb, lf.
      apply InvL_nonhold; [sproj; rewrite Ea; exact I|exact I|].
      destruct HI as (R & M & A & C & Q & T). unfold InvL; sproj. repeat (split; [assumption|]). split; [|exact T].
      intros x. rewrite !cnt_in_acq. rewrite <- (Q x). lia. }
    destruct HI as (R & M & A & C & Q & T).
    assert (Good : forall p0, p0 <> PBad ->
      ok_inv (Ok (set_actor (set_cur (set_acq s (acq_add (p_acq s) parts 1))
          (fupd (p_cur (set_acq s (acq_add (p_acq s) parts 1))) (p_ncur (set_acq s (acq_add (p_acq s) parts 1)))
             {| c_id := id; c_query := q; c_spos := p0; c_ipos := pos_init p0; c_parts := parts; c_live := true; c_closes := 0; c_rels := 0 |})
          (S (p_ncur (set_acq s (acq_add (p_acq s) parts 1))))) r
          (if cache then ACreated (p_ncur (set_acq s (acq_add (p_acq s) parts 1))) else AHold (p_ncur (set_acq s (acq_add (p_acq s) parts 1)))),
        RNew (p_ncur (set_acq s (acq_add (p_acq s) parts 1)))))).
    { intros p0 _. eexists _, _. split; [reflexivity|]. exists lb, lf. unfold InvL; sproj.
      assert (Hda : (if cache then ACreated (p_ncur s) else AHold (p_ncur s)) = ACreated (p_ncur s) \/
                    (if cache then ACreated (p_ncur s) else AHold (p_ncur s)) = AHold (p_ncur s)) by (destruct cache; auto).
      split; [exact R|]. split; [apply IM_newcur; exact M|]. split.
      - eapply IA_newcur; try eassumption; reflexivity.
      - split; [|split; [|exact T]].
        + apply IC_newcur; try assumption; try reflexivity. rewrite Ea. exact I.
        + intros x. cbn [live_sum]. rewrite fupd_same. cbn [c_live c_parts].
          rewrite (live_sum_agree (p_cur s)) by (intros y Hy; apply fupd_other; lia).
          rewrite cnt_in_acq, (Q x). lia. }
    destruct p; [apply Good; discriminate|apply Good; discriminate|apply Good; discriminate|exact Bad].
Qed.

(* ================= GetOrCreate: the insert step ================= *)
Lemma map_set_len_none m k v : map_get m k = None -> length (map_set m k v) = S (length m).
Proof. intros H. unfold map_set. rewrite (map_del_none m k H). reflexivity. Qed.

Lemma IM_insert curs vals cur ncur lb e c v :
  IM curs vals cur ncur lb -> ~ In e lb -> c < ncur -> c_live (cur c) = true ->
  map_get curs (c_id (cur c)) = None -> h_cur v = Some c ->
  IM (map_set curs (c_id (cur c)) e) (fupd vals e v) cur ncur (e :: lb).
Proof.
  intros (M1 & M2 & M3) Ne Hn Hl Hm Hv. split; [|split].
  - intros k e0 H. rewrite map_get_set in H. destruct (N.eqb k (c_id (cur c))) eqn:E.
    + injection H as <-. apply N.eqb_eq in E. split; [left; reflexivity|]. exists c. rewrite fupd_same. auto.
    + destruct (M1 k e0 H) as (I0 & c0 & Hc0 & Hi). split; [right; exact I0|]. exists c0.
      rewrite fupd_other by (intros ->; exact (Ne I0)). auto.
  - intros e0 [<-|I0].
    + exists c. rewrite fupd_same, map_get_set, N.eqb_refl. auto.
    + destruct (M2 e0 I0) as (c0 & Hc0 & Hn0 & Hl0 & Hm0). exists c0.
      rewrite fupd_other by (intros ->; exact (Ne I0)). rewrite map_get_set.
      destruct (N.eqb (c_id (cur c0)) (c_id (cur c))) eqn:E; [apply N.eqb_eq in E; rewrite E in Hm0; congruence|auto].
  - rewrite map_set_len_none by exact Hm. cbn [length]. lia.
Qed.

Lemma IA_insert act vals cur ncur lb r e c v :
  IA act vals cur ncur lb ->
  act_get act r = ACreated c -> ~ In e lb -> h_cur v = Some c -> h_busy v = true ->
  IA (act_set act r (AHold c)) (fupd vals e v) cur ncur (e :: lb).
Proof.
  intros (A1 & A2 & A3 & A4 & A7) Hr0 Ne Vc Vb.
  assert (Ha : forall r0, r0 <> r -> act_get (act_set act r (AHold c)) r0 = act_get act r0).
  { intros r0 N0. rewrite act_get_set. apply Nat.eqb_neq in N0. rewrite N0. reflexivity. }
  assert (Hr : act_get (act_set act r (AHold c)) r = AHold c) by (rewrite act_get_set, Nat.eqb_refl; reflexivity).
  assert (Hh : forall r0 c0, holds (act_set act r (AHold c)) r0 c0 <-> holds act r0 c0).
  { intros r0 c0. rewrite holds_set. destruct (Nat.eqb r0 r) eqn:E; [|tauto]. apply Nat.eqb_eq in E. subst r0. unfold holds. rewrite Hr0.
    split; intros [H|H]; try discriminate; injection H as <-; auto. }
  refine (conj _ (conj _ (conj _ (conj _ _)))).
  - intros r0 c0 H. apply Hh in H. apply (A1 r0 c0 H).
  - intros r0 r1 c0 H0 H1. apply Hh in H0. apply Hh in H1. apply (A2 r0 r1 c0 H0 H1).
  - intros r0 c0 H. destruct (Nat.eq_dec r0 r) as [->|N0].
    + rewrite Hr in H. injection H as <-. left. exists e. rewrite fupd_same. split; [left; reflexivity|auto].
    + rewrite Ha in H by exact N0. assert (Nc : c0 <> c).
      { intros ->. apply N0. apply (A2 r0 r c); [right; exact H|left; exact Hr0]. }
      destruct (A3 r0 c0 H) as [(e0 & I0 & Hc0 & Hb0)|Hn].
      * left. exists e0. rewrite fupd_other by (intros ->; exact (Ne I0)). split; [right; exact I0|auto].
      * right. intros e1 [<-|I1]; [rewrite fupd_same, Vc; congruence|rewrite fupd_other by (intros ->; exact (Ne I1)); apply Hn; exact I1].
  - intros r0 c0 H. destruct (Nat.eq_dec r0 r) as [->|N0]; [rewrite Hr in H; discriminate|].
    rewrite Ha in H by exact N0. assert (Nc : c0 <> c).
    { intros ->. apply N0. apply (A2 r0 r c); left; assumption. }
    pose proof (A4 r0 c0 H) as Hn.
    intros e1 [<-|I1]; [rewrite fupd_same, Vc; congruence|rewrite fupd_other by (intros ->; exact (Ne I1)); apply Hn; exact I1].
  - intros e0 c0 [<-|I0] Hb Hc.
    + rewrite fupd_same in Hc. exists r. rewrite Hr. congruence.
    + rewrite fupd_other in Hb, Hc by (intros ->; exact (Ne I0)). destruct (A7 e0 c0 I0 Hb Hc) as [r0 H]. exists r0.
      rewrite Ha; [exact H|]. intros ->. rewrite H in Hr0. discriminate.
Qed.

Lemma IC_insert cur ncur act vals lb r e c v :
  IC cur ncur act vals lb -> act_get act r = ACreated c -> ~ In e lb ->
  IC cur ncur (act_set act r (AHold c)) (fupd vals e v) (e :: lb).
Proof.
  intros (C1 & C2) Hr0 Ne. split; [|exact C2].
  intros c0 Hn Hl. destruct (C1 c0 Hn Hl) as [[r0 H]|(e0 & I0 & H0)].
  - left. exists r0. apply holds_set. destruct (Nat.eqb r0 r) eqn:E; [|exact H].
    apply Nat.eqb_eq in E. subst r0. destruct H as [H|H]; rewrite Hr0 in H; [injection H as <-; auto|discriminate].
  - right. exists e0. rewrite fupd_other by (intros ->; exact (Ne I0)). split; [right; exact I0|exact H0].
Qed.

Lemma IT_cons vals now idle busyto lb e v :
  IT vals now idle busyto lb -> ~ In e lb -> (h_exp v <= now + Z.max idle busyto)%Z -> IT (fupd vals e v) now idle busyto (e :: lb).
Proof.
  intros T Ne H Hm e0 [<-|I0]; [rewrite fupd_same; exact H|rewrite fupd_other by (intros ->; exact (Ne I0)); apply (T Hm); exact I0].
Qed.

(* ================= use, Release ================= *)
Lemma InvL_cursim s lb lf cur' : cur_sim (p_cur s) cur' -> InvL s lb lf -> InvL (set_cur s cur' (p_ncur s)) lb lf.
Proof.
  intros S (R & M & A & C & Q & T). unfold InvL; sproj.
  split; [exact R|]. split; [apply (IM_ext _ (p_vals s) _ (p_cur s) _ _ lb); try assumption; [intros x; reflexivity|apply mem_eq_refl|reflexivity]|].
  split; [apply (IA_ext _ (p_vals s) _ (p_cur s) _ _ lb); try assumption; [intros x; auto|apply mem_eq_refl]|].
  split; [apply (IC_ext (p_cur s) _ _ _ (p_vals s) _ lb); try assumption; [intros x; reflexivity|apply mem_eq_refl]|].
  split; [apply (IQ_ext _ (p_cur s)); assumption|exact T].
Qed.

Lemma inv_use s r k : Inv s -> ok_inv (use s r k).
Proof.
  intros (lb & lf & HI). unfold use.
  destruct (act_get (p_act s) r) eqn:Ea; try (apply ok_same; exists lb, lf; exact HI).
  eexists _, _. split; [reflexivity|]. exists lb, lf. unfold set_cursor. apply InvL_cursim; [apply cur_sim_pos|exact HI].
Qed.

Lemma live_sum_close cur c cu n p : c_live cu = false ->
  live_sum (fupd cur c cu) n p =
  (live_sum cur n p - (if Nat.ltb c n then (if c_live (cur c) then cnt_in p (c_parts (cur c)) else 0) else 0))%Z.
Proof.
  intros Hl. induction n as [|n IH]; cbn [live_sum].
  - cbn. lia.
  - rewrite IH. destruct (Nat.eq_dec n c) as [->|Ne].
    + rewrite fupd_same, Hl. rewrite Nat.ltb_irrefl. assert (E : Nat.ltb c (S c) = true) by (apply Nat.ltb_lt; lia). rewrite E. lia.
    + rewrite fupd_other by exact Ne. destruct (Nat.ltb c n) eqn:E1.
      * assert (E : Nat.ltb c (S n) = true) by (apply Nat.ltb_lt; apply Nat.ltb_lt in E1; lia). rewrite E. lia.
      * assert (E : Nat.ltb c (S n) = false) by (apply Nat.ltb_ge; apply Nat.ltb_ge in E1; lia). rewrite E. lia.
Qed.

(* the closed version of cursor c *)
Definition closed_of (cu : cursor) : cursor :=
  {| c_id := c_id cu; c_query := c_query cu; c_spos := c_spos cu; c_ipos := c_ipos cu; c_parts := c_parts cu;
     c_live := false; c_closes := S (c_closes cu); c_rels := if c_live cu then S (c_rels cu) else c_rels cu |}.

Lemma close_cur_eq s c : c_live (p_cur s c) = true ->
  close_cur s c = set_cur (set_acq s (acq_add (p_acq s) (c_parts (p_cur s c)) (-1))) (fupd (p_cur s) c (closed_of (p_cur s c))) (p_ncur s).
Proof. intros H. unfold close_cur, closed_of, set_cursor. rewrite H. reflexivity. Qed.

(* closing a cursor nobody refers to any more: what the rest of the invariant sees *)
Lemma IM_close curs vals cur ncur lb c :
  IM curs vals cur ncur lb -> (forall e, In e lb -> h_cur (vals e) <> Some c) ->
  IM curs vals (fupd cur c (closed_of (cur c))) ncur lb.
Proof.
  intros (M1 & M2 & M3) Hn. split; [|split; [|exact M3]].
  - intros k e H. destruct (M1 k e H) as (I0 & c0 & Hc0 & Hi). split; [exact I0|]. exists c0. split; [exact Hc0|].
    rewrite fupd_other by (intros ->; exact (Hn e I0 Hc0)). exact Hi.
  - intros e I0. destruct (M2 e I0) as (c0 & Hc0 & Hn0 & Hl0 & Hm0). exists c0.
    rewrite fupd_other by (intros ->; exact (Hn e I0 Hc0)). auto.
Qed.

Lemma cid_close cur c x : c_id (fupd cur c (closed_of (cur c)) x) = c_id (cur x).
Proof. destruct (Nat.eq_dec x c) as [->|N]; [rewrite fupd_same; reflexivity|rewrite fupd_other by exact N; reflexivity]. Qed.

(* IA when the cursor table changes only at a cursor no request holds *)
Lemma IA_close act vals cur ncur lb c :
  IA act vals cur ncur lb -> (forall r, ~ holds act r c) ->
  IA act vals (fupd cur c (closed_of (cur c))) ncur lb.
Proof.
  intros (A1 & A2 & A3 & A4 & A7) NoH.
  refine (conj _ (conj _ (conj _ (conj _ _)))).
  - intros r c0 H. rewrite fupd_other by (intros ->; exact (NoH r H)). apply (A1 r c0 H).
  - exact A2.
  - exact A3.
  - exact A4.
  - exact A7.
Qed.

Lemma IC_close cur ncur act vals lb c :
  IC cur ncur act vals lb -> c_live (cur c) = true ->
  IC (fupd cur c (closed_of (cur c))) ncur act vals lb.
Proof.
  intros (C1 & C2) Hl. split.
  - intros c0 Hn. destruct (Nat.eq_dec c0 c) as [->|Ne]; [rewrite fupd_same; cbn; discriminate|].
    rewrite fupd_other by exact Ne. apply C1. exact Hn.
  - intros c0 Hn. destruct (Nat.eq_dec c0 c) as [->|Ne].
    + rewrite fupd_same. cbn. destruct (C2 c Hn) as [E1 E2]. rewrite Hl in *. rewrite E1, E2. auto.
    + rewrite fupd_other by exact Ne. apply C2. exact Hn.
Qed.

Lemma IQ_close acq cur ncur c :
  IQ acq cur ncur -> c < ncur -> c_live (cur c) = true ->
  IQ (acq_add acq (c_parts (cur c)) (-1)) (fupd cur c (closed_of (cur c))) ncur.
Proof.
  intros Q Hn Hl p. rewrite cnt_in_acq, live_sum_close by reflexivity.
  apply Nat.ltb_lt in Hn. rewrite Hn, Hl, (Q p). lia.
Qed.

Lemma commit_sim cur c : cur_sim cur (fupd cur c (commit (cur c))).
Proof. unfold commit. apply cur_sim_pos. Qed.

Definition reachp (act : list (nat * astate)) (vals : nat -> hldr) (lb : list nat) (c : nat) : Prop :=
  (exists r, holds act r c) \/ (exists e, In e lb /\ h_cur (vals e) = Some c).

Lemma IC_mono cur ncur act act' vals vals' lb lb' :
  (forall c, c < ncur -> c_live (cur c) = true -> reachp act vals lb c -> reachp act' vals' lb' c) ->
  IC cur ncur act vals lb -> IC cur ncur act' vals' lb'.
Proof.
  intros Mo (C1 & C2). split; [|exact C2]. intros c Hn Hl. apply (Mo c Hn Hl). apply (C1 c Hn Hl).
Qed.

Lemma IC_close_gen cur ncur act act' vals vals' lb lb' c :
  IC cur ncur act vals lb -> c_live (cur c) = true ->
  (forall c0, c0 <> c -> c0 < ncur -> c_live (cur c0) = true -> reachp act vals lb c0 -> reachp act' vals' lb' c0) ->
  IC (fupd cur c (closed_of (cur c))) ncur act' vals' lb'.
Proof.
  intros (C1 & C2) Hl Mo. split.
  - intros c0 Hn. destruct (Nat.eq_dec c0 c) as [->|Ne]; [rewrite fupd_same; cbn; discriminate|].
    rewrite fupd_other by exact Ne. intros Hl0. apply (Mo c0 Ne Hn Hl0). apply (C1 c0 Hn Hl0).
  - intros c0 Hn. destruct (Nat.eq_dec c0 c) as [->|Ne].
    + rewrite fupd_same. cbn. destruct (C2 c Hn) as [E1 E2]. rewrite Hl in *. rewrite E1, E2. auto.
    + rewrite fupd_other by exact Ne. apply C2. exact Hn.
Qed.

(* an actor that holds c leaves (c is not in the cache, or stays reachable through it) *)
Lemma IA_leave act vals cur ncur lb r c :
  IA act vals cur ncur lb -> holds act r c -> (forall e, In e lb -> h_cur (vals e) <> Some c) ->
  IA (act_set act r AIdle) vals cur ncur lb.
Proof.
  intros (A1 & A2 & A3 & A4 & A7) Ea1 Hring.
  assert (Ha : forall r0, r0 <> r -> act_get (act_set act r AIdle) r0 = act_get act r0).
  { intros r0 Ne. rewrite act_get_set. apply Nat.eqb_neq in Ne. rewrite Ne. reflexivity. }
  assert (Hr : act_get (act_set act r AIdle) r = AIdle) by (rewrite act_get_set, Nat.eqb_refl; reflexivity).
  assert (Hh : forall r0 c0, holds (act_set act r AIdle) r0 c0 -> r0 <> r /\ holds act r0 c0).
  { intros r0 c0 H. apply holds_set in H. destruct (Nat.eqb r0 r) eqn:E; [destruct H; discriminate|apply Nat.eqb_neq in E; auto]. }
  refine (conj _ (conj _ (conj _ (conj _ _)))).
  - intros r0 c0 H. apply Hh in H. apply (A1 r0 c0 (proj2 H)).
  - intros r0 r1 c0 H0 H1. apply Hh in H0. apply Hh in H1. apply (A2 r0 r1 c0 (proj2 H0) (proj2 H1)).
  - intros r0 c0 H. destruct (Nat.eq_dec r0 r) as [->|Ne]; [rewrite Hr in H; discriminate|]. rewrite Ha in H by exact Ne. apply (A3 r0 c0 H).
  - intros r0 c0 H. destruct (Nat.eq_dec r0 r) as [->|Ne]; [rewrite Hr in H; discriminate|]. rewrite Ha in H by exact Ne. apply (A4 r0 c0 H).
  - intros e0 c0 I0 Hb0 Hc0. destruct (A7 e0 c0 I0 Hb0 Hc0) as [r0 H]. exists r0. rewrite Ha; [exact H|].
    intros ->. destruct Ea1 as [Ea1|Ea1]; rewrite H in Ea1; [discriminate|]. injection Ea1 as ->. exact (Hring e0 I0 Hc0).
Qed.

(* the request that holds cursor c (created, not inserted; or handed out and not in the ring any more) closes it and leaves *)
Lemma close_and_leave s lb lf r c :
  InvL s lb lf -> holds (p_act s) r c -> (forall e, In e lb -> h_cur (p_vals s e) <> Some c) ->
  InvL (set_actor (close_cur s c) r AIdle) lb lf.
Proof.
  intros (R & M & A & C & Q & T) Hh Hring.
  pose proof A as (A1 & A2 & _). destruct (A1 r c Hh) as [Hn Hl].
  rewrite close_cur_eq by exact Hl.
  assert (NoH : forall r0, ~ holds (act_set (p_act s) r AIdle) r0 c).
  { intros r0 H. apply holds_set in H. destruct (Nat.eqb r0 r) eqn:E; [destruct H; discriminate|].
    apply Nat.eqb_neq in E. apply E. apply (A2 r0 r c H Hh). }
  unfold InvL; sproj.
  split; [exact R|]. split; [apply IM_close; assumption|].
  split; [apply IA_close; [apply (IA_leave _ _ _ _ _ r c); assumption|exact NoH]|].
  split.
  { apply (IC_close_gen _ _ (p_act s) _ (p_vals s) _ lb); [exact C|exact Hl|].
    intros c0 Ne _ _ [[r0 H]|H]; [|right; exact H]. left. exists r0. apply holds_set.
    destruct (Nat.eqb r0 r) eqn:E; [|exact H]. apply Nat.eqb_eq in E. subst r0. exfalso. apply Ne.
    destruct H as [H|H]; destruct Hh as [H'|H']; rewrite H in H'; try discriminate; injection H' as <-; reflexivity. }
  split; [apply IQ_close; assumption|exact T].
Qed.

(* ================= GetOrCreate: the insert step (code_variant: refuses if the id got cached meanwhile) ================= *)
Lemma inv_insert s r : Inv s -> ok_inv (get_insert true s r).
Proof.
  intros (lb & lf & HI). unfold get_insert.
  destruct (act_get (p_act s) r) eqn:Ea; try (apply ok_same; exists lb, lf; exact HI).
  destruct (map_get (p_curs s) (c_id (p_cur s c))) as [e0|] eqn:Hm.
  - (* another request has cached a cursor under the id: this one is closed, the request refused *)
    eexists _, _. split; [reflexivity|]. exists lb, lf.
    pose proof HI as (_ & _ & (_ & _ & _ & A4 & _) & _).
    apply close_and_leave; [exact HI|left; exact Ea|exact (A4 r c Ea)].
  - destruct HI as (R & M & A & C & Q & T).
    destruct (rs_take_spec _ _ _ R) as (lf' & Tk). destruct (rs_take (p_rs s)) as [e rs1].
    destruct Tk as (R1 & Sl & Nb & Nf & Lt & _).
    eexists _, _. split; [reflexivity|]. exists (e :: lb), lf'. unfold InvL; sproj.
    destruct (rs_push_busy_spec _ _ _ _ R1 Sl Nb Nf Lt) as [R2 _].
    pose proof A as (A1 & _). destruct (A1 r c (or_introl Ea)) as [Hn Hl].
    split; [exact R2|]. split; [apply IM_insert; try assumption; reflexivity|].
    split; [apply IA_insert; try assumption; reflexivity|].
    split; [apply IC_insert; assumption|]. split; [exact Q|].
    apply IT_cons; [exact T|exact Nb|cbn; lia].
Qed.

(* ================= Release (code_variant: a cache entry that carries another cursor is left alone) ================= *)
Lemma inv_release s r : Inv s -> ok_inv (release true s r).
Proof.
  intros (lb & lf & HI). unfold release.
  destruct (act_get (p_act s) r) eqn:Ea; try (apply ok_same; exists lb, lf; exact HI).
  2:{ eexists _, _. split; [reflexivity|]. exists lb, lf. apply InvL_nonhold; [rewrite Ea; exact I|exact I|exact HI]. }
  (* the commit only moves the position *)
  pose proof (InvL_cursim s lb lf _ (commit_sim (p_cur s) c) HI) as HI1.
  fold (set_cursor s c (commit (p_cur s c))) in HI1.
  set (s1 := set_cursor s c (commit (p_cur s c))) in *.
  assert (Ea1 : act_get (p_act s1) r = AHold c) by exact Ea.
  assert (Cu : p_cur s1 c = commit (p_cur s c)) by (unfold s1; sproj; apply fupd_same).
  assert (Cid : c_id (commit (p_cur s c)) = c_id (p_cur s1 c)) by (rewrite Cu; reflexivity).
  assert (Csp : c_spos (commit (p_cur s c)) = c_spos (p_cur s1 c)) by (rewrite Cu; reflexivity).
  rewrite Cid, Csp. clearbody s1. clear HI Ea Cid Csp Cu.
  assert (Closed : (forall e, In e lb -> h_cur (p_vals s1 e) <> Some c) ->
            ok_inv (Ok (set_actor (close_cur s1 c) r AIdle, RReleased 0 (c_spos (p_cur s1 c))))).
  { intros Hring. eexists _, _. split; [reflexivity|]. exists lb, lf. apply close_and_leave; [exact HI1|right; exact Ea1|exact Hring]. }
  destruct HI1 as (R & M & A & C & Q & T).
  pose proof A as (A1 & A2 & A3 & A4 & A7). pose proof M as (M1 & M2 & M3).
  destruct (map_get (p_curs s1) (c_id (p_cur s1 c))) as [e|] eqn:Em.
  - destruct (M1 _ _ Em) as (Ie & ce & Hce & _).
    unfold owned. rewrite Hce. destruct (Nat.eqb ce c) eqn:Eo; cbn [negb].
    + (* the cache entry is this cursor's: it must be marked busy, it becomes idle *)
      apply Nat.eqb_eq in Eo. subst ce.
      destruct (A3 r c Ea1) as [(e0 & I0 & Hc0 & Hb0)|Hn]; [|exfalso; exact (Hn e Ie Hce)].
      assert (e0 = e) by (apply (IM_inj _ _ _ _ _ _ _ _ M I0 Ie Hc0 Hce)). subst e0.
      rewrite Hb0. cbn [negb].
      eexists _, _. split; [reflexivity|]. exists (e :: remove Nat.eq_dec e lb), lf. unfold InvL; sproj.
      destruct (rs_touch_spec _ _ _ _ R I0) as [R' _].
      pose proof (mem_eq_touch e lb I0) as ME.
      assert (Len : length (e :: remove Nat.eq_dec e lb) = length lb).
      { cbn [length]. destruct R as (R1 & _). rewrite (remove_length_nodup e lb (ring_nodup _ _ _ R1) I0). reflexivity. }
      set (v := {| h_busy := false; h_cur := h_cur (p_vals s1 e); h_exp := (p_now s1 + p_idle s1)%Z |}).
      assert (V : vals_cur_eq (p_vals s1) (fupd (p_vals s1) e v)) by (apply vals_cur_eq_fupd; reflexivity).
      split; [exact R'|].
      split; [apply (IM_ext (p_curs s1) (p_vals s1) _ (p_cur s1) _ (p_ncur s1) lb); try assumption; apply cur_sim_refl|].
      split.
      { apply (IA_ext _ (fupd (p_vals s1) e v) _ (p_cur s1) _ _ lb); [intros x; auto|apply cur_sim_refl|exact ME|].
        apply (IA_ungrab (p_act s1) (p_curs s1) (p_vals s1) (p_cur s1) (p_ncur s1) lb r e c v A M Ea1 I0 Hc0); [exact Hc0|reflexivity]. }
      split.
      { apply (IC_ext (p_cur s1) _ _ _ (p_vals s1) _ lb); [exact V|apply cur_sim_refl|exact ME|].
        apply (IC_ungrab _ _ _ _ _ r e c C I0 Hc0). intros c0 [H|H]; rewrite Ea1 in H; [discriminate|injection H as <-; reflexivity]. }
      split; [exact Q|].
      apply (IT_ext _ _ _ _ lb); [exact ME|]. apply IT_fupd; [exact T|]. cbn. lia.
    + (* the cache entry under this id belongs to another cursor: this one is in no holder and is closed here *)
      apply Closed. apply Nat.eqb_neq in Eo.
      destruct (A3 r c Ea1) as [(e0 & I0 & Hc0 & Hb0)|Hn]; [|exact Hn].
      exfalso. destruct (M2 e0 I0) as (c1 & Hc1 & _ & _ & Hm1). rewrite Hc0 in Hc1. injection Hc1 as <-.
      rewrite Em in Hm1. injection Hm1 as ->. rewrite Hce in Hc0. injection Hc0 as ->. apply Eo. reflexivity.
  - (* not cached any more: the cursor is closed here *)
    apply Closed.
    destruct (A3 r c Ea1) as [(e0 & I0 & Hc0 & Hb0)|Hring]; [|exact Hring].
    destruct (M2 e0 I0) as (c1 & Hc1 & _ & _ & Hm1). rewrite Hc0 in Hc1. injection Hc1 as <-. congruence.
Qed.

(* ================= the sweeper takes one holder out of the ring ================= *)
Definition cleared (h : hldr) : hldr := {| h_busy := h_busy h; h_cur := None; h_exp := h_exp h |}.

Lemma IM_remove curs vals cur ncur lb e c :
  IM curs vals cur ncur lb -> NoDup lb -> In e lb -> h_cur (vals e) = Some c ->
  IM (map_del curs (c_id (cur c))) (fupd vals e (cleared (vals e))) cur ncur (remove Nat.eq_dec e lb).
Proof.
  intros M ND I Hc. pose proof M as (M1 & M2 & M3).
  destruct (M2 e I) as (c' & Hc' & _ & _ & Hme). rewrite Hc in Hc'. injection Hc' as <-.
  split; [|split].
  - intros k e0 H. rewrite map_get_del in H. destruct (N.eqb k (c_id (cur c))) eqn:E; [discriminate|].
    destruct (M1 k e0 H) as (I0 & c0 & Hc0 & Hi).
    assert (Ne : e0 <> e). { intros ->. rewrite Hc in Hc0. injection Hc0 as <-. rewrite Hi, N.eqb_refl in E. discriminate. }
    split; [apply in_remove_iff; auto|]. exists c0. rewrite fupd_other by exact Ne. auto.
  - intros e0 I0. apply in_remove_iff in I0. destruct I0 as [I0 Ne].
    destruct (M2 e0 I0) as (c0 & Hc0 & Hn0 & Hl0 & Hm0). exists c0. rewrite fupd_other by exact Ne.
    rewrite map_get_del. destruct (N.eqb (c_id (cur c0)) (c_id (cur c))) eqn:E; [|auto].
    apply N.eqb_eq in E. rewrite E, Hme in Hm0. injection Hm0 as ->. contradiction.
  - pose proof (map_del_len_some _ _ _ Hme). rewrite (remove_length_nodup e lb ND I) in M3. lia.
Qed.

Lemma ring_no_c curs vals cur ncur lb e c :
  IM curs vals cur ncur lb -> In e lb -> h_cur (vals e) = Some c ->
  forall e1, In e1 (remove Nat.eq_dec e lb) -> h_cur (fupd vals e (cleared (vals e)) e1) <> Some c.
Proof.
  intros M I Hc e1 I1 H. apply in_remove_iff in I1. destruct I1 as [I1 Ne]. rewrite fupd_other in H by exact Ne.
  apply Ne. apply (IM_inj _ _ _ _ _ _ _ _ M I1 I H Hc).
Qed.

Lemma IA_remove act curs vals cur ncur lb e c :
  IA act vals cur ncur lb -> IM curs vals cur ncur lb -> In e lb -> h_cur (vals e) = Some c ->
  IA act (fupd vals e (cleared (vals e))) cur ncur (remove Nat.eq_dec e lb).
Proof.
  intros (A1 & A2 & A3 & A4 & A7) M I Hc.
  pose proof (ring_no_c _ _ _ _ _ _ _ M I Hc) as NoC.
  assert (Ring : forall c0, (forall e0, In e0 lb -> h_cur (vals e0) <> Some c0) ->
                 forall e1, In e1 (remove Nat.eq_dec e lb) -> h_cur (fupd vals e (cleared (vals e)) e1) <> Some c0).
  { intros c0 Hn e1 I1. apply in_remove_iff in I1. destruct I1 as [I1 Ne]. rewrite fupd_other by exact Ne. apply Hn. exact I1. }
  refine (conj _ (conj _ (conj _ (conj _ _)))).
  - exact A1.
  - exact A2.
  - intros r c0 H. destruct (A3 r c0 H) as [(e0 & I0 & Hc0 & Hb0)|Hn].
    + destruct (Nat.eq_dec e0 e) as [->|Ne].
      * rewrite Hc in Hc0. injection Hc0 as <-. right. exact NoC.
      * left. exists e0. rewrite fupd_other by exact Ne. split; [apply in_remove_iff; auto|auto].
    + right. apply Ring; exact Hn.
  - intros r c0 H. apply Ring. exact (A4 r c0 H).
  - intros e0 c0 I0 Hb0 Hc0. apply in_remove_iff in I0. destruct I0 as [I0 Ne]. rewrite fupd_other in Hb0, Hc0 by exact Ne.
    apply (A7 e0 c0 I0 Hb0 Hc0).
Qed.

Lemma IT_remove vals now idle busyto lb e v :
  IT vals now idle busyto lb -> IT (fupd vals e v) now idle busyto (remove Nat.eq_dec e lb).
Proof.
  intros T Hm e0 I0. apply in_remove_iff in I0. destruct I0 as [I0 Ne]. rewrite fupd_other by exact Ne. apply (T Hm). exact I0.
Qed.

(* the holder is busy: its cursor is orphaned, the request that uses it will close it *)
Lemma groups_remove_busy act curs vals cur ncur acq now idle busyto lb e c :
  IM curs vals cur ncur lb -> IA act vals cur ncur lb -> IC cur ncur act vals lb -> IQ acq cur ncur ->
  IT vals now idle busyto lb -> NoDup lb -> In e lb -> h_cur (vals e) = Some c -> h_busy (vals e) = true ->
  let vals' := fupd vals e (cleared (vals e)) in let lb' := remove Nat.eq_dec e lb in let curs' := map_del curs (c_id (cur c)) in
  IM curs' vals' cur ncur lb' /\ IA act vals' cur ncur lb' /\ IC cur ncur act vals' lb' /\ IQ acq cur ncur /\
  IT vals' now idle busyto lb'.
Proof.
  intros M A C Q T ND I Hc Hb. cbn zeta.
  split; [apply IM_remove; assumption|]. split; [apply (IA_remove _ curs _ _ _ _ _ c); assumption|].
  split; [|split; [exact Q|apply IT_remove; exact T]].
  apply (IC_mono _ _ act _ vals _ lb); [|exact C].
  intros c0 _ _ [H|(e0 & I0 & H0)]; [left; exact H|].
  destruct (Nat.eq_dec e0 e) as [->|Ne].
  - rewrite Hc in H0. injection H0 as <-. destruct A as (_ & _ & _ & _ & A7).
    destruct (A7 e c I Hb Hc) as [r H]. left. exists r. right. exact H.
  - right. exists e0. rewrite fupd_other by exact Ne. split; [apply in_remove_iff; auto|exact H0].
Qed.

(* the holder is idle: its cursor is closed on the spot *)
Lemma groups_remove_idle act curs vals cur ncur acq now idle busyto lb e c :
  IM curs vals cur ncur lb -> IA act vals cur ncur lb -> IC cur ncur act vals lb -> IQ acq cur ncur ->
  IT vals now idle busyto lb -> NoDup lb -> In e lb -> h_cur (vals e) = Some c -> h_busy (vals e) = false ->
  let vals' := fupd vals e (cleared (vals e)) in let lb' := remove Nat.eq_dec e lb in let curs' := map_del curs (c_id (cur c)) in
  let cur' := fupd cur c (closed_of (cur c)) in
  c_live (cur c) = true /\
  IM curs' vals' cur' ncur lb' /\ IA act vals' cur' ncur lb' /\ IC cur' ncur act vals' lb' /\
  IQ (acq_add acq (c_parts (cur c)) (-1)) cur' ncur /\ IT vals' now idle busyto lb'.
Proof.
  intros M A C Q T ND I Hc Hb. cbn zeta.
  pose proof M as (M1 & M2 & M3). destruct (M2 e I) as (c' & Hc' & Hn & Hl & Hme). rewrite Hc in Hc'. injection Hc' as <-.
  pose proof (ring_no_c _ _ _ _ _ _ _ M I Hc) as NoC.
  assert (NoH : forall r, ~ holds act r c).
  { pose proof A as (_ & _ & A3 & A4 & _). intros r [H|H].
    - apply (A4 r c H e I Hc).
    - destruct (A3 r c H) as [(e0 & I0 & Hc0 & Hb0)|Hr]; [|apply (Hr e I Hc)].
      rewrite (IM_inj _ _ _ _ _ _ _ _ M I0 I Hc0 Hc) in Hb0. congruence. }
  split; [exact Hl|].
  split; [apply IM_close; [apply IM_remove; assumption|exact NoC]|].
  split; [apply IA_close; [apply (IA_remove _ curs _ _ _ _ _ c); assumption|exact NoH]|].
  split; [|split; [apply IQ_close; assumption|apply IT_remove; exact T]].
  apply (IC_close_gen _ _ act _ vals _ lb); [exact C|exact Hl|].
  intros c0 Nc _ _ [H|(e0 & I0 & H0)]; [left; exact H|].
  assert (Ne : e0 <> e) by (intros ->; rewrite Hc in H0; injection H0 as <-; apply Nc; reflexivity).
  right. exists e0. rewrite fupd_other by exact Ne. split; [apply in_remove_iff; auto|exact H0].
Qed.

Lemma remove_step s lb lf e c rs' lf' :
  InvL s lb lf -> In e lb -> h_cur (p_vals s e) = Some c -> rsinv rs' (remove Nat.eq_dec e lb) lf' ->
  InvL (set_rs (clear_cur (set_curs (if h_busy (p_vals s e) then s else close_cur s c)
                   (map_del (p_curs (if h_busy (p_vals s e) then s else close_cur s c))
                            (c_id (p_cur (if h_busy (p_vals s e) then s else close_cur s c) c)))) e) rs')
       (remove Nat.eq_dec e lb) lf'.
Proof.
  intros (R & M & A & C & Q & T) I Hc R'.
  assert (ND : NoDup lb) by (destruct R as (R1 & _); exact (ring_nodup _ _ _ R1)).
  destruct (h_busy (p_vals s e)) eqn:Hb.
  - destruct (groups_remove_busy _ _ _ _ _ _ _ _ _ _ _ _ M A C Q T ND I Hc Hb) as (M' & A' & C' & Q' & T').
    unfold InvL; sproj. unfold cleared in *. rewrite Hb in *. repeat (split; [assumption|]). assumption.
  - destruct (groups_remove_idle _ _ _ _ _ _ _ _ _ _ _ _ M A C Q T ND I Hc Hb) as (Hl & M' & A' & C' & Q' & T').
    rewrite close_cur_eq by exact Hl.
    unfold InvL; sproj. rewrite fupd_same. cbn [closed_of c_id]. unfold cleared in *. rewrite Hb in *.
    repeat (split; [assumption|]). assumption.
Qed.

Definition ok_inv1 (o : outcome prov) : Prop := exists s', o = Ok s' /\ Inv s'.

Lemma close_cur_rs s c : p_rs (close_cur s c) = p_rs s.
Proof. unfold close_cur. destruct (c_live (p_cur s c)); reflexivity. Qed.
Lemma busy_or_close_rs (b : bool) s c : p_rs (if b then s else close_cur s c) = p_rs s.
Proof. destruct b; [reflexivity|apply close_cur_rs]. Qed.

Lemma lb_bound rs lb lf : rsinv rs lb lf -> length lb <= r_nelem rs.
Proof.
  intros (R1 & _ & _ & B). pose proof (ring_nodup _ _ _ R1) as ND.
  rewrite <- (seq_length (r_nelem rs) 0). apply NoDup_incl_length; [exact ND|].
  intros x Hx. apply in_seq. specialize (B x (or_introl Hx)). lia.
Qed.

Lemma inv_sweep_size_loop fuel : forall s lb lf, InvL s lb lf -> length lb <= fuel -> ok_inv1 (sweep_size_loop fuel s).
Proof.
  induction fuel as [|f IH]; intros s lb lf HI Hf.
  - pose proof HI as (R & (M1 & M2 & M3) & _). cbn [sweep_size_loop].
    destruct (Nat.leb (length (p_curs s)) (p_max s)) eqn:E; [exists s; split; [reflexivity|exists lb, lf; exact HI]|].
    apply Nat.leb_gt in E. lia.
  - cbn [sweep_size_loop].
    destruct (Nat.leb (length (p_curs s)) (p_max s)) eqn:E; [exists s; split; [reflexivity|exists lb, lf; exact HI]|].
    apply Nat.leb_gt in E.
    pose proof HI as (R & (M1 & M2 & M3) & _).
    assert (Hne : p_curs s <> []) by (intros Z; rewrite Z in E; cbn in E; lia).
    destruct (map_nonempty_get _ Hne) as (k & e0 & Hk). destruct (M1 k e0 Hk) as (I0 & _).
    destruct (r_busy (p_rs s)) as [hd|] eqn:Eb; [|rewrite (rs_busy_none _ _ _ R Eb) in I0; destruct I0].
    pose proof (rs_head_in _ _ _ _ R Eb) as Ihd.
    destruct (rs_prev_in _ _ _ _ R Ihd) as [Ie _].
    set (e := cl_prev_of (r_links (p_rs s)) hd) in *.
    destruct (M2 e Ie) as (c & Hc & _). rewrite Hc.
    destruct (rs_remove_spec _ _ _ _ R Ie) as (R' & _).
    eapply IH.
    + match goal with |- InvL (set_rs ?s3 (rs_remove (p_rs ?s3) e)) _ _ =>
        replace (p_rs s3) with (p_rs s) by (unfold clear_cur, set_val, set_vals, set_curs; cbn [p_rs]; symmetry; apply busy_or_close_rs) end.
      apply (remove_step s lb lf e c _ lf HI Ie Hc R').
    + destruct R as (R1 & _). rewrite (remove_length_nodup e lb (ring_nodup _ _ _ R1) Ie) in Hf. lia.
Qed.

Lemma inv_sweep_size s : Inv s -> ok_inv1 (sweep_size s).
Proof.
  intros (lb & lf & HI). unfold sweep_size. apply (inv_sweep_size_loop _ s lb lf HI).
  destruct HI as (R & _). pose proof (lb_bound _ _ _ R). lia.
Qed.

Lemma inv_sweep_time_loop cnt : forall e0 s lb lf, InvL s lb lf -> cnt <= length lb -> (lb <> [] -> In e0 lb) ->
  ok_inv1 (sweep_time_loop cnt e0 s).
Proof.
  induction cnt as [|cnt IH]; intros e0 s lb lf HI Hc Hin; cbn [sweep_time_loop].
  - exists s. split; [reflexivity|exists lb, lf; exact HI].
  - pose proof HI as (R & (M1 & M2 & M3) & _).
    assert (Hne : lb <> []) by (intros Z; rewrite Z in Hc; cbn in Hc; lia).
    specialize (Hin Hne).
    destruct (rs_prev_in _ _ _ _ R Hin) as [Ie _].
    set (e := cl_prev_of (r_links (p_rs s)) e0) in *.
    destruct (M2 e Ie) as (c & Hcur & _).
    destruct (Z.ltb (h_exp (p_vals s e)) (p_now s)).
    + rewrite Hcur.
      destruct (rs_remove_spec _ _ _ _ R Ie) as (R' & Sl & Ne' & _).
      assert (Nb' : ~ In e (remove Nat.eq_dec e lb)) by apply remove_In.
      assert (Nf : ~ In e lf) by (destruct R as (_ & _ & D & _); apply D; exact Ie).
      assert (Lt : e < r_nelem (rs_remove (p_rs s) e)) by (rewrite Ne'; destruct R as (_ & _ & _ & B); apply B; left; exact Ie).
      destruct (rs_push_free_spec _ _ _ _ R' Sl Nb' Nf Lt) as (lf' & R'' & _).
      assert (Prs : p_rs (if h_busy (p_vals s e) then s else close_cur s c) = p_rs s) by apply busy_or_close_rs.
      destruct (rs_prev_in _ _ _ _ R Ie) as [Ie1 Sole].
      eapply (IH _ _ (remove Nat.eq_dec e lb) lf').
      * pose proof (remove_step s lb lf e c _ lf' HI Ie Hcur R'') as St.
        unfold InvL in St |- *. revert St. sproj. rewrite Prs. sproj. exact (fun x => x).
      * destruct R as (R1 & _). rewrite (remove_length_nodup e lb (ring_nodup _ _ _ R1) Ie) in Hc. lia.
      * intros Hne'. rewrite Prs. unfold cl_next_of. fold (cl_prev_of (r_links (p_rs s)) e).
        apply in_remove_iff. split; [exact Ie1|]. intros Eq. apply Hne'. rewrite (Sole Eq). cbn.
        destruct (Nat.eq_dec e e); [reflexivity|contradiction].
    + destruct (negb (h_busy (p_vals s e))); [exists s; split; [reflexivity|exists lb, lf; exact HI]|].
      apply (IH e s lb lf HI); [lia|intros _; exact Ie].
Qed.

Lemma inv_sweep_time s : Inv s -> ok_inv1 (sweep_time s).
Proof.
  intros (lb & lf & HI). unfold sweep_time.
  destruct (r_busy (p_rs s)) as [hd|] eqn:Eb; [|exists s; split; [reflexivity|exists lb, lf; exact HI]].
  pose proof HI as (R & (_ & _ & M3) & _).
  apply (inv_sweep_time_loop _ hd s lb lf HI M3). intros _. apply (rs_head_in _ _ _ _ R Eb).
Qed.

(* ================= Shutdown (code_variant): the cache is evicted with sweepBySize, maxCurs = 0 ================= *)
Lemma InvL_set_max s m lb lf : InvL s lb lf -> InvL (set_max s m) lb lf.
Proof. intros H. exact H. Qed.

Lemma close_cur_max s c : p_max (close_cur s c) = p_max s.
Proof. unfold close_cur. destruct (c_live (p_cur s c)); reflexivity. Qed.

(* sweepBySize stops only when the cache is within its bound; it does not touch the bound or the requests *)
Lemma sweep_size_post fuel : forall s s', sweep_size_loop fuel s = Ok s' ->
  length (p_curs s') <= p_max s' /\ p_max s' = p_max s.
Proof.
  induction fuel as [|f IH]; intros s s'; cbn [sweep_size_loop];
  destruct (Nat.leb (length (p_curs s)) (p_max s)) eqn:E;
  try (intros H; injection H as <-; apply Nat.leb_le in E; auto); try discriminate.
  destruct (r_busy (p_rs s)); [|discriminate].
  destruct (h_cur (p_vals s (cl_prev_of (r_links (p_rs s)) n))) as [c|]; [|discriminate].
  intros H. destruct (IH _ _ H) as [H1 H2]. split; [exact H1|]. rewrite H2. sproj.
  destruct (h_busy (p_vals s (cl_prev_of (r_links (p_rs s)) n))); [reflexivity|apply close_cur_max].
Qed.

Lemma inv_shutdown s : Inv s -> exists s', shutdown true s = Ok s' /\ Inv s' /\ p_curs s' = [].
Proof.
  intros (lb & lf & HI). unfold shutdown.
  destruct (inv_sweep_size (set_max s 0)) as (s1 & E & lb1 & lf1 & HI1); [exists lb, lf; apply InvL_set_max; exact HI|].
  rewrite E. exists (set_max s1 (p_max s)). split; [reflexivity|]. split; [exists lb1, lf1; apply InvL_set_max; exact HI1|].
  unfold sweep_size in E. destruct (sweep_size_post _ _ _ E) as [H1 H2]. rewrite H2 in H1. cbn in H1.
  cbn. destruct (p_curs s1); [reflexivity|cbn in H1; lia].
Qed.

(* ================= every step of every actor preserves the invariant ================= *)
Definition time_remove (s : prov) (e c : nat) : prov :=
  let s1 := if h_busy (p_vals s e) then s else close_cur s c in
  let s2 := set_rs s1 (rs_remove (p_rs s1) e) in
  let s3 := set_curs s2 (map_del (p_curs s2) (c_id (p_cur s2 c))) in
  let s4 := clear_cur s3 e in
  set_rs s4 (rs_push_free (p_rs s4) e).

Lemma close_cur_fields s c :
  p_act (close_cur s c) = p_act s /\ p_now (close_cur s c) = p_now s /\ p_vals (close_cur s c) = p_vals s /\
  p_curs (close_cur s c) = p_curs s /\ p_ncur (close_cur s c) = p_ncur s /\ c_id (p_cur (close_cur s c) c) = c_id (p_cur s c).
Proof. unfold close_cur. destruct (c_live (p_cur s c)); sproj; rewrite fupd_same; repeat split. Qed.

Lemma time_remove_fields s e c :
  p_act (time_remove s e c) = p_act s /\ p_now (time_remove s e c) = p_now s /\ p_ncur (time_remove s e c) = p_ncur s /\
  p_vals (time_remove s e c) = fupd (p_vals s) e (cleared (p_vals s e)) /\
  p_curs (time_remove s e c) = map_del (p_curs s) (c_id (p_cur s c)).
Proof.
  unfold time_remove. destruct (h_busy (p_vals s e)) eqn:Hb.
  - sproj. unfold cleared. repeat split.
  - destruct (close_cur_fields s c) as (F1 & F2 & F3 & F4 & F5 & F6). sproj. rewrite F1, F2, F3, F4, F5, F6. unfold cleared. repeat split.
Qed.

Lemma time_remove_inv s lb lf e c : InvL s lb lf -> In e lb -> h_cur (p_vals s e) = Some c ->
  exists lf', InvL (time_remove s e c) (remove Nat.eq_dec e lb) lf'.
Proof.
  intros HI Ie Hcur. pose proof HI as (R & _).
  destruct (rs_remove_spec _ _ _ _ R Ie) as (R' & Sl & Ne' & _).
  assert (Nb' : ~ In e (remove Nat.eq_dec e lb)) by apply remove_In.
  assert (Nf : ~ In e lf) by (destruct R as (_ & _ & D & _); apply D; exact Ie).
  assert (Lt : e < r_nelem (rs_remove (p_rs s) e)) by (rewrite Ne'; destruct R as (_ & _ & _ & B); apply B; left; exact Ie).
  destruct (rs_push_free_spec _ _ _ _ R' Sl Nb' Nf Lt) as (lf' & R'' & _).
  exists lf'. pose proof (remove_step s lb lf e c _ lf' HI Ie Hcur R'') as St.
  assert (Prs : p_rs (if h_busy (p_vals s e) then s else close_cur s c) = p_rs s) by apply busy_or_close_rs.
  unfold time_remove. unfold InvL in St |- *. revert St. sproj. rewrite Prs. sproj. exact (fun x => x).
Qed.

Lemma drop_idle_eq s e c id : h_busy (p_vals s e) = false -> c_id (p_cur s c) = id -> drop_idle s e c id = time_remove s e c.
Proof.
  intros Hb Hid. unfold drop_idle, time_remove. rewrite Hb.
  destruct (close_cur_fields s c) as (_ & _ & _ & _ & _ & F6). sproj. rewrite F6, Hid. reflexivity.
Qed.

Lemma inv_lookup drop s r id cache q qr p fresh :
  Inv s -> ok_inv (get_lookup drop s r id cache q qr p fresh).
Proof.
  intros (lb & lf & HI). unfold get_lookup.
  destruct (act_get (p_act s) r) eqn:Ea; try (apply ok_same; exists lb, lf; exact HI).
  assert (Miss : forall id', ok_inv (Ok (set_actor s r (AMiss id' q qr p cache), RMiss))).
  { intros id'. eexists _, _. split; [reflexivity|]. exists lb, lf. apply InvL_nonhold; [rewrite Ea; exact I|exact I|exact HI]. }
  destruct (N.eqb id 0) eqn:E0; [apply Miss|].
  destruct (map_get (p_curs s) id) as [e|] eqn:Em; [|apply Miss].
  destruct (h_busy (p_vals s e)) eqn:Eb; [apply ok_same; exists lb, lf; exact HI|].
  destruct HI as (R & M & A & C & Q & T).
  pose proof M as (M1 & M2 & M3).
  destruct (M1 id e Em) as (Ie & c & Hc & Hid). rewrite Hc.
  destruct (drop && N.eqb (c_query (p_cur s c)) q && negb (pos_eqb (c_spos (p_cur s c)) p)).
  { (* the cached cursor stands elsewhere: it goes the way an expired idle cursor goes, the request misses *)
    rewrite (drop_idle_eq s e c id Eb Hid).
    destruct (time_remove_inv s lb lf e c (conj R (conj M (conj A (conj C (conj Q T))))) Ie Hc) as (lf' & HI').
    destruct (time_remove_fields s e c) as (F1 & _).
    eexists _, _. split; [reflexivity|]. exists (remove Nat.eq_dec e lb), lf'.
    apply InvL_nonhold; [rewrite F1, Ea; exact I|exact I|exact HI']. }
  destruct (apply_state (p_cur s c) id q p) as [cu|] eqn:Eap; [|apply Miss].
  destruct (apply_state_sim _ _ _ _ _ Eap) as (S1 & S2 & S3 & S4 & S5).
  pose proof (cur_sim_fupd (p_cur s) c cu S1 S2 S3 S4 S5) as CS.
  eexists _, _. split; [reflexivity|]. exists (e :: remove Nat.eq_dec e lb), lf.
  unfold InvL; sproj.
  destruct (rs_touch_spec _ _ _ _ R Ie) as [R' _].
  pose proof (mem_eq_touch e lb Ie) as ME.
  assert (Len : length (e :: remove Nat.eq_dec e lb) = length lb).
  { cbn [length]. destruct R as (R1 & _). rewrite (remove_length_nodup e lb (ring_nodup _ _ _ R1) Ie). reflexivity. }
  set (v := {| h_busy := true; h_cur := h_cur (p_vals s e); h_exp := (p_now s + p_busyto s)%Z |}).
  assert (V : vals_cur_eq (p_vals s) (fupd (p_vals s) e v)) by (apply vals_cur_eq_fupd; reflexivity).
  split; [exact R'|]. split; [apply (IM_ext (p_curs s) (p_vals s) _ (p_cur s) _ (p_ncur s) lb); assumption|].
  split.
  - apply (IA_ext _ (fupd (p_vals s) e v) _ (p_cur s) _ _ lb); [intros x; auto|exact CS|exact ME|].
    apply (IA_grab (p_act s) (p_curs s) (p_vals s) (p_cur s) (p_ncur s) lb r e c v A M).
    + rewrite Ea; exact I.
    + exact Ie.
    + exact Hc.
    + exact Eb.
    + exact Hc.
    + reflexivity.
  - split; [|split].
    + apply (IC_ext (p_cur s) _ _ _ (p_vals s) _ lb); [exact V|exact CS|exact ME|].
      apply IC_nonhold; [rewrite Ea; exact I|exact C].
    + apply (IQ_ext _ (p_cur s)); assumption.
    + apply (IT_ext _ _ _ _ lb); [exact ME|]. apply IT_fupd; [exact T|]. cbn. lia.
Qed.

Lemma lift_ok o : ok_inv1 o -> ok_inv (lift o).
Proof. intros (s' & -> & H). exists s', RDone. auto. Qed.

(* the only demand on a step: with `mono`, the clock does not go backwards *)
Definition tick_ok (o : op) : Prop := mono = true -> match o with OTick d => (0 <= d)%Z | _ => True end.

Lemma inv_step s o : Inv s -> tick_ok o -> ok_inv (step code_variant s o).
Proof.
  intros HI G. destruct o; cbn [step code_variant v_owner v_evict v_droppos].
  - apply inv_lookup; assumption.
  - apply inv_create; assumption.
  - apply inv_insert; assumption.
  - apply inv_use; assumption.
  - apply inv_release; assumption.
  - apply lift_ok. apply inv_sweep_size; assumption.
  - apply lift_ok. apply inv_sweep_time; assumption.
  - eexists _, _. split; [reflexivity|]. destruct HI as (lb & lf & R & M & A & C & Q & T). exists lb, lf.
    unfold InvL; sproj. repeat (split; [assumption|]). intros Hm e I. specialize (T Hm e I). specialize (G Hm). cbn in G. lia.
  - apply lift_ok. destruct (inv_shutdown s HI) as (s' & E & HI' & _). exists s'. auto.
Qed.

Definition ticks_ok (ops : list op) : Prop := mono = true -> clock_monotone ops = true.

Lemma inv_run ops : forall s, Inv s -> ticks_ok ops ->
  snd (run code_variant s ops) = Ok tt /\ Inv (fst (fst (run code_variant s ops))) /\
  length (snd (fst (run code_variant s ops))) = length ops.
Proof.
  induction ops as [|o ops IH]; intros s HI D; cbn [run] in *.
  - cbn. auto.
  - assert (G : tick_ok o).
    { intros Hm. specialize (D Hm). cbn [clock_monotone forallb] in D. apply andb_true_iff in D. destruct D as [D _].
      destruct o; try exact Logic.I. apply Z.leb_le. exact D. }
    assert (D' : ticks_ok ops).
    { intros Hm. specialize (D Hm). cbn [clock_monotone forallb] in D. apply andb_true_iff in D. apply D. }
    destruct (inv_step s o HI G) as (s' & r & E & HI'). rewrite E in *.
    destruct (IH s' HI' D') as (H1 & H2 & H3). destruct (run code_variant s' ops) as [[sf rs] oc]. cbn in *. auto.
Qed.

(* the state after one more step *)
Lemma run_snoc v ops o : forall s, snd (run v s ops) = Ok tt ->
  fst (fst (run v s (ops ++ [o]))) =
  match step v (fst (fst (run v s ops))) o with Ok (s', _) => s' | _ => fst (fst (run v s ops)) end.
Proof.
  induction ops as [|o0 ops IH]; intros s H; cbn [run app] in *.
  - cbn [fst snd]. destruct (step v s o) as [[s' r]| | |]; reflexivity.
  - destruct (step v s o0) as [[s' r]| | |]; try discriminate H.
    specialize (IH s'). destruct (run v s' ops) as [[sf rs] oc]. cbn in H. specialize (IH H).
    destruct (run v s' (ops ++ [o])) as [[sf' rs'] oc']. cbn in *. exact IH.
Qed.

(* ================= consequences ================= *)
Lemma reachable_iff s lb lf c : InvL s lb lf -> (reachable s c <-> reachp (p_act s) (p_vals s) lb c).
Proof.
  intros (_ & (M1 & M2 & _) & _). unfold reachable, reachp, holds. split; intros [H|H]; [left; exact H| |left; exact H|].
  - destruct H as (k & e & Hk & He). right. exists e. split; [apply (M1 k e Hk)|exact He].
  - destruct H as (e & I & He). right. destruct (M2 e I) as (c' & Hc' & _ & _ & Hm). rewrite He in Hc'. injection Hc' as <-.
    exists (c_id (p_cur s c)), e. auto.
Qed.

Lemma live_sum_dead cur n p : (forall c, c < n -> c_live (cur c) = false) -> live_sum cur n p = 0%Z.
Proof.
  induction n as [|n IH]; intros H; cbn [live_sum]; [reflexivity|].
  rewrite IH by (intros c Hc; apply H; lia). rewrite (H n) by lia. reflexivity.
Qed.

(* the per-cursor accounting under the invariant: open iff referred to; closed and released exactly once otherwise *)
Lemma inv_once s : Inv s -> forall c, c < p_ncur s ->
  (reachable s c -> c_live (p_cur s c) = true /\ c_closes (p_cur s c) = 0 /\ c_rels (p_cur s c) = 0) /\
  (~ reachable s c -> c_live (p_cur s c) = false /\ c_closes (p_cur s c) = 1 /\ c_rels (p_cur s c) = 1).
Proof.
  intros (lb & lf & HI) c Hn. pose proof (reachable_iff s lb lf c HI) as RI.
  destruct HI as (_ & (M1 & M2 & _) & (A1 & _) & (C1 & C2) & _).
  destruct (C2 c Hn) as [E1 E2]. split.
  - intros H. apply RI in H. assert (L : c_live (p_cur s c) = true).
    { destruct H as [[r H]|(e & I & He)]; [apply (A1 r c H)|].
      destruct (M2 e I) as (c' & Hc' & _ & Hl & _). rewrite He in Hc'. injection Hc' as <-. exact Hl. }
    rewrite L in *. auto.
  - intros H. destruct (c_live (p_cur s c)) eqn:L; [|auto]. exfalso. apply H. apply RI. apply (C1 c Hn L).
Qed.

Lemma inv_exclusive s : Inv s -> forall r r' c,
  (act_get (p_act s) r = AHold c \/ act_get (p_act s) r = ACreated c) ->
  (act_get (p_act s) r' = AHold c \/ act_get (p_act s) r' = ACreated c) -> r = r'.
Proof.
  intros (lb & lf & _ & _ & (_ & A2 & _) & _) r r' c H H'. apply (A2 r r' c); unfold holds; tauto.
Qed.

(* a cursor in the hands of a request is never idle in the cache: a cache entry that carries it is marked busy
   (so every further request for its id is refused, refuse_busy); the entry under its id may also carry another
   cursor (this one was not cached, or was dropped by the sweeper while busy), which Release then leaves alone *)
Lemma inv_held_busy s : Inv s -> forall r c k e, holds (p_act s) r c ->
  map_get (p_curs s) k = Some e -> h_cur (p_vals s e) = Some c ->
  act_get (p_act s) r = AHold c /\ h_busy (p_vals s e) = true /\ k = c_id (p_cur s c).
Proof.
  intros (lb & lf & _ & M & (_ & _ & A3 & A4 & _) & _) r c k e H Hm Hc.
  pose proof M as (M1 & M2 & _). destruct (M1 k e Hm) as (Ie & c' & Hc' & Hk). rewrite Hc in Hc'. injection Hc' as <-.
  destruct H as [H|H]; [exfalso; exact (A4 r c H e Ie Hc)|].
  split; [exact H|]. split; [|symmetry; exact Hk].
  destruct (A3 r c H) as [(e0 & I0 & Hc0 & Hb0)|Hn]; [|exfalso; exact (Hn e Ie Hc)].
  rewrite <- (IM_inj _ _ _ _ _ _ _ _ M I0 Ie Hc0 Hc). exact Hb0.
Qed.

(* a cache entry marked busy is in the hands of a request; so when no request is in flight nothing in the cache is busy *)
Lemma inv_busy_held s : Inv s -> forall k e, map_get (p_curs s) k = Some e -> h_busy (p_vals s e) = true ->
  exists r c, act_get (p_act s) r = AHold c /\ h_cur (p_vals s e) = Some c.
Proof.
  intros (lb & lf & _ & (M1 & _) & (_ & _ & _ & _ & A7) & _) k e Hm Hb.
  destruct (M1 k e Hm) as (Ie & c & Hc & _). destruct (A7 e c Ie Hb Hc) as [r H]. exists r, c. auto.
Qed.

Lemma inv_acq s : Inv s -> forall p, p_acq s p = live_sum (p_cur s) (p_ncur s) p.
Proof. intros (lb & lf & _ & _ & _ & _ & Q & _). exact Q. Qed.

(* ---- unconditional facts (every state, no discipline) ---- *)
Lemma refuse_busy drop s r id cache q qr p fresh e :
  act_get (p_act s) r = AIdle -> id <> 0%N -> map_get (p_curs s) id = Some e -> h_busy (p_vals s e) = true ->
  get_lookup drop s r id cache q qr p fresh = Ok (s, RRefused).
Proof.
  intros Ea Hid Hm Hb. unfold get_lookup. rewrite Ea. apply N.eqb_neq in Hid. rewrite Hid, Hm, Hb. reflexivity.
Qed.

Lemma hit_only_idle drop s r id cache q qr p fresh s' c :
  get_lookup drop s r id cache q qr p fresh = Ok (s', RHit c) ->
  exists e, map_get (p_curs s) id = Some e /\ h_busy (p_vals s e) = false /\ h_cur (p_vals s e) = Some c.
Proof.
  unfold get_lookup. destruct (act_get (p_act s) r); try (intros H; discriminate H).
  destruct (N.eqb id 0); [intros H; discriminate H|].
  destruct (map_get (p_curs s) id) as [e|]; [|intros H; discriminate H].
  destruct (h_busy (p_vals s e)) eqn:Eb; [intros H; discriminate H|].
  destruct (h_cur (p_vals s e)) as [c0|] eqn:Ec; [|intros H; discriminate H].
  destruct (drop && N.eqb (c_query (p_cur s c0)) q && negb (pos_eqb (c_spos (p_cur s c0)) p)); [intros H; discriminate H|].
  destruct (apply_state (p_cur s c0) id q p); intros H; [|discriminate H]. injection H as _ Hc. subst c0. exists e. auto.
Qed.

Lemma resume_lookup drop s r id cache q qr p fresh :
  act_get (p_act s) r = AIdle -> id <> 0%N -> map_get (p_curs s) id = None ->
  get_lookup drop s r id cache q qr p fresh = Ok (set_actor s r (AMiss id q qr p cache), RMiss).
Proof.
  intros Ea Hid Hm. unfold get_lookup. rewrite Ea. apply N.eqb_neq in Hid. rewrite Hid, Hm. reflexivity.
Qed.

Lemma resume_create s r id q parts p cache :
  act_get (p_act s) r = AMiss id q (QParts parts) p cache -> p <> PBad ->
  exists s', get_create s r = Ok (s', RNew (p_ncur s)) /\
    p_ncur s' = S (p_ncur s) /\
    act_get (p_act s') r = (if cache then ACreated (p_ncur s) else AHold (p_ncur s)) /\
    let cu := p_cur s' (p_ncur s) in
    c_id cu = id /\ c_query cu = q /\ c_spos cu = p /\ c_ipos cu = pos_init p /\ c_parts cu = parts /\
    c_live cu = true /\ c_closes cu = 0 /\ c_rels cu = 0.
Proof.
  intros Ea Hp. unfold get_create. rewrite Ea.
  destruct p; try (exfalso; apply Hp; reflexivity);
  (eexists; split; [reflexivity|]; sproj; rewrite act_get_set, Nat.eqb_refl, fupd_same; cbn; repeat split).
Qed.

(* ================= nothing stays pinned: at quiescence one sweep after the time-outs empties the cache ================= *)
Lemma sweep_time_loop_S cnt e0 s :
  sweep_time_loop (S cnt) e0 s =
  let e := cl_prev_of (r_links (p_rs s)) e0 in
  let ch := p_vals s e in
  if Z.ltb (h_exp ch) (p_now s) then
    match h_cur ch with
    | None => Panic
    | Some c => sweep_time_loop cnt (cl_next_of (r_links (p_rs (if h_busy ch then s else close_cur s c))) e) (time_remove s e c)
    end
  else if negb (h_busy ch) then Ok s else sweep_time_loop cnt e s.
Proof. reflexivity. Qed.

Lemma drain_loop cnt : forall e0 s lb lf, InvL s lb lf -> p_act s = [] ->
  (forall e, In e lb -> (h_exp (p_vals s e) < p_now s)%Z) ->
  length (p_curs s) <= cnt -> cnt <= length lb -> (lb <> [] -> In e0 lb) ->
  exists s', sweep_time_loop cnt e0 s = Ok s' /\ Inv s' /\ p_curs s' = [] /\ p_act s' = [] /\ p_ncur s' = p_ncur s.
Proof.
  induction cnt as [|cnt IH]; intros e0 s lb lf HI Hq Hexp Hlen Hc Hin.
  - exists s. cbn [sweep_time_loop]. split; [reflexivity|]. split; [exists lb, lf; exact HI|].
    split; [destruct (p_curs s); [reflexivity|cbn in Hlen; lia]|auto].
  - rewrite sweep_time_loop_S. cbn zeta.
    pose proof HI as (R & (M1 & M2 & M3) & _).
    assert (Hne : lb <> []) by (intros Z; rewrite Z in Hc; cbn in Hc; lia).
    specialize (Hin Hne).
    destruct (rs_prev_in _ _ _ _ R Hin) as [Ie _].
    set (e := cl_prev_of (r_links (p_rs s)) e0) in *.
    destruct (M2 e Ie) as (c & Hcur & _ & _ & Hme).
    pose proof (Hexp e Ie) as He. apply Z.ltb_lt in He. rewrite He, Hcur.
    destruct (time_remove_inv s lb lf e c HI Ie Hcur) as (lf' & HI').
    destruct (time_remove_fields s e c) as (F1 & F2 & F3 & F4 & F5).
    destruct (rs_prev_in _ _ _ _ R Ie) as [Ie1 Sole].
    destruct (IH (cl_next_of (r_links (p_rs (if h_busy (p_vals s e) then s else close_cur s c))) e)
                 (time_remove s e c) (remove Nat.eq_dec e lb) lf' HI') as (s' & E & HI'' & G1 & G2 & G3).
    + rewrite F1. exact Hq.
    + intros e1 I1. apply in_remove_iff in I1. destruct I1 as [I1 Ne]. rewrite F2, F4, fupd_other by exact Ne. apply Hexp. exact I1.
    + rewrite F5. pose proof (map_del_len_some _ _ _ Hme). lia.
    + destruct R as (R1 & _). rewrite (remove_length_nodup e lb (ring_nodup _ _ _ R1) Ie) in Hc. lia.
    + intros Hne'. rewrite busy_or_close_rs. unfold cl_next_of. fold (cl_prev_of (r_links (p_rs s)) e).
      apply in_remove_iff. split; [exact Ie1|]. intros Eq. apply Hne'. rewrite (Sole Eq). cbn.
      destruct (Nat.eq_dec e e); [reflexivity|contradiction].
    + exists s'. rewrite G3, F3. auto.
Qed.

Lemma inv_empty_closed s : Inv s -> p_curs s = [] -> p_act s = [] ->
  forall c, c < p_ncur s -> c_live (p_cur s c) = false /\ c_closes (p_cur s c) = 1 /\ c_rels (p_cur s c) = 1.
Proof.
  intros HI Hc Ha c Hn. apply (inv_once s HI c Hn). intros [(r & [H|H])|(k & e & Hk & _)].
  - rewrite Ha in H. discriminate.
  - rewrite Ha in H. discriminate.
  - rewrite Hc in Hk. discriminate.
Qed.

Lemma drain s : Inv s -> p_act s = [] ->
  (forall k e, map_get (p_curs s) k = Some e -> (h_exp (p_vals s e) < p_now s)%Z) ->
  exists s', sweep_time s = Ok s' /\ p_curs s' = [] /\ p_ncur s' = p_ncur s /\
    (forall c, c < p_ncur s' -> c_live (p_cur s' c) = false /\ c_closes (p_cur s' c) = 1 /\ c_rels (p_cur s' c) = 1) /\
    (forall p, p_acq s' p = 0%Z).
Proof.
  intros (lb & lf & HI) Hq Hexp. unfold sweep_time.
  pose proof HI as (R & (M1 & M2 & M3) & _).
  assert (Fin : forall s', Inv s' -> p_curs s' = [] -> p_act s' = [] -> p_ncur s' = p_ncur s ->
     p_curs s' = [] /\ p_ncur s' = p_ncur s /\
     (forall c, c < p_ncur s' -> c_live (p_cur s' c) = false /\ c_closes (p_cur s' c) = 1 /\ c_rels (p_cur s' c) = 1) /\
     (forall p, p_acq s' p = 0%Z)).
  { intros s' HI' G1 G2 G3. split; [exact G1|]. split; [exact G3|].
    pose proof (inv_empty_closed s' HI' G1 G2) as Cl. split; [exact Cl|].
    intros p. rewrite (inv_acq s' HI' p). apply live_sum_dead. intros c Hc. apply (Cl c Hc). }
  destruct (r_busy (p_rs s)) as [hd|] eqn:Eb.
  - destruct (drain_loop (length (p_curs s)) hd s lb lf HI Hq) as (s' & E & HI' & G1 & G2 & G3).
    + intros e Ie. destruct (M2 e Ie) as (c & _ & _ & _ & Hm). apply (Hexp _ _ Hm).
    + lia.
    + exact M3.
    + intros _. apply (rs_head_in _ _ _ _ R Eb).
    + exists s'. split; [exact E|]. apply Fin; assumption.
  - exists s. split; [reflexivity|]. apply Fin; [exists lb, lf; exact HI| |exact Hq|reflexivity].
    pose proof (rs_busy_none _ _ _ R Eb) as Z. rewrite Z in M3. destruct (p_curs s); [reflexivity|cbn in M3; lia].
Qed.

(* after the clock has passed every time-out everything cached has expired *)
Lemma inv_all_expired s d : mono = true -> Inv s -> (Z.max (p_idle s) (p_busyto s) < d)%Z ->
  forall k e, map_get (p_curs s) k = Some e -> (h_exp (p_vals s e) < p_now s + d)%Z.
Proof.
  intros Hm (lb & lf & _ & (M1 & _) & _ & _ & _ & T) Hd k e Hk. destruct (M1 k e Hk) as [I0 _]. specialize (T Hm e I0). lia.
Qed.

End Clock.

(* every state the code reaches, whatever the clients and the clock do *)
Lemma inv_reach max idle busyto ops : Inv false (fst (fst (run code_variant (init max idle busyto) ops))).
Proof. apply (inv_run false ops _ (inv_init false max idle busyto)). intros H; discriminate H. Qed.

(* ================= unconditionally (any history, any schedule): partitions are never released twice ================= *)
Definition Jc (cur : nat -> cursor) : Prop :=
  forall c, (c_live (cur c) = true -> c_rels (cur c) = 0) /\ c_rels (cur c) <= 1.

Lemma Jc_fupd cur c cu : Jc cur -> ((c_live cu = true -> c_rels cu = 0) /\ c_rels cu <= 1) -> Jc (fupd cur c cu).
Proof. intros J H x. destruct (Nat.eq_dec x c) as [->|N]; [rewrite fupd_same; exact H|rewrite fupd_other by exact N; apply J]. Qed.

Lemma Jc_close s c : Jc (p_cur s) -> Jc (p_cur (close_cur s c)).
Proof.
  intros J. unfold close_cur. destruct (c_live (p_cur s c)) eqn:L; sproj; apply Jc_fupd; try exact J; cbn; destruct (J c) as [J1 J2].
  - rewrite (J1 L). split; [discriminate|lia].
  - split; [discriminate|exact J2].
Qed.

Lemma Jc_pos cur c sp ip : Jc cur -> Jc (fupd cur c (with_pos (cur c) sp ip)).
Proof. intros J. apply Jc_fupd; [exact J|]. cbn. apply J. Qed.

Lemma Jc_boc (b : bool) s c : Jc (p_cur s) -> Jc (p_cur (if b then s else close_cur s c)).
Proof. destruct b; [auto|apply Jc_close]. Qed.

Lemma Jc_sweep_size fuel : forall s s', Jc (p_cur s) -> sweep_size_loop fuel s = Ok s' -> Jc (p_cur s').
Proof.
  induction fuel as [|f IH]; intros s s' J; cbn [sweep_size_loop];
  destruct (Nat.leb (length (p_curs s)) (p_max s)); try (intros H; injection H as <-; exact J); try discriminate.
  destruct (r_busy (p_rs s)); [|discriminate].
  destruct (h_cur (p_vals s (cl_prev_of (r_links (p_rs s)) n))) as [c|]; [|discriminate].
  apply IH. sproj. apply Jc_boc. exact J.
Qed.

Lemma Jc_sweep_time cnt : forall e0 s s', Jc (p_cur s) -> sweep_time_loop cnt e0 s = Ok s' -> Jc (p_cur s').
Proof.
  induction cnt as [|cnt IH]; intros e0 s s' J; [cbn; intros H; injection H as <-; exact J|].
  rewrite sweep_time_loop_S. cbn zeta.
  destruct (Z.ltb (h_exp (p_vals s (cl_prev_of (r_links (p_rs s)) e0))) (p_now s)).
  - destruct (h_cur (p_vals s (cl_prev_of (r_links (p_rs s)) e0))) as [c|]; [|discriminate].
    apply IH. unfold time_remove. sproj. apply Jc_boc. exact J.
  - destruct (negb (h_busy (p_vals s (cl_prev_of (r_links (p_rs s)) e0)))); [intros H; injection H as <-; exact J|apply IH; exact J].
Qed.

Lemma Jc_step v s o s' r : Jc (p_cur s) -> step v s o = Ok (s', r) -> Jc (p_cur s').
Proof.
  intros J. destruct o; cbn [step].
  - unfold get_lookup. destruct (act_get (p_act s) r0); try (intros H; injection H as <- _; exact J).
    destruct (N.eqb id 0); [intros H; injection H as <- _; exact J|].
    destruct (map_get (p_curs s) id) as [e|]; [|intros H; injection H as <- _; exact J].
    destruct (h_busy (p_vals s e)); [intros H; injection H as <- _; exact J|].
    destruct (h_cur (p_vals s e)) as [c|]; [|discriminate].
    destruct (v_droppos v && N.eqb (c_query (p_cur s c)) q && negb (pos_eqb (c_spos (p_cur s c)) p));
      [intros H; injection H as <- _; unfold drop_idle; sproj; apply Jc_close; exact J|].
    destruct (apply_state (p_cur s c) id q p) as [cu|] eqn:Ea; [|intros H; injection H as <- _; exact J].
    intros H; injection H as <- _. sproj. apply Jc_fupd; [exact J|].
    destruct (apply_state_sim _ _ _ _ _ Ea) as (_ & S2 & _ & _ & S5). rewrite S2, S5. apply J.
  - unfold get_create. destruct (act_get (p_act s) r0); try (intros H; injection H as <- _; exact J).
    destruct qr; try (intros H; injection H as <- _; exact J).
    destruct p; intros H; injection H as <- _; sproj; try exact J; (apply Jc_fupd; [exact J|cbn; split; [reflexivity|lia]]).
  - unfold get_insert. destruct (act_get (p_act s) r0); try (intros H; injection H as <- _; exact J).
    destruct (if v_owner v then map_get (p_curs s) (c_id (p_cur s c)) else None).
    + intros H; injection H as <- _. sproj. apply Jc_close. exact J.
    + destruct (rs_take (p_rs s)). intros H; injection H as <- _. exact J.
  - unfold use. destruct (act_get (p_act s) r0); try (intros H; injection H as <- _; exact J).
    intros H; injection H as <- _. sproj. apply Jc_pos. exact J.
  - unfold release. destruct (act_get (p_act s) r0); try (intros H; injection H as <- _; exact J).
    set (s1 := set_cursor s c (commit (p_cur s c))).
    assert (J1 : Jc (p_cur s1)) by (unfold s1, commit; sproj; apply Jc_pos; exact J).
    assert (Cl : forall x, Ok (set_actor (close_cur s1 c) r0 AIdle, x) = Ok (s', r) -> Jc (p_cur s')).
    { intros x H; injection H as <- _. sproj. apply Jc_close. exact J1. }
    destruct (map_get (p_curs s1) (c_id (commit (p_cur s c)))); [|apply Cl].
    destruct (negb (owned (v_owner v) s1 c n)); [apply Cl|].
    destruct (negb (h_busy (p_vals s1 n))); [discriminate|]. intros H; injection H as <- _. exact J1.
  - unfold lift, sweep_size. destruct (sweep_size_loop (S (r_nelem (p_rs s))) s) eqn:E; try discriminate.
    intros H; injection H as <- _. apply (Jc_sweep_size _ _ _ J E).
  - unfold lift, sweep_time. destruct (r_busy (p_rs s)); [|intros H; injection H as <- _; exact J].
    destruct (sweep_time_loop (length (p_curs s)) n s) eqn:E; try discriminate.
    intros H; injection H as <- _. apply (Jc_sweep_time _ _ _ _ J E).
  - intros H; injection H as <- _. exact J.
  - unfold lift, shutdown. destruct (v_evict v); [|intros H; injection H as <- _; exact J].
    unfold sweep_size. destruct (sweep_size_loop (S (r_nelem (p_rs (set_max s 0)))) (set_max s 0)) eqn:E; try discriminate.
    intros H; injection H as <- _. sproj. apply (Jc_sweep_size _ (set_max s 0) _ J E).
Qed.

Lemma Jc_run v ops : forall s, Jc (p_cur s) -> Jc (p_cur (fst (fst (run v s ops)))).
Proof.
  induction ops as [|o ops IH]; intros s J; cbn [run]; [exact J|].
  destruct (step v s o) as [[s' r]| | |] eqn:E; try exact J.
  specialize (IH s' (Jc_step _ _ _ _ _ J E)). destruct (run v s' ops) as [[sf rs] oc]. exact IH.
Qed.

Lemma Jc_init max idle busyto : Jc (p_cur (init max idle busyto)).
Proof. intros c. cbn. split; [discriminate|lia]. Qed.
