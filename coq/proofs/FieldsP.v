(* Lemmas about model/Fields.v: binary encoding/decoding of field lists, AsKVString on encoded lists,
   the print/parse law of field texts on safe lists. *)
From LR Require Import lib.Base model.KV model.Tags model.Fields proofs.KVP proofs.TagsP.
From Coq Require Import Sorting.Sorted Permutation.

(* ---------- byte(len(v)) ---------- *)
Lemma len_byte_small v : length v <= 255 -> N.to_nat (Byte.to_N (len_byte v)) = length v.
Proof.
  intros H. unfold len_byte.
  assert (E : (N.of_nat (length v) mod 256 = N.of_nat (length v))%N) by (apply N.mod_small; lia).
  rewrite E. destruct (Byte.of_N (N.of_nat (length v))) as [b|] eqn:Eb.
  - rewrite (Byte.to_of_N _ Eb). apply Nat2N.id.
  - apply Byte.of_N_None_iff in Eb. lia.
Qed.

Lemma len_byte_of c (tl : bytes) : N.to_nat (Byte.to_N c) <= length tl ->
  len_byte (firstn (N.to_nat (Byte.to_N c)) tl) = c.
Proof.
  intros H. unfold len_byte. rewrite firstn_length_le by exact H. rewrite N2Nat.id.
  pose proof (Byte.to_N_bounded c) as B. rewrite N.mod_small by lia. rewrite Byte.of_to_N. reflexivity.
Qed.

(* ---------- decoding gives back an encoding ---------- *)
Lemma dec_fields_go_enc : forall fuel f items, dec_fields_go fuel f = Some items ->
  f = enc_fields items /\ Forall (fun v => length v <= 255) items.
Proof.
  induction fuel as [|fuel IH]; intros f items H.
  - destruct f; cbn in H; [injection H as <-; split; [reflexivity|constructor]|discriminate].
  - destruct f as [|c tl]; cbn [dec_fields_go] in H; [injection H as <-; split; [reflexivity|constructor]|].
    destruct (Nat.ltb_spec (length tl) (N.to_nat (Byte.to_N c))) as [Hlt|Hge]; [discriminate|].
    destruct (dec_fields_go fuel (skipn (N.to_nat (Byte.to_N c)) tl)) as [r|] eqn:Er; [|discriminate].
    injection H as <-. destruct (IH _ _ Er) as (E & F). split.
    + unfold enc_fields. cbn [map concat]. fold (enc_fields r). rewrite <- E. unfold enc_item.
      rewrite (len_byte_of c tl Hge). cbn [app]. rewrite firstn_skipn. reflexivity.
    + constructor; [|exact F]. rewrite firstn_length_le by exact Hge.
      pose proof (Byte.to_N_bounded c). lia.
Qed.

Lemma pairs_up_flat_n : forall n items, length items <= n -> forall l, pairs_up items = Some l -> items = flat l.
Proof.
  induction n as [|n IH]; intros items Hn l E.
  - destruct items; [|cbn in Hn; lia]. cbn in E. injection E as <-. reflexivity.
  - destruct items as [|k [|v tl]].
    + cbn in E. injection E as <-. reflexivity.
    + discriminate.
    + cbn [pairs_up] in E. destruct (pairs_up tl) as [r|] eqn:Er; [|discriminate].
      injection E as <-. cbn [flat]. f_equal. f_equal. apply IH; [cbn in Hn; lia|exact Er].
Qed.
Lemma pairs_up_flat items l : pairs_up items = Some l -> items = flat l.
Proof. apply (pairs_up_flat_n (length items) items (le_n _)). Qed.

Lemma byte_eqb_sym a b : byte_eqb a b = byte_eqb b a.
Proof.
  destruct (byte_eqb a b) eqn:E1, (byte_eqb b a) eqn:E2; try reflexivity.
  - apply byte_eqb_eq in E1. subst. rewrite byte_eqb_refl in E2. discriminate.
  - apply byte_eqb_eq in E2. subst. rewrite byte_eqb_refl in E1. discriminate.
Qed.

(* a string without double quote, '=' and ',' goes through the scanner unchanged *)
Lemma plain_scan s : has QUOTE s = false -> has EQ s = false -> has COMMA s = false -> scan s false = Some false.
Proof.
  induction s as [|c tl IH]; intros H1 H2 H3; [reflexivity|].
  unfold has in *. cbn [existsb] in *.
  apply orb_false_iff in H1 as [A1 B1]. apply orb_false_iff in H2 as [A2 B2]. apply orb_false_iff in H3 as [A3 B3].
  cbn [scan]. rewrite (byte_eqb_sym c QUOTE), A1, (byte_eqb_sym c EQ), A2, (byte_eqb_sym c COMMA), A3.
  rewrite andb_false_r. cbn [orb andb]. exact (IH B1 B2 B3).
Qed.
Lemma plain_neutral s : has QUOTE s = false -> has EQ s = false -> has COMMA s = false -> neutral s = true.
Proof. intros H1 H2 H3. unfold neutral. rewrite (plain_scan s H1 H2 H3). reflexivity. Qed.

Lemma enc_fields_nil (l : list (bytes * bytes)) : is_nil (enc_fields (flat l)) = is_nil l.
Proof. destruct l as [|[k v] tl]; reflexivity. Qed.

Definition pair_le255 (kv : bytes * bytes) : Prop := length (fst kv) <= 255 /\ length (snd kv) <= 255.

Section Law.
  Variable quote : bytes -> bytes.
  Variable unquote : bytes -> option bytes.

  (* the text AsKVString prints for the pairs l: first name and last value are the edges of the text *)
  Fixpoint frender (first : bool) (l : list (bytes * bytes)) : list (bytes * bytes) :=
    match l with
    | [] => []
    | (k, v) :: tl => (fld_item quote true first k, fld_item quote false (is_nil tl) v) :: frender false tl
    end.

  (* ---------- AsKVString over an encoded list ---------- *)
  Lemma as_kv_item fuel x rest even first : length x <= 255 ->
    as_kv_go quote (S fuel) (enc_item x ++ rest) even first =
    match as_kv_go quote fuel rest (negb even) false with
    | Ok r => Ok ((if even then (if first then [] else [COMMA]) ++ fld_item quote true first x ++ [EQ]
                   else fld_item quote false (is_nil rest) x) ++ r)
    | o => o
    end.
  Proof.
    intros H. unfold as_kv_go, enc_item. cbn [app as_kv_go_v]. rewrite (len_byte_small x H).
    destruct (Nat.ltb_spec (length (x ++ rest)) (length x)) as [Hlt|Hge]; [rewrite app_length in Hlt; lia|].
    rewrite firstn_app, Nat.sub_diag, firstn_all. cbn [firstn]. rewrite app_nil_r.
    rewrite skipn_app, Nat.sub_diag, skipn_all. reflexivity.
  Qed.

  Fixpoint kv_body (l : list (bytes * bytes)) (first : bool) : bytes :=
    match l with
    | [] => []
    | (k, v) :: tl => (if first then [] else [COMMA]) ++ fld_item quote true first k ++ [EQ] ++
                      fld_item quote false (is_nil tl) v ++ kv_body tl false
    end.

  Lemma as_kv_go_pairs : forall l fuel first,
    length (enc_fields (flat l)) <= fuel -> Forall pair_le255 l ->
    as_kv_go quote fuel (enc_fields (flat l)) true first = Ok (kv_body l first).
  Proof.
    induction l as [|[k v] tl IH]; intros fuel first Hf Hall.
    - destruct fuel; reflexivity.
    - inversion Hall as [|? ? [Hk Hv] Hall']; subst. cbn [fst snd] in Hk, Hv.
      cbn [flat] in *. unfold enc_fields in *. cbn [map concat] in *. fold (enc_fields (flat tl)) in *.
      rewrite !app_length in Hf. unfold enc_item in Hf at 1 2. cbn [length] in Hf.
      destruct fuel as [|fuel]; [lia|]. rewrite (as_kv_item fuel k _ true first Hk).
      destruct fuel as [|fuel]; [lia|]. cbn [negb]. rewrite (as_kv_item fuel v _ false false Hv).
      cbn [negb]. rewrite (IH fuel false ltac:(lia) Hall'). rewrite enc_fields_nil.
      cbn [kv_body]. rewrite <- !app_assoc. reflexivity.
  Qed.

  Definition sepjoin (l : list (bytes * bytes)) : bytes := match l with [] => [] | _ => COMMA :: join_pairs l end.
  Lemma join_cons k r tl : join_pairs ((k, r) :: tl) = k ++ EQ :: r ++ sepjoin tl.
  Proof. destruct tl; [cbn [join_pairs sepjoin]; rewrite app_nil_r|]; reflexivity. Qed.

  Lemma kv_body_sep l : kv_body l false = sepjoin (frender false l).
  Proof.
    induction l as [|[k v] tl IH]; [reflexivity|]. cbn [kv_body frender]. rewrite IH.
    unfold sepjoin at 2. rewrite join_cons. cbn [app]. reflexivity.
  Qed.

  Lemma kv_body_join l : kv_body l true = join_pairs (frender true l).
  Proof.
    destruct l as [|[k v] tl]; [reflexivity|]. cbn [kv_body frender]. rewrite kv_body_sep.
    rewrite join_cons. cbn [app]. reflexivity.
  Qed.

  Lemma as_kv_pairs l : Forall pair_le255 l -> as_kv quote (enc_fields (flat l)) = Ok (join_pairs (frender true l)).
  Proof.
    intros H. unfold as_kv, as_kv_v. fold (as_kv_go quote).
    rewrite (as_kv_go_pairs l _ true (le_n _) H). rewrite kv_body_join. reflexivity.
  Qed.

  (* ---------- NewFieldsFromKVString over rendered pieces ---------- *)
  (* r is a rendering of the stored string x: TrimSpaces leaves it alone, Unquote (if it applies) gives x, x fits *)
  Definition item_ok (x r : bytes) : Prop := trim r = r /\ unq unquote r = Ok x /\ length x <= 255.
  Definition frendered (kv rr : bytes * bytes) : Prop :=
    fst rr <> [] /\ item_ok (fst kv) (fst rr) /\ item_ok (snd kv) (snd rr).

  Lemma fld_items_flat l rl : Forall2 frendered l rl ->
    fld_items unquote (flat rl) true = Ok (enc_fields (flat l)).
  Proof.
    induction 1 as [|[k v] [kr vr] l' rl' (H1 & (H2 & H3 & H4) & (H5 & H6 & H7)) Hall IH]; [reflexivity|].
    cbn [fst snd] in *. unfold fld_items, code_fields_limit_stored in *. cbn [flat fld_items_v negb andb].
    rewrite H2. destruct kr as [|a kr']; [congruence|]. cbn [is_nil andb]. rewrite H3.
    destruct (Nat.ltb_spec 255 (length k)) as [Hlt|_]; [lia|].
    rewrite H5, andb_false_r, H6.
    destruct (Nat.ltb_spec 255 (length v)) as [Hlt|_]; [lia|].
    cbn [negb]. rewrite IH. unfold enc_fields. cbn [map concat]. rewrite <- ?app_assoc. reflexivity.
  Qed.

  Lemma flat_length_even (l : list (bytes * bytes)) : Nat.odd (length (flat l)) = false.
  Proof. induction l as [|[k v] tl IH]; [reflexivity|]. cbn [flat length]. rewrite Nat.odd_succ_succ. exact IH. Qed.

  (* ---------- whatever NewFieldsFromKVString accepts is the binary form of pairs of strings of at most 255 bytes ---------- *)
  Lemma fld_items_wf_n : forall n pcs, length pcs <= n -> Nat.odd (length pcs) = false ->
    forall f, fld_items unquote pcs true = Ok f -> exists l, f = enc_fields (flat l) /\ Forall pair_le255 l.
  Proof.
    induction n as [|n IH]; intros pcs Hn Hodd f H.
    - destruct pcs; [|cbn in Hn; lia]. cbn in H. injection H as <-. exists []. split; [reflexivity|constructor].
    - destruct pcs as [|p [|q tl]].
      + cbn in H. injection H as <-. exists []. split; [reflexivity|constructor].
      + discriminate.
      + cbn [length] in Hn, Hodd. rewrite Nat.odd_succ_succ in Hodd.
        unfold fld_items, code_fields_limit_stored in *. cbn [fld_items_v negb andb] in H.
        destruct (is_nil (trim p) && true); [discriminate|].
        destruct (unq unquote (trim p)) as [k| | |]; try discriminate.
        destruct (Nat.ltb_spec 255 (length k)) as [_|Hk]; [discriminate|].
        rewrite andb_false_r in H.
        destruct (unq unquote (trim q)) as [v| | |]; try discriminate.
        destruct (Nat.ltb_spec 255 (length v)) as [_|Hv]; [discriminate|].
        destruct (fld_items_v true unquote tl true) as [r| | |] eqn:Er; try discriminate.
        injection H as <-. destruct (IH tl ltac:(lia) Hodd r Er) as (l & -> & Hl).
        exists ((k, v) :: l). split.
        * unfold enc_fields. cbn [flat map concat]. rewrite <- ?app_assoc. reflexivity.
        * constructor; [split; assumption|exact Hl].
  Qed.

  Theorem fields_accepted_wf s f : fields_of_kv unquote s = Ok f ->
    exists l, f = enc_fields (flat l) /\ Forall pair_le255 l.
  Proof.
    unfold fields_of_kv, fields_of_kv_v. fold (fld_items unquote). intros H.
    destruct (remove_curly s) as [fine| | |]; try discriminate.
    destruct fine as [|c0 f0]; [injection H as <-; exists []; split; [reflexivity|constructor]|].
    destruct (split_string (c0 :: f0)) as [pcs| | |]; try discriminate.
    destruct (Nat.odd (length pcs)) eqn:Eo; [discriminate|].
    exact (fld_items_wf_n (length pcs) pcs (le_n _) Eo f H).
  Qed.

  Hypothesis QS : QuoteSpec quote unquote.

  (* ---------- one rendered name or value ---------- *)
  Lemma fld_item_ok name edge x : length x <= 255 ->
    let r := fld_item quote name edge x in
    neutral r = true /\ item_ok x r /\ (name = true -> r <> [] /\ first_is SP r = false) /\
    (edge = true -> if name then first_is LBR r = false
                    else last_is SP (EQ :: r) = false /\ last_is RBR (EQ :: r) = false).
  Proof.
    intros Hx. unfold fld_item, fld_item_v, fld_needs_quote_v, code_fields_quote.
    destruct (kv_needs_quote name edge x) eqn:Q; cbn zeta.
    - destruct (quote_facts quote unquote QS x) as (F & L & Hl & N & _).
      assert (Qne : quote x <> []) by (intros E; rewrite E in Hl; cbn in Hl; lia).
      split; [exact N|]. split; [|split].
      + split; [apply (quote_trimmed quote unquote QS)|]. split; [apply (quote_unq quote unquote QS)|exact Hx].
      + intros _. split; [exact Qne|]. exact (first_is_excl QUOTE SP _ ltac:(discriminate) F).
      + intros _. destruct name.
        * exact (first_is_excl QUOTE LBR _ ltac:(discriminate) F).
        * split; rewrite last_is_cons by exact Qne; unfold last_is in *;
            [exact (first_is_excl QUOTE SP _ ltac:(discriminate) L)|exact (first_is_excl QUOTE RBR _ ltac:(discriminate) L)].
    - destruct x as [|c x'].
      + cbn in Q. subst name. split; [reflexivity|]. split; [|split].
        * split; [reflexivity|]. split; [reflexivity|exact Hx].
        * discriminate.
        * intros _. split; reflexivity.
      + unfold kv_needs_quote in Q.
        apply orb_false_iff in Q as [Q Q7]. apply orb_false_iff in Q as [Q Q6]. apply orb_false_iff in Q as [Q Q5].
        apply orb_false_iff in Q as [Q Q4]. apply orb_false_iff in Q as [Q Q3]. apply orb_false_iff in Q as [Q1 Q2].
        assert (T : trimmed (c :: x') = true) by (unfold trimmed; rewrite Q4, Q5; reflexivity).
        split; [exact (plain_neutral _ Q3 Q2 Q1)|]. split; [|split].
        * split; [apply trim_id; exact T|]. split; [|exact Hx].
          unfold unq, starts_quoted. cbn [first_is] in Q6. rewrite Q6.
          unfold has in Q3. cbn [existsb] in Q3. apply orb_false_iff in Q3 as [Q3 _].
          rewrite (byte_eqb_sym c QUOTE), Q3. reflexivity.
        * intros _. split; [discriminate|exact Q4].
        * intros ->. cbn [andb] in Q7. destruct name; [exact Q7|].
          split; rewrite last_is_cons by discriminate; [exact Q5|exact Q7].
  Qed.

  Lemma frender_pieces first l : Forall pair_le255 l ->
    Forall rpiece_ok (frender first l) /\ Forall2 frendered l (frender first l).
  Proof.
    revert first. induction l as [|[k v] tl IH]; intros first H; [split; constructor|].
    inversion H as [|? ? [Hk Hv] H']; subst. cbn [fst snd] in Hk, Hv. destruct (IH false H') as (I1 & I2).
    destruct (fld_item_ok true first k Hk) as (N1 & O1 & E1 & _). destruct (E1 eq_refl) as (Ne & _).
    destruct (fld_item_ok false (is_nil tl) v Hv) as (N2 & O2 & _).
    cbn [frender]. split; constructor; try assumption.
    - unfold rpiece_ok. cbn [fst snd]. split; [exact Ne|split; [exact N1|exact N2]].
    - unfold frendered. cbn [fst snd]. split; [exact Ne|split; [exact O1|exact O2]].
  Qed.

  Lemma frender_last : forall l first k v,
    exists rl' kr, frender first (l ++ [(k, v)]) = rl' ++ [(kr, fld_item quote false true v)].
  Proof.
    induction l as [|[a b] l IH]; intros first k v.
    - exists [], (fld_item quote true first k). reflexivity.
    - destruct (IH false k v) as (rl' & kr & E). cbn [app frender]. rewrite E.
      eexists (_ :: rl'), kr. reflexivity.
  Qed.

  (* ---------- C08 (fields): print then parse is the identity on every list of pairs of strings that fit ---------- *)
  Theorem fields_roundtrip_pairs l : Forall pair_le255 l ->
    as_kv quote (enc_fields (flat l)) = Ok (join_pairs (frender true l)) /\
    fields_of_kv unquote (join_pairs (frender true l)) = Ok (enc_fields (flat l)).
  Proof.
    intros Hall. split; [exact (as_kv_pairs l Hall)|].
    destruct l as [|[k1 v1] tl] eqn:El; [reflexivity|]. rewrite <- El in *.
    destruct (exists_last (l := l)) as (l' & [kl vl] & El2); [rewrite El; discriminate|].
    destruct (frender_pieces true l Hall) as (Hrp & Hr2).
    assert (Hk1 : length k1 <= 255).
    { rewrite El in Hall. inversion Hall as [|? ? [H _] _]; subst. exact H. }
    assert (Hvl : length vl <= 255).
    { rewrite El2 in Hall. apply Forall_app in Hall as [_ Hall]. inversion Hall as [|? ? [_ H] _]; subst. exact H. }
    destruct (fld_item_ok true true k1 Hk1) as (_ & _ & E1 & E2). destruct (E1 eq_refl) as (_ & Hsp). specialize (E2 eq_refl).
    destruct (fld_item_ok false true vl Hvl) as (_ & _ & _ & E3). destruct (E3 eq_refl) as (Hlsp & Hlrbr).
    destruct (frender_last l' true kl vl) as (rl' & kr & Erl). rewrite <- El2 in Erl.
    destruct (pieces_join (frender true l) (fld_item quote true true k1) (fld_item quote false (is_nil tl) v1)
                (frender false tl) rl' (kr, fld_item quote false true vl)) as (Hrc & Hsplit & Hne).
    - rewrite El. reflexivity.
    - exact Erl.
    - exact Hrp.
    - exact Hsp.
    - exact E2.
    - exact Hlsp.
    - exact Hlrbr.
    - unfold fields_of_kv, fields_of_kv_v. fold (fld_items unquote). rewrite Hrc.
      destruct (join_pairs (frender true l)) as [|c0 r0] eqn:Ej; [congruence|]. rewrite Hsplit.
      rewrite flat_length_even. exact (fld_items_flat l (frender true l) Hr2).
  Qed.

  Theorem fields_roundtrip f : fields_wf f = true ->
    exists t, as_kv quote f = Ok t /\ fields_of_kv unquote t = Ok f.
  Proof.
    unfold fields_wf, dec_fields. intros H.
    destruct (dec_fields_go (length f) f) as [items|] eqn:Ed; [|discriminate].
    destruct (pairs_up items) as [l|] eqn:Ep; [|discriminate].
    destruct (dec_fields_go_enc _ _ _ Ed) as (E & F). rewrite (pairs_up_flat _ _ Ep) in E, F. subst f.
    assert (Hall : Forall pair_le255 l).
    { clear -F. induction l as [|[k v] tl IH]; [constructor|]. cbn [flat] in F.
      inversion F as [|? ? Hk F']; subst. inversion F' as [|? ? Hv F'']; subst.
      constructor; [split; assumption|exact (IH F'')]. }
    destruct (fields_roundtrip_pairs l Hall) as (H1 & H2). eexists. split; [exact H1|exact H2].
  Qed.

  (* the full statement: whatever text was accepted, the text printed for its list is accepted and denotes it *)
  Theorem fields_law s f : fields_of_kv unquote s = Ok f ->
    exists t, as_kv quote f = Ok t /\ fields_of_kv unquote t = Ok f.
  Proof.
    intros H. destruct (fields_accepted_wf s f H) as (l & -> & Hall).
    destruct (fields_roundtrip_pairs l Hall) as (H1 & H2). eexists. split; [exact H1|exact H2].
  Qed.

  (* ---------- the pipe worker: field.Parse of a source tag line ---------- *)
  Definition prov_pair_ok (kv : bytes * bytes) : bool :=
    negb (starts_quoted (fst kv)) && le255 (fst kv) && le255 (snd kv).

  Lemma render_frendered m : tag_pairs_safe m = true -> forallb prov_pair_ok m = true ->
    Forall2 frendered m (render quote m).
  Proof.
    induction m as [|[k v] tl IH]; intros H P; [constructor|].
    cbn [tag_pairs_safe] in H. apply andb_true_iff in H as [H Htl]. apply andb_true_iff in H as [Hn Hv].
    cbn [forallb] in P. apply andb_true_iff in P as [P Ptl]. unfold prov_pair_ok in P. cbn [fst snd] in P.
    apply andb_true_iff in P as [P P3]. apply andb_true_iff in P as [P1 P2].
    apply negb_true_iff in P1. apply Nat.leb_le in P2. apply Nat.leb_le in P3.
    destruct (name_facts k Hn) as (N1 & N2 & N3).
    destruct (tag_val_ok quote unquote QS (is_nil tl) v Hv) as (V1 & V2 & V3 & _).
    unfold render in *. cbn [render_v]. fold (tag_val quote (is_nil tl) v). constructor; [|exact (IH Htl Ptl)].
    unfold frendered, item_ok. cbn [fst snd]. repeat split; try assumption.
    - apply trim_id. exact N2.
    - unfold unq. rewrite P1. reflexivity.
  Qed.

  Theorem provenance m : keys_sorted m = true -> tag_safe m = true -> forallb prov_pair_ok m = true ->
    fields_of_kv unquote (line quote m) = Ok (enc_fields (flat m)).
  Proof.
    intros Hs Hsafe Hprov. rewrite (line_print quote m Hs).
    destruct m as [|kv1 tl] eqn:Em; [reflexivity|]. rewrite <- Em in *.
    destruct (line_pieces quote unquote QS m Hsafe ltac:(rewrite Em; discriminate)) as (Hrc & Hsp & Hne).
    unfold tag_safe in Hsafe. apply andb_true_iff in Hsafe as [Hall _].
    unfold fields_of_kv, fields_of_kv_v. fold (fld_items unquote). rewrite Hrc.
    destruct (print_tags quote m) as [|c0 r0] eqn:Ej; [congruence|]. rewrite Hsp.
    rewrite flat_length_even. exact (fld_items_flat m (render quote m) (render_frendered m Hall Hprov)).
  Qed.

  (* ---------- the destination of a pipe: own fields ++ provenance fields, and the text emitted for them ---------- *)
  Lemma flat_app (a b : list (bytes * bytes)) : flat (a ++ b) = flat a ++ flat b.
  Proof. induction a as [|[k v] a IH]; [reflexivity|]. cbn [app flat]. rewrite IH. reflexivity. Qed.
  Lemma enc_fields_app a b : enc_fields (a ++ b) = enc_fields a ++ enc_fields b.
  Proof. unfold enc_fields. rewrite map_app, concat_app. reflexivity. Qed.

  Lemma prov_le255 m : forallb prov_pair_ok m = true -> Forall pair_le255 m.
  Proof.
    induction m as [|[k v] tl IH]; intros H; [constructor|]. cbn [forallb] in H. apply andb_true_iff in H as [H Htl].
    unfold prov_pair_ok in H. cbn [fst snd] in H. apply andb_true_iff in H as [H H3]. apply andb_true_iff in H as [_ H2].
    constructor; [split; cbn [fst snd]; apply Nat.leb_le; assumption|exact (IH Htl)].
  Qed.

  Theorem pipe_destination m lo : keys_sorted m = true -> tag_safe m = true -> forallb prov_pair_ok m = true ->
    Forall pair_le255 lo ->
    let own := enc_fields (flat lo) in
    pipe_fields quote unquote own m = enc_fields (flat (lo ++ m)) /\
    exists t, as_kv quote (pipe_fields quote unquote own m) = Ok t /\ fields_of_kv unquote t = Ok (enc_fields (flat (lo ++ m))).
  Proof.
    intros Hs Hsafe Hprov Hlo own.
    assert (E : pipe_fields quote unquote own m = enc_fields (flat (lo ++ m))).
    { unfold pipe_fields, field_parse. rewrite (provenance m Hs Hsafe Hprov). unfold own.
      rewrite flat_app, enc_fields_app. reflexivity. }
    split; [exact E|]. rewrite E.
    assert (Hall : Forall pair_le255 (lo ++ m)) by (apply Forall_app; split; [exact Hlo|exact (prov_le255 m Hprov)]).
    destruct (fields_roundtrip_pairs (lo ++ m) Hall) as (H1 & H2). eexists. split; [exact H1|exact H2].
  Qed.

  (* ---------- the {vars} element of the formatter: tag line, ',' and the field text ---------- *)
  Lemma join_pairs_app (a b : list (bytes * bytes)) : a <> [] -> b <> [] ->
    join_pairs (a ++ b) = join_pairs a ++ COMMA :: join_pairs b.
  Proof.
    induction a as [|[k r] a IH]; intros Ha Hb; [congruence|].
    destruct a as [|kv2 a'].
    - cbn [app]. destruct b as [|kv b']; [congruence|]. cbn [join_pairs]. rewrite <- app_assoc. reflexivity.
    - change (((k, r) :: kv2 :: a') ++ b) with ((k, r) :: (kv2 :: a') ++ b).
      rewrite (join_cons k r ((kv2 :: a') ++ b)), (join_cons k r (kv2 :: a')).
      pose proof (IH ltac:(discriminate) Hb) as E. unfold sepjoin. cbn [app] in E |- *. rewrite E.
      rewrite <- app_assoc. cbn [app]. rewrite <- app_assoc. reflexivity.
  Qed.

  Theorem vars_roundtrip m lo : keys_sorted m = true -> tag_safe m = true -> forallb prov_pair_ok m = true ->
    m <> [] -> Forall pair_le255 lo ->
    exists t, vars_text quote (line quote m) (enc_fields (flat lo)) = Ok t /\
              fields_of_kv unquote t = Ok (enc_fields (flat (m ++ lo))).
  Proof.
    intros Hs Hsafe Hprov Hne Hlo.
    destruct lo as [|[kf vf] lo0] eqn:Elo.
    { exists (line quote m). split; [reflexivity|]. rewrite app_nil_r. exact (provenance m Hs Hsafe Hprov). }
    rewrite <- Elo in *. assert (Hlone : lo <> []) by (rewrite Elo; discriminate).
    assert (Hfne : enc_fields (flat lo) <> []) by (rewrite Elo; discriminate).
    unfold vars_text. destruct (enc_fields (flat lo)) as [|c0 f0] eqn:Ef; [congruence|]. rewrite <- Ef.
    rewrite (as_kv_pairs lo Hlo). eexists. split; [reflexivity|].
    rewrite (line_print quote m Hs). change (print_tags quote m) with (join_pairs (render quote m)).
    unfold tag_safe in Hsafe. apply andb_true_iff in Hsafe as [Hall Hedge].
    destruct (render_pieces quote unquote QS m Hall) as (Hrp1 & _).
    destruct (frender_pieces true lo Hlo) as (Hrp2 & Hr2).
    destruct m as [|[k1 v1] tlm] eqn:Em; [congruence|]. rewrite <- Em in *.
    assert (Hn1 : name_ok k1 = true).
    { rewrite Em in Hall. cbn [tag_pairs_safe] in Hall. apply andb_true_iff in Hall as [Hall _].
      apply andb_true_iff in Hall as [Hall _]. exact Hall. }
    destruct (name_facts k1 Hn1) as (_ & Ht1 & _).
    rewrite Em in Hedge. cbn [tag_edges_ok] in Hedge. apply negb_true_iff in Hedge.
    destruct (exists_last (l := lo) Hlone) as (lo' & [kl vl] & Elo2).
    assert (Hvl : length vl <= 255).
    { rewrite Elo2 in Hlo. apply Forall_app in Hlo as [_ Hlo]. inversion Hlo as [|? ? [_ H] _]; subst. exact H. }
    destruct (fld_item_ok false true vl Hvl) as (_ & _ & _ & E3). destruct (E3 eq_refl) as (Hlsp & Hlrbr).
    destruct (frender_last lo' true kl vl) as (rl' & kr & Erl). rewrite <- Elo2 in Erl.
    assert (Rne : render quote m <> []) by (rewrite Em; discriminate).
    assert (Fne : frender true lo <> []) by (rewrite Elo; discriminate).
    rewrite <- (join_pairs_app (render quote m) (frender true lo) Rne Fne).
    set (rl := render quote m ++ frender true lo).
    destruct (pieces_join rl k1 (tag_val quote (is_nil tlm) v1) (render quote tlm ++ frender true lo)
                (render quote m ++ rl') (kr, fld_item quote false true vl)) as (Hrc & Hsplit & Hjne).
    - unfold rl. rewrite Em. reflexivity.
    - unfold rl. rewrite Erl, app_assoc. reflexivity.
    - unfold rl. apply Forall_app. split; assumption.
    - apply (trimmed_ends _ Ht1).
    - exact Hedge.
    - exact Hlsp.
    - exact Hlrbr.
    - unfold fields_of_kv, fields_of_kv_v. fold (fld_items unquote). rewrite Hrc.
      destruct (join_pairs rl) as [|c1 r1] eqn:Ej; [congruence|]. rewrite Hsplit.
      rewrite flat_length_even. apply (fld_items_flat (m ++ lo) rl).
      unfold rl. apply Forall2_app; [exact (render_frendered m Hall Hprov)|exact Hr2].
  Qed.
End Law.
