(* Lemmas about model/Fields.v: binary encoding/decoding of field lists, AsKVString on encoded lists,
   the print/parse law of field texts on safe lists. *)
From LR Require Import lib.Base model.KV model.Tags model.Fields proofs.KVP proofs.TagsP.
From Coq Require Import Sorting.Sorted Permutation.

(* ---------- byte(len(v)) ---------- *)
Lemma len_byte_small v : length v <= 255 -> N.to_nat (Byte.to_N (len_byte v)) = length v.
Proof.
  intros H. unfold len_byte.
  assert (E : (N.of_nat (length v) mod 256 = N.of_nat (length v))%N) by (apply N.mod_small; lia).
  rewrite E. destruct (Byte.of_N (N.of_nat (length v))) as [b|] eqn:Eb.
  - rewrite (Byte.to_of_N _ Eb). apply Nat2N.id.
  - apply Byte.of_N_None_iff in Eb. lia.
Qed.

Lemma len_byte_of c (tl : bytes) : N.to_nat (Byte.to_N c) <= length tl ->
  len_byte (firstn (N.to_nat (Byte.to_N c)) tl) = c.
Proof.
  intros H. unfold len_byte. rewrite firstn_length_le by exact H. rewrite N2Nat.id.
  pose proof (Byte.to_N_bounded c) as B. rewrite N.mod_small by lia. rewrite Byte.of_to_N. reflexivity.
Qed.

(* ---------- decoding gives back an encoding ---------- *)
Lemma dec_fields_go_enc : forall fuel f items, dec_fields_go fuel f = Some items ->
  f = enc_fields items /\ Forall (fun v => length v <= 255) items.
Proof.
  induction fuel as [|fuel IH]; intros f items H.
  - destruct f; cbn in H; [injection H as <-; split; [reflexivity|constructor]|discriminate].
  - destruct f as [|c tl]; cbn [dec_fields_go] in H; [injection H as <-; split; [reflexivity|constructor]|].
    destruct (Nat.ltb_spec (length tl) (N.to_nat (Byte.to_N c))) as [Hlt|Hge]; [discriminate|].
    destruct (dec_fields_go fuel (skipn (N.to_nat (Byte.to_N c)) tl)) as [r|] eqn:Er; [|discriminate].
    injection H as <-. destruct (IH _ _ Er) as (E & F). split.
    + unfold enc_fields. cbn [map concat]. fold (enc_fields r). rewrite <- E. unfold enc_item.
      rewrite (len_byte_of c tl Hge). cbn [app]. rewrite firstn_skipn. reflexivity.
    + constructor; [|exact F]. rewrite firstn_length_le by exact Hge.
      pose proof (Byte.to_N_bounded c). lia.
Qed.

Lemma pairs_up_flat_n : forall n items, length items <= n -> forall l, pairs_up items = Some l -> items = flat l.
Proof.
  induction n as [|n IH]; intros items Hn l E.
  - destruct items; [|cbn in Hn; lia]. cbn in E. injection E as <-. reflexivity.
  - destruct items as [|k [|v tl]].
    + cbn in E. injection E as <-. reflexivity.
    + discriminate.
    + cbn [pairs_up] in E. destruct (pairs_up tl) as [r|] eqn:Er; [|discriminate].
      injection E as <-. cbn [flat]. f_equal. f_equal. apply IH; [cbn in Hn; lia|exact Er].
Qed.
Lemma pairs_up_flat items l : pairs_up items = Some l -> items = flat l.
Proof. apply (pairs_up_flat_n (length items) items (le_n _)). Qed.

Section Law.
  Variable quote : bytes -> bytes.
  Variable unquote : bytes -> option bytes.

  Definition fr (kv : bytes * bytes) : bytes * bytes := (fst kv, fld_val quote (snd kv)).

  (* ---------- AsKVString over an encoded list ---------- *)
  Lemma as_kv_item fuel x rest even first : length x <= 255 ->
    as_kv_go quote (S fuel) (enc_item x ++ rest) even first =
    match as_kv_go quote fuel rest (negb even) false with
    | Ok r => Ok ((if even then (if first then [] else [COMMA]) ++ x ++ [EQ] else fld_val quote x) ++ r)
    | o => o
    end.
  Proof.
    intros H. unfold enc_item. cbn [app as_kv_go]. rewrite (len_byte_small x H).
    destruct (Nat.ltb_spec (length (x ++ rest)) (length x)) as [Hlt|Hge]; [rewrite app_length in Hlt; lia|].
    rewrite firstn_app, Nat.sub_diag, firstn_all. cbn [firstn]. rewrite app_nil_r.
    rewrite skipn_app, Nat.sub_diag, skipn_all. reflexivity.
  Qed.

  Fixpoint kv_body (l : list (bytes * bytes)) (first : bool) : bytes :=
    match l with
    | [] => []
    | (k, v) :: tl => (if first then [] else [COMMA]) ++ k ++ [EQ] ++ fld_val quote v ++ kv_body tl false
    end.

  Lemma as_kv_go_pairs : forall l fuel first,
    length (enc_fields (flat l)) <= fuel -> Forall (fun kv => length (fst kv) <= 255 /\ length (snd kv) <= 255) l ->
    as_kv_go quote fuel (enc_fields (flat l)) true first = Ok (kv_body l first).
  Proof.
    induction l as [|[k v] tl IH]; intros fuel first Hf Hall.
    - destruct fuel; reflexivity.
    - inversion Hall as [|? ? [Hk Hv] Hall']; subst. cbn [fst snd] in Hk, Hv.
      cbn [flat] in *. unfold enc_fields in *. cbn [map concat] in *. fold (enc_fields (flat tl)) in *.
      rewrite !app_length in Hf. unfold enc_item in Hf at 1 2. cbn [length] in Hf.
      destruct fuel as [|fuel]; [lia|]. rewrite (as_kv_item fuel k _ true first Hk).
      destruct fuel as [|fuel]; [lia|]. cbn [negb]. rewrite (as_kv_item fuel v _ false false Hv).
      cbn [negb]. rewrite (IH fuel false ltac:(lia) Hall'). cbn [kv_body]. rewrite <- !app_assoc. reflexivity.
  Qed.

  Definition sepjoin (l : list (bytes * bytes)) : bytes := match l with [] => [] | _ => COMMA :: join_pairs l end.
  Lemma join_cons k r tl : join_pairs ((k, r) :: tl) = k ++ EQ :: r ++ sepjoin tl.
  Proof. destruct tl; [cbn [join_pairs sepjoin]; rewrite app_nil_r|]; reflexivity. Qed.

  Lemma kv_body_sep l : kv_body l false = sepjoin (map fr l).
  Proof.
    induction l as [|[k v] tl IH]; [reflexivity|]. cbn [kv_body]. rewrite IH.
    change (map fr ((k, v) :: tl)) with ((k, fld_val quote v) :: map fr tl).
    unfold sepjoin at 2. rewrite join_cons. cbn [app]. reflexivity.
  Qed.

  Lemma kv_body_join l : kv_body l true = join_pairs (map fr l).
  Proof.
    destruct l as [|[k v] tl]; [reflexivity|]. cbn [kv_body]. rewrite kv_body_sep.
    change (map fr ((k, v) :: tl)) with ((k, fld_val quote v) :: map fr tl).
    rewrite join_cons. cbn [app]. reflexivity.
  Qed.

  Lemma as_kv_pairs l : Forall (fun kv => length (fst kv) <= 255 /\ length (snd kv) <= 255) l ->
    as_kv quote (enc_fields (flat l)) = Ok (join_pairs (map fr l)).
  Proof. intros H. unfold as_kv. rewrite (as_kv_go_pairs l _ true (le_n _) H). rewrite kv_body_join. reflexivity. Qed.

  (* ---------- NewFieldsFromKVString over the rendered pieces ---------- *)
  Definition fpiece_ok (rv : bytes -> bytes) (kv : bytes * bytes) : Prop :=
    let r := rv (snd kv) in
    fst kv <> [] /\ length (fst kv) <= 255 /\ trim (fst kv) = fst kv /\ unq unquote (fst kv) = Ok (fst kv) /\
    length r <= 255 /\ trim r = r /\ unq unquote r = Ok (snd kv).

  Lemma fld_items_flat rv l : Forall (fpiece_ok rv) l ->
    fld_items unquote (flat (map (fun kv => (fst kv, rv (snd kv))) l)) true = Ok (enc_fields (flat l)).
  Proof.
    induction 1 as [|[k v] tl (H1 & H2 & H3 & H4 & H5 & H6 & H7) Hall IH]; [reflexivity|].
    cbn [fst snd] in *. cbn [map fst snd flat fld_items].
    destruct (Nat.ltb_spec 255 (length k)) as [Hlt|_]; [lia|]. rewrite H3.
    destruct k as [|a k']; [congruence|]. cbn [is_nil andb]. rewrite H4. cbn [negb].
    destruct (Nat.ltb_spec 255 (length (rv v))) as [Hlt|_]; [lia|]. rewrite H6, andb_false_r, H7.
    cbn [negb]. rewrite IH. unfold enc_fields. cbn [map concat]. rewrite <- ?app_assoc. reflexivity.
  Qed.

  Lemma flat_length_even (l : list (bytes * bytes)) : Nat.odd (length (flat l)) = false.
  Proof. induction l as [|[k v] tl IH]; [reflexivity|]. cbn [flat length]. rewrite Nat.odd_succ_succ. exact IH. Qed.

  Hypothesis QS : QuoteSpec quote unquote.

  Lemma fld_val_ok v : fvalue_safe quote v = true ->
    let r := fld_val quote v in
    length v <= 255 /\ neutral r = true /\ trimmed r = true /\ length r <= 255 /\ unq unquote r = Ok v /\
    (fld_needs_quote v = true -> last_is RBR r = false /\ r <> []).
  Proof.
    unfold fvalue_safe, fld_val. intros H. apply andb_true_iff in H as [Hv H]. apply Nat.leb_le in Hv.
    destruct (fld_needs_quote v) eqn:Q.
    - destruct (quote_facts quote unquote QS v) as (F & L & Hl & N & _).
      repeat split.
      + exact Hv.
      + exact N.
      + unfold trimmed. rewrite (first_is_excl QUOTE SP _ ltac:(discriminate) F). unfold last_is in *.
        rewrite (first_is_excl QUOTE SP _ ltac:(discriminate) L). reflexivity.
      + apply Nat.leb_le. exact H.
      + apply (quote_unq quote unquote QS).
      + unfold last_is in *. exact (first_is_excl QUOTE RBR _ ltac:(discriminate) L).
      + intros E. rewrite E in Hl. cbn in Hl. lia.
    - unfold raw_value_ok in H. apply andb_true_iff in H as [H Hq].
      apply andb_true_iff in H as [Ht Hn]. repeat split; try assumption.
      + unfold unq. apply negb_true_iff in Hq. rewrite Hq. reflexivity.
      + discriminate.
      + discriminate.
  Qed.

  (* ---------- C08 (fields): print then parse is the identity on safe field lists ---------- *)
  Theorem fields_roundtrip_pairs l : fpairs_safe quote l = true ->
    as_kv quote (enc_fields (flat l)) = Ok (join_pairs (map fr l)) /\
    fields_of_kv unquote (join_pairs (map fr l)) = Ok (enc_fields (flat l)).
  Proof.
    intros Hsafe. unfold fpairs_safe in Hsafe. apply andb_true_iff in Hsafe as [Hall Hedge].
    rewrite forallb_forall in Hall.
    assert (Hpairs : forall kv, In kv l -> fname_ok (fst kv) = true /\ fvalue_safe quote (snd kv) = true).
    { intros kv I. specialize (Hall _ I). unfold fpair_safe in Hall. apply andb_true_iff in Hall. exact Hall. }
    assert (Hname : forall k, fname_ok k = true ->
              k <> [] /\ trimmed k = true /\ neutral k = true /\ starts_quoted k = false /\ length k <= 255).
    { intros k H. unfold fname_ok in H. apply andb_true_iff in H as [H H5]. apply andb_true_iff in H as [H H4].
      unfold name_ok in H. apply andb_true_iff in H as [H H3]. apply andb_true_iff in H as [H1 H2].
      repeat split; try assumption.
      - destruct k; [discriminate|discriminate].
      - apply negb_true_iff. exact H4.
      - apply Nat.leb_le. exact H5. }
    split.
    { apply as_kv_pairs. rewrite Forall_forall. intros kv I. destruct (Hpairs _ I) as (Hn & Hv).
      destruct (Hname _ Hn) as (_ & _ & _ & _ & Hk). split; [exact Hk|].
      destruct (fld_val_ok _ Hv) as (H & _). exact H. }
    destruct l as [|[k1 v1] tl] eqn:El; [reflexivity|]. rewrite <- El in *.
    destruct (exists_last (l := l)) as (l' & [kl vl] & El2); [rewrite El; discriminate|].
    assert (I1 : In (k1, v1) l) by (rewrite El; left; reflexivity).
    assert (Il : In (kl, vl) l) by (rewrite El2; apply in_or_app; right; left; reflexivity).
    destruct (Hpairs _ I1) as (Hn1 & _). destruct (Hname _ Hn1) as (_ & Ht1 & _). cbn [fst] in *.
    destruct (Hpairs _ Il) as (_ & Hvl). cbn [snd] in Hvl.
    rewrite El in Hedge. cbn [fld_edges_ok] in Hedge. rewrite <- El in Hedge. rewrite El2 in Hedge. rewrite last_last in Hedge.
    cbn [snd] in Hedge. apply andb_true_iff in Hedge as [He1 He2]. apply negb_true_iff in He1.
    destruct (fld_val_ok vl Hvl) as (_ & _ & Htl & _ & _ & Hql).
    destruct (pieces_join (map fr l) k1 (fld_val quote v1) (map fr tl) (map fr l') (fr (kl, vl))) as (Hrc & Hsp & Hne).
    - rewrite El. reflexivity.
    - rewrite El2, map_app. reflexivity.
    - rewrite Forall_forall. intros kv I. apply in_map_iff in I as (kv0 & <- & I0).
      destruct (Hpairs _ I0) as (Hn & Hv). destruct (Hname _ Hn) as (H1 & _ & H3 & _).
      destruct (fld_val_ok _ Hv) as (_ & H4 & _). unfold rpiece_ok, fr. cbn [fst snd]. repeat split; assumption.
    - apply (trimmed_ends _ Ht1).
    - exact He1.
    - unfold fr. cbn [fst snd]. destruct (fld_val quote vl) as [|c0 r0] eqn:Er; [reflexivity|].
      rewrite last_is_cons by discriminate. apply (trimmed_ends _ Htl).
    - unfold fr. cbn [fst snd]. destruct (fld_val quote vl) as [|c0 r0] eqn:Er; [reflexivity|].
      rewrite last_is_cons by discriminate.
      destruct (fld_needs_quote vl) eqn:Q; [apply (Hql eq_refl)|].
      cbn [orb] in He2. apply negb_true_iff in He2. unfold fld_val in Er. rewrite Q in Er. rewrite <- Er. exact He2.
    - unfold fields_of_kv. rewrite Hrc.
      destruct (join_pairs (map fr l)) as [|c0 r0] eqn:Ej; [congruence|]. rewrite Hsp.
      rewrite flat_length_even. apply (fld_items_flat (fld_val quote)).
      rewrite Forall_forall. intros kv I. destruct (Hpairs _ I) as (Hn & Hv).
      destruct (Hname _ Hn) as (H1 & H2 & _ & H4 & H5). destruct (fld_val_ok _ Hv) as (_ & _ & H7 & H8 & H9 & _).
      unfold fpiece_ok. cbn zeta. repeat split; try assumption.
      + apply trim_id. exact H2.
      + unfold unq. rewrite H4. reflexivity.
      + apply trim_id. exact H7.
  Qed.

  (* ---------- the pipe worker: field.Parse of a source tag line ---------- *)
  Definition prov_pair_ok (kv : bytes * bytes) : bool :=
    negb (starts_quoted (fst kv)) && le255 (fst kv) && le255 (tag_val quote (snd kv)).

  Theorem provenance m : keys_sorted m = true -> tag_safe m = true -> forallb prov_pair_ok m = true ->
    fields_of_kv unquote (line quote m) = Ok (enc_fields (flat m)).
  Proof.
    intros Hs Hsafe Hprov. rewrite (line_print quote m Hs). unfold tag_safe in Hsafe.
    apply andb_true_iff in Hsafe as [Hall Hedge]. rewrite forallb_forall in Hall, Hprov.
    destruct m as [|[k1 v1] tl] eqn:Em; [reflexivity|]. rewrite <- Em in *.
    destruct (exists_last (l := m)) as (m' & [kl vl] & Em2); [rewrite Em; discriminate|].
    set (f := fun kv : bytes * bytes => (fst kv, tag_val quote (snd kv))).
    assert (Hpairs : forall kv, In kv m -> name_ok (fst kv) = true /\ tag_value_safe (snd kv) = true).
    { intros kv I. specialize (Hall _ I). unfold tag_pair_safe in Hall. apply andb_true_iff in Hall. exact Hall. }
    assert (Hname : forall k, name_ok k = true -> k <> [] /\ trimmed k = true /\ neutral k = true).
    { intros k H. unfold name_ok in H. apply andb_true_iff in H as [H H3]. apply andb_true_iff in H as [H1 H2].
      repeat split; try assumption. destruct k; [discriminate|discriminate]. }
    assert (I1 : In (k1, v1) m) by (rewrite Em; left; reflexivity).
    assert (Il : In (kl, vl) m) by (rewrite Em2; apply in_or_app; right; left; reflexivity).
    destruct (Hpairs _ I1) as (Hn1 & _). destruct (Hname _ Hn1) as (_ & Ht1 & _). cbn [fst] in *.
    destruct (Hpairs _ Il) as (_ & Hvl). cbn [snd] in Hvl.
    rewrite Em in Hedge. cbn [tag_edges_ok] in Hedge. rewrite <- Em in Hedge. rewrite Em2 in Hedge. rewrite last_last in Hedge.
    cbn [snd] in Hedge. apply andb_true_iff in Hedge as [He1 He2]. apply negb_true_iff in He1.
    destruct (tag_val_ok quote unquote QS vl Hvl) as (_ & Htl & _ & Hnel).
    assert (T : forall v, tag_value_safe v = true -> trimmed (tag_val quote v) = true).
    { intros v Hv. unfold tag_value_safe in Hv. unfold tag_val. destruct (tag_needs_quote v) eqn:Q.
      - destruct (quote_facts quote unquote QS v) as (F & L & _). unfold trimmed.
        rewrite (first_is_excl QUOTE SP _ ltac:(discriminate) F). unfold last_is in *.
        rewrite (first_is_excl QUOTE SP _ ltac:(discriminate) L). reflexivity.
      - cbn [orb] in Hv. unfold raw_value_ok in Hv. apply andb_true_iff in Hv as [Hv _].
        apply andb_true_iff in Hv as [Hv _]. exact Hv. }
    destruct (pieces_join (map f m) k1 (tag_val quote v1) (map f tl) (map f m') (f (kl, vl))) as (Hrc & Hsp & Hne).
    - rewrite Em. reflexivity.
    - rewrite Em2, map_app. reflexivity.
    - rewrite Forall_forall. intros kv I. apply in_map_iff in I as (kv0 & <- & I0).
      destruct (Hpairs _ I0) as (Hn & Hv). destruct (Hname _ Hn) as (H1 & _ & H3).
      destruct (tag_val_ok quote unquote QS _ Hv) as (H4 & _). unfold rpiece_ok, f. cbn [fst snd]. repeat split; assumption.
    - apply (trimmed_ends _ Ht1).
    - exact He1.
    - unfold f. cbn [fst snd]. rewrite last_is_cons by exact Hnel. apply (trimmed_ends _ (T _ Hvl)).
    - unfold f. cbn [fst snd]. rewrite last_is_cons by exact Hnel.
      destruct (tag_needs_quote vl) eqn:Q; [apply (tag_val_last_rbr quote unquote QS); exact Q|].
      cbn [orb] in He2. apply negb_true_iff in He2. unfold tag_val. rewrite Q. exact He2.
    - unfold fields_of_kv, print_tags. fold f. rewrite Hrc.
      destruct (join_pairs (map f m)) as [|c0 r0] eqn:Ej; [congruence|]. rewrite Hsp.
      rewrite flat_length_even. unfold f. apply (fld_items_flat (tag_val quote)).
      rewrite Forall_forall. intros kv I. destruct (Hpairs _ I) as (Hn & Hv). destruct (Hname _ Hn) as (H1 & H2 & _).
      destruct (tag_val_ok quote unquote QS _ Hv) as (_ & H5 & H6 & _).
      specialize (Hprov _ I). unfold prov_pair_ok in Hprov. apply andb_true_iff in Hprov as [Hp P3].
      apply andb_true_iff in Hp as [P1 P2]. apply negb_true_iff in P1. apply Nat.leb_le in P2. apply Nat.leb_le in P3.
      unfold fpiece_ok. cbn zeta. repeat split; try assumption.
      + apply trim_id. exact H2.
      + unfold unq. rewrite P1. reflexivity.
  Qed.

  Theorem fields_roundtrip f : fields_safe quote f = true ->
    exists t, as_kv quote f = Ok t /\ fields_of_kv unquote t = Ok f.
  Proof.
    unfold fields_safe, dec_fields. intros H.
    destruct (dec_fields_go (length f) f) as [items|] eqn:Ed; [|discriminate].
    destruct (pairs_up items) as [l|] eqn:Ep; [|discriminate].
    destruct (dec_fields_go_enc _ _ _ Ed) as (E & _). rewrite (pairs_up_flat _ _ Ep) in E. subst f.
    destruct (fields_roundtrip_pairs l H) as (H1 & H2). eexists. split; [exact H1|exact H2].
  Qed.
End Law.
