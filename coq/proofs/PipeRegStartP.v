(* Lemmas about ensurePipe(p, changeOk = true) and ensurePipesAtStart (model/PipeReg.v) *)
From LR Require Import lib.Base model.PipeReg proofs.PipeRegP.
From Coq Require Import Permutation.

Lemma ensure_c_false_go fuel r p v : ensure_c_go false fuel r p v = ensure_go fuel r p v.
Proof.
  revert r. induction fuel as [|f IH]; intros r; cbn [ensure_c_go ensure_go]; [reflexivity|].
  destruct (lookup r (p_name p)); [reflexivity|apply IH].
Qed.

Lemma ensure_c_false r p v : ensure_c false r p v = ensure r p v.
Proof. apply ensure_c_false_go. Qed.

Definition same_def (q p : pipe) : Prop := p_from q = p_from p /\ p_where q = p_where p.

Lemma differs_false q p : same_def q p ->
  negb (bytes_eqb (p_where q) (p_where p)) || negb (bytes_eqb (p_from q) (p_from p)) = false.
Proof. intros [Hf Hw]. rewrite Hf, Hw, !bytes_eqb_refl. reflexivity. Qed.

Lemma differs_true q p : ~ same_def q p ->
  negb (bytes_eqb (p_where q) (p_where p)) || negb (bytes_eqb (p_from q) (p_from p)) = true.
Proof.
  intros Hd. destruct (bytes_eqb (p_where q) (p_where p)) eqn:E1; destruct (bytes_eqb (p_from q) (p_from p)) eqn:E2; cbn; try reflexivity.
  exfalso. apply Hd. apply bytes_eqb_eq in E1. apply bytes_eqb_eq in E2. split; assumption.
Qed.

Lemma same_def_dec q p : same_def q p \/ ~ same_def q p.
Proof.
  unfold same_def. destruct (bytes_eqb (p_from q) (p_from p)) eqn:E1; destruct (bytes_eqb (p_where q) (p_where p)) eqn:E2.
  - left. split; apply bytes_eqb_eq; assumption.
  - right. intros [_ H]. apply bytes_eqb_eq in H. congruence.
  - right. intros [H _]. apply bytes_eqb_eq in H. congruence.
  - right. intros [H _]. apply bytes_eqb_eq in H. congruence.
Qed.

(* same conditions: returned as it is, for both values of changeOk *)
Lemma ensure_c_same c r p v q : lookup r (p_name p) = Some q -> same_def q p -> ensure_c c r p v = (r, Some q).
Proof. intros H Hs. unfold ensure_c. cbn [ensure_c_go]. rewrite H, (differs_false q p Hs). reflexivity. Qed.

Lemma ensure_c_absent_valid c r p : lookup r (p_name p) = None -> ensure_c c r p true = (r ++ [p], Some p).
Proof.
  intros H. unfold ensure_c. cbn [ensure_c_go]. rewrite H.
  assert (Hc : create r p true = (r ++ [p], true)) by (unfold create; rewrite H; reflexivity).
  rewrite Hc. cbn [fst]. rewrite (lookup_app_new r p H). rewrite !bytes_eqb_refl. reflexivity.
Qed.

Lemma ensure_c_absent_invalid c r p : lookup r (p_name p) = None -> ensure_c c r p false = (r, None).
Proof.
  intros H. unfold ensure_c. cbn [ensure_c_go].
  assert (Hc : create r p false = (r, false)) by (unfold create; rewrite H; reflexivity).
  rewrite H, Hc. cbn [fst]. rewrite H, Hc. cbn [fst]. rewrite H, Hc. reflexivity.
Qed.

(* other conditions, changeOk: the old pipe is deleted, the new one created (valid) / nothing is left (not valid) *)
Lemma ensure_c_replace r p q : lookup r (p_name p) = Some q -> ~ same_def q p ->
  ensure_c true r p true = (remove r (p_name p) ++ [p], Some p).
Proof.
  intros H Hd. unfold ensure_c. cbn [ensure_c_go]. rewrite H, (differs_true q p Hd).
  assert (Hdel : delete r (p_name p) = (remove r (p_name p), true)) by (unfold delete; rewrite H; reflexivity).
  rewrite Hdel. cbn [fst]. pose proof (lookup_remove r (p_name p)) as Hn. rewrite Hn.
  assert (Hc : create (remove r (p_name p)) p true = (remove r (p_name p) ++ [p], true)) by (unfold create; rewrite Hn; reflexivity).
  rewrite Hc. cbn [fst]. rewrite (lookup_app_new _ p Hn). rewrite !bytes_eqb_refl. reflexivity.
Qed.

Lemma ensure_c_replace_invalid r p q : lookup r (p_name p) = Some q -> ~ same_def q p ->
  ensure_c true r p false = (remove r (p_name p), None).
Proof.
  intros H Hd. unfold ensure_c. cbn [ensure_c_go]. rewrite H, (differs_true q p Hd).
  assert (Hdel : delete r (p_name p) = (remove r (p_name p), true)) by (unfold delete; rewrite H; reflexivity).
  rewrite Hdel. cbn [fst]. pose proof (lookup_remove r (p_name p)) as Hn. rewrite Hn.
  assert (Hc : create (remove r (p_name p)) p false = (remove r (p_name p), false)) by (unfold create; rewrite Hn; reflexivity).
  rewrite Hc. cbn [fst]. rewrite Hn, Hc. reflexivity.
Qed.

Lemma lookup_app_other r p m : m <> p_name p -> lookup (r ++ [p]) m = lookup r m.
Proof.
  intros Hne. unfold lookup. induction r as [|q r IH]; cbn.
  - destruct (bytes_eqb (p_name p) m) eqn:E; [apply bytes_eqb_eq in E; congruence|reflexivity].
  - destruct (bytes_eqb (p_name q) m); [reflexivity|exact IH].
Qed.

Lemma pipe_eta q p : p_name q = p_name p -> same_def q p -> q = p.
Proof. destruct q, p; unfold same_def; cbn. intros H1 [H2 H3]. subst. reflexivity. Qed.

(* one valid configured pipe: afterwards it is registered with exactly the configured definition and nothing else moved *)
Lemma ensure_c_true_valid r p :
  exists r', ensure_c true r p true = (r', Some p) /\ lookup r' (p_name p) = Some p /\
             (forall m, m <> p_name p -> lookup r' m = lookup r m).
Proof.
  destruct (lookup r (p_name p)) as [q|] eqn:E.
  - destruct (same_def_dec q p) as [Hs|Hd].
    + pose proof (lookup_some _ _ _ E) as [_ Hn]. pose proof (pipe_eta q p Hn Hs) as ->.
      exists r. rewrite (ensure_c_same true r p true p E Hs). split; [reflexivity|split; [exact E|intros; reflexivity]].
    + exists (remove r (p_name p) ++ [p]). rewrite (ensure_c_replace r p q E Hd). split; [reflexivity|split].
      * apply lookup_app_new. apply lookup_remove.
      * intros m Hm. rewrite (lookup_app_other _ p m Hm). apply lookup_remove_other. exact Hm.
  - exists (r ++ [p]). rewrite (ensure_c_absent_valid true r p E). split; [reflexivity|split].
    + apply lookup_app_new. exact E.
    + intros m Hm. apply lookup_app_other. exact Hm.
Qed.

(* a configured pipe whose conditions do not compile ends the start; a pipe of that name is gone unless it had
   exactly these (then uncompilable, hence impossible) conditions *)
Lemma ensure_c_true_invalid r p : (forall q, lookup r (p_name p) = Some q -> ~ same_def q p) ->
  exists r', ensure_c true r p false = (r', None) /\ lookup r' (p_name p) = None /\
             (forall m, m <> p_name p -> lookup r' m = lookup r m).
Proof.
  intros Hq. destruct (lookup r (p_name p)) as [q|] eqn:E.
  - exists (remove r (p_name p)). rewrite (ensure_c_replace_invalid r p q E (Hq q eq_refl)). split; [reflexivity|split].
    + apply lookup_remove.
    + intros m Hm. apply lookup_remove_other. exact Hm.
  - exists r. rewrite (ensure_c_absent_invalid true r p E). split; [reflexivity|split; [exact E|intros; reflexivity]].
Qed.

Definition cfg_names (cfg : list (pipe * bool)) : list bytes := map (fun x => p_name (fst x)) cfg.
Definition all_valid (cfg : list (pipe * bool)) : Prop := forall x, In x cfg -> snd x = true.

(* the whole configuration, all entries compile, names distinct: the start succeeds, every configured pipe is
   registered with its configured definition, every other pipe is untouched *)
Lemma ensure_at_start_ok cfg : all_valid cfg -> NoDup (cfg_names cfg) -> forall r,
  exists r', ensure_at_start r cfg = (r', true) /\
     (forall p v, In (p, v) cfg -> lookup r' (p_name p) = Some p) /\
     (forall m, ~ In m (cfg_names cfg) -> lookup r' m = lookup r m).
Proof.
  induction cfg as [|[p v] cfg IH]; intros Hv Hnd r.
  - exists r. cbn. split; [reflexivity|split; [intros ? ? []|intros; reflexivity]].
  - assert (v = true) as -> by (apply (Hv (p, v)); left; reflexivity).
    cbn [ensure_at_start]. destruct (ensure_c_true_valid r p) as (r1 & E1 & L1 & O1). rewrite E1.
    cbn [cfg_names map fst] in Hnd. inversion Hnd as [|? ? Hnin Hnd']; subst.
    destruct (IH (fun x Hx => Hv x (or_intror Hx)) Hnd' r1) as (r' & E' & L' & O').
    exists r'. split; [exact E'|]. split.
    + intros p0 v0 [Heq|Hin].
      * inversion Heq; subst. rewrite (O' (p_name p0) Hnin). exact L1.
      * apply (L' p0 v0 Hin).
    + intros m Hm. cbn [cfg_names map fst] in Hm.
      rewrite (O' m (fun H => Hm (or_intror H))). apply O1. intros ->. apply Hm. left. reflexivity.
Qed.

(* idempotence: a second start with the same configuration changes nothing at all (not even the order) *)
Lemma ensure_at_start_fix cfg : forall r,
  (forall p v, In (p, v) cfg -> lookup r (p_name p) = Some p) -> ensure_at_start r cfg = (r, true).
Proof.
  induction cfg as [|[p v] cfg IH]; intros r H; cbn [ensure_at_start]; [reflexivity|].
  rewrite (ensure_c_same true r p v p (H p v (or_introl eq_refl)) (conj eq_refl eq_refl)).
  apply IH. intros p0 v0 Hin. apply (H p0 v0). right. exact Hin.
Qed.

Lemma ensure_at_start_idem cfg r r' : all_valid cfg -> NoDup (cfg_names cfg) ->
  ensure_at_start r cfg = (r', true) -> ensure_at_start r' cfg = (r', true).
Proof.
  intros Hv Hnd E. destruct (ensure_at_start_ok cfg Hv Hnd r) as (r2 & E2 & L2 & _).
  rewrite E in E2. inversion E2; subst. apply ensure_at_start_fix. exact L2.
Qed.

(* the first entry that does not compile ends the start *)
Lemma ensure_at_start_invalid cfg1 p cfg2 : all_valid cfg1 -> NoDup (cfg_names cfg1) -> ~ In (p_name p) (cfg_names cfg1) ->
  forall r, (forall q, lookup r (p_name p) = Some q -> ~ same_def q p) ->
  exists r', ensure_at_start r (cfg1 ++ (p, false) :: cfg2) = (r', false) /\ lookup r' (p_name p) = None.
Proof.
  induction cfg1 as [|[p1 v1] cfg1 IH]; intros Hv Hnd Hnin r Hq.
  - cbn [app ensure_at_start]. destruct (ensure_c_true_invalid r p Hq) as (r' & E & L & _). rewrite E. exists r'. split; [reflexivity|exact L].
  - assert (v1 = true) as -> by (apply (Hv (p1, v1)); left; reflexivity).
    cbn [app ensure_at_start]. destruct (ensure_c_true_valid r p1) as (r1 & E1 & L1 & O1). rewrite E1.
    cbn [cfg_names map fst] in Hnd, Hnin. inversion Hnd as [|? ? _ Hnd']; subst.
    apply IH; [intros x Hx; apply Hv; right; exact Hx|exact Hnd'|intros Hin; apply Hnin; right; exact Hin|].
    intros q Hl. rewrite O1 in Hl; [apply Hq; exact Hl|]. intros Heq. apply Hnin. left. symmetry. exact Heq.
Qed.
