(* The snapshot cindex.dat is used at most once (model/Selector.v lstep): with the code's init() there is never a snapshot
   on disk while the server runs, so a crash is an index loss; an init() that keeps the file is refuted. *)
From LR Require Import lib.Base model.TmTree model.CIndex model.Selector proofs.TmTreeP proofs.CIndexP proofs.SelectorP proofs.SelectorInvP proofs.SelectorRunP.
Open Scope Z_scope.

Lemma lstep_code v st o :
  lstep false v (st, None) o = (step v st (crash_as_drop o), None).
Proof. destruct o as [o|]; [destruct o; reflexivity|reflexivity]. Qed.

Theorem snapshot_used_once v : forall ops st,
  lrun false v ops (st, None) = (fold_left (step v) (map crash_as_drop ops) st, None).
Proof.
  induction ops as [|o ops IH]; intros st; [reflexivity|]. unfold lrun in *. cbn [fold_left map]. rewrite lstep_code. apply IH.
Qed.

(* hence every history with crashes is a history of the theorems with index losses in their place *)
Corollary complete_with_crashes ops o1 o2 :
  let hist := map crash_as_drop ops in
  Forall op_ok hist -> op_ok (HRead o1 o2) -> hist_sorted hist -> hist_disciplined hist -> hist_small hist ->
  complete_at fixed_variant (fst (lrun false fixed_variant ops (p_init, None))) o1 o2.
Proof. intros hist H1 H2 H3 H4 H5. rewrite snapshot_used_once. cbn [fst]. apply complete_fixed; assumption. Qed.

(* the kept snapshot: 300 x 100, clean restart, 10 x 200 into the same chunk, crash: RANGE ["200":"200"] is empty *)
Definition snap_wit : list lop :=
  [LOp (HBatch [mkseg 1 false (repeat 100 300)]); LOp HRestart; LOp (HBatch [mkseg 1 false (repeat 200 10)]); LCrash].
Lemma kept_snapshot_refuted :
  let hist := map crash_as_drop snap_wit in
  Forall op_ok hist /\ hist_sorted hist /\ hist_disciplined hist /\ hist_small hist /\
  complete_at fixed_variant (fst (lrun false fixed_variant snap_wit (p_init, None))) (Some 200) (Some 200) /\
  ~ complete_at fixed_variant (fst (lrun true fixed_variant snap_wit (p_init, None))) (Some 200) (Some 200).
Proof.
  split; [apply hist_okb_ok; vm_compute; reflexivity|]. split; [apply sorted_zb_ok; vm_compute; reflexivity|].
  split; [apply hist_discb_ok; vm_compute; reflexivity|]. split; [apply hist_smallb_ok; vm_compute; reflexivity|].
  split; [vm_compute; reflexivity|]. apply not_complete_by_length. vm_compute. discriminate.
Qed.
