(* Lemmas about model/Tags.v: key sorting, the print/parse law of tag lines on safe tag sets. *)
From LR Require Import lib.Base model.KV model.Tags proofs.KVP.
From Coq Require Import Sorting.Sorted Permutation.

(* ---------- sort.Search (generic; same statement as in proofs/PipeRegP.v, kept local) ---------- *)
Definition mono_on (f : nat -> bool) (n : nat) : Prop :=
  forall i j, i <= j -> j < n -> f i = true -> f j = true.

Lemma div2_bounds i j : i < j -> i <= Nat.div2 (i + j) < j.
Proof.
  intros H. pose proof (Nat.div2_odd (i + j)) as E.
  destruct (Nat.odd (i + j)); cbn [Nat.b2n] in E; lia.
Qed.

Lemma bsearch_spec f n : mono_on f n ->
  forall fuel i j, j <= n -> i <= j -> j - i < fuel ->
  (forall x, x < i -> f x = false) -> (forall x, j <= x -> x < n -> f x = true) ->
  let k := bsearch_go fuel f i j in
  k <= n /\ (forall x, x < k -> f x = false) /\ (k < n -> f k = true).
Proof.
  intros Hm. induction fuel as [|fuel IH]; intros i j Hjn Hij Hf Hlo Hhi; [lia|].
  cbn [bsearch_go]. destruct (Nat.ltb_spec i j) as [Hlt|Hge].
  - pose proof (div2_bounds i j Hlt) as Hb. set (h := Nat.div2 (i + j)) in *.
    destruct (f h) eqn:Efh.
    + apply IH; try lia; try assumption.
      intros x Hx Hxn. apply (Hm h x); try lia. exact Efh.
    + apply IH; try lia; try assumption.
      intros x Hx. destruct (Nat.lt_ge_cases x i) as [Hxi|Hxi]; [apply Hlo; exact Hxi|].
      destruct (f x) eqn:Efx; [|reflexivity].
      assert (f h = true) by (apply (Hm x h); try lia; exact Efx). congruence.
  - assert (i = j) by lia. subst j. cbn. repeat split; try lia; try assumption.
    intros Hin. apply Hhi; lia.
Qed.

Lemma sort_search_spec f n : mono_on f n ->
  let k := sort_search n f in
  k <= n /\ (forall x, x < k -> f x = false) /\ (k < n -> f k = true).
Proof. intros Hm. unfold sort_search. apply (bsearch_spec f n Hm); lia. Qed.

(* ---------- the key sorting loop of line() ---------- *)
Definition ble (a b : bytes) : Prop := bytes_leb a b = true.

Fixpoint spec_insert (k : bytes) (l : list bytes) : list bytes :=
  match l with
  | [] => [k]
  | q :: tl => if bytes_leb k q then k :: l else q :: spec_insert k tl
  end.

Lemma spec_insert_split k l i :
  i <= length l ->
  (forall x, x < i -> bytes_leb k (nth x l k) = false) ->
  (i < length l -> bytes_leb k (nth i l k) = true) ->
  spec_insert k l = firstn i l ++ k :: skipn i l.
Proof.
  revert i. induction l as [|q l IH]; intros i Hi Hlo Hhi.
  - cbn in Hi. assert (i = 0) by lia. subst. reflexivity.
  - destruct i as [|i].
    + cbn [firstn skipn app spec_insert]. cbn in Hhi. rewrite Hhi by lia. reflexivity.
    + cbn [spec_insert]. pose proof (Hlo 0 ltac:(lia)) as H0. cbn in H0. rewrite H0.
      cbn [firstn skipn app]. f_equal. apply IH.
      * cbn in Hi. lia.
      * intros x Hx. apply (Hlo (S x)). lia.
      * intros Hkl. apply Hhi. cbn. lia.
Qed.

Lemma sorted_nth_le l : StronglySorted ble l ->
  forall i j d, i <= j -> j < length l -> ble (nth i l d) (nth j l d).
Proof.
  induction 1 as [|q l Hs IH Hall]; intros i j d Hij Hj; [cbn in Hj; lia|].
  destruct i as [|i]; destruct j as [|j]; cbn [nth]; try lia.
  - apply bytes_leb_refl.
  - rewrite Forall_forall in Hall. apply Hall. apply nth_In. cbn in Hj. lia.
  - apply IH; cbn in Hj; lia.
Qed.

Lemma insert_key_is_spec srt k : StronglySorted ble srt -> insert_key srt k = spec_insert k srt.
Proof.
  intros Hs. unfold insert_key.
  set (f := fun i => bytes_leb k (nth i srt k)).
  assert (Hm : mono_on f (length srt)).
  { intros i j Hij Hj Hfi. unfold f in *.
    eapply bytes_leb_trans; [exact Hfi|]. apply (sorted_nth_le srt Hs i j k Hij Hj). }
  destruct (sort_search_spec f (length srt) Hm) as (Hk & Hlo & Hhi).
  symmetry. apply spec_insert_split; assumption.
Qed.

Lemma spec_insert_perm k l : Permutation (spec_insert k l) (k :: l).
Proof.
  induction l as [|q l IH]; cbn; [reflexivity|].
  destruct (bytes_leb k q); [reflexivity|]. rewrite IH. apply perm_swap.
Qed.

Lemma spec_insert_sorted k l : StronglySorted ble l -> StronglySorted ble (spec_insert k l).
Proof.
  induction 1 as [|q l Hs IH Hall]; cbn.
  - constructor; constructor.
  - destruct (bytes_leb k q) eqn:E.
    + constructor; [constructor; assumption|]. constructor; [exact E|].
      rewrite Forall_forall in *. intros x Hx. unfold ble in *.
      eapply bytes_leb_trans; [exact E|]. apply Hall. exact Hx.
    + constructor; [exact IH|].
      rewrite Forall_forall in *. intros x Hx.
      apply (Permutation_in _ (spec_insert_perm k l)) in Hx. destruct Hx as [<-|Hx].
      * unfold ble. destruct (bytes_leb_total q k) as [T|T]; [exact T|congruence].
      * apply Hall. exact Hx.
Qed.

Lemma sort_keys_fold ord acc : StronglySorted ble acc ->
  StronglySorted ble (fold_left insert_key ord acc) /\ Permutation (fold_left insert_key ord acc) (acc ++ ord).
Proof.
  revert acc. induction ord as [|k ord IH]; intros acc Hs; cbn [fold_left].
  - rewrite app_nil_r. split; [exact Hs|reflexivity].
  - rewrite (insert_key_is_spec acc k Hs).
    destruct (IH (spec_insert k acc) (spec_insert_sorted k acc Hs)) as (S & P).
    split; [exact S|]. rewrite P. rewrite spec_insert_perm. cbn. apply Permutation_middle.
Qed.

Lemma sort_keys_sorted_perm ord : StronglySorted ble (sort_keys ord) /\ Permutation (sort_keys ord) ord.
Proof. destruct (sort_keys_fold ord [] ltac:(constructor)) as (S & P). split; assumption. Qed.

(* a <=-sorted list is determined by its multiset (antisymmetry of the byte-string order) *)
Lemma sorted_perm_unique l1 : forall l2, StronglySorted ble l1 -> StronglySorted ble l2 -> Permutation l1 l2 -> l1 = l2.
Proof.
  induction l1 as [|a l1 IH]; intros l2 S1 S2 P.
  - apply Permutation_nil in P. subst. reflexivity.
  - destruct l2 as [|b l2]; [apply Permutation_sym, Permutation_nil in P; discriminate|].
    inversion S1 as [|? ? S1' A1]; inversion S2 as [|? ? S2' A2]; subst.
    assert (a = b).
    { rewrite Forall_forall in A1, A2.
      assert (Ia : In a (b :: l2)) by (apply (Permutation_in _ P); left; reflexivity).
      assert (Ib : In b (a :: l1)) by (apply (Permutation_in _ (Permutation_sym P)); left; reflexivity).
      destruct Ia as [->|Ia]; [reflexivity|]. destruct Ib as [->|Ib]; [reflexivity|].
      apply bytes_leb_antisym; [apply A1; exact Ib|apply A2; exact Ia]. }
    subst b. f_equal. apply IH; try assumption. apply (Permutation_cons_inv P).
Qed.

Lemma sort_keys_order_independent o1 o2 : Permutation o1 o2 -> sort_keys o1 = sort_keys o2.
Proof.
  intros P. destruct (sort_keys_sorted_perm o1) as (S1 & P1). destruct (sort_keys_sorted_perm o2) as (S2 & P2).
  apply sorted_perm_unique; try assumption. rewrite P1, P2. exact P.
Qed.

(* ---------- sortedness of canonical maps ---------- *)
Lemma keys_sorted_SS m : keys_sorted m = true -> StronglySorted klt m.
Proof.
  induction m as [|[k v] tl IH]; intros H; [constructor|].
  cbn [keys_sorted] in H. destruct tl as [|[k' v'] tl'].
  - constructor; constructor.
  - apply andb_true_iff in H as [H1 H2]. specialize (IH H2). constructor; [exact IH|].
    inversion IH as [|? ? S A]; subst. constructor; [exact H1|].
    rewrite Forall_forall in *. intros x Hx. unfold klt in *. cbn [fst] in *.
    eapply bytes_ltb_trans; [exact H1|]. apply (A x Hx).
Qed.

Lemma klt_keys_ble m : StronglySorted klt m -> StronglySorted ble (map fst m).
Proof.
  induction 1 as [|a l S IH A]; cbn [map]; constructor; [exact IH|].
  rewrite Forall_forall in *. intros x Hx. apply in_map_iff in Hx as (y & <- & Hy).
  specialize (A y Hy). unfold klt in A. unfold ble, bytes_leb. rewrite (bytes_ltb_antisym _ _ A). reflexivity.
Qed.

Lemma sort_keys_sorted_id l : StronglySorted ble l -> sort_keys l = l.
Proof.
  intros S. destruct (sort_keys_sorted_perm l) as (S' & P). apply sorted_perm_unique; assumption.
Qed.

Lemma klt_not_in k v m : Forall (klt (k, v)) m -> map_get k m = None.
Proof.
  induction m as [|[k' v'] tl IH]; intros H; [reflexivity|].
  inversion H as [|? ? Hx Hl]; subst. unfold klt in Hx. cbn [fst] in Hx. cbn [map_get].
  rewrite bytes_eqb_neq; [apply IH; exact Hl|intros ->; rewrite bytes_ltb_irrefl in Hx; discriminate].
Qed.

Lemma map_get_sorted_self m : StronglySorted klt m ->
  forall (f : bytes -> bytes -> bytes * bytes),
  map (fun k => f k (get_or_empty k m)) (map fst m) = map (fun kv => f (fst kv) (snd kv)) m.
Proof.
  intros S f. rewrite map_map.
  assert (G : forall kv, In kv m -> get_or_empty (fst kv) m = snd kv).
  { induction S as [|[k v] l S IH A]; intros kv Hin; [destruct Hin|].
    unfold get_or_empty. cbn [map_get]. destruct Hin as [<-|Hin].
    - cbn [fst snd]. rewrite bytes_eqb_refl. reflexivity.
    - rewrite Forall_forall in A. pose proof (A kv Hin) as L. unfold klt in L. cbn [fst] in L.
      rewrite bytes_eqb_neq; [apply (IH kv Hin)|intros E; rewrite E, bytes_ltb_irrefl in L; discriminate]. }
  apply map_ext_in. intros kv Hin. rewrite (G kv Hin). reflexivity.
Qed.

Section Law.
  Variable quote : bytes -> bytes.
  Variable unquote : bytes -> option bytes.

  (* on the canonical representative line() prints the pairs in their order (either variant) *)
  Lemma line_print_v fx nl m : keys_sorted m = true -> line_v fx nl quote m = print_tags_v fx nl quote m.
  Proof.
    intros H. apply keys_sorted_SS in H. unfold line_v, line_ord_v, print_tags_v.
    rewrite (sort_keys_sorted_id _ (klt_keys_ble m H)).
    rewrite (map_get_sorted_self m H (fun k v => (k, v))).
    f_equal. f_equal. rewrite <- (map_id m) at 2. apply map_ext. intros [k v]. reflexivity.
  Qed.
  Lemma line_print m : keys_sorted m = true -> line quote m = print_tags quote m.
  Proof. apply line_print_v. Qed.

  (* the iteration order of the Go map does not matter *)
  Lemma line_ord_perm m ord : keys_sorted m = true -> Permutation ord m -> line_ord quote ord = line quote m.
  Proof.
    intros H P. unfold line, line_v, line_ord, line_ord_v.
    rewrite (sort_keys_order_independent (map fst ord) (map fst m) (Permutation_map fst P)).
    f_equal. f_equal. apply map_ext_in. intros k Hk. f_equal.
    (* lookup in a duplicate-free enumeration does not depend on the order *)
    apply keys_sorted_SS in H.
    assert (ND : NoDup (map fst m)).
    { clear -H. induction H as [|a l S IH A]; cbn; constructor; [|exact IH].
      intros Hin. apply in_map_iff in Hin as (y & E & Hy). rewrite Forall_forall in A. specialize (A y Hy).
      unfold klt in A. rewrite E, bytes_ltb_irrefl in A. discriminate. }
    assert (G : forall l, NoDup (map fst l) -> forall kv, In kv l -> map_get (fst kv) l = Some (snd kv)).
    { clear. induction l as [|[k' v'] l IH]; intros ND kv Hin; [destruct Hin|].
      cbn [map] in ND. inversion ND as [|? ? Hn ND']; subst. cbn [map_get]. destruct Hin as [<-|Hin].
      - cbn [fst snd]. rewrite bytes_eqb_refl. reflexivity.
      - rewrite bytes_eqb_neq; [apply IH; assumption|]. intros E. apply Hn. cbn [fst]. rewrite <- E.
        apply in_map. exact Hin. }
    assert (NDo : NoDup (map fst ord)).
    { apply (Permutation_NoDup (l := map fst m)); [apply Permutation_map; symmetry; exact P|exact ND]. }
    destruct (sort_keys_sorted_perm (map fst m)) as (_ & Pk).
    apply (Permutation_in _ Pk) in Hk. apply in_map_iff in Hk as (kv & <- & Hin).
    unfold get_or_empty.
    rewrite (G m ND kv Hin). rewrite (G ord NDo kv (Permutation_in _ (Permutation_sym P) Hin)). reflexivity.
  Qed.

  (* ---------- SplitString over a printed line ---------- *)
  Fixpoint flat (l : list (bytes * bytes)) : list bytes :=
    match l with [] => [] | (k, v) :: tl => k :: v :: flat tl end.

  Lemma split_go_eq tl cur acc : split_go (EQ :: tl) false true cur acc = split_go tl false false [] (rev cur :: acc).
  Proof. reflexivity. Qed.
  Lemma split_go_comma tl cur acc : split_go (COMMA :: tl) false false cur acc = split_go tl false true [] (rev cur :: acc).
  Proof. reflexivity. Qed.

  Definition piece_ok (kv : bytes * bytes) : Prop := neutral (fst kv) = true /\ neutral (snd kv) = true.

  Lemma split_join l : forall acc, l <> [] -> Forall piece_ok l ->
    split_go (join_pairs l) false true [] acc = Ok (rev acc ++ flat l).
  Proof.
    induction l as [|[k v] tl IH]; intros acc Hne Hp; [congruence|].
    inversion Hp as [|? ? [Hk Hv] Hp']; subst. cbn [fst snd] in Hk, Hv.
    destruct tl as [|kv2 tl'].
    - cbn [join_pairs]. rewrite (neutral_split k _ true [] acc Hk). rewrite split_go_eq.
      rewrite <- (app_nil_r v) at 1. rewrite (neutral_split v [] false [] _ Hv). cbn [split_go flat].
      rewrite !app_nil_r, !rev_involutive. cbn [rev]. rewrite <- !app_assoc. reflexivity.
    - change (join_pairs ((k, v) :: kv2 :: tl')) with (k ++ EQ :: v ++ COMMA :: join_pairs (kv2 :: tl')).
      rewrite (neutral_split k _ true [] acc Hk). rewrite split_go_eq.
      rewrite (neutral_split v _ false [] _ Hv). rewrite split_go_comma.
      rewrite !app_nil_r, !rev_involutive.
      etransitivity; [apply IH; [discriminate|exact Hp']|].
      cbn [flat rev]. rewrite <- !app_assoc. reflexivity.
  Qed.

  (* ---------- ends of a printed line ---------- *)
  Lemma last_is_app c a b : b <> [] -> last_is c (a ++ b) = last_is c b.
  Proof.
    intros Hb. unfold last_is. rewrite rev_app_distr.
    destruct (rev b) as [|z r] eqn:E; [|reflexivity].
    apply (f_equal (@length byte)) in E. rewrite rev_length in E. destruct b; [congruence|discriminate].
  Qed.

  Lemma join_nonempty kv l : fst kv <> [] -> join_pairs (kv :: l) <> [].
  Proof. destruct kv as [k v]. cbn [fst]. intros Hk. destruct k as [|a k]; [congruence|]. destruct l; cbn [join_pairs]; discriminate. Qed.

  Lemma join_last c (l : list (bytes * bytes)) (x : bytes * bytes) : Forall (fun kv : bytes * bytes => fst kv <> []) (l ++ [x]) ->
    last_is c (join_pairs (l ++ [x])) = last_is c (EQ :: snd x).
  Proof.
    induction l as [|[k v] tl IH]; intros Hne.
    - destruct x as [k v]. cbn [app join_pairs snd]. apply last_is_app. discriminate.
    - cbn [app] in Hne. inversion Hne as [|? ? _ Hne']; subst. specialize (IH Hne').
      assert (Hj : join_pairs (tl ++ [x]) <> []).
      { destruct (tl ++ [x]) as [|kv2 r] eqn:E; [destruct tl; discriminate|].
        inversion Hne' as [|? ? H2 _]; subst. apply join_nonempty. exact H2. }
      assert (E : join_pairs (((k, v) :: tl) ++ [x]) = k ++ EQ :: v ++ COMMA :: join_pairs (tl ++ [x])).
      { cbn [app]. destruct (tl ++ [x]) eqn:E'; [destruct tl; discriminate|]. reflexivity. }
      rewrite E, <- IH.
      rewrite last_is_app by discriminate.
      change (EQ :: v ++ COMMA :: join_pairs (tl ++ [x])) with ((EQ :: v) ++ COMMA :: join_pairs (tl ++ [x])).
      rewrite last_is_app by discriminate.
      change (COMMA :: join_pairs (tl ++ [x])) with ([COMMA] ++ join_pairs (tl ++ [x])).
      apply last_is_app. exact Hj.
  Qed.

  Lemma join_first c k v tl : k <> [] -> first_is c (join_pairs ((k, v) :: tl)) = first_is c k.
  Proof. intros Hk. destruct k as [|a k']; [congruence|]. destruct tl; reflexivity. Qed.

  Lemma join_length k v tl : k <> [] -> 2 <= length (join_pairs ((k, v) :: tl)).
  Proof.
    intros Hk. destruct k as [|a k']; [congruence|].
    destruct tl; cbn [join_pairs]; rewrite app_length; cbn [length]; lia.
  Qed.

  (* ---------- the parse of the rendered pieces ---------- *)
  (* a pair and its rendering: the name goes through TrimSpaces unchanged, the rendered value comes back
     from TrimSpaces + Unquote as the value *)
  Definition render_ok (kv : bytes * bytes) (r : bytes) : Prop :=
    fst kv <> [] /\ trim (fst kv) = fst kv /\ unq unquote (trim r) = Ok (snd kv).

  Definition rendered (kv rr : bytes * bytes) : Prop := fst rr = fst kv /\ render_ok kv (snd rr).

  Lemma pairs_of_flat (m rl : list (bytes * bytes)) : Forall2 rendered m rl -> pairs_of unquote (flat rl) = Ok m.
  Proof.
    induction 1 as [|[k v] [k' r] m' rl' (E & Hk & Ht & Hu) Hall IH]; [reflexivity|].
    cbn [fst snd] in *. subst k'. cbn [flat pairs_of]. rewrite Ht, Hu, IH.
    destruct k; [congruence|reflexivity].
  Qed.

  Lemma first_is_excl c d s : c <> d -> first_is c s = true -> first_is d s = false.
  Proof.
    intros Hcd. destruct s as [|x s]; [discriminate|]. cbn. intros H. apply byte_eqb_eq in H. subst x.
    apply byte_eqb_neq. exact Hcd.
  Qed.

  Hypothesis QS : QuoteSpec quote unquote.

  Lemma quote_facts v :
    first_is QUOTE (quote v) = true /\ last_is QUOTE (quote v) = true /\ 2 <= length (quote v) /\
    neutral (quote v) = true /\ unquote (quote v) = Some v /\
    length v + 2 <= length (quote v) /\ length (quote v) <= 4 * length v + 2.
  Proof.
    pose proof (QS v) as H. unfold quote_ok in H.
    apply andb_true_iff in H as [H H6]. apply andb_true_iff in H as [H H5]. apply andb_true_iff in H as [H H4].
    apply andb_true_iff in H as [H H3]. apply andb_true_iff in H as [H1 H2].
    apply Nat.leb_le in H3. apply Nat.leb_le in H4.
    repeat split; try assumption; try lia.
    destruct (unquote (quote v)) as [u|]; [|discriminate]. cbn in H6. f_equal. apply bytes_eqb_eq. assumption.
  Qed.

  Lemma quote_trimmed v : trim (quote v) = quote v.
  Proof.
    destruct (quote_facts v) as (F & L & _). apply trim_id. unfold trimmed.
    rewrite (first_is_excl QUOTE SP _ ltac:(discriminate) F).
    unfold last_is in *. rewrite (first_is_excl QUOTE SP _ ltac:(discriminate) L). reflexivity.
  Qed.

  Lemma quote_unq v : unq unquote (quote v) = Ok v.
  Proof.
    destruct (quote_facts v) as (F & _ & _ & _ & U & _). unfold unq, starts_quoted.
    destruct (quote v) as [|c q] eqn:E; [discriminate|]. cbn in F. rewrite F. cbn [orb]. rewrite U. reflexivity.
  Qed.

  (* what the quoting predicate of the code leaves to be printed raw *)
  Lemma raw_value_facts last v : tag_needs_quote last v = false ->
    v <> [] /\ trimmed v = true /\ starts_quoted v = false /\ (last = true -> last_is RBR v = false).
  Proof.
    unfold tag_needs_quote, tag_needs_quote_v, code_quote_edges. cbn [andb]. intros H.
    apply orb_false_iff in H as [H _].
    apply orb_false_iff in H as [H1 H2]. apply orb_false_iff in H1 as [H1 _]. apply orb_false_iff in H1 as [H1 _].
    apply orb_false_iff in H2 as [H2 H6]. apply orb_false_iff in H2 as [H2 H5]. apply orb_false_iff in H2 as [H3 H4].
    repeat split.
    - intros ->. discriminate.
    - unfold trimmed. rewrite H3, H4. reflexivity.
    - exact H5.
    - intros ->. exact H6.
  Qed.

  (* the rendering of a safe tag value at its place in the line *)
  Lemma tag_val_ok last v : tag_value_safe last v = true ->
    let r := tag_val quote last v in
    neutral r = true /\ trim r = r /\ unq unquote r = Ok v /\ r <> [] /\ trimmed r = true /\
    (last = true -> last_is RBR r = false).
  Proof.
    unfold tag_value_safe, tag_val, tag_val_v. fold (tag_needs_quote last v).
    destruct (tag_needs_quote last v) eqn:Q; intros H; cbn zeta.
    - destruct (quote_facts v) as (F & L & Hl & N & _).
      assert (T : trimmed (quote v) = true).
      { unfold trimmed. rewrite (first_is_excl QUOTE SP _ ltac:(discriminate) F). unfold last_is in *.
        rewrite (first_is_excl QUOTE SP _ ltac:(discriminate) L). reflexivity. }
      repeat split; [exact N|apply quote_trimmed|apply quote_unq| |exact T|].
      + intros E. rewrite E in Hl. cbn in Hl. lia.
      + intros _. unfold last_is in *. exact (first_is_excl QUOTE RBR _ ltac:(discriminate) L).
    - cbn [orb] in H. destruct (raw_value_facts last v Q) as (Hne & Ht & Hq & Hr).
      repeat split; [exact H|apply trim_id; exact Ht| |exact Hne|exact Ht|exact Hr].
      unfold unq. rewrite Hq. reflexivity.
  Qed.

  Lemma last_map {A B} (f : A -> B) l d : last (map f l) (f d) = f (last l d).
  Proof. induction l as [|a l IH]; [reflexivity|]. destruct l; [reflexivity|]. exact IH. Qed.

  Lemma last_is_cons c x s : s <> [] -> last_is c (x :: s) = last_is c s.
  Proof. intros H. change (x :: s) with ([x] ++ s). apply last_is_app. exact H. Qed.

  Lemma trimmed_ends s : trimmed s = true -> first_is SP s = false /\ last_is SP s = false.
  Proof. unfold trimmed. intros H. apply andb_true_iff in H as [H1 H2]. split; apply negb_true_iff; assumption. Qed.

  (* ---------- the braces pass and SplitString over a printed line with harmless ends ---------- *)
  Definition rpiece_ok (kv : bytes * bytes) : Prop := fst kv <> [] /\ neutral (fst kv) = true /\ neutral (snd kv) = true.

  Lemma pieces_join (rl : list (bytes * bytes)) k1 r1 tl rl' x :
    rl = (k1, r1) :: tl -> rl = rl' ++ [x] -> Forall rpiece_ok rl ->
    first_is SP k1 = false -> first_is LBR k1 = false ->
    last_is SP (EQ :: snd x) = false -> last_is RBR (EQ :: snd x) = false ->
    remove_curly (join_pairs rl) = Ok (join_pairs rl) /\ split_string (join_pairs rl) = Ok (flat rl) /\ join_pairs rl <> [].
  Proof.
    intros E1 E2 Hall Hsp Hlbr Hlsp Hlrbr.
    assert (Hk1 : k1 <> []).
    { rewrite E1 in Hall. inversion Hall as [|? ? (H & _) _]; subst. exact H. }
    assert (Hne : Forall (fun kv : bytes * bytes => fst kv <> []) rl).
    { eapply Forall_impl; [|exact Hall]. intros kv (H & _). exact H. }
    assert (Hlen : 2 <= length (join_pairs rl)) by (rewrite E1; apply join_length; exact Hk1).
    split; [|split].
    - apply remove_curly_id.
      + rewrite E1, join_first by exact Hk1. exact Hsp.
      + rewrite E1, join_first by exact Hk1. exact Hlbr.
      + rewrite E2. rewrite (join_last SP rl' x) by (rewrite <- E2; exact Hne). exact Hlsp.
      + rewrite E2. rewrite (join_last RBR rl' x) by (rewrite <- E2; exact Hne). exact Hlrbr.
      + exact Hlen.
    - unfold split_string. rewrite (split_join rl []); [reflexivity|rewrite E1; discriminate|].
      eapply Forall_impl; [|exact Hall]. intros kv (_ & H1 & H2). split; assumption.
    - intros E. rewrite E in Hlen. cbn in Hlen. lia.
  Qed.

  (* ---------- the rendered pairs of a line ---------- *)
  Lemma render_snoc_v fx nl l k v :
    render_v fx nl quote (l ++ [(k, v)]) =
    map (fun kv => (fst kv, tag_val_v fx nl quote false (snd kv))) l ++ [(k, tag_val_v fx nl quote true v)].
  Proof.
    induction l as [|[a b] l IH]; [reflexivity|].
    cbn [app render_v map fst snd]. rewrite IH. destruct l; reflexivity.
  Qed.

  Lemma name_facts k : name_ok k = true -> k <> [] /\ trimmed k = true /\ neutral k = true.
  Proof.
    intros H. unfold name_ok in H. apply andb_true_iff in H as [H H3]. apply andb_true_iff in H as [H1 H2].
    repeat split; try assumption. destruct k; [discriminate|discriminate].
  Qed.

  Lemma render_pieces m : tag_pairs_safe m = true ->
    Forall rpiece_ok (render quote m) /\ Forall2 rendered m (render quote m).
  Proof.
    induction m as [|[k v] tl IH]; intros H; [split; constructor|].
    cbn [tag_pairs_safe] in H. apply andb_true_iff in H as [H Htl]. apply andb_true_iff in H as [Hn Hv].
    destruct (IH Htl) as (I1 & I2). destruct (name_facts k Hn) as (N1 & N2 & N3).
    destruct (tag_val_ok (is_nil tl) v Hv) as (V1 & V2 & V3 & _).
    unfold render in *. cbn [render_v]. fold (tag_val quote (is_nil tl) v). split; constructor; try assumption.
    - unfold rpiece_ok. cbn [fst snd]. repeat split; assumption.
    - unfold rendered, render_ok. cbn [fst snd]. rewrite V2. repeat split; try assumption. apply trim_id. exact N2.
  Qed.

  Lemma tag_pairs_safe_last m k v : tag_pairs_safe (m ++ [(k, v)]) = true -> tag_value_safe true v = true.
  Proof.
    induction m as [|[a b] m IH]; cbn [app tag_pairs_safe]; intros H.
    - apply andb_true_iff in H as [H _]. apply andb_true_iff in H as [_ H]. exact H.
    - apply andb_true_iff in H as [_ H]. exact (IH H).
  Qed.

  (* the braces pass and the splitter over the printed line of a safe set: the rendered pairs come out *)
  Lemma line_pieces m : tag_safe m = true -> m <> [] ->
    remove_curly (print_tags quote m) = Ok (print_tags quote m) /\
    split_string (print_tags quote m) = Ok (flat (render quote m)) /\ print_tags quote m <> [].
  Proof.
    intros Hsafe Hne0. unfold tag_safe in Hsafe. apply andb_true_iff in Hsafe as [Hall Hedge].
    destruct m as [|[k1 v1] tl] eqn:Em; [congruence|]. rewrite <- Em in *.
    destruct (exists_last (l := m)) as (m' & [kl vl] & Em2); [rewrite Em; discriminate|].
    destruct (render_pieces m Hall) as (Hrp & _).
    assert (Hn1 : name_ok k1 = true).
    { rewrite Em in Hall. cbn [tag_pairs_safe] in Hall. apply andb_true_iff in Hall as [Hall _].
      apply andb_true_iff in Hall as [Hall _]. exact Hall. }
    destruct (name_facts k1 Hn1) as (_ & Ht1 & _).
    assert (Hvl : tag_value_safe true vl = true) by (rewrite Em2 in Hall; exact (tag_pairs_safe_last _ _ _ Hall)).
    destruct (tag_val_ok true vl Hvl) as (_ & _ & _ & Hnel & Ttl & Hrbr).
    rewrite Em in Hedge. cbn [tag_edges_ok] in Hedge. apply negb_true_iff in Hedge.
    change (print_tags quote m) with (join_pairs (render quote m)).
    apply (pieces_join (render quote m) k1 (tag_val quote (is_nil tl) v1) (render quote tl)
                (map (fun kv => (fst kv, tag_val quote false (snd kv))) m') (kl, tag_val quote true vl)).
    - rewrite Em. reflexivity.
    - rewrite Em2. apply render_snoc_v.
    - exact Hrp.
    - apply (trimmed_ends _ Ht1).
    - exact Hedge.
    - cbn [snd]. rewrite last_is_cons by exact Hnel. apply (trimmed_ends _ Ttl).
    - cbn [snd]. rewrite last_is_cons by exact Hnel. apply Hrbr. reflexivity.
  Qed.

  (* ---------- C08 (tags): print then parse is the identity on safe canonical tag sets ---------- *)
  Theorem tags_roundtrip m : keys_sorted m = true -> tag_safe m = true ->
    to_map unquote (line quote m) = Ok m.
  Proof.
    intros Hs Hsafe. rewrite (line_print m Hs).
    destruct m as [|kv1 tl] eqn:Em; [reflexivity|]. rewrite <- Em in *.
    destruct (line_pieces m Hsafe ltac:(rewrite Em; discriminate)) as (Hrc & Hsp & Hne).
    unfold tag_safe in Hsafe. apply andb_true_iff in Hsafe as [Hall _].
    destruct (render_pieces m Hall) as (_ & Hr2).
    unfold to_map, to_pairs. rewrite Hrc.
    destruct (print_tags quote m) as [|c0 r0] eqn:Ej; [congruence|]. rewrite Hsp.
    rewrite (pairs_of_flat m (render quote m) Hr2).
    rewrite (map_of_pairs_sorted m (keys_sorted_SS m Hs)). reflexivity.
  Qed.
End Law.

Lemma SS_keys_sorted m : StronglySorted klt m -> keys_sorted m = true.
Proof.
  induction 1 as [|[k v] l S IH A]; [reflexivity|]. cbn [keys_sorted]. destruct l as [|[k' v'] l']; [reflexivity|].
  inversion A as [|? ? H1 _]; subst. unfold klt in H1. cbn [fst] in H1. rewrite H1, IH. reflexivity.
Qed.
