(* The pointer ring of model/CList.v refines a list: `ring h p l` (p heads a ring whose elements,
   following next, are l, with matching prev pointers) is preserved by the operations the way the
   provider uses them -- TearOff removes the element, Append of a detached element in front of a
   ring conses it -- and nothing outside the ring is written. *)
From LR Require Import lib.Base model.CList.
From Coq Require Import Permutation.

Lemma next_set_next h x n y : cl_next (set_next h x n y) = if Nat.eqb y x then n else cl_next (h y).
Proof. unfold set_next, hupd. destruct (Nat.eqb y x); reflexivity. Qed.
Lemma prev_set_next h x n y : cl_prev (set_next h x n y) = cl_prev (h y).
Proof. unfold set_next, hupd. destruct (Nat.eqb y x) eqn:E; [apply Nat.eqb_eq in E; subst|]; reflexivity. Qed.
Lemma next_set_prev h x p y : cl_next (set_prev h x p y) = cl_next (h y).
Proof. unfold set_prev, hupd. destruct (Nat.eqb y x) eqn:E; [apply Nat.eqb_eq in E; subst|]; reflexivity. Qed.
Lemma prev_set_prev h x p y : cl_prev (set_prev h x p y) = if Nat.eqb y x then p else cl_prev (h y).
Proof. unfold set_prev, hupd. destruct (Nat.eqb y x); reflexivity. Qed.
Lemma set_next_other h x n y : y <> x -> set_next h x n y = h y.
Proof. intros H. unfold set_next, hupd. apply Nat.eqb_neq in H. rewrite H. reflexivity. Qed.
Lemma set_prev_other h x p y : y <> x -> set_prev h x p y = h y.
Proof. intros H. unfold set_prev, hupd. apply Nat.eqb_neq in H. rewrite H. reflexivity. Qed.

Ltac eqb_case a b :=
  let E := fresh "E" in destruct (Nat.eqb a b) eqn:E; [apply Nat.eqb_eq in E|apply Nat.eqb_neq in E].

(* ---- chains ---- *)
Lemma linked_app h a l1 x l2 z : linked h a (l1 ++ x :: l2) z <-> linked h a l1 x /\ linked h x l2 z.
Proof.
  revert a. induction l1 as [|b l1 IH]; intros a; cbn [app linked].
  - tauto.
  - rewrite IH. tauto.
Qed.

Lemma linked_frame h h' a l z :
  (forall x, In x (a :: l) -> cl_next (h' x) = cl_next (h x)) ->
  (forall x, In x (l ++ [z]) -> cl_prev (h' x) = cl_prev (h x)) ->
  linked h a l z -> linked h' a l z.
Proof.
  revert a. induction l as [|b l IH]; intros a Hn Hp; cbn [linked app] in *.
  - intros [H1 H2]. rewrite Hn by (left; reflexivity). rewrite Hp by (left; reflexivity). split; assumption.
  - intros (H1 & H2 & H3). rewrite Hn by (left; reflexivity). rewrite Hp by (left; reflexivity).
    split; [exact H1|]. split; [exact H2|].
    apply IH; [intros x Hx; apply Hn; right; exact Hx|intros x Hx; apply Hp; right; exact Hx|exact H3].
Qed.

(* the closed chain through a non-empty list *)
Definition closed (h : lheap) (l : list nat) : Prop :=
  match l with [] => False | x :: t => linked h x t x end.

Lemma closed_rot h l1 l2 : closed h (l1 ++ l2) -> closed h (l2 ++ l1).
Proof.
  destruct l1 as [|a l1]; [rewrite app_nil_r; auto|].
  destruct l2 as [|b l2]; [rewrite app_nil_r; auto|].
  cbn [app closed]. rewrite !linked_app. tauto.
Qed.

Lemma ring_closed h x l : ring h (Some x) l <-> (exists t, l = x :: t) /\ NoDup l /\ closed h l.
Proof.
  destruct l as [|y t]; cbn [ring closed].
  - split; [tauto|]. intros [[t H] _]. discriminate.
  - split.
    + intros (-> & H1 & H2). split; [eauto|]. split; assumption.
    + intros ([t' E] & H1 & H2). injection E as -> ->. auto.
Qed.

Lemma ring_none h l : ring h None l <-> l = [].
Proof. destruct l; cbn; split; intros H; auto; try discriminate; try contradiction. Qed.

Lemma ring_head_in h x l : ring h (Some x) l -> In x l.
Proof. destruct l as [|y t]; cbn; [tauto|]. intros (-> & _). left. reflexivity. Qed.

Lemma ring_nodup h p l : ring h p l -> NoDup l.
Proof. destruct p as [x|], l as [|y t]; cbn [ring]; intros H; [contradiction|apply H|constructor|contradiction]. Qed.

Lemma ring_frame h h' p l : (forall x, In x l -> h' x = h x) -> ring h p l -> ring h' p l.
Proof.
  intros F. destruct p as [x|], l as [|y t]; cbn [ring]; try tauto.
  intros (-> & H1 & H2). split; [reflexivity|]. split; [exact H1|].
  eapply linked_frame; [| |exact H2]; intros z Hz; rewrite F; auto.
  - apply in_app_or in Hz. destruct Hz as [Hz|[<-|[]]]; [right; exact Hz|left; reflexivity].
Qed.

(* the last element of a closed chain is the head's prev, and its next is the head *)
Lemma closed_last h e r z : linked h e (r ++ [z]) e -> cl_prev (h e) = z /\ cl_next (h z) = e.
Proof. intros H. apply linked_app in H. destruct H as [_ [H1 H2]]. auto. Qed.

Lemma ring_prev_in h hd l e : ring h (Some hd) l -> In e l ->
  In (cl_prev (h e)) l /\ (cl_prev (h e) = e -> l = [e]).
Proof.
  intros R I. apply ring_closed in R. destruct R as (_ & ND & C).
  apply in_split in I. destruct I as (l1 & l2 & ->).
  apply (closed_rot h l1 (e :: l2)) in C. cbn [app closed] in C.
  assert (NI : ~ In e (l2 ++ l1)).
  { apply NoDup_remove_2 in ND. intros H. apply ND. apply in_or_app. apply in_app_or in H. tauto. }
  destruct (l2 ++ l1) as [|b t] eqn:E0.
  - apply app_eq_nil in E0. destruct E0 as [-> ->]. cbn in *. destruct C as [_ C]. rewrite C. auto.
  - destruct (@exists_last _ (b :: t)) as (r & z & E); [discriminate|]. rewrite E in *.
    apply closed_last in C. destruct C as [C _]. rewrite C.
    assert (Iz : In z (l2 ++ l1)) by (rewrite E0; apply in_or_app; right; left; reflexivity).
    split.
    + apply in_or_app. apply in_app_or in Iz. destruct Iz; [right; right; assumption|left; assumption].
    + intros ->. exfalso. apply NI. apply in_or_app. right. left. reflexivity.
Qed.

(* ---- TearOff ---- *)
Lemma remove_mid (e : nat) l1 l2 : ~ In e l1 -> ~ In e l2 -> remove Nat.eq_dec e (l1 ++ e :: l2) = l1 ++ l2.
Proof.
  intros H1 H2. rewrite remove_app. cbn [remove]. destruct (Nat.eq_dec e e) as [_|N]; [|contradiction].
  rewrite !notin_remove by assumption. reflexivity.
Qed.

Definition unlinked (h : lheap) (e z b : nat) : lheap :=
  set_next (set_prev (set_prev (set_next h z b) b z) e e) e e.

Lemma unlinked_next h e z b x : cl_next (unlinked h e z b x) = if Nat.eqb x e then e else if Nat.eqb x z then b else cl_next (h x).
Proof. unfold unlinked. rewrite next_set_next, !next_set_prev, next_set_next. reflexivity. Qed.
Lemma unlinked_prev h e z b x : cl_prev (unlinked h e z b x) = if Nat.eqb x e then e else if Nat.eqb x b then z else cl_prev (h x).
Proof. unfold unlinked. rewrite prev_set_next, !prev_set_prev, prev_set_next. reflexivity. Qed.
Lemma unlinked_other h e z b x : x <> e -> x <> z -> x <> b -> unlinked h e z b x = h x.
Proof.
  intros H1 H2 H3. unfold unlinked. rewrite set_next_other, set_prev_other, set_prev_other, set_next_other by assumption. reflexivity.
Qed.

Lemma tearoff_spec h hd l e : ring h (Some hd) l -> In e l ->
  exists h' p', cl_tearoff h (Some hd) (Some e) = (h', p') /\
    ring h' p' (remove Nat.eq_dec e l) /\ self_linked h' e /\ (forall x, ~ In x l -> h' x = h x).
Proof.
  intros R I. apply ring_closed in R. destruct R as ([t0 E0] & ND & C).
  apply in_split in I. destruct I as (l1 & l2 & ->).
  assert (N1 : ~ In e l1 /\ ~ In e l2).
  { apply NoDup_remove_2 in ND. split; intros H; apply ND; apply in_or_app; tauto. }
  destruct N1 as [N1 N2].
  assert (ND' : NoDup (l1 ++ l2)) by (apply NoDup_remove_1 in ND; exact ND).
  rewrite remove_mid by assumption.
  apply (closed_rot h l1 (e :: l2)) in C. cbn [app closed] in C.
  assert (NI : ~ In e (l2 ++ l1)) by (intros H; apply in_app_or in H; tauto).
  assert (NDr : NoDup (l2 ++ l1)).
  { apply NoDup_remove_1 in ND. apply (Permutation_NoDup (l := l1 ++ l2)); [apply Permutation_app_comm|exact ND]. }
  destruct (l2 ++ l1) as [|b t] eqn:Er.
  - (* sole element *)
    apply app_eq_nil in Er. destruct Er as [-> ->]. cbn [app] in *. injection E0 as E1 E2. subst hd t0.
    cbn [linked] in C. destruct C as [C1 C2].
    exists h, None. unfold cl_tearoff. rewrite Nat.eqb_refl, C1, Nat.eqb_refl. cbn [andb].
    split; [reflexivity|]. split; [exact I|]. split; [split; assumption|]. reflexivity.
  - cbn [linked] in C. destruct C as (Cn & Cp & C).
    assert (Nb : b <> e) by (intros ->; apply NI; left; reflexivity).
    destruct (@exists_last _ (b :: t)) as (r & z & Ez); [discriminate|].
    assert (Cz : cl_prev (h e) = z /\ cl_next (h z) = e).
    { assert (C' : linked h e (r ++ [z]) e) by (rewrite <- Ez; cbn [linked]; auto). apply closed_last in C'. exact C'. }
    destruct Cz as [Cz1 Cz2].
    assert (Iz : In z (b :: t)) by (rewrite Ez; apply in_or_app; right; left; reflexivity).
    assert (Nz : z <> e) by (intros ->; apply NI; exact Iz).
    set (p' := if Nat.eqb hd e then Some b else Some hd).
    exists (unlinked h e z b), p'.
    assert (Hto : cl_tearoff h (Some hd) (Some e) = (unlinked h e z b, p')).
    { unfold cl_tearoff.
      assert (S : (Nat.eqb e hd && Nat.eqb (cl_next (h hd)) hd) = false).
      { eqb_case e hd; [subst hd; rewrite Cn; apply Nat.eqb_neq in Nb; rewrite Nb; reflexivity|reflexivity]. }
      rewrite S. unfold unlinked, p'. rewrite Cz1, Cn.
      rewrite (set_next_other h z b e) by (intros ->; apply Nz; reflexivity).
      rewrite Cn, Cz1. rewrite (Nat.eqb_sym hd e). eqb_case e hd; [subst hd; rewrite Cn|]; reflexivity. }
    split; [exact Hto|].
    assert (Cl : closed (unlinked h e z b) (b :: t)).
    { cbn [closed]. destruct r as [|b' r''].
      - (* b = z, t = [] *)
        cbn [app] in Ez. injection Ez as -> ->. cbn [linked].
        rewrite unlinked_next, unlinked_prev.
        apply Nat.eqb_neq in Nz. rewrite Nz, !Nat.eqb_refl. auto.
      - cbn [app] in Ez. injection Ez as <- ->.
        apply linked_app. apply linked_app in C. destruct C as [C _].
        assert (NDb : ~ In b (r'' ++ [z])) by (apply NoDup_cons_iff in NDr; tauto).
        assert (NDz : ~ In z (b :: r'')).
        { rewrite app_comm_cons in NDr. apply NoDup_remove_2 in NDr. rewrite app_nil_r in NDr. exact NDr. }
        split.
        + eapply linked_frame; [| |exact C].
          * intros x Hx. rewrite unlinked_next.
            assert (x <> e) by (intros ->; apply NI; rewrite app_comm_cons; apply in_or_app; left; exact Hx).
            assert (x <> z) by (intros ->; apply NDz; exact Hx).
            apply Nat.eqb_neq in H. apply Nat.eqb_neq in H0. rewrite H, H0. reflexivity.
          * intros x Hx. rewrite unlinked_prev.
            assert (x <> e) by (intros ->; apply NI; right; exact Hx).
            assert (x <> b) by (intros ->; apply NDb; exact Hx).
            apply Nat.eqb_neq in H. apply Nat.eqb_neq in H0. rewrite H, H0. reflexivity.
        + cbn [linked]. rewrite unlinked_next, unlinked_prev.
          apply Nat.eqb_neq in Nz. apply Nat.eqb_neq in Nb. rewrite Nz, Nb, !Nat.eqb_refl. auto. }
    split; [|split].
    + rewrite <- Er in Cl. apply closed_rot in Cl. unfold p'. destruct l1 as [|a l1'].
      * cbn [app] in *. rewrite app_nil_r in Er. injection E0 as E1 _. subst hd. rewrite Nat.eqb_refl. apply ring_closed.
        split; [rewrite Er; eauto|]. split; assumption.
      * cbn [app] in *. injection E0 as E1 _. subst hd.
        assert (Hne : a <> e) by (intros ->; apply N1; left; reflexivity).
        apply Nat.eqb_neq in Hne. rewrite Hne. apply ring_closed. split; [eauto|]. split; assumption.
    + split; [rewrite unlinked_next|rewrite unlinked_prev]; rewrite Nat.eqb_refl; reflexivity.
    + intros x Hx. apply unlinked_other.
      * intros ->. apply Hx. apply in_or_app. right. left. reflexivity.
      * intros ->. apply Hx. rewrite <- Er in Iz. apply in_or_app. apply in_app_or in Iz. destruct Iz; [right; right; assumption|left; assumption].
      * intros ->. apply Hx. assert (Ib : In b (l2 ++ l1)) by (rewrite Er; left; reflexivity).
        apply in_or_app. apply in_app_or in Ib. destruct Ib; [right; right; assumption|left; assumption].
Qed.

(* ---- Append of a detached element in front of a ring: e.Append(head) ---- *)
Lemma append_spec h p l e : self_linked h e -> ring h p l -> ~ In e l ->
  exists h', cl_append h (Some e) p = (h', Some e) /\ ring h' (Some e) (e :: l) /\
    (forall x, x <> e -> ~ In x l -> h' x = h x).
Proof.
  intros [Sn Sp] R NI. destruct p as [c|].
  2:{ apply ring_none in R. subst l. exists h. cbn. split; [reflexivity|]. split; [|reflexivity].
      split; [reflexivity|]. split; [constructor; [intros []|constructor]|]. split; assumption. }
  pose proof (ring_head_in _ _ _ R) as Ic.
  apply ring_closed in R. destruct R as ([t E] & ND & C). subst l.
  assert (Nc : c <> e) by (intros ->; apply NI; left; reflexivity).
  destruct (@exists_last _ (c :: t)) as (r & z & Ez); [discriminate|].
  assert (Iz : In z (c :: t)) by (rewrite Ez; apply in_or_app; right; left; reflexivity).
  assert (Nz : z <> e) by (intros ->; apply NI; exact Iz).
  assert (Cz : cl_prev (h c) = z /\ cl_next (h z) = c).
  { cbn [closed] in C. destruct r as [|c' r''].
    - cbn [app] in Ez. injection Ez as E1 E2. subst z t. cbn [linked] in C. destruct C; auto.
    - cbn [app] in Ez. injection Ez as E1 E2. subst c' t. apply closed_last in C. exact C. }
  destruct Cz as [Cz1 Cz2].
  set (h' := set_next (set_prev (set_prev (set_next h e c) e z) c e) z e).
  assert (Hn : forall x, cl_next (h' x) = if Nat.eqb x z then e else if Nat.eqb x e then c else cl_next (h x)).
  { intros x. unfold h'. rewrite next_set_next, !next_set_prev, next_set_next. reflexivity. }
  assert (Hp : forall x, cl_prev (h' x) = if Nat.eqb x c then e else if Nat.eqb x e then z else cl_prev (h x)).
  { intros x. unfold h'. rewrite prev_set_next, !prev_set_prev, prev_set_next. reflexivity. }
  assert (Bez : Nat.eqb e z = false) by (apply Nat.eqb_neq; intros Q; apply Nz; symmetry; exact Q).
  assert (Bze : Nat.eqb z e = false) by (apply Nat.eqb_neq; exact Nz).
  assert (Bec : Nat.eqb e c = false) by (apply Nat.eqb_neq; intros Q; apply Nc; symmetry; exact Q).
  assert (Bce : Nat.eqb c e = false) by (apply Nat.eqb_neq; exact Nc).
  exists h'. split.
  { unfold cl_append. rewrite Sn. unfold h'.
    rewrite (prev_set_next h e c c), Cz1. reflexivity. }
  split.
  - apply ring_closed. split; [eauto|]. split; [constructor; assumption|].
    cbn [closed linked]. rewrite Hn, Hp.
    rewrite Bez, !Nat.eqb_refl.
    split; [reflexivity|]. split; [reflexivity|].
    cbn [closed] in C. destruct r as [|c' r''].
    + cbn [app] in Ez. injection Ez as E1 E2. subst z t. cbn [linked]. rewrite Hn, Hp.
      rewrite !Nat.eqb_refl. rewrite Bec. auto.
    + cbn [app] in Ez. injection Ez as E1 E2. subst c' t.
      apply linked_app. apply linked_app in C. destruct C as [C _].
      assert (NDc : ~ In c (r'' ++ [z])) by (apply NoDup_cons_iff in ND; tauto).
      assert (NDz : ~ In z (c :: r'')).
      { rewrite app_comm_cons in ND. apply NoDup_remove_2 in ND. rewrite app_nil_r in ND. exact ND. }
      split.
      * eapply linked_frame; [| |exact C].
        -- intros x Hx. rewrite Hn.
           assert (x <> e) by (intros ->; apply NI; rewrite app_comm_cons; apply in_or_app; left; exact Hx).
           assert (x <> z) by (intros ->; apply NDz; exact Hx).
           apply Nat.eqb_neq in H. apply Nat.eqb_neq in H0. rewrite H, H0. reflexivity.
        -- intros x Hx. rewrite Hp.
           assert (x <> e) by (intros ->; apply NI; right; exact Hx).
           assert (x <> c) by (intros ->; apply NDc; exact Hx).
           apply Nat.eqb_neq in H. apply Nat.eqb_neq in H0. rewrite H, H0. reflexivity.
      * cbn [linked]. rewrite Hn, Hp. rewrite !Nat.eqb_refl. rewrite Bec. auto.
  - intros x H1 H2. unfold h'.
    assert (x <> c) by (intros ->; apply H2; exact Ic).
    assert (x <> z) by (intros ->; apply H2; exact Iz).
    rewrite set_next_other, set_prev_other, set_prev_other, set_next_other by assumption. reflexivity.
Qed.

Lemma cl_new_self h a : self_linked (cl_new h a) a.
Proof. unfold self_linked, cl_new, hupd. rewrite Nat.eqb_refl. split; reflexivity. Qed.
Lemma cl_new_other h a x : x <> a -> cl_new h a x = h x.
Proof. intros H. unfold cl_new, hupd. apply Nat.eqb_neq in H. rewrite H. reflexivity. Qed.

(* ---- reading the list back; Len ---- *)
Lemma walk_linked h a t z n : linked h a t z -> ~ In z t -> length t <= n -> cl_walk n h z (cl_next (h a)) = t.
Proof.
  revert a n. induction t as [|b t IH]; intros a n L NI Hn; cbn [linked length] in *.
  - destruct L as [L1 _]. rewrite L1. destruct n; cbn [cl_walk]; [reflexivity|]. rewrite Nat.eqb_refl. reflexivity.
  - destruct L as (L1 & L2 & L3). rewrite L1. destruct n as [|n]; [lia|]. cbn [cl_walk].
    assert (b <> z) by (intros ->; apply NI; left; reflexivity).
    apply Nat.eqb_neq in H. rewrite H. f_equal. apply IH; [exact L3| |lia]. intros H'. apply NI. right. exact H'.
Qed.

Lemma ring_to_list h p l n : ring h p l -> length l <= n -> cl_to_list n h p = l.
Proof.
  destruct p as [x|], l as [|y t]; cbn [ring]; try tauto.
  intros (-> & ND & L) Hn. cbn [cl_to_list length] in *. f_equal.
  apply NoDup_cons_iff in ND. destruct ND as [NI _].
  apply walk_linked; [exact L|exact NI|lia].
Qed.

Lemma len_linked h a t z cnt n : linked h a t z -> ~ In z t -> length t <= n ->
  cl_len_loop n h z (cl_next (h a)) cnt = Some (cnt + length t).
Proof.
  revert a n cnt. induction t as [|b t IH]; intros a n cnt L NI Hn; cbn [linked length] in *.
  - destruct L as [L1 _]. rewrite L1. destruct n; cbn [cl_len_loop]; rewrite Nat.eqb_refl; f_equal; lia.
  - destruct L as (L1 & L2 & L3). rewrite L1. destruct n as [|n]; [lia|]. cbn [cl_len_loop].
    assert (b <> z) by (intros ->; apply NI; left; reflexivity).
    apply Nat.eqb_neq in H. rewrite H. rewrite (IH b n (S cnt)); [f_equal; lia|exact L3| |lia].
    intros H'. apply NI. right. exact H'.
Qed.

(* CLElement.Len() is the length of the list *)
Lemma ring_len h p l n : ring h p l -> length l <= n -> cl_len n h p = Some (length l).
Proof.
  destruct p as [x|], l as [|y t]; cbn [ring]; try tauto.
  intros (-> & ND & L) Hn. cbn [cl_len length] in *.
  apply NoDup_cons_iff in ND. destruct ND as [NI _].
  rewrite (len_linked h y t y 1 n L NI) by lia. reflexivity.
Qed.
