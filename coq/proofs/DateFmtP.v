(* Lemmas about model/DateFmt.v and model/DateOk.v: soundness of format_ok — for a format that
   passes the check, the text of every expressible instant, alone or followed by a separator and
   arbitrary text, is parsed by that format to the instant it denotes. *)
From LR Require Import lib.Base model.GoTime model.Regex model.DateFmt model.DateOk proofs.GoTimeP proofs.RegexP.
From Coq Require Import ZifyBool Strings.String.
Open Scope bool_scope.
Open Scope Z_scope.
Ltac Zify.zify_post_hook ::= Z.div_mod_to_equations.

(* ------------------------------------------------------------------ what follows a token *)

Definition head_in (nf : bytes) (r : bytes) : Prop := match r with [] => True | b :: _ => In b nf end.

Lemma no_byte_head p nf r : no_byte p nf = true -> head_in nf r -> match r with [] => True | b :: _ => p b = false end.
Proof.
  intros H Hh. destruct r as [|b r]; [exact I|]. cbn in Hh. unfold no_byte in H.
  rewrite forallb_forall in H. specialize (H b Hh). apply negb_true_iff in H. exact H.
Qed.
Lemma nodigit_of nf r : no_byte is_digit nf = true -> head_in nf r -> nodigit_head r.
Proof. intros H Hh. pose proof (no_byte_head _ _ _ H Hh) as G. destruct r; exact G. Qed.

(* ------------------------------------------------------------------ the state change of a token *)

Definition upd_kind (k : kind) (v : Z) (abbr : bytes) (s : pst) : pst :=
  match k with
  | KYYYY => set_year v s
  | KYY => set_year (if 69 <=? v then v + 1900 else v + 2000) s
  | KMMMM | KMMM | KMM | KM => set_month v s
  | KDDDD | KDDD => s
  | KDD | K_D | KD => set_day v s
  | KHH | Khh | Kh => set_hour v s
  | Kmm | Km => set_min v s
  | Kss | Ks => set_sec v s
  | KSSS => set_nsec (v * 1000000) s
  | KP => if v <? 12 then set_am s else set_pm s
  | KZ5 | KZ4 => set_off (v * 60) s
  | KZ3 => if bytes_eqb abbr (B "UTC") then set_utc s else set_zname abbr s
  end.

Lemma d2_digits v : 0 <= v < 100 -> 0 <= v / 10 <= 9 /\ 0 <= v mod 10 <= 9 /\ v / 10 * 10 + v mod 10 = v.
Proof. lia. Qed.

Lemma getnum_d2 v r fx : 0 <= v < 100 -> getnum (d2 v ++ r) fx = Some (v, r).
Proof.
  intros Hv. destruct (d2_digits v Hv) as (A & B0 & E). unfold d2. cbn [app].
  rewrite getnum_two by assumption. rewrite E. reflexivity.
Qed.
Lemma getnum_d12 v r : 0 <= v < 100 -> nodigit_head r -> getnum (d12 v ++ r) false = Some (v, r).
Proof.
  intros Hv Hr. unfold d12. destruct (v <? 10) eqn:E.
  - cbn [app]. apply getnum_one; [lia|exact Hr].
  - apply getnum_d2. exact Hv.
Qed.

Lemma sec_tail (tl : list tok) nf r (s : pst) :
  sec_ok tl nf = true -> head_in nf r ->
  match r with
  | c :: d :: _ =>
      if comma_or_period c && is_digit d then
        match next_std (map elem_of_tok tl) with
        | Some LFrac9 => Some (r, s)
        | _ => let '(ds, r') := span_digits (List.tl r) in
               match frac_nanos ds with Some n => Some (r', set_nsec n s) | None => None end
        end
      else Some (r, s)
  | _ => Some (r, s)
  end = Some (r, s).
Proof.
  intros H Hh. destruct r as [|c [|d r]]; try reflexivity.
  unfold sec_ok in H. destruct (next_std (map elem_of_tok tl)) as [e|] eqn:N.
  - destruct (comma_or_period c && is_digit d) eqn:E; [|reflexivity].
    destruct e; try reflexivity;
    (pose proof (no_byte_head _ _ _ H Hh) as G; cbn in G; rewrite G in E; discriminate).
  - pose proof (no_byte_head _ _ _ H Hh) as G. cbn in G. rewrite G. reflexivity.
Qed.

Lemma month_cases v : 1 <= v < 1 + 12 -> v = 1 \/ v = 2 \/ v = 3 \/ v = 4 \/ v = 5 \/ v = 6 \/ v = 7 \/ v = 8 \/ v = 9 \/ v = 10 \/ v = 11 \/ v = 12.
Proof. lia. Qed.
Lemma wd_cases v : 0 <= v < 0 + 7 -> v = 0 \/ v = 1 \/ v = 2 \/ v = 3 \/ v = 4 \/ v = 5 \/ v = 6.
Proof. lia. Qed.

Lemma lookup_month_long v r : 1 <= v < 1 + 12 -> lookup (map B month_names) (month_name v ++ r) = Some (v - 1, r).
Proof. intros H. destruct (month_cases v H) as [E|[E|[E|[E|[E|[E|[E|[E|[E|[E|[E|E]]]]]]]]]]]; subst v; vm_compute; reflexivity. Qed.
Lemma lookup_month_short v r : 1 <= v < 1 + 12 -> lookup (map short3 month_names) (firstn 3 (month_name v) ++ r) = Some (v - 1, r).
Proof. intros H. destruct (month_cases v H) as [E|[E|[E|[E|[E|[E|[E|[E|[E|[E|[E|E]]]]]]]]]]]; subst v; vm_compute; reflexivity. Qed.
Lemma lookup_day_long v r : 0 <= v < 0 + 7 -> exists i, lookup (map B day_names) (day_name v ++ r) = Some (i, r).
Proof. intros H. destruct (wd_cases v H) as [E|[E|[E|[E|[E|[E|E]]]]]]; subst v; eexists; vm_compute; reflexivity. Qed.
Lemma lookup_day_short v r : 0 <= v < 0 + 7 -> exists i, lookup (map short3 day_names) (firstn 3 (day_name v) ++ r) = Some (i, r).
Proof. intros H. destruct (wd_cases v H) as [E|[E|[E|[E|[E|[E|E]]]]]]; subst v; eexists; vm_compute; reflexivity. Qed.

(* ------------------------------------------------------------------ time.Parse's element on the token's text *)

Lemma atoi4 a b c d : 0 <= a <= 9 -> 0 <= b <= 9 -> 0 <= c <= 9 -> 0 <= d <= 9 ->
  atoi [digit_byte a; digit_byte b; digit_byte c; digit_byte d] = Some (((a * 10 + b) * 10 + c) * 10 + d).
Proof.
  intros Ha Hb Hc Hd.
  assert (E : atoi [digit_byte a; digit_byte b; digit_byte c; digit_byte d] = digits_val 0 [digit_byte a; digit_byte b; digit_byte c; digit_byte d]).
  { digit_cases a; reflexivity. }
  rewrite E. cbn [digits_val]. rewrite !digit_is by assumption. rewrite !digit_val by assumption. f_equal.
Qed.
Lemma atoi2 a b : 0 <= a <= 9 -> 0 <= b <= 9 -> atoi [digit_byte a; digit_byte b] = Some (a * 10 + b).
Proof.
  intros Ha Hb.
  assert (E : atoi [digit_byte a; digit_byte b] = digits_val 0 [digit_byte a; digit_byte b]).
  { digit_cases a; reflexivity. }
  rewrite E. cbn [digits_val]. rewrite !digit_is by assumption. rewrite !digit_val by assumption. f_equal.
Qed.

Lemma pe_year4 nxt v r s : 0 <= v < 10000 -> parse_elem LYear4 nxt (d4 v ++ r) s = Some (r, set_year v s).
Proof.
  intros Hv. unfold d4. cbn [app parse_elem].
  rewrite digit_is by lia. rewrite atoi4 by lia.
  replace (((v / 1000 * 10 + v / 100 mod 10) * 10 + v / 10 mod 10) * 10 + v mod 10) with v by lia. reflexivity.
Qed.
Lemma pe_year2 nxt v r s : 0 <= v < 100 ->
  parse_elem LYear2 nxt (d2 v ++ r) s = Some (r, set_year (if 69 <=? v then v + 1900 else v + 2000) s).
Proof.
  intros Hv. unfold d2. cbn [app parse_elem]. rewrite atoi2 by lia.
  replace (v / 10 * 10 + v mod 10) with v by lia. reflexivity.
Qed.

Lemma pe_frac nxt v r s : 0 <= v < 1000 -> nodigit_head r ->
  parse_elem LFrac9 nxt (x2e :: d3 v ++ r) s = Some (r, set_nsec (v * 1000000) s).
Proof.
  intros Hv Hr. unfold d3. cbn [app parse_elem List.tl].
  change (comma_or_period x2e) with true. rewrite digit_is by lia. cbn [andb].
  rewrite span_digits_cons by lia. rewrite span_digits_cons by lia. rewrite span_digits_cons by lia.
  rewrite (span_digits_stop r Hr). cbn [fst snd].
  unfold frac_nanos. cbn [firstn List.length digits_val]. rewrite !digit_is by lia. rewrite !digit_val by lia.
  change (pow10 (9 - 3)) with 1000000.
  replace ((0 * 10 + v / 100) * 10 + v / 10 mod 10) with (v / 10) by lia.
  replace (v / 10 * 10 + v mod 10) with v by lia. reflexivity.
Qed.

Lemma tz_offset_ok v : -1440 < v < 1440 ->
  tz_offset (if v <? 0 then x2d else x2b) (d2 (Z.abs v / 60)) (d2 (Z.abs v mod 60)) = Some (v * 60).
Proof.
  intros Hv. unfold tz_offset.
  pose proof (getnum_d2 (Z.abs v / 60) [] true ltac:(lia)) as G1. rewrite app_nil_r in G1. rewrite G1.
  pose proof (getnum_d2 (Z.abs v mod 60) [] true ltac:(lia)) as G2. rewrite app_nil_r in G2. rewrite G2.
  assert ((24 <? Z.abs v / 60) || (60 <? Z.abs v mod 60) = false) as -> by lia.
  destruct (v <? 0) eqn:E; [change (byte_eqb x2d x2b) with false; change (byte_eqb x2d x2d) with true|change (byte_eqb x2b x2b) with true]; cbv iota; f_equal; lia.
Qed.

Lemma pe_tz4 nxt v r s : -1440 < v < 1440 -> parse_elem LTZNum nxt (rv KZ4 v ++ r) s = Some (r, set_off (v * 60) s).
Proof.
  intros Hv. cbn [rv]. unfold d2 at 1 2. cbn [app parse_elem].
  pose proof (tz_offset_ok v Hv) as T. unfold d2 in T. rewrite T. reflexivity.
Qed.
Lemma pe_tz5 nxt v r s : -1440 < v < 1440 -> parse_elem LTZColon nxt (rv KZ5 v ++ r) s = Some (r, set_off (v * 60) s).
Proof.
  intros Hv. cbn [rv]. unfold d2 at 1 2. cbn [app parse_elem]. change (byte_eqb x3a x3a) with true.
  pose proof (tz_offset_ok v Hv) as T. unfold d2 in T. rewrite T. reflexivity.
Qed.

Lemma B_AM : B "AM" = [x41; x4d]. Proof. reflexivity. Qed.
Lemma B_PM : B "PM" = [x50; x4d]. Proof. reflexivity. Qed.

Lemma pe_kind k i tl nf r s v : k <> KZ3 -> vlo k <= v < vlo k + Z.of_nat (vn k) ->
  tok_lay_ok (TK k i) tl nf = true -> head_in nf r ->
  parse_elem (elem_of_kind k) (map elem_of_tok tl) (rv k v ++ r) s = Some (r, upd_kind k v [] s).
Proof.
  intros Hk Hv Hl Hh. destruct k; cbn [vlo vn Z.of_nat] in Hv; cbn [tok_lay_ok] in Hl; cbn [elem_of_kind rv upd_kind]; try congruence.
  - (* YYYY *) apply pe_year4. lia.
  - (* YY *) apply pe_year2. lia.
  - (* MMMM *) cbn [parse_elem]. rewrite lookup_month_long by lia. replace (v - 1 + 1) with v by lia. reflexivity.
  - (* MMM *) cbn [parse_elem]. rewrite lookup_month_short by lia. replace (v - 1 + 1) with v by lia. reflexivity.
  - (* MM *) cbn [parse_elem]. rewrite getnum_d2 by lia. assert ((v <=? 0) || (12 <? v) = false) as -> by lia. reflexivity.
  - (* M *) cbn [parse_elem]. rewrite getnum_d12; [|lia|eapply nodigit_of; eassumption]. assert ((v <=? 0) || (12 <? v) = false) as -> by lia. reflexivity.
  - (* DDDD *) cbn [parse_elem]. destruct (lookup_day_long v r ltac:(lia)) as [j ->]. reflexivity.
  - (* DDD *) cbn [parse_elem]. destruct (lookup_day_short v r ltac:(lia)) as [j ->]. reflexivity.
  - (* DD *) cbn [parse_elem]. assert (E : match d2 v ++ r with x20 :: _ => d2 v ++ r | _ => d2 v ++ r end = d2 v ++ r) by (destruct (d2 v ++ r) as [|[] ?]; reflexivity).
    rewrite getnum_d2 by lia. reflexivity.
  - (* _D *) destruct (v <? 10) eqn:E.
    + cbn [app parse_elem]. rewrite getnum_one; [reflexivity|lia|eapply nodigit_of; eassumption].
    + unfold d2. cbn [app parse_elem].
      assert (N : byte_eqb (digit_byte (v / 10)) x20 = false) by (apply digit_not_sp; lia).
      destruct (digit_byte (v / 10)) eqn:D; try discriminate N; rewrite <- D;
      (rewrite getnum_two by lia; replace (v / 10 * 10 + v mod 10) with v by lia; reflexivity).
  - (* D *) cbn [parse_elem]. rewrite getnum_d12; [reflexivity|lia|eapply nodigit_of; eassumption].
  - (* HH *) cbn [parse_elem]. rewrite getnum_d2 by lia. assert (24 <=? v = false) as -> by lia. reflexivity.
  - (* hh *) cbn [parse_elem]. rewrite getnum_d2 by lia. assert (12 <? v = false) as -> by lia. reflexivity.
  - (* h *) cbn [parse_elem]. rewrite getnum_d12; [|lia|eapply nodigit_of; eassumption]. assert (12 <? v = false) as -> by lia. reflexivity.
  - (* mm *) cbn [parse_elem]. rewrite getnum_d2 by lia. assert (60 <=? v = false) as -> by lia. reflexivity.
  - (* m *) cbn [parse_elem]. rewrite getnum_d12; [|lia|eapply nodigit_of; eassumption]. assert (60 <=? v = false) as -> by lia. reflexivity.
  - (* ss *) cbn [parse_elem]. rewrite getnum_d2 by lia. assert (60 <=? v = false) as -> by lia.
    apply (sec_tail tl nf r (set_sec v s)); assumption.
  - (* s *) apply andb_true_iff in Hl as [Hl1 Hl2]. cbn [parse_elem]. rewrite getnum_d12; [|lia|eapply nodigit_of; eassumption].
    assert (60 <=? v = false) as -> by lia. apply (sec_tail tl nf r (set_sec v s)); assumption.
  - (* .SSS *) apply pe_frac; [lia|eapply nodigit_of; eassumption].
  - (* P *) destruct (v <? 12); [rewrite B_AM|rewrite B_PM]; reflexivity.
  - (* ZZZZZ *) apply pe_tz5. lia.
  - (* ZZZZ *) apply pe_tz4. lia.
Qed.

Lemma pe_underD_cut nxt v r s nf : 1 <= v < 32 -> no_byte is_digit nf = true -> head_in nf r ->
  parse_elem LDayUnder nxt (cut_sp (rv K_D v ++ r)) s = Some (r, set_day v s).
Proof.
  intros Hv Hn Hh. cbn [rv]. destruct (v <? 10) eqn:E.
  - cbn [app]. change (cut_sp (x20 :: digit_byte v :: r)) with (cut_sp (digit_byte v :: r)).
    assert (N : byte_eqb (digit_byte v) x20 = false) by (apply digit_not_sp; lia).
    rewrite (cut_sp_nosp _ _ N). cbn [parse_elem].
    destruct (digit_byte v) eqn:D; try discriminate N; rewrite <- D;
    (rewrite getnum_one; [reflexivity|lia|eapply nodigit_of; eassumption]).
  - unfold d2. cbn [app].
    assert (N : byte_eqb (digit_byte (v / 10)) x20 = false) by (apply digit_not_sp; lia).
    rewrite (cut_sp_nosp _ _ N). cbn [parse_elem].
    destruct (digit_byte (v / 10)) eqn:D; try discriminate N; rewrite <- D;
    (rewrite getnum_two by lia; replace (v / 10 * 10 + v mod 10) with v by lia; reflexivity).
Qed.

Lemma pe_zone i tl nf nxt abbr r s : In abbr zones -> tok_lay_ok (TK KZ3 i) tl nf = true -> head_in nf r ->
  parse_elem LTZName nxt (abbr ++ r) s = Some (r, upd_kind KZ3 0 abbr s).
Proof.
  intros Hz Hl Hh. cbn [tok_lay_ok] in Hl. apply andb_true_iff in Hl as [Hu Hs].
  pose proof (no_byte_head _ _ _ Hu Hh) as Gu. pose proof (no_byte_head _ _ _ Hs Hh) as Gs.
  destruct Hz as [<-|[<-|[<-|[]]]].
  - reflexivity.
  - (* GMT *) change (B "GMT" ++ r) with (x47 :: x4d :: x54 :: r). cbn [upd_kind].
    change (bytes_eqb (B "GMT") (B "UTC")) with false. cbv iota.
    unfold parse_elem. change (starts (B "UTC") (x47 :: x4d :: x54 :: r)) with (@None bytes).
    assert (Z3 : zone_len (x47 :: x4d :: x54 :: r) = Some 3%nat).
    { unfold zone_len. cbn [List.length Nat.ltb Nat.leb].
      change (starts (B "ChST") (x47 :: x4d :: x54 :: r)) with (@None bytes).
      change (starts (B "MeST") (x47 :: x4d :: x54 :: r)) with (@None bytes). cbn [orb].
      change (starts (B "GMT") (x47 :: x4d :: x54 :: r)) with (Some r).
      destruct r as [|b r]; [reflexivity|]. unfold signed_offset_len. unfold is_sign in Gs. rewrite Gs. reflexivity. }
    rewrite Z3. reflexivity.
  - (* WET *) change (B "WET" ++ r) with (x57 :: x45 :: x54 :: r). cbn [upd_kind].
    change (bytes_eqb (B "WET") (B "UTC")) with false. cbv iota.
    unfold parse_elem. change (starts (B "UTC") (x57 :: x45 :: x54 :: r)) with (@None bytes).
    assert (Z3 : zone_len (x57 :: x45 :: x54 :: r) = Some 3%nat).
    { unfold zone_len. cbn [List.length Nat.ltb Nat.leb].
      change (starts (B "ChST") (x57 :: x45 :: x54 :: r)) with (@None bytes).
      change (starts (B "MeST") (x57 :: x45 :: x54 :: r)) with (@None bytes). cbn [orb].
      change (starts (B "GMT") (x57 :: x45 :: x54 :: r)) with (@None bytes).
      change (byte_eqb x57 x2b || byte_eqb x57 x2d) with false. cbv iota.
      assert (C : count_upper 6 (x57 :: x45 :: x54 :: r) = 3%nat).
      { cbn [count_upper]. change (is_upper x57) with true. change (is_upper x45) with true. change (is_upper x54) with true. cbv iota.
        destruct r as [|b r]; [reflexivity|]. rewrite Gu. reflexivity. }
      rewrite C. reflexivity. }
    rewrite Z3. reflexivity.
Qed.

(* ------------------------------------------------------------------ tokens *)

Definition upd_tok (t : tok) (c : civil) (s : pst) : pst :=
  match t with TK k _ => upd_kind k (cv k c) (c_abbr c) s | _ => s end.

Lemma hour12_range h : 0 <= h < 24 -> 1 <= hour12 h <= 12.
Proof. intros H. unfold hour12. cbv zeta. destruct (h mod 12 =? 0) eqn:E; lia. Qed.

Lemma cv_range l c k : civil_ok l c -> k <> KZ3 -> vlo k <= cv k c < vlo k + Z.of_nat (vn k).
Proof.
  intros (Hy & (Hm & Hd) & Hh & Hmi & Hs & Hms & Hoff & _) Hk.
  pose proof (days_in_month_le_31 (c_y c) (c_mo c)) as D31.
  pose proof (hour12_range (c_h c) Hh) as H12.
  destruct k; cbn [vlo vn cv Z.of_nat]; try congruence; try lia.
  - unfold weekday, weekday_of_days. lia.
  - unfold weekday, weekday_of_days. lia.
Qed.

Lemma in_zrange lo n z : lo <= z < lo + Z.of_nat n -> In z (zrange lo n).
Proof.
  intros H. unfold zrange. apply in_map_iff. exists (Z.to_nat (z - lo)). split; [lia|]. apply in_seq. lia.
Qed.

Lemma kind_eq_dec_KZ3 (k : kind) : {k = KZ3} + {k <> KZ3}.
Proof. destruct k; (left; reflexivity) || (right; discriminate). Qed.

Lemma kind_eq_dec_K_D (k : kind) : {k = K_D} + {k <> K_D}.
Proof. destruct k; (left; reflexivity) || (right; discriminate). Qed.

Lemma vals_eq k : vals k = vals_spec k.
Proof. destruct k; vm_compute; reflexivity. Qed.

Lemma render_in_tvals l c t : civil_ok l c -> In (render_tok t c) (tvals t).
Proof.
  intros Hc. destruct t as [k i|b|n]; cbn [render_tok tvals]; [|left; reflexivity|left; reflexivity].
  destruct (kind_eq_dec_KZ3 k) as [->|Hk].
  - cbn. destruct Hc as (_ & _ & _ & _ & _ & _ & _ & Hz & _). exact Hz.
  - assert (E : render_kind k c = rv k (cv k c)) by (destruct k; try reflexivity; congruence).
    assert (V : vals k = map (rv k) (zrange (vlo k) (vn k))) by (rewrite vals_eq; destruct k; try reflexivity; congruence).
    rewrite E, V. apply in_map. apply in_zrange. eapply cv_range; eassumption.
Qed.

Lemma add_byte_in b acc : In b (add_byte b acc).
Proof.
  unfold add_byte. destruct (existsb (byte_eqb b) acc) eqn:E; [|left; reflexivity].
  apply existsb_exists in E as (x & Hx & Ex). apply byte_eqb_eq in Ex. subst x. exact Hx.
Qed.
Lemma add_byte_keep x b acc : In x acc -> In x (add_byte b acc).
Proof. unfold add_byte. destruct (existsb (byte_eqb b) acc); [auto|right; assumption]. Qed.

Lemma firsts_spec t b w : In (b :: w) (tvals t) -> In b (firsts t).
Proof.
  unfold firsts. induction (tvals t) as [|x L IH]; cbn; intros H; [elim H|].
  destruct H as [->|H].
  - apply add_byte_in.
  - destruct x as [|b' x']; [apply IH; exact H|]. apply add_byte_keep. apply IH. exact H.
Qed.

(* what tok_rx_ok says about one text of the token *)
Lemma tok_rx_ok_spec a t nf w : tok_rx_ok a t nf = true -> In w (tvals t) ->
  w <> [] /\ exists cs, dmatchS a w = Some ([], cs) /\ forall c, In c cs -> no_byte (cls_has c) nf = true.
Proof.
  unfold tok_rx_ok. intros H Hw. rewrite forallb_forall in H. specialize (H w Hw).
  destruct w as [|b w]; [discriminate|]. split; [discriminate|].
  destruct (dmatchS a (b :: w)) as [[[|] cs]|]; try discriminate.
  exists cs. split; [reflexivity|]. intros c Hc. rewrite forallb_forall in H. apply H. exact Hc.
Qed.

Definition next_firsts (tl : list tok) (endf : bytes) : bytes := match tl with t' :: _ => firsts t' | [] => endf end.

Lemma toks_ok_cons terms t tl : toks_ok terms (t :: tl) = true ->
  exists a, atoms_of_tok terms t = Some a /\ tok_rx_ok a t (next_firsts tl seps) = true /\
            tok_lay_ok t tl (next_firsts tl []) = true /\ tok_nosp_ok t = true /\ toks_ok terms tl = true.
Proof.
  cbn [toks_ok]. destruct (atoms_of_tok terms t) as [a|]; [|discriminate]. intros H.
  apply andb_true_iff in H as [H H4]. apply andb_true_iff in H as [H H3]. apply andb_true_iff in H as [H1 H2].
  exists a. repeat split; assumption.
Qed.

(* the head of the text of the remaining tokens is one of the first bytes of the next token *)
Lemma head_next terms l c tl : civil_ok l c -> toks_ok terms tl = true -> head_in (next_firsts tl []) (render_toks tl c).
Proof.
  intros Hc Hok. destruct tl as [|t' tl']; [exact I|].
  destruct (toks_ok_cons _ _ _ Hok) as (a & _ & Hrx & _).
  pose proof (render_in_tvals l c t' Hc) as Hin.
  destruct (tok_rx_ok_spec _ _ _ _ Hrx Hin) as [Hne _].
  cbn [render_toks flat_map next_firsts]. destruct (render_tok t' c) as [|b w] eqn:E; [congruence|].
  cbn. eapply firsts_spec. exact Hin.
Qed.

Lemma nosp_head l c t : civil_ok l c -> tok_nosp_ok t = true ->
  (forall i, t <> TK K_D i) -> (forall n, t <> TSp n) -> forall r, cut_sp (render_tok t c ++ r) = render_tok t c ++ r.
Proof.
  intros Hc Hn H1 H2 r. pose proof (render_in_tvals l c t Hc) as Hin.
  assert (F : forallb (fun w => match w with b :: _ => negb (byte_eqb b x20) | [] => false end) (tvals t) = true).
  { unfold tok_nosp_ok in Hn. apply orb_true_iff in Hn as [Hn|Hn]; [|exact Hn].
    destruct t as [k i|b|n]; [destruct k; try discriminate Hn; elim (H1 i); reflexivity|discriminate Hn|elim (H2 n); reflexivity]. }
  rewrite forallb_forall in F. specialize (F _ Hin). destruct (render_tok t c) as [|b w]; [discriminate|].
  cbn [app]. apply cut_sp_nosp. apply negb_true_iff. exact F.
Qed.

Definition spre (pre : bool) (w : bytes) : bytes := if pre then cut_sp w else w.

(* one token other than a run of blanks *)
Lemma pe_tok l c t tl r s pre : civil_ok l c -> tok_lay_ok t tl (next_firsts tl []) = true -> tok_nosp_ok t = true ->
  head_in (next_firsts tl []) r -> (forall n, t <> TSp n) ->
  parse_elem (elem_of_tok t) (map elem_of_tok tl) (spre pre (render_tok t c ++ r)) s = Some (r, upd_tok t c s).
Proof.
  intros Hc Hl Hn Hh Hsp.
  destruct t as [k i|b|n]; [| |elim (Hsp n); reflexivity].
  - destruct (kind_eq_dec_KZ3 k) as [->|Hk].
    + assert (E : spre pre (render_tok (TK KZ3 i) c ++ r) = c_abbr c ++ r).
      { destruct pre; [|reflexivity]. apply (nosp_head l c (TK KZ3 i)); try assumption; intros; discriminate. }
      rewrite E. cbn [elem_of_tok elem_of_kind upd_tok cv].
      destruct Hc as (_ & _ & _ & _ & _ & _ & _ & Hz & _). eapply pe_zone; eassumption.
    + assert (Er : render_tok (TK k i) c = rv k (cv k c)) by (destruct k; try reflexivity; congruence).
      pose proof (cv_range l c k Hc Hk) as Hv.
      assert (Eu : upd_tok (TK k i) c s = upd_kind k (cv k c) [] s) by (destruct k; try reflexivity; congruence).
      rewrite Eu. destruct pre; cbn [spre]; [|rewrite Er; cbn [elem_of_tok]; eapply pe_kind; eassumption].
      destruct (kind_eq_dec_K_D k) as [->|Hd].
      * (* the blank-padded day *)
        rewrite Er. cbn [elem_of_tok elem_of_kind upd_kind]. cbn [vlo vn Z.of_nat] in Hv. eapply pe_underD_cut; [lia|exact Hl|exact Hh].
      * rewrite (nosp_head l c (TK k i) Hc Hn); [|intros i0 E0; injection E0 as E0; contradiction|intros; discriminate].
        rewrite Er. cbn [elem_of_tok]. eapply pe_kind; eassumption.
  - assert (E : spre pre (render_tok (TL b) c ++ r) = b :: r).
    { destruct pre; [|reflexivity]. apply (nosp_head l c (TL b)); try assumption; intros; discriminate. }
    rewrite E. cbn [elem_of_tok parse_elem]. rewrite byte_eqb_refl. reflexivity.
Qed.

Definition upd_toks (l : list tok) (c : civil) (s : pst) : pst := fold_left (fun s t => upd_tok t c s) l s.

Lemma pe_toks terms l0 c : civil_ok l0 c -> forall l pre s, toks_ok terms l = true ->
  (pre = true -> match l with TSp _ :: _ => False | _ => True end) ->
  parse_elems (map elem_of_tok l) (spre pre (render_toks l c)) s = Some ([], upd_toks l c s).
Proof.
  intros Hc. induction l as [|t tl IH]; intros pre s Hok Hpre.
  - destruct pre; reflexivity.
  - destruct (toks_ok_cons _ _ _ Hok) as (a & _ & _ & Hl & Hn & Hok').
    cbn [map parse_elems render_toks flat_map]. change (flat_map (fun t => render_tok t c) tl) with (render_toks tl c).
    destruct t as [k i|b|n].
    + rewrite (pe_tok l0 c (TK k i) tl (render_toks tl c) s pre Hc Hl Hn (head_next _ _ _ _ Hc Hok') ltac:(intros; discriminate)).
      apply (IH false). exact Hok'. intros; discriminate.
    + rewrite (pe_tok l0 c (TL b) tl (render_toks tl c) s pre Hc Hl Hn (head_next _ _ _ _ Hc Hok') ltac:(intros; discriminate)).
      apply (IH false). exact Hok'. intros; discriminate.
    + (* a run of blanks: time.skip also eats the blanks that follow *)
      assert (pre = false) as -> by (destruct pre; [elim (Hpre eq_refl)|reflexivity]).
      cbn [tok_lay_ok] in Hl. apply andb_true_iff in Hl as [Hn0 Hadj].
      destruct n as [|n]; [discriminate|].
      cbn [spre render_tok repeat app elem_of_tok parse_elem]. change (byte_eqb x20 x20) with true. cbv iota.
      change (x20 :: repeat x20 n ++ render_toks tl c) with (repeat x20 (S n) ++ render_toks tl c).
      rewrite cut_sp_repeat. cbn [upd_toks fold_left upd_tok].
      apply (IH true). exact Hok'. intros _. destruct tl as [|[| |] ?]; try exact I. discriminate.
Qed.

(* ------------------------------------------------------------------ the regexp on the text of the tokens *)

Lemma atoms_of_toks_cons terms t tl a : atoms_of_toks terms (t :: tl) = Some a ->
  exists at_ ar, atoms_of_tok terms t = Some at_ /\ atoms_of_toks terms tl = Some ar /\ a = at_ ++ ar.
Proof.
  cbn [atoms_of_toks]. destruct (atoms_of_tok terms t) as [x|]; [|discriminate].
  destruct (atoms_of_toks terms tl) as [y|]; [|discriminate]. intros H. injection H as <-. eauto.
Qed.

Lemma sep_next_out cs rest : sep_ok rest -> (forall c, In c cs -> no_byte (cls_has c) seps = true) -> next_out cs rest.
Proof.
  intros [->|(b & r & -> & Hb)] H; [exact I|]. cbn. intros c Hc. specialize (H c Hc).
  unfold no_byte in H. rewrite forallb_forall in H. apply negb_true_iff. apply H. exact Hb.
Qed.

Lemma rx_toks terms l0 c : civil_ok l0 c -> forall l a rest, toks_ok terms l = true -> atoms_of_toks terms l = Some a ->
  sep_ok rest -> exists cs, dmatchS a (render_toks l c ++ rest) = Some (rest, cs).
Proof.
  intros Hc. induction l as [|t tl IH]; intros a rest Hok Ha Hs.
  - injection Ha as <-. eexists; reflexivity.
  - destruct (toks_ok_cons _ _ _ Hok) as (a1 & Ha1 & Hrx & _ & _ & Hok').
    destruct (atoms_of_toks_cons _ _ _ _ Ha) as (a1' & ar & Ha1' & Har & ->).
    rewrite Ha1 in Ha1'. injection Ha1' as <-.
    destruct (tok_rx_ok_spec _ _ _ _ Hrx (render_in_tvals l0 c t Hc)) as (_ & cs & Hd & Hcs).
    destruct (IH ar rest Hok' Har Hs) as [cs2 H2].
    cbn [render_toks flat_map]. change (flat_map (fun t => render_tok t c) tl) with (render_toks tl c).
    rewrite <- app_assoc.
    destruct (dm_ext a1 _ _ _ (render_toks tl c ++ rest) Hd) as [cs' H1].
    { destruct tl as [|t' tl'].
      - cbn [render_toks flat_map app]. apply sep_next_out; assumption.
      - pose proof (head_next terms l0 c (t' :: tl') Hc Hok') as Hh.
        cbn [next_firsts] in Hcs, Hh. destruct (render_toks (t' :: tl') c) as [|b w] eqn:E.
        + (* cannot be empty, but harmless *) cbn [app].
          destruct (toks_ok_cons _ _ _ Hok') as (a' & _ & Hrx' & _).
          destruct (tok_rx_ok_spec _ _ _ _ Hrx' (render_in_tvals l0 c t' Hc)) as (Hne & _).
          cbn [render_toks flat_map] in E. apply app_eq_nil in E as [E _]. congruence.
        + cbn [app]. cbn in Hh. intros c0 Hc0. specialize (Hcs c0 Hc0).
          unfold no_byte in Hcs. rewrite forallb_forall in Hcs. apply negb_true_iff. apply Hcs. exact Hh. }
    cbn [app] in H1. eapply dm_app; eassumption.
Qed.

(* ------------------------------------------------------------------ decidable equalities *)

Lemma list_eqb_sound {A} (eqb : A -> A -> bool) : (forall x y, eqb x y = true -> x = y) ->
  forall a b, list_eqb eqb a b = true -> a = b.
Proof.
  intros E. induction a as [|x a IH]; intros [|y b] H; cbn in H; try discriminate; [reflexivity|].
  apply andb_true_iff in H as [H1 H2]. f_equal; [apply E; exact H1|apply IH; exact H2].
Qed.
Lemma lelem_eqb_sound x y : lelem_eqb x y = true -> x = y.
Proof. destruct x, y; cbn; intros H; try discriminate; try reflexivity. apply byte_eqb_eq in H. subst. reflexivity. Qed.
Lemma cls_eqb_sound x y : cls_eqb x y = true -> x = y.
Proof.
  destruct x as [l|], y as [l'|]; cbn; intros H; try discriminate; [|reflexivity]. f_equal.
  revert H. apply list_eqb_sound. intros [a b] [a' b'] H. cbn in H. apply andb_true_iff in H as [H1 H2].
  apply N.eqb_eq in H1. apply N.eqb_eq in H2. subst. reflexivity.
Qed.
Lemma atom_eqb_sound x y : atom_eqb x y = true -> x = y.
Proof.
  destruct x as [c lo hi|al], y as [c' lo' hi'|al']; cbn; intros H; try discriminate.
  - apply andb_true_iff in H as [H H3]. apply andb_true_iff in H as [H1 H2].
    apply cls_eqb_sound in H1. apply Nat.eqb_eq in H2. subst.
    destruct hi as [h|], hi' as [h'|]; cbn in H3; try discriminate; [apply Nat.eqb_eq in H3; subst|]; reflexivity.
  - f_equal. revert H. apply list_eqb_sound. apply list_eqb_sound. intros [c n] [c' n'] H. cbn in H.
    apply andb_true_iff in H as [H1 H2]. apply cls_eqb_sound in H1. apply Nat.eqb_eq in H2. subst. reflexivity.
Qed.

(* ------------------------------------------------------------------ the state after all tokens *)

Definition tk (p : kind -> bool) (t : tok) : bool := match t with TK k _ => p k | _ => false end.

Lemma has_kind_in p l k i : In (TK k i) l -> p k = true -> has_kind p l = true.
Proof. intros Hin Hp. unfold has_kind. apply existsb_exists. exists (TK k i). split; assumption. Qed.
Lemma has_kind_false p l k i : has_kind p l = false -> In (TK k i) l -> p k = false.
Proof.
  intros H Hin. destruct (p k) eqn:E; [|reflexivity]. rewrite (has_kind_in p l k i Hin E) in H. discriminate.
Qed.

Lemma fold_proj {A} (pr : pst -> A) (sets : tok -> bool) (val : A) c l :
  (forall t s, In t l -> sets t = false -> pr (upd_tok t c s) = pr s) ->
  (forall t s, In t l -> sets t = true -> pr (upd_tok t c s) = val) ->
  forall s, pr (upd_toks l c s) = if existsb sets l then val else pr s.
Proof.
  induction l as [|t tl IH]; intros H1 H2 s; [reflexivity|].
  cbn [upd_toks fold_left existsb]. change (fold_left (fun s t => upd_tok t c s) tl (upd_tok t c s)) with (upd_toks tl c (upd_tok t c s)).
  rewrite IH.
  - destruct (sets t) eqn:E; cbn [orb].
    + destruct (existsb sets tl); [reflexivity|]. apply H2; [left; reflexivity|exact E].
    + destruct (existsb sets tl); [reflexivity|]. apply H1; [left; reflexivity|exact E].
  - intros t' s' Hin. apply H1. right. exact Hin.
  - intros t' s' Hin. apply H2. right. exact Hin.
Qed.

Lemma existsb_and {A} (p : A -> bool) (b : bool) l : existsb (fun t => p t && b) l = existsb p l && b.
Proof. induction l as [|x l IH]; cbn; [reflexivity|]. rewrite IH. destruct (p x), b, (existsb p l); reflexivity. Qed.

Section FinalState.
  Variables (l : list tok) (c : civil).
  Hypothesis Hc : civil_ok l c.
  Let S := upd_toks l c pst0.

  Ltac by_kind := intros t s Hin Hs; destruct t as [k i| |]; [destruct k|..]; try discriminate Hs; try reflexivity;
    try (cbn [upd_tok upd_kind cv]; match goal with |- context[if ?b then _ else _] => destruct b end; reflexivity).

  Lemma fs_year : p_year S = if has_kind is_year l then c_y c else 0.
  Proof.
    unfold S. rewrite (fold_proj p_year (tk is_year) (c_y c)); [reflexivity| |].
    - by_kind.
    - by_kind. cbn [upd_tok upd_kind cv p_year set_year].
      destruct Hc as (_ & _ & _ & _ & _ & _ & _ & _ & Hyy & _).
      specialize (Hyy (has_kind_in is_yy l KYY i Hin eq_refl)).
      destruct (69 <=? c_y c mod 100) eqn:E; lia.
  Qed.
  Lemma fs_month : p_month S = if has_kind is_month l then c_mo c else -1.
  Proof. unfold S. rewrite (fold_proj p_month (tk is_month) (c_mo c)); [reflexivity| |]; by_kind. Qed.
  Lemma fs_day : p_day S = if has_kind is_day l then c_d c else -1.
  Proof. unfold S. rewrite (fold_proj p_day (tk is_day) (c_d c)); [reflexivity| |]; by_kind. Qed.
  Lemma fs_min : p_min S = if has_kind is_min l then c_mi c else 0.
  Proof. unfold S. rewrite (fold_proj p_min (tk is_min) (c_mi c)); [reflexivity| |]; by_kind. Qed.
  Lemma fs_sec : p_sec S = if has_kind is_sec l then c_s c else 0.
  Proof. unfold S. rewrite (fold_proj p_sec (tk is_sec) (c_s c)); [reflexivity| |]; by_kind. Qed.
  Lemma fs_nsec : p_nsec S = if has_kind is_ms l then c_ms c * 1000000 else 0.
  Proof. unfold S. rewrite (fold_proj p_nsec (tk is_ms) (c_ms c * 1000000)); [reflexivity| |]; by_kind. Qed.
  Lemma fs_off : p_off S = if has_kind is_numzone l then Some (c_off c * 60) else None.
  Proof. unfold S. rewrite (fold_proj p_off (tk is_numzone) (Some (c_off c * 60))); [reflexivity| |]; by_kind. Qed.

  Lemma fs_hour24 : has_kind is_h12 l = false -> p_hour S = if has_kind is_h24 l then c_h c else 0.
  Proof.
    intros N. unfold S. rewrite (fold_proj p_hour (tk is_h24) (c_h c)); [reflexivity| |]; by_kind;
    pose proof (has_kind_false is_h12 l _ i N Hin) as F; discriminate F.
  Qed.
  Lemma fs_hour12 : has_kind is_h24 l = false -> p_hour S = if has_kind is_h12 l then hour12 (c_h c) else 0.
  Proof.
    intros N. unfold S. rewrite (fold_proj p_hour (tk is_h12) (hour12 (c_h c))); [reflexivity| |]; by_kind;
    pose proof (has_kind_false is_h24 l _ i N Hin) as F; discriminate F.
  Qed.

  Lemma fs_pm : p_pm S = has_kind is_ampm l && negb (c_h c <? 12).
  Proof.
    unfold S. rewrite (fold_proj p_pm (fun t => tk is_ampm t && negb (c_h c <? 12)) true).
    - rewrite existsb_and. cbn [pst0 p_pm]. unfold has_kind. destruct (existsb _ l && negb (c_h c <? 12)); reflexivity.
    - by_kind. cbn [tk is_ampm andb] in Hs. cbn [upd_tok upd_kind cv]. destruct (c_h c <? 12); [reflexivity|discriminate Hs].
    - by_kind. cbn [tk is_ampm andb] in Hs. cbn [upd_tok upd_kind cv]. destruct (c_h c <? 12); [discriminate Hs|reflexivity].
  Qed.
  Lemma fs_am : p_am S = has_kind is_ampm l && (c_h c <? 12).
  Proof.
    unfold S. rewrite (fold_proj p_am (fun t => tk is_ampm t && (c_h c <? 12)) true).
    - rewrite existsb_and. cbn [pst0 p_am]. unfold has_kind. destruct (existsb _ l && (c_h c <? 12)); reflexivity.
    - by_kind. cbn [tk is_ampm andb] in Hs. cbn [upd_tok upd_kind cv]. destruct (c_h c <? 12); [discriminate Hs|reflexivity].
    - by_kind. cbn [tk is_ampm andb] in Hs. cbn [upd_tok upd_kind cv]. destruct (c_h c <? 12); [reflexivity|discriminate Hs].
  Qed.
End FinalState.

Section FinalState2.
  Variables (l : list tok) (c : civil).
  Hypothesis Hc : civil_ok l c.
  Let S := upd_toks l c pst0.
  Ltac by_kind2 := intros t s Hin Hs; destruct t as [k i| |]; [destruct k|..]; try discriminate Hs; try reflexivity;
    try (cbn [upd_tok upd_kind cv]; match goal with |- context[if ?b then _ else _] => destruct b end; reflexivity).

  Lemma fs_utc : p_utc S = has_kind is_abbr l && bytes_eqb (c_abbr c) (B "UTC").
  Proof.
    unfold S. rewrite (fold_proj p_utc (fun t => tk is_abbr t && bytes_eqb (c_abbr c) (B "UTC")) true).
    - rewrite existsb_and. cbn [pst0 p_utc]. unfold has_kind. destruct (existsb _ l && bytes_eqb (c_abbr c) (B "UTC")); reflexivity.
    - by_kind2. cbn [tk is_abbr andb] in Hs. cbn [upd_tok upd_kind cv]. rewrite Hs. reflexivity.
    - by_kind2. cbn [tk is_abbr andb] in Hs. cbn [upd_tok upd_kind cv]. rewrite Hs. reflexivity.
  Qed.
  Lemma fs_zname : p_zname S = if has_kind is_abbr l && negb (bytes_eqb (c_abbr c) (B "UTC")) then c_abbr c else [].
  Proof.
    unfold S. rewrite (fold_proj p_zname (fun t => tk is_abbr t && negb (bytes_eqb (c_abbr c) (B "UTC"))) (c_abbr c)).
    - rewrite existsb_and. reflexivity.
    - by_kind2. cbn [tk is_abbr andb] in Hs. cbn [upd_tok upd_kind cv]. apply negb_false_iff in Hs. rewrite Hs. reflexivity.
    - by_kind2. cbn [tk is_abbr andb] in Hs. cbn [upd_tok upd_kind cv]. apply negb_true_iff in Hs. rewrite Hs. reflexivity.
  Qed.
End FinalState2.

Lemma hour_final h (h24 h12 ap : bool) : 0 <= h < 24 -> negb (h24 && h12) = true -> (negb ap || h24 || h12) = true ->
  let ph := if h24 then h else if h12 then hour12 h else 0 in
  let pm := ap && negb (h <? 12) in let am := ap && (h <? 12) in
  (if pm && (ph <? 12) then ph + 12 else if am && (ph =? 12) then 0 else ph) =
  (if h24 then h else if h12 then (if ap then h else hour12 h) else 0).
Proof.
  intros Hh H1 H2. cbv zeta. unfold hour12. cbv zeta.
  destruct h24, h12, ap; cbn [andb orb negb] in *; try discriminate; try reflexivity;
  destruct (h <? 12) eqn:E; cbn [andb negb]; try reflexivity;
  destruct (h mod 12 =? 0) eqn:E2; try (destruct (12 <? 12) eqn:E3); try (destruct (12 =? 12) eqn:E4);
  repeat (match goal with |- context[if ?b then _ else _] => destruct b eqn:? end); lia.
Qed.

Lemma zone_final l c : civil_ok l c ->
  let utc := has_kind is_abbr l && bytes_eqb (c_abbr c) (B "UTC") in
  let off := if has_kind is_numzone l then Some (c_off c * 60) else None in
  let zn := if has_kind is_abbr l && negb (bytes_eqb (c_abbr c) (B "UTC")) then c_abbr c else [] in
  (if utc then 0 else match off with
                      | Some o => o
                      | None => match starts (B "GMT") zn with
                                | Some (c0 :: r) => match atoi (c0 :: r) with Some x => x * 3600 | None => 0 end
                                | _ => 0
                                end
                      end) = (if has_kind is_numzone l then c_off c * 60 else 0).
Proof.
  intros (_ & _ & _ & _ & _ & _ & _ & Hz & _ & Hu). cbv zeta.
  destruct (bytes_eqb (c_abbr c) (B "UTC")) eqn:E.
  - apply bytes_eqb_eq in E. destruct (has_kind is_abbr l) eqn:A; cbn [andb negb].
    + destruct (has_kind is_numzone l) eqn:Nz; [rewrite (Hu E eq_refl eq_refl)|]; reflexivity.
    + destruct (has_kind is_numzone l); reflexivity.
  - destruct (has_kind is_abbr l); cbn [andb negb]; destruct (has_kind is_numzone l); try reflexivity.
    destruct Hz as [<-|[<-|[<-|[]]]]; try reflexivity; try discriminate E.
Qed.

Lemma finish_denotes l c cf now : civil_ok l c -> flags_ok cf l = true ->
  exists t, finish (upd_toks l c pst0) = Some t /\ instant (adjust now cf t) = denotes now l c.
Proof.
  intros Hc Hf. pose proof Hc as (Hy & (Hm & Hd) & Hh & Hmi & Hs & Hms & Hoff & _).
  unfold flags_ok in Hf. apply andb_true_iff in Hf as [Hf F4]. apply andb_true_iff in Hf as [Hf F3]. apply andb_true_iff in Hf as [F1 F2].
  apply eqb_prop in F1. apply eqb_prop in F2.
  (* hour *)
  assert (PH : p_hour (upd_toks l c pst0) = if has_kind is_h24 l then c_h c else if has_kind is_h12 l then hour12 (c_h c) else 0).
  { destruct (has_kind is_h24 l) eqn:A.
    - destruct (has_kind is_h12 l) eqn:B0; [discriminate F3|]. rewrite (fs_hour24 l c B0), A. reflexivity.
    - rewrite (fs_hour12 l c A). reflexivity. }
  pose proof (hour_final (c_h c) _ _ _ Hh F3 F4) as HF. cbv zeta in HF.
  pose proof (zone_final l c Hc) as ZF. cbv zeta in ZF.
  pose proof (days_in_month_le_31 (c_y c) (c_mo c)) as D31.
  pose proof (days_in_month_year0 (c_y c) (c_mo c)) as D0.
  unfold finish.
  rewrite fs_pm, fs_am, fs_utc, fs_off, fs_zname, PH, HF, ZF.
  rewrite (fs_year l c Hc), fs_month, fs_day, fs_min, fs_sec, fs_nsec.
  unfold denotes. destruct now as [[ny nm] nd].
  destruct (has_kind is_year l) eqn:HY; destruct (has_kind is_month l) eqn:HM; destruct (has_kind is_day l) eqn:HD;
  cbn [orb negb] in F2;
  repeat match goal with |- context[if ?a <? ?b then _ else _] => first [is_var a; fail 1|destruct (a <? b) eqn:?; try lia] end;
  cbn [orb];
  match goal with |- context[if ?chk then None else _] =>
    assert (chk = false) as -> by (try change (days_in_month (c_y c) 1) with 31; try change (days_in_month 0 1) with 31; lia)
  end;
  (eexists; split; [reflexivity|]);
  unfold adjust, instant, unix_sec; rewrite F1, F2; cbn [negb t_y t_mo t_d t_h t_mi t_s t_ns t_off];
  try rewrite Heqb; try rewrite Heqb0; try rewrite Heqb1; f_equal; destruct (has_kind is_ms l); reflexivity.
Qed.

(* ------------------------------------------------------------------ soundness of format_ok *)

Theorem format_ok_sound terms f l cf : format_ok terms f = true -> tokens terms f = Some l -> compile_with terms f = Some cf ->
  forall now c rest, civil_ok l c -> sep_ok rest ->
  parse_one now cf (render_toks l c ++ rest) = Some (denotes now l c).
Proof.
  intros Hok Ht Hcf now c rest Hc Hs. unfold format_ok in Hok. rewrite Ht, Hcf in Hok.
  destruct (atoms_of_toks terms l) as [a|] eqn:Ha.
  2:{ apply andb_true_iff in Hok as [Hok _]. apply andb_true_iff in Hok as [Hok _]. apply andb_true_iff in Hok as [_ Hok]. discriminate. }
  apply andb_true_iff in Hok as [Hok Hfl]. apply andb_true_iff in Hok as [Hok Htk]. apply andb_true_iff in Hok as [Hel Hrx].
  apply (list_eqb_sound _ lelem_eqb_sound) in Hel. apply (list_eqb_sound _ atom_eqb_sound) in Hrx.
  unfold parse_one, parse_one_v, go_parse_retry. rewrite Hrx, Hel.
  destruct (rx_toks terms l c Hc l a rest Htk Ha Hs) as [cs Hd].
  rewrite (rx_find_head a _ (render_toks l c)); [|eapply m_at_of_dm; [exact Hd|reflexivity]].
  unfold go_parse. pose proof (pe_toks terms l c Hc l false pst0 Htk ltac:(discriminate)) as Hp. cbn [spre] in Hp. rewrite Hp.
  destruct (finish_denotes l c cf now Hc Hfl) as (t & Hf & Hi). rewrite Hf, Hi. reflexivity.
Qed.

(* the first format that parses wins: if no earlier format parses the text, the k-th format's answer is the list's *)
Lemma parse_all_from_first now text : forall fs i k cf r,
  nth_error fs k = Some (Some cf) ->
  (forall j cfj, (j < k)%nat -> nth_error fs j = Some cfj -> exists cj, cfj = Some cj /\ parse_one now cj text = None) ->
  parse_one now cf text = Some r -> parse_all_from i now fs text = Some ((i + k)%nat, r).
Proof.
  induction fs as [|o fs IH]; intros i k cf r Hk Hearlier Hr.
  - destruct k; discriminate.
  - destruct k as [|k].
    + injection Hk as ->. cbn [parse_all_from]. rewrite Hr. rewrite Nat.add_0_r. reflexivity.
    + destruct (Hearlier 0%nat o ltac:(lia) eq_refl) as (cj & -> & Hn). cbn [parse_all_from]. rewrite Hn.
      rewrite (IH (S i) k cf r); [f_equal; f_equal; lia|exact Hk| |exact Hr].
      intros j cfj Hj Hnth. apply (Hearlier (S j) cfj); [lia|exact Hnth].
Qed.

(* inversion of format_ok, generic in the table (so that no proof about a concrete table has to unfold format_ok) *)
Lemma format_ok_inv terms f : format_ok terms f = true ->
  exists l cf, tokens terms f = Some l /\ compile_with terms f = Some cf.
Proof.
  unfold format_ok. destruct (tokens terms f) as [l|]; [|discriminate].
  destruct (compile_with terms f) as [cf|]; [|discriminate]. intros _. exists l, cf. split; reflexivity.
Qed.
