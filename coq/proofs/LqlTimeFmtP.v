(* The time points DateTime.String() prints (model/LqlTimeFmt.v) read by parseLqlDateTime (model/LqlTime.v, the model of
   C20, on the format list regenerated from pkg/lql/datetime.go).

   Part R: two abstract interpretations of the regexp matcher of model/Regex.v over texts whose bytes are known only up
   to a set (a digit position of a printed time): `a_find` (may: if it says no, no text of the shape is matched
   anywhere) and `ad_match` (must: the deterministic matcher of model/DateOk.v takes the same decisions on every text
   of the shape).  Part L: time.Parse of the two layouts that read the printed texts.  Part T: lql_parse. *)
From LR Require Import lib.Base model.GoTime model.Regex model.DateFmt model.DateOk model.LqlTime gen.DateTables model.LqlTimeFmt.
From LR Require Import proofs.GoTimeP proofs.RegexP proofs.DateFmtP proofs.LqlTimeP proofs.C20TablesP.
From Coq Require Import Strings.String ZArith Lia.
Open Scope bool_scope.

(* ------------------------------------------------------------------ Part R: abstract bytes *)

Inductive abyte := AB (b : byte) | AS (l : bytes).       (* this byte | one of these bytes *)
Definition concr (b : byte) (a : abyte) : Prop := match a with AB b' => b = b' | AS l => In b l end.
Definition concrs : bytes -> list abyte -> Prop := Forall2 concr.

Definition amay (c : cls) (a : abyte) : bool :=
  match a with AB b => cls_has c b | AS l => existsb (cls_has c) l end.

Lemma amay_sound c b a : concr b a -> cls_has c b = true -> amay c a = true.
Proof.
  destruct a as [b'|l]; cbn [concr amay]; [intros -> H; exact H|].
  intros Hin H. apply existsb_exists. exists b. split; assumption.
Qed.

Lemma concrs_length w aw : concrs w aw -> List.length w = List.length aw.
Proof. induction 1; cbn [List.length]; congruence. Qed.

(* ---- may ---- *)
Fixpoint a_take (c : cls) (n : nat) (w : list abyte) : option (list abyte) :=
  match n with
  | O => Some w
  | S n' => match w with
            | a :: w' => if amay c a then a_take c n' w' else None
            | [] => None
            end
  end.

Lemma a_take_sound c n : forall w aw w', concrs w aw -> take_fixed c n w = Some w' ->
  exists aw', a_take c n aw = Some aw' /\ concrs w' aw'.
Proof.
  induction n as [|n IH]; intros w aw w' Hc H; cbn [take_fixed a_take] in *.
  - injection H as <-. eauto.
  - destruct Hc as [|b a w0 aw0 Hb Hc]; [discriminate|].
    destruct (cls_has c b) eqn:E; [|discriminate]. rewrite (amay_sound c b a Hb E). eapply IH; eassumption.
Qed.

Fixpoint a_rep (c : cls) (n : nat) (w : list abyte) (k : list abyte -> bool) : bool :=
  k w || match n, w with
         | S n', a :: w' => amay c a && a_rep c n' w' k
         | _, _ => false
         end.

Lemma a_rep_sound {A} c (k : bytes -> option A) (ak : list abyte -> bool) res :
  (forall w aw, concrs w aw -> k w = Some res -> ak aw = true) ->
  forall n w aw, concrs w aw -> rep_greedy c n w k = Some res -> a_rep c n aw ak = true.
Proof.
  intros Hk. induction n as [|n IH]; intros w aw Hc H.
  - cbn [rep_greedy] in H. destruct aw; cbn [a_rep]; rewrite (Hk _ _ Hc H); reflexivity.
  - destruct Hc as [|b a w0 aw0 Hb Hc].
    + cbn [rep_greedy] in H. cbn [a_rep]. rewrite (Hk [] [] (Forall2_nil _) H). reflexivity.
    + cbn [rep_greedy] in H. cbn [a_rep]. destruct (cls_has c b) eqn:E.
      * destruct (rep_greedy c n w0 k) as [r|] eqn:Er.
        -- injection H as ->. rewrite (amay_sound c b a Hb E), (IH _ _ Hc Er). apply orb_true_r.
        -- rewrite (Hk _ _ (Forall2_cons _ _ Hb Hc) H). reflexivity.
      * rewrite (Hk _ _ (Forall2_cons _ _ Hb Hc) H). reflexivity.
Qed.

Fixpoint a_fixed_seq (s : list (cls * nat)) (w : list abyte) : option (list abyte) :=
  match s with
  | [] => Some w
  | (c, n) :: tl => match a_take c n w with Some w' => a_fixed_seq tl w' | None => None end
  end.

Lemma a_fixed_seq_sound s : forall w aw w', concrs w aw -> m_fixed_seq s w = Some w' ->
  exists aw', a_fixed_seq s aw = Some aw' /\ concrs w' aw'.
Proof.
  induction s as [|[c n] tl IH]; intros w aw w' Hc H; cbn [m_fixed_seq a_fixed_seq] in *.
  - injection H as <-. eauto.
  - destruct (take_fixed c n w) as [w1|] eqn:E; [|discriminate].
    destruct (a_take_sound c n w aw w1 Hc E) as (aw1 & -> & Hc1). eapply IH; eassumption.
Qed.

Definition extra_a (lo : nat) (hi : option nat) (w : list abyte) : nat :=
  match hi with Some h => h - lo | None => S (List.length w) end.

Fixpoint am_atoms (l : rx) (w : list abyte) : bool :=
  match l with
  | [] => true
  | ARep c lo hi :: tl =>
      match a_take c lo w with
      | None => false
      | Some w' => a_rep c (extra_a lo hi w') w' (am_atoms tl)
      end
  | AAlt alts :: tl =>
      existsb (fun s => match a_fixed_seq s w with Some w' => am_atoms tl w' | None => false end) alts
  end.

Lemma m_alts_inv {A} alts w (k : bytes -> option A) res : m_alts alts w k = Some res ->
  exists s w', In s alts /\ m_fixed_seq s w = Some w' /\ k w' = Some res.
Proof.
  induction alts as [|s tl IH]; cbn [m_alts]; [discriminate|].
  destruct (m_fixed_seq s w) as [w'|] eqn:E.
  - destruct (k w') as [r|] eqn:Ek.
    + intros H. injection H as ->. exists s, w'. split; [left; reflexivity|split; assumption].
    + intros H. destruct (IH H) as (s' & w'' & Hin & H1 & H2). exists s', w''. split; [right; exact Hin|split; assumption].
  - intros H. destruct (IH H) as (s' & w'' & Hin & H1 & H2). exists s', w''. split; [right; exact Hin|split; assumption].
Qed.

Lemma am_atoms_sound {A} l : forall w aw (k : bytes -> option A) res, concrs w aw ->
  m_atoms l w k = Some res -> am_atoms l aw = true.
Proof.
  induction l as [|[c lo hi|alts] tl IH]; intros w aw k res Hc H; cbn [m_atoms am_atoms] in *.
  - reflexivity.
  - destruct (take_fixed c lo w) as [w'|] eqn:E; [|discriminate].
    destruct (a_take_sound c lo w aw w' Hc E) as (aw' & -> & Hc').
    assert (En : extra lo hi w' = extra_a lo hi aw').
    { unfold extra, extra_a. destruct hi; [reflexivity|]. rewrite (concrs_length _ _ Hc'). reflexivity. }
    rewrite <- En. eapply (a_rep_sound c (fun w'' => m_atoms tl w'' k) (am_atoms tl) res); [|exact Hc'|exact H].
    intros w1 aw1 Hc1 H1. eapply IH; eassumption.
  - destruct (m_alts_inv _ _ _ _ H) as (s & w' & Hin & Hs & Hk).
    destruct (a_fixed_seq_sound s w aw w' Hc Hs) as (aw' & Ea & Hc').
    apply existsb_exists. exists s. split; [exact Hin|]. rewrite Ea. eapply IH; eassumption.
Qed.

Fixpoint a_find (l : rx) (w : list abyte) : bool :=
  am_atoms l w || match w with [] => false | _ :: w' => a_find l w' end.

Lemma a_find_sound l : forall w aw, concrs w aw -> a_find l aw = false -> rx_find l w = None.
Proof.
  induction w as [|b w IH]; intros aw Hc H.
  - inversion Hc; subst. cbn [a_find] in H. apply orb_false_iff in H as [H _].
    cbn [rx_find]. destruct (m_at l []) as [m|] eqn:E; [|reflexivity].
    unfold m_at in E. rewrite (am_atoms_sound l _ _ _ _ Hc E) in H. discriminate.
  - inversion Hc as [|b0 a w0 aw0 Hb Hc0]; subst. cbn [a_find] in H. apply orb_false_iff in H as [H1 H2].
    cbn [rx_find]. destruct (m_at l (b :: w)) as [m|] eqn:E.
    + unfold m_at in E. rewrite (am_atoms_sound l _ _ _ _ Hc E) in H1. discriminate.
    + apply (IH aw0 Hc0 H2).
Qed.

(* no compiled format of the list matches anywhere in a text of the shape *)
Definition none_claims (fs : list (option cfmt)) (aw : list abyte) : bool :=
  forallb (fun o => match o with Some cf => negb (a_find (cf_rx cf) aw) | None => false end) fs.

Lemma parse_all_skip now text aw : concrs text aw ->
  forall pre i post, none_claims pre aw = true ->
  parse_all_from i now (pre ++ post) text = parse_all_from (i + List.length pre) now post text.
Proof.
  intros Hc. induction pre as [|o pre IH]; intros i post H.
  - cbn [app List.length]. rewrite Nat.add_0_r. reflexivity.
  - cbn [none_claims forallb] in H. apply andb_true_iff in H as [Ho H]. destruct o as [cf|]; [|discriminate].
    apply negb_true_iff in Ho. cbn [app parse_all_from]. unfold parse_one, parse_one_v.
    rewrite (a_find_sound _ _ _ Hc Ho). rewrite (IH (S i) post H). cbn [List.length]. f_equal. lia.
Qed.

(* ---- must: the deterministic matcher decides the same way on every text of the shape ---- *)
Definition adec (c : cls) (a : abyte) : option bool :=
  match a with
  | AB b => Some (cls_has c b)
  | AS l => if forallb (cls_has c) l then Some true else if existsb (cls_has c) l then None else Some false
  end.

Lemma adec_sound c b a v : concr b a -> adec c a = Some v -> cls_has c b = v.
Proof.
  destruct a as [b'|l]; cbn [concr adec]; [intros -> H; injection H as <-; reflexivity|].
  intros Hin. destruct (forallb (cls_has c) l) eqn:Ef.
  - intros H. injection H as <-. rewrite forallb_forall in Ef. apply Ef. exact Hin.
  - destruct (existsb (cls_has c) l) eqn:Ee; [discriminate|]. intros H. injection H as <-.
    destruct (cls_has c b) eqn:E; [|reflexivity].
    assert (existsb (cls_has c) l = true) by (apply existsb_exists; exists b; split; assumption). congruence.
Qed.

Fixpoint ad_take (c : cls) (n : nat) (w : list abyte) : option (list abyte) :=
  match n with
  | O => Some w
  | S n' => match w with
            | a :: w' => match adec c a with Some true => ad_take c n' w' | _ => None end
            | [] => None
            end
  end.

Lemma ad_take_sound c n : forall w aw aw', concrs w aw -> ad_take c n aw = Some aw' ->
  exists w', take_fixed c n w = Some w' /\ concrs w' aw'.
Proof.
  induction n as [|n IH]; intros w aw aw' Hc H; cbn [take_fixed ad_take] in *.
  - injection H as <-. eauto.
  - destruct Hc as [|b a w0 aw0 Hb Hc]; [discriminate|].
    destruct (adec c a) as [[|]|] eqn:E; try discriminate.
    rewrite (adec_sound c b a true Hb E). eapply IH; eassumption.
Qed.

Fixpoint ad_run (c : cls) (n : nat) (w : list abyte) : option (list abyte * bool) :=
  match n with
  | O => Some (w, false)
  | S n' => match w with
            | [] => Some ([], true)
            | a :: w' => match adec c a with
                         | Some true => ad_run c n' w'
                         | Some false => Some (w, false)
                         | None => None
                         end
            end
  end.

Lemma ad_run_sound c n : forall w aw aw' e, concrs w aw -> ad_run c n aw = Some (aw', e) ->
  exists w', run c n w = (w', e) /\ concrs w' aw'.
Proof.
  induction n as [|n IH]; intros w aw aw' e Hc H; cbn [run ad_run] in *.
  - injection H as <- <-. eauto.
  - destruct Hc as [|b a w0 aw0 Hb Hc].
    + injection H as <- <-. exists []. split; [reflexivity|constructor].
    + destruct (adec c a) as [[|]|] eqn:E; try discriminate.
      * rewrite (adec_sound c b a true Hb E). eapply IH; eassumption.
      * rewrite (adec_sound c b a false Hb E). injection H as <- <-. exists (b :: w0). split; [reflexivity|constructor; assumption].
Qed.

Fixpoint ad_match (l : rx) (w : list abyte) : option (list abyte) :=
  match l with
  | [] => Some w
  | ARep c lo hi :: tl =>
      match ad_take c lo w with
      | None => None
      | Some w1 => match ad_run c (extra_a lo hi w1) w1 with
                   | Some (w2, _) => ad_match tl w2
                   | None => None
                   end
      end
  | AAlt _ :: _ => None
  end.

Lemma ad_match_sound l : forall w aw ar, concrs w aw -> ad_match l aw = Some ar ->
  exists r cs, dmatchS l w = Some (r, cs) /\ concrs r ar.
Proof.
  induction l as [|[c lo hi|alts] tl IH]; intros w aw ar Hc H; cbn [dmatchS ad_match] in *.
  - injection H as <-. eauto.
  - destruct (ad_take c lo aw) as [aw1|] eqn:E1; [|discriminate].
    destruct (ad_take_sound c lo w aw aw1 Hc E1) as (w1 & -> & Hc1).
    destruct (ad_run c (extra_a lo hi aw1) aw1) as [[aw2 e]|] eqn:E2; [|discriminate].
    assert (En : extra lo hi w1 = extra_a lo hi aw1).
    { unfold extra, extra_a. destruct hi; [reflexivity|]. rewrite (concrs_length _ _ Hc1). reflexivity. }
    rewrite En. destruct (ad_run_sound c _ w1 aw1 aw2 e Hc1 E2) as (w2 & -> & Hc2).
    destruct (IH w2 aw2 ar Hc2 H) as (r & cs & -> & Hr). eauto.
  - discriminate.
Qed.

(* the whole text, and nothing less, is the leftmost match *)
Lemma rx_find_whole l w aw : concrs w aw -> ad_match l aw = Some [] -> rx_find l w = Some w.
Proof.
  intros Hc H. destruct (ad_match_sound l w aw [] Hc H) as (r & cs & Hd & Hr). inversion Hr; subst.
  apply rx_find_head. rewrite <- (app_nil_r w) at 1. apply (m_at_of_dm l w w cs []); [rewrite app_nil_r; exact Hd|reflexivity].
Qed.

(* ------------------------------------------------------------------ Part L: time.Parse on the printed text *)
Open Scope Z_scope.
Ltac Zify.zify_post_hook ::= Z.div_mod_to_equations.

Definition sec_text (y m d h mi se : Z) : bytes :=
  d4 y ++ x2d :: d2 m ++ x2d :: d2 d ++ x20 :: d2 h ++ x3a :: d2 mi ++ x3a :: d2 se.

Lemma pe_lit b nxt r s : parse_elem (LLit b) nxt (b :: r) s = Some (r, s).
Proof. cbn [parse_elem]. rewrite byte_eqb_refl. reflexivity. Qed.

Lemma pe_mon0 nxt m r s : 1 <= m <= 12 -> parse_elem LMonZero nxt (d2 m ++ r) s = Some (r, set_month m s).
Proof.
  intros H. cbn [parse_elem]. rewrite getnum_d2 by lia.
  assert ((m <=? 0) || (12 <? m) = false) as -> by lia. reflexivity.
Qed.
Lemma pe_day0 nxt d r s : 0 <= d < 100 -> parse_elem LDayZero nxt (d2 d ++ r) s = Some (r, set_day d s).
Proof. intros H. cbn [parse_elem]. rewrite getnum_d2 by lia. reflexivity. Qed.
Lemma pe_hour nxt h r s : 0 <= h < 24 -> parse_elem LHour nxt (d2 h ++ r) s = Some (r, set_hour h s).
Proof. intros H. cbn [parse_elem]. rewrite getnum_d2 by lia. assert (24 <=? h = false) as -> by lia. reflexivity. Qed.
Lemma pe_min0 nxt mi r s : 0 <= mi < 60 -> parse_elem LMinZero nxt (d2 mi ++ r) s = Some (r, set_min mi s).
Proof. intros H. cbn [parse_elem]. rewrite getnum_d2 by lia. assert (60 <=? mi = false) as -> by lia. reflexivity. Qed.
(* the seconds before a blank *)
Lemma pe_sec0_sp nxt se b r s : 0 <= se < 60 ->
  parse_elem LSecZero nxt (d2 se ++ x20 :: b :: r) s = Some (x20 :: b :: r, set_sec se s).
Proof. intros H. cbn [parse_elem]. rewrite getnum_d2 by lia. assert (60 <=? se = false) as -> by lia. reflexivity. Qed.
(* the seconds before a fraction that the layout reads with its own element *)
Lemma pe_sec0_frac nxt se a r s : 0 <= se < 60 -> 0 <= a <= 9 -> next_std nxt = Some LFrac9 ->
  parse_elem LSecZero nxt (d2 se ++ x2e :: digit_byte a :: r) s = Some (x2e :: digit_byte a :: r, set_sec se s).
Proof.
  intros H Ha Hn. cbn [parse_elem]. rewrite getnum_d2 by lia. assert (60 <=? se = false) as -> by lia.
  change (comma_or_period x2e) with true. rewrite digit_is by lia. cbn [andb]. rewrite Hn. reflexivity.
Qed.
Lemma pe_sp nxt b r s : byte_eqb b x20 = false -> parse_elem LSp nxt (x20 :: b :: r) s = Some (b :: r, s).
Proof. intros H. cbn [parse_elem]. change (byte_eqb x20 x20) with true. cbv iota. change (cut_sp (x20 :: b :: r)) with (cut_sp (b :: r)). rewrite cut_sp_nosp by exact H. reflexivity. Qed.

Lemma digits_val_cons acc a r : 0 <= a <= 9 -> digits_val acc (digit_byte a :: r) = digits_val (acc * 10 + a) r.
Proof. intros Ha. cbn [digits_val]. rewrite digit_is, digit_val by exact Ha. reflexivity. Qed.

Lemma d9_val ns : 0 <= ns < 1000000000 -> digits_val 0 (d9 ns) = Some ns.
Proof.
  intros H. unfold d9, d3. cbn [app]. rewrite !digits_val_cons by lia. cbn [digits_val]. f_equal. lia.
Qed.
Lemma d9_length ns : List.length (d9 ns) = 9%nat. Proof. reflexivity. Qed.

Lemma span_digits_d9 ns b r : 0 <= ns < 1000000000 -> is_digit b = false -> span_digits (d9 ns ++ b :: r) = (d9 ns, b :: r).
Proof.
  intros H Hb. unfold d9, d3. cbn [app]. rewrite !span_digits_cons by lia.
  rewrite (span_digits_stop (b :: r)) by exact Hb. reflexivity.
Qed.

Lemma pe_frac9 nxt ns b r s : 0 <= ns < 1000000000 -> is_digit b = false ->
  parse_elem LFrac9 nxt (x2e :: d9 ns ++ b :: r) s = Some (b :: r, set_nsec ns s).
Proof.
  intros H Hb. cbn [parse_elem List.tl]. change (comma_or_period x2e) with true.
  assert (Hd : exists a tl, d9 ns = digit_byte a :: tl /\ 0 <= a <= 9).
  { exists (ns / 1000000 / 100). eexists. split; [reflexivity|lia]. }
  destruct Hd as (a & tl & E & Ha). rewrite E. cbn [app]. rewrite digit_is by exact Ha. cbn [andb].
  change (digit_byte a :: tl ++ b :: r) with ((digit_byte a :: tl) ++ b :: r). rewrite <- E.
  rewrite span_digits_d9 by assumption.
  unfold frac_nanos. rewrite firstn_all2 by (rewrite d9_length; lia). rewrite d9_val by exact H. rewrite d9_length.
  change (pow10 (9 - 9)) with 1. rewrite Z.mul_1_r. reflexivity.
Qed.

(* the elements of the two layouts up to the seconds *)
Definition elems_to_min : list lelem := [LYear4; LLit x2d; LMonZero; LLit x2d; LDayZero; LSp; LHour; LLit x3a; LMinZero; LLit x3a].

Definition civ_ok (y m d h mi se : Z) : Prop :=
  1000 <= y <= 2999 /\ valid_date y m d /\ 0 <= h < 24 /\ 0 <= mi < 60 /\ 0 <= se < 60.

Definition st_sec (y m d h mi se : Z) : pst :=
  set_sec se (set_min mi (set_hour h (set_day d (set_month m (set_year y pst0))))).

Lemma valid_md y m d : valid_date y m d -> 1 <= m <= 12 /\ 1 <= d <= 31.
Proof. intros [Hm Hd]. pose proof (days_in_month_le_31 y m). lia. Qed.

Lemma d2_head_nosp v : 0 <= v < 100 -> forall r, exists a tl, d2 v ++ r = digit_byte a :: tl /\ 0 <= a <= 9.
Proof. intros H r. exists (v / 10). eexists. split; [reflexivity|lia]. Qed.

Lemma pe_sp_d2 nxt v r s : 0 <= v < 100 -> parse_elem LSp nxt (x20 :: d2 v ++ r) s = Some (d2 v ++ r, s).
Proof. intros H. unfold d2. cbn [app]. apply pe_sp. apply digit_not_sp. lia. Qed.

Ltac norm_app := repeat (progress (rewrite <- ?app_assoc, <- ?app_comm_cons)).

Definition whole_text (y m d h mi se : Z) : bytes :=
  d4 y ++ x2d :: d2 m ++ x2d :: d2 d ++ x20 :: d2 h ++ x3a :: d2 mi ++ x3a :: d2 se ++ utc_suffix.
Definition frac_text (y m d h mi se ns : Z) : bytes :=
  d4 y ++ x2d :: d2 m ++ x2d :: d2 d ++ x20 :: d2 h ++ x3a :: d2 mi ++ x3a :: d2 se ++ x2e :: d9 ns ++ utc_suffix.
Lemma whole_text_eq y m d h mi se : sec_text y m d h mi se ++ utc_suffix = whole_text y m d h mi se.
Proof. unfold sec_text, whole_text. norm_app. reflexivity. Qed.
Lemma frac_text_eq y m d h mi se ns : sec_text y m d h mi se ++ x2e :: d9 ns ++ utc_suffix = frac_text y m d h mi se ns.
Proof. unfold sec_text, frac_text. norm_app. reflexivity. Qed.

(* "2006-01-02 15:04:05 -0700 MST" on the text of a whole second *)
Lemma parse_whole y m d h mi se : civ_ok y m d h mi se ->
  parse_elems (elems_to_min ++ [LSecZero; LSp; LTZNum; LSp; LTZName]) (whole_text y m d h mi se) pst0 =
  Some ([], set_utc (set_off 0 (st_sec y m d h mi se))).
Proof.
  intros (Hy & Hv & Hh & Hmi & Hse). destruct (valid_md _ _ _ Hv) as [Hm Hd].
  unfold whole_text, elems_to_min, utc_suffix. cbn [app parse_elems].
  rewrite pe_year4 by lia. rewrite pe_lit. rewrite pe_mon0 by lia. rewrite pe_lit. rewrite pe_day0 by lia.
  rewrite pe_sp_d2 by lia. rewrite pe_hour by lia. rewrite pe_lit. rewrite pe_min0 by lia. rewrite pe_lit.
  rewrite pe_sec0_sp by lia. reflexivity.
Qed.

(* "2006-01-02 15:04:05.999999999 -0700 MST" on the text with a nine-digit fraction *)
Lemma parse_frac y m d h mi se ns : civ_ok y m d h mi se -> 0 <= ns < 1000000000 ->
  parse_elems (elems_to_min ++ [LSecZero; LFrac9; LSp; LTZNum; LSp; LTZName]) (frac_text y m d h mi se ns) pst0 =
  Some ([], set_utc (set_off 0 (set_nsec ns (st_sec y m d h mi se)))).
Proof.
  intros (Hy & Hv & Hh & Hmi & Hse) Hns. destruct (valid_md _ _ _ Hv) as [Hm Hd].
  unfold frac_text, elems_to_min, utc_suffix. cbn [app parse_elems].
  rewrite pe_year4 by lia. rewrite pe_lit. rewrite pe_mon0 by lia. rewrite pe_lit. rewrite pe_day0 by lia.
  rewrite pe_sp_d2 by lia. rewrite pe_hour by lia. rewrite pe_lit. rewrite pe_min0 by lia. rewrite pe_lit.
  assert (Hd9 : exists a9 tl9, d9 ns ++ [x20; x2b; x30; x30; x30; x30; x20; x55; x54; x43] = digit_byte a9 :: tl9 /\ 0 <= a9 <= 9).
  { exists (ns / 1000000 / 100). eexists. split; [reflexivity|lia]. }
  destruct Hd9 as (a9 & tl9 & E9 & Ha9). rewrite E9.
  rewrite pe_sec0_frac by (try lia; reflexivity). rewrite <- E9.
  rewrite pe_frac9 by (try lia; reflexivity). reflexivity.
Qed.

(* ------------------------------------------------------------------ Part T: the printed text of an int64 instant *)

Lemma cfd_year_bound z : -106752 <= z <= 106751 ->
  let '(y, m, d) := civil_from_days z in 1000 <= y <= 2999.
Proof.
  intros Hz. pose proof (dfc_cfd z) as H1. pose proof (cfd_valid z) as H2.
  destruct (civil_from_days z) as [[y m] d]. destruct (valid_md _ _ _ H2) as [Hm Hd].
  unfold days_from_civil, days_before_year, days_before_month in H1.
  destruct (m <=? 2) eqn:Em; lia.
Qed.

(* the shapes: every digit position with the digits it can hold *)
Definition dset (lo : Z) (n : nat) : bytes := map digit_byte (zrange lo n).
Definition dg : abyte := AS (dset 0 10).
Lemma in_dset lo n v : lo <= v < lo + Z.of_nat n -> In (digit_byte v) (dset lo n).
Proof. intros H. unfold dset. apply in_map. apply in_zrange. exact H. Qed.

Definition a_sec : list abyte :=
  [AS (dset 1 2); dg; dg; dg; AB x2d; AS (dset 0 2); dg; AB x2d; AS (dset 0 4); dg; AB x20;
   AS (dset 0 3); dg; AB x3a; AS (dset 0 6); dg; AB x3a; AS (dset 0 6); dg].
Definition a_whole : list abyte := a_sec ++ map AB utc_suffix.
Definition a_frac : list abyte := a_sec ++ AB x2e :: repeat dg 9 ++ map AB utc_suffix.

Ltac concr_digits :=
  repeat (apply Forall2_cons; [first [reflexivity | cbn [concr]; apply in_dset; cbn [Z.of_nat Pos.of_succ_nat Pos.succ]; lia]|]); try apply Forall2_nil.

Lemma whole_concr y m d h mi se : civ_ok y m d h mi se -> concrs (whole_text y m d h mi se) a_whole.
Proof.
  intros (Hy & Hv & Hh & Hmi & Hse). destruct (valid_md _ _ _ Hv) as [Hm Hd].
  unfold whole_text, d4, d2, utc_suffix, a_whole, a_sec, dg, concrs. cbn [app map]. concr_digits.
Qed.

Lemma frac_concr y m d h mi se ns : civ_ok y m d h mi se -> 0 <= ns < 1000000000 ->
  concrs (frac_text y m d h mi se ns) a_frac.
Proof.
  intros (Hy & Hv & Hh & Hmi & Hse) Hns. destruct (valid_md _ _ _ Hv) as [Hm Hd].
  unfold frac_text, d9, d4, d3, d2, utc_suffix, a_frac, a_sec, dg, concrs. cbn [app map repeat]. concr_digits.
Qed.

(* the two formats of the LQL list that read the printed texts, and that nothing before them claims a text of the shape *)
Definition k_whole : nat := 45.
Definition k_frac : nat := 41.
Definition cf_whole : cfmt := Eval vm_compute in match nth_error lql_c k_whole with Some (Some cf) => cf | _ => mkCfmt [] [] [] false false false end.
Definition cf_frac : cfmt := Eval vm_compute in match nth_error lql_c k_frac with Some (Some cf) => cf | _ => mkCfmt [] [] [] false false false end.

Lemma lql_c_whole : lql_c = firstn k_whole lql_c ++ Some cf_whole :: skipn (S k_whole) lql_c.
Proof. vm_compute. reflexivity. Qed.
Lemma lql_c_frac : lql_c = firstn k_frac lql_c ++ Some cf_frac :: skipn (S k_frac) lql_c.
Proof. vm_compute. reflexivity. Qed.

Lemma src_whole : cf_src cf_whole = B "YYYY-MM-DD HH:mm:ss ZZZZ ZZZ". Proof. vm_compute. reflexivity. Qed.
Lemma src_frac : cf_src cf_frac = B "YYYY-MM-DD HH:mm:ss.SSS ZZZZ ZZZ". Proof. vm_compute. reflexivity. Qed.
Lemma elems_whole : cf_elems cf_whole = elems_to_min ++ [LSecZero; LSp; LTZNum; LSp; LTZName]. Proof. vm_compute. reflexivity. Qed.
Lemma elems_frac : cf_elems cf_frac = elems_to_min ++ [LSecZero; LFrac9; LSp; LTZNum; LSp; LTZName]. Proof. vm_compute. reflexivity. Qed.

Lemma earlier_whole : none_claims (firstn k_whole lql_c) a_whole = true. Proof. vm_compute. reflexivity. Qed.
Lemma earlier_frac : none_claims (firstn k_frac lql_c) a_frac = true. Proof. vm_compute. reflexivity. Qed.
Lemma match_whole : ad_match (cf_rx cf_whole) a_whole = Some []. Proof. vm_compute. reflexivity. Qed.
Lemma match_frac : ad_match (cf_rx cf_frac) a_frac = Some []. Proof. vm_compute. reflexivity. Qed.

(* Format.Parse of the two formats on the printed texts *)
Ltac pst_step f := unfold f; cbn [p_year p_month p_day p_hour p_min p_sec p_nsec p_pm p_am p_utc p_off p_zname].

Lemma st_final y m d h mi se ns :
  set_utc (set_off 0 (set_nsec ns (st_sec y m d h mi se))) = mkPst y m d h mi se ns false false true (Some 0) [].
Proof.
  unfold st_sec, pst0. pst_step set_year. pst_step set_month. pst_step set_day. pst_step set_hour. pst_step set_min.
  pst_step set_sec. pst_step set_nsec. pst_step set_off. pst_step set_utc. reflexivity.
Qed.

Lemma finish_whole y m d h mi se ns : civ_ok y m d h mi se ->
  finish (set_utc (set_off 0 (set_nsec ns (st_sec y m d h mi se)))) = Some (mkPtime y m d h mi se ns 0).
Proof.
  intros (Hy & Hv & Hh & Hmi & Hse). destruct (valid_md _ _ _ Hv) as [Hm Hd]. destruct Hv as [_ Hdim].
  rewrite st_final. unfold finish.
  cbn [p_year p_month p_day p_hour p_min p_sec p_nsec p_pm p_am p_utc p_off p_zname andb].
  assert (m <? 0 = false) as -> by lia. assert (d <? 0 = false) as -> by lia.
  assert ((d <? 1) || (days_in_month y m <? d) = false) as -> by lia. reflexivity.
Qed.

Lemma st_sec_nsec y m d h mi se : st_sec y m d h mi se = set_nsec 0 (st_sec y m d h mi se).
Proof.
  unfold st_sec, pst0. pst_step set_year. pst_step set_month. pst_step set_day. pst_step set_hour. pst_step set_min.
  pst_step set_sec. pst_step set_nsec. reflexivity.
Qed.

Lemma instant_of y m d h mi se ns days sod : days_from_civil y m d = days ->
  h = sod / 3600 -> mi = sod / 60 mod 60 -> se = sod mod 60 -> 0 <= sod < 86400 ->
  instant (mkPtime y m d h mi se ns 0) = (days * 86400 + sod, ns).
Proof.
  intros Hd -> -> -> Hs. unfold instant, unix_sec. cbn [t_y t_mo t_d t_h t_mi t_s t_off t_ns]. rewrite Hd. f_equal. lia.
Qed.

Lemma adjust_year now cf t : cf_no_date cf = false -> cf_has_year cf = true -> adjust now cf t = t.
Proof. intros H1 H2. unfold adjust. destruct now as [[ny nm] nd]. rewrite H1, H2. reflexivity. Qed.

Lemma parse_all_at now (fs : list (option cfmt)) text aw k cf r :
  fs = firstn k fs ++ Some cf :: skipn (S k) fs -> List.length (firstn k fs) = k ->
  concrs text aw -> none_claims (firstn k fs) aw = true -> parse_one now cf text = Some r ->
  parse_all now fs text = Some (k, r).
Proof.
  intros E El Hc Hn Hp. unfold parse_all. rewrite E.
  rewrite (parse_all_skip now text aw Hc _ 0%nat _ Hn). cbn [parse_all_from]. rewrite Hp, El. reflexivity.
Qed.
Lemma len_whole : List.length (firstn k_whole lql_c) = k_whole. Proof. vm_compute. reflexivity. Qed.
Lemma len_frac : List.length (firstn k_frac lql_c) = k_frac. Proof. vm_compute. reflexivity. Qed.

Section OneInstant.
  Variable s : Z.                       (* Unix seconds *)
  Hypothesis Hs : -9223372037 <= s <= 9223372036.
  Let days := s / 86400.
  Let sod := s mod 86400.

  Lemma civ_of_s : let '(y, m, d) := civil_from_days days in
    civ_ok y m d (sod / 3600) (sod / 60 mod 60) (sod mod 60) /\ days_from_civil y m d = days.
  Proof.
    pose proof (cfd_year_bound days ltac:(subst days; lia)) as Hy.
    pose proof (cfd_valid days) as Hv. pose proof (dfc_cfd days) as Hd.
    destruct (civil_from_days days) as [[y m] d]. split; [|exact Hd].
    unfold civ_ok. subst sod. repeat split; try assumption; try lia; apply Hv.
  Qed.

  Lemma fmt_sec_eq : let '(y, m, d) := civil_from_days days in
    fmt_sec s = sec_text y m d (sod / 3600) (sod / 60 mod 60) (sod mod 60).
  Proof. unfold fmt_sec. fold days sod. destruct (civil_from_days days) as [[y m] d]. reflexivity. Qed.

  Lemma parse_one_whole now : parse_one now cf_whole (fmt_sec s ++ utc_suffix) = Some (s, 0).
  Proof.
    pose proof civ_of_s as Hc. pose proof fmt_sec_eq as He.
    destruct (civil_from_days days) as [[y m] d]. destruct Hc as [Hc Hd]. rewrite He, whole_text_eq.
    unfold parse_one, parse_one_v, go_parse_retry. rewrite (rx_find_whole _ _ _ (whole_concr _ _ _ _ _ _ Hc) match_whole).
    unfold go_parse. rewrite elems_whole, (parse_whole _ _ _ _ _ _ Hc).
    rewrite st_sec_nsec, (finish_whole _ _ _ _ _ _ 0 Hc).
    rewrite adjust_year by reflexivity.
    rewrite (instant_of y m d _ _ _ 0 days sod Hd eq_refl eq_refl eq_refl ltac:(subst sod; lia)).
    f_equal. f_equal. subst days sod. lia.
  Qed.

  Lemma parse_one_frac now ns : 0 <= ns < 1000000000 ->
    parse_one now cf_frac (fmt_sec s ++ x2e :: d9 ns ++ utc_suffix) = Some (s, ns).
  Proof.
    intros Hns. pose proof civ_of_s as Hc. pose proof fmt_sec_eq as He.
    destruct (civil_from_days days) as [[y m] d]. destruct Hc as [Hc Hd]. rewrite He, frac_text_eq.
    unfold parse_one, parse_one_v, go_parse_retry. rewrite (rx_find_whole _ _ _ (frac_concr _ _ _ _ _ _ _ Hc Hns) match_frac).
    unfold go_parse. rewrite elems_frac, (parse_frac _ _ _ _ _ _ _ Hc Hns).
    rewrite (finish_whole _ _ _ _ _ _ ns Hc).
    rewrite adjust_year by reflexivity.
    rewrite (instant_of y m d _ _ _ ns days sod Hd eq_refl eq_refl eq_refl ltac:(subst sod; lia)).
    f_equal. f_equal. subst days sod. lia.
  Qed.

  (* parser.Parse over the whole LQL list *)
  Lemma parse_all_whole now : parse_all now lql_c (fmt_sec s ++ utc_suffix) = Some (k_whole, (s, 0)).
  Proof.
    pose proof civ_of_s as Hc. pose proof fmt_sec_eq as He. pose proof (parse_one_whole now) as Hp.
    destruct (civil_from_days days) as [[y m] d]. destruct Hc as [Hc _].
    apply (parse_all_at now lql_c _ a_whole k_whole cf_whole (s, 0) lql_c_whole len_whole);
      [rewrite He, whole_text_eq; apply whole_concr; exact Hc | exact earlier_whole | exact Hp].
  Qed.

  Lemma parse_all_frac now ns : 0 <= ns < 1000000000 ->
    parse_all now lql_c (fmt_sec s ++ x2e :: d9 ns ++ utc_suffix) = Some (k_frac, (s, ns)).
  Proof.
    intros Hns. pose proof civ_of_s as Hc. pose proof fmt_sec_eq as He. pose proof (parse_one_frac now ns Hns) as Hp.
    destruct (civil_from_days days) as [[y m] d]. destruct Hc as [Hc _].
    apply (parse_all_at now lql_c _ a_frac k_frac cf_frac (s, ns) lql_c_frac len_frac);
      [rewrite He, frac_text_eq; apply frac_concr; assumption | exact earlier_frac | exact Hp].
  Qed.

  (* the text starts with the digit 1 or 2 and ends with the letter C: nothing to trim, not relative, not a constant *)
  Lemma fmt_sec_head : exists tl, (fmt_sec s = x31 :: tl \/ fmt_sec s = x32 :: tl).
  Proof.
    pose proof civ_of_s as Hc. pose proof fmt_sec_eq as He.
    destruct (civil_from_days days) as [[y m] d]. destruct Hc as [(Hy & _) _]. rewrite He. unfold sec_text, d4. cbn [app].
    assert (y / 1000 = 1 \/ y / 1000 = 2) as [->| ->] by lia; eexists; [left|right]; reflexivity.
  Qed.
End OneInstant.

Lemma trim_sp_mid b x c : byte_eqb b x20 = false -> byte_eqb c x20 = false -> trim_sp (b :: x ++ [c]) = b :: x ++ [c].
Proof.
  intros Hb Hc. unfold trim_sp. rewrite (cut_sp_nosp b _ Hb).
  change (b :: x ++ [c]) with ((b :: x) ++ [c]). rewrite rev_unit. rewrite (cut_sp_nosp c _ Hc).
  change (rev (c :: rev (b :: x))) with (rev (rev (b :: x)) ++ [c]). rewrite rev_involutive. reflexivity.
Qed.

Lemma wrap64_id t : in_int64 t = true -> wrap64 t = t.
Proof. unfold in_int64, wrap64. intros H. lia. Qed.

(* not a relative literal, not a named constant: the literal starts with the digit 1 or 2 *)
Lemma lql_parse_digit_head now fs b tl : (b = x31 \/ b = x32) ->
  trim_sp (b :: tl) = b :: tl ->
  lql_parse now fs (b :: tl) =
  match parse_all now fs (b :: tl) with
  | Some (_, (s, ns)) => LAbs (wrap64 (s * 1000000000 + ns))
  | None => match parse_int64 (to_lower (b :: tl)) with Some v => LAbs v | None => LErr end
  end.
Proof.
  intros Hb Ht. unfold lql_parse, lql_parse_v, code_lowers_absolute. cbv zeta. rewrite Ht.
  destruct Hb as [-> | ->]; reflexivity.
Qed.

Theorem time_roundtrip now t : in_int64 t = true -> lql_parse now lql_c (fmt_time t) = LAbs t.
Proof.
  intros Ht. unfold fmt_time, fmt_time_v, code_time_trims_fraction, nanos_per_sec.
  set (s := t / 1000000000). set (ns := t mod 1000000000).
  assert (Hs : -9223372037 <= s <= 9223372036) by (unfold in_int64 in Ht; subst s; lia).
  assert (Hns : 0 <= ns < 1000000000) by (subst ns; lia).
  assert (Et : s * 1000000000 + ns = t) by (subst s ns; lia).
  destruct (fmt_sec_head s Hs) as (tl & Hh).
  assert (Hb : exists b, (b = x31 \/ b = x32) /\ fmt_sec s = b :: tl) by (destruct Hh as [H|H]; eauto).
  destruct Hb as (b & Hb & Eh).
  assert (Hbsp : byte_eqb b x20 = false) by (destruct Hb as [-> | ->]; reflexivity).
  unfold fmt_frac. destruct (ns =? 0) eqn:E0.
  - assert (ns = 0) as E by lia. cbn [app].
    pose proof (parse_all_whole s Hs now) as Hp. rewrite Eh in *. 
    assert (Etrim : trim_sp ((b :: tl) ++ utc_suffix) = (b :: tl) ++ utc_suffix).
    { change utc_suffix with ([x20; x2b; x30; x30; x30; x30; x20; x55; x54] ++ [x43]). rewrite app_assoc.
      rewrite <- app_comm_cons. apply trim_sp_mid; [exact Hbsp|reflexivity]. }
    rewrite <- app_comm_cons in *. rewrite (lql_parse_digit_head now lql_c b _ Hb Etrim). rewrite Hp.
    rewrite <- E, Et. rewrite wrap64_id by exact Ht. reflexivity.
  - pose proof (parse_all_frac s Hs now ns Hns) as Hp. rewrite Eh in *.
    assert (Etrim : trim_sp ((b :: tl) ++ (x2e :: d9 ns) ++ utc_suffix) = (b :: tl) ++ (x2e :: d9 ns) ++ utc_suffix).
    { change utc_suffix with ([x20; x2b; x30; x30; x30; x30; x20; x55; x54] ++ [x43]). rewrite !app_assoc.
      rewrite <- !app_comm_cons. apply trim_sp_mid; [exact Hbsp|reflexivity]. }
    rewrite <- !app_comm_cons in *. rewrite (lql_parse_digit_head now lql_c b _ Hb Etrim). rewrite Hp.
    rewrite Et. rewrite wrap64_id by exact Ht. reflexivity.
Qed.

(* ------------------------------------------------------------------ the printer before the repair *)
Definition t_half : Z := 1552307684500000000.        (* 2019-03-11 12:34:44.5 UTC *)
Lemma trimmed_half :
  fmt_time_v true t_half = B "2019-03-11 12:34:44.5 +0000 UTC" /\
  lql_parse w_now lql_c (fmt_time_v true t_half) = LAbs 1552307684000000000 /\
  fmt_time t_half = B "2019-03-11 12:34:44.500000000 +0000 UTC".
Proof. repeat split; vm_compute; reflexivity. Qed.

(* ------------------------------------------------------------------ as the environment of the statement theorems *)
(* DateTime.Capture for a literal that denotes an absolute instant (a relative literal or a named constant depends on
   the clock; the printed texts are neither) *)
Definition read_time (now : now_t) (txt : bytes) : option Z :=
  match lql_parse now lql_c txt with LAbs z => Some z | _ => None end.

Lemma read_fmt_time now t : in_int64 t = true -> read_time now (fmt_time t) = Some t.
Proof. intros H. unfold read_time. rewrite (time_roundtrip now t H). reflexivity. Qed.

Lemma fmt_time_head t : in_int64 t = true -> exists b tl, fmt_time t = b :: tl /\ (b = x31 \/ b = x32).
Proof.
  intros Ht. unfold fmt_time, fmt_time_v, nanos_per_sec.
  assert (Hs : -9223372037 <= t / 1000000000 <= 9223372036) by (unfold in_int64 in Ht; lia).
  destruct (fmt_sec_head _ Hs) as (tl & [E|E]); rewrite E; cbn [app]; eauto.
Qed.
