(* Lemmas about model/Paging.v. Layer 1: the journal iterator keeps `flat (position)` = number of records
   consumed; layer 2: LogEventIterator content; layer 3: the cursor (merge, filter, page loop, commit);
   layer 4: provider, resume kinds, the whole paged run. *)
From LR Require Import lib.Base model.Paging.
From Coq Require Import Sorting.Sorted Permutation.

Local Open Scope nat_scope.

(* ================================================================== layer 1: journals and jit *)
Definition id_lt (a b : chunk) : Prop := (c_id a < c_id b)%N.
Definition sorted (j : journal) : Prop := wf_journal j.

Lemma sorted_tail c j : sorted (c :: j) -> sorted j.
Proof. intros H. inversion H. assumption. Qed.
Lemma sorted_head c j : sorted (c :: j) -> Forall (id_lt c) j.
Proof. intros H. inversion H. assumption. Qed.

Lemma cnt_len c : N.to_nat (cnt c) = length (c_recs c).
Proof. unfold cnt. apply Nnat.Nat2N.id. Qed.

Lemma find_chunk_id j cid c : find_chunk j cid = Some c -> c_id c = cid.
Proof.
  induction j as [|x j IH]; cbn; [discriminate|].
  destruct (N.eqb_spec (c_id x) cid); intros H; [injection H as <-; assumption|auto].
Qed.
Lemma find_chunk_in j cid c : find_chunk j cid = Some c -> In c j.
Proof.
  induction j as [|x j IH]; cbn; [discriminate|].
  destruct (N.eqb_spec (c_id x) cid); intros H; [injection H as <-; left; reflexivity|right; auto].
Qed.

Lemma find_none_gt c j cid : Forall (id_lt c) j -> (cid <= c_id c)%N -> find_chunk j cid = None.
Proof.
  induction 1 as [|x j Hx _ IH]; intros Hc; cbn; [reflexivity|].
  unfold id_lt in Hx. destruct (N.eqb_spec (c_id x) cid); [lia|auto].
Qed.
Lemma before_zero_gt c j cid : Forall (id_lt c) j -> (cid <= c_id c + 1)%N -> before j cid = 0.
Proof.
  intros H Hc. destruct j as [|x j]; cbn; [reflexivity|].
  inversion H as [|? ? Hx _]; subst. unfold id_lt in Hx.
  destruct (N.ltb_spec (c_id x) cid); [lia|reflexivity].
Qed.

(* the record at flat index `before + k` is record k of the chunk *)
Lemma recs_nth j : sorted j -> forall cid c k, find_chunk j cid = Some c -> k < length (c_recs c) ->
  nth_error (recs j) (before j cid + k) = nth_error (c_recs c) k.
Proof.
  unfold recs. induction j as [|x j IH]; intros Hs cid c k Hf Hk; cbn in *; [discriminate|].
  destruct (N.eqb_spec (c_id x) cid) as [E|E].
  - injection Hf as <-. destruct (N.ltb_spec (c_id x) cid); [lia|]. cbn.
    rewrite nth_error_app1; [reflexivity|assumption].
  - pose proof (find_chunk_in _ _ _ Hf) as Hin. pose proof (find_chunk_id _ _ _ Hf) as Hid.
    pose proof (sorted_head _ _ Hs) as Hh. rewrite Forall_forall in Hh. specialize (Hh _ Hin). unfold id_lt in Hh.
    destruct (N.ltb_spec (c_id x) cid); [|lia].
    rewrite <- Nat.add_assoc. rewrite nth_error_app2 by lia.
    replace (length (c_recs x) + (before j cid + k) - length (c_recs x)) with (before j cid + k) by lia.
    apply IH; [eapply sorted_tail; eassumption|assumption|assumption].
Qed.

Lemma before_find_le j : sorted j -> forall cid c, find_chunk j cid = Some c ->
  before j cid + length (c_recs c) <= length (recs j).
Proof.
  unfold recs. induction j as [|x j IH]; intros Hs cid c Hf; cbn in *; [discriminate|].
  rewrite app_length.
  destruct (N.eqb_spec (c_id x) cid) as [E|E].
  - injection Hf as <-. destruct (N.ltb_spec (c_id x) cid); lia.
  - pose proof (IH (sorted_tail _ _ Hs) _ _ Hf). destruct (N.ltb_spec (c_id x) cid); lia.
Qed.
Lemma before_le j cid : before j cid <= length (recs j).
Proof.
  unfold recs. induction j as [|x j IH]; cbn; [lia|]. rewrite app_length. destruct (N.ltb_spec (c_id x) cid); lia.
Qed.

Lemma flat_le j pos : sorted j -> flat j pos <= length (recs j).
Proof.
  intros Hs. unfold flat. destruct (find_chunk j (fst pos)) eqn:E.
  - pose proof (before_find_le j Hs _ _ E). lia.
  - pose proof (before_le j (fst pos)). lia.
Qed.

(* all records before chunk cid+1 = those before cid plus chunk cid *)
Lemma before_succ j : sorted j -> forall cid c, find_chunk j cid = Some c ->
  before j (cid + 1) = before j cid + length (c_recs c).
Proof.
  induction j as [|x j IH]; intros Hs cid c Hf; cbn in *; [discriminate|].
  destruct (N.eqb_spec (c_id x) cid) as [E|E].
  - injection Hf as <-. destruct (N.ltb_spec (c_id x) cid); [lia|].
    destruct (N.ltb_spec (c_id x) (cid + 1)); [|lia].
    rewrite (before_zero_gt x j (cid + 1)); [lia|eapply sorted_head; eassumption|lia].
  - pose proof (find_chunk_in _ _ _ Hf) as Hin. pose proof (find_chunk_id _ _ _ Hf) as Hid.
    pose proof (sorted_head _ _ Hs) as Hh. rewrite Forall_forall in Hh. specialize (Hh _ Hin). unfold id_lt in Hh.
    destruct (N.ltb_spec (c_id x) cid); [|lia]. destruct (N.ltb_spec (c_id x) (cid + 1)); [|lia].
    rewrite (IH (sorted_tail _ _ Hs) _ _ Hf). lia.
Qed.

(* chunk_ge: what it returns *)
Inductive ge_res (j : journal) (cid : N) : option chunk -> Prop :=
| GeNone : j = [] -> ge_res j cid None
| GeFound c : find_chunk j (c_id c) = Some c -> (cid <= c_id c)%N ->
    before j (c_id c) = before j cid -> (c_id c <> cid -> find_chunk j cid = None) -> ge_res j cid (Some c)
| GeLast c : find_chunk j (c_id c) = Some c -> (c_id c < cid)%N ->
    before j cid = length (recs j) -> before j (c_id c) + length (c_recs c) = length (recs j) ->
    find_chunk j cid = None -> ge_res j cid (Some c).

Lemma find_self x j : find_chunk (x :: j) (c_id x) = Some x.
Proof. cbn. rewrite N.eqb_refl. reflexivity. Qed.

Lemma chunk_ge_spec j : sorted j -> forall cid, ge_res j cid (chunk_ge j cid).
Proof.
  induction j as [|x j IH]; intros Hs cid; cbn [chunk_ge].
  - constructor. reflexivity.
  - pose proof (sorted_head _ _ Hs) as Hh. pose proof (sorted_tail _ _ Hs) as Ht.
    destruct (N.leb_spec cid (c_id x)) as [L|L].
    + apply GeFound.
      * apply find_self.
      * assumption.
      * cbn. rewrite N.ltb_irrefl. destruct (N.ltb_spec (c_id x) cid); [lia|reflexivity].
      * intros Hne. cbn. destruct (N.eqb_spec (c_id x) cid); [congruence|]. apply (find_none_gt x); [assumption|lia].
    + specialize (IH Ht cid). inversion IH as [Hj|c Hf Hc Hb Hn|c Hf Hc Hb Hb2 Hn]; unfold recs in *.
      * subst j. apply GeLast.
        -- apply find_self.
        -- assumption.
        -- cbn. destruct (N.ltb_spec (c_id x) cid); [rewrite app_nil_r; lia|lia].
        -- cbn. rewrite N.ltb_irrefl. rewrite app_nil_r. lia.
        -- cbn. destruct (N.eqb_spec (c_id x) cid); [lia|reflexivity].
      * pose proof (find_chunk_in _ _ _ Hf) as Hin. rewrite Forall_forall in Hh. pose proof (Hh _ Hin) as Hlt. unfold id_lt in Hlt.
        apply GeFound.
        -- cbn. destruct (N.eqb_spec (c_id x) (c_id c)); [lia|assumption].
        -- assumption.
        -- cbn. destruct (N.ltb_spec (c_id x) (c_id c)); [|lia]. destruct (N.ltb_spec (c_id x) cid); [|lia]. lia.
        -- intros Hne. cbn. destruct (N.eqb_spec (c_id x) cid); [lia|auto].
      * pose proof (find_chunk_in _ _ _ Hf) as Hin. rewrite Forall_forall in Hh. pose proof (Hh _ Hin) as Hlt. unfold id_lt in Hlt.
        apply GeLast.
        -- cbn. destruct (N.eqb_spec (c_id x) (c_id c)); [lia|assumption].
        -- assumption.
        -- cbn. destruct (N.ltb_spec (c_id x) cid); [|lia]. rewrite app_length. lia.
        -- cbn. destruct (N.ltb_spec (c_id x) (c_id c)); [|lia]. rewrite app_length. lia.
        -- cbn. destruct (N.eqb_spec (c_id x) cid); [lia|assumption].
Qed.

(* well-formed iterator: an open chunk iterator sits on an existing chunk at the iterator's index *)
Definition wfj (j : journal) (it : jit) : Prop :=
  j_bad it = false /\
  match j_ci it with
  | None => True
  | Some p => p = j_idx it /\ exists c, find_chunk j (j_cid it) = Some c /\ (p <= cnt c)%N
  end.

Definition fl (j : journal) (it : jit) : nat := flat j (jit_pos it).

Lemma ensure_spec j it it' ok : sorted j -> wfj j it -> ensure j it = (it', ok) ->
  wfj j it' /\ fl j it' = fl j it /\
  (ok = true -> j_ci it' <> None) /\ (ok = false -> j_ci it' = None /\ fl j it' = length (recs j)).
Proof.
  intros Hs [Hb Hw] He. unfold ensure in He. destruct (j_ci it) as [p|] eqn:Eci.
  - injection He as <- <-. repeat split; try assumption; try congruence. rewrite Eci. assumption.
  - pose proof (chunk_ge_spec j Hs (j_cid it)) as G. destruct (chunk_ge j (j_cid it)) as [c|] eqn:Ec.
    + inversion G as [|c' Hf Hc Hbe Hn|c' Hf Hc Hbe Hb2 Hn]; subst c'.
      * destruct (N.ltb_spec (c_id c) (j_cid it)); [lia|]. injection He as <- <-.
        split; [|split; [|split]].
        -- split; [assumption|]. cbn. split; [reflexivity|]. exists c. split; [assumption|lia].
        -- unfold fl, flat. cbn. rewrite Hf, Hbe.
           destruct (N.ltb_spec (j_cid it) (c_id c)) as [L|L].
           ++ rewrite Hn by lia. cbn. lia.
           ++ assert (c_id c = j_cid it) as E by lia. rewrite <- E, Hf.
              rewrite Nnat.N2Nat.inj_min, cnt_len. f_equal. lia.
        -- cbn. congruence.
        -- discriminate.
      * destruct (N.ltb_spec (c_id c) (j_cid it)); [|lia]. injection He as <- <-.
        split; [|split; [|split]].
        -- split; [assumption|]. cbn. exact I.
        -- unfold fl, flat. cbn. rewrite Hf, Hn, cnt_len. lia.
        -- discriminate.
        -- intros _. split; [reflexivity|]. unfold fl, flat. cbn. rewrite Hf, cnt_len. lia.
    + inversion G as [Hj| |]. subst j. injection He as <- <-.
      split; [|split; [|split]].
      * split; [assumption|]. rewrite Eci. exact I.
      * reflexivity.
      * discriminate.
      * intros _. split; [assumption|]. unfold fl, flat. cbn. reflexivity.
Qed.

(* chunks with a larger id than cid: the measure of the Get loop *)
Fixpoint count_gt (j : journal) (cid : N) : nat :=
  match j with
  | [] => 0
  | c :: tl => (if (cid <? c_id c)%N then 1 else 0) + count_gt tl cid
  end.
Lemma count_gt_le j cid : count_gt j cid <= length j.
Proof. induction j as [|x j IH]; cbn; [lia|]. destruct (cid <? c_id x)%N; lia. Qed.
Lemma count_gt_mono j a b : (a <= b)%N -> count_gt j b <= count_gt j a.
Proof.
  intros H. induction j as [|x j IH]; cbn; [lia|].
  destruct (N.ltb_spec b (c_id x)); destruct (N.ltb_spec a (c_id x)); lia.
Qed.
Lemma count_gt_lt j a b c : find_chunk j b = Some c -> (a < b)%N -> count_gt j b < count_gt j a.
Proof.
  induction j as [|x j IH]; cbn; [discriminate|]. intros Hf Hab.
  destruct (N.eqb_spec (c_id x) b) as [E|E].
  - destruct (N.ltb_spec b (c_id x)); [lia|]. destruct (N.ltb_spec a (c_id x)); [|lia].
    pose proof (count_gt_mono j a b). lia.
  - specialize (IH Hf Hab). destruct (N.ltb_spec b (c_id x)); destruct (N.ltb_spec a (c_id x)); lia.
Qed.

Lemma fl_open j it p c : sorted j -> j_ci it = Some p -> p = j_idx it -> find_chunk j (j_cid it) = Some c -> (p <= cnt c)%N ->
  fl j it = before j (j_cid it) + N.to_nat p.
Proof.
  intros Hs Hci Hp Hf Hle. unfold fl, flat. cbn. rewrite Hf. subst p.
  assert (N.to_nat (j_idx it) <= length (c_recs c)) by (rewrite <- cnt_len; lia). lia.
Qed.

Lemma get_loop_spec j : sorted j -> forall fuel it it' r, wfj j it -> j_ci it <> None -> count_gt j (j_cid it) < fuel ->
  get_loop fuel j it = (it', r) ->
  wfj j it' /\ fl j it' = fl j it /\ r = nth_error (recs j) (fl j it) /\
  (r = None -> j_ci it' = None) /\ (forall e, r = Some e -> j_ci it' <> None /\ ci_read j it' = Some e).
Proof.
  intros Hs. induction fuel as [|f IH]; intros it it' r Hw Hopen Hfuel Hg; [lia|].
  cbn [get_loop] in Hg. destruct Hw as [Hb Hw]. destruct (j_ci it) as [p|] eqn:Eci; [|congruence].
  destruct Hw as [Hp [c [Hf Hle]]].
  pose proof (fl_open j it p c Hs Eci Hp Hf Hle) as Hfl.
  destruct (ci_read j it) as [e|] eqn:Er.
  - injection Hg as <- <-. unfold ci_read in Er. rewrite Eci, Hf in Er.
    assert (N.to_nat p < length (c_recs c)) as Hlt by (apply nth_error_Some; congruence).
    split; [|split; [|split; [|split]]].
    + split; [assumption|]. rewrite Eci. split; [assumption|]. exists c. split; assumption.
    + reflexivity.
    + rewrite Hfl, (recs_nth j Hs _ c) by assumption. symmetry. assumption.
    + discriminate.
    + intros e' He'. injection He' as <-. split; [congruence|]. unfold ci_read. rewrite Eci, Hf. assumption.
  - unfold ci_read in Er. rewrite Eci, Hf in Er. apply nth_error_None in Er.
    assert (N.to_nat p = length (c_recs c)) as Hpe by (rewrite <- cnt_len in *; lia).
    assert (wfj j (advance it)) as Hwa by (split; [assumption|exact I]).
    assert (fl j (advance it) = fl j it) as Hfa.
    { unfold fl at 1. unfold flat. cbn. rewrite (before_succ j Hs _ c Hf).
      destruct (find_chunk j (j_cid it + 1)); rewrite Hfl; lia. }
    destruct (ensure j (advance it)) as [it2 ok] eqn:Ee.
    destruct (ensure_spec j _ _ _ Hs Hwa Ee) as [Hw2 [Hfl2 [Hok Hnok]]].
    destruct ok.
    + specialize (Hok eq_refl).
      assert (count_gt j (j_cid it2) < f) as Hm.
      { destruct Hw2 as [_ Hw2]. destruct (j_ci it2) as [p2|] eqn:E2; [|congruence].
        destruct Hw2 as [_ [c2 [Hf2 _]]].
        assert (j_cid it < j_cid it2)%N as Hlt.
        { unfold ensure in Ee. cbn in Ee. pose proof (chunk_ge_spec j Hs (j_cid it + 1)) as G.
          destruct (chunk_ge j (j_cid it + 1)) as [cc|]; [|discriminate Ee].
          destruct (N.ltb_spec (c_id cc) (j_cid it + 1)); [discriminate Ee|].
          injection Ee as <-. cbn. lia. }
        pose proof (count_gt_lt j _ _ _ Hf2 Hlt). lia. }
      destruct (IH it2 it' r Hw2 Hok Hm Hg) as [A [B [C [D E]]]].
      split; [assumption|]. split; [congruence|]. split; [congruence|]. split; assumption.
    + injection Hg as <- <-. destruct (Hnok eq_refl) as [Hn1 Hn2].
      split; [assumption|]. split; [congruence|]. split; [|split; [auto|discriminate]].
      symmetry. apply nth_error_None. rewrite <- Hfa, <- Hfl2, Hn2. lia.
Qed.

Lemma jit_get_spec j it it' r : sorted j -> wfj j it -> jit_get j it = (it', r) ->
  wfj j it' /\ fl j it' = fl j it /\ r = nth_error (recs j) (fl j it) /\
  (r = None -> j_ci it' = None) /\ (forall e, r = Some e -> j_ci it' <> None /\ ci_read j it' = Some e).
Proof.
  intros Hs Hw Hg. unfold jit_get in Hg. destruct (ensure j it) as [it1 ok] eqn:Ee.
  destruct (ensure_spec j _ _ _ Hs Hw Ee) as [Hw1 [Hfl1 [Hok Hnok]]]. destruct ok.
  - assert (count_gt j (j_cid it1) < S (length j)) as Hm by (pose proof (count_gt_le j (j_cid it1)); lia).
    destruct (get_loop_spec j Hs _ _ _ _ Hw1 (Hok eq_refl) Hm Hg) as [A [B [C [D E]]]].
    split; [assumption|]. split; [congruence|]. split; [congruence|]. split; assumption.
  - injection Hg as <- <-. destruct (Hnok eq_refl) as [Hn1 Hn2].
    split; [assumption|]. split; [assumption|]. split; [|split; [auto|discriminate]].
    symmetry. apply nth_error_None. rewrite <- Hfl1, Hn2. lia.
Qed.

Lemma jit_next_spec j it : sorted j -> wfj j it ->
  wfj j (jit_next j it) /\
  fl j (jit_next j it) = (if fl j it <? length (recs j) then S (fl j it) else fl j it).
Proof.
  intros Hs Hw. unfold jit_next. destruct (jit_get j it) as [it1 r] eqn:Eg.
  destruct (jit_get_spec j _ _ _ Hs Hw Eg) as [Hw1 [Hfl [Hr [Hnone Hsome]]]].
  destruct r as [e|].
  - destruct (Hsome e eq_refl) as [Hopen Hread].
    assert (fl j it < length (recs j)) as Hlt by (apply nth_error_Some; congruence).
    destruct (Nat.ltb_spec (fl j it) (length (recs j))); [|lia].
    destruct Hw1 as [Hb1 Hw1]. destruct (j_ci it1) as [p|] eqn:Eci; [|congruence].
    destruct Hw1 as [Hp [c [Hf Hle]]]. rewrite Hread.
    unfold ci_read in Hread. rewrite Eci, Hf in Hread.
    assert (N.to_nat p < length (c_recs c)) as Hpl by (apply nth_error_Some; congruence).
    pose proof (fl_open j it1 p c Hs Eci Hp Hf Hle) as Hfo.
    split.
    + split; [assumption|]. cbn. split; [reflexivity|]. exists c. split; [assumption|]. rewrite <- cnt_len in Hpl. lia.
    + rewrite <- Hfl, Hfo. unfold fl, flat. cbn. rewrite Hf.
      assert (N.to_nat (p + 1) <= length (c_recs c)) by lia. lia.
  - specialize (Hnone eq_refl). rewrite Hnone. symmetry in Hr. apply nth_error_None in Hr.
    destruct (Nat.ltb_spec (fl j it) (length (recs j))); [lia|]. split; assumption.
Qed.

(* valid position: the index does not exceed the chunk *)
Definition vpos (j : journal) (pos : N * N) : Prop :=
  forall c, find_chunk j (fst pos) = Some c -> (snd pos <= cnt c)%N.

Lemma jit_set_pos_spec j it pos : wfj j it -> vpos j pos ->
  wfj j (jit_set_pos j it pos) /\ jit_pos (jit_set_pos j it pos) = pos.
Proof.
  intros [Hb Hw] Hv. destruct pos as [cid idx]. unfold jit_set_pos.
  destruct (N.eqb_spec cid (j_cid it)) as [E1|E1]; cbn [andb].
  - destruct (N.eqb_spec idx (j_idx it)) as [E2|E2].
    + split; [split; assumption|]. unfold jit_pos. congruence.
    + split; [|reflexivity]. split; [assumption|]. cbn. destruct (j_ci it) as [p|]; [|exact I].
      destruct Hw as [_ [c [Hf _]]]. subst cid. rewrite Hf. specialize (Hv c Hf). cbn in Hv.
      split; [lia|]. exists c. split; [reflexivity|lia].
  - split; [|reflexivity]. split; [assumption|]. cbn. exact I.
Qed.

(* ================================================================== appends keep positions meaningful *)
Fixpoint last_chunk (j : journal) : option chunk :=
  match j with
  | [] => None
  | c :: tl => match last_chunk tl with Some x => Some x | None => Some c end
  end.

(* stable position: valid, and not beyond the last chunk (so that later chunks and a longer last chunk do not
   change its flat index) *)
Definition spos (j : journal) (pos : N * N) : Prop :=
  vpos j pos /\ match last_chunk j with Some l => (fst pos <= c_id l)%N | None => pos = (0, 0)%N end.

Lemma last_chunk_some c j : exists l, last_chunk (c :: j) = Some l.
Proof. cbn. destruct (last_chunk j); eauto. Qed.

Lemma last_in j : forall l, last_chunk j = Some l -> In l j.
Proof.
  induction j as [|y j IH]; intros l H; [discriminate|]. cbn [last_chunk] in H.
  destruct (last_chunk j) as [q|]; [right; apply IH; congruence|injection H as <-; left; reflexivity].
Qed.

Lemma last_ge j : sorted j -> forall l c, last_chunk j = Some l -> In c j -> (c_id c <= c_id l)%N.
Proof.
  induction j as [|x j IH]; intros Hs l c Hl Hin; [destruct Hin|].
  destruct j as [|y j].
  - cbn in Hl. injection Hl as <-. destruct Hin as [<-|[]]. lia.
  - assert (last_chunk (y :: j) = Some l) as Hl2.
    { destruct (last_chunk_some y j) as [q Hq]. cbn [last_chunk] in Hl, Hq |- *. rewrite Hq in Hl |- *. exact Hl. }
    destruct Hin as [<-|Hin].
    + pose proof (sorted_head _ _ Hs) as Hh. rewrite Forall_forall in Hh. specialize (Hh _ (last_in _ _ Hl2)). unfold id_lt in Hh. lia.
    + apply (IH (sorted_tail _ _ Hs) l c Hl2 Hin).
Qed.

Lemma jappend_ids c j cid evs : j <> [] -> Forall (id_lt c) j -> Forall (id_lt c) (jappend j cid evs).
Proof.
  induction j as [|x j IH]; intros Hne Hf; [congruence|].
  inversion Hf as [|? ? Hx Hj]; subst. cbn [jappend]. destruct j as [|y j].
  - destruct (N.eqb_spec (c_id x) cid).
    + constructor; [unfold id_lt in *; cbn; lia|constructor].
    + destruct (N.ltb_spec (c_id x) cid).
      * constructor; [assumption|]. constructor; [unfold id_lt in *; cbn; lia|constructor].
      * constructor; [assumption|constructor].
  - constructor; [assumption|]. apply IH; [discriminate|assumption].
Qed.

Lemma jappend_sorted j cid evs : sorted j -> sorted (jappend j cid evs).
Proof.
  induction j as [|x j IH]; intros Hs; cbn [jappend].
  - constructor; constructor.
  - destruct j as [|y j].
    + destruct (N.eqb_spec (c_id x) cid); [constructor; constructor|].
      destruct (N.ltb_spec (c_id x) cid); [|assumption].
      constructor; [constructor; constructor|]. constructor; [unfold id_lt; cbn; lia|constructor].
    + constructor; [apply IH; eapply sorted_tail; eassumption|].
      apply jappend_ids; [discriminate|eapply sorted_head; eassumption].
Qed.

Lemma jappend_recs j cid evs : exists more, recs (jappend j cid evs) = recs j ++ more.
Proof.
  unfold recs. induction j as [|x j IH]; cbn [jappend].
  - exists evs. cbn. apply app_nil_r.
  - destruct j as [|y j].
    + destruct (N.eqb_spec (c_id x) cid).
      * exists evs. cbn. rewrite !app_nil_r. reflexivity.
      * destruct (N.ltb_spec (c_id x) cid); [exists evs|exists []]; cbn; rewrite ?app_nil_r; reflexivity.
    + destruct IH as [more IH]. exists more. cbn [flat_map]. rewrite IH. cbn. rewrite <- !app_assoc. reflexivity.
Qed.

Lemma jappend_before j cid evs x : sorted j -> (forall l, last_chunk j = Some l -> (x <= c_id l)%N) -> j <> [] ->
  before (jappend j cid evs) x = before j x.
Proof.
  induction j as [|y j IH]; intros Hs Hl Hne; [congruence|]. cbn [jappend]. destruct j as [|z j].
  - specialize (Hl y eq_refl).
    destruct (N.eqb_spec (c_id y) cid).
    + cbn. destruct (N.ltb_spec cid x); destruct (N.ltb_spec (c_id y) x); try lia.
    + destruct (N.ltb_spec (c_id y) cid); [|reflexivity].
      cbn. destruct (N.ltb_spec (c_id y) x); lia.
  - cbn [before]. destruct (N.ltb_spec (c_id y) x); [|reflexivity]. f_equal.
    apply IH; [eapply sorted_tail; eassumption| |discriminate].
    intros l El. apply Hl. cbn [last_chunk] in *. rewrite El. reflexivity.
Qed.

Lemma jappend_find j cid evs x : sorted j -> (forall l, last_chunk j = Some l -> (x <= c_id l)%N) -> j <> [] ->
  match find_chunk j x with
  | Some c => exists c', find_chunk (jappend j cid evs) x = Some c' /\ exists more, c_recs c' = c_recs c ++ more
  | None => find_chunk (jappend j cid evs) x = None
  end.
Proof.
  induction j as [|y j IH]; intros Hs Hl Hne; [congruence|]. cbn [jappend]. destruct j as [|z j].
  - specialize (Hl y eq_refl).
    destruct (N.eqb_spec (c_id y) cid) as [E|E].
    + subst cid. cbn. destruct (N.eqb_spec (c_id y) x).
      * eexists. split; [reflexivity|]. cbn. eauto.
      * reflexivity.
    + destruct (N.ltb_spec (c_id y) cid).
      * cbn. destruct (N.eqb_spec (c_id y) x).
        -- eexists. split; [reflexivity|]. exists []. rewrite app_nil_r. reflexivity.
        -- destruct (N.eqb_spec cid x); [lia|reflexivity].
      * cbn. destruct (N.eqb_spec (c_id y) x); [|reflexivity].
        eexists. split; [reflexivity|]. exists []. rewrite app_nil_r. reflexivity.
  - cbn [find_chunk]. destruct (N.eqb_spec (c_id y) x).
    + eexists. split; [reflexivity|]. exists []. rewrite app_nil_r. reflexivity.
    + apply IH; [eapply sorted_tail; eassumption| |discriminate].
      intros l El. apply Hl. cbn [last_chunk] in *. rewrite El. reflexivity.
Qed.

Lemma jappend_last j cid evs l : sorted j -> last_chunk j = Some l ->
  exists l', last_chunk (jappend j cid evs) = Some l' /\ (c_id l <= c_id l')%N.
Proof.
  induction j as [|y j IH]; intros Hs Hl; [discriminate|]. cbn [jappend]. destruct j as [|z j].
  - cbn in Hl. injection Hl as <-.
    destruct (N.eqb_spec (c_id y) cid); [eexists; split; [reflexivity|cbn; lia]|].
    destruct (N.ltb_spec (c_id y) cid); eexists; (split; [reflexivity|cbn; lia]).
  - assert (last_chunk (z :: j) = Some l) as Hl2.
    { cbn [last_chunk] in Hl. destruct (last_chunk_some z j) as [q Hq]. cbn [last_chunk] in Hq. rewrite Hq in Hl. rewrite <- Hl. exact Hq. }
    destruct (IH (sorted_tail _ _ Hs) Hl2) as [l' [A B]]. exists l'. split; [|assumption].
    cbn [last_chunk]. cbn [last_chunk] in A. rewrite A. reflexivity.
Qed.

Lemma spos_append j cid evs pos : sorted j -> spos j pos ->
  spos (jappend j cid evs) pos /\ flat (jappend j cid evs) pos = flat j pos.
Proof.
  intros Hs [Hv Hl]. destruct j as [|y j].
  - cbn in Hl. subst pos. cbn [jappend]. split.
    + split; [intros c Hc; cbn; lia|]. cbn. lia.
    + unfold flat. cbn. destruct (N.ltb_spec cid 0); [lia|]. destruct (cid =? 0)%N; cbn; reflexivity.
  - destruct (last_chunk_some y j) as [l El]. rewrite El in Hl.
    assert (forall l0, last_chunk (y :: j) = Some l0 -> (fst pos <= c_id l0)%N) as Hl' by (intros l0 E0; congruence).
    pose proof (jappend_before (y :: j) cid evs (fst pos) Hs Hl' ltac:(discriminate)) as Hb.
    pose proof (jappend_find (y :: j) cid evs (fst pos) Hs Hl' ltac:(discriminate)) as Hf.
    destruct (jappend_last (y :: j) cid evs l Hs El) as [l' [El' Hle]].
    split.
    + split.
      * intros c Hc. destruct (find_chunk (y :: j) (fst pos)) as [c0|] eqn:E0.
        -- destruct Hf as [c' [Hc' [more Hm]]]. rewrite Hc in Hc'. injection Hc' as <-.
           specialize (Hv c0 E0). unfold cnt in *. rewrite Hm, app_length. lia.
        -- congruence.
      * rewrite El'. lia.
    + unfold flat. rewrite Hb. f_equal. destruct (find_chunk (y :: j) (fst pos)) as [c0|] eqn:E0.
      * destruct Hf as [c' [Hc' [more Hm]]]. rewrite Hc'. specialize (Hv c0 E0).
        rewrite Hm, app_length. unfold cnt in Hv.
        assert (N.to_nat (snd pos) <= length (c_recs c0)) by lia. lia.
      * rewrite Hf. reflexivity.
Qed.

Lemma wfj_append j cid evs it : sorted j -> wfj j it -> spos j (jit_pos it) -> wfj (jappend j cid evs) it.
Proof.
  intros Hs [Hb Hw] [Hv Hl]. split; [assumption|]. destruct (j_ci it) as [p|]; [|exact I].
  destruct Hw as [Hp [c [Hf Hle]]]. split; [assumption|].
  destruct j as [|y j]; [discriminate|].
  destruct (last_chunk_some y j) as [l El]. rewrite El in Hl.
  assert (forall l0, last_chunk (y :: j) = Some l0 -> (fst (jit_pos it) <= c_id l0)%N) as Hl' by (intros l0 E0; congruence).
  pose proof (jappend_find (y :: j) cid evs (fst (jit_pos it)) Hs Hl' ltac:(discriminate)) as Hfi.
  cbn [jit_pos fst] in Hfi. rewrite Hf in Hfi. destruct Hfi as [c' [Hc' [more Hm]]].
  exists c'. split; [assumption|]. unfold cnt in *. rewrite Hm, app_length. lia.
Qed.

(* positions produced by the iterator are stable *)
Lemma spos_of_open j it : sorted j -> wfj j it -> j_ci it <> None -> spos j (jit_pos it).
Proof.
  intros Hs [Hb Hw] Ho. destruct (j_ci it) as [p|]; [|congruence]. destruct Hw as [Hp [c [Hf Hle]]].
  split.
  - intros c0 Hc0. cbn in *. rewrite Hf in Hc0. injection Hc0 as <-. lia.
  - destruct (last_chunk j) as [l|] eqn:El.
    + pose proof (last_ge j Hs l c El (find_chunk_in _ _ _ Hf)). rewrite (find_chunk_id _ _ _ Hf) in H. exact H.
    + destruct j; [discriminate|]. destruct (last_chunk_some c0 j). congruence.
Qed.

Lemma ensure_closed_spos j it it' : sorted j -> spos j (jit_pos it) -> j_ci it = None -> ensure j it = (it', false) ->
  spos j (jit_pos it').
Proof.
  intros Hs Hsp Hci He. unfold ensure in He. rewrite Hci in He.
  pose proof (chunk_ge_spec j Hs (j_cid it)) as G. destruct (chunk_ge j (j_cid it)) as [c|].
  - destruct (N.ltb_spec (c_id c) (j_cid it)); [|discriminate]. injection He as <-.
    inversion G as [|c' Hf Hc Hbe Hn|c' Hf Hc Hbe Hb2 Hn]; subst c'; [lia|].
    split.
    + intros c0 Hc0. cbn in *. rewrite Hf in Hc0. injection Hc0 as <-. lia.
    + cbn. destruct (last_chunk j) as [l|] eqn:El.
      * apply (last_ge j Hs l c El (find_chunk_in _ _ _ Hf)).
      * destruct j; [discriminate|]. destruct (last_chunk_some c0 j). congruence.
  - injection He as <-. assumption.
Qed.

Lemma get_loop_spos j : sorted j -> forall fuel it it' r, wfj j it -> j_ci it <> None -> count_gt j (j_cid it) < fuel ->
  get_loop fuel j it = (it', r) -> spos j (jit_pos it').
Proof.
  intros Hs. induction fuel as [|f IH]; intros it it' r Hw Hopen Hfuel Hg; [lia|].
  cbn [get_loop] in Hg. destruct (ci_read j it) as [e|] eqn:Er.
  - injection Hg as <- <-. apply spos_of_open; assumption.
  - destruct Hw as [Hb Hw]. destruct (j_ci it) as [p|] eqn:Eci; [|congruence].
    destruct Hw as [Hp [c [Hf Hle]]].
    assert (wfj j (advance it)) as Hwa by (split; [assumption|exact I]).
    destruct (ensure j (advance it)) as [it2 ok] eqn:Ee.
    destruct (ensure_spec j _ _ _ Hs Hwa Ee) as [Hw2 [Hfl2 [Hok Hnok]]].
    destruct ok.
    + specialize (Hok eq_refl).
      assert (count_gt j (j_cid it2) < f) as Hm.
      { destruct Hw2 as [_ Hw2]. destruct (j_ci it2) as [p2|] eqn:E2; [|congruence].
        destruct Hw2 as [_ [c2 [Hf2 _]]].
        assert (j_cid it < j_cid it2)%N as Hlt.
        { unfold ensure in Ee. cbn in Ee. pose proof (chunk_ge_spec j Hs (j_cid it + 1)) as G.
          destruct (chunk_ge j (j_cid it + 1)) as [cc|]; [|discriminate Ee].
          destruct (N.ltb_spec (c_id cc) (j_cid it + 1)); [discriminate Ee|].
          injection Ee as <-. cbn. lia. }
        pose proof (count_gt_lt j _ _ _ Hf2 Hlt). lia. }
      apply (IH it2 it' r Hw2 Hok Hm Hg).
    + injection Hg as <- <-.
      (* the closing ensure returned EOF: the position is the end of the last chunk *)
      unfold ensure in Ee. cbn [advance j_ci j_cid j_idx j_bad] in Ee.
      pose proof (chunk_ge_spec j Hs (j_cid it + 1)) as G. destruct (chunk_ge j (j_cid it + 1)) as [cc|].
      * destruct (N.ltb_spec (c_id cc) (j_cid it + 1)); [|discriminate]. injection Ee as <-.
        inversion G as [|c' Hf' Hc Hbe Hn|c' Hf' Hc Hbe Hb2 Hn]; subst c'; [lia|].
        split.
        -- intros c0 Hc0. cbn in *. rewrite Hf' in Hc0. injection Hc0 as <-. lia.
        -- cbn. destruct (last_chunk j) as [l|] eqn:El.
           ++ apply (last_ge j Hs l cc El (find_chunk_in _ _ _ Hf')).
           ++ destruct j; [discriminate|]. destruct (last_chunk_some c0 j). congruence.
      * inversion G as [Hj| |]. subst j. discriminate.
Qed.

Lemma jit_get_spos j it it' r : sorted j -> wfj j it -> spos j (jit_pos it) -> jit_get j it = (it', r) -> spos j (jit_pos it').
Proof.
  intros Hs Hw Hsp Hg. unfold jit_get in Hg. destruct (ensure j it) as [it1 ok] eqn:Ee.
  destruct (ensure_spec j _ _ _ Hs Hw Ee) as [Hw1 [Hfl1 [Hok Hnok]]]. destruct ok.
  - assert (count_gt j (j_cid it1) < S (length j)) as Hm by (pose proof (count_gt_le j (j_cid it1)); lia).
    apply (get_loop_spos j Hs _ _ _ _ Hw1 (Hok eq_refl) Hm Hg).
  - injection Hg as <- <-. destruct (j_ci it) eqn:Eci.
    + unfold ensure in Ee. rewrite Eci in Ee. discriminate.
    + apply (ensure_closed_spos j it it1 Hs Hsp Eci Ee).
Qed.

Lemma jit_next_spos j it : sorted j -> wfj j it -> spos j (jit_pos it) -> spos j (jit_pos (jit_next j it)).
Proof.
  intros Hs Hw Hsp. destruct (jit_next_spec j it Hs Hw) as [Hwn _].
  unfold jit_next in *. destruct (jit_get j it) as [it1 r] eqn:Eg.
  pose proof (jit_get_spos j _ _ _ Hs Hw Hsp Eg) as Hs1.
  destruct (j_ci it1) as [p|] eqn:Eci; [|assumption].
  apply spos_of_open; [assumption|assumption|cbn; congruence].
Qed.

(* ================================================================== layer 2: LogEventIterator *)
Lemma jit0_ok j : wfj j jit0 /\ spos j (jit_pos jit0) /\ fl j jit0 = 0.
Proof.
  split; [split; [reflexivity|exact I]|]. split.
  - split.
    + intros c Hc. cbn. lia.
    + destruct (last_chunk j); cbn; [lia|reflexivity].
  - unfold fl, flat. cbn. assert (before j 0 = 0) as ->.
    { destruct j as [|x j]; cbn; [reflexivity|]. destruct (N.ltb_spec (c_id x) 0); [lia|reflexivity]. }
    destruct (find_chunk j 0); reflexivity.
Qed.

Section Cur.
  Variable clear : bool.
  Variable filtered : bool.
  Variable flt : oev -> bool.
  Variable choose : nat -> list (option oev) -> nat.
  Variable strict : bool.

  Definition fcoh (j : journal) (l : lei) (n : nat) : Prop :=
    clear = true \/ l_flds l = [] \/ exists e, nth_error (recs j) n = Some e /\ l_flds l = e_flds e.

  Definition lei_ok (j : journal) (l : lei) (n : nat) : Prop :=
    wfj j (l_it l) /\ spos j (jit_pos (l_it l)) /\ fl j (l_it l) = n /\ fcoh j l n.

  Lemma lei_get_spec j i l n l' r : sorted j -> lei_ok j l n -> lei_get clear j i l = (l', r) ->
    lei_ok j l' n /\ r = option_map (obs i) (nth_error (recs j) n).
  Proof.
    intros Hs [Hw [Hsp [Hfl Hc]]] Hg. unfold lei_get in Hg. destruct (jit_get j (l_it l)) as [it' r0] eqn:Eg.
    destruct (jit_get_spec j _ _ _ Hs Hw Eg) as [Hw' [Hfl' [Hr _]]].
    pose proof (jit_get_spos j _ _ _ Hs Hw Hsp Eg) as Hsp'. rewrite Hfl in Hr.
    destruct r0 as [e|]; injection Hg as <- <-.
    - assert (unmarshal_flds clear (l_flds l) e = e_flds e) as Hu.
      { unfold unmarshal_flds. destruct (e_flds e) eqn:Ef; [|reflexivity].
        destruct Hc as [->|[->|[e' [He' Hl]]]]; [reflexivity|destruct clear; reflexivity|].
        rewrite <- Hr in He'. injection He' as <-. rewrite Hl, Ef. destruct clear; reflexivity. }
      rewrite Hu. split.
      + split; [assumption|]. split; [assumption|]. split; [cbn; congruence|].
        right. right. exists e. split; [congruence|reflexivity].
      + rewrite <- Hr. reflexivity.
    - split.
      + split; [assumption|]. split; [assumption|]. split; [cbn; congruence|].
        destruct Hc as [Hc|[Hc|[e' [He' _]]]]; [left; assumption|right; left; assumption|congruence].
      + rewrite <- Hr. reflexivity.
  Qed.

  Lemma lei_next_spec j l n : sorted j -> lei_ok j l n ->
    lei_ok j (lei_next j l) (if n <? length (recs j) then S n else n).
  Proof.
    intros Hs [Hw [Hsp [Hfl Hc]]]. destruct (jit_next_spec j _ Hs Hw) as [Hw' Hfl'].
    split; [assumption|]. split; [apply jit_next_spos; assumption|]. split; [cbn; rewrite Hfl', Hfl; reflexivity|].
    right. left. reflexivity.
  Qed.

  Lemma lei_ok_le j l n : sorted j -> lei_ok j l n -> n <= length (recs j).
  Proof. intros Hs [_ [_ [Hfl _]]]. subst n. apply flat_le. assumption. Qed.

  Lemma lei_ok_append j cid evs l n : sorted j -> lei_ok j l n -> lei_ok (jappend j cid evs) l n.
  Proof.
    intros Hs [Hw [Hsp [Hfl Hc]]]. destruct (spos_append j cid evs _ Hs Hsp) as [Hsp' Hfl'].
    split; [apply wfj_append; assumption|]. split; [assumption|]. split; [unfold fl in *; congruence|].
    destruct Hc as [Hc|[Hc|[e [He Hl]]]]; [left; assumption|right; left; assumption|].
    right. right. exists e. split; [|assumption].
    destruct (jappend_recs j cid evs) as [more ->]. rewrite nth_error_app1; [assumption|].
    apply nth_error_Some. congruence.
  Qed.

  Lemma lei_new j pos : spos j pos -> lei_ok j (mkLei (jit_set_pos j jit0 pos) []) (flat j pos).
  Proof.
    intros Hsp. destruct (jit0_ok j) as [Hw0 _].
    destruct (jit_set_pos_spec j jit0 pos Hw0 (proj1 Hsp)) as [Hw Hp].
    split; [assumption|]. split; [cbn; rewrite Hp; assumption|]. split; [unfold fl; cbn; rewrite Hp; reflexivity|].
    right. left. reflexivity.
  Qed.

  Lemma lei_fresh j : lei_ok j (mkLei jit0 []) 0.
  Proof.
    destruct (jit0_ok j) as [A [B C]]. split; [assumption|]. split; [assumption|]. split; [assumption|]. right. left. reflexivity.
  Qed.

  (* ================================================================ layer 3: the cursor *)
  Inductive all3 : store -> list lei -> list nat -> Prop :=
  | A3nil : all3 [] [] []
  | A3cons p st l ls n ns : sorted (p_jrnl p) -> lei_ok (p_jrnl p) l n -> all3 st ls ns -> all3 (p :: st) (l :: ls) (n :: ns).

  Lemma all3_len st ls ns : all3 st ls ns -> length ls = length st /\ length ns = length st.
  Proof. induction 1; cbn; [split; reflexivity|]. destruct IHall3. split; congruence. Qed.

  (* what Get on each source returns, as a function of the consumed counts *)
  Fixpoint heads_of (i : nat) (st : store) (ns : list nat) : list (option oev) :=
    match st, ns with
    | p :: st', n :: ns' => option_map (obs i) (nth_error (recs (p_jrnl p)) n) :: heads_of (S i) st' ns'
    | _, _ => []
    end.

  Fixpoint bump (st : store) (k : nat) (ns : list nat) : list nat :=
    match st, ns with
    | p :: st', n :: ns' =>
        match k with
        | O => (if n <? length (recs (p_jrnl p)) then S n else n) :: ns'
        | S k' => n :: bump st' k' ns'
        end
    | _, _ => ns
    end.

  Lemma poll_spec st : forall i ls ns ls' hs, all3 st ls ns -> poll clear st i ls = (ls', hs) ->
    all3 st ls' ns /\ hs = heads_of i st ns.
  Proof.
    induction st as [|p st IH]; intros i ls ns ls' hs H Hp; inversion H as [|p' st' l ls0 n ns0 Hso Hok Hrest]; subst; cbn in Hp.
    - injection Hp as <- <-. split; [constructor|reflexivity].
    - destruct (lei_get clear (p_jrnl p) i l) as [l' r] eqn:Eg.
      destruct (poll clear st (S i) ls0) as [ls'' rs] eqn:Ep. injection Hp as <- <-.
      destruct (lei_get_spec _ _ _ _ _ _ Hso Hok Eg) as [Hl Hr].
      destruct (IH _ _ _ _ _ Hrest Ep) as [Ha Hh]. split; [constructor; assumption|]. cbn. congruence.
  Qed.

  Lemma next_at_spec st : forall k ls ns, all3 st ls ns -> all3 st (next_at st k ls) (bump st k ns).
  Proof.
    induction st as [|p st IH]; intros k ls ns H; inversion H as [|p' st' l ls0 n ns0 Hso Hok Hrest]; subst; cbn; [constructor|].
    destruct k; constructor; try assumption; [apply lei_next_spec; assumption|apply IH; assumption].
  Qed.

  Lemma heads_nth st : forall ns i k ev, nth_error (heads_of i st ns) k = Some (Some ev) ->
    exists p n e, nth_error st k = Some p /\ nth_error ns k = Some n /\ nth_error (recs (p_jrnl p)) n = Some e /\ ev = obs (i + k) e.
  Proof.
    induction st as [|p st IH]; intros ns i k ev H; destruct ns as [|n ns]; cbn in H; try (destruct k; discriminate).
    destruct k; cbn in H.
    - destruct (nth_error (recs (p_jrnl p)) n) as [e|] eqn:E; [|discriminate]. cbn in H. injection H as <-.
      exists p, n, e. rewrite Nat.add_0_r. repeat split; assumption.
    - destruct (IH _ _ _ _ H) as [p' [n' [e [A [B [C D]]]]]]. exists p', n', e. cbn.
      replace (i + S k) with (S i + k) by lia. repeat split; assumption.
  Qed.

  Definition head_at (st : store) (ns : list nat) (ev : oev) : Prop :=
    nth_error (heads_of 0 st ns) (o_src ev) = Some (Some ev).

  Definition at_end (st : store) (ns : list nat) : Prop := forall k ev, nth_error (heads_of 0 st ns) k <> Some (Some ev).

  Record cur_ok (st : store) (c : cursor) (ns : list nat) : Prop := mkCurOk {
    co_leis : all3 st (cu_leis c) ns;
    co_bad : cu_bad c = false;
    co_sel : forall ev, cu_sel c = Some ev -> 1 < length (cu_leis c) /\ head_at st ns ev;
    co_fit : forall ev, cu_fit c = Some ev ->
               filtered = true /\ flt ev = true /\ head_at st ns ev /\ (1 < length (cu_leis c) -> cu_sel c = Some ev)
  }.

  Definition same_hdr (c c' : cursor) : Prop := cu_id c' = cu_id c /\ cu_pos c' = cu_pos c /\ length (cu_leis c') = length (cu_leis c).

  Lemma src_get_spec st c ns c' r : cur_ok st c ns -> src_get clear choose st c = (c', r) ->
    cur_ok st c' ns /\ cu_fit c' = cu_fit c /\ same_hdr c c' /\
    (forall ev, r = Some ev -> head_at st ns ev /\ (1 < length (cu_leis c) -> cu_sel c' = Some ev)).
  Proof.
    intros H Hg. unfold src_get in Hg.
    assert (forall ls hs, poll clear st 0 (cu_leis c) = (ls, hs) ->
      (let k := if 1 <? length (cu_leis c) then choose (cu_tick c) hs else 0 in
       let r := match nth_error hs k with Some (Some ev) => Some ev | _ => None end in
       let sel := if 1 <? length (cu_leis c) then r else None in
       (mkCur (cu_id c) (cu_pos c) ls sel (cu_fit c) (S (cu_tick c)) (cu_bad c), r)) = (c', r) ->
      (cu_sel c = None \/ (1 <? length (cu_leis c)) = false) ->
      cur_ok st c' ns /\ cu_fit c' = cu_fit c /\ same_hdr c c' /\
      (forall ev, r = Some ev -> head_at st ns ev /\ (1 < length (cu_leis c) -> cu_sel c' = Some ev))) as Hpoll.
    { intros ls hs Ep Heq Hcase. destruct (poll_spec _ _ _ _ _ _ (co_leis _ _ _ H) Ep) as [Ha Hh].
      destruct (all3_len _ _ _ Ha) as [Hl1 _]. destruct (all3_len _ _ _ (co_leis _ _ _ H)) as [Hl2 _].
      cbn zeta in Heq. injection Heq as <- Hr.
      assert (forall ev, r = Some ev -> head_at st ns ev) as Hhead.
      { intros ev Hev. subst r hs.
        destruct (nth_error (heads_of 0 st ns) (if 1 <? length (cu_leis c) then choose (cu_tick c) (heads_of 0 st ns) else 0)) as [[ev'|]|] eqn:En; try discriminate.
        injection Hev as ->. destruct (heads_nth _ _ _ _ _ En) as [p [n [e [_ [_ [_ Hobs]]]]]].
        unfold head_at. rewrite Hobs at 1. cbn [obs o_src]. exact En. }
      split; [|split; [reflexivity|split; [split; [reflexivity|split; [reflexivity|cbn; congruence]]|]]].
      - constructor; cbn [cu_sel cu_fit cu_leis cu_bad cu_id cu_pos cu_tick].
        + assumption.
        + apply (co_bad _ _ _ H).
        + intros ev. destruct (1 <? length (cu_leis c)) eqn:Em; intros Hev; [|discriminate].
          split; [rewrite Hl1, <- Hl2; apply Nat.ltb_lt; assumption|]. apply Hhead. rewrite <- Hr. assumption.
        + intros ev Hev. destruct (co_fit _ _ _ H ev Hev) as [A [B [C D]]]. split; [assumption|]. split; [assumption|]. split; [assumption|].
          intros Hm. rewrite Hl1, <- Hl2 in Hm. specialize (D Hm).
          destruct Hcase as [Hc|Hc]; [congruence|]. apply Nat.ltb_lt in Hm. congruence.
      - intros ev Hev. split; [apply Hhead; assumption|]. intros Hm. cbn [cu_sel]. apply Nat.ltb_lt in Hm. rewrite <- Hr in Hev. rewrite Hm in Hev |- *. exact Hev. }
    destruct (cu_sel c) as [ev0|] eqn:Es.
    - destruct (1 <? length (cu_leis c)) eqn:Em.
      + injection Hg as <- <-. split; [assumption|]. split; [reflexivity|]. split; [repeat split|].
        intros ev Hev. injection Hev as <-. split; [apply (co_sel _ _ _ H); assumption|]. intros _. assumption.
      + destruct (poll clear st 0 (cu_leis c)) as [ls hs] eqn:Ep. apply (Hpoll ls hs eq_refl); [|right; reflexivity].
        exact Hg.
    - destruct (poll clear st 0 (cu_leis c)) as [ls hs] eqn:Ep. apply (Hpoll ls hs eq_refl); [|left; reflexivity].
      destruct (1 <? length (cu_leis c)); exact Hg.
  Qed.

  (* ---------------------------------------------------------------- ghost accounting *)
  Definition eflt (ev : oev) : bool := eff_flt filtered flt ev.

  (* D: everything delivered so far; ns: records consumed per partition *)
  Definition acc (D : list oev) (st : store) (ns : list nat) : Prop :=
    forall p, events_of p D = filter eflt (map (obs p) (firstn (nth p ns 0) (part_events st p))).

  Lemma firstn_S_nth {A} (l : list A) : forall n e, nth_error l n = Some e -> firstn (S n) l = firstn n l ++ [e].
  Proof.
    induction l as [|x l IH]; intros n e H; destruct n; cbn in *; try discriminate.
    - injection H as <-. reflexivity.
    - f_equal. apply IH. assumption.
  Qed.

  Lemma bump_nth st : forall k ns q,
    nth q (bump st k ns) 0 =
    if q =? k then match nth_error st k, nth_error ns k with
                   | Some p, Some n => if n <? length (recs (p_jrnl p)) then S n else n
                   | _, _ => nth q ns 0
                   end
    else nth q ns 0.
  Proof.
    induction st as [|p st IH]; intros k ns q.
    - cbn. destruct (q =? k); [destruct k; reflexivity|reflexivity].
    - destruct ns as [|n ns].
      + cbn. destruct (q =? k); [destruct k; cbn; [reflexivity|destruct (nth_error st k); reflexivity]|reflexivity].
      + destruct k, q; cbn [bump nth nth_error Nat.eqb]; try reflexivity. apply IH.
  Qed.

  Lemma events_of_app p a b : events_of p (a ++ b) = events_of p a ++ events_of p b.
  Proof. unfold events_of. apply filter_app. Qed.

  Lemma acc_step D st ns k ev : acc D st ns -> nth_error (heads_of 0 st ns) k = Some (Some ev) ->
    (eflt ev = false -> acc D st (bump st k ns)) /\ (eflt ev = true -> acc (D ++ [ev]) st (bump st k ns)).
  Proof.
    intros Ha Hh. destruct (heads_nth _ _ _ _ _ Hh) as [pt [n [e [Hst [Hns [He Hev]]]]]]. cbn in Hev.
    assert (n < length (recs (p_jrnl pt))) as Hlt by (apply nth_error_Some; congruence).
    assert (forall q, q <> k -> nth q (bump st k ns) 0 = nth q ns 0) as Hother.
    { intros q Hq. rewrite bump_nth. destruct (Nat.eqb_spec q k); [congruence|reflexivity]. }
    assert (nth k (bump st k ns) 0 = S n) as Hsame.
    { rewrite bump_nth, Nat.eqb_refl, Hst, Hns. destruct (Nat.ltb_spec n (length (recs (p_jrnl pt)))); [reflexivity|lia]. }
    assert (nth k ns 0 = n) as Hn by (apply nth_error_nth; assumption).
    assert (part_events st k = recs (p_jrnl pt)) as Hpe by (unfold part_events; rewrite Hst; reflexivity).
    assert (filter eflt (map (obs k) (firstn (S n) (part_events st k))) =
            filter eflt (map (obs k) (firstn n (part_events st k))) ++ (if eflt ev then [ev] else [])) as Hf.
    { rewrite Hpe, (firstn_S_nth _ _ _ He), map_app, filter_app. cbn. rewrite <- Hev. reflexivity. }
    split; intros Hfl p.
    - destruct (Nat.eq_dec p k) as [->|Hne].
      + rewrite Hsame, Hf, Hfl, app_nil_r, <- Hn. apply Ha.
      + rewrite (Hother p Hne). apply Ha.
    - rewrite events_of_app. destruct (Nat.eq_dec p k) as [->|Hne].
      + rewrite Hsame, Hf, Hfl, <- Hn, <- Ha. f_equal. unfold events_of. cbn. rewrite Hev. cbn. rewrite Nat.eqb_refl. reflexivity.
      + rewrite (Hother p Hne), <- Ha. unfold events_of at 2. cbn. rewrite Hev. cbn.
        destruct (Nat.eqb_spec k p); [congruence|]. apply app_nil_r.
  Qed.

  Lemma heads_len st : forall i ls ns, all3 st ls ns -> length (heads_of i st ns) = length st.
  Proof. intros i ls ns H. revert i. induction H; intros i; cbn; [reflexivity|]. f_equal. apply IHall3. Qed.

  Lemma set_fit_id c : cu_fit c = None -> set_fit c None = c.
  Proof. destruct c; cbn. intros ->. reflexivity. Qed.

  Lemma src_get_head st c ns ev : cur_ok st c ns -> head_at st ns ev -> (1 < length (cu_leis c) -> cu_sel c = Some ev) ->
    exists c1, src_get clear choose st c = (c1, Some ev).
  Proof.
    intros H Hh Hm. unfold src_get. destruct (Nat.ltb_spec 1 (length (cu_leis c))) as [L|L].
    - rewrite (Hm L). eexists. reflexivity.
    - destruct (poll clear st 0 (cu_leis c)) as [ls hs] eqn:Ep.
      destruct (poll_spec _ _ _ _ _ _ (co_leis _ _ _ H) Ep) as [Ha ->].
      destruct (all3_len _ _ _ (co_leis _ _ _ H)) as [Hl _].
      unfold head_at in Hh. assert (o_src ev < length (heads_of 0 st ns)) as Hlt by (apply nth_error_Some; congruence).
      rewrite (heads_len _ _ _ _ Ha) in Hlt. assert (o_src ev = 0) as E0 by lia. rewrite E0 in Hh.
      destruct (cu_sel c); rewrite Hh; eexists; reflexivity.
  Qed.

  Lemma src_get_none st c ns c1 : cur_ok st c ns -> choose_valid choose -> src_get clear choose st c = (c1, None) -> at_end st ns.
  Proof.
    intros H Hv Hg k' ev' Hk'. unfold src_get in Hg.
    destruct (poll clear st 0 (cu_leis c)) as [ls hs] eqn:Ep.
    destruct (poll_spec _ _ _ _ _ _ (co_leis _ _ _ H) Ep) as [Ha ->].
    destruct (all3_len _ _ _ (co_leis _ _ _ H)) as [Hl _].
    destruct (Nat.ltb_spec 1 (length (cu_leis c))) as [L|L].
    - destruct (cu_sel c) as [e0|]; [discriminate|].
      destruct (Hv (cu_tick c) _ _ _ Hk') as [ev'' Hc]. rewrite Hc in Hg. discriminate.
    - assert (k' < length (heads_of 0 st ns)) as Hlt by (apply nth_error_Some; congruence).
      rewrite (heads_len _ _ _ _ Ha) in Hlt. assert (k' = 0) as -> by lia.
      destruct (cu_sel c); rewrite Hk' in Hg; discriminate.
  Qed.

  Lemma src_next_spec st c ns c1 r : cur_ok st c ns -> src_get clear choose st c = (c1, r) ->
    let c2 := set_fit (src_next clear choose st c) None in
    cur_ok st c2 (match r with Some ev => bump st (o_src ev) ns | None => ns end) /\ same_hdr c c2 /\ cu_sel c2 = None /\ cu_fit c2 = None.
  Proof.
    intros H Hg. destruct (src_get_spec _ _ _ _ _ H Hg) as [H1 [_ [[Hid [Hpos Hlen]] _]]].
    unfold src_next. rewrite Hg. destruct r as [ev|]; cbn.
    - split; [|split; [split; [assumption|split; [assumption|]]|split; reflexivity]].
      + constructor; cbn; [apply next_at_spec; apply (co_leis _ _ _ H1)|apply (co_bad _ _ _ H1)|discriminate|discriminate].
      + cbn. pose proof (next_at_spec st (o_src ev) _ _ (co_leis _ _ _ H1)) as Hn.
        destruct (all3_len _ _ _ Hn) as [A _]. destruct (all3_len _ _ _ (co_leis _ _ _ H)) as [B _]. congruence.
    - split; [|split; [split; [assumption|split; [assumption|assumption]]|split; reflexivity]].
      constructor; cbn; [apply (co_leis _ _ _ H1)|apply (co_bad _ _ _ H1)|discriminate|discriminate].
  Qed.

  (* records not yet consumed: the measure of the skip loop *)
  Fixpoint rem (st : store) (ns : list nat) : nat :=
    match st, ns with
    | p :: st', n :: ns' => (length (recs (p_jrnl p)) - n) + rem st' ns'
    | _, _ => 0
    end.

  Lemma rem_le_total st : forall ns, rem st ns <= total_events st.
  Proof.
    unfold total_events. induction st as [|p st IH]; intros [|n ns]; cbn [rem fold_right]; try lia. specialize (IH ns). lia.
  Qed.

  Lemma rem_bump st : forall i k ns ev, nth_error (heads_of i st ns) k = Some (Some ev) -> rem st (bump st k ns) < rem st ns.
  Proof.
    induction st as [|p st IH]; intros i k [|n ns] ev H; cbn [heads_of] in H; try (destruct k; discriminate).
    destruct k; cbn [nth_error] in H; cbn [rem bump].
    - destruct (nth_error (recs (p_jrnl p)) n) as [e|] eqn:E; [|discriminate].
      assert (n < length (recs (p_jrnl p))) as Hlt by (apply nth_error_Some; congruence).
      destruct (Nat.ltb_spec n (length (recs (p_jrnl p)))); lia.
    - specialize (IH _ _ _ _ H). lia.
  Qed.

  Lemma fit_loop_spec st D : forall fuel c ns c' r, cur_ok st c ns -> cu_fit c = None -> filtered = true -> rem st ns < fuel ->
    acc D st ns -> fit_loop clear flt choose fuel st c = (c', r) ->
    exists ns', cur_ok st c' ns' /\ acc D st ns' /\ same_hdr c c' /\ (at_end st ns -> ns' = ns) /\
      match r with
      | Some ev => head_at st ns' ev /\ flt ev = true /\ (1 < length (cu_leis c') -> cu_sel c' = Some ev)
      | None => choose_valid choose -> at_end st ns'
      end.
  Proof.
    induction fuel as [|f IH]; intros c ns c' r H Hfit Hfil Hrem Ha Hl; [lia|].
    cbn [fit_loop] in Hl. destruct (src_get clear choose st c) as [c1 r1] eqn:Eg.
    destruct (src_get_spec _ _ _ _ _ H Eg) as [H1 [Hf1 [Hh1 Hr1]]].
    destruct r1 as [ev|].
    - destruct (Hr1 ev eq_refl) as [Hhead Hsel]. destruct (flt ev) eqn:Efl.
      + injection Hl as <- <-. exists ns. split; [|split; [assumption|split; [|split; [reflexivity|]]]].
        * constructor; cbn; [apply (co_leis _ _ _ H1)|apply (co_bad _ _ _ H1)|apply (co_sel _ _ _ H1)|].
          intros ev' Hev'. injection Hev' as <-. split; [assumption|]. split; [assumption|]. split; [assumption|].
          destruct Hh1 as [_ [_ Hlen]]. rewrite Hlen. assumption.
        * destruct Hh1 as [A [B C]]. repeat split; cbn; assumption.
        * split; [assumption|]. split; [assumption|]. cbn. destruct Hh1 as [_ [_ Hlen]]. rewrite Hlen. assumption.
      + (* skipped: Next on the selected source, loop *)
        assert (1 < length (cu_leis c1) -> cu_sel c1 = Some ev) as Hsel1 by (destruct Hh1 as [_ [_ Hlen]]; rewrite Hlen; assumption).
        destruct (src_get_head _ _ _ _ H1 Hhead Hsel1) as [c1' Eg1].
        destruct (src_next_spec _ _ _ _ _ H1 Eg1) as [H2 [Hh2 [Hs2 Hf2]]]. cbn zeta in *.
        assert (cu_fit (src_next clear choose st c1) = None) as Hfn.
        { unfold src_next. rewrite Eg1. cbn. destruct (src_get_spec _ _ _ _ _ H1 Eg1) as [_ [Hf' _]]. congruence. }
        rewrite (set_fit_id _ Hfn) in *.
        destruct (acc_step D st ns (o_src ev) ev Ha Hhead) as [Hskip _].
        assert (eflt ev = false) as He by (unfold eflt, eff_flt; rewrite Hfil; assumption).
        pose proof (rem_bump _ _ _ _ _ Hhead) as Hrb.
        assert (rem st (bump st (o_src ev) ns) < f) as Hrf by lia.
        destruct (IH _ _ _ _ H2 Hfn Hfil Hrf (Hskip He) Hl) as [ns' [A [B [C [_ E]]]]].
        exists ns'. split; [assumption|]. split; [assumption|]. split; [|split; [|assumption]].
        * destruct Hh1 as [I1 [P1 L1]]. destruct Hh2 as [I2 [P2 L2]]. destruct C as [I3 [P3 L3]]. repeat split; congruence.
        * intros He'. exfalso. exact (He' _ _ Hhead).
    - injection Hl as <- <-. exists ns. split; [assumption|]. split; [assumption|]. split; [assumption|]. split; [reflexivity|].
      intros Hv. exact (src_get_none _ _ _ _ H Hv Eg).
  Qed.

  Lemma cur_get_spec st D c ns c' r : cur_ok st c ns -> acc D st ns -> cur_get clear filtered flt choose st c = (c', r) ->
    exists ns', cur_ok st c' ns' /\ acc D st ns' /\ same_hdr c c' /\ (at_end st ns -> ns' = ns) /\
      match r with
      | Some ev => head_at st ns' ev /\ eflt ev = true /\ (1 < length (cu_leis c') -> cu_sel c' = Some ev)
      | None => choose_valid choose -> at_end st ns'
      end.
  Proof.
    intros H Ha Hg. unfold cur_get in Hg. destruct filtered eqn:Efil.
    - destruct (cu_fit c) as [ev|] eqn:Ef.
      + injection Hg as <- <-. exists ns. destruct (co_fit _ _ _ H ev Ef) as [_ [B [C E]]].
        split; [assumption|]. split; [assumption|]. split; [repeat split|]. split; [reflexivity|]. split; [assumption|]. split; [|assumption].
        unfold eflt, eff_flt. rewrite Efil. assumption.
      + assert (rem st ns < S (total_events st)) as Hr by (pose proof (rem_le_total st ns); lia).
        destruct (fit_loop_spec st D _ _ _ _ _ H Ef Efil Hr Ha Hg) as [ns' [A [B [C [C2 E]]]]].
        exists ns'. split; [assumption|]. split; [assumption|]. split; [assumption|]. split; [assumption|].
        destruct r as [ev|]; [|assumption]. destruct E as [E1 [E2 E3]]. split; [assumption|]. split; [|assumption].
        unfold eflt, eff_flt. rewrite Efil. assumption.
    - destruct (src_get_spec _ _ _ _ _ H Hg) as [H1 [Hf1 [Hh1 Hr1]]]. exists ns.
      split; [assumption|]. split; [assumption|]. split; [assumption|]. split; [reflexivity|].
      destruct r as [ev|]; [|intros Hv; exact (src_get_none _ _ _ _ H Hv Hg)].
      destruct (Hr1 ev eq_refl) as [A B]. split; [assumption|]. split; [unfold eflt, eff_flt; rewrite Efil; reflexivity|].
      destruct Hh1 as [_ [_ Hlen]]. rewrite Hlen. assumption.
  Qed.

  Lemma cur_next_spec st c ns ev : cur_ok st c ns -> head_at st ns ev -> (1 < length (cu_leis c) -> cu_sel c = Some ev) ->
    cur_ok st (cur_next clear filtered choose st c) (bump st (o_src ev) ns) /\ same_hdr c (cur_next clear filtered choose st c).
  Proof.
    intros H Hh Hs. destruct (src_get_head _ _ _ _ H Hh Hs) as [c1 Eg].
    destruct (src_next_spec _ _ _ _ _ H Eg) as [H2 [Hh2 _]]. cbn zeta in *.
    unfold cur_next. destruct filtered eqn:Efil; [split; assumption|].
    assert (cu_fit (src_next clear choose st c) = None) as Hfn.
    { unfold src_next. rewrite Eg. cbn. destruct (src_get_spec _ _ _ _ _ H Eg) as [_ [Hf' _]].
      destruct (cu_fit c) as [e|] eqn:Ef; [|congruence]. destruct (co_fit _ _ _ H e Ef) as [A _]. congruence. }
    rewrite (set_fit_id _ Hfn) in *. split; assumption.
  Qed.

  Lemma page_loop_spec st : forall lim D c ns c' evs, cur_ok st c ns -> acc D st ns ->
    page_loop clear filtered flt choose lim st c = (c', evs) ->
    exists ns', cur_ok st c' ns' /\ acc (D ++ evs) st ns' /\ same_hdr c c' /\ length evs <= lim /\
                (length evs < lim -> choose_valid choose -> at_end st ns').
  Proof.
    induction lim as [|n IH]; intros D c ns c' evs H Ha Hp; cbn [page_loop] in Hp.
    - injection Hp as <- <-. exists ns. rewrite app_nil_r. split; [assumption|]. split; [assumption|]. split; [repeat split|cbn; split; lia].
    - destruct (cur_get clear filtered flt choose st c) as [c1 r] eqn:Eg.
      destruct (cur_get_spec _ _ _ _ _ _ H Ha Eg) as [ns1 [H1 [Ha1 [Hh1 [_ Hr]]]]].
      destruct r as [ev|].
      + destruct Hr as [Hhead [Hfl Hsel]].
        destruct (cur_next_spec _ _ _ _ H1 Hhead Hsel) as [H2 Hh2].
        destruct (page_loop clear filtered flt choose n st (cur_next clear filtered choose st c1)) as [c2 evs'] eqn:Ep.
        injection Hp as <- <-.
        destruct (acc_step D st ns1 (o_src ev) ev Ha1 Hhead) as [_ Hdel].
        destruct (IH _ _ _ _ _ H2 (Hdel Hfl) Ep) as [ns' [A [B [C [E F]]]]].
        exists ns'. split; [assumption|]. split; [rewrite <- app_assoc in B; exact B|]. split; [|split; [cbn; lia|]].
        * destruct Hh1 as [I1 [P1 L1]]. destruct Hh2 as [I2 [P2 L2]]. destruct C as [I3 [P3 L3]]. repeat split; congruence.
        * cbn [length]. intros Hlt. apply F. lia.
      + injection Hp as <- <-. exists ns1. rewrite app_nil_r. split; [assumption|]. split; [assumption|]. split; [assumption|].
        split; [cbn; lia|]. intros _. assumption.
  Qed.

  (* ---------------------------------------------------------------- commit and the positions it reports *)
  Inductive posl_ok : store -> posl -> list nat -> Prop :=
  | PKnil : posl_ok [] [] []
  | PKcons p st pos pl n ns : spos (p_jrnl p) pos -> flat (p_jrnl p) pos = n -> posl_ok st pl ns ->
      posl_ok (p :: st) ((p_src p, pos) :: pl) (n :: ns).

  Lemma collect_ok st ls ns : all3 st ls ns -> posl_ok st (collect_pos st ls) ns.
  Proof.
    induction 1 as [|p st l ls n ns Hs Hl _ IH]; cbn; constructor; try assumption.
    - apply Hl.
    - destruct Hl as [_ [_ [Hfl _]]]. exact Hfl.
  Qed.

  Lemma commit_spec st D c ns : cur_ok st c ns -> acc D st ns ->
    exists ns' pl, cur_ok st (commit clear filtered flt choose st c) ns' /\ acc D st ns' /\
      cu_id (commit clear filtered flt choose st c) = cu_id c /\
      cu_pos (commit clear filtered flt choose st c) = PList pl /\ posl_ok st pl ns' /\ (at_end st ns -> ns' = ns).
  Proof.
    intros H Ha. unfold commit. destruct (cur_get clear filtered flt choose st c) as [c1 r] eqn:Eg.
    destruct (cur_get_spec _ _ _ _ _ _ H Ha Eg) as [ns1 [H1 [Ha1 [[Hid _] [Hend _]]]]].
    exists ns1, (collect_pos st (cu_leis c1)). split; [|split; [assumption|split; [assumption|split; [reflexivity|split; [|assumption]]]]].
    - constructor; cbn; [apply (co_leis _ _ _ H1)|apply (co_bad _ _ _ H1)|apply (co_sel _ _ _ H1)|apply (co_fit _ _ _ H1)].
    - apply collect_ok. apply (co_leis _ _ _ H1).
  Qed.

  (* ---------------------------------------------------------------- a new cursor built from a position *)

  Definition start_ok (st : store) (pos : pos_t) (ns : list nat) : Prop :=
    (pos = PHead /\ ns = map (fun _ => 0) st) \/ (exists pl, pos = PList pl /\ posl_ok st pl ns).

  Definition Pq (pl : posl) (p : part) (n : nat) : Prop :=
    sorted (p_jrnl p) /\ exists pos, assoc_pos (p_src p) pl = Some pos /\ spos (p_jrnl p) pos /\ flat (p_jrnl p) pos = n.

  Lemma Pq_weaken s pos pl st ns : Forall2 (Pq pl) st ns -> ~ In s (map p_src st) -> Forall2 (Pq ((s, pos) :: pl)) st ns.
  Proof.
    induction 1 as [|p n st ns [Hs [q [Hq Hr]]] _ IH]; intros Hn; constructor.
    - split; [assumption|]. exists q. split; [|assumption]. cbn.
      destruct (bytes_eqb s (p_src p)) eqn:E; [|assumption]. apply bytes_eqb_eq in E. exfalso. apply Hn. left. congruence.
    - apply IH. intros Hin. apply Hn. right. assumption.
  Qed.

  Lemma posl_ok_assoc st pl ns : wf_store st -> posl_ok st pl ns -> Forall2 (Pq pl) st ns.
  Proof.
    intros [Hnd Hso] H. induction H as [|p st pos pl n ns Hsp Hfl _ IH]; [constructor|].
    cbn in Hnd. inversion Hnd as [|? ? Hnin Hnd']; subst. inversion Hso as [|? ? Hs1 Hso']; subst.
    constructor.
    - split; [assumption|]. exists pos. cbn. rewrite bytes_eqb_refl. repeat split; try assumption. apply Hsp. apply Hsp.
    - apply Pq_weaken; [apply IH; assumption|assumption].
  Qed.

  Lemma set_poss_ok pl : forall st ns, Forall2 (Pq pl) st ns -> all3 st (set_poss st (map (fun _ => mkLei jit0 []) st) pl) ns.
  Proof.
    induction 1 as [|p n st ns [Hs [pos [Hq [Hsp Hfl]]]] _ IH]; cbn; [constructor|].
    rewrite Hq. constructor; [assumption| |assumption]. rewrite <- Hfl. apply lei_new. assumption.
  Qed.

  Lemma set_all_head st : Forall (fun p => sorted (p_jrnl p)) st ->
    all3 st (set_all st (map (fun _ => mkLei jit0 []) st) (0, 0)%N) (map (fun _ => 0) st).
  Proof. induction 1 as [|p st Hs _ IH]; cbn; constructor; try assumption. apply lei_fresh. Qed.

  Lemma new_cursor_ok st id pos ns : wf_store st -> start_ok st pos ns -> cur_ok st (new_cursor st id pos) ns.
  Proof.
    intros Hwf [[-> ->]|[pl [-> Hpl]]]; constructor; cbn; try reflexivity; try discriminate.
    - apply set_all_head. apply Hwf.
    - apply set_poss_ok. apply posl_ok_assoc; assumption.
  Qed.

  (* ---------------------------------------------------------------- appends between pages *)
  Lemma all3_append st : forall i cid evs ls ns, all3 st ls ns -> all3 (append_at st i cid evs) ls ns.
  Proof.
    induction st as [|p st IH]; intros i cid evs ls ns H; inversion H as [|p' st' l ls0 n ns0 Hso Hok Hrest]; subst; cbn; [constructor|].
    destruct i; constructor; cbn; try assumption; [apply jappend_sorted; assumption|apply lei_ok_append; assumption|apply IH; assumption].
  Qed.

  Lemma heads_append st : forall i0 i cid evs ns k ev, nth_error (heads_of i0 st ns) k = Some (Some ev) ->
    nth_error (heads_of i0 (append_at st i cid evs) ns) k = Some (Some ev).
  Proof.
    induction st as [|p st IH]; intros i0 i cid evs [|n ns] k ev H; cbn [heads_of] in H; try (destruct k; discriminate).
    destruct i; cbn [append_at heads_of p_jrnl].
    - destruct k; cbn [nth_error] in *; [|assumption].
      destruct (nth_error (recs (p_jrnl p)) n) as [e|] eqn:E; [|discriminate].
      destruct (jappend_recs (p_jrnl p) cid evs) as [more ->]. rewrite nth_error_app1; [rewrite E; assumption|].
      apply nth_error_Some. congruence.
    - destruct k; cbn [nth_error] in *; [assumption|]. apply IH. assumption.
  Qed.

  Lemma append_at_len st : forall i cid evs, length (append_at st i cid evs) = length st.
  Proof. induction st as [|p st IH]; intros [|i] cid evs; cbn; try reflexivity. f_equal. apply IH. Qed.

  Lemma cur_ok_append st i cid evs c ns : cur_ok st c ns -> cur_ok (append_at st i cid evs) c ns.
  Proof.
    intros H. constructor.
    - apply all3_append. apply (co_leis _ _ _ H).
    - apply (co_bad _ _ _ H).
    - intros ev Hev. destruct (co_sel _ _ _ H ev Hev) as [A B]. split; [assumption|]. apply heads_append. assumption.
    - intros ev Hev. destruct (co_fit _ _ _ H ev Hev) as [A [B [C E]]]. repeat split; try assumption. apply heads_append. assumption.
  Qed.

  Lemma part_events_append st : forall i cid evs p, exists more, part_events (append_at st i cid evs) p = part_events st p ++ more.
  Proof.
    unfold part_events. induction st as [|q st IH]; intros i cid evs p.
    - exists []. destruct i, p; reflexivity.
    - destruct i; cbn [append_at].
      + destruct p; cbn [nth_error]; [cbn; apply jappend_recs|exists []; rewrite app_nil_r; reflexivity].
      + destruct p; cbn [nth_error]; [exists []; rewrite app_nil_r; reflexivity|apply IH].
  Qed.

  Definition bounded (st : store) (ns : list nat) : Prop := forall p, nth p ns 0 <= length (part_events st p).

  Lemma acc_append D st ns i cid evs : acc D st ns -> bounded st ns -> acc D (append_at st i cid evs) ns.
  Proof.
    intros Ha Hb p. rewrite Ha. destruct (part_events_append st i cid evs p) as [more ->].
    rewrite firstn_app. replace (nth p ns 0 - length (part_events st p)) with 0 by (specialize (Hb p); lia).
    cbn. rewrite app_nil_r. reflexivity.
  Qed.

  Lemma bounded_append st ns i cid evs : bounded st ns -> bounded (append_at st i cid evs) ns.
  Proof. intros Hb p. destruct (part_events_append st i cid evs p) as [more ->]. rewrite app_length. specialize (Hb p). lia. Qed.

  Lemma posl_ok_bounded st pl ns : Forall (fun p => sorted (p_jrnl p)) st -> posl_ok st pl ns -> bounded st ns.
  Proof.
    intros Hso H. induction H as [|p st pos pl n ns Hsp Hfl _ IH]; intros q.
    - destruct q; cbn; lia.
    - inversion Hso as [|? ? Hs1 Hso']; subst. destruct q; cbn.
      + apply flat_le. assumption.
      + apply (IH Hso' q).
  Qed.

  Lemma zeros_bounded st : bounded st (map (fun _ => 0) st).
  Proof.
    intros p. assert (nth p (map (fun _ : part => 0) st) 0 = 0) as ->; [|lia].
    revert p. induction st as [|q st IH]; intros [|p]; cbn; auto.
  Qed.

  Lemma start_ok_bounded st pos ns : wf_store st -> start_ok st pos ns -> bounded st ns.
  Proof. intros [_ Hso] [[_ ->]|[pl [_ H]]]; [apply zeros_bounded|eapply posl_ok_bounded; eassumption]. Qed.

  Lemma posl_ok_append st i cid evs pl ns : Forall (fun p => sorted (p_jrnl p)) st -> posl_ok st pl ns ->
    posl_ok (append_at st i cid evs) pl ns.
  Proof.
    intros Hso H. revert i. induction H as [|p st pos pl n ns Hsp Hfl Hrest IH]; intros i; [destruct i; constructor|].
    inversion Hso as [|? ? Hs1 Hso']; subst. destruct i; cbn [append_at].
    - destruct (spos_append (p_jrnl p) cid evs pos Hs1 Hsp) as [A B].
      apply (PKcons (mkPart (p_src p) (p_tags p) (jappend (p_jrnl p) cid evs))); [exact A|exact B|assumption].
    - constructor; [assumption|reflexivity|apply IH; assumption].
  Qed.

  Lemma wf_store_append st i cid evs : wf_store st -> wf_store (append_at st i cid evs).
  Proof.
    intros [Hnd Hso]. split.
    - assert (map p_src (append_at st i cid evs) = map p_src st) as ->; [|assumption].
      clear. revert i. induction st as [|p st IH]; intros [|i]; cbn; try reflexivity. f_equal. apply IH.
    - clear Hnd. revert i. induction Hso as [|p st Hs Hrest IH]; intros [|i]; cbn; constructor; try assumption.
      + cbn. apply jappend_sorted. assumption.
      + apply IH.
  Qed.

  Lemma start_ok_append st i cid evs pos ns : wf_store st -> start_ok st pos ns -> start_ok (append_at st i cid evs) pos ns.
  Proof.
    intros [_ Hso] [[-> ->]|[pl [-> H]]].
    - left. split; [reflexivity|]. clear. revert i. induction st as [|p st IH]; intros [|i]; cbn; try reflexivity. f_equal. apply IH.
    - right. exists pl. split; [reflexivity|]. apply posl_ok_append; assumption.
  Qed.

  (* ---------------------------------------------------------------- provider and Query *)
  Definition cache_ok (st : store) (pv : provider) (id : N) (pos : pos_t) (ns : list nat) : Prop :=
    forall c, cache_get id (pv_cache pv) = Some c -> cur_ok st c ns /\ cu_pos c = pos /\ cu_id c = id.

  Lemma posl_eqb_refl l : posl_eqb l l = true.
  Proof.
    unfold posl_eqb. induction l as [|[k [a b]] l IH]; cbn [list_eqb]; [reflexivity|].
    rewrite IH. unfold pair_eqb, pos_eqb. cbn [fst snd]. rewrite bytes_eqb_refl, !N.eqb_refl. reflexivity.
  Qed.
  Lemma pos_t_eqb_refl p : pos_t_eqb p p = true.
  Proof. destruct p; cbn; try reflexivity. apply posl_eqb_refl. Qed.

  Lemma cache_get_put id c l : cache_get id (cache_put id c l) = Some c.
  Proof. unfold cache_put. cbn. rewrite N.eqb_refl. reflexivity. Qed.

  Lemma all3_not_bad st ls ns : all3 st ls ns -> forallb (fun l => negb (j_bad (l_it l))) ls = true.
  Proof.
    induction 1 as [|p st' l ls n ns' _ Hl _ IH]; cbn; [reflexivity|].
    destruct Hl as [[Hb _] _]. rewrite Hb. cbn. assumption.
  Qed.
  Lemma cursor_ok_true st c ns : cur_ok st c ns -> cursor_ok c = true.
  Proof.
    intros H. unfold cursor_ok. rewrite (co_bad _ _ _ H). cbn. eapply all3_not_bad. apply (co_leis _ _ _ H).
  Qed.

  Lemma query_spec st pv D ns id pos lim wait pv' rs : wf_store st -> acc D st ns -> start_ok st pos ns ->
    ((0 <? id)%N = true -> cache_ok st pv id pos ns) ->
    query clear filtered flt choose strict st pv (mkReq id pos lim wait) = (pv', rs) ->
    exists ns', acc (D ++ rs_events rs) st ns' /\ start_ok st (rs_pos rs) ns' /\ rs_ok rs = true /\
                ((0 <? rs_id rs)%N = true -> cache_ok st pv' (rs_id rs) (rs_pos rs) ns') /\
                (length (rs_events rs) < N.to_nat (N.min lim query_max_limit) -> choose_valid choose -> at_end st ns').
  Proof.
    intros Hwf Ha Hst Hc Hq. unfold query in Hq. cbn [rq_id rq_pos rq_limit rq_wait] in Hq.
    set (limit := N.min lim query_max_limit) in *. set (cache := (wait || negb (limit =? lim)%N)%bool) in *.
    destruct (get_or_create strict st pv id pos cache) as [pv1 c] eqn:Eg.
    assert (cur_ok st c ns) as Hcur.
    { unfold get_or_create in Eg. destruct (0 <? id)%N eqn:Eid.
      - destruct (cache_get id (pv_cache pv)) as [c0|] eqn:Ec.
        + destruct (Hc eq_refl c0 Ec) as [A [B _]]. unfold apply_state in Eg. rewrite B, pos_t_eqb_refl in Eg.
          rewrite Bool.andb_false_r in Eg. injection Eg as <- <-. assumption.
        + cbn in Eg. injection Eg as <- <-. apply new_cursor_ok; assumption.
      - cbn in Eg. injection Eg as <- <-. apply new_cursor_ok; assumption. }
    destruct (page_loop clear filtered flt choose (N.to_nat limit) st c) as [c1 evs] eqn:Ep.
    destruct (page_loop_spec _ _ _ _ _ _ _ Hcur Ha Ep) as [ns1 [H1 [Ha1 [[Hid1 _] [_ Hshort]]]]].
    unfold release in Hq.
    destruct (commit_spec st (D ++ evs) c1 ns1 H1 Ha1) as [ns2 [pl [H2 [Ha2 [Hid2 [Hpos2 [Hpl Hend]]]]]]].
    set (c2 := commit clear filtered flt choose st c1) in *.
    assert (length evs < N.to_nat limit -> choose_valid choose -> at_end st ns2) as Hfin.
    { intros Hlt Hv. pose proof (Hshort Hlt Hv) as He. rewrite (Hend He). assumption. }
    exists ns2. destruct (cache_get (cu_id c2) (pv_cache pv1)) as [cc|] eqn:Ecc; injection Hq as <- <-; cbn [rs_events rs_pos rs_ok rs_id].
    - split; [assumption|]. split; [right; exists pl; split; assumption|]. split; [eapply cursor_ok_true; eassumption|]. split; [|assumption].
      intros _ c' Hc'. cbn [pv_cache] in Hc'. rewrite cache_get_put in Hc'. injection Hc' as <-. split; [assumption|split; reflexivity].
    - split; [assumption|]. split; [right; exists pl; split; assumption|]. split; [eapply cursor_ok_true; eassumption|]. split; [|assumption].
      cbn. discriminate.
  Qed.

  (* ---------------------------------------------------------------- the chained read *)
  Lemma appends_keep st l D ns pos : wf_store st -> acc D st ns -> start_ok st pos ns ->
    wf_store (apply_appends st l) /\ acc D (apply_appends st l) ns /\ start_ok (apply_appends st l) pos ns.
  Proof.
    unfold apply_appends. revert st. induction l as [|a l IH]; intros st Hwf Ha Hs; cbn [fold_left]; [auto|].
    apply IH.
    - apply wf_store_append. assumption.
    - apply acc_append; [assumption|eapply start_ok_bounded; eassumption].
    - apply start_ok_append; assumption.
  Qed.

  Lemma appends_keep_cur st l c ns : cur_ok st c ns -> cur_ok (apply_appends st l) c ns.
  Proof.
    unfold apply_appends. revert st. induction l as [|a l IH]; intros st H; cbn [fold_left]; [assumption|].
    apply IH. apply cur_ok_append. assumption.
  Qed.

  Lemma last_nonempty {A} (l : list A) : forall b d d', last (b :: l) d = last (b :: l) d'.
  Proof. induction l as [|c l IH]; intros b d d'; [reflexivity|]. change (last (c :: l) d = last (c :: l) d'). apply IH. Qed.
  Lemma last_cons {A} (a : A) l d : last (a :: l) d = last l a.
  Proof. destruct l as [|b l]; [reflexivity|]. change (last (b :: l) d = last (b :: l) a). apply last_nonempty. Qed.

  Lemma run_spec : forall steps st pv cur prev D ns, wf_store st -> acc D st ns -> start_ok st (snd cur) ns ->
    ((0 <? fst cur)%N = true -> cache_ok st pv (fst cur) (snd cur) ns) -> no_retry steps ->
    let rs := run clear filtered flt choose strict st pv cur prev steps in
    Forall (fun r => rs_ok r = true) rs /\
    exists nsf, acc (D ++ concat (map rs_events rs)) (final_store st steps) nsf /\
                start_ok (final_store st steps) (last (map rs_pos rs) (snd cur)) nsf /\
                (last_page_short steps rs -> choose_valid choose -> at_end (final_store st steps) nsf).
  Proof.
    induction steps as [|s tl IH]; intros st pv cur prev D ns Hwf Ha Hs Hc Hnr; cbn zeta.
    - cbn. split; [constructor|]. exists ns. rewrite app_nil_r. split; [assumption|]. split; [assumption|]. intros [].
    - inversion Hnr as [|? ? Hk Hnr']; subst. cbn [run final_store].
      destruct (appends_keep st (s_apps s) D ns (snd cur) Hwf Ha Hs) as [Hwf' [Ha' Hs']].
      set (st' := apply_appends st (s_apps s)) in *.
      set (pv1 := match s_kind s with REvict => evict_all pv | _ => pv end).
      set (rq := match s_kind s with RSame | REvict => cur | RZero | RPosOnly => (0%N, snd cur) | RRetry => prev end).
      assert (snd rq = snd cur) as Hrqp by (unfold rq; destruct (s_kind s); try reflexivity; congruence).
      assert ((0 <? fst rq)%N = true -> cache_ok st' pv1 (fst rq) (snd rq) ns) as Hc'.
      { unfold rq, pv1. destruct (s_kind s); cbn [fst snd]; try discriminate; try congruence;
          try (intros _ c Hcc; cbn in Hcc; discriminate).
        intros Hid c Hcc. destruct (Hc Hid c Hcc) as [A [B C]]. split; [apply appends_keep_cur; assumption|split; assumption]. }
      destruct (query clear filtered flt choose strict st' pv1 (mkReq (fst rq) (snd rq) (s_limit s) (s_wait s))) as [pv2 r] eqn:Eq.
      rewrite <- Hrqp in Hs'.
      destruct (query_spec _ _ _ _ _ _ _ _ _ _ Hwf' Ha' Hs' Hc' Eq) as [ns' [Ha2 [Hs2 [Hok [Hc2 Hsh]]]]].
      specialize (IH st' pv2 (rs_id r, rs_pos r) rq (D ++ rs_events r) ns' Hwf' Ha2 Hs2 Hc2 Hnr'). cbn zeta in IH.
      destruct IH as [Hall [nsf [Haf [Hsf Hef]]]].
      split; [constructor; assumption|].
      destruct tl as [|s2 tl2].
      + (* the last step: the model's run of [] is [] *)
        cbn [run final_store map concat last] in *. exists ns'. rewrite app_nil_r.
        split; [assumption|]. split; [assumption|]. cbn [last_page_short]. assumption.
      + exists nsf. cbn [map concat]. rewrite last_cons. rewrite app_assoc. split; [assumption|]. split; [assumption|].
        cbn [last_page_short]. assumption.
  Qed.
End Cur.

(* ================================================================== the theorems of props/C03.v *)
Lemma wf_final st steps : wf_store st -> wf_store (final_store st steps).
Proof.
  revert st. induction steps as [|s tl IH]; intros st H; cbn [final_store]; [assumption|]. apply IH.
  clear IH. unfold apply_appends. revert st H. induction (s_apps s) as [|a l IHl]; intros st H; cbn [fold_left]; [assumption|].
  apply IHl. apply wf_store_append. assumption.
Qed.

Lemma pos_of_ok st pl ns p : wf_store st -> posl_ok st pl ns -> nth p ns 0 = pos_of st p (PList pl).
Proof.
  intros Hwf H. pose proof (posl_ok_assoc st pl ns Hwf H) as F. unfold pos_of.
  clear H Hwf. revert p. induction F as [|pt n st ns [_ [pos [Ha [_ Hf]]]] _ IH]; intros p.
  - destruct p; reflexivity.
  - destruct p; cbn [nth nth_error]; [rewrite Ha; symmetry; assumption|apply IH].
Qed.

Lemma zeros_nth (st : store) p : nth p (map (fun _ : part => 0) st) 0 = 0.
Proof. revert p. induction st as [|q st IH]; intros [|p]; cbn; auto. Qed.

Theorem paged_read (clear filtered : bool) (flt : oev -> bool) (choose : nat -> list (option oev) -> nat) (strict : bool) st steps :
  wf_store st -> no_retry steps ->
  let rs := run_from clear filtered flt choose strict st PHead steps in
  let stf := final_store st steps in
  Forall (fun r => rs_ok r = true) rs /\
  forall p, events_of p (concat (map rs_events rs)) =
            filter (eff_flt filtered flt) (map (obs p) (firstn (pos_of stf p (last (map rs_pos rs) PHead)) (part_events stf p))).
Proof.
  intros Hwf Hnr. cbn zeta. unfold run_from.
  assert (acc filtered flt [] st (map (fun _ => 0) st)) as Ha0.
  { intros p. rewrite zeros_nth. reflexivity. }
  assert (start_ok st PHead (map (fun _ => 0) st)) as Hs0 by (left; split; reflexivity).
  assert ((0 <? fst (0%N, PHead))%N = true -> cache_ok clear filtered flt st prov0 (fst (0%N, PHead)) (snd (0%N, PHead)) (map (fun _ => 0) st)) as Hc0
    by (cbn; discriminate).
  destruct (run_spec clear filtered flt choose strict steps st prov0 (0%N, PHead) (0%N, PHead) [] _ Hwf Ha0 Hs0 Hc0 Hnr) as [Hall [nsf [Haf [Hsf _]]]].
  cbn [snd app] in *. split; [assumption|]. intros p. rewrite (Haf p). unfold eflt. f_equal. f_equal. f_equal.
  destruct Hsf as [[-> ->]|[pl [-> Hpl]]].
  - rewrite zeros_nth. unfold pos_of. destruct (nth_error (final_store st steps) p); reflexivity.
  - apply pos_of_ok; [apply wf_final; assumption|assumption].
Qed.

Lemma final_no_appends st steps : no_appends steps -> final_store st steps = st.
Proof. revert st. induction 1 as [|s tl Hs _ IH]; intros; cbn [final_store]; [reflexivity|]. rewrite Hs. cbn. apply IH. Qed.

(* appends only ever add events behind the stored ones *)
Lemma appends_extend st l p : exists more, part_events (apply_appends st l) p = part_events st p ++ more.
Proof.
  unfold apply_appends. revert st. induction l as [|a l IH]; intros st; cbn [fold_left].
  - exists []. rewrite app_nil_r. reflexivity.
  - destruct (IH (append_at st (a_part a) (a_cid a) (a_evs a))) as [m1 H1].
    destruct (part_events_append st (a_part a) (a_cid a) (a_evs a) p) as [m2 H2].
    exists (m2 ++ m1). rewrite H1, H2, app_assoc. reflexivity.
Qed.

(* ---- completeness: a read whose last page came back short has consumed every partition to its end *)
Lemma heads_at st : forall i ns k pt n, nth_error st k = Some pt -> nth_error ns k = Some n ->
  nth_error (heads_of i st ns) k = Some (option_map (obs (i + k)) (nth_error (recs (p_jrnl pt)) n)).
Proof.
  induction st as [|p st IH]; intros i [|m ns] k pt n Hs Hn; destruct k; cbn in *; try discriminate.
  - injection Hs as <-. injection Hn as <-. rewrite Nat.add_0_r. reflexivity.
  - rewrite (IH (S i) ns k pt n Hs Hn). replace (S i + k) with (i + S k) by lia. reflexivity.
Qed.

Lemma posl_ok_len st pl ns : posl_ok st pl ns -> length ns = length st.
Proof. induction 1; cbn; congruence. Qed.

Lemma start_ok_len st pos ns : start_ok st pos ns -> length ns = length st.
Proof. intros [[_ ->]|[pl [_ H]]]; [apply map_length|eapply posl_ok_len; eassumption]. Qed.

Lemma at_end_all st ns p : at_end st ns -> length ns = length st ->
  firstn (nth p ns 0) (part_events st p) = part_events st p.
Proof.
  intros He Hl. unfold part_events. destruct (nth_error st p) as [pt|] eqn:Es; [|destruct (nth p ns 0); reflexivity].
  assert (p < length ns) as Hp by (rewrite Hl; apply nth_error_Some; congruence).
  destruct (nth_error ns p) as [n|] eqn:En; [|apply nth_error_None in En; lia].
  rewrite (nth_error_nth _ _ 0 En). apply firstn_all2.
  pose proof (heads_at st 0 ns p pt n Es En) as Hh.
  destruct (nth_error (recs (p_jrnl pt)) n) as [e|] eqn:Er; [exfalso; exact (He _ _ Hh)|].
  apply nth_error_None. assumption.
Qed.

Theorem paged_read_complete (clear filtered : bool) (flt : oev -> bool) (choose : nat -> list (option oev) -> nat) (strict : bool) st steps :
  wf_store st -> no_retry steps -> choose_valid choose ->
  last_page_short steps (run_from clear filtered flt choose strict st PHead steps) ->
  forall p, events_of p (concat (map rs_events (run_from clear filtered flt choose strict st PHead steps))) =
            filter (eff_flt filtered flt) (map (obs p) (part_events (final_store st steps) p)).
Proof.
  intros Hwf Hnr Hv Hsh p. unfold run_from in *.
  assert (acc filtered flt [] st (map (fun _ => 0) st)) as Ha0.
  { intros q. rewrite zeros_nth. reflexivity. }
  assert (start_ok st PHead (map (fun _ => 0) st)) as Hs0 by (left; split; reflexivity).
  assert ((0 <? fst (0%N, PHead))%N = true -> cache_ok clear filtered flt st prov0 (fst (0%N, PHead)) (snd (0%N, PHead)) (map (fun _ => 0) st)) as Hc0
    by (cbn; discriminate).
  destruct (run_spec clear filtered flt choose strict steps st prov0 (0%N, PHead) (0%N, PHead) [] _ Hwf Ha0 Hs0 Hc0 Hnr) as [_ [nsf [Haf [Hsf Hend]]]].
  cbn [snd app] in *. rewrite (Haf p). unfold eflt.
  rewrite (at_end_all _ _ p (Hend Hsh Hv) (start_ok_len _ _ _ Hsf)). reflexivity.
Qed.

Theorem delivered_are_stored (clear filtered : bool) (flt : oev -> bool) (choose : nat -> list (option oev) -> nat) (strict : bool) st steps :
  wf_store st -> no_retry steps ->
  forall ev, In ev (concat (map rs_events (run_from clear filtered flt choose strict st PHead steps))) ->
  In ev (map (obs (o_src ev)) (part_events (final_store st steps) (o_src ev))).
Proof.
  intros Hwf Hnr ev Hin. destruct (paged_read clear filtered flt choose strict st steps Hwf Hnr) as [_ H]. cbn zeta in H.
  assert (In ev (events_of (o_src ev) (concat (map rs_events (run_from clear filtered flt choose strict st PHead steps))))) as Hin2.
  { unfold events_of. apply filter_In. split; [assumption|apply Nat.eqb_refl]. }
  rewrite H in Hin2. apply filter_In in Hin2. destruct Hin2 as [Hin2 _].
  apply in_map_iff in Hin2. destruct Hin2 as [e [He Hin2]]. apply in_map_iff. exists e. split; [assumption|].
  set (n := pos_of _ _ _) in Hin2. rewrite <- (firstn_skipn n). apply in_or_app. left. assumption.
Qed.

Lemma final_len st steps : length (final_store st steps) = length st.
Proof.
  revert st. induction steps as [|s tl IH]; intros st; cbn [final_store]; [reflexivity|]. rewrite IH.
  unfold apply_appends. revert st. induction (s_apps s) as [|a l IHl]; intros st; cbn [fold_left]; [reflexivity|].
  rewrite IHl. apply append_at_len.
Qed.

Lemma run_srcs_lt (clear filtered : bool) (flt : oev -> bool) (choose : nat -> list (option oev) -> nat) (strict : bool) st steps :
  wf_store st -> no_retry steps -> final_store st steps = st ->
  forall ev, In ev (concat (map rs_events (run_from clear filtered flt choose strict st PHead steps))) -> o_src ev < length st.
Proof.
  intros Hwf Hnr Hf ev Hin. pose proof (delivered_are_stored clear filtered flt choose strict st steps Hwf Hnr ev Hin) as H.
  rewrite Hf in H. unfold part_events in H. destruct (nth_error st (o_src ev)) eqn:E; [|destruct H].
  apply nth_error_Some. congruence.
Qed.

(* two lists with the same restriction to every source are permutations of one another *)
Lemma ins_bucket (x : oev) (f : nat -> list oev) k : forall L, NoDup L -> In k L ->
  Permutation (x :: concat (map f L)) (concat (map (fun p => if Nat.eqb k p then x :: f p else f p) L)).
Proof.
  induction L as [|a L IH]; intros Hnd Hin; [destruct Hin|].
  inversion Hnd as [|? ? Hna Hnd']; subst. cbn [map concat]. destruct (Nat.eqb_spec k a) as [->|Hne].
  - assert (map (fun p => if Nat.eqb a p then x :: f p else f p) L = map f L) as ->.
    { apply map_ext_in. intros p Hp. destruct (Nat.eqb_spec a p); [subst; contradiction|reflexivity]. }
    reflexivity.
  - destruct Hin as [->|Hin]; [congruence|]. specialize (IH Hnd' Hin).
    etransitivity; [apply Permutation_middle|]. apply Permutation_app_head. assumption.
Qed.

Lemma bucket_perm n : forall D, (forall ev, In ev D -> o_src ev < n) ->
  Permutation D (concat (map (fun p => events_of p D) (seq 0 n))).
Proof.
  induction D as [|x D IH]; intros H.
  - clear H. induction (seq 0 n) as [|a L IHL]; cbn; [constructor|assumption].
  - assert (Permutation D (concat (map (fun p => events_of p D) (seq 0 n)))) as IH' by (apply IH; intros ev Hev; apply H; right; assumption).
    etransitivity; [apply perm_skip; exact IH'|].
    etransitivity; [apply (ins_bucket x (fun p => events_of p D) (o_src x) (seq 0 n) (seq_NoDup n 0))|].
    + apply in_seq. specialize (H x (or_introl eq_refl)). lia.
    + apply Permutation_refl'. reflexivity.
Qed.

Lemma same_parts_perm n D1 D2 : (forall ev, In ev D1 -> o_src ev < n) -> (forall ev, In ev D2 -> o_src ev < n) ->
  (forall p, events_of p D1 = events_of p D2) -> Permutation D1 D2.
Proof.
  intros H1 H2 He. etransitivity; [apply (bucket_perm n D1 H1)|]. etransitivity; [|symmetry; apply (bucket_perm n D2 H2)].
  apply Permutation_refl'. f_equal. apply map_ext. assumption.
Qed.

(* the merge used by the correspondence check is valid *)
Lemma min_head_valid : forall hs pre best,
  (forall k t, best = Some (k, t) -> exists ev, nth_error (pre ++ hs) k = Some (Some ev)) ->
  (best <> None \/ exists j ev, nth_error hs j = Some (Some ev)) ->
  exists ev, nth_error (pre ++ hs) (min_head (length pre) hs best) = Some (Some ev).
Proof.
  induction hs as [|h hs IH]; intros pre best Hb Hex; cbn [min_head].
  - destruct best as [[k t]|]; [apply (Hb k t eq_refl)|]. destruct Hex as [Hn|[j [ev Hj]]]; [congruence|destruct j; discriminate].
  - replace (pre ++ h :: hs) with ((pre ++ [h]) ++ hs) by (rewrite <- app_assoc; reflexivity).
    replace (S (length pre)) with (length (pre ++ [h])) by (rewrite app_length; cbn; lia).
    apply IH.
    + intros k t Hk. rewrite <- app_assoc. cbn [app].
      destruct h as [ev|]; [|apply (Hb k t); assumption].
      destruct best as [[k0 t0]|].
      * destruct (o_ts ev <? t0)%Z; [|apply (Hb k t); assumption]. injection Hk as <- _.
        exists ev. rewrite nth_error_app2 by lia. rewrite Nat.sub_diag. reflexivity.
      * injection Hk as <- _. exists ev. rewrite nth_error_app2 by lia. rewrite Nat.sub_diag. reflexivity.
    + destruct h as [ev|].
      * left. destruct best as [[k0 t0]|]; [destruct (o_ts ev <? t0)%Z|]; discriminate.
      * destruct Hex as [Hn|[j [ev Hj]]]; [left; assumption|]. destruct j; [discriminate|]. right. exists j, ev. assumption.
Qed.

Lemma choose_min_valid : choose_valid choose_min.
Proof.
  intros t hs k ev Hk. unfold choose_min.
  destruct (min_head_valid hs [] None) as [ev' H]; [discriminate|right; eauto|]. exists ev'. exact H.
Qed.
