(* Lemmas about model/Paging.v. Layer 1: the journal iterator keeps `flat (position)` = number of records
   consumed; layer 2: LogEventIterator content; layer 3: the cursor (merge, filter, page loop, commit);
   layer 4: provider, resume kinds, the whole paged run. *)
From LR Require Import lib.Base model.Paging.
From Coq Require Import Sorting.Sorted Permutation.

Local Open Scope nat_scope.

(* ================================================================== layer 1: journals and jit *)
Definition id_lt (a b : chunk) : Prop := (c_id a < c_id b)%N.
Definition sorted (j : journal) : Prop := StronglySorted id_lt j.

Lemma sorted_tail c j : sorted (c :: j) -> sorted j.
Proof. intros H. inversion H. assumption. Qed.
Lemma sorted_head c j : sorted (c :: j) -> Forall (id_lt c) j.
Proof. intros H. inversion H. assumption. Qed.

Lemma cnt_len c : N.to_nat (cnt c) = length (c_recs c).
Proof. unfold cnt. apply Nnat.Nat2N.id. Qed.

Lemma find_chunk_id j cid c : find_chunk j cid = Some c -> c_id c = cid.
Proof.
  induction j as [|x j IH]; cbn; [discriminate|].
  destruct (N.eqb_spec (c_id x) cid); intros H; [injection H as <-; assumption|auto].
Qed.
Lemma find_chunk_in j cid c : find_chunk j cid = Some c -> In c j.
Proof.
  induction j as [|x j IH]; cbn; [discriminate|].
  destruct (N.eqb_spec (c_id x) cid); intros H; [injection H as <-; left; reflexivity|right; auto].
Qed.

Lemma find_none_gt c j cid : Forall (id_lt c) j -> (cid <= c_id c)%N -> find_chunk j cid = None.
Proof.
  induction 1 as [|x j Hx _ IH]; intros Hc; cbn; [reflexivity|].
  unfold id_lt in Hx. destruct (N.eqb_spec (c_id x) cid); [lia|auto].
Qed.
Lemma before_zero_gt c j cid : Forall (id_lt c) j -> (cid <= c_id c + 1)%N -> before j cid = 0.
Proof.
  intros H Hc. destruct j as [|x j]; cbn; [reflexivity|].
  inversion H as [|? ? Hx _]; subst. unfold id_lt in Hx.
  destruct (N.ltb_spec (c_id x) cid); [lia|reflexivity].
Qed.

(* the record at flat index `before + k` is record k of the chunk *)
Lemma recs_nth j : sorted j -> forall cid c k, find_chunk j cid = Some c -> k < length (c_recs c) ->
  nth_error (recs j) (before j cid + k) = nth_error (c_recs c) k.
Proof.
  unfold recs. induction j as [|x j IH]; intros Hs cid c k Hf Hk; cbn in *; [discriminate|].
  destruct (N.eqb_spec (c_id x) cid) as [E|E].
  - injection Hf as <-. destruct (N.ltb_spec (c_id x) cid); [lia|]. cbn.
    rewrite nth_error_app1; [reflexivity|assumption].
  - pose proof (find_chunk_in _ _ _ Hf) as Hin. pose proof (find_chunk_id _ _ _ Hf) as Hid.
    pose proof (sorted_head _ _ Hs) as Hh. rewrite Forall_forall in Hh. specialize (Hh _ Hin). unfold id_lt in Hh.
    destruct (N.ltb_spec (c_id x) cid); [|lia].
    rewrite <- Nat.add_assoc. rewrite nth_error_app2 by lia.
    replace (length (c_recs x) + (before j cid + k) - length (c_recs x)) with (before j cid + k) by lia.
    apply IH; [eapply sorted_tail; eassumption|assumption|assumption].
Qed.

Lemma before_find_le j : sorted j -> forall cid c, find_chunk j cid = Some c ->
  before j cid + length (c_recs c) <= length (recs j).
Proof.
  unfold recs. induction j as [|x j IH]; intros Hs cid c Hf; cbn in *; [discriminate|].
  rewrite app_length.
  destruct (N.eqb_spec (c_id x) cid) as [E|E].
  - injection Hf as <-. destruct (N.ltb_spec (c_id x) cid); lia.
  - pose proof (IH (sorted_tail _ _ Hs) _ _ Hf). destruct (N.ltb_spec (c_id x) cid); lia.
Qed.
Lemma before_le j cid : before j cid <= length (recs j).
Proof.
  unfold recs. induction j as [|x j IH]; cbn; [lia|]. rewrite app_length. destruct (N.ltb_spec (c_id x) cid); lia.
Qed.

Lemma flat_le j pos : sorted j -> flat j pos <= length (recs j).
Proof.
  intros Hs. unfold flat. destruct (find_chunk j (fst pos)) eqn:E.
  - pose proof (before_find_le j Hs _ _ E). lia.
  - pose proof (before_le j (fst pos)). lia.
Qed.

(* all records before chunk cid+1 = those before cid plus chunk cid *)
Lemma before_succ j : sorted j -> forall cid c, find_chunk j cid = Some c ->
  before j (cid + 1) = before j cid + length (c_recs c).
Proof.
  induction j as [|x j IH]; intros Hs cid c Hf; cbn in *; [discriminate|].
  destruct (N.eqb_spec (c_id x) cid) as [E|E].
  - injection Hf as <-. destruct (N.ltb_spec (c_id x) cid); [lia|].
    destruct (N.ltb_spec (c_id x) (cid + 1)); [|lia].
    rewrite (before_zero_gt x j (cid + 1)); [lia|eapply sorted_head; eassumption|lia].
  - pose proof (find_chunk_in _ _ _ Hf) as Hin. pose proof (find_chunk_id _ _ _ Hf) as Hid.
    pose proof (sorted_head _ _ Hs) as Hh. rewrite Forall_forall in Hh. specialize (Hh _ Hin). unfold id_lt in Hh.
    destruct (N.ltb_spec (c_id x) cid); [|lia]. destruct (N.ltb_spec (c_id x) (cid + 1)); [|lia].
    rewrite (IH (sorted_tail _ _ Hs) _ _ Hf). lia.
Qed.

(* chunk_ge: what it returns *)
Inductive ge_res (j : journal) (cid : N) : option chunk -> Prop :=
| GeNone : j = [] -> ge_res j cid None
| GeFound c : find_chunk j (c_id c) = Some c -> (cid <= c_id c)%N ->
    before j (c_id c) = before j cid -> (c_id c <> cid -> find_chunk j cid = None) -> ge_res j cid (Some c)
| GeLast c : find_chunk j (c_id c) = Some c -> (c_id c < cid)%N ->
    before j cid = length (recs j) -> before j (c_id c) + length (c_recs c) = length (recs j) ->
    find_chunk j cid = None -> ge_res j cid (Some c).

Lemma find_self x j : find_chunk (x :: j) (c_id x) = Some x.
Proof. cbn. rewrite N.eqb_refl. reflexivity. Qed.

Lemma chunk_ge_spec j : sorted j -> forall cid, ge_res j cid (chunk_ge j cid).
Proof.
  induction j as [|x j IH]; intros Hs cid; cbn [chunk_ge].
  - constructor. reflexivity.
  - pose proof (sorted_head _ _ Hs) as Hh. pose proof (sorted_tail _ _ Hs) as Ht.
    destruct (N.leb_spec cid (c_id x)) as [L|L].
    + apply GeFound.
      * apply find_self.
      * assumption.
      * cbn. rewrite N.ltb_irrefl. destruct (N.ltb_spec (c_id x) cid); [lia|reflexivity].
      * intros Hne. cbn. destruct (N.eqb_spec (c_id x) cid); [congruence|]. apply (find_none_gt x); [assumption|lia].
    + specialize (IH Ht cid). inversion IH as [Hj|c Hf Hc Hb Hn|c Hf Hc Hb Hb2 Hn]; unfold recs in *.
      * subst j. apply GeLast.
        -- apply find_self.
        -- assumption.
        -- cbn. destruct (N.ltb_spec (c_id x) cid); [rewrite app_nil_r; lia|lia].
        -- cbn. rewrite N.ltb_irrefl. rewrite app_nil_r. lia.
        -- cbn. destruct (N.eqb_spec (c_id x) cid); [lia|reflexivity].
      * pose proof (find_chunk_in _ _ _ Hf) as Hin. rewrite Forall_forall in Hh. pose proof (Hh _ Hin) as Hlt. unfold id_lt in Hlt.
        apply GeFound.
        -- cbn. destruct (N.eqb_spec (c_id x) (c_id c)); [lia|assumption].
        -- assumption.
        -- cbn. destruct (N.ltb_spec (c_id x) (c_id c)); [|lia]. destruct (N.ltb_spec (c_id x) cid); [|lia]. lia.
        -- intros Hne. cbn. destruct (N.eqb_spec (c_id x) cid); [lia|auto].
      * pose proof (find_chunk_in _ _ _ Hf) as Hin. rewrite Forall_forall in Hh. pose proof (Hh _ Hin) as Hlt. unfold id_lt in Hlt.
        apply GeLast.
        -- cbn. destruct (N.eqb_spec (c_id x) (c_id c)); [lia|assumption].
        -- assumption.
        -- cbn. destruct (N.ltb_spec (c_id x) cid); [|lia]. rewrite app_length. lia.
        -- cbn. destruct (N.ltb_spec (c_id x) (c_id c)); [|lia]. rewrite app_length. lia.
        -- cbn. destruct (N.eqb_spec (c_id x) cid); [lia|assumption].
Qed.

(* well-formed iterator: an open chunk iterator sits on an existing chunk at the iterator's index *)
Definition wfj (j : journal) (it : jit) : Prop :=
  j_bad it = false /\
  match j_ci it with
  | None => True
  | Some p => p = j_idx it /\ exists c, find_chunk j (j_cid it) = Some c /\ (p <= cnt c)%N
  end.

Definition fl (j : journal) (it : jit) : nat := flat j (jit_pos it).

Lemma ensure_spec j it it' ok : sorted j -> wfj j it -> ensure j it = (it', ok) ->
  wfj j it' /\ fl j it' = fl j it /\
  (ok = true -> j_ci it' <> None) /\ (ok = false -> j_ci it' = None /\ fl j it' = length (recs j)).
Proof.
  intros Hs [Hb Hw] He. unfold ensure in He. destruct (j_ci it) as [p|] eqn:Eci.
  - injection He as <- <-. repeat split; try assumption; try congruence. rewrite Eci. assumption.
  - pose proof (chunk_ge_spec j Hs (j_cid it)) as G. destruct (chunk_ge j (j_cid it)) as [c|] eqn:Ec.
    + inversion G as [|c' Hf Hc Hbe Hn|c' Hf Hc Hbe Hb2 Hn]; subst c'.
      * destruct (N.ltb_spec (c_id c) (j_cid it)); [lia|]. injection He as <- <-.
        split; [|split; [|split]].
        -- split; [assumption|]. cbn. split; [reflexivity|]. exists c. split; [assumption|lia].
        -- unfold fl, flat. cbn. rewrite Hf, Hbe.
           destruct (N.ltb_spec (j_cid it) (c_id c)) as [L|L].
           ++ rewrite Hn by lia. cbn. lia.
           ++ assert (c_id c = j_cid it) as E by lia. rewrite <- E, Hf.
              rewrite Nnat.N2Nat.inj_min, cnt_len. f_equal. lia.
        -- cbn. congruence.
        -- discriminate.
      * destruct (N.ltb_spec (c_id c) (j_cid it)); [|lia]. injection He as <- <-.
        split; [|split; [|split]].
        -- split; [assumption|]. cbn. exact I.
        -- unfold fl, flat. cbn. rewrite Hf, Hn, cnt_len. lia.
        -- discriminate.
        -- intros _. split; [reflexivity|]. unfold fl, flat. cbn. rewrite Hf, cnt_len. lia.
    + inversion G as [Hj| |]. subst j. injection He as <- <-.
      split; [|split; [|split]].
      * split; [assumption|]. rewrite Eci. exact I.
      * reflexivity.
      * discriminate.
      * intros _. split; [assumption|]. unfold fl, flat. cbn. reflexivity.
Qed.

(* chunks with a larger id than cid: the measure of the Get loop *)
Fixpoint count_gt (j : journal) (cid : N) : nat :=
  match j with
  | [] => 0
  | c :: tl => (if (cid <? c_id c)%N then 1 else 0) + count_gt tl cid
  end.
Lemma count_gt_le j cid : count_gt j cid <= length j.
Proof. induction j as [|x j IH]; cbn; [lia|]. destruct (cid <? c_id x)%N; lia. Qed.
Lemma count_gt_mono j a b : (a <= b)%N -> count_gt j b <= count_gt j a.
Proof.
  intros H. induction j as [|x j IH]; cbn; [lia|].
  destruct (N.ltb_spec b (c_id x)); destruct (N.ltb_spec a (c_id x)); lia.
Qed.
Lemma count_gt_lt j a b c : find_chunk j b = Some c -> (a < b)%N -> count_gt j b < count_gt j a.
Proof.
  induction j as [|x j IH]; cbn; [discriminate|]. intros Hf Hab.
  destruct (N.eqb_spec (c_id x) b) as [E|E].
  - destruct (N.ltb_spec b (c_id x)); [lia|]. destruct (N.ltb_spec a (c_id x)); [|lia].
    pose proof (count_gt_mono j a b). lia.
  - specialize (IH Hf Hab). destruct (N.ltb_spec b (c_id x)); destruct (N.ltb_spec a (c_id x)); lia.
Qed.

Lemma fl_open j it p c : sorted j -> j_ci it = Some p -> p = j_idx it -> find_chunk j (j_cid it) = Some c -> (p <= cnt c)%N ->
  fl j it = before j (j_cid it) + N.to_nat p.
Proof.
  intros Hs Hci Hp Hf Hle. unfold fl, flat. cbn. rewrite Hf. subst p.
  assert (N.to_nat (j_idx it) <= length (c_recs c)) by (rewrite <- cnt_len; lia). lia.
Qed.

Lemma get_loop_spec j : sorted j -> forall fuel it it' r, wfj j it -> j_ci it <> None -> count_gt j (j_cid it) < fuel ->
  get_loop fuel j it = (it', r) ->
  wfj j it' /\ fl j it' = fl j it /\ r = nth_error (recs j) (fl j it) /\
  (r = None -> j_ci it' = None) /\ (forall e, r = Some e -> j_ci it' <> None /\ ci_read j it' = Some e).
Proof.
  intros Hs. induction fuel as [|f IH]; intros it it' r Hw Hopen Hfuel Hg; [lia|].
  cbn [get_loop] in Hg. destruct Hw as [Hb Hw]. destruct (j_ci it) as [p|] eqn:Eci; [|congruence].
  destruct Hw as [Hp [c [Hf Hle]]].
  pose proof (fl_open j it p c Hs Eci Hp Hf Hle) as Hfl.
  destruct (ci_read j it) as [e|] eqn:Er.
  - injection Hg as <- <-. unfold ci_read in Er. rewrite Eci, Hf in Er.
    assert (N.to_nat p < length (c_recs c)) as Hlt by (apply nth_error_Some; congruence).
    split; [|split; [|split; [|split]]].
    + split; [assumption|]. rewrite Eci. split; [assumption|]. exists c. split; assumption.
    + reflexivity.
    + rewrite Hfl, (recs_nth j Hs _ c) by assumption. symmetry. assumption.
    + discriminate.
    + intros e' He'. injection He' as <-. split; [congruence|]. unfold ci_read. rewrite Eci, Hf. assumption.
  - unfold ci_read in Er. rewrite Eci, Hf in Er. apply nth_error_None in Er.
    assert (N.to_nat p = length (c_recs c)) as Hpe by (rewrite <- cnt_len in *; lia).
    assert (wfj j (advance it)) as Hwa by (split; [assumption|exact I]).
    assert (fl j (advance it) = fl j it) as Hfa.
    { unfold fl at 1. unfold flat. cbn. rewrite (before_succ j Hs _ c Hf).
      destruct (find_chunk j (j_cid it + 1)); rewrite Hfl; lia. }
    destruct (ensure j (advance it)) as [it2 ok] eqn:Ee.
    destruct (ensure_spec j _ _ _ Hs Hwa Ee) as [Hw2 [Hfl2 [Hok Hnok]]].
    destruct ok.
    + specialize (Hok eq_refl).
      assert (count_gt j (j_cid it2) < f) as Hm.
      { destruct Hw2 as [_ Hw2]. destruct (j_ci it2) as [p2|] eqn:E2; [|congruence].
        destruct Hw2 as [_ [c2 [Hf2 _]]].
        assert (j_cid it < j_cid it2)%N as Hlt.
        { unfold ensure in Ee. cbn in Ee. pose proof (chunk_ge_spec j Hs (j_cid it + 1)) as G.
          destruct (chunk_ge j (j_cid it + 1)) as [cc|]; [|discriminate Ee].
          destruct (N.ltb_spec (c_id cc) (j_cid it + 1)); [discriminate Ee|].
          injection Ee as <-. cbn. lia. }
        pose proof (count_gt_lt j _ _ _ Hf2 Hlt). lia. }
      destruct (IH it2 it' r Hw2 Hok Hm Hg) as [A [B [C [D E]]]].
      split; [assumption|]. split; [congruence|]. split; [congruence|]. split; assumption.
    + injection Hg as <- <-. destruct (Hnok eq_refl) as [Hn1 Hn2].
      split; [assumption|]. split; [congruence|]. split; [|split; [auto|discriminate]].
      symmetry. apply nth_error_None. rewrite <- Hfa, <- Hfl2, Hn2. lia.
Qed.

Lemma jit_get_spec j it it' r : sorted j -> wfj j it -> jit_get j it = (it', r) ->
  wfj j it' /\ fl j it' = fl j it /\ r = nth_error (recs j) (fl j it) /\
  (r = None -> j_ci it' = None) /\ (forall e, r = Some e -> j_ci it' <> None /\ ci_read j it' = Some e).
Proof.
  intros Hs Hw Hg. unfold jit_get in Hg. destruct (ensure j it) as [it1 ok] eqn:Ee.
  destruct (ensure_spec j _ _ _ Hs Hw Ee) as [Hw1 [Hfl1 [Hok Hnok]]]. destruct ok.
  - assert (count_gt j (j_cid it1) < S (length j)) as Hm by (pose proof (count_gt_le j (j_cid it1)); lia).
    destruct (get_loop_spec j Hs _ _ _ _ Hw1 (Hok eq_refl) Hm Hg) as [A [B [C [D E]]]].
    split; [assumption|]. split; [congruence|]. split; [congruence|]. split; assumption.
  - injection Hg as <- <-. destruct (Hnok eq_refl) as [Hn1 Hn2].
    split; [assumption|]. split; [assumption|]. split; [|split; [auto|discriminate]].
    symmetry. apply nth_error_None. rewrite <- Hfl1, Hn2. lia.
Qed.

Lemma jit_next_spec j it : sorted j -> wfj j it ->
  wfj j (jit_next j it) /\
  fl j (jit_next j it) = (if fl j it <? length (recs j) then S (fl j it) else fl j it).
Proof.
  intros Hs Hw. unfold jit_next. destruct (jit_get j it) as [it1 r] eqn:Eg.
  destruct (jit_get_spec j _ _ _ Hs Hw Eg) as [Hw1 [Hfl [Hr [Hnone Hsome]]]].
  destruct r as [e|].
  - destruct (Hsome e eq_refl) as [Hopen Hread].
    assert (fl j it < length (recs j)) as Hlt by (apply nth_error_Some; congruence).
    destruct (Nat.ltb_spec (fl j it) (length (recs j))); [|lia].
    destruct Hw1 as [Hb1 Hw1]. destruct (j_ci it1) as [p|] eqn:Eci; [|congruence].
    destruct Hw1 as [Hp [c [Hf Hle]]]. rewrite Hread.
    unfold ci_read in Hread. rewrite Eci, Hf in Hread.
    assert (N.to_nat p < length (c_recs c)) as Hpl by (apply nth_error_Some; congruence).
    pose proof (fl_open j it1 p c Hs Eci Hp Hf Hle) as Hfo.
    split.
    + split; [assumption|]. cbn. split; [reflexivity|]. exists c. split; [assumption|]. rewrite <- cnt_len in Hpl. lia.
    + rewrite <- Hfl, Hfo. unfold fl, flat. cbn. rewrite Hf.
      assert (N.to_nat (p + 1) <= length (c_recs c)) by lia. lia.
  - specialize (Hnone eq_refl). rewrite Hnone. symmetry in Hr. apply nth_error_None in Hr.
    destruct (Nat.ltb_spec (fl j it) (length (recs j))); [lia|]. split; assumption.
Qed.

(* valid position: the index does not exceed the chunk *)
Definition vpos (j : journal) (pos : N * N) : Prop :=
  forall c, find_chunk j (fst pos) = Some c -> (snd pos <= cnt c)%N.

Lemma jit_set_pos_spec j it pos : wfj j it -> vpos j pos ->
  wfj j (jit_set_pos j it pos) /\ jit_pos (jit_set_pos j it pos) = pos.
Proof.
  intros [Hb Hw] Hv. destruct pos as [cid idx]. unfold jit_set_pos.
  destruct (N.eqb_spec cid (j_cid it)) as [E1|E1]; cbn [andb].
  - destruct (N.eqb_spec idx (j_idx it)) as [E2|E2].
    + split; [split; assumption|]. unfold jit_pos. congruence.
    + split; [|reflexivity]. split; [assumption|]. cbn. destruct (j_ci it) as [p|]; [|exact I].
      destruct Hw as [_ [c [Hf _]]]. subst cid. rewrite Hf. specialize (Hv c Hf). cbn in Hv.
      split; [lia|]. exists c. split; [reflexivity|lia].
  - split; [|reflexivity]. split; [assumption|]. cbn. exact I.
Qed.

(* ================================================================== appends keep positions meaningful *)
Fixpoint last_chunk (j : journal) : option chunk :=
  match j with
  | [] => None
  | c :: tl => match last_chunk tl with Some x => Some x | None => Some c end
  end.

(* stable position: valid, and not beyond the last chunk (so that later chunks and a longer last chunk do not
   change its flat index) *)
Definition spos (j : journal) (pos : N * N) : Prop :=
  vpos j pos /\ match last_chunk j with Some l => (fst pos <= c_id l)%N | None => pos = (0, 0)%N end.

Lemma last_chunk_some c j : exists l, last_chunk (c :: j) = Some l.
Proof. cbn. destruct (last_chunk j); eauto. Qed.

Lemma last_in j : forall l, last_chunk j = Some l -> In l j.
Proof.
  induction j as [|y j IH]; intros l H; [discriminate|]. cbn [last_chunk] in H.
  destruct (last_chunk j) as [q|]; [right; apply IH; congruence|injection H as <-; left; reflexivity].
Qed.

Lemma last_ge j : sorted j -> forall l c, last_chunk j = Some l -> In c j -> (c_id c <= c_id l)%N.
Proof.
  induction j as [|x j IH]; intros Hs l c Hl Hin; [destruct Hin|].
  destruct j as [|y j].
  - cbn in Hl. injection Hl as <-. destruct Hin as [<-|[]]. lia.
  - assert (last_chunk (y :: j) = Some l) as Hl2.
    { destruct (last_chunk_some y j) as [q Hq]. cbn [last_chunk] in Hl, Hq |- *. rewrite Hq in Hl |- *. exact Hl. }
    destruct Hin as [<-|Hin].
    + pose proof (sorted_head _ _ Hs) as Hh. rewrite Forall_forall in Hh. specialize (Hh _ (last_in _ _ Hl2)). unfold id_lt in Hh. lia.
    + apply (IH (sorted_tail _ _ Hs) l c Hl2 Hin).
Qed.

Lemma jappend_ids c j cid evs : j <> [] -> Forall (id_lt c) j -> Forall (id_lt c) (jappend j cid evs).
Proof.
  induction j as [|x j IH]; intros Hne Hf; [congruence|].
  inversion Hf as [|? ? Hx Hj]; subst. cbn [jappend]. destruct j as [|y j].
  - destruct (N.eqb_spec (c_id x) cid).
    + constructor; [unfold id_lt in *; cbn; lia|constructor].
    + destruct (N.ltb_spec (c_id x) cid).
      * constructor; [assumption|]. constructor; [unfold id_lt in *; cbn; lia|constructor].
      * constructor; [assumption|constructor].
  - constructor; [assumption|]. apply IH; [discriminate|assumption].
Qed.

Lemma jappend_sorted j cid evs : sorted j -> sorted (jappend j cid evs).
Proof.
  induction j as [|x j IH]; intros Hs; cbn [jappend].
  - constructor; constructor.
  - destruct j as [|y j].
    + destruct (N.eqb_spec (c_id x) cid); [constructor; constructor|].
      destruct (N.ltb_spec (c_id x) cid); [|assumption].
      constructor; [constructor; constructor|]. constructor; [unfold id_lt; cbn; lia|constructor].
    + constructor; [apply IH; eapply sorted_tail; eassumption|].
      apply jappend_ids; [discriminate|eapply sorted_head; eassumption].
Qed.

Lemma jappend_recs j cid evs : exists more, recs (jappend j cid evs) = recs j ++ more.
Proof.
  unfold recs. induction j as [|x j IH]; cbn [jappend].
  - exists evs. cbn. apply app_nil_r.
  - destruct j as [|y j].
    + destruct (N.eqb_spec (c_id x) cid).
      * exists evs. cbn. rewrite !app_nil_r. reflexivity.
      * destruct (N.ltb_spec (c_id x) cid); [exists evs|exists []]; cbn; rewrite ?app_nil_r; reflexivity.
    + destruct IH as [more IH]. exists more. cbn [flat_map]. rewrite IH. cbn. rewrite <- !app_assoc. reflexivity.
Qed.

Lemma jappend_before j cid evs x : sorted j -> (forall l, last_chunk j = Some l -> (x <= c_id l)%N) -> j <> [] ->
  before (jappend j cid evs) x = before j x.
Proof.
  induction j as [|y j IH]; intros Hs Hl Hne; [congruence|]. cbn [jappend]. destruct j as [|z j].
  - specialize (Hl y eq_refl).
    destruct (N.eqb_spec (c_id y) cid).
    + cbn. destruct (N.ltb_spec cid x); destruct (N.ltb_spec (c_id y) x); try lia.
    + destruct (N.ltb_spec (c_id y) cid); [|reflexivity].
      cbn. destruct (N.ltb_spec (c_id y) x); lia.
  - cbn [before]. destruct (N.ltb_spec (c_id y) x); [|reflexivity]. f_equal.
    apply IH; [eapply sorted_tail; eassumption| |discriminate].
    intros l El. apply Hl. cbn [last_chunk] in *. rewrite El. reflexivity.
Qed.

Lemma jappend_find j cid evs x : sorted j -> (forall l, last_chunk j = Some l -> (x <= c_id l)%N) -> j <> [] ->
  match find_chunk j x with
  | Some c => exists c', find_chunk (jappend j cid evs) x = Some c' /\ exists more, c_recs c' = c_recs c ++ more
  | None => find_chunk (jappend j cid evs) x = None
  end.
Proof.
  induction j as [|y j IH]; intros Hs Hl Hne; [congruence|]. cbn [jappend]. destruct j as [|z j].
  - specialize (Hl y eq_refl).
    destruct (N.eqb_spec (c_id y) cid) as [E|E].
    + subst cid. cbn. destruct (N.eqb_spec (c_id y) x).
      * eexists. split; [reflexivity|]. cbn. eauto.
      * reflexivity.
    + destruct (N.ltb_spec (c_id y) cid).
      * cbn. destruct (N.eqb_spec (c_id y) x).
        -- eexists. split; [reflexivity|]. exists []. rewrite app_nil_r. reflexivity.
        -- destruct (N.eqb_spec cid x); [lia|reflexivity].
      * cbn. destruct (N.eqb_spec (c_id y) x); [|reflexivity].
        eexists. split; [reflexivity|]. exists []. rewrite app_nil_r. reflexivity.
  - cbn [find_chunk]. destruct (N.eqb_spec (c_id y) x).
    + eexists. split; [reflexivity|]. exists []. rewrite app_nil_r. reflexivity.
    + apply IH; [eapply sorted_tail; eassumption| |discriminate].
      intros l El. apply Hl. cbn [last_chunk] in *. rewrite El. reflexivity.
Qed.

Lemma jappend_last j cid evs l : sorted j -> last_chunk j = Some l ->
  exists l', last_chunk (jappend j cid evs) = Some l' /\ (c_id l <= c_id l')%N.
Proof.
  induction j as [|y j IH]; intros Hs Hl; [discriminate|]. cbn [jappend]. destruct j as [|z j].
  - cbn in Hl. injection Hl as <-.
    destruct (N.eqb_spec (c_id y) cid); [eexists; split; [reflexivity|cbn; lia]|].
    destruct (N.ltb_spec (c_id y) cid); eexists; (split; [reflexivity|cbn; lia]).
  - assert (last_chunk (z :: j) = Some l) as Hl2.
    { cbn [last_chunk] in Hl. destruct (last_chunk_some z j) as [q Hq]. cbn [last_chunk] in Hq. rewrite Hq in Hl. rewrite <- Hl. exact Hq. }
    destruct (IH (sorted_tail _ _ Hs) Hl2) as [l' [A B]]. exists l'. split; [|assumption].
    cbn [last_chunk]. cbn [last_chunk] in A. rewrite A. reflexivity.
Qed.

Lemma spos_append j cid evs pos : sorted j -> spos j pos ->
  spos (jappend j cid evs) pos /\ flat (jappend j cid evs) pos = flat j pos.
Proof.
  intros Hs [Hv Hl]. destruct j as [|y j].
  - cbn in Hl. subst pos. cbn [jappend]. split.
    + split; [intros c Hc; cbn; lia|]. cbn. lia.
    + unfold flat. cbn. destruct (N.ltb_spec cid 0); [lia|]. destruct (cid =? 0)%N; cbn; reflexivity.
  - destruct (last_chunk_some y j) as [l El]. rewrite El in Hl.
    assert (forall l0, last_chunk (y :: j) = Some l0 -> (fst pos <= c_id l0)%N) as Hl' by (intros l0 E0; congruence).
    pose proof (jappend_before (y :: j) cid evs (fst pos) Hs Hl' ltac:(discriminate)) as Hb.
    pose proof (jappend_find (y :: j) cid evs (fst pos) Hs Hl' ltac:(discriminate)) as Hf.
    destruct (jappend_last (y :: j) cid evs l Hs El) as [l' [El' Hle]].
    split.
    + split.
      * intros c Hc. destruct (find_chunk (y :: j) (fst pos)) as [c0|] eqn:E0.
        -- destruct Hf as [c' [Hc' [more Hm]]]. rewrite Hc in Hc'. injection Hc' as <-.
           specialize (Hv c0 E0). unfold cnt in *. rewrite Hm, app_length. lia.
        -- congruence.
      * rewrite El'. lia.
    + unfold flat. rewrite Hb. f_equal. destruct (find_chunk (y :: j) (fst pos)) as [c0|] eqn:E0.
      * destruct Hf as [c' [Hc' [more Hm]]]. rewrite Hc'. specialize (Hv c0 E0).
        rewrite Hm, app_length. unfold cnt in Hv.
        assert (N.to_nat (snd pos) <= length (c_recs c0)) by lia. lia.
      * rewrite Hf. reflexivity.
Qed.

Lemma wfj_append j cid evs it : sorted j -> wfj j it -> spos j (jit_pos it) -> wfj (jappend j cid evs) it.
Proof.
  intros Hs [Hb Hw] [Hv Hl]. split; [assumption|]. destruct (j_ci it) as [p|]; [|exact I].
  destruct Hw as [Hp [c [Hf Hle]]]. split; [assumption|].
  destruct j as [|y j]; [discriminate|].
  destruct (last_chunk_some y j) as [l El]. rewrite El in Hl.
  assert (forall l0, last_chunk (y :: j) = Some l0 -> (fst (jit_pos it) <= c_id l0)%N) as Hl' by (intros l0 E0; congruence).
  pose proof (jappend_find (y :: j) cid evs (fst (jit_pos it)) Hs Hl' ltac:(discriminate)) as Hfi.
  cbn [jit_pos fst] in Hfi. rewrite Hf in Hfi. destruct Hfi as [c' [Hc' [more Hm]]].
  exists c'. split; [assumption|]. unfold cnt in *. rewrite Hm, app_length. lia.
Qed.

(* positions produced by the iterator are stable *)
Lemma spos_of_open j it : sorted j -> wfj j it -> j_ci it <> None -> spos j (jit_pos it).
Proof.
  intros Hs [Hb Hw] Ho. destruct (j_ci it) as [p|]; [|congruence]. destruct Hw as [Hp [c [Hf Hle]]].
  split.
  - intros c0 Hc0. cbn in *. rewrite Hf in Hc0. injection Hc0 as <-. lia.
  - destruct (last_chunk j) as [l|] eqn:El.
    + pose proof (last_ge j Hs l c El (find_chunk_in _ _ _ Hf)). rewrite (find_chunk_id _ _ _ Hf) in H. exact H.
    + destruct j; [discriminate|]. destruct (last_chunk_some c0 j). congruence.
Qed.

Lemma ensure_closed_spos j it it' : sorted j -> spos j (jit_pos it) -> j_ci it = None -> ensure j it = (it', false) ->
  spos j (jit_pos it').
Proof.
  intros Hs Hsp Hci He. unfold ensure in He. rewrite Hci in He.
  pose proof (chunk_ge_spec j Hs (j_cid it)) as G. destruct (chunk_ge j (j_cid it)) as [c|].
  - destruct (N.ltb_spec (c_id c) (j_cid it)); [|discriminate]. injection He as <-.
    inversion G as [|c' Hf Hc Hbe Hn|c' Hf Hc Hbe Hb2 Hn]; subst c'; [lia|].
    split.
    + intros c0 Hc0. cbn in *. rewrite Hf in Hc0. injection Hc0 as <-. lia.
    + cbn. destruct (last_chunk j) as [l|] eqn:El.
      * apply (last_ge j Hs l c El (find_chunk_in _ _ _ Hf)).
      * destruct j; [discriminate|]. destruct (last_chunk_some c0 j). congruence.
  - injection He as <-. assumption.
Qed.

Lemma get_loop_spos j : sorted j -> forall fuel it it' r, wfj j it -> j_ci it <> None -> count_gt j (j_cid it) < fuel ->
  get_loop fuel j it = (it', r) -> spos j (jit_pos it').
Proof.
  intros Hs. induction fuel as [|f IH]; intros it it' r Hw Hopen Hfuel Hg; [lia|].
  cbn [get_loop] in Hg. destruct (ci_read j it) as [e|] eqn:Er.
  - injection Hg as <- <-. apply spos_of_open; assumption.
  - destruct Hw as [Hb Hw]. destruct (j_ci it) as [p|] eqn:Eci; [|congruence].
    destruct Hw as [Hp [c [Hf Hle]]].
    assert (wfj j (advance it)) as Hwa by (split; [assumption|exact I]).
    destruct (ensure j (advance it)) as [it2 ok] eqn:Ee.
    destruct (ensure_spec j _ _ _ Hs Hwa Ee) as [Hw2 [Hfl2 [Hok Hnok]]].
    destruct ok.
    + specialize (Hok eq_refl).
      assert (count_gt j (j_cid it2) < f) as Hm.
      { destruct Hw2 as [_ Hw2]. destruct (j_ci it2) as [p2|] eqn:E2; [|congruence].
        destruct Hw2 as [_ [c2 [Hf2 _]]].
        assert (j_cid it < j_cid it2)%N as Hlt.
        { unfold ensure in Ee. cbn in Ee. pose proof (chunk_ge_spec j Hs (j_cid it + 1)) as G.
          destruct (chunk_ge j (j_cid it + 1)) as [cc|]; [|discriminate Ee].
          destruct (N.ltb_spec (c_id cc) (j_cid it + 1)); [discriminate Ee|].
          injection Ee as <-. cbn. lia. }
        pose proof (count_gt_lt j _ _ _ Hf2 Hlt). lia. }
      apply (IH it2 it' r Hw2 Hok Hm Hg).
    + injection Hg as <- <-.
      (* the closing ensure returned EOF: the position is the end of the last chunk *)
      unfold ensure in Ee. cbn [advance j_ci j_cid j_idx j_bad] in Ee.
      pose proof (chunk_ge_spec j Hs (j_cid it + 1)) as G. destruct (chunk_ge j (j_cid it + 1)) as [cc|].
      * destruct (N.ltb_spec (c_id cc) (j_cid it + 1)); [|discriminate]. injection Ee as <-.
        inversion G as [|c' Hf' Hc Hbe Hn|c' Hf' Hc Hbe Hb2 Hn]; subst c'; [lia|].
        split.
        -- intros c0 Hc0. cbn in *. rewrite Hf' in Hc0. injection Hc0 as <-. lia.
        -- cbn. destruct (last_chunk j) as [l|] eqn:El.
           ++ apply (last_ge j Hs l cc El (find_chunk_in _ _ _ Hf')).
           ++ destruct j; [discriminate|]. destruct (last_chunk_some c0 j). congruence.
      * inversion G as [Hj| |]. subst j. discriminate.
Qed.

Lemma jit_get_spos j it it' r : sorted j -> wfj j it -> spos j (jit_pos it) -> jit_get j it = (it', r) -> spos j (jit_pos it').
Proof.
  intros Hs Hw Hsp Hg. unfold jit_get in Hg. destruct (ensure j it) as [it1 ok] eqn:Ee.
  destruct (ensure_spec j _ _ _ Hs Hw Ee) as [Hw1 [Hfl1 [Hok Hnok]]]. destruct ok.
  - assert (count_gt j (j_cid it1) < S (length j)) as Hm by (pose proof (count_gt_le j (j_cid it1)); lia).
    apply (get_loop_spos j Hs _ _ _ _ Hw1 (Hok eq_refl) Hm Hg).
  - injection Hg as <- <-. destruct (j_ci it) eqn:Eci.
    + unfold ensure in Ee. rewrite Eci in Ee. discriminate.
    + apply (ensure_closed_spos j it it1 Hs Hsp Eci Ee).
Qed.

Lemma jit_next_spos j it : sorted j -> wfj j it -> spos j (jit_pos it) -> spos j (jit_pos (jit_next j it)).
Proof.
  intros Hs Hw Hsp. destruct (jit_next_spec j it Hs Hw) as [Hwn _].
  unfold jit_next in *. destruct (jit_get j it) as [it1 r] eqn:Eg.
  pose proof (jit_get_spos j _ _ _ Hs Hw Hsp Eg) as Hs1.
  destruct (j_ci it1) as [p|] eqn:Eci; [|assumption].
  apply spos_of_open; [assumption|assumption|cbn; congruence].
Qed.
