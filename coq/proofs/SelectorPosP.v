(* A range read continued from a saved position (model/Selector.v range_read_from): what the position denotes when its
   chunk was removed meanwhile. *)
From LR Require Import lib.Base model.TmTree model.CIndex model.Selector proofs.TmTreeP proofs.CIndexP proofs.SelectorP proofs.SelectorInvP proofs.SelectorRunP.
Open Scope Z_scope.

Lemma jit_chunk_from_0 st data : jit_chunk_from st data 0 = jit_chunk st data.
Proof. reflexivity. Qed.

(* once the walk has started the position plays no part: the rest is read_chunks *)
Lemma read_from_started carry v ci t1 t2 pc pi : forall infos cks q,
  read_chunks_from carry v ci t1 t2 pc pi true infos cks q = read_chunks v ci t1 t2 infos cks q.
Proof.
  induction infos as [|k itl IH]; intros cks q; [reflexivity|]. destruct cks as [|[cid data] ctl]; [reflexivity|].
  cbn [read_chunks_from read_chunks negb andb].
  destruct (update_poss v ci t1 t2 (k_id k) (k_rmin k) (k_rmax k) (Z.of_nat (length data))) as [st rb].
  rewrite IH. rewrite jit_chunk_from_0. reflexivity.
Qed.

(* the rebuild requests do not depend on the position either *)
Lemma read_from_queue carry v ci t1 t2 pc pi : forall infos cks q started,
  snd (read_chunks_from carry v ci t1 t2 pc pi started infos cks q) = snd (read_chunks v ci t1 t2 infos cks q).
Proof.
  induction infos as [|k itl IH]; intros cks q started; [reflexivity|]. destruct cks as [|[cid data] ctl]; [reflexivity|].
  cbn [read_chunks_from read_chunks].
  destruct (update_poss v ci t1 t2 (k_id k) (k_rmin k) (k_rmax k) (Z.of_nat (length data))) as [st rb].
  set (q' := if rb then enqueue q cid else q).
  destruct (negb started && (cid <? pc)).
  - rewrite IH. destruct (read_chunks v ci t1 t2 itl ctl q'). reflexivity.
  - specialize (IH ctl q' true). destruct (read_chunks_from carry v ci t1 t2 pc pi true itl ctl q') as [e1 q1].
    destruct (read_chunks v ci t1 t2 itl ctl q') as [e2 q2]. cbn [snd] in *. exact IH.
Qed.

(* (1) the chunk of the position does not exist (any more): the record index of the position is ignored - the
       position denotes the first record of the first existing chunk after it *)
Lemma read_from_vanished v ci t1 t2 pc pi : forall infos cks q,
  (forall c, In c (ids_of cks) -> c <> pc) ->
  read_chunks_from false v ci t1 t2 pc pi false infos cks q = read_chunks_from false v ci t1 t2 pc 0 false infos cks q.
Proof.
  induction infos as [|k itl IH]; intros cks q Hno; [reflexivity|]. destruct cks as [|[cid data] ctl]; [reflexivity|].
  cbn [read_chunks_from negb andb orb].
  destruct (update_poss v ci t1 t2 (k_id k) (k_rmin k) (k_rmax k) (Z.of_nat (length data))) as [st rb].
  assert (Hne : cid <> pc) by (apply Hno; left; reflexivity).
  destruct (cid <? pc).
  - apply IH. intros c Hc. apply Hno. right. exact Hc.
  - destruct (Z.eqb_spec cid pc) as [E|_]; [contradiction|]. rewrite !read_from_started. reflexivity.
Qed.

(* (2) a position before every existing chunk: the whole range read *)
Lemma read_from_before_all v ci t1 t2 pc : forall infos cks q,
  (forall c, In c (ids_of cks) -> pc <= c) ->
  read_chunks_from false v ci t1 t2 pc 0 false infos cks q = read_chunks v ci t1 t2 infos cks q.
Proof.
  intros infos cks q Hall. destruct infos as [|k itl]; [reflexivity|]. destruct cks as [|[cid data] ctl]; [reflexivity|].
  cbn [read_chunks_from read_chunks negb andb orb].
  destruct (update_poss v ci t1 t2 (k_id k) (k_rmin k) (k_rmax k) (Z.of_nat (length data))) as [st rb].
  assert (Hle : pc <= cid) by (apply Hall; left; reflexivity).
  destruct (Z.ltb_spec cid pc) as [Hlt|_]; [lia|]. rewrite read_from_started.
  destruct (cid =? pc); rewrite jit_chunk_from_0; reflexivity.
Qed.

(* the statements for whole reads *)
Theorem position_of_removed_chunk v st pc pi o1 o2 :
  (forall c, In c (ids_of (p_chunks st)) -> c <> pc) ->
  range_read_from false v st pc pi o1 o2 = range_read_from false v st pc 0 o1 o2.
Proof. intros H. unfold range_read_from. rewrite (read_from_vanished v _ _ _ pc pi _ _ _ H). reflexivity. Qed.

Theorem position_before_all_chunks v st pc pi o1 o2 :
  (forall c, In c (ids_of (p_chunks st)) -> pc < c) ->
  range_read_from false v st pc pi o1 o2 = range_read v st o1 o2.
Proof.
  intros H. rewrite position_of_removed_chunk by (intros c Hc; specialize (H c Hc); lia).
  unfold range_read_from, range_read. rewrite read_from_before_all by (intros c Hc; specialize (H c Hc); lia). reflexivity.
Qed.

(* a read from a saved position has the effect of a fresh read on the index state (SyncChunks, rebuild requests) *)
Theorem range_read_from_state carry v st pc pi o1 o2 : snd (range_read_from carry v st pc pi o1 o2) = snd (range_read v st o1 o2).
Proof.
  unfold range_read_from, range_read.
  pose proof (read_from_queue carry v (ci_sync (p_ci st) (p_chunks st)) (eff_t1 v o1) (eff_t2 o2) pc pi
               (ci_sync (p_ci st) (p_chunks st)) (p_chunks st) (p_queue st) false) as H.
  destruct (read_chunks_from carry v (ci_sync (p_ci st) (p_chunks st)) (eff_t1 v o1) (eff_t2 o2) pc pi false
              (ci_sync (p_ci st) (p_chunks st)) (p_chunks st) (p_queue st)) as [e1 q1].
  destruct (read_chunks v (ci_sync (p_ci st) (p_chunks st)) (eff_t1 v o1) (eff_t2 o2) (ci_sync (p_ci st) (p_chunks st)) (p_chunks st) (p_queue st)) as [e2 q2].
  cbn [snd] in *. rewrite H. reflexivity.
Qed.

(* hence: a query read 120 records into chunk 1, chunk 1 is truncated away, the query is continued from the saved
   position: under the hypotheses of complete_fixed it delivers exactly the in-range events that still exist *)
Theorem continued_after_truncation hist k pc pi o1 o2 :
  let st := truncate k (run fixed_variant hist) in
  (forall c, In c (ids_of (p_chunks st)) -> pc < c) ->
  complete_at fixed_variant st o1 o2 ->
  fst (range_read_from false fixed_variant st pc pi o1 o2) = filter (in_range_opt o1 o2) (read_all st).
Proof. intros st H Hc. rewrite (position_before_all_chunks fixed_variant st pc pi o1 o2 H). exact Hc. Qed.

(* ---------- the refutation of the carried-over index ---------- *)
Definition pos_wit_st : pstate :=
  truncate 1 (run impl_variant [HBatch [mkseg 1 false (map Z.of_nat (seq 1 300)); mkseg 2 false (map Z.of_nat (seq 301 300))];
                                HRead (Some 0) (Some 1000)]).
Lemma carried_index_refuted :
  (forall c, In c (ids_of (p_chunks pos_wit_st)) -> 1 < c) /\
  length (fst (range_read_from false impl_variant pos_wit_st 1 120 (Some 0) (Some 1000))) = 300%nat /\
  length (fst (range_read impl_variant pos_wit_st (Some 0) (Some 1000))) = 300%nat /\
  length (fst (range_read_from true impl_variant pos_wit_st 1 120 (Some 0) (Some 1000))) = 180%nat.
Proof. split; [intros c Hc; vm_compute in Hc; destruct Hc as [<-|[]]; lia|]. repeat split; vm_compute; reflexivity. Qed.
