(* Lemmas about model/LineReader.v: what a ReadSlice result is, as a piece of the unread bytes. *)
From LR Require Import lib.Base model.LineReader.

Lemma byte_eqb_neq a b : byte_eqb a b = false -> a <> b.
Proof. intros H E. subst. rewrite byte_eqb_refl in H. discriminate. Qed.

(* a found line is a prefix of the unread bytes: its only delimiter is its last byte *)
Lemma take_line_some n l x : take_line n l = Some x ->
  exists pre rest, x = pre ++ [nl] /\ l = x ++ rest /\ ~ In nl pre /\ length x <= n.
Proof.
  revert l x. induction n as [|n IH]; intros [|y l] x H; cbn in H; try discriminate.
  destruct (byte_eqb y nl) eqn:E.
  - injection H as <-. apply byte_eqb_eq in E. subst y. exists [], l. cbn. repeat split; auto; lia.
  - destruct (take_line n l) as [x'|] eqn:T; cbn in H; [|discriminate]. injection H as <-.
    destruct (IH l x' T) as (pre & rest & -> & -> & NI & L).
    exists (y :: pre), rest. cbn. repeat split; auto.
    + intros [F|F]; [apply byte_eqb_neq in E; congruence|exact (NI F)].
    + cbn in L. lia.
Qed.

Lemma take_line_none n l : take_line n l = None -> ~ In nl (firstn n l).
Proof.
  revert l. induction n as [|n IH]; intros [|y l] H; cbn in *; try tauto.
  destruct (byte_eqb y nl) eqn:E; [discriminate|].
  destruct (take_line n l) eqn:T; cbn in H; [discriminate|].
  intros [F|F]; [apply byte_eqb_neq in E; congruence|exact (IH l T F)].
Qed.

Lemma firstn_len_firstn' (A : Type) (k : nat) (l : list A) : firstn (length (firstn k l)) l = firstn k l.
Proof.
  revert l. induction k as [|k IH]; intros l; [reflexivity|].
  destruct l as [|a l]; [reflexivity|]. cbn. f_equal. apply IH.
Qed.

(* what ReadSlice returns is always a prefix of what was unread *)
Lemma read_slice_prefix B l x st : read_slice B l = (x, st) -> x = firstn (length x) l.
Proof.
  unfold read_slice. destruct (take_line B l) as [y|] eqn:T.
  - intros H. injection H as <- <-. destruct (take_line_some _ _ _ T) as (pre & rest & _ & E & _).
    rewrite E. rewrite firstn_app, Nat.sub_diag, firstn_all. cbn. rewrite app_nil_r. reflexivity.
  - destruct (Nat.leb B (length l)) eqn:L; intros H; injection H as <- <-.
    + symmetry. apply firstn_len_firstn'.
    + rewrite firstn_all. reflexivity.
Qed.

Lemma read_slice_line B l x : read_slice B l = (x, RsLine) ->
  exists pre, x = pre ++ [nl] /\ ~ In nl pre /\ length x <= B.
Proof.
  unfold read_slice. destruct (take_line B l) as [y|] eqn:T.
  - intros H. injection H as <-. destruct (take_line_some _ _ _ T) as (pre & rest & E & _ & NI & L). eauto.
  - destruct (Nat.leb B (length l)); discriminate.
Qed.

Lemma read_slice_full B l x : read_slice B l = (x, RsFull) -> length x = B /\ ~ In nl x.
Proof.
  unfold read_slice. destruct (take_line B l) as [y|] eqn:T; [discriminate|].
  destruct (Nat.leb B (length l)) eqn:L; [|discriminate]. intros H. injection H as <-.
  apply Nat.leb_le in L. split; [rewrite firstn_length; lia|exact (take_line_none _ _ T)].
Qed.

Lemma read_slice_eof B l x : read_slice B l = (x, RsEof) -> x = l /\ ~ In nl l /\ length l < B.
Proof.
  unfold read_slice. destruct (take_line B l) as [y|] eqn:T; [discriminate|].
  destruct (Nat.leb B (length l)) eqn:L; [discriminate|]. intros H. injection H as <-.
  apply Nat.leb_gt in L. split; [reflexivity|]. split; [|exact L].
  pose proof (take_line_none _ _ T) as N. rewrite firstn_all2 in N by lia. exact N.
Qed.


(* one turn of readLine, as an account of the unread bytes *)
Lemma read_line_turn_line lp B buf l n line : 0 < B -> read_line_turn lp B buf l = (n, RlLine line) ->
  line = buf ++ firstn n l /\ n <= length l /\ 0 < n /\ good_rec B line.
Proof.
  intros HB. unfold read_line_turn. destruct (read_slice B l) as [x st] eqn:R.
  pose proof (read_slice_prefix _ _ _ _ R) as P.
  assert (LL : length x <= length l).
  { rewrite P. rewrite firstn_length. lia. }
  destruct st.
  - intros H. injection H as <- <-. destruct (read_slice_line _ _ _ R) as (pre & E & NI & L).
    repeat split; try assumption.
    + f_equal. exact P.
    + rewrite E, app_length. cbn. lia.
    + left. exists (buf ++ pre). rewrite E, app_assoc. reflexivity.
  - intros H. injection H as <- <-. destruct (read_slice_full _ _ _ R) as (L & NI).
    repeat split; try assumption.
    + f_equal. exact P.
    + lia.
    + right. split; [rewrite app_length; lia|]. destruct x; [cbn in L; lia|]. destruct buf; discriminate.
  - destruct lp; [destruct (buf ++ x)|]; discriminate.
Qed.

(* the sleep inside readLine: only the reader that loops *)
Lemma read_line_turn_sleep lp B buf l n b' : read_line_turn lp B buf l = (n, RlSleep b') ->
  b' = buf ++ l /\ n = length l /\ ~ In nl l /\ b' <> [] /\ lp = true.
Proof.
  unfold read_line_turn. destruct (read_slice B l) as [x st] eqn:R. destruct st; try discriminate.
  destruct (read_slice_eof _ _ _ R) as (-> & NI & _).
  destruct lp; [|discriminate].
  destruct (buf ++ l) eqn:E; [discriminate|]. intros H. injection H as <- <-. repeat split; auto. discriminate.
Qed.

(* (nil, io.EOF): everything unread has been consumed into the partial line kept for the next call;
   the reader that loops returns it only with nothing kept *)
Lemma read_line_turn_eof lp B buf l n b' : read_line_turn lp B buf l = (n, RlEof b') ->
  b' = buf ++ l /\ n = length l /\ ~ In nl l /\ (lp = true -> b' = []).
Proof.
  unfold read_line_turn. destruct (read_slice B l) as [x st] eqn:R. destruct st; try discriminate.
  destruct (read_slice_eof _ _ _ R) as (-> & NI & _).
  destruct lp.
  - destruct (buf ++ l) eqn:E; [|discriminate]. intros H. injection H as <- <-. repeat split; auto.
  - intros H. injection H as <- <-. repeat split; auto. discriminate.
Qed.
