(* The statements of C16 at the level of whole stores (the vocabulary of the correspondence check, lib/CursorK.v):
   what `model_query` returns for POSITION head/tail with an offset, against the forward read of the same store. *)
From LR Require Import lib.Base model.Iter model.Mixer model.Offset proofs.MixerP proofs.IterP proofs.OffsetP lib.CursorK.
From Coq Require Import Permutation.
Open Scope Z_scope.

(* a request on a store, with a page limit that never cuts the answer (fuel_of exceeds the number of stored events) *)
Definition store_read (srcs : list srcspec) (f : option flt) (p : posspec) (offs : Z) : option (list item) :=
  match model_query srcs f p offs (fuel_of srcs) with QOk xs _ => Some xs | _ => None end.

(* sources read without RANGE: in-memory sources and journals (ids increasing, no empty chunk) behind the journal
   iterator of the range library *)
Definition plain_src (s : srcspec) : Prop :=
  match s with SJrn _ r chunks => r = false /\ wf_journal (mk_journal chunks) | SMem _ _ => True end.

Lemma src_leaf_fresh s : plain_src s -> fresh_leaf (snd (src_leaf s)).
Proof. destruct s as [g recs|g r chunks]; cbn; [reflexivity|]. intros (-> & W). cbn. auto. Qed.

Lemma flat_length chunks : length (flat (mk_journal chunks)) = fold_right (fun c n => (length (snd (fst c)) + n)%nat) O chunks.
Proof.
  induction chunks as [|c tl IH]; [reflexivity|]. cbn [mk_journal map fold_right]. rewrite flat_cons, app_length. cbn [c_recs].
  unfold mk_journal in IH. rewrite IH. reflexivity.
Qed.

Lemma head_leaf_size s : plain_src s -> length (leaf_rest (l_set_pos 0 0 (snd (src_leaf s)))) = src_size s.
Proof.
  destruct s as [g recs|g r chunks]; cbn [plain_src src_leaf snd src_size].
  - intros _. cbn [l_set_pos leaf_rest].
    destruct (Z.gtb_spec 0 (Z.of_nat g + 1)); [lia|]. destruct (Z.ltb_spec 0 (Z.of_nat g + 1)); [|lia].
    unfold ci_set_pos. cbn [ci_pos Z.eqb]. unfold mem_rest, rest_at. cbn. reflexivity.
  - intros (-> & W). cbn [l_set_pos]. unfold jit_set_pos. cbn [jit_at j_cid j_idx Z.eqb andb]. cbn [leaf_rest j_bk].
    rewrite (lr_pos_head _ W), rest_at_fwd_neg by lia. apply flat_length.
Qed.

Lemma concat_map_length {A B} (g : A -> list B) (l : list A) :
  length (concat (map g l)) = fold_right (fun s n => (length (g s) + n)%nat) O l.
Proof. induction l as [|a l IH]; [reflexivity|]. cbn. rewrite app_length, IH. reflexivity. Qed.

Lemma fold_sum_ext {A} (g1 g2 : A -> nat) (l : list A) : (forall s, In s l -> g1 s = g2 s) ->
  fold_right (fun s n => (g1 s + n)%nat) O l = fold_right (fun s n => (g2 s + n)%nat) O l.
Proof. induction l as [|a l IH]; intros H; [reflexivity|]. cbn. rewrite (H a (or_introl eq_refl)), IH; [reflexivity|]. intros s Hs. apply H. right. exact Hs. Qed.

(* the cursor over a store of plain sources at POSITION head stands for a list of as many events as are stored *)
Lemma head_cursor (srcs : list srcspec) f : srcs <> [] -> (length srcs <= merge_limit)%nat -> Forall plain_src srcs ->
  exists c, new_cursor (map src_leaf srcs) f PHead = Some c /\
    cinv leaf_rest (leaf_ok false) false f sett_l c (content leaf_rest false (cu_tree c)) /\
    (length (content leaf_rest false (cu_tree c)) < fuel_of srcs)%nat.
Proof.
  intros N Hl P.
  assert (N' : map src_leaf srcs <> []) by (destruct srcs; [congruence|discriminate]).
  assert (F : Forall (fun s => fresh_leaf (snd s)) (map src_leaf srcs)).
  { apply Forall_forall. intros s Hs. apply in_map_iff in Hs. destruct Hs as (s0 & <- & Hs0). apply src_leaf_fresh.
    eapply Forall_forall in P; eassumption. }
  destruct (new_cursor_cinv (map src_leaf srcs) f PHead N' ltac:(rewrite map_length; exact Hl) F I) as (c & E & _ & Inv & h & Lv & Hh).
  exists c. split; [exact E|]. split; [exact Inv|].
  rewrite (Permutation_length (content_perm leaf_rest false (cu_tree c))), Lv, map_map, concat_map_length. unfold fuel_of.
  match goal with |- (?a < _)%nat => assert (H : a = fold_right (fun s n => (src_size s + n)%nat) O srcs) end; [|rewrite H; lia].
  clear - P Hh. induction srcs as [|s tl IH]; [reflexivity|]. cbn [map fold_right]. inversion P; subst. f_equal.
  - cbn [fst snd]. unfold leaf_items. rewrite map_length.
    destruct (Hh (src_leaf s)) as (_ & Hd & _); [left; reflexivity|]. rewrite (Hd eq_refl). apply head_leaf_size. assumption.
  - apply IH; [assumption|]. intros s0 Hs0. apply Hh. right. exact Hs0.
Qed.

(* POSITION head OFFSET k on a store read without RANGE (1.. partitions, any order, any WHERE filter; more than 50: both
   requests are refused): the forward read without its first k events *)
Lemma head_store (srcs : list srcspec) f (k : nat) : srcs <> [] -> Forall plain_src srcs ->
  store_read srcs f PHead (Z.of_nat k) = option_map (skipn k) (store_read srcs f PHead 0).
Proof.
  intros N P. unfold store_read, model_query.
  destruct (Nat.leb_spec (length srcs) merge_limit) as [Hl|Hl].
  - destruct (head_cursor srcs f N Hl P) as (c & E & Inv & Hf). rewrite E.
    destruct (query_positive leaf_rest (leaf_ok false) false f sett_l (leaf_get_spec false) (leaf_next_spec false) (sett_l_get false)
                c _ (fuel_of srcs) k (fuel_of srcs) Inv Hf) as (c2 & ps2 & E2).
    destruct (query_positive leaf_rest (leaf_ok false) false f sett_l (leaf_get_spec false) (leaf_next_spec false) (sett_l_get false)
                c _ (fuel_of srcs) 0 (fuel_of srcs) Inv Hf) as (c1 & ps1 & E1).
    rewrite E2. change (Z.of_nat 0) with 0 in E1. rewrite E1. cbn [option_map skipn]. f_equal.
    pose proof (filter_length_le (acc f) (content leaf_rest false (cu_tree c))) as Hfl.
    rewrite !firstn_all2; [reflexivity|lia|rewrite skipn_length; lia].
  - assert (E : forall p, new_cursor (map src_leaf srcs) f p = None).
    { intros p. unfold new_cursor. rewrite get_journals_spec. rewrite map_length.
      destruct (Nat.leb_spec (length srcs) merge_limit); [lia|reflexivity]. }
    rewrite !E. reflexivity.
Qed.

(* POSITION tail OFFSET -k on one stored partition read without RANGE (any chunk layout, any WHERE filter): the last k
   events of the forward read *)
Lemma tail_store (g : nat) chunks f (k : nat) : wf_journal (mk_journal chunks) ->
  store_read [SJrn g false chunks] f PTail (- Z.of_nat k) = option_map (lastn k) (store_read [SJrn g false chunks] f PHead 0).
Proof.
  intros W. unfold store_read, model_query. set (j := mk_journal chunks) in *. set (fuel := fuel_of [SJrn g false chunks]).
  assert (Hf : (length (flat j) < fuel)%nat).
  { unfold fuel, fuel_of, j. rewrite flat_length. cbn [fold_right src_size]. lia. }
  cbn [map src_leaf]. fold j.
  change (new_cursor [(g, LR j (jit_at 0 0))] f PTail) with (Some (mkCur (MLeaf g (LR j (mkJit MaxU64 MaxU32 None false))) f None false 1)).
  change (new_cursor [(g, LR j (jit_at 0 0))] f PHead) with (Some (mkCur (MLeaf g (LR j (jit_at 0 0))) f None false 1)).
  destruct (tail_single g j f W fuel k fuel Hf) as (c2 & ps2 & E2). rewrite E2.
  assert (Inv0 : lr_inv j (jit_at 0 0)) by (split; [exact W|cbn; unfold MaxU64, MaxU32; lia]).
  pose proof (single_cinv g j f false (jit_at 0 0) None 1 Inv0 eq_refl) as I0.
  rewrite (lr_pos_head j W), rest_at_fwd_neg in I0 by lia.
  destruct (query_positive leaf_rest (leaf_ok false) false f sett_l (leaf_get_spec false) (leaf_next_spec false) (sett_l_get false)
              _ _ fuel 0 fuel I0) as (c1 & ps1 & E1); [unfold itm; rewrite map_length; exact Hf|].
  change (Z.of_nat 0) with 0 in E1. rewrite E1. cbn [option_map skipn]. f_equal.
  pose proof (filter_length_le (acc f) (itm g (flat j))) as Hfl. unfold itm in Hfl at 2. rewrite map_length in Hfl.
  rewrite !firstn_all2; [reflexivity|lia|unfold lastn; rewrite skipn_length; lia].
Qed.
